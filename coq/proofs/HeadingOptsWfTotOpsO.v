(* Totality of the heading-options model, block phase (files HeadingOptsWfTot...): the ATX heading Open with the
   Attribute option, atx_open_h, is total under the preconditions of the core Open lemmas, satisfies the core
   postcondition open_post PATX, and the lines of the new heading are olineE (inside the source, no padding,
   possibly empty).  Also: the two small facts about the lines of a paragraph that was closed and transformed
   (they have no padding), used for the temporary paragraph of a Setext heading. *)
Require Import GM.model.Base GM.model.Util GM.model.Reader GM.model.ReaderSpec GM.model.Blocks GM.model.ListItem
               GM.model.LeafBlocks GM.model.CodeBlock GM.model.LinkDest GM.model.Regex GM.model.BlockParse
               GM.model.HtmlWriter GM.model.Html GM.model.Attr GM.model.Ids GM.model.HeadingOpts.
Require Import GM.proofs.ReaderProofs GM.proofs.BlocksProofs GM.proofs.BlockRangeProofs
               GM.proofs.ParseBlocksTotalReader GM.proofs.ParseBlocksTotalDefs GM.proofs.ParseBlocksTotalSpec
               GM.proofs.ParseBlocksTotalSt GM.proofs.HeadingOptsWfTotShape
               GM.proofs.ParseBlocksTotalLeaf GM.proofs.HeadingOptsWfDefs GM.proofs.HeadingOptsWfAttr.
From Coq Require Import ZArith Lia List Bool.
Import ListNotations.
Open Scope Z_scope.

Section S.
Variable hc : hcfg.
Variable space_table punct_table : list N.
Variable src : bytes.
Hypothesis tbl : TblOK space_table.
Hypothesis attr_total : AttrTotal space_table punct_table.
Notation SI := (SI space_table src).
Notation open_post := (open_post space_table src).
Notation parse_attrs := (ParseAttributesModel space_table punct_table).
Notation AOH := (atx_open_h hc space_table punct_table).

(* ---------------------------------------------------------------------------------------- *)
(* the scan for the closing sequence of '#'                                                   *)
Lemma closure_scan_ok line stop : stop <= zlen line -> forall fuel j, 0 <= j -> (Z.to_nat (stop - j) < fuel)%nat ->
  exists o, closure_scan space_table punct_table fuel line j stop = Ok o /\
    forall co cc, o = Some (co, cc) -> j + 1 <= co /\ co < stop /\ co <= cc.
Proof.
  intros Hstop. induction fuel as [|f IH]; intros j Hj Hf; [lia|]. cbn [closure_scan].
  destruct (Z.ltb_spec j stop) as [Hlt|Hge].
  2:{ exists None. split; [reflexivity|]. intros co cc C. discriminate. }
  unfold at_. destruct (Z.leb_spec 0 j) as [_|C]; [|lia]. destruct (Z.ltb_spec j (zlen line)) as [_|C]; [|lia].
  cbn [andb bind].
  match goal with |- context [if ?b then closure_scan _ _ f line (j + 2) stop else _] => destruct b end.
  { destruct (IH (j + 2) ltac:(lia) ltac:(lia)) as (o & E & P). exists o. split; [exact E|].
    intros co cc C. specialize (P co cc C). lia. }
  match goal with |- context [if ?b then Ok (Some _) else _] => destruct b eqn:Eb end.
  { eexists. split; [reflexivity|]. intros co cc C. injection C as <- <-.
    apply andb_true_iff in Eb. destruct Eb as [Eb _]. apply andb_true_iff in Eb. destruct Eb as [_ Eb]. apply Z.ltb_lt in Eb.
    pose proof (br_count_byte_range 35 (zfirst (stop - (j + 1)) (zskip (j + 1) line))). lia. }
  destruct (IH (j + 1) ltac:(lia) ltac:(lia)) as (o & E & P). exists o. split; [exact E|].
  intros co cc C. specialize (P co cc C). lia.
Qed.

(* origstart and stop of Open *)
Lemma atx_bounds_ok line pos a : 0 <= pos -> atx_open space_table line pos = Ok (Some a) ->
  forall os st, atx_bounds space_table line pos = Some (os, st) -> pos + 1 <= os /\ os <= zlen line - 1 /\ st <= zlen line.
Proof.
  intros Hpos Ha os st. unfold atx_bounds. unfold atx_open in Ha. cbv zeta in *.
  destruct (Z.ltb_spec pos 0) as [C|_]; [lia|].
  set (k := count_byte 35 (zskip pos line)) in *.
  assert (Hk : 0 <= k <= zlen (zskip pos line)) by apply br_count_byte_range.
  rewrite br_zlen_zskip in Hk.
  destruct (Z.eqb_spec (pos + k) pos) as [E|E]; [discriminate|].
  cbn [orb] in Ha.
  destruct (Z.eqb_spec (pos + k) (zlen line)) as [El|El]; [discriminate|].
  set (tl := trim_left_space_len space_table (zskip (pos + k) line)).
  assert (Htl : 0 <= tl <= zlen (zskip (pos + k) line)) by apply br_tls_range.
  rewrite br_zlen_zskip in Htl.
  pose proof (br_trs_range space_table line) as Ht.
  intros H. injection H as <- <-.
  destruct (Z.leb_spec (zlen line) (pos + k + tl)); lia.
Qed.

(* ---------------------------------------------------------------------------------------- *)
(* allocating the heading                                                                      *)
Lemma alloc_heading_post parent s s2 nd : SI s2 -> s_h s2 = s_h s -> s_c s2 = s_c s -> r_le (s_r s) (s_r s2) ->
  bk nd = BHeading -> bpar nd = None -> bch nd = [] ->
  open_post PATX parent s (st_h s2 (s_h s2 ++ [nd])) (Some (length (s_h s2), false, false)).
Proof.
  intros S2 Eh Ec Lr K P C.
  destruct (new_node_ok space_table src s2 nd S2 C P) as (N1 & _).
  { unfold node_ok. rewrite K. exact I. }
  { intros Kp. congruence. }
  rewrite new_node_eq in N1. cbn [fst] in N1. rewrite Eh in *.
  apply (open_some_leaf space_table src PATX parent s _ nd); cbn [st_h s_h s_c s_r]; auto; try discriminate.
  exact I.
Qed.

Lemma hx_s_sth_s x v : hx_s (sth_s x v) = v.
Proof. reflexivity. Qed.

(* the "!parsed" path, on a state whose reader may have moved *)
Lemma plain_ok parent s x2 level (lines : list seg) : SI (hx_s x2) -> s_h (hx_s x2) = s_h s -> s_c (hx_s x2) = s_c s ->
  r_le (s_r s) (s_r (hx_s x2)) -> Forall (olineE src) lines ->
  exists x' o,
    (let '(s', id) := new_node (hx_s x2) (set_lines (mknode BHeading level) lines) in
     Ok (sth_s x2 s', Some (id, false, false))) = Ok (x', o) /\
    open_post PATX parent s (hx_s x') o /\
    (forall id k r nd, o = Some (id, k, r) -> nth_error (s_h (hx_s x')) id = Some nd -> Forall (olineE src) (blines nd)).
Proof.
  intros S2 Eh Ec Lr Hl. rewrite new_node_eq. eexists. eexists. split; [reflexivity|]. cbn [sth_s hx_s]. split.
  - apply alloc_heading_post; auto.
  - intros id k r nd H. injection H as <- _ _. cbn [st_h s_h]. rewrite nth_error_alloc_new. intros H. injection H as <-.
    exact Hl.
Qed.

(* the segment of line[a:b] of the peeked line *)
Lemma line_seg_olineE s a b : SI s -> s_pad (r_pos (s_r s)) <= a -> a <= b -> b <= zlen (sview s) ->
  olineE src (mkseg (s_start (r_pos (s_r s)) + a - s_pad (r_pos (s_r s))) (s_start (r_pos (s_r s)) + b - s_pad (r_pos (s_r s)))).
Proof.
  intros HS Ha Hab Hb. pose proof (ri_bounds _ (si_r _ _ _ HS)) as Hbd. rewrite (si_src _ _ _ HS) in Hbd.
  unfold sview in Hb. rewrite view_zlen in Hb by apply HS.
  unfold olineE. cbn [mkseg s_start s_stop s_pad s_fnl]. lia.
Qed.

(* ---------------------------------------------------------------------------------------- *)
(* atx_open_h                                                                                  *)
Lemma atx_open_h_ok x parent : SI (hx_s x) -> sin (hx_s x) -> BoffOK (hx_s x) ->
  exists x' o, AOH x = Ok (x', o) /\ open_post PATX parent (hx_s x) (hx_s x') o /\
    (forall id k r nd, o = Some (id, k, r) -> nth_error (s_h (hx_s x')) id = Some nd -> Forall (olineE src) (blines nd)).
Proof using All.
  intros HS Hin [B1 B2]. set (s := hx_s x) in *. unfold atx_open_h. fold s.
  destruct (peek_line_s_ok _ _ s HS) as [s1 (E1 & S1 & C1 & _)]. rewrite E1. cbn [bind]. cbv beta iota.
  unfold sin in Hin. rewrite Hin. cbn [line_of]. pose proof C1 as (CH & CC & CP). rewrite CC.
  set (pos := c_boff (s_c s)) in *. set (line := sview s) in *. set (sg := r_pos (s_r s)).
  pose proof (ri_bounds _ (si_r _ _ _ HS)) as Hbd.
  assert (Hx1 : hx_s (sth_s x s1) = s1) by reflexivity.
  assert (Lr1 : r_le (s_r s) (s_r s1)) by (apply same_pos_le, CP).
  destruct (br_atx_open_cases space_table line pos) as [E|[lv [Hlv E]]].
  { rewrite E. cbn [bind]. exists (sth_s x s1), None. split; [reflexivity|]. cbn [sth_s hx_s].
    split; [apply open_none; assumption|]. intros id k r nd C. discriminate. }
  assert (Ea : exists body, atx_open space_table line pos = Ok (Some (lv, body)) /\
                 Forall (olineE src) (match body with None => [] | Some (a, b) =>
                    [mkseg (s_start sg + a - s_pad sg) (s_start sg + b - s_pad sg)] end) /\ 0 <= pos).
  { assert (Hp0 : forall a, atx_open space_table line pos = Ok (Some a) -> 0 <= pos).
    { intros a. unfold atx_open. destruct (Z.ltb_spec pos 0); [discriminate|lia]. }
    destruct E as [E|(a & b & E & H1 & H2 & H3)].
    - exists None. split; [exact E|]. split; [constructor|eapply Hp0, E].
    - exists (Some (a, b)). split; [exact E|]. pose proof (Hp0 _ E) as Hp. split; [|exact Hp].
      specialize (B2 Hp). constructor; [|constructor]. apply line_seg_olineE; [exact HS|lia|lia|exact H3]. }
  clear E. destruct Ea as (body & E & Hbody & Hpos). rewrite E. cbn [bind]. cbv beta iota zeta.
  set (lines := match body with None => [] | Some (a, b) => [mkseg (s_start sg + a - s_pad sg) (s_start sg + b - s_pad sg)] end) in *.
  (* the plain path on any later state *)
  assert (Plain : forall x2, SI (hx_s x2) -> s_h (hx_s x2) = s_h s -> s_c (hx_s x2) = s_c s -> r_le (s_r s) (s_r (hx_s x2)) ->
            exists x' o,
              (let '(s', id) := new_node (hx_s x2) (set_lines (mknode BHeading lv) lines) in
               Ok (sth_s x2 s', Some (id, false, false))) = Ok (x', o) /\
              open_post PATX parent s (hx_s x') o /\
              (forall id k r nd, o = Some (id, k, r) -> nth_error (s_h (hx_s x')) id = Some nd -> Forall (olineE src) (blines nd))).
  { intros x2 S2 H2 C2 L2. apply plain_ok; assumption. }
  assert (Plain1 := Plain (sth_s x s1) S1 CH CC Lr1).
  destruct (negb (h_attr hc)); [exact Plain1|].
  destruct (atx_bounds space_table line pos) as [[os st]|] eqn:Eab; [|exact Plain1].
  destruct (atx_bounds_ok line pos _ Hpos E os st Eab) as (O1 & O2 & O3).
  destruct (closure_scan_ok line st O3 (S (length line)) (os - 1) ltac:(lia)) as (cl & Ecl & Pcl).
  { unfold zlen in O3. lia. }
  rewrite Ecl. cbn [bind]. destruct cl as [[co cc]|]; [|exact Plain1].
  destruct (Pcl co cc eq_refl) as (Q1 & Q2 & Q3).
  destruct (Z.ltb_spec 0 cc) as [Hcc|Hcc]; cbn [negb]; [|exact Plain1].
  cbn [sth_s hx_s].
  destruct (ri_advance (s_r s1) cc (si_r _ _ _ S1) ltac:(lia)) as (r1 & Er1 & R1 & L1). rewrite Er1. cbn [bind].
  destruct (attr_total r1 (proj1 R1)) as (r2 & res & Er2). rewrite Er2. cbn [bind]. cbv beta iota.
  destruct (parse_attrs_RI space_table punct_table r1 r2 res R1 Er2) as (R2 & L2).
  destruct (ri_peek r2 R2) as (r3 & Er3 & R3 & P3 & _). rewrite Er3. cbn [bind]. cbv beta iota.
  assert (L3 : r_le (s_r s1) r3).
  { eapply r_le_trans; [exact L1|]. eapply r_le_trans; [exact L2|]. apply same_pos_le, P3. }
  assert (S3 : SI (st_r s1 r3)) by (apply SI_set_r; assumption).
  assert (Lr3 : r_le (s_r s) (s_r (st_r s1 r3))) by (cbn [st_r s_r]; eapply r_le_trans; eassumption).
  assert (Plain3 := Plain (sth_s x (st_r s1 r3)) S3 CH CC Lr3).
  cbn [sth_s hx_s] in Plain3 |- *.
  destruct res as [attrs|]; [|exact Plain3].
  match goal with |- context [if ?b then _ else _] => destruct b end; [|exact Plain3].
  rewrite new_node_eq. eexists. eexists. split; [reflexivity|]. rewrite set_node_attrs_s. cbn [sth_s hx_s]. split.
  - apply alloc_heading_post; auto.
  - intros id k r nd H. injection H as <- _ _. cbn [st_h st_r s_h]. rewrite nth_error_alloc_new. intros H. injection H as <-.
    cbn [set_lines blines]. specialize (B2 Hpos). constructor; [|constructor].
    apply line_seg_olineE; [exact HS|lia|lia|fold line; lia].
Qed.

(* ---------------------------------------------------------------------------------------- *)
(* the lines of a closed paragraph have no padding, and the paragraph transformer keeps that     *)
Definition pad0 (sg : seg) : Prop := s_pad sg = 0.

Lemma map_res_tls_pad0 bs : forall ls ls', map_res (seg_trim_left_space space_table bs) ls = Ok ls' -> Forall pad0 ls'.
Proof.
  induction ls as [|a ls IH]; intros ls' H; cbn [map_res] in H.
  - injection H as <-. constructor.
  - destruct (seg_trim_left_space space_table bs a) as [a'| |] eqn:Ea; cbn [bind] in H; try discriminate.
    destruct (map_res (seg_trim_left_space space_table bs) ls) as [r| |]; cbn [bind] in H; try discriminate.
    injection H as <-. constructor; [|apply IH; reflexivity].
    unfold seg_trim_left_space in Ea. destruct (slice bs (s_start a) (s_stop a)); cbn [bind] in Ea; try discriminate.
    injection Ea as <-. reflexivity.
Qed.

Lemma paragraph_close_pad0 s node s' n' : paragraph_close space_table s node = Ok s' ->
  nth_error (s_h s') node = Some n' -> Forall pad0 (blines n').
Proof.
  unfold paragraph_close. destruct (hget (s_h s) node) as [n| |] eqn:En; cbn [bind]; try discriminate.
  apply hget_inv in En.
  assert (Hlt : (node < length (s_h s))%nat) by (eapply nth_error_lt, En).
  destruct (blines n) as [|l0 ls0] eqn:El.
  - destruct (bpar n) as [p|]; [|discriminate].
    unfold remove_child. rewrite (hget_some _ _ _ En). cbn [bind].
    destruct (opt_nat_eqb (bpar n) (Some p)).
    2:{ cbn [bind]. intros H Hn. injection H as <-. cbn [st_h s_h] in Hn. rewrite En in Hn. injection Hn as <-.
        rewrite El. constructor. }
    unfold hupd.
    destruct (hget (s_h s) p) as [pn| |] eqn:Ep; cbn [bind]; try discriminate.
    destruct (hget (hset (s_h s) p _) node) as [m| |] eqn:Em; cbn [bind]; try discriminate.
    intros H Hn. injection H as <-. cbn [st_h s_h] in Hn.
    rewrite hset_same in Hn by (rewrite hset_length; exact Hlt). injection Hn as <-.
    cbn [set_par blines]. apply hget_inv in Em. apply hget_inv in Ep.
    destruct (Nat.eq_dec p node) as [->|Hne].
    + rewrite hset_same in Em by exact Hlt. injection Em as <-. cbn [set_ch blines].
      rewrite En in Ep. injection Ep as <-. rewrite El. constructor.
    + rewrite hset_other in Em by exact Hne. rewrite En in Em. injection Em as <-. rewrite El. constructor.
  - destruct (map_res (seg_trim_left_space space_table (src_of s)) (l0 :: ls0)) as [ls| |] eqn:Em; cbn [bind]; try discriminate.
    pose proof (map_res_tls_pad0 _ _ _ Em) as Hp.
    destruct (rev ls) as [|lst pre] eqn:Er; [discriminate|].
    assert (Hp' : Forall pad0 (lst :: pre)) by (rewrite <- Er; apply Forall_rev, Hp).
    inversion Hp' as [|? ? Hl Hpre]; subst.
    unfold seg_trim_right_space. destruct (slice (src_of s) (s_start lst) (s_stop lst)) as [v| |]; cbn [bind]; try discriminate.
    assert (Hl' : exists q, (if trim_right_space_len space_table v =? zlen v then Ok (mkseg (s_start lst) (s_start lst))
                 else Ok (mksegp (s_start lst) (s_stop lst - trim_right_space_len space_table v) (s_pad lst))) = Ok q /\ pad0 q).
    { destruct (_ =? _); eexists; (split; [reflexivity|]); [reflexivity|exact Hl]. }
    destruct Hl' as (q & Eq & Hq). rewrite Eq. cbn [bind].
    unfold hupd. rewrite (hget_some _ _ _ En). cbn [bind].
    intros H Hn. injection H as <-. cbn [st_h s_h] in Hn. rewrite hset_same in Hn by exact Hlt. injection Hn as <-.
    cbn [set_lines blines]. apply Forall_app. split; [apply Forall_rev, Hpre|constructor; [exact Hq|constructor]].
Qed.

(* an update that leaves the lines alone *)
Lemma hupd_lines h i f h' : hupd h i f = Ok h' -> (forall m, blines (f m) = blines m) ->
  forall j m, nth_error h j = Some m -> exists m', nth_error h' j = Some m' /\ blines m' = blines m.
Proof.
  unfold hupd. destruct (hget h i) as [n| |] eqn:En; cbn [bind]; try discriminate. intros H Hf j m Hj. injection H as <-.
  apply hget_inv in En. destruct (Nat.eq_dec i j) as [->|Hne].
  - rewrite hset_same by (eapply nth_error_lt, Hj). rewrite En in Hj. injection Hj as <-. eexists. split; [reflexivity|apply Hf].
  - rewrite hset_other by exact Hne. eauto.
Qed.

Lemma Forall_firstn {A} (P : A -> Prop) n l : Forall P l -> Forall P (firstn n l).
Proof. intros H. rewrite <- (firstn_skipn n l) in H. apply Forall_app in H. apply H. Qed.
Lemma Forall_skipn {A} (P : A -> Prop) n l : Forall P l -> Forall P (skipn n l).
Proof. intros H. rewrite <- (firstn_skipn n l) in H. apply Forall_app in H. apply H. Qed.

Lemma apply_removes_Forall (P : seg -> Prop) : forall removes lines off lines', Forall P lines ->
  apply_removes removes lines off = Ok lines' -> Forall P lines'.
Proof.
  induction removes as [|[a b] rest IH]; intros lines off lines' Hl H; cbn [apply_removes] in H.
  - injection H as <-. exact Hl.
  - destruct lines as [|l0 ls]; [injection H as <-; exact Hl|].
    match type of H with (if ?c then _ else _) = _ => destruct c end; [discriminate|].
    eapply IH; [|exact H]. apply Forall_app. split; [apply Forall_firstn, Hl|apply Forall_skipn, Hl].
Qed.

(* the paragraph transformer keeps a sub-list of the lines *)
Lemma transform_paragraph_lines_Forall (P : seg -> Prop) norm s node s' gone n n' :
  nth_error (s_h s) node = Some n -> Forall P (blines n) ->
  transform_paragraph space_table punct_table norm s node = Ok (s', gone) ->
  nth_error (s_h s') node = Some n' -> Forall P (blines n').
Proof.
  intros Hn Hl. unfold transform_paragraph, lrd_transform. rewrite (hget_some _ _ _ Hn). cbn [bind].
  destruct (new_block_reader (src_of s) (blines n)) as [br| |]; cbn [bind]; try discriminate.
  destruct (lrd_loop _ _ _ _ _ _ _) as [[c removes]| |]; cbn [bind]; try discriminate.
  destruct (apply_removes removes (blines n) 0) as [lines| |] eqn:Ea; cbn [bind]; try discriminate.
  pose proof (apply_removes_Forall P _ _ _ _ Hl Ea) as Hl'.
  assert (Hlt : (node < length (s_h s))%nat) by (eapply nth_error_lt, Hn).
  destruct lines as [|l0 ls].
  - rewrite new_node_eq. cbn [st_c st_h s_h s_c].
    destruct (bpar n) as [p|]; [|discriminate].
    set (h0 := s_h s ++ [set_blank (mknode BTextBlock 0) (bblank n)]).
    assert (Hn0 : nth_error h0 node = Some n) by (apply nth_error_alloc_old, Hn).
    unfold replace_child. rewrite (hget_some _ _ _ Hn0). cbn [bind].
    destruct (opt_nat_eqb (bpar n) (Some p)).
    + destruct (hupd h0 p _) as [h1| |] eqn:E1; cbn [bind]; try discriminate.
      destruct (hupd h1 (length (s_h s)) _) as [h2| |] eqn:E2; cbn [bind]; try discriminate.
      destruct (hupd h2 node _) as [h3| |] eqn:E3; cbn [bind]; try discriminate.
      destruct (hupd_lines _ _ _ _ E1 ltac:(reflexivity) _ _ Hn0) as (m1 & M1 & L1).
      destruct (hupd_lines _ _ _ _ E2 ltac:(reflexivity) _ _ M1) as (m2 & M2 & L2).
      destruct (hupd_lines _ _ _ _ E3 ltac:(reflexivity) _ _ M2) as (m3 & M3 & L3).
      cbn [st_h s_h]. rewrite (hget_some _ _ _ M3). cbn [bind]. intros H Hn'. injection H as <- _.
      cbn [st_h s_h] in Hn'. rewrite M3 in Hn'. injection Hn' as <-. rewrite L3, L2, L1. exact Hl.
    + cbn [bind st_h s_h]. rewrite (hget_some _ _ _ Hn0). cbn [bind]. intros H Hn'. injection H as <- _.
      cbn [st_h s_h] in Hn'. rewrite Hn0 in Hn'. injection Hn' as <-. exact Hl.
  - cbn [st_c s_h]. unfold hupd. rewrite (hget_some _ _ _ Hn). cbn [bind st_h s_h].
    assert (Hs : nth_error (hset (s_h s) node (set_lines n (l0 :: ls))) node = Some (set_lines n (l0 :: ls)))
      by (apply hset_same, Hlt).
    rewrite (hget_some _ _ _ Hs). cbn [bind]. intros H Hn'. injection H as <- _.
    cbn [st_h s_h] in Hn'. rewrite Hs in Hn'. injection Hn' as <-. exact Hl'.
Qed.

End S.
