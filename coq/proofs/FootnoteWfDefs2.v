(* Shared definitions of the FootnoteWf*.v files, part 2 (needed for totality only): the parent
   the FootnoteList node records is a node of the heap. *)
Require Import GM.model.Base GM.model.BlockParse GM.model.FootnoteParseBlock.
Require Import GM.proofs.FootnoteWfDefs.
From Coq Require Import List.
Import ListNotations.

Definition fn_list_par (h : heap) (lst : option nat) : Prop :=
  forall l ln, lst = Some l -> nth_error h l = Some ln ->
    exists par pn, bpar ln = Some par /\ nth_error h par = Some pn.

Definition BlkFinal2 (space_table : list N) (src : bytes) (x : stf) : Prop :=
  BlkFinal space_table src x /\ fn_list_par (s_h (bf_s x)) (bf_list x).
