(* Helper file for TypoDefWfInl.v: fork of proofs/ParseInlineRangeReader.v (the block reader over
   the lines of one inline-bearing block) for the lines of TypoDefWfDefs.linesTD_ok: the lines of
   the default configuration (no padding), or ONE line that may have padding.

   RI = BInv + source + lines + padding 0 OF THE POSITION, and: all lines have padding 0, or there
   is exactly one line.  With one line the padding of the line is never read again once the
   position has left it: SetPosition only goes back to saved positions (padding 0), AdvanceLine
   leaves the block.  The statements of the interface lemmas (ri_peek, ri_advance, ri_advance_in,
   ri_advance_fast, ri_advance_line, ri_set_position, ..., b_find_closure_ri, ...) are those of
   the core file, so the fork of the parser file (TypoDefWfInlParsers.v) is a copy.
   The state BEFORE the padding of the single line is consumed is the invariant PA at the end of
   this file (no inline parser runs in that state: TypoDefWfInlLoop.v). *)
Require Import GM.model.Base GM.model.Util GM.model.Reader GM.model.ReaderSpec GM.model.HtmlSpec
               GM.model.BlockParse GM.model.InlineParse.
Require Import GM.model.Regex GM.model.LinkDest GM.model.ListItem.
Require Import GM.proofs.BReaderProofs GM.proofs.ParseInv GM.proofs.RegexProofs.
Require Import GM.proofs.ParseInlineRangeReader.
From Coq Require Import ZArith Lia List Bool.
Import ListNotations.
Open Scope Z_scope.

(* ---------- padding 0 of the position; of the lines, unless there is only one ---------- *)
Definition pads1 (l : list seg) : Prop := pads0 l \/ zlen l = 1.
Definition pad0 (r : breader) : Prop := s_pad (b_pos r) = 0 /\ pads1 (b_segs r) /\ 0 <= b_line r.

Lemma b_set_position_pad0 r line pos r' : b_set_position r line pos = Ok r' -> pads1 (b_segs r) -> 0 <= line ->
  (s_start pos = -1 -> s_pad (b_pos r) = 0 /\ (pads0 (b_segs r) \/ 1 <= line)) -> s_pad pos = 0 ->
  pad0 r' /\ b_segs r' = b_segs r /\ b_src r' = b_src r.
Proof.
  unfold b_set_position, b_nsegs. bsimpl. intros H Hp Hline Hm Hpos.
  destruct (s_start pos =? -1) eqn:Em.
  - apply Z.eqb_eq in Em. destruct (Hm Em) as [Hm1 Hm2]. destruct (Z.ltb_spec line (zlen (b_segs r))) as [Hlt|Hge].
    + destruct (seg_at (b_segs r) line) as [s| |] eqn:Es; cbn [bind] in H; try discriminate.
      inversion H; subst r'. bsimpl. split; [|auto]. split; [|split; [exact Hp|exact Hline]]. bsimpl.
      destruct Hm2 as [Hm2|Hm2]; [|destruct Hp as [Hp|Hp]; [|lia]]; (eapply pads0_in; [eassumption|eapply seg_at_in; exact Es]).
    + inversion H; subst r'. bsimpl. split; [|auto]. split; [|split; [exact Hp|exact Hline]]. bsimpl. auto.
  - destruct (line <? zlen (b_segs r)).
    + destruct (seg_at (b_segs r) line) as [s| |] eqn:Es; cbn [bind] in H; try discriminate.
      inversion H; subst r'. bsimpl. split; [|auto]. split; [|split; [exact Hp|exact Hline]]. bsimpl. exact Hpos.
    + inversion H; subst r'. bsimpl. split; [|auto]. split; [|split; [exact Hp|exact Hline]]. bsimpl. exact Hpos.
Qed.

Lemma b_advance_line_pad0 r r' : b_advance_line r = Ok r' -> pad0 r -> pad0 r' /\ b_segs r' = b_segs r.
Proof.
  unfold b_advance_line. intros H (Hp & Hs & Hl).
  destruct (b_set_position r (b_line r + 1) (mkseg (-1) (-1))) as [r1| |] eqn:E; cbn [bind] in H; try discriminate.
  inversion H; subst r'. destruct (b_set_position_pad0 _ _ _ _ E Hs) as ((P1 & P2 & P3) & S1 & _); [lia| |reflexivity|].
  - intros _. split; [exact Hp|right; lia].
  - split; [|exact S1]. split; [exact P1|split; [exact P2|exact P3]].
Qed.

Lemma b_step_pad0 r r1 : b_step r = Ok r1 -> pad0 r -> pad0 r1 /\ b_segs r1 = b_segs r.
Proof.
  unfold b_step. intros H (Hp & Hs & Hl). rewrite Hp in H. cbn [Z.eqb negb] in H.
  destruct (_ && _).
  - apply b_advance_line_pad0; [exact H|split; [|split]; assumption].
  - inversion H; subst r1. bsimpl. split; [|reflexivity]. split; [|split]; bsimpl; auto.
Qed.

Lemma b_advance_slow_pad0 : forall fuel r n r', b_advance_slow fuel r n = Ok r' -> pad0 r -> pad0 r' /\ b_segs r' = b_segs r.
Proof.
  induction fuel as [|f IH]; intros r n r' H Hp; [discriminate|].
  rewrite b_advance_slow_step in H. destruct (0 <? n); [|inversion H; subst; auto].
  destruct (b_step r) as [r1| |] eqn:E; cbn [bind] in H; try discriminate.
  destruct (b_step_pad0 _ _ E Hp) as [Hp1 Hs1]. destruct (IH _ _ _ H Hp1) as [Hp' Hs']. split; [exact Hp'|congruence].
Qed.

Lemma b_advance_pad0 r n r' : b_advance r n = Ok r' -> pad0 r -> pad0 r' /\ b_segs r' = b_segs r.
Proof.
  unfold b_advance. intros H Hp. bsimpl. destruct (_ && _).
  - inversion H; subst r'. bsimpl. destruct Hp as (H1 & H2 & H3). split; [|reflexivity]. split; [|split]; bsimpl; assumption.
  - eapply b_advance_slow_pad0 in H; [exact H|]. destruct Hp as (H1 & H2 & H3). split; [|split]; bsimpl; assumption.
Qed.

(* ---------- the reader invariant of the inline phase ---------- *)
Record RI (src : bytes) (lines : list seg) (r : breader) : Prop := {
  ri_inv : BInv r;
  ri_src : b_src r = src;
  ri_segs : b_segs r = lines;
  ri_pad : s_pad (b_pos r) = 0;
  ri_ne : lines <> [];
  ri_pads : pads1 lines
}.

Lemma ri_pad0 src lines r : RI src lines r -> pad0 r.
Proof.
  intros H. split; [apply (ri_pad _ _ _ H)|split; [rewrite (ri_segs _ _ _ H); apply (ri_pads _ _ _ H)|]].
  exact (bi_line _ (ri_inv _ _ _ H)).
Qed.

Lemma ri_mk src lines r r' : RI src lines r -> BInv r' -> b_src r' = b_src r -> b_segs r' = b_segs r -> pad0 r' -> RI src lines r'.
Proof.
  intros H Hi Hs Hg [Hp _]. constructor; try assumption.
  - rewrite Hs. apply (ri_src _ _ _ H).
  - rewrite Hg. apply (ri_segs _ _ _ H).
  - apply (ri_ne _ _ _ H).
  - apply (ri_pads _ _ _ H).
Qed.

(* the position is always inside the source *)
Lemma ri_bounds src lines r : RI src lines r -> 0 <= s_start (b_pos r) <= zlen src.
Proof.
  intros H. destruct (bi_bounds _ (ri_inv _ _ _ H)) as [(E & _)|(_ & _ & Hb)].
  - rewrite (ri_segs _ _ _ H) in E. exfalso. exact (ri_ne _ _ _ H E).
  - rewrite (ri_src _ _ _ H) in Hb. exact Hb.
Qed.

(* PeekLine *)
Lemma ri_peek src lines r r' line sg : RI src lines r -> b_peek_line r = Ok (r', line, sg) ->
  r' = r /\ sg = b_pos r /\
  match line with
  | Some v => b_in_range r = true /\ v = sub src (s_start sg) (s_stop sg) /\ zlen v = s_stop sg - s_start sg /\
              0 <= s_start sg /\ s_start sg < s_stop sg /\ s_stop sg <= zlen src /\ b_line r < zlen lines
  | None => b_in_range r = false
  end.
Proof.
  intros H Hp. rewrite (b_peek_line_view r (ri_inv _ _ _ H)) in Hp. inversion Hp; subst r' sg. clear Hp.
  split; [reflexivity|]. split; [reflexivity|]. destruct (b_in_range r) eqn:Hin; subst line; [|reflexivity].
  pose proof (view_length r (ri_inv _ _ _ H) Hin) as Hvl.
  destruct (binv_in r (ri_inv _ _ _ H) Hin) as (s & pre & post & Hn & El & Elen & Hok & Ha & Hb & Hc & Hd & Hle & _).
  unfold seg_ok in Hok. rewrite (ri_src _ _ _ H) in Hok.
  pose proof (in_range_true r Hin) as [Hl _]. rewrite (ri_segs _ _ _ H) in Hl.
  unfold b_view in *. rewrite (ri_pad _ _ _ H) in *. change (spaces_n 0) with (@nil N) in *. cbn [app] in *.
  rewrite (ri_src _ _ _ H) in *. repeat split; try lia.
Qed.

Lemma b_advance_slow_pos : forall fuel r n r', BInv r -> b_loff r = -1 -> pad0 r ->
  0 <= n <= zlen (b_rest r) -> b_advance_slow fuel r n = Ok r' -> pos_le r r'.
Proof.
  induction fuel as [|f IH]; intros r n r' Hi Hl Hp Hn H; [discriminate|].
  rewrite b_advance_slow_step in H. destruct (Z.ltb_spec 0 n) as [Hpos|Hz]; [|inversion H; subst; apply pos_le_refl].
  assert (Hin : b_in_range r = true).
  { destruct (b_in_range r) eqn:E; [reflexivity|]. rewrite (b_rest_out r E) in Hn. unfold zlen in Hn. cbn [length] in Hn. lia. }
  destruct (b_step_spec r Hi Hl Hin) as (r1 & Hr1 & Hinv1 & Hl1 & Hsrc1 & Hsegs1 & Hrest1).
  rewrite Hr1 in H. cbn [bind] in H.
  pose proof (b_step_pos _ _ Hr1 Hi (proj1 Hp)) as P1.
  destruct (b_step_pad0 _ _ Hr1 Hp) as [Hp1 _].
  eapply pos_le_trans; [exact P1|]. eapply (IH r1 (n - 1)); try eassumption.
  rewrite Hrest1. unfold zlen in *. rewrite skipn_length. lia.
Qed.

Lemma ri_advance src lines r n r' : RI src lines r -> 0 <= n <= zlen (b_rest r) -> b_advance r n = Ok r' ->
  RI src lines r' /\ b_rest r' = skipn (Z.to_nat n) (b_rest r) /\ pos_le r r'.
Proof.
  intros H Hn Ha. destruct (b_advance_spec r n (ri_inv _ _ _ H) Hn) as (r2 & E2 & Hi2 & Hs2 & Hg2 & Hr2).
  rewrite Ha in E2. inversion E2; subst r2. clear E2.
  destruct (b_advance_pad0 _ _ _ Ha (ri_pad0 _ _ _ H)) as [Hp' _].
  split; [eapply ri_mk; eassumption|]. split; [exact Hr2|].
  unfold b_advance in Ha. bsimpl. destruct (_ && _) eqn:Ef.
  - inversion Ha; subst r'. split; bsimpl; [lia|]. intros _. lia.
  - eapply (b_advance_slow_pos _ (bset_loff r (-1)) n r') in Ha; [exact Ha| | | |].
    + apply binv_set_loff. exact (ri_inv _ _ _ H).
    + reflexivity.
    + destruct (ri_pad0 _ _ _ H) as [P1 P2]. split; assumption.
    + exact Hn.
Qed.

(* inside the current line *)
Lemma ri_rest_ge src lines r : RI src lines r -> b_in_range r = true ->
  s_stop (b_pos r) - s_start (b_pos r) <= zlen (b_rest r).
Proof.
  intros H Hin. rewrite (b_rest_in r Hin), zlen_app. pose proof (view_length r (ri_inv _ _ _ H) Hin) as Hv.
  rewrite (ri_pad _ _ _ H) in Hv. pose proof (zlen_nonneg (flat_map (seg_bytes (b_src r)) (skipn (Z.to_nat (b_line r + 1)) (b_segs r)))). lia.
Qed.

Lemma ri_advance_in src lines r n r' : RI src lines r -> b_in_range r = true ->
  0 <= n <= s_stop (b_pos r) - s_start (b_pos r) -> b_advance r n = Ok r' ->
  RI src lines r' /\ pos_le r r'.
Proof.
  intros H Hin Hn Ha. pose proof (ri_rest_ge _ _ _ H Hin) as Hr.
  destruct (ri_advance src lines r n r' H) as (H1 & _ & H3); [lia|exact Ha|]. split; assumption.
Qed.

(* strictly inside the line: the fast path *)
Lemma ri_advance_fast src lines r n r' : RI src lines r -> 0 <= n < s_stop (b_pos r) - s_start (b_pos r) ->
  b_advance r n = Ok r' ->
  b_line r' = b_line r /\ s_start (b_pos r') = s_start (b_pos r) + n /\ s_stop (b_pos r') = s_stop (b_pos r).
Proof.
  intros H Hn Ha. unfold b_advance in Ha. bsimpl. rewrite (ri_pad _ _ _ H) in Ha.
  replace (n <? s_stop (b_pos r) - s_start (b_pos r)) with true in Ha by lia. cbn in Ha.
  inversion Ha; subst r'. bsimpl. auto.
Qed.

Lemma ri_advance_line src lines r r' : RI src lines r -> b_advance_line r = Ok r' ->
  RI src lines r' /\ b_line r' = b_line r + 1 /\
  (b_line r' < zlen lines -> nth_error lines (Z.to_nat (b_line r')) = Some (b_pos r')).
Proof.
  intros H Ha. destruct (b_advance_line_spec r (ri_inv _ _ _ H)) as (r2 & E2 & Hi2 & Hs2 & Hg2 & _ & Hl2 & _).
  rewrite Ha in E2. inversion E2; subst r2. clear E2.
  destruct (b_advance_line_pad0 _ _ Ha (ri_pad0 _ _ _ H)) as [Hp' _].
  split; [eapply ri_mk; eassumption|]. split; [exact Hl2|].
  destruct (b_advance_line_line _ _ Ha) as [_ Hn]. rewrite (ri_segs _ _ _ H) in Hn. rewrite Hl2. exact Hn.
Qed.

(* SetPosition to a position saved from a reader of the same block *)
Lemma ri_set_position src lines r r0 r' : RI src lines r -> RI src lines r0 ->
  b_set_position r (b_line r0) (b_pos r0) = Ok r' ->
  RI src lines r' /\ b_line r' = b_line r0 /\ b_pos r' = b_pos r0.
Proof.
  intros H H0 Hs.
  destruct (b_set_position_spec r (b_line r0) (b_pos r0) (ri_inv _ _ _ H)) as (r2 & E2 & Hi2 & Hs2 & Hg2 & Hp2).
  - exists r0. split; [exact (ri_inv _ _ _ H0)|]. split; [rewrite (ri_src _ _ _ H0), (ri_src _ _ _ H); reflexivity|].
    split; [rewrite (ri_segs _ _ _ H0), (ri_segs _ _ _ H); reflexivity|reflexivity].
  - left. rewrite (ri_segs _ _ _ H). exact (ri_ne _ _ _ H).
  - rewrite Hs in E2. inversion E2; subst r2. clear E2. unfold b_position in Hp2.
    assert (Hl : b_line r' = b_line r0) by congruence. assert (Hp : b_pos r' = b_pos r0) by congruence.
    split; [|split; [exact Hl|exact Hp]]. apply (ri_mk src lines r r' H Hi2 Hs2 Hg2).
    split; [rewrite Hp; exact (ri_pad _ _ _ H0)|split; [rewrite Hg2, (ri_segs _ _ _ H); exact (ri_pads _ _ _ H)|exact (bi_line _ Hi2)]].
Qed.

(* readers at the same position of the same block deliver the same *)
Lemma ri_same_rest src lines r r' : RI src lines r -> RI src lines r' -> b_line r' = b_line r -> b_pos r' = b_pos r ->
  b_rest r' = b_rest r /\ b_in_range r' = b_in_range r.
Proof.
  intros H H' El Ep. unfold b_rest, b_in_range, b_view, b_nsegs.
  rewrite El, Ep, (ri_src _ _ _ H), (ri_src _ _ _ H'), (ri_segs _ _ _ H), (ri_segs _ _ _ H').
  rewrite (bi_last _ (ri_inv _ _ _ H)), (bi_last _ (ri_inv _ _ _ H')), (ri_segs _ _ _ H), (ri_segs _ _ _ H'). auto.
Qed.

(* NewBlockReader *)
Lemma ri_new src lines r : lines_ok src lines -> lines <> [] -> new_block_reader src lines = Ok r -> RI src lines r.
Proof.
  intros Hl Hne Hn. destruct (lines_ok_segs _ _ Hl) as [Hs Hp].
  destruct (new_block_reader_spec src lines Hs) as (r2 & E2 & Hi & Hsrc & Hsegs). rewrite Hn in E2. inversion E2; subst r2.
  constructor; try assumption; [|left; exact Hp].
  unfold new_block_reader, b_reset_position in Hn.
  match type of Hn with (r <- ?X ;; _) = _ => destruct X as [r1| |] eqn:E1 end; cbn [bind] in Hn; try discriminate.
  assert (H1 : s_pad (b_pos r1) = 0 /\ b_segs r1 = lines /\ b_line r1 = -1).
  { destruct (0 <? _) in E1.
    - destruct (seg_at _ _) in E1; cbn [bind] in E1; try discriminate. inversion E1; subst r1. repeat split.
    - inversion E1; subst r1. repeat split. }
  destruct H1 as (P1 & P2 & P3). unfold b_advance_line in Hn. rewrite P3 in Hn.
  destruct (b_set_position r1 (-1 + 1) (mkseg (-1) (-1))) as [r2| |] eqn:E; cbn [bind] in Hn; try discriminate.
  inversion Hn; subst r. bsimpl.
  destruct (b_set_position_pad0 _ _ _ _ E) as ((Q1 & _) & _); [rewrite P2; left; exact Hp|lia| |reflexivity|exact Q1].
  intros _. split; [exact P1|left; rewrite P2; exact Hp].
Qed.

(* ---------- composite reader operations ---------- *)
Section Tables.
Variable space_table punct_table : list N.
Variable src : bytes.
Variable lines : list seg.
Notation RI := (RI src lines).

(* SkipSpaces *)
Lemma skip_spaces_inner_ri : forall line i r chars sg r' res, RI r ->
  zlen line <= zlen (b_rest r) ->
  skip_spaces_inner space_table breader b_advance line i r chars sg = Ok (r', res) -> RI r'.
Proof.
  induction line as [|c tl IH]; intros i r chars sg r' res H Hl Hs; cbn [skip_spaces_inner] in Hs.
  - inversion Hs; subst. exact H.
  - destruct (is_space space_table c); [|inversion Hs; subst; exact H].
    destruct (b_advance r 1) as [r1| |] eqn:E1; cbn [bind] in Hs; try discriminate.
    rewrite zlen_cons in Hl. pose proof (zlen_nonneg tl) as Ht.
    destruct (ri_advance src lines r 1 r1 H) as (H1 & Hr1 & _); [lia|exact E1|].
    eapply IH; [exact H1| |exact Hs]. rewrite Hr1. unfold zlen in *. rewrite skipn_length. lia.
Qed.

Lemma skip_spaces_ri : forall fuel r chars r' sg ch ok, RI r ->
  skip_spaces space_table breader b_peek_line b_advance fuel r chars = Ok (r', sg, ch, ok) -> RI r'.
Proof.
  induction fuel as [|f IH]; intros r chars r' sg ch ok H Hs; cbn [skip_spaces] in Hs; [discriminate|].
  destruct (b_peek_line r) as [[[r1 line] sg1]| |] eqn:Ep; cbn [bind] in Hs; try discriminate.
  destruct (ri_peek _ _ _ _ _ _ H Ep) as (-> & -> & Hline).
  destruct line as [l|]; [|inversion Hs; subst; exact H].
  destruct Hline as (Hin & Hv & Hlen & _).
  destruct (skip_spaces_inner _ _ _ l 0 r chars (b_pos r)) as [[r2 res]| |] eqn:Ei; cbn [bind] in Hs; try discriminate.
  assert (H2 : RI r2).
  { eapply skip_spaces_inner_ri; [exact H| |exact Ei]. pose proof (ri_rest_ge _ _ _ H Hin). lia. }
  destruct res as [[sg' ch']|]; [inversion Hs; subst; exact H2|]. eapply IH; eassumption.
Qed.

Lemma b_skip_spaces_ri fuel r r' sg ch ok : RI r -> b_skip_spaces space_table fuel r = Ok (r', sg, ch, ok) -> RI r'.
Proof. intros H Hs. eapply skip_spaces_ri; eassumption. Qed.

Lemma skip_spaces_r_ri r r' : RI r -> skip_spaces_r space_table r = Ok r' -> RI r'.
Proof.
  unfold skip_spaces_r. intros H Hs. destruct (b_skip_spaces _ _ _) as [[[[r1 sg] ch] ok]| |] eqn:E; cbn [bind] in Hs; try discriminate.
  inversion Hs; subst. eapply b_skip_spaces_ri; eassumption.
Qed.

(* FindClosure (with or without Advance) *)
Lemma fc_lines_pad0 opts o c : forall fuel r opened cso ret r' res, pad0 r ->
  fc_lines punct_table breader b_peek_line b_advance b_advance_line fuel opts o c r opened cso ret = Ok (r', res) -> pad0 r'.
Proof.
  induction fuel as [|f IH]; intros r opened cso ret r' res Hp H; cbn [fc_lines] in H; [discriminate|].
  unfold b_peek_line in H at 1. destruct (b_in_range r).
  - destruct (seg_value (b_src r) (b_pos r)) as [bs| |]; cbn [bind] in H; try discriminate.
    destruct (fc_scan _ _ _ _ _ _ _ _ _) as [sr| |]; cbn [bind] in H; try discriminate.
    destruct sr as [i| |op cs].
    + destruct (b_advance r (i + 1)) as [r1| |] eqn:E1; cbn [bind] in H; try discriminate.
      inversion H; subst. eapply b_advance_pad0; eassumption.
    + inversion H; subst. exact Hp.
    + destruct (negb (o_newline opts)); [inversion H; subst; exact Hp|].
      destruct (b_advance_line r) as [r1| |] eqn:E1; cbn [bind] in H; try discriminate.
      eapply IH; [|exact H]. eapply b_advance_line_pad0; eassumption.
  - cbn [bind] in H. inversion H; subst. exact Hp.
Qed.

Lemma b_find_closure_ri fuel r o c opts r' res : RI r ->
  b_find_closure punct_table fuel r o c opts = Ok (r', res) -> RI r'.
Proof.
  intros H Hf. destruct (b_find_closure_inv punct_table fuel r o c opts r' res (ri_inv _ _ _ H) Hf) as (Hi & Hs & Hg & Hpos).
  apply (ri_mk src lines r r' H Hi Hs Hg).
  unfold b_find_closure, find_closure, b_position in Hf.
  destruct (fc_lines _ _ _ _ _ _ _ _ _ _ _ _ _) as [[r1 res1]| |] eqn:E1; cbn [bind] in Hf; try discriminate.
  pose proof (fc_lines_pad0 _ _ _ _ _ _ _ _ _ _ (ri_pad0 _ _ _ H) E1) as Hp1.
  destruct (negb (o_advance opts)).
  - destruct (b_set_position r1 (b_line r) (b_pos r)) as [r2| |] eqn:E2; cbn [bind] in Hf; try discriminate.
    inversion Hf; subst. destruct (b_set_position_pad0 _ _ _ _ E2 (proj1 (proj2 Hp1))) as (Hp2 & _).
    + exact (bi_line _ (ri_inv _ _ _ H)).
    + intros Em. pose proof (ri_bounds _ _ _ H). lia.
    + exact (ri_pad _ _ _ H).
    + exact Hp2.
  - cbn [bind] in Hf. inversion Hf; subst. exact Hp1.
Qed.

(* ReadRune and the input of the regular expression engine *)
Lemma encode_decode_len v rn w : decode_rune v = (rn, w) -> rn <> 65533%N -> zlen (encode_rune rn) <= Z.of_N w.
Proof.
  unfold decode_rune, encode_rune, valid_rune, cont, zlen. destruct v as [|c0 r0]; [intros H; inversion H; congruence|].
  repeat match goal with
  | |- context [if ?b then _ else _] => destruct b eqn:?
  | |- context [match ?l with [] => _ | _ :: _ => _ end] => destruct l
  end; intros H; inversion H; subst; intros Hn; try congruence; cbn [length]; try lia.
Qed.

Lemma rune_input_len : forall fuel r acc inp, RI r -> rune_input fuel r acc = Ok inp ->
  zlen inp <= zlen acc + zlen (b_rest r).
Proof.
  induction fuel as [|f IH]; intros r acc inp H Hr; cbn [rune_input] in Hr; [discriminate|].
  unfold b_read_rune, read_rune in Hr.
  destruct (b_peek_line r) as [[[r1 line] sg1]| |] eqn:Ep; cbn [bind] in Hr; try discriminate.
  destruct (ri_peek _ _ _ _ _ _ H Ep) as (-> & -> & Hline).
  destruct line as [l|]; cbn [bind] in Hr.
  2:{ inversion Hr; subst. pose proof (zlen_nonneg (b_rest r)). lia. }
  destruct Hline as (Hin & Hv & Hlen & Hs0 & Hs1 & _).
  destruct (decode_rune l) as [rn w] eqn:Ed.
  destruct (N.eqb_spec rn 65533) as [E|E]; cbn [bind] in Hr.
  { inversion Hr; subst. pose proof (zlen_nonneg (b_rest r)). lia. }
  destruct (b_advance r (Z.of_N w)) as [r2| |] eqn:Ea; cbn [bind] in Hr; try discriminate.
  assert (Hl : l <> []). { intros ->. unfold zlen in Hlen. cbn in Hlen. lia. }
  destruct (decode_rune_width _ _ _ Hl Ed) as [Hw1 Hw2].
  pose proof (ri_rest_ge _ _ _ H Hin) as Hrest.
  assert (Hwz : 0 <= Z.of_N w <= zlen (b_rest r)). { unfold zlen in *. lia. }
  destruct (ri_advance _ _ _ _ _ H Hwz Ea) as (H2 & Hr2 & _).
  specialize (IH r2 (acc ++ encode_rune rn) inp H2 Hr).
  rewrite zlen_app in IH. rewrite Hr2 in IH. pose proof (encode_decode_len _ _ _ Ed E) as He.
  unfold zlen in *. rewrite skipn_length in IH. lia.
Qed.

(* parseLinkDestination on the peeked line *)
Lemma angle_close_range : forall fuel l i k, angle_close punct_table fuel l i = Some k -> i <= k < i + zlen l.
Proof.
  induction fuel as [|f IH]; intros l i k H; cbn [angle_close] in H; [discriminate|].
  destruct l as [|c r]; [discriminate|]. rewrite zlen_cons. destruct r as [|d r'].
  - destruct (N.eqb c 62); inversion H; subst. change (zlen (@nil N)) with 0. lia.
  - rewrite zlen_cons. pose proof (zlen_nonneg r'). destruct (_ && _).
    + apply IH in H. lia.
    + destruct (N.eqb c 62); [inversion H; lia|]. apply IH in H. rewrite zlen_cons in H. lia.
Qed.

Lemma bare_end_range : forall fuel l i opened, i <= bare_end space_table punct_table fuel l i opened <= i + zlen l.
Proof.
  induction fuel as [|f IH]; intros l i opened; cbn [bare_end]; [pose proof (zlen_nonneg l); lia|].
  destruct l as [|c r]; [change (zlen (@nil N)) with 0; lia|]. rewrite zlen_cons. destruct r as [|d r'].
  - change (zlen (@nil N)) with 0.
    repeat match goal with |- context [if ?b then _ else _] => destruct b end; lia.
  - pose proof (IH r' (i + 2) opened) as I1. pose proof (IH (d :: r') (i + 1) (opened + 1)) as I2.
    pose proof (IH (d :: r') (i + 1) (opened - 1)) as I3. pose proof (IH (d :: r') (i + 1) opened) as I4.
    rewrite zlen_cons in *. pose proof (zlen_nonneg r').
    repeat match goal with |- context [if ?b then _ else _] => destruct b end; lia.
Qed.

Lemma parse_link_destination_range line d adv : parse_link_destination space_table punct_table line = Some (d, adv) ->
  0 <= adv <= zlen line /\ forall x, In x d -> In x line.
Proof.
  unfold parse_link_destination. intros H.
  assert (Hbare : forall i, i = bare_end space_table punct_table (S (length line)) line 0 0 ->
                   (if i =? 0 then None else Some (zfirst i line, i)) = Some (d, adv) ->
                  0 <= adv <= zlen line /\ forall x, In x d -> In x line).
  { intros i Hi. pose proof (bare_end_range (S (length line)) line 0 0) as Hb. rewrite <- Hi in Hb. clear Hi.
    destruct (i =? 0); [discriminate|].
    intros E. injection E as E1 E2. subst d adv. split; [lia|]. intros x Hx. unfold zfirst in Hx. eapply in_firstn. exact Hx. }
  destruct line as [|c rest]; [eapply Hbare; [reflexivity|exact H]|].
  destruct (N.eqb_spec c 60) as [->|Hne].
  - destruct (angle_close punct_table (S (length (60%N :: rest))) rest 1) as [i|] eqn:Ea; [|discriminate].
    injection H as E1 E2. subst d adv. apply angle_close_range in Ea. rewrite zlen_cons. split; [lia|].
    intros x Hx. right. unfold zfirst in Hx. eapply in_firstn. exact Hx.
  - eapply Hbare; [reflexivity|].
    destruct c as [|p]; [exact H|].
    do 7 (try (destruct p as [p|p|]; try exact H)). congruence.
Qed.

Lemma bytes_ok_subr a b : bytes_ok src -> bytes_ok (sub src a b).
Proof. intros H. unfold sub. apply bytes_ok_firstn, bytes_ok_skipn. exact H. Qed.

Lemma ri_in_range_len r : RI r -> b_in_range r = true -> s_start (b_pos r) < s_stop (b_pos r).
Proof.
  intros H Hin. destruct (binv_in r (ri_inv _ _ _ H) Hin) as (s & pre & post & Hn & El & Elen & Hok & Ha & Hb & _). exact Hb.
Qed.

Lemma ri_peek_in r c : RI r -> b_peek r = Ok c -> c <> 255%N -> b_in_range r = true.
Proof. unfold b_peek. intros H Hp Hc. destruct (b_in_range r); [reflexivity|]. inversion Hp. congruence. Qed.

Lemma ri_advance1 r r' : RI r -> b_in_range r = true -> b_advance r 1 = Ok r' -> RI r' /\ pos_le r r'.
Proof.
  intros H Hin Ha. pose proof (ri_in_range_len _ H Hin). eapply ri_advance_in; [exact H|exact Hin| |exact Ha]. lia.
Qed.

Lemma b_parse_link_destination_ri r r' dest : RI r -> bytes_ok src ->
  b_parse_link_destination space_table punct_table r = Ok (r', dest) ->
  RI r' /\ forall d, dest = Some d -> bytes_ok d.
Proof.
  unfold b_parse_link_destination. intros H Hb Hp.
  destruct (b_skip_spaces space_table (bfuel r) r) as [[[[r1 sg] ch] ok]| |] eqn:Es; cbn [bind] in Hp; try discriminate.
  pose proof (b_skip_spaces_ri _ _ _ _ _ _ H Es) as H1.
  destruct (b_peek_line r1) as [[[r2 line] sg2]| |] eqn:Ep; cbn [bind] in Hp; try discriminate.
  destruct (ri_peek _ _ _ _ _ _ H1 Ep) as (-> & -> & Hline).
  destruct (parse_link_destination space_table punct_table (line_of line)) as [[d adv]|] eqn:Ed.
  2:{ inversion Hp; subst. split; [exact H1|]. intros d Hd. discriminate. }
  destruct (b_advance r1 adv) as [r3| |] eqn:Ea; cbn [bind] in Hp; try discriminate.
  inversion Hp; subst r' dest. clear Hp.
  destruct (parse_link_destination_range _ _ _ Ed) as [Hadv Hsub].
  destruct line as [l|]; cbn [line_of] in *.
  - destruct Hline as (Hin & Hv & Hlen & _). split.
    + eapply ri_advance_in; [exact H1|exact Hin| |exact Ea]. lia.
    + intros d0 E0. inversion E0; subst d0. eapply bytes_ok_sub; [exact Hsub|]. rewrite Hv. apply bytes_ok_subr. exact Hb.
  - change (zlen (@nil N)) with 0 in Hadv. split.
    + destruct (ri_advance src lines r1 adv r3 H1) as (H3 & _); [pose proof (zlen_nonneg (b_rest r1)); lia|exact Ea|exact H3].
    + intros d0 E0. inversion E0; subst d0. eapply bytes_ok_sub; [exact Hsub|reflexivity].
Qed.

End Tables.

(* ---------- one line with padding: the reader before the padding is consumed ---------- *)
Lemma new_block_reader_one src sg r : new_block_reader src [sg] = Ok r ->
  b_line r = 0 /\ b_pos r = sg /\ b_last r = s_stop sg.
Proof.
  unfold new_block_reader, b_reset_position, b_nsegs. bsimpl. change (0 <? zlen [sg]) with true. cbv iota.
  change (seg_at [sg] (zlen [sg] - 1)) with (Ok sg). cbn [bind].
  unfold b_advance_line, b_set_position, b_nsegs. bsimpl. change (-1 =? -1) with true. cbv iota.
  change (-1 + 1 <? zlen [sg]) with true. cbv iota. change (seg_at [sg] (-1 + 1)) with (Ok sg). cbn [bind].
  intros H. inversion H; subst r. bsimpl. auto.
Qed.

(* the position without its padding *)
Definition unpad (r : breader) : breader :=
  bset_pos (bset_loff r (-1)) {| s_start := s_start (b_pos r); s_stop := s_stop (b_pos r); s_pad := 0; s_fnl := s_fnl (b_pos r) |}.

Lemma b_advance_slow_padding : forall (q : nat) fuel r n, s_pad (b_pos r) = Z.of_nat q -> Z.of_nat q <= n ->
  b_advance_slow (q + fuel) r n =
  b_advance_slow fuel (bset_pos r {| s_start := s_start (b_pos r); s_stop := s_stop (b_pos r); s_pad := 0; s_fnl := s_fnl (b_pos r) |})
                 (n - Z.of_nat q).
Proof.
  induction q as [|q IH]; intros fuel r n Hq Hn.
  - cbn [Nat.add]. replace (n - Z.of_nat 0) with n by lia. destruct r as [a b c p d e f]. destruct p as [p1 p2 p3 p4].
    cbn in Hq. subst p3. reflexivity.
  - cbn [Nat.add b_advance_slow]. replace (0 <? n) with true by lia. rewrite Hq.
    replace (negb (Z.of_nat (S q) =? 0)) with true by lia.
    rewrite IH; bsimpl; [|lia|lia]. f_equal. lia.
Qed.

Lemma b_advance_slow_part : forall fuel r n, 0 <= n < s_pad (b_pos r) -> n < Z.of_nat fuel ->
  b_advance_slow fuel r n =
  Ok (bset_pos r {| s_start := s_start (b_pos r); s_stop := s_stop (b_pos r); s_pad := s_pad (b_pos r) - n; s_fnl := s_fnl (b_pos r) |}).
Proof.
  induction fuel as [|f IH]; intros r n Hn Hf; [lia|]. cbn [b_advance_slow].
  destruct (Z.ltb_spec 0 n) as [Hpos|Hz].
  - replace (negb (s_pad (b_pos r) =? 0)) with true by lia. rewrite IH; bsimpl; [|lia|lia].
    replace (s_pad (b_pos r) - 1 - (n - 1)) with (s_pad (b_pos r) - n) by lia. reflexivity.
  - assert (n = 0) by lia. subst n. rewrite Z.sub_0_r. destruct r as [a b c p d e g]. destruct p as [p1 p2 p3 p4]. reflexivity.
Qed.

Lemma b_advance_slow_inline : forall fuel r n, s_pad (b_pos r) = 0 -> 0 <= n < s_stop (b_pos r) - s_start (b_pos r) ->
  n < Z.of_nat fuel ->
  b_advance_slow fuel r n =
  Ok (bset_pos r {| s_start := s_start (b_pos r) + n; s_stop := s_stop (b_pos r); s_pad := s_pad (b_pos r); s_fnl := s_fnl (b_pos r) |}).
Proof.
  induction fuel as [|f IH]; intros r n Hp Hn Hf; [lia|]. cbn [b_advance_slow].
  destruct (Z.ltb_spec 0 n) as [Hpos|Hz].
  - replace (negb (s_pad (b_pos r) =? 0)) with false by lia. replace (s_stop (b_pos r) - 1 <=? s_start (b_pos r)) with false by lia. cbn [andb].
    rewrite IH; bsimpl; [|exact Hp|lia|lia].
    replace (s_start (b_pos r) + 1 + (n - 1)) with (s_start (b_pos r) + n) by lia. reflexivity.
  - assert (n = 0) by lia. subst n. rewrite Z.add_0_r. destruct r as [a b c p d e g]. destruct p as [p1 p2 p3 p4]. reflexivity.
Qed.

(* Advance over the whole padding = Advance from the position without the padding *)
Lemma b_advance_unpad r n : 0 < s_pad (b_pos r) -> s_pad (b_pos r) <= n -> b_advance r n = b_advance (unpad r) (n - s_pad (b_pos r)).
Proof.
  intros Hp Hn. unfold b_advance at 1.
  replace ((n <? s_stop (b_pos (bset_loff r (-1))) - s_start (b_pos (bset_loff r (-1)))) && (s_pad (b_pos (bset_loff r (-1))) =? 0))
    with false by (bsimpl; lia).
  replace (Z.to_nat n + 1)%nat with (Z.to_nat (s_pad (b_pos r)) + (Z.to_nat (n - s_pad (b_pos r)) + 1))%nat by lia.
  rewrite b_advance_slow_padding; bsimpl; [|lia|lia]. rewrite Z2Nat.id by lia.
  unfold b_advance. change (bset_loff (unpad r) (-1)) with (unpad r).
  change (bset_pos (bset_loff r (-1)) {| s_start := s_start (b_pos r); s_stop := s_stop (b_pos r); s_pad := 0; s_fnl := s_fnl (b_pos r) |})
    with (unpad r).
  destruct (Z.ltb_spec (n - s_pad (b_pos r)) (s_stop (b_pos (unpad r)) - s_start (b_pos (unpad r)))) as [Hlt|Hge]; cbn [andb]; [|reflexivity].
  change (s_pad (b_pos (unpad r)) =? 0) with true. cbv iota.
  rewrite b_advance_slow_inline; [reflexivity|reflexivity|lia|lia].
Qed.

Section Pad.
Variable src : bytes.
Variable lines : list seg.
Notation RI := (RI src lines).

Record PA (r : breader) : Prop := {
  pa_inv : BInv r;
  pa_src : b_src r = src;
  pa_segs : b_segs r = lines;
  pa_one : zlen lines = 1;
  pa_line : b_line r = 0;
  pa_pad : 0 < s_pad (b_pos r);
  pa_in : b_in_range r = true
}.
Definition RP (r : breader) : Prop := RI r \/ PA r.

Lemma rp_inv r : RP r -> BInv r.
Proof. intros [H|H]; [exact (ri_inv _ _ _ H)|exact (pa_inv _ H)]. Qed.
Lemma rp_src r : RP r -> b_src r = src.
Proof. intros [H|H]; [exact (ri_src _ _ _ H)|exact (pa_src _ H)]. Qed.
Lemma rp_segs r : RP r -> b_segs r = lines.
Proof. intros [H|H]; [exact (ri_segs _ _ _ H)|exact (pa_segs _ H)]. Qed.
Lemma rp_ne r : RP r -> lines <> [].
Proof. intros [H|H]; [exact (ri_ne _ _ _ H)|]. pose proof (pa_one _ H) as E. intros ->. discriminate E. Qed.
Lemma rp_pad r : RP r -> 0 <= s_pad (b_pos r).
Proof. intros H. exact (bi_pad _ (rp_inv _ H)). Qed.

Lemma rp_bounds r : RP r -> 0 <= s_start (b_pos r) <= zlen src.
Proof.
  intros H. destruct (bi_bounds _ (rp_inv _ H)) as [(E & _)|(_ & _ & Hb)].
  - rewrite (rp_segs _ H) in E. exfalso. exact (rp_ne _ H E).
  - rewrite (rp_src _ H) in Hb. exact Hb.
Qed.

(* PeekLine *)
Lemma rp_peek r r' line sg : RP r -> b_peek_line r = Ok (r', line, sg) ->
  r' = r /\ sg = b_pos r /\
  match line with
  | Some v => b_in_range r = true /\ v = spaces_n (s_pad sg) ++ sub src (s_start sg) (s_stop sg) /\
              zlen v = s_stop sg - s_start sg + s_pad sg /\
              0 <= s_start sg /\ s_start sg < s_stop sg /\ s_stop sg <= zlen src /\ b_line r < zlen lines
  | None => b_in_range r = false
  end.
Proof.
  intros H Hp. rewrite (b_peek_line_view r (rp_inv _ H)) in Hp. inversion Hp; subst r' sg. clear Hp.
  split; [reflexivity|]. split; [reflexivity|]. destruct (b_in_range r) eqn:Hin; subst line; [|reflexivity].
  pose proof (view_length r (rp_inv _ H) Hin) as Hvl.
  destruct (binv_in r (rp_inv _ H) Hin) as (s & pre & post & Hn & El & Elen & Hok & Ha & Hb & Hc & Hd & Hle & _).
  unfold seg_ok in Hok. rewrite (rp_src _ H) in Hok.
  pose proof (in_range_true r Hin) as [Hl _]. rewrite (rp_segs _ H) in Hl.
  unfold b_view in *. rewrite (rp_src _ H) in *. repeat split; try lia.
Qed.

Lemma rp_in_range_intro r : RP r -> b_line r < zlen lines -> (s_pad (b_pos r) = 0 -> s_start (b_pos r) < s_stop (b_pos r)) ->
  b_in_range r = true.
Proof.
  intros [H|H] Hl Hs; [|exact (pa_in _ H)].
  apply in_range_iff. rewrite (ri_segs _ _ _ H). split; [exact Hl|].
  pose proof (ri_bounds _ _ _ H) as Hb. specialize (Hs (ri_pad _ _ _ H)). split; [lia|].
  destruct (binv_cur r (ri_inv _ _ _ H)) as (s0 & pre & post & _ & _ & _ & _ & _ & Hc & _ & _ & Hle & _).
  { rewrite (ri_segs _ _ _ H). exact Hl. }
  lia.
Qed.

(* the position without the padding is a position of the core invariant *)
Lemma pa_unpad r : PA r -> RI (unpad r).
Proof.
  intros H. pose proof (pa_inv _ H) as Hi.
  destruct (binv_in r Hi (pa_in _ H)) as (s & pre & post & Hn & El & Elen & Hok & Ha & Hb & Hc & Hd & Hle & _).
  pose proof (bi_bounds _ Hi) as Hbd. pose proof (pa_segs _ H) as Hsg. pose proof (pa_one _ H) as Hone.
  constructor.
  - unfold unpad. apply binv_set_pos; bsimpl; try reflexivity; try lia.
    + apply binv_set_loff. exact Hi.
    + exact (bi_fnl _ Hi).
    + intros s' Hs'. destruct (bi_pos _ Hi s' Hs') as (P1 & P2 & P3 & P4). split; [exact P1|exact P4].
    + intros Hne. destruct Hbd as [(E & _)|(_ & _ & Hb')]; [contradiction|exact Hb'].
    + intros E. rewrite Hsg in E. rewrite E in Hone. discriminate Hone.
  - exact (pa_src _ H).
  - exact Hsg.
  - reflexivity.
  - intros E. rewrite E in Hone. discriminate Hone.
  - right. exact Hone.
Qed.

Lemma unpad_line r : b_line (unpad r) = b_line r. Proof. reflexivity. Qed.
Lemma unpad_start r : s_start (b_pos (unpad r)) = s_start (b_pos r). Proof. reflexivity. Qed.
Lemma unpad_stop r : s_stop (b_pos (unpad r)) = s_stop (b_pos r). Proof. reflexivity. Qed.
Lemma unpad_in_range r : b_in_range (unpad r) = b_in_range r. Proof. reflexivity. Qed.

(* Advance inside the padding *)
Lemma pa_advance_part r n r' : PA r -> 0 <= n < s_pad (b_pos r) -> b_advance r n = Ok r' ->
  PA r' /\ b_line r' = b_line r /\ s_start (b_pos r') = s_start (b_pos r) /\ s_stop (b_pos r') = s_stop (b_pos r) /\
  s_pad (b_pos r') = s_pad (b_pos r) - n.
Proof.
  intros H Hn Ha. unfold b_advance in Ha.
  replace ((n <? s_stop (b_pos (bset_loff r (-1))) - s_start (b_pos (bset_loff r (-1)))) && (s_pad (b_pos (bset_loff r (-1))) =? 0))
    with false in Ha by (bsimpl; lia).
  rewrite b_advance_slow_part in Ha; bsimpl; [|lia|lia]. inversion Ha; subst r'. clear Ha. bsimpl.
  split; [|repeat split]. pose proof (pa_inv _ H) as Hi. constructor; bsimpl.
  - apply binv_set_pos; bsimpl; try reflexivity; try lia.
    + apply binv_set_loff. exact Hi.
    + exact (bi_fnl _ Hi).
    + intros s' Hs'. destruct (bi_pos _ Hi s' Hs') as (P1 & P2 & P3 & P4). split; [exact P1|exact P4].
    + intros Hne. destruct (bi_bounds _ Hi) as [(E & _)|(_ & _ & Hb')]; [contradiction|exact Hb'].
    + intros E. rewrite (pa_segs _ H) in E. pose proof (pa_one _ H) as Hone. rewrite E in Hone. discriminate Hone.
  - exact (pa_src _ H).
  - exact (pa_segs _ H).
  - exact (pa_one _ H).
  - exact (pa_line _ H).
  - lia.
  - exact (pa_in _ H).
Qed.

(* Advance inside the peeked line, beyond the padding: the call of an inline parser *)
Lemma rp_advance_scan r n r' : RP r -> b_in_range r = true ->
  s_pad (b_pos r) <= n < s_stop (b_pos r) - s_start (b_pos r) + s_pad (b_pos r) -> 0 <= n -> b_advance r n = Ok r' ->
  RI r' /\ b_line r' = b_line r /\ s_start (b_pos r') = s_start (b_pos r) + n - s_pad (b_pos r) /\
  s_stop (b_pos r') = s_stop (b_pos r).
Proof.
  intros [H|H] Hin Hn Hn0 Ha.
  - rewrite (ri_pad _ _ _ H) in *.
    destruct (ri_advance_fast src lines r n r' H ltac:(lia) Ha) as (F1 & F2 & F3).
    destruct (ri_advance_in src lines r n r' H Hin ltac:(lia) Ha) as [H' _]. split; [exact H'|]. split; [exact F1|]. split; lia.
  - pose proof (pa_pad _ H) as Hp. rewrite b_advance_unpad in Ha by lia. pose proof (pa_unpad _ H) as Hu.
    destruct (ri_advance_fast src lines (unpad r) (n - s_pad (b_pos r)) r' Hu ltac:(rewrite unpad_start, unpad_stop; lia) Ha) as (F1 & F2 & F3).
    destruct (ri_advance_in src lines (unpad r) (n - s_pad (b_pos r)) r' Hu Hin ltac:(rewrite unpad_start, unpad_stop; lia) Ha) as [H' _].
    rewrite unpad_line in F1. rewrite unpad_start in F2. rewrite unpad_stop in F3. split; [exact H'|]. split; [exact F1|]. split; lia.
Qed.

(* Advance at the end of the scan of a line *)
Lemma rp_advance_end r n r' : RP r -> b_in_range r = true ->
  0 <= n <= s_stop (b_pos r) - s_start (b_pos r) + s_pad (b_pos r) -> b_advance r n = Ok r' ->
  RP r' /\ pos_le r r' /\ s_pad (b_pos r') <= s_pad (b_pos r).
Proof.
  intros [H|H] Hin Hn Ha.
  - rewrite (ri_pad _ _ _ H) in *.
    destruct (ri_advance_in src lines r n r' H Hin ltac:(lia) Ha) as [H' Hle]. split; [left; exact H'|]. split; [exact Hle|].
    rewrite (ri_pad _ _ _ H'). lia.
  - pose proof (pa_pad _ H) as Hp. destruct (Z.lt_ge_cases n (s_pad (b_pos r))) as [Hlt|Hge].
    + destruct (pa_advance_part r n r' H ltac:(lia) Ha) as (H' & F1 & F2 & F3 & F4).
      split; [right; exact H'|]. split; [|lia]. split; [lia|]. intros _. lia.
    + rewrite b_advance_unpad in Ha by lia. pose proof (pa_unpad _ H) as Hu.
      destruct (ri_advance_in src lines (unpad r) (n - s_pad (b_pos r)) r' Hu Hin ltac:(rewrite unpad_start, unpad_stop; lia) Ha) as [H' Hle].
      split; [left; exact H'|]. split; [exact Hle|]. rewrite (ri_pad _ _ _ H'). lia.
Qed.

(* AdvanceLine *)
Lemma rp_advance_line r r' : RP r -> b_advance_line r = Ok r' -> RP r' \/ b_in_range r' = false.
Proof.
  intros [H|H] Ha.
  - left. left. exact (proj1 (ri_advance_line _ _ _ _ H Ha)).
  - right. destruct (b_advance_line_spec r (pa_inv _ H)) as (r2 & E2 & _ & _ & Hg2 & _).
    rewrite Ha in E2. inversion E2; subst r2. clear E2.
    apply b_advance_line_line in Ha. destruct Ha as [Hl _]. rewrite (pa_line _ H) in Hl.
    apply in_range_false_intro. intros [C _]. rewrite Hg2, (pa_segs _ H), (pa_one _ H) in C. lia.
Qed.

(* NewBlockReader over one line *)
Lemma rp_new_one sg r : lines = [sg] -> seg_ok src sg -> new_block_reader src lines = Ok r -> RP r.
Proof.
  intros El Hok Hn. rewrite El in Hn.
  assert (Hs : segs_ok src [sg]). { split; [constructor; [exact Hok|constructor]|exact I]. }
  destruct (new_block_reader_spec src [sg] Hs) as (r2 & E2 & Hi & Hsrc & Hsegs). rewrite Hn in E2. inversion E2; subst r2.
  destruct (new_block_reader_one _ _ _ Hn) as (Hl & Hp & Hlast). unfold seg_ok in Hok. rewrite <- El in Hsegs.
  destruct (Z.eq_dec (s_pad sg) 0) as [E0|E0].
  - left. constructor; try assumption; [rewrite Hp; exact E0|rewrite El; discriminate|right; rewrite El; reflexivity].
  - right. constructor; try assumption; [rewrite El; reflexivity|rewrite Hp; lia|].
    apply in_range_iff. rewrite Hsegs, Hl, Hp, Hlast, El. change (zlen [sg]) with 1. lia.
Qed.

End Pad.
