(* Helper file for TypoDefWfTotBlk.v: openBlocks of the generalised driver (open_blocksD) under the two
   Section Hypotheses round_spec / dd_round_spec (one round of open_blocks_loopD: TypoDefWfTotBlkOpenA*.v):
     open_blocksD_ok : open_blocksD_spec ...   (the statement of TypoDefWfTotBlkOpenI.v)
   Port of ParseBlocksTotalOpen.v ob_finish / open_blocks_post / open_blocks_ok_fix. *)
Require Import GM.model.Base GM.model.Util GM.model.Reader GM.model.ReaderSpec GM.model.Blocks GM.model.ListItem
               GM.model.LeafBlocks GM.model.CodeBlock GM.model.LinkDest GM.model.Regex GM.model.BlockParse
               GM.model.TypoDefParseD.
Require Import GM.proofs.ReaderProofs GM.proofs.BlocksProofs
               GM.proofs.ParseBlocksTotalReader GM.proofs.ParseBlocksTotalDefs GM.proofs.ParseBlocksTotalSpec
               GM.proofs.ParseBlocksTotalSt GM.proofs.ParseBlocksTotalShape GM.proofs.ParseBlocksTotalLeaf
               GM.proofs.ParseBlocksTotalOpen
               GM.proofs.TypoDefConservativeBlkInv GM.proofs.TypoDefConservativeBlkB
               GM.proofs.TypoDefWfTotBlkDefs GM.proofs.TypoDefWfTotBlkSpec GM.proofs.TypoDefWfTotBlkOpenI
               GM.proofs.TypoDefWfTotBlkOpenAI GM.proofs.TypoDefWfTotBlkOpenB1 GM.proofs.TypoDefWfTotBlkOpenB2.
From Coq Require Import ZArith Lia List Bool.
Import ListNotations.
Open Scope Z_scope.

Section S.
Variable space_table punct_table : list N.
Variable norm : bytes -> bytes.
Variable re_t1o re_t1c re_t2 re_t3 re_t4 re_t5 re_t6 re_t7 : re.
Variable allowed_tags : list bytes.
Variable src : bytes.
Hypothesis tbl : TblOK space_table.
Notation SI := (SI space_table src).
Notation SD := (SD space_table src).
Notation OBLD := (open_blocks_loopD true space_table punct_table norm re_t1o re_t2 re_t3 re_t4 re_t5 re_t6 re_t7 allowed_tags).
Notation OBD := (open_blocksD true space_table punct_table norm re_t1o re_t1c re_t2 re_t3 re_t4 re_t5 re_t6 re_t7 allowed_tags).
Notation isb := (Reader.is_blank space_table).
Notation RGD := (RGD space_table src).
Notation PFD := (PFD space_table src).
Notation DLF := (DLF space_table src).
Notation DDF := (DDF space_table src).
Notation NPreD := (NPreD space_table src).
Notation NPostD := (NPostD space_table src).

Hypothesis HR : round_spec space_table punct_table norm re_t1o re_t2 re_t3 re_t4 re_t5 re_t6 re_t7 allowed_tags src.
Hypothesis HD : dd_round_spec space_table punct_table norm re_t1o re_t2 re_t3 re_t4 re_t5 re_t6 re_t7 allowed_tags src.

(* the postcondition of open_blocksD_spec *)
Definition OBPostD (parent : nat) (pn : bnode) (s : st) (res : Z) (s' : st) : Prop :=
    SD s' /\ r_le (s_r s) (s_r s') /\
    kkeep (s_h s) (s_h s') /\
    (c_fence (s_c s) <> None -> c_fence (s_c s') <> None) /\
    (c_tmp_para (s_c s) <> None -> c_tmp_para (s_c s') <> None) /\
    (forall t, c_tmp_para (s_c s') = Some t -> (t < length (s_h s))%nat) /\
    (((res = paragraphContinuation \/ res = noBlocksOpened) /\ ops s' = ops s /\
      c_fence (s_c s') = c_fence (s_c s) /\ c_tmp_para (s_c s') = c_tmp_para (s_c s) /\
      hsame_pc (s_h s) (s_h s') /\
      (forall j n n', Some j <> last_para (s_c s) -> nth_error (s_h s) j = Some n -> nth_error (s_h s') j = Some n' ->
                      blines n' = blines n) /\
      bk pn <> BList)
     \/
     (res = newBlocksOpened /\ exists base' new, ops s' = base' ++ new /\ new <> [] /\
      (base' = ops s \/ exists x, ops s = base' ++ [(x, PParagraph)]) /\
      OFrameD (s_h s) (s_h s') parent /\
      ChainD (s_h s') parent new /\
      (forall e, In e new -> (length (s_h s) <= fst e)%nat \/ (snd e = PHTML /\ dlk (s_h s) (fst e))) /\
      (bk pn = BList -> exists it pn', nth_error new 0%nat = Some (it, PListItem) /\
                                       nth_error (s_h s') parent = Some pn' /\ last_id (bch pn') = Some it) /\
      (forall n p nn, nth_error new (pred (length new)) = Some (n, p) -> nth_error (s_h s') n = Some nn ->
         (p = PFenced -> exists ch ind fl, c_fence (s_c s') = Some (ch, ind, fl, n)) /\
         (p <> PFenced -> c_fence (s_c s') = c_fence (s_c s)) /\
         (p = PSetext -> c_tmp_para (s_c s') <> None /\ blines nn <> [] /\
                         exists x, last_opened (s_c s) = Some (x, PParagraph)) /\
         (p <> PSetext -> c_tmp_para (s_c s') = c_tmp_para (s_c s) \/
                          exists x, last_opened (s_c s) = Some (x, PParagraph))))).

Lemma ob_finishD parent pn s s' base' new :
  RGD parent pn s s' new -> new <> [] -> ops s' = base' ++ new ->
  (base' = ops s \/ exists x, ops s = base' ++ [(x, PParagraph)]) ->
  (bk pn = BList -> exists it, nth_error new 0%nat = Some (it, PListItem)) ->
  (forall n, lst new = Some (n, PSetext) ->
     c_tmp_para (s_c s') <> None /\ (forall nn, nth_error (s_h s') n = Some nn -> blines nn <> []) /\
     exists x, last_opened (s_c s) = Some (x, PParagraph)) ->
  ((forall n, lst new <> Some (n, PSetext)) ->
     c_tmp_para (s_c s') = c_tmp_para (s_c s) \/
     (c_tmp_para (s_c s') <> None /\ exists x, last_opened (s_c s) = Some (x, PParagraph))) ->
  (forall t, c_tmp_para (s_c s') = Some t -> (t < length (s_h s))%nat) ->
  OBPostD parent pn s newBlocksOpened s'.
Proof.
  intros (R1 & R2 & R3 & R4 & R5 & R6 & R7 & RF) Hne Ho Hbase Hl Hset Hnset Htl.
  assert (Hd : (exists n, lst new = Some (n, PSetext)) \/ (forall n, lst new <> Some (n, PSetext))).
  { destruct (lst new) as [[n p]|]; [|right; intros n C; discriminate].
    assert (Hd : p = PSetext \/ p <> PSetext) by (destruct p; (left; reflexivity) || (right; discriminate)).
    destruct Hd as [->|Hd]; [left; eauto|right; intros n' C; injection C as _ C; contradiction]. }
  unfold OBPostD. csplit.
  - exact R1.
  - exact R3.
  - exact R2.
  - apply (fence_keep _ _ _ RF).
  - intros Hn. destruct Hd as [[n Hd]|Hd].
    + apply (Hset n Hd).
    + destruct (Hnset Hd) as [E|[E _]]; [rewrite E; exact Hn|exact E].
  - exact Htl.
  - right. split; [reflexivity|]. exists base', new. csplit; auto.
    + intros K. destruct (Hl K) as [it Hit]. destruct (R7 K it PListItem Hit) as (pn' & E1 & E2). exists it, pn'. auto.
    + intros n p nn Hn Hnn. change (lst new = Some (n, p)) in Hn. destruct RF as [F1 F2]. csplit.
      * intros ->. apply F1, Hn.
      * intros Hp. apply F2. intros n' C. rewrite Hn in C. injection C as _ C. contradiction.
      * intros ->. destruct (Hset n Hn) as (A & B & C). csplit; auto.
      * intros Hp. destruct (Hnset ltac:(intros n' C; rewrite Hn in C; injection C as _ C; contradiction)) as [E|[_ E]]; auto.
Qed.

Lemma open_blocksD_post fuel parent pn blank s :
  SD s -> nth_error (s_h s) parent = Some pn -> is_dl pn = false ->
  (bk pn = BList -> LP space_table s parent) ->
  (forall e n, In e (ops s) -> nth_error (s_h s) (fst e) = Some n -> bpar n <> None) ->
  (forall k e, nth_error (ops s) k = Some e -> (S k < length (ops s))%nat -> contD (s_h s) e) ->
  Below (s_h s) (s_r s) ->
  (Z.to_nat (2 * (s_stop (r_pos (s_r s)) - s_start (r_pos (s_r s))) + 8) <= fuel)%nat ->
  exists res s', OBD fuel parent blank s = Ok (res, s') /\ OBPostD parent pn s res s'.
Proof using tbl HR HD.
  intros HSD Hp Hdl HLP Hattd Hcont HB Hfuel.
  pose proof HSD as [HS HT].
  pose proof (ri_bounds _ (si_r _ _ _ HS)) as Hbd.
  assert (Hatt : lastatt s).
  { intros l lp n El En. destruct (last_opened_inv _ _ (ci_len _ _ (si_c _ _ _ HS)) El) as [b Eb].
    apply (Hattd (l, lp) n); [unfold ops; rewrite Eb; apply in_or_app; right; left; reflexivity|exact En]. }
  assert (Hc0 : exists cont,
            match last_opened (s_c s) with None => Ok false | Some (l, _) => is_paragraph (s_h s) l end = Ok cont /\
            (cont = true -> exists l ln, last_opened (s_c s) = Some (l, PParagraph) /\ nth_error (s_h s) l = Some ln /\
                                         bk ln = BParagraph) /\
            (cont = false -> last_para (s_c s) = None)).
  { destruct (last_opened (s_c s)) as [[l lp]|] eqn:El.
    - destruct (is_paragraph_ok space_table src s l lp HS El) as (n & En & Kn & Ei).
      exists (bkind_eqb (bk n) BParagraph). split; [exact Ei|].
      destruct (bkind_eqb_spec (bk n) BParagraph) as [K|K].
      + split; [|discriminate]. intros _. rewrite K in Kn. symmetry in Kn. apply kind_para_parser in Kn. subst lp. eauto.
      + split; [discriminate|]. intros _. unfold last_para. rewrite El. destruct lp; try reflexivity. cbn in Kn. congruence.
    - exists false. split; [reflexivity|]. split; [discriminate|]. intros _. unfold last_para. rewrite El. reflexivity. }
  destruct Hc0 as (cont & Ec & Hct & Hcf).
  unfold open_blocksD. rewrite Ec. cbn [bind].
  destruct fuel as [|f]; [lia|].
  assert (Htl : forall t, c_tmp_para (s_c s) = Some t -> (t < length (s_h s))%nat).
  { intros t Ht. destruct (ci_tmp _ _ (si_c _ _ _ HS) t Ht) as (n & En & _). eapply nth_error_lt, En. }
  destruct (HR f parent pn blank cont noBlocksOpened s HSD Hp Hdl Hatt HLP) as [(s1 & E & S1D & D & Knl & _)|(Hin & t & E & O)].
  - (* no block is opened *)
    rewrite E. cbn [bind]. cbv beta iota. change (noBlocksOpened =? noBlocksOpened) with true. cbn [andb].
    pose proof D as (Dh & Dp & Da & Dl & Df & Dt). pose proof S1D as [S1 T1].
    destruct cont.
    + destruct (Hct eq_refl) as (l & ln & El & En & Kl). rewrite (dcl_last _ _ D), El.
      assert (En1 : nth_error (s_h s1) l = Some ln) by (rewrite Dh; exact En).
      rewrite (p_continueD_para space_table re_t1c PParagraph s1 l ln En1 Kl). cbn [p_continue].
      destruct (para_continue_ob space_table punct_table norm re_t1o re_t1c re_t2 re_t3 re_t4 re_t5 re_t6 re_t7 allowed_tags
                  src tbl s1 l ln S1 En1 Kl) as (s2 & c & E2 & CP & Fr).
      { rewrite (dcl_pos _ _ D). exact (HB l ln En Kl). }
      rewrite E2. cbn [bind fst snd]. cbv beta iota.
      exists (if c then paragraphContinuation else noBlocksOpened), s2. split; [reflexivity|].
      destruct CP as (S2 & R2 & Cf2 & Ff2 & Ft2 & _ & _ & Hs & Hpc).
      assert (Hpc1 : hsame_pc (s_h s1) (s_h s2)).
      { destruct c; [apply Hpc; reflexivity|]. destruct (Hs eq_refl eq_refl) as [Hst _]. apply hsame_struct_pc, Hst. }
      assert (Hpc2 : hsame_pc (s_h s) (s_h s2)) by (rewrite <- Dh; exact Hpc1).
      unfold OBPostD. csplit.
      * split; [exact S2|]. eapply TC_hsame_pc; [exact T1|exact Hpc1].
      * eapply r_le_trans; [apply same_pos_le, Dp|exact R2].
      * rewrite <- Dh. eapply kkeep_hRk. apply (paragraph_continue_sR space_table 0%nat s1 l s2 c E2).
      * rewrite Ff2, Df. auto.
      * rewrite Ft2, Dt. auto.
      * intros t. rewrite Ft2, Dt. apply Htl.
      * left. csplit.
        -- destruct c; auto.
        -- unfold ops, opened. destruct Cf2 as (A & B & _). rewrite A, B, Da, Dl. reflexivity.
        -- rewrite Ff2. exact Df.
        -- rewrite Ft2. exact Dt.
        -- exact Hpc2.
        -- intros j n n' Hj Hn Hn'. unfold last_para in Hj. rewrite El in Hj. assert (Hjl : j <> l) by congruence.
           rewrite (Fr j Hjl), Dh, Hn in Hn'. injection Hn' as <-. reflexivity.
        -- exact Knl.
    + exists noBlocksOpened, s1. split; [reflexivity|]. unfold OBPostD. csplit.
      * exact S1D.
      * apply same_pos_le, Dp.
      * apply kkeep_eq, Dh.
      * rewrite Df. auto.
      * rewrite Dt. auto.
      * intros t. rewrite Dt. apply Htl.
      * left. csplit; auto.
        -- apply (dcl_ops _ _ D).
        -- rewrite Dh. split; [reflexivity|]. intros j n Hn. exists n. auto.
        -- intros j n n' _ Hn Hn'. rewrite Dh, Hn in Hn'. injection Hn' as <-. reflexivity.
  - rewrite E. destruct O as [O|[O|O]].
    + (* the paragraph in front of a setext bar / of the first definition vanished: the loop goes on without it *)
      destruct O as (s1 & base & x & -> & S1D & K1 & Sp & Eo & Eo1 & HAF & Hf & Htn & Htl1 & Hw & Hb & Knl).
      pose proof S1D as [S1 T1].
      pose proof (last_opened_app _ _ _ (ci_len _ _ (si_c _ _ _ HS)) Eo) as Elx.
      pose proof HAF as [LA HA]. destruct (HA parent pn Hp) as (pn1 & Ep1 & Kp1 & _).
      assert (Hl1 : forall l lp, last_opened (s_c s1) = Some (l, lp) ->
                lp <> PParagraph /\ exists n0, nth_error (s_h s) l = Some n0 /\ bpar n0 <> None /\ bk n0 <> BParagraph).
      { intros l lp El. destruct (last_opened_inv _ _ (ci_len _ _ (si_c _ _ _ S1)) El) as [b Eb].
        fold (ops s1) in Eb. rewrite Eo1 in Eb.
        assert (Hnth : nth_error (ops s) (length b) = Some (l, lp)).
        { rewrite Eo, Eb, <- app_assoc. rewrite nth_error_app2 by lia. rewrite Nat.sub_diag. reflexivity. }
        assert (Hc : lp <> PParagraph).
        { apply (contD_not_para (s_h s) (l, lp)). apply (Hcont (length b) (l, lp) Hnth).
          rewrite Eo, Eb, !app_length. cbn [length]. lia. }
        split; [exact Hc|].
        pose proof (nth_error_In _ _ Hnth) as Hin'.
        destruct (ci_arr _ _ (si_c _ _ _ HS) _ (opened_in _ _ Hin')) as (n0 & En0 & Kn0). cbn [fst snd] in En0, Kn0.
        exists n0. csplit; auto.
        - apply (Hattd (l, lp) n0 Hin' En0).
        - rewrite Kn0. intros C. apply kind_para_parser in C. contradiction. }
      assert (Hpos : r_pos (s_r s1) = r_pos (s_r s)) by (destruct Sp as (_ & Q & _); exact Q).
      destruct (np_loopD space_table punct_table norm re_t1o re_t2 re_t3 re_t4 re_t5 re_t6 re_t7 allowed_tags src HR HD
                  blank f parent pn1 false noBlocksOpened s1) as (cont' & s' & new & E' & (R & Ho' & Ht' & Hns' & _ & Hne)).
      { unfold TypoDefWfTotBlkOpenB2.NPreD. csplit; auto.
        - rewrite <- Hdl. eapply kkeep_is_dl; eassumption.
        - intros l lp n El En. destruct (Hl1 l lp El) as (_ & n0 & En0 & Pn0 & Kn0).
          destruct (HA l n0 En0) as (n' & En' & _ & A' & _). rewrite En in En'. injection En' as <-.
          destruct (A' Kn0) as [_ Q]. congruence.
        - intros K. rewrite Kp1 in K. contradiction.
        - unfold last_para. destruct (last_opened (s_c s1)) as [[l lp]|] eqn:El; [|reflexivity].
          destruct (Hl1 l lp eq_refl) as (Hc & _). destruct lp; try reflexivity. exfalso. apply Hc. reflexivity.
        - right. csplit; auto.
          + unfold sin. rewrite (same_pos_in_range _ _ Sp). exact Hin.
          + unfold sview. rewrite (same_pos_view _ _ Sp). exact Hb.
          + unfold wof, sview, soff. rewrite (same_pos_view _ _ Sp), (same_pos_column _ _ Sp). exact Hw. }
      { unfold pot. rewrite Hpos. destruct (bkind_eqb (bk pn1) BList); lia. }
      cbv beta iota. rewrite E'. cbn [bind]. cbv beta iota. change (newBlocksOpened =? noBlocksOpened) with false. cbn [andb].
      exists newBlocksOpened, s'. split; [reflexivity|].
      assert (Hnset : forall n, lst new <> Some (n, PSetext)).
      { intros n C. apply (Hns' (n, PSetext)); [eapply nth_error_In, C|reflexivity]. }
      apply (ob_finishD parent pn s s' base new).
      * eapply (RGD_pre space_table src parent pn pn1 s s1 s' new); eauto.
        -- apply same_pos_le, Sp.
        -- intros K. contradiction.
      * apply Hne. discriminate.
      * rewrite Ho', Eo1. reflexivity.
      * right. exists x. exact Eo.
      * intros K. contradiction.
      * intros n C. exfalso. exact (Hnset n C).
      * intros _. rewrite Ht'. destruct Htn as [Htn|Htn]; [left; exact Htn|right]. split; [exact Htn|]. exists x. exact Elx.
      * intros t. rewrite Ht'. apply Htl1.
    + destruct O as (bp & node & kids & s1 & -> & PFx). destruct kids.
      * (* a container is pushed: the loop goes on below it *)
        destruct (push_kids_preD space_table src parent pn cont s bp node s1 PFx) as (nn & N1 & N2 & Hns & Hops1 & Hpre & Hpot).
        destruct (np_loopD space_table punct_table norm re_t1o re_t2 re_t3 re_t4 re_t5 re_t6 re_t7 allowed_tags src HR HD
                    blank f node nn cont newBlocksOpened s1 Hpre) as (cont' & s' & new' & E' & (R & Ho' & Ht' & Hns' & Hl' & _)).
        { unfold pot in *. destruct (bkind_eqb (bk pn) BList); lia. }
        cbv beta iota. rewrite E'. cbn [bind]. cbv beta iota. change (newBlocksOpened =? noBlocksOpened) with false. cbn [andb].
        exists newBlocksOpened, s'. split; [reflexivity|].
        pose proof PFx as (_ & _ & _ & _ & _ & _ & _ & _ & _ & Hlist & _ & _ & _ & Htmp & _).
        assert (Hnset : forall n, lst ((node, bp) :: new') <> Some (n, PSetext)).
        { intros n C. apply nth_error_In in C. destruct C as [C|C]; [congruence|]. apply (Hns' _ C). reflexivity. }
        apply (ob_finishD parent pn s s' (ops s) ((node, bp) :: new')).
        -- eapply (RGD_pushD space_table src); [exact Hp|exact PFx|exact N1|exact R|discriminate|].
           intros ->. apply Hl'. rewrite N2. reflexivity.
        -- discriminate.
        -- rewrite Ho', Hops1, <- app_assoc. reflexivity.
        -- left. reflexivity.
        -- intros K. exists node. rewrite (Hlist K). reflexivity.
        -- intros n C. exfalso. exact (Hnset n C).
        -- intros _. left. rewrite Ht'. apply Htmp, Hns.
        -- intros t. rewrite Ht', (Htmp Hns). apply Htl.
      * (* a leaf is pushed *)
        cbv beta iota. cbn [bind]. cbv beta iota. change (newBlocksOpened =? noBlocksOpened) with false. cbn [andb].
        exists newBlocksOpened, s1. split; [reflexivity|].
        pose proof PFx as (S1 & K1 & Lr & Hk & Hnode & Hops & HAF & (nn & N1 & N2 & N3 & N4 & N5) & Hpl & Hlist & Hf1 & Hf2 & Hset & Htmp & HPL & Hadv).
        assert (Hd : bp = PSetext \/ bp <> PSetext) by (destruct bp; (left; reflexivity) || (right; discriminate)).
        assert (Hbase : exists base', ops s1 = base' ++ [(node, bp)] /\
                          (base' = ops s \/ exists x, ops s = base' ++ [(x, PParagraph)])).
        { destruct Hops as [H|(_ & b & x & H1 & H2)]; [exists (ops s); auto|exists b; eauto]. }
        destruct Hbase as (base' & Hb1 & Hb2).
        apply (ob_finishD parent pn s s1 base' [(node, bp)]).
        -- eapply (RGD_pushD space_table src); [exact Hp|exact PFx|exact N1|apply RGD_nil; [exact S1|apply dcl_refl]|auto|].
           intros ->. exfalso. destruct (HPL eq_refl) as [C _]. discriminate.
        -- discriminate.
        -- exact Hb1.
        -- exact Hb2.
        -- intros K. exists node. rewrite (Hlist K). reflexivity.
        -- intros n C. cbn in C. injection C as <- ->. destruct (Hset eq_refl) as (A & B & C). csplit; auto.
           intros nn' Hnn'. rewrite N1 in Hnn'. injection Hnn' as <-. apply N5. reflexivity.
        -- intros Hn. left. apply Htmp. intros ->. apply (Hn node). reflexivity.
        -- intros t Ht. destruct Hd as [->|Hd]; [destruct (Hset eq_refl) as (_ & B & _); apply B, Ht|].
           rewrite (Htmp Hd) in Ht. apply Htl, Ht.
    + (* the definition list parser has pushed a list: the next round pushes the description, the loop goes on below it *)
      destruct O as (dl & s1 & -> & DL).
      destruct (dl_preD space_table src parent pn s dl s1 DL) as (Hatt1 & Hpot1 & Hpos & Knl).
      destruct f as [|f']; [exfalso; lia|].
      destruct (HD f' parent pn s dl blank cont s1 DL Hatt1) as (dd & s2 & E2 & DD).
      cbv beta iota. rewrite E2.
      destruct (dd_preD space_table src dl cont s1 dd s2 DD) as (dn & D1 & Hpre & Hpot2). specialize (Hpot2 pn Knl).
      destruct (np_loopD space_table punct_table norm re_t1o re_t2 re_t3 re_t4 re_t5 re_t6 re_t7 allowed_tags src HR HD
                  blank f' dd dn cont newBlocksOpened s2 Hpre) as (cont' & s' & new' & E' & (R & Ho' & Ht' & Hns' & Hl' & _)).
      { unfold pot in *. destruct (bkind_eqb (bk pn) BList); destruct (bkind_eqb (bk dn) BList); lia. }
      rewrite E'. cbn [bind]. cbv beta iota. change (newBlocksOpened =? noBlocksOpened) with false. cbn [andb].
      exists newBlocksOpened, s'. split; [reflexivity|].
      pose proof DL as (_ & _ & _ & _ & _ & Hops & _ & _ & _ & _ & _ & Ht1 & _).
      pose proof DD as (_ & _ & _ & _ & Hops2 & _ & _ & _ & _ & _ & Ht2).
      assert (Hbase : exists base', ops s1 = base' ++ [(dl, PHTML)] /\
                        (base' = ops s \/ exists x, ops s = base' ++ [(x, PParagraph)])).
      { destruct Hops as [H|(b & x & H1 & H2)]; [exists (ops s); auto|exists b; eauto]. }
      destruct Hbase as (base' & Hb1 & Hb2).
      assert (Hnset : forall n, lst ((dl, PHTML) :: (dd, PHTML) :: new') <> Some (n, PSetext)).
      { intros n C. apply nth_error_In in C. destruct C as [C|[C|C]]; [congruence|congruence|]. apply (Hns' _ C). reflexivity. }
      apply (ob_finishD parent pn s s' base' ((dl, PHTML) :: (dd, PHTML) :: new')).
      * eapply (RGD_pushDL space_table src); eassumption.
      * discriminate.
      * rewrite Ho', Hops2, Hb1, <- !app_assoc. reflexivity.
      * exact Hb2.
      * intros K. contradiction.
      * intros n C. exfalso. exact (Hnset n C).
      * intros _. left. rewrite Ht', Ht2. exact Ht1.
      * intros t. rewrite Ht', Ht2, Ht1. apply Htl.
Qed.

Lemma open_blocksD_ok :
  open_blocksD_spec space_table punct_table norm re_t1o re_t1c re_t2 re_t3 re_t4 re_t5 re_t6 re_t7 allowed_tags src.
Proof using tbl HR HD.
  unfold open_blocksD_spec. intros fuel parent pn blank s HS Hp Hdl HLP Hattd Hcont HB Hfuel.
  destruct (open_blocksD_post fuel parent pn blank s HS Hp Hdl HLP Hattd Hcont HB Hfuel) as (res & s' & E & P).
  exists res, s'. split; [exact E|].
  destruct P as (P1 & P2 & P3 & P4). split; [exact P1|]. split; [exact P2|]. split; [exact P3|]. exact P4.
Qed.

End S.
