(* The driver of the inline phase over the state invariant SInv: try_inline, scan_line,
   parse_block_loop, parse_block and inline_children are total.  The link parser's spec is a
   hypothesis here (proved in ParseInlineTotalLink.v). *)
Require Import GM.model.Base GM.model.Util GM.model.Reader GM.model.ReaderSpec GM.model.ListItem GM.model.LeafBlocks
               GM.model.CodeSpan GM.model.LinkDest GM.model.Regex GM.model.Delim GM.model.BlockParse GM.model.Html GM.model.InlineParse.
Require Import GM.proofs.MiscProofs GM.proofs.BReaderProofs GM.proofs.BlockRangeProofs GM.proofs.RegexProofs GM.proofs.ParseInv.
Require Import GM.proofs.ParseInlineTotalHeap GM.proofs.ParseInlineTotalDelim GM.proofs.ParseInlineTotalEmph
               GM.proofs.ParseInlineTotalLabel GM.proofs.ParseInlineTotalCtx GM.proofs.ParseInlineTotalTree
               GM.proofs.ParseInlineTotalReader GM.proofs.ParseInlineTotalReader2 GM.proofs.ParseInlineTotalParsers.
From Coq Require Import ZArith Lia List Arith Bool.
Import ListNotations.
Open Scope Z_scope.

(* ---------- generic list facts ---------- *)
Lemma drv_skipn_zskip {A} (l : list A) a n : 0 <= a -> 0 <= n -> skipn (Z.to_nat n) (zskip a l) = zskip (a + n) l.
Proof.
  intros Ha Hn. unfold zskip. rewrite skipn_skipn_add. f_equal. lia.
Qed.

Lemma drv_zskip_cons_lt {A} (l : list A) i c tl : 0 <= i -> zskip i l = c :: tl -> i < zlen l.
Proof.
  intros Hi E. pose proof (br_zlen_zskip i l) as Hz. rewrite E, zlen_cons in Hz. pose proof (zlen_nonneg tl). lia.
Qed.

(* ---------- the start of a block: reader and context ---------- *)
Lemma new_block_reader_pos src a l r : new_block_reader src (a :: l) = Ok r -> b_pos r = a.
Proof.
  unfold new_block_reader, b_reset_position. intros H.
  match type of H with (r <- ?X ;; _) = _ => destruct X as [r0| |] eqn:E0 end; cbn [bind] in H; try discriminate.
  assert (Hl : b_line r0 = -1 /\ b_segs r0 = a :: l).
  { unfold b_nsegs in E0. bsimpl. destruct (0 <? zlen (a :: l)).
    - destruct (seg_at (a :: l) (zlen (a :: l) - 1)); cbn [bind] in E0; try discriminate. inversion E0; subst r0. bsimpl. auto.
    - inversion E0; subst r0. bsimpl. auto. }
  destruct Hl as [Hl Hs].
  destruct (b_advance_line_pos r0 r H) as (_ & _ & _ & [(_ & t & Ht & Et)|(Hge & _)]).
  - rewrite Hl, Hs in Ht. cbn in Ht. congruence.
  - rewrite Hl, Hs, zlen_cons in Hge. pose proof (zlen_nonneg l). lia.
Qed.

Lemma lines_ok_segs src lines : lines_ok src lines -> segs_ok src lines /\ Forall (fun s => s_pad s = 0) lines.
Proof.
  intros [H1 H2]. rewrite forallb_forall in H1. split; [split|].
  - apply Forall_forall. intros s Hs. specialize (H1 s Hs). unfold seg_ok_b in H1. unfold seg_ok.
    destruct (s_fnl s); [rewrite andb_false_r in H1; discriminate|]. lia.
  - clear H1. induction lines as [|a t IH]; [exact I|]. destruct t as [|b t']; [exact I|].
    cbn [segs_sorted_b] in H2. apply andb_prop in H2. destruct H2 as [Ha Ht]. split; [lia|]. apply IH. exact Ht.
  - apply Forall_forall. intros s Hs. specialize (H1 s Hs). unfold seg_ok_b in H1. lia.
Qed.

Lemma cinv_init src lo : CInv src lo init_ictx [] [].
Proof.
  assert (Hp : forall y, par (i_h init_ictx) y = None).
  { intros [|[|y]]; reflexivity. }
  assert (Hc : forall y, chl (i_h init_ictx) y = []).
  { intros [|[|y]]; reflexivity. }
  assert (Hk : forall y k, kd (i_h init_ictx) y = Some k -> k = IRoot).
  { intros [|[|y]] k E; cbn in E; congruence. }
  constructor.
  - constructor.
    + constructor.
      * intros x c. rewrite Hc, Hp. split; [intros []|discriminate].
      * intros x. rewrite Hc. constructor.
      * cbn. lia.
      * reflexivity.
    + intros y k E. rewrite (Hk y k E). exact Logic.I.
    + exists (fun _ => 0%nat). intros x p E. rewrite Hp in E. discriminate.
    + constructor.
      * constructor.
      * reflexivity.
      * reflexivity.
      * exact Logic.I.
      * intros d [].
      * intros y k E Hd. rewrite (Hk y k E) in Hd. discriminate.
  - intros d [].
  - constructor.
    + constructor.
    + reflexivity.
    + exact Logic.I.
    + intros hd E. discriminate.
    + intros d [].
    + intros y s im p n f l E. apply Hk in E. discriminate.
Qed.

Section Drive.
Variable space_table punct_table : list N.
Variable norm : bytes -> bytes.
Variable url_table email_table : list N.
Variable re_email_domain re_open_tag re_close_tag : re.
Variable punct_rune space_rune : N -> bool.
Variable refs : list (bytes * (bytes * option bytes)).
Variable src : bytes.
Variable segs : list seg.
Variable first : seg.
Hypothesis Hfirst : hd_error segs = Some first.
Hypothesis Hopen : re_nonempty re_open_tag = true.
Hypothesis Hclose : re_nonempty re_close_tag = true.

Notation lo := (s_start first).
Notation CInv := (CInv src lo).
Notation RI := (RI src segs).
Notation KOK := (KOK src lo).
Notation KOKh := (KOKh src lo).
Notation SInv := (SInv src segs first).
Notation PPost := (PPost src segs first).
Notation Bnd := (Bnd src).
Notation IP := (ip_parse space_table punct_table norm url_table email_table re_email_domain re_open_tag re_close_tag
                  punct_rune space_rune refs).
Notation TRY := (try_inline space_table punct_table norm url_table email_table re_email_domain re_open_tag re_close_tag
                   punct_rune space_rune refs).
Notation SCAN := (scan_line space_table punct_table norm url_table email_table re_email_domain re_open_tag re_close_tag
                    punct_rune space_rune refs).
Notation LOOP := (parse_block_loop space_table punct_table norm url_table email_table re_email_domain re_open_tag re_close_tag
                    punct_rune space_rune refs).

Hypothesis link_parse_spec : forall s dl ll, SInv s dl ll -> b_in_range (t_r s) = true ->
  exists s' res, link_parse space_table punct_table norm refs s 0%nat = Ok (s', res) /\ PPost s s' res.

(* ---------- the potentials under a tree step ---------- *)
Lemma Bnd_dl_same c c' dl ll r : dl_same (i_h c) (i_h c') -> Bnd c dl ll r -> Bnd c' dl ll r.
Proof.
  intros [DV LV] [B1 B2]. split.
  - rewrite (sumlen_frame (i_h c) (i_h c')) by (intros y _; apply dcoreh_dv; exact DV). exact B1.
  - eapply lab_le_lv; [exact LV|exact B2].
Qed.

(* ---------- ip_parse ---------- *)
Lemma ip_parse_spec p s dl ll : SInv s dl ll -> b_in_range (t_r s) = true ->
  (p = IPCodeSpan -> hd 255%N (b_view (t_r s)) = 96%N) ->
  exists s' res, IP p s 0%nat = Ok (s', res) /\ PPost s s' res.
Proof.
  intros Iv Hin Hcs. destruct p; cbn [ip_parse].
  - apply (code_span_parse_s_spec src segs first re_open_tag re_close_tag Hopen Hclose space_table s dl ll Iv Hin). apply Hcs. reflexivity.
  - apply (link_parse_spec s dl ll Iv Hin).
  - apply (autolink_parse_spec src segs first punct_rune space_rune url_table email_table re_email_domain s dl ll Iv Hin).
  - apply (raw_html_parse_spec src segs first re_open_tag re_close_tag Hopen Hclose s dl ll Iv Hin).
  - apply (emphasis_parse_spec src segs first punct_rune space_rune s dl ll Iv Hin).
Qed.

(* ---------- try_inline: the parsers in turn, the reader reset after each failure ---------- *)
Definition TryPost (r0 : breader) (s s' : ist) (res : option nat) : Prop :=
  match res with
  | Some nd => PPost s s' (Some nd)
  | None => exists dl' ll', SInv s' dl' ll' /\ b_line (t_r s') = b_line r0 /\ b_pos (t_r s') = b_pos r0
  end.

Lemma try_inline_spec r0 : RI r0 -> forall ips s dl ll, SInv s dl ll -> b_in_range (t_r s) = true ->
  b_line (t_r s) = b_line r0 -> b_pos (t_r s) = b_pos r0 ->
  (In IPCodeSpan ips -> hd 255%N (b_view (t_r s)) = 96%N) ->
  exists s' res, TRY ips s 0%nat (b_line r0) (b_pos r0) = Ok (s', res) /\ TryPost r0 s s' res.
Proof.
  intros HR0. induction ips as [|p rest IH]; intros s dl ll Iv Hin El Ep Hcs; cbn [try_inline].
  - exists s, None. split; [reflexivity|]. exists dl, ll. auto.
  - destruct (ip_parse_spec p s dl ll Iv Hin) as (s1 & res1 & E1 & P1).
    { intros X. apply Hcs. left. exact X. }
    rewrite E1. cbn [bind]. destruct res1 as [nd|].
    + exists s1, (Some nd). split; [reflexivity|exact P1].
    + destruct P1 as (dl1 & ll1 & C1 & R1 & B1). pose proof Iv as [C R B].
      destruct (ri_set_position src segs (t_r s1) r0 R1 HR0 (segs_nonempty src segs _ R Hin)) as (r2 & E2 & HR2 & L2 & P2).
      rewrite E2. cbn [bind].
      destruct (ri_same_pos src segs r2 (t_r s) HR2 R) as (In2 & V2 & Rest2); [congruence|congruence|].
      assert (Iv2 : SInv (ist_r s1 r2) dl1 ll1).
      { constructor; cbn [ist_r t_c t_r]; [exact C1|exact HR2|].
        apply (Bnd_same_pos src segs (t_c s1) dl1 ll1 (t_r s) r2 R HR2); [congruence|congruence|exact B1]. }
      destruct (IH (ist_r s1 r2) dl1 ll1 Iv2) as (s' & res & E' & P'); cbn [ist_r t_r].
      * rewrite In2. exact Hin.
      * exact L2.
      * exact P2.
      * intros X. rewrite V2. apply Hcs. right. exact X.
      * exists s', res. split; [exact E'|]. destruct res as [nd|]; [|exact P'].
        destruct P' as (dl' & ll' & h'' & Ea & Iv' & Hlt). exists dl', ll', h''. split; [exact Ea|]. split; [exact Iv'|].
        cbn [ist_r t_r] in Hlt. rewrite Rest2 in Hlt. exact Hlt.
Qed.

(* ---------- scan_line ---------- *)
(* the reader has not moved since the pending text began: it sits at index i - n of the line,
   and start_pos is its position *)
Record ScanI (line : bytes) (l : Z) (i n : Z) (start_pos : seg) (s : ist) : Prop := {
  sc_n : 0 <= n <= i;
  sc_i : i <= zlen line;
  sc_in : b_in_range (t_r s) = true;
  sc_line : b_line (t_r s) = l;
  sc_view : b_view (t_r s) = zskip (i - n) line;
  sc_start : s_start start_pos = s_start (b_pos (t_r s));
  sc_stop : s_stop start_pos = s_stop (b_pos (t_r s));
  sc_pad : s_pad start_pos = 0
}.

Definition ScanPost (line : bytes) (l : Z) (s : ist) (out : (ist * bool) + (ist * Z * seg)) : Prop :=
  match out with
  | inl (s', _) => exists dl' ll', SInv s' dl' ll' /\ zlen (b_rest (t_r s')) < zlen (b_rest (t_r s))
  | inr (s', n', sp') => exists dl' ll' i', SInv s' dl' ll' /\ ScanI line l i' n' sp' s' /\
      zlen (b_rest (t_r s')) <= zlen (b_rest (t_r s))
  end.

(* advancing over the pending text, inside the line *)
Lemma scan_advance line l i n start_pos s dl ll c tl : SInv s dl ll -> ScanI line l i n start_pos s ->
  zskip i line = c :: tl ->
  exists rd, b_advance (t_r s) n = Ok rd /\ SInv (ist_r s rd) dl ll /\ b_in_range rd = true /\ b_line rd = l /\
    s_start (b_pos rd) = s_start (b_pos (t_r s)) + n /\ s_stop (b_pos rd) = s_stop (b_pos (t_r s)) /\
    b_view rd = c :: tl /\ zlen (b_rest rd) <= zlen (b_rest (t_r s)).
Proof.
  intros [C R B] [I1 I2 I3 I4 I5 I6 I7 I8] Ez.
  assert (Hi : i < zlen line) by (eapply drv_zskip_cons_lt; [lia|exact Ez]).
  assert (Hv : zlen (b_view (t_r s)) = zlen line - (i - n)) by (rewrite I5, br_zlen_zskip; lia).
  destruct (ri_view src segs _ R I3) as (_ & _ & _ & _ & tl0 & Er).
  destruct (ri_advance_rle src segs (t_r s) n R) as (r1 & E1 & _ & Hle1 & _).
  { rewrite Er, zlen_app. pose proof (zlen_nonneg tl0). lia. }
  destruct (ri_advance_in src segs (t_r s) n R I3) as (rd & E & HRd & Hin & Hl & Hs & He & Hvw & _); [lia|].
  rewrite E1 in E. inversion E; subst r1. clear E.
  exists rd. split; [exact E1|]. split.
  { constructor; cbn [ist_r t_c t_r]; [exact C|exact HRd|eapply Bnd_rle; eassumption]. }
  split; [exact Hin|]. split; [congruence|]. split; [exact Hs|]. split; [exact He|]. split; [|exact (proj1 Hle1)].
  rewrite Hvw, I5, drv_skipn_zskip by lia. replace (i - n + n) with i by lia. exact Ez.
Qed.

(* flushing the pending text into the block *)
Lemma scan_flush s dl ll bt : SInv s dl ll -> seg_in src bt ->
  exists c', merge_or_append (t_c s) 0%nat bt = Ok c' /\ SInv (ist_c s c') dl ll.
Proof.
  intros [C R B] Hbt. pose proof (ci_d _ _ _ _ _ C) as [W K A D].
  destruct (merge_or_append_spec src lo (t_c s) 0%nat bt W K A (w_len _ W) Hbt) as (c' & E & W' & K' & A' & CS & DS & L' & Pn).
  exists c'. split; [exact E|]. constructor; cbn [ist_c t_c t_r].
  - eapply CInv_tree; [exact C| | | | | |]; try assumption.
    intros y Hy. rewrite Pn; [tauto|]. destruct Hy as [Hy|Hy]; [apply isdk_lt in Hy|apply islk_lt in Hy]; exact Hy.
  - exact R.
  - eapply Bnd_dl_same; eassumption.
Qed.

Lemma inline_parsers_codespan c : In IPCodeSpan (inline_parsers c) -> c = 96%N.
Proof.
  unfold inline_parsers. destruct (N.eqb_spec c 96) as [E|E]; [intros _; exact E|].
  destruct (_ || _ || _)%bool; [intros [X|[]]; discriminate|].
  destruct (N.eqb c 60); [intros [X|[X|[]]]; discriminate|].
  destruct (_ || _)%bool; [intros [X|[]]; discriminate|intros []].
Qed.

Lemma scan_line_spec : forall fuel line i line_length n escaped start_pos s l dl ll,
  SInv s dl ll -> ScanI line l i n start_pos s -> (Z.to_nat (zlen line - i) + 1 <= fuel)%nat ->
  exists out, SCAN fuel line i line_length n escaped start_pos s 0%nat = Ok out /\ ScanPost line l s out.
Proof.
  induction fuel as [|f IH]; intros line i line_length n escaped start_pos s l dl ll Iv Hinv Hf; [lia|].
  cbn [scan_line].
  assert (Hstop : exists out, Ok (inr (s, n, start_pos)) = Ok out /\ ScanPost line l s out).
  { eexists. split; [reflexivity|]. exists dl, ll, i. split; [exact Iv|]. split; [exact Hinv|lia]. }
  destruct (line_length <=? i); [exact Hstop|].
  destruct (zskip i line) as [|c tl] eqn:Ez; [exact Hstop|].
  destruct (N.eqb c 10); [exact Hstop|].
  assert (Hi : i < zlen line) by (eapply drv_zskip_cons_lt; [destruct Hinv; lia|exact Ez]).
  match goal with |- context [match ?IPS with [] => _ | _ :: _ => _ end] => set (ips := IPS) end.
  assert (Hips : In IPCodeSpan ips -> c = 96%N).
  { unfold ips. match goal with |- In _ (if ?b then _ else _) -> _ => destruct b end; [|intros []].
    intros X. apply inline_parsers_codespan in X.
    match type of X with (if ?b then _ else _) = _ => destruct b end; [discriminate|exact X]. }
  clearbody ips.
  (* the consultation of the inline parsers *)
  match goal with |- exists out, (r <- ?X ;; _) = Ok out /\ _ =>
    assert (Hr : exists r, X = Ok r /\
              match r with
              | inl s' => exists dl' ll', SInv s' dl' ll' /\ zlen (b_rest (t_r s')) < zlen (b_rest (t_r s))
              | inr (s', n', sp') => exists dl' ll', SInv s' dl' ll' /\ ScanI line l i n' sp' s' /\
                  zlen (b_rest (t_r s')) <= zlen (b_rest (t_r s))
              end) end.
  { destruct ips as [|ip0 ips0].
    { eexists. split; [reflexivity|]. exists dl, ll. split; [exact Iv|]. split; [exact Hinv|lia]. }
    destruct (scan_advance line l i n start_pos s dl ll c tl Iv Hinv Ez) as (rd & Ea & Iv1 & Hin1 & Hl1 & Hs1 & He1 & Hv1 & Hrest1).
    rewrite Ea. cbn [bind]. cbn [ist_r t_c t_r].
    pose proof Hinv as [I1 I2 I3 I4 I5 I6 I7 I8].
    pose proof Iv1 as [_ HRd _]. cbn [ist_r t_r] in HRd.
    destruct (ri_view src segs rd HRd Hin1) as (_ & _ & Hrange1 & Hstop1 & _).
    (* the pending text *)
    match goal with |- exists r, (t <- ?X ;; _) = Ok r /\ _ =>
      assert (Ht : exists s1 sp1, X = Ok (s1, sp1) /\ SInv s1 dl ll /\ t_r s1 = rd /\
                s_start sp1 = s_start (b_pos rd) /\ s_stop sp1 = s_stop (b_pos rd) /\ s_pad sp1 = 0) end.
    { destruct (Z.eqb_spec i 0) as [Ei|Ei]; cbn [negb].
      - eexists _, _. split; [reflexivity|]. split; [exact Iv1|]. split; [reflexivity|]. split; [lia|]. split; [lia|exact I8].
      - unfold seg_between. replace (s_stop start_pos =? s_stop (b_pos rd)) with true by lia. cbn [bind].
        destruct (scan_flush (ist_r s rd) dl ll (mksegp (s_start start_pos) (s_start (b_pos rd)) (s_pad start_pos - s_pad (b_pos rd))) Iv1)
          as (c' & Em & Iv2).
        { unfold seg_in. cbn [mksegp s_start s_stop]. destruct (ri_view src segs _ (si_r _ _ _ _ _ _ Iv) I3) as (_ & _ & Hr0 & _). lia. }
        cbn [ist_r t_c] in Em. rewrite Em. cbn [bind]. eexists _, _. split; [reflexivity|]. split; [exact Iv2|].
        split; [reflexivity|]. split; [reflexivity|]. split; [reflexivity|]. destruct HRd as (_ & _ & _ & Hp & _). exact Hp. }
    destruct Ht as (s1 & sp1 & Et & Iv2 & Er1 & Hsp1 & Hsp2 & Hsp3). rewrite Et. cbn [bind].
    destruct (try_inline_spec rd HRd (ip0 :: ips0) s1 dl ll Iv2) as (s2 & node & Etry & Ptry).
    { rewrite Er1. exact Hin1. }
    { rewrite Er1. reflexivity. }
    { rewrite Er1. reflexivity. }
    { intros X. rewrite Er1, Hv1. cbn [hd]. apply Hips. exact X. }
    rewrite Etry. cbn [bind]. destruct node as [nd|]; cbn [TryPost] in Ptry.
    - destruct Ptry as (dl' & ll' & h'' & Eap & Iv3 & Hlt). rewrite Eap. cbn [bind].
      eexists. split; [reflexivity|]. exists dl', ll'. split; [exact Iv3|]. cbn [ist_c t_r]. rewrite Er1 in Hlt. lia.
    - destruct Ptry as (dl' & ll' & Iv3 & Pl & Pp). eexists. split; [reflexivity|]. exists dl', ll'. split; [exact Iv3|].
      destruct (ri_same_pos src segs (t_r s2) rd (si_r _ _ _ _ _ _ Iv3) HRd Pl Pp) as (In3 & V3 & Rest3).
      split; [|rewrite Rest3; exact Hrest1].
      constructor; rewrite ?Pl, ?Pp, ?In3, ?V3; try lia; try assumption.
      replace (i - 0) with i by lia. rewrite Hv1. symmetry. exact Ez. }
  destruct Hr as (r & Er & Pr). rewrite Er. cbn [bind].
  destruct r as [s1|[[s1 n1] sp1]].
  - eexists. split; [reflexivity|]. exact Pr.
  - destruct Pr as (dl1 & ll1 & Iv1 & Hinv1 & Hrest1).
    assert (Hnext : forall esc, exists out, SCAN f line (i + 1) line_length (n1 + 1) esc sp1 s1 0%nat = Ok out /\ ScanPost line l s out).
    { intros esc.
      assert (Hi1 : ScanI line l (i + 1) (n1 + 1) sp1 s1).
      { destruct Hinv1 as [I1 I2 I3 I4 I5 I6 I7 I8]. constructor; try lia; try assumption.
        replace (i + 1 - (n1 + 1)) with (i - n1) by lia. exact I5. }
      destruct (IH line (i + 1) line_length (n1 + 1) esc sp1 s1 l dl1 ll1 Iv1 Hi1) as (out & Eo & Po); [lia|].
      exists out. split; [exact Eo|]. destruct out as [[s' e']|[[s' n'] sp']]; cbn [ScanPost] in Po |- *.
      - destruct Po as (dl' & ll' & Iv' & Hlt). exists dl', ll'. split; [exact Iv'|lia].
      - destruct Po as (dl' & ll' & i' & Iv' & Hinv' & Hle). exists dl', ll', i'. split; [exact Iv'|]. split; [exact Hinv'|lia]. }
    destruct escaped; [apply Hnext|]. destruct (N.eqb c 92); apply Hnext.
Qed.

(* ---------- parseBlock: the loop over the lines ---------- *)
Lemma trim_right_ok t : seg_in src t ->
  exists t', seg_trim_right_space space_table src t = Ok t' /\ seg_in src t'.
Proof.
  intros [H1 H2]. unfold seg_trim_right_space. rewrite BReaderProofs.slice_ok by lia. cbn [bind].
  pose proof (br_trs_range space_table (sub src (s_start t) (s_stop t))) as Hb. rewrite sub_length in Hb by lia.
  destruct (_ =? _); eexists; (split; [reflexivity|]); unfold seg_in; cbn [mkseg mksegp s_start s_stop]; lia.
Qed.

(* two readers on the same line of the block share the end of their positions *)
Lemma same_line_stop r r' : RI r -> RI r' -> b_in_range r = true -> b_line r' = b_line r ->
  s_stop (b_pos r') = s_stop (b_pos r) /\ s_start (b_pos r') <= s_stop (b_pos r).
Proof.
  intros (H & Es & Eg & _) (H' & Es' & Eg' & _) Hin El.
  destruct (binv_in r H Hin) as (sg & pre & post & Hn & _ & _ & _ & _ & _ & Hstop & _).
  destruct (bi_pos r' H' sg) as (Ha & Hb & _); [rewrite Eg', <- Eg, El; exact Hn|]. lia.
Qed.

(* the text of the rest of the line: trimmed, the preceding text node trimmed as well when
   nothing remains *)
Lemma loop_tail_text s dl ll diff (hard visible : bool) : SInv s dl ll -> seg_in src diff ->
  exists c tseg,
    (if hard && visible then Ok (t_c s, diff)
     else
       trimmed <- seg_trim_right_space space_table (b_src (t_r s)) diff ;;
       if seg_is_empty trimmed then
         pn <- iget (i_h (t_c s)) 0%nat ;;
         match last_id (ich pn) with
         | Some lst =>
           ln <- iget (i_h (t_c s)) lst ;;
           match ik ln with
           | IText ts sf hd raw =>
             if (s_stop ts =? s_start diff) && negb raw && negb sf && negb hd then
               ts' <- seg_trim_right_space space_table (b_src (t_r s)) ts ;;
               h <- iupd (i_h (t_c s)) lst (fun m => iset_kind m (IText ts' sf hd raw)) ;;
               Ok (cx_h (t_c s) h, trimmed)
             else Ok (t_c s, trimmed)
           | _ => Ok (t_c s, trimmed)
           end
         | None => Ok (t_c s, trimmed)
         end
       else Ok (t_c s, trimmed)) = Ok (c, tseg) /\
    SInv (ist_c s c) dl ll /\ seg_in src tseg.
Proof.
  intros Iv Hdiff. pose proof Iv as [C R B].
  assert (Hsame : forall tg, seg_in src tg -> exists c tseg, Ok (t_c s, tg) = Ok (c, tseg) /\ SInv (ist_c s c) dl ll /\ seg_in src tseg).
  { intros tg Htg. exists (t_c s), tg. split; [reflexivity|]. split; [|exact Htg]. constructor; assumption. }
  destruct (hard && visible)%bool; [apply Hsame; exact Hdiff|].
  assert (Esrc : b_src (t_r s) = src) by (destruct R as (_ & Es & _); exact Es). rewrite Esrc.
  destruct (trim_right_ok diff Hdiff) as (trimmed & Etr & Htrim). rewrite Etr. cbn [bind].
  destruct (seg_is_empty trimmed); [|apply Hsame; exact Htrim].
  pose proof (ci_d _ _ _ _ _ C) as [W K A D].
  destruct (nth_error_ex_lt _ _ (w_len _ W)) as [pn Hpn]. rewrite (iget_ok _ _ _ Hpn). cbn [bind].
  destruct (last_id (ich pn)) as [lst|] eqn:El; [|apply Hsame; exact Htrim].
  assert (Hl : (lst < length (i_h (t_c s)))%nat).
  { apply last_id_in in El. apply (hwf_child_lt (i_h (t_c s)) 0%nat lst W). unfold chl. rewrite Hpn. exact El. }
  destruct (nth_error_ex_lt _ _ Hl) as [ln Hln]. rewrite (iget_ok _ _ _ Hln). cbn [bind].
  destruct (ik ln) as [|ts sf hd raw| | | | | | | |] eqn:Ek; try (apply Hsame; exact Htrim).
  destruct ((s_stop ts =? s_start diff) && negb raw && negb sf && negb hd)%bool eqn:Ec; [|apply Hsame; exact Htrim].
  assert (Hraw : raw = false).
  { apply andb_prop in Ec. destruct Ec as [Ec _]. apply andb_prop in Ec. destruct Ec as [Ec _]. apply andb_prop in Ec.
    destruct Ec as [_ Ec]. destruct raw; [discriminate|reflexivity]. }
  assert (Hkl : kd (i_h (t_c s)) lst = Some (IText ts sf hd raw)) by (unfold kd; rewrite Hln, Ek; reflexivity).
  pose proof (K lst _ Hkl) as Kt. cbn in Kt. specialize (Kt Hraw).
  destruct (trim_right_ok ts Kt) as (ts' & Ets & Hts'). rewrite Ets. cbn [bind].
  destruct (iupd_kind_spec (i_h (t_c s)) lst (IText ts' sf hd raw) Hl) as (h' & E & T & Kl & Kn).
  rewrite E. cbn [bind]. exists (cx_h (t_c s) h'), trimmed. split; [reflexivity|]. split; [|exact Htrim].
  assert (DS : dl_same (i_h (t_c s)) h').
  { eapply dl_same_upd; [exact Hkl | | | | | exact Kl | exact Kn]; reflexivity. }
  constructor; cbn [ist_c t_c t_r].
  - eapply CInv_tree; [exact C| | | | | |]; cbn [i_h cx_h].
    + eapply hwf_same_tree; eassumption.
    + eapply kokh_upd; [exact K| |exact Kl|exact Kn]. cbn. intros _. exact Hts'.
    + destruct A as [rk Rk]. exists rk. eapply ranked_same_tree; eassumption.
    + apply ctx_same_cx_h.
    + exact DS.
    + intros y _. destruct T as (_ & P & _). rewrite P. tauto.
  - exact R.
  - eapply Bnd_dl_same; [|exact B]. exact DS.
Qed.

Lemma parse_block_loop_spec : forall fuel s escaped dl ll, SInv s dl ll ->
  (Z.to_nat (zlen (b_rest (t_r s))) + 1 <= fuel)%nat ->
  exists s' dl' ll', LOOP fuel s 0%nat escaped = Ok s' /\ SInv s' dl' ll'.
Proof.
  induction fuel as [|f IH]; intros s escaped dl ll Iv Hf; [lia|].
  cbn [parse_block_loop]. pose proof Iv as [C R B].
  rewrite (ri_peek_line src segs _ R). cbn [bind].
  destruct (b_in_range (t_r s)) eqn:Hin.
  2:{ exists (ist_r s (t_r s)), dl, ll. split; [reflexivity|]. apply SInv_ist_r_same. exact Iv. }
  set (line := b_view (t_r s)).
  match goal with |- context [match ?X with pair _ _ => _ end] =>
    match type of X with (Z * bool * bool * bool)%type => destruct X as [[[line_length hard] visible] soft] end end.
  cbn [ist_r t_c t_r].
  destruct (ri_view src segs _ R Hin) as (_ & Elen & Hrange & Hstop & tl0 & Erest).
  assert (Hinv0 : ScanI line (b_line (t_r s)) 0 0 (b_pos (t_r s)) (ist_r s (t_r s))).
  { pose proof (zlen_nonneg line). constructor; cbn [ist_r t_r]; try lia; try reflexivity; try assumption.
    destruct R as (_ & _ & _ & Hp & _). exact Hp. }
  destruct (scan_line_spec (S (length line)) line 0 line_length 0 escaped (b_pos (t_r s)) (ist_r s (t_r s)) (b_line (t_r s)) dl ll)
    as (out & Esc & Pout); [apply SInv_ist_r_same; exact Iv|exact Hinv0|unfold zlen; lia|].
  rewrite Esc. cbn [bind].
  pose proof (zlen_nonneg (b_rest (t_r s))) as Hnn.
  destruct out as [[s1 esc]|[[s1 n] sp]]; cbn [ScanPost ist_r t_r] in Pout.
  - destruct Pout as (dl1 & ll1 & Iv1 & Hlt). pose proof (zlen_nonneg (b_rest (t_r s1))).
    apply (IH s1 esc dl1 ll1 Iv1). lia.
  - destruct Pout as (dl1 & ll1 & i' & Iv1 & [I1 I2 I3 I4 I5 I6 I7 I8] & Hle). pose proof Iv1 as [C1 R1 B1].
    destruct (ri_view src segs _ R1 I3) as (_ & Elen1 & Hrange1 & Hstop1 & tl1 & Erest1).
    assert (Hv1 : zlen (b_view (t_r s1)) = zlen line - (i' - n)) by (rewrite I5, br_zlen_zskip; lia).
    match goal with |- exists s' dl' ll', (r <- ?X ;; _) = Ok s' /\ _ =>
      assert (Hr2 : exists r2, X = Ok r2 /\ RI r2 /\ rle (t_r s1) r2 /\
                (n <> 0 -> zlen (b_rest r2) < zlen (b_rest (t_r s1))) /\ (n = 0 -> r2 = t_r s1)) end.
    { destruct (Z.eqb_spec n 0) as [En|En]; cbn [negb].
      - exists (t_r s1). split; [reflexivity|]. split; [exact R1|]. split; [apply rle_refl|]. split; [lia|reflexivity].
      - destruct (ri_advance_rle src segs (t_r s1) n R1) as (r2 & E2 & HR2 & Hle2 & Hrest2 & _).
        { rewrite Erest1, zlen_app. pose proof (zlen_nonneg tl1). lia. }
        exists r2. split; [exact E2|]. split; [exact HR2|]. split; [exact Hle2|]. split; [lia|lia]. }
    destruct Hr2 as (r2 & E2 & HR2 & Hle2 & Hlt2 & Heq2). rewrite E2. cbn [bind]. cbn [ist_r t_c t_r].
    pose proof (zlen_nonneg (b_rest r2)) as Hnn2.
    assert (Iv2 : SInv (ist_r s1 r2) dl1 ll1).
    { constructor; cbn [ist_r t_c t_r]; [exact C1|exact HR2|eapply Bnd_rle; eassumption]. }
    destruct (Z.eqb_spec (b_line (t_r s)) (b_line r2)) as [Eline|Eline]; cbn [negb].
    2:{ apply (IH (ist_r s1 r2) false dl1 ll1 Iv2). cbn [ist_r t_r].
        assert (n <> 0) by (intros X; apply Eline; rewrite (Heq2 X); symmetry; exact I4).
        specialize (Hlt2 H). lia. }
    (* same line: the rest of the line becomes a text node *)
    destruct (same_line_stop (t_r s1) r2 R1 HR2 I3) as [Hst2 Hsa2]; [congruence|].
    unfold seg_between. replace (s_stop sp =? s_stop (b_pos r2)) with true by lia. cbn [bind].
    set (diff := mksegp (s_start sp) (s_start (b_pos r2)) (s_pad sp - s_pad (b_pos r2))).
    assert (Hdiff : seg_in src diff).
    { unfold seg_in, diff. cbn [mksegp s_start s_stop]. destruct Hle2 as [_ Hle2]. lia. }
    destruct (loop_tail_text (ist_r s1 r2) dl1 ll1 diff hard visible Iv2 Hdiff) as (c3 & tseg & Et & Iv3 & Htseg).
    cbn [ist_r t_c t_r] in Et. rewrite Et. cbn [bind]. rewrite new_inode_eq. cbn [i_h cx_h].
    pose proof Iv3 as [C3 _ B3]. cbn [ist_c ist_r t_c t_r] in C3, B3.
    destruct (CInv_fresh_root src first c3 dl1 ll1 (IText tseg soft hard false) C3) as (h4 & E4 & C4 & DS4);
      [cbn; intros _; exact Htseg|reflexivity|reflexivity|].
    rewrite E4. cbn [bind].
    destruct (ri_advance_line_rle src segs r2 HR2) as (r3 & E3 & HR3 & Hle3 & _ & Hrest3).
    rewrite E3. cbn [bind].
    apply (IH _ false dl1 ll1).
    + constructor; cbn [t_c t_r].
      * exact C4.
      * exact HR3.
      * eapply Bnd_rle; [|exact Hle3]. eapply Bnd_dl_same; [|exact B3]. cbn [i_h cx_h]. exact DS4.
    + cbn [t_r]. pose proof (zlen_nonneg (b_rest r3)). destruct Hle3 as [Hle3 _].
      destruct (Z.eq_dec n 0) as [En|En].
      * rewrite (Heq2 En) in *. rewrite (Hrest3 I3) in *. lia.
      * specialize (Hlt2 En). lia.
Qed.

(* ---------- parseBlock and the inline children of a block with at least one line ---------- *)
Notation PB := (parse_block space_table punct_table norm url_table email_table re_email_domain re_open_tag re_close_tag
                  punct_rune space_rune refs).
Notation IC := (inline_children space_table punct_table norm url_table email_table re_email_domain re_open_tag re_close_tag
                  punct_rune space_rune refs).

Lemma parse_block_spec : segs_ok src segs -> Forall (fun s => s_pad s = 0) segs ->
  exists c, PB src segs = Ok c /\ HWF (i_h c) /\ KOKh (i_h c) /\ Acyc (i_h c).
Proof.
  intros Hok Hpad. unfold parse_block.
  destruct (new_block_reader_spec src segs Hok) as (r & E & HB & Es & Eg). rewrite E. cbn [bind].
  assert (HR : RI r).
  { split; [exact HB|]. split; [exact Es|]. split; [exact Eg|]. split; [|exact Hpad].
    destruct segs as [|a l]; [discriminate Hfirst|]. rewrite (new_block_reader_pos src a l r E).
    inversion Hpad; assumption. }
  assert (Iv0 : SInv {| t_c := init_ictx; t_r := r |} [] []).
  { constructor; cbn [t_c t_r]; [apply cinv_init|exact HR|]. split.
    - change (sumlen (i_h init_ictx) []) with 0%nat. pose proof (ri_rest_le src segs r HR). lia.
    - intros y sg im p n f l []. }
  destruct (parse_block_loop_spec (2 * length src + 2 * length segs + 8) {| t_c := init_ictx; t_r := r |} false [] [] Iv0)
    as (s1 & dl1 & ll1 & E1 & Iv1).
  { cbn [t_r]. pose proof (ri_rest_le src segs r HR) as Hle. unfold zlen in *. lia. }
  rewrite E1. cbn [bind]. destruct Iv1 as [C1 R1 [B1 _]].
  pose proof (ci_d _ _ _ _ _ C1) as D1.
  destruct (process_delimiters_spec src lo (ifuel s1) (t_c s1) dl1 BNil D1 (ci_ap _ _ _ _ _ C1)) as (c2 & dl2 & E2 & D2 & _ & S2 & _).
  { unfold ifuel. destruct R1 as (_ & Es1 & _). rewrite Es1. pose proof (zlen_nonneg (b_rest (t_r s1))). unfold zlen in *. lia. }
  rewrite E2. cbn [bind].
  pose proof (LL_dstep _ _ _ (ci_ll _ _ _ _ _ C1) S2) as L2. destruct D2 as [W2 K2 A2 _].
  destruct (link_close_block_spec src lo c2 ll1 W2 K2 A2 L2) as (c3 & E3 & W3 & K3 & A3).
  exists c3. auto.
Qed.

Lemma inline_children_sec : segs_ok src segs -> Forall (fun s => s_pad s = 0) segs ->
  exists ts, IC src segs = Ok ts.
Proof.
  intros Hok Hpad. unfold inline_children.
  destruct (parse_block_spec Hok Hpad) as (c & E & W & K & A). rewrite E. cbn [bind].
  destruct (itree_root_total src lo (i_h c) W A K) as [t Et]. rewrite Et. cbn [bind]. eexists. reflexivity.
Qed.

End Drive.

(* ---------- the inline children of any block whose lines are well formed ---------- *)
Lemma inline_children_nil space_table punct_table norm url_table email_table re_email_domain re_open_tag re_close_tag
      punct_rune space_rune refs src :
  exists ts, inline_children space_table punct_table norm url_table email_table re_email_domain re_open_tag re_close_tag
               punct_rune space_rune refs src [] = Ok ts.
Proof.
  unfold inline_children, parse_block.
  replace (2 * length src + 2 * length (@nil seg) + 8)%nat with (S (2 * length src + 7))%nat by (cbn [length]; lia).
  eexists. reflexivity.
Qed.

Lemma inline_children_total_of_link space_table punct_table norm url_table email_table re_email_domain re_open_tag re_close_tag
      punct_rune space_rune :
  re_nonempty re_open_tag = true -> re_nonempty re_close_tag = true ->
  (forall refs src segs first, hd_error segs = Some first -> forall s dl ll, SInv src segs first s dl ll ->
     b_in_range (t_r s) = true ->
     exists s' res, link_parse space_table punct_table norm refs s 0%nat = Ok (s', res) /\ PPost src segs first s s' res) ->
  forall refs src lines, bytes_ok src -> lines_ok src lines ->
    exists ts, inline_children space_table punct_table norm url_table email_table re_email_domain re_open_tag re_close_tag
                 punct_rune space_rune refs src lines = Ok ts.
Proof.
  intros Hopen Hclose Hlink refs src lines _ Hlines.
  destruct lines as [|first l]; [apply inline_children_nil|].
  destruct (lines_ok_segs src (first :: l) Hlines) as [Hok Hpad].
  apply (inline_children_sec space_table punct_table norm url_table email_table re_email_domain re_open_tag re_close_tag
           punct_rune space_rune refs src (first :: l) first eq_refl Hopen Hclose (Hlink refs src (first :: l) first eq_refl) Hok Hpad).
Qed.
