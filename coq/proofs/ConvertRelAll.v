(* C10 for every parser model: the three option relations of the renderer model hold for all
   trees, so they hold for any composition "parse, then RenderHTML" - the parser does not see the
   renderer options, both sides render the same tree.  Instantiated for the GFM model (all sixteen
   subsets), the Footnote model, the Typographer / DefinitionList model and the heading-option
   model. *)
Require Import GM.model.Base GM.model.Util GM.model.Reader GM.model.HtmlWriter GM.model.Html GM.model.HtmlI GM.model.HtmlSpec.
Require Import GM.gen.Tables GM.gen.Entities GM.gen.Filters GM.proofs.HtmlRelProofs.
Require Import GM.model.InlineParseX GM.model.GfmI GM.model.FootnoteI GM.model.TypoDefParse GM.model.TypoDefI GM.model.HeadingOpts GM.model.HeadingOptsI.
From Coq Require Import ZArith.
Open Scope N_scope.

Definition conv (parse : bytes -> result tree) (cfg : rcfg) (src : bytes) : result bytes :=
  t <- parse src ;; RenderHTML cfg src t.

Lemma conv_ok parse cfg src o : conv parse cfg src = Ok o -> exists t, parse src = Ok t /\ RenderHTML cfg src t = Ok o.
Proof. unfold conv. destruct (parse src) as [t| |]; cbn [bind]; intros H; try discriminate H. exists t. split; [reflexivity|exact H]. Qed.
Lemma conv_of_tree parse cfg src t : parse src = Ok t -> conv parse cfg src = RenderHTML cfg src t.
Proof. unfold conv. intros ->. reflexivity. Qed.

Theorem conv_xhtml_rel : forall parse c src o, pinned c -> conv parse (with_xhtml c false) src = Ok o ->
  exists o', conv parse (with_xhtml c true) src = Ok o' /\ XhtmlRel o o'.
Proof.
  intros parse c src o Hp H. apply conv_ok in H as (t & Ht & Hr). rewrite (conv_of_tree parse _ src t Ht).
  exact (xhtml_rel html_escape_table punct_table entities url_escape_table utf8len_table
    f_global f_blockquote f_list f_listitem f_thematic f_link f_image f_table f_thead f_tr f_th f_td c src t o Hp Hr).
Qed.
Theorem conv_hardwraps_rel : forall parse c src o, conv parse (with_hardwraps c false) src = Ok o ->
  exists o', conv parse (with_hardwraps c true) src = Ok o' /\ HardWrapRel (xhtml c) o o'.
Proof.
  intros parse c src o H. apply conv_ok in H as (t & Ht & Hr). rewrite (conv_of_tree parse _ src t Ht).
  exact (hardwraps_rel html_escape_table punct_table entities url_escape_table utf8len_table
    f_global f_blockquote f_list f_listitem f_thematic f_link f_image f_table f_thead f_tr f_th f_td c src t o Hr).
Qed.
Theorem conv_unsafe_rel : forall parse c src o', conv parse (with_unsafe c true) src = Ok o' ->
  exists o, conv parse (with_unsafe c false) src = Ok o /\ UnsafeRel o o'.
Proof.
  intros parse c src o' H. apply conv_ok in H as (t & Ht & Hr). rewrite (conv_of_tree parse _ src t Ht).
  exact (unsafe_rel html_escape_table punct_table entities url_escape_table utf8len_table
    f_global f_blockquote f_list f_listitem f_thematic f_link f_image f_table f_thead f_tr f_th f_td c src t o' Hr).
Qed.

(* the Convert models are such compositions, by definition *)
Lemma ConvertModelX_conv xc : ConvertModelX xc = conv (ParseTreeX xc).  Proof. reflexivity. Qed.
Lemma ConvertModelFn_conv : ConvertModelFn = conv ParseTreeFn.          Proof. reflexivity. Qed.
Lemma ConvertModelTD_conv tc : ConvertModelTD tc = conv (ParseTreeTD tc). Proof. reflexivity. Qed.
Lemma ConvertModelH_conv hc : ConvertModelH hc = conv (ParseTreeH hc).  Proof. reflexivity. Qed.

(* ---------- the composition principle behind C03 / C04 ----------
   the safe-mode theorems of the renderer model hold for all well-formed trees; any parser whose
   trees are well formed - the property C05 - inherits them *)
Require Import GM.proofs.HtmlConcrete.
Theorem conv_safe_inert : forall parse, (forall src t, parse src = Ok t -> wf_tree src t = true) ->
  forall c src o, unsafe c = false -> conv parse c src = Ok o -> Inert o.
Proof.
  intros parse Hwf c src o Hu H. apply conv_ok in H as (t & Ht & Hr).
  exact (RenderHTML_safe_inert c src t o Hu (Hwf src t Ht) Hr).
Qed.
Theorem conv_safe_inert_xhtml : forall parse, (forall src t, parse src = Ok t -> wf_tree src t = true) ->
  forall c src o, unsafe c = false -> xhtml c = true -> conv parse c src = Ok o -> InertX o.
Proof.
  intros parse Hwf c src o Hu Hx H. apply conv_ok in H as (t & Ht & Hr).
  exact (RenderHTML_safe_inert_xhtml c src t o Hu Hx (Hwf src t Ht) Hr).
Qed.
