(* C11 for the GFM parser model, the source of the block reader: no function of the inline phase
   changes the b_src field of the block reader, the lines the inline phase scans consist of bytes
   of that source, blanks and newlines, and therefore the inline phase of two configurations
   that give the same parser lists on those bytes is the same function. *)
Require Import GM.model.Base GM.model.Util GM.model.Reader GM.model.Blocks GM.model.ListItem
               GM.model.LeafBlocks GM.model.CodeSpan GM.model.LinkDest GM.model.Regex GM.model.Delim
               GM.model.HtmlWriter GM.model.Html GM.model.BlockParse GM.model.InlineParse GM.model.InlineParseX.
Require Import GM.proofs.GfmConservativeDefs.
From Coq Require Import List ZArith NArith Bool Lia.
Import ListNotations.
Open Scope Z_scope.

(* H : (if b then _ else _) = _ : case analysis on b *)
Local Ltac dif H := match type of H with (if ?b then _ else _) = _ => destruct b end.
Local Ltac difn H E := match type of H with (if ?b then _ else _) = _ => destruct b eqn:E end.

(* ================= 1. the block reader keeps its source ================= *)
Lemma b_set_position_src r line pos r' : b_set_position r line pos = Ok r' -> b_src r' = b_src r.
Proof.
  unfold b_set_position. intros H.
  destruct (s_start pos =? -1); destruct (_ <? _); try (gc_bind H s Es); injection H as <-; reflexivity.
Qed.

Lemma b_advance_line_src r r' : b_advance_line r = Ok r' -> b_src r' = b_src r.
Proof.
  unfold b_advance_line. intros H. gc_bind H r1 E1. injection H as <-. apply b_set_position_src in E1. exact E1.
Qed.

Lemma b_advance_slow_src : forall fuel r n r', b_advance_slow fuel r n = Ok r' -> b_src r' = b_src r.
Proof.
  induction fuel as [|f IH]; intros r n r' H; [discriminate|]. cbn [b_advance_slow] in H.
  destruct (0 <? n); [|injection H as <-; reflexivity].
  destruct (negb (s_pad (b_pos r) =? 0)); [apply IH in H; exact H|].
  destruct (_ && _).
  - gc_bind H r1 E1. apply IH in H. apply b_advance_line_src in E1. congruence.
  - apply IH in H. exact H.
Qed.

Lemma b_advance_src r n r' : b_advance r n = Ok r' -> b_src r' = b_src r.
Proof.
  unfold b_advance. intros H. destruct (_ && _); [injection H as <-; reflexivity|].
  apply b_advance_slow_src in H. exact H.
Qed.

(* PeekLine does not change the reader at all *)
Lemma b_peek_line_same r r' l sg : b_peek_line r = Ok (r', l, sg) -> r' = r.
Proof.
  unfold b_peek_line. intros H. destruct (b_in_range r).
  - gc_bind H v Ev. injection H as <- <- <-. reflexivity.
  - injection H as <- <- <-. reflexivity.
Qed.
Lemma b_peek_line_src r r' l sg : b_peek_line r = Ok (r', l, sg) -> b_src r' = b_src r.
Proof. intros H. apply b_peek_line_same in H. subst r'. reflexivity. Qed.

Lemma skip_spaces_inner_src tbl : forall l i r chars sg r' res,
  skip_spaces_inner tbl breader b_advance l i r chars sg = Ok (r', res) -> b_src r' = b_src r.
Proof.
  induction l as [|c l IH]; intros i r chars sg r' res H; cbn [skip_spaces_inner] in H.
  - injection H as <- <-. reflexivity.
  - destruct (is_space tbl c); [|injection H as <- <-; reflexivity].
    gc_bind H r1 E1. apply IH in H. apply b_advance_src in E1. congruence.
Qed.

Lemma skip_spaces_src tbl : forall fuel r chars r' sg ch ok,
  skip_spaces tbl breader b_peek_line b_advance fuel r chars = Ok (r', sg, ch, ok) -> b_src r' = b_src r.
Proof.
  induction fuel as [|f IH]; intros r chars r' sg ch ok H; [discriminate|]. cbn [skip_spaces] in H.
  gc_bind H x Ex. destruct x as [[r1 l] sg1]. apply b_peek_line_same in Ex. subst r1.
  destruct l as [l|]; [|injection H as <- <- <- <-; reflexivity].
  gc_bind H y Ey. destruct y as [r2 [[sg' ch']|]].
  - injection H as <- <- <- <-. eapply skip_spaces_inner_src. exact Ey.
  - apply skip_spaces_inner_src in Ey. apply IH in H. congruence.
Qed.

Lemma b_skip_spaces_src tbl fuel r r' sg ch ok :
  b_skip_spaces tbl fuel r = Ok (r', sg, ch, ok) -> b_src r' = b_src r.
Proof. unfold b_skip_spaces. apply skip_spaces_src. Qed.

Lemma skip_blank_lines_src tbl : forall fuel r lines r' sg n ok,
  skip_blank_lines tbl breader b_peek_line b_advance_line fuel r lines = Ok (r', sg, n, ok) -> b_src r' = b_src r.
Proof.
  induction fuel as [|f IH]; intros r lines r' sg n ok H; [discriminate|]. cbn [skip_blank_lines] in H.
  gc_bind H x Ex. destruct x as [[r1 l] sg1]. apply b_peek_line_same in Ex. subst r1.
  destruct l as [l|]; [|injection H as <- <- <- <-; reflexivity].
  dif H; [|injection H as <- <- <- <-; reflexivity].
  gc_bind H r2 E2. apply b_advance_line_src in E2. apply IH in H. congruence.
Qed.

Lemma b_skip_blank_lines_src tbl fuel r r' sg n ok :
  b_skip_blank_lines tbl fuel r = Ok (r', sg, n, ok) -> b_src r' = b_src r.
Proof. unfold b_skip_blank_lines. apply skip_blank_lines_src. Qed.

Lemma read_rune_src r r' rn w eof :
  read_rune breader b_peek_line b_advance r = Ok (r', rn, w, eof) -> b_src r' = b_src r.
Proof.
  unfold read_rune. intros H. gc_bind H x Ex. destruct x as [[r1 l] sg1]. apply b_peek_line_same in Ex. subst r1.
  destruct l as [l|]; [|injection H as <- <- <- <-; reflexivity].
  destruct (decode_rune l) as [rn1 w1]. destruct (N.eqb rn1 65533); [injection H as <- <- <- <-; reflexivity|].
  gc_bind H r2 E2. injection H as <- <- <- <-. eapply b_advance_src. exact E2.
Qed.
Lemma b_read_rune_src r r' rn w eof : b_read_rune r = Ok (r', rn, w, eof) -> b_src r' = b_src r.
Proof. unfold b_read_rune. apply read_rune_src. Qed.

Lemma fc_lines_src ptbl opts o c : forall fuel r opened cso ret r' res,
  fc_lines ptbl breader b_peek_line b_advance b_advance_line fuel opts o c r opened cso ret = Ok (r', res) ->
  b_src r' = b_src r.
Proof.
  induction fuel as [|f IH]; intros r opened cso ret r' res H; [discriminate|]. cbn [fc_lines] in H.
  gc_bind H x Ex. destruct x as [[r1 l] sg1]. apply b_peek_line_same in Ex. subst r1.
  destruct l as [bs|]; [|injection H as <- <-; reflexivity].
  gc_bind H s Es. destruct s as [i| |opened' cso'].
  - gc_bind H r2 E2. injection H as <- <-. eapply b_advance_src. exact E2.
  - injection H as <- <-. reflexivity.
  - destruct (negb (o_newline opts)); [injection H as <- <-; reflexivity|].
    gc_bind H r2 E2. apply b_advance_line_src in E2. apply IH in H. congruence.
Qed.

Lemma find_closure_src ptbl fuel r o c opts r' res :
  find_closure ptbl breader b_peek_line b_advance b_advance_line b_position b_set_position fuel r o c opts
    = Ok (r', res) -> b_src r' = b_src r.
Proof.
  unfold find_closure, b_position. intros H. gc_bind H x Ex. destruct x as [r1 res1].
  apply fc_lines_src in Ex. gc_bind H r2 E2. injection H as <- <-.
  destruct (negb (o_advance opts)); [apply b_set_position_src in E2|injection E2 as <-]; congruence.
Qed.
Lemma b_find_closure_src ptbl fuel r o c opts r' res :
  b_find_closure ptbl fuel r o c opts = Ok (r', res) -> b_src r' = b_src r.
Proof. unfold b_find_closure. apply find_closure_src. Qed.

Lemma b_reset_position_src r r' : b_reset_position r = Ok r' -> b_src r' = b_src r.
Proof.
  unfold b_reset_position. intros H. gc_bind H r1 E1. apply b_advance_line_src in H.
  destruct (0 <? _) in E1.
  - gc_bind E1 l El. injection E1 as <-. exact H.
  - injection E1 as <-. exact H.
Qed.
Lemma new_block_reader_src src segs r : new_block_reader src segs = Ok r -> b_src r = src.
Proof. unfold new_block_reader. intros H. apply b_reset_position_src in H. exact H. Qed.

Lemma b_advance_and_set_padding_src r n p r' : b_advance_and_set_padding r n p = Ok r' -> b_src r' = b_src r.
Proof.
  unfold b_advance_and_set_padding. intros H. gc_bind H r1 E1. apply b_advance_src in E1.
  destruct (_ <? _); injection H as <-; exact E1.
Qed.

(* ---- model/BlockParse.v b_parse_link_destination (the reader side of model/LinkDest.v) ---- *)
Lemma b_parse_link_destination_src stbl ptbl r r' dest :
  b_parse_link_destination stbl ptbl r = Ok (r', dest) -> b_src r' = b_src r.
Proof.
  unfold b_parse_link_destination. intros H. gc_bind H x Ex. destruct x as [[[r1 sg] ch] ok].
  apply b_skip_spaces_src in Ex.
  gc_bind H y Ey. destruct y as [[r2 line] sg2]. apply b_peek_line_same in Ey. subst r2.
  destruct (parse_link_destination stbl ptbl (line_of line)) as [[d adv]|].
  - gc_bind H r3 E3. injection H as <- <-. apply b_advance_src in E3. congruence.
  - injection H as <- <-. exact Ex.
Qed.

(* ---- model/CodeSpan.v ---- *)
Lemma code_span_lines_src : forall fuel r opener acc segs r',
  code_span_lines fuel r opener acc = Ok (Some (segs, r')) -> b_src r' = b_src r.
Proof.
  induction fuel as [|f IH]; intros r opener acc segs r' H; [discriminate|]. cbn [code_span_lines] in H.
  gc_bind H x Ex. destruct x as [[r1 l] sg1]. apply b_peek_line_same in Ex. subst r1.
  destruct l as [l|]; [|discriminate].
  destruct (find_closer _ l 0 opener) as [i|].
  - gc_bind H r2 E2. injection H as <- <-. eapply b_advance_src. exact E2.
  - gc_bind H r2 E2. apply b_advance_line_src in E2. apply IH in H. congruence.
Qed.

Lemma code_span_parse_src stbl r res r' : code_span_parse stbl r = Ok (res, r') -> b_src r' = b_src r.
Proof.
  unfold code_span_parse. intros H. gc_bind H x Ex. destruct x as [[r1 l] sg1]. apply b_peek_line_same in Ex. subst r1.
  gc_bind H r2 E2. apply b_advance_src in E2.
  gc_bind H y Ey. destruct y as [[segs r3]|].
  - apply code_span_lines_src in Ey.
    assert (b_src r3 = b_src r) as E3 by congruence.
    gc_bind H blank Eb. destruct blank; [injection H as <- <-; exact E3|].
    destruct segs as [|first segs']; [discriminate|]. destruct (rev (first :: segs')) as [|last rs]; [discriminate|].
    gc_bind H cf Ecf. gc_bind H cl Ecl. destruct (cf && cl)%bool; injection H as <- <-; exact E3.
  - gc_bind H r3 E3. injection H as <- <-. apply b_set_position_src in E3. congruence.
Qed.

(* ================= the inline parsers keep the source of the reader ================= *)
(* src_crunch: invert every hypothesis `e = Ok v` where e is a bind, a match or a value, down to
   the calls of named functions; src_facts: turn the calls into equalities between sources. *)
Ltac src_crunch :=
  repeat match goal with
  | H : _ = Ok _ |- _ => progress cbv beta iota zeta in H
  | H : (_ <- _ ;; _) = Ok _ |- _ => let a := fresh "a" in let E := fresh "E" in gc_bind H a E
  | H : Ok _ = Ok _ |- _ => inversion H; subst; clear H
  | H : Panic = Ok _ |- _ => discriminate H
  | H : OutOfFuel = Ok _ |- _ => discriminate H
  | H : (match ?x with _ => _ end) = Ok _ |- _ => destruct x
  end.

Ltac src_fact0 E :=
  first [ apply b_advance_src in E | apply b_advance_line_src in E | apply b_set_position_src in E
        | apply b_peek_line_src in E | apply b_skip_spaces_src in E | apply b_find_closure_src in E
        | apply b_parse_link_destination_src in E | apply code_span_parse_src in E
        | apply b_read_rune_src in E | apply b_skip_blank_lines_src in E ].
Ltac src_fact E := src_fact0 E.
Ltac src_facts := repeat match goal with E : _ = Ok _ |- _ => src_fact E end.
Ltac src_done := src_facts; cbn [t_r t_c ist_r ist_c] in *; congruence.
Ltac src_auto := src_crunch; src_done.

Lemma label_fail_src s last s' res : label_fail s last = Ok (s', res) -> b_src (t_r s') = b_src (t_r s).
Proof. unfold label_fail. intros H. src_auto. Qed.

Lemma parse_link_title_src stbl ptbl r r' t : parse_link_title stbl ptbl r = Ok (r', t) -> b_src r' = b_src r.
Proof. unfold parse_link_title. intros H. src_auto. Qed.

Lemma skip_spaces_r_src stbl r r' : skip_spaces_r stbl r = Ok r' -> b_src r' = b_src r.
Proof. unfold skip_spaces_r. intros H. src_auto. Qed.

Ltac src_fact1 E := first [ apply label_fail_src in E | apply parse_link_title_src in E | apply skip_spaces_r_src in E | src_fact0 E ].
Ltac src_fact E ::= src_fact1 E.

Lemma parse_link_src stbl ptbl r r' res : parse_link stbl ptbl r = Ok (r', res) -> b_src r' = b_src r.
Proof. unfold parse_link. intros H. src_auto. Qed.

Lemma parse_reference_link_src stbl ptbl norm refs s last r' res hv :
  parse_reference_link stbl ptbl norm refs s last = Ok (r', res, hv) -> b_src r' = b_src (t_r s).
Proof. unfold parse_reference_link. intros H. src_auto. Qed.

Lemma process_link_labelX_r s link last s' : process_link_labelX s link last = Ok s' -> t_r s' = t_r s.
Proof. unfold process_link_labelX. intros H. src_crunch. reflexivity. Qed.
Lemma process_link_labelX_src s link last s' :
  process_link_labelX s link last = Ok s' -> b_src (t_r s') = b_src (t_r s).
Proof. intros H. apply process_link_labelX_r in H. rewrite H. reflexivity. Qed.

Ltac src_fact2 E := first [ apply parse_link_src in E | apply parse_reference_link_src in E
                          | apply process_link_labelX_src in E | src_fact1 E ].
Ltac src_fact E ::= src_fact2 E.

Lemma link_parseX_src stbl ptbl norm refs s parent s' res :
  link_parseX stbl ptbl norm refs s parent = Ok (s', res) -> b_src (t_r s') = b_src (t_r s).
Proof. unfold link_parseX. intros H. src_crunch. all: src_done. Qed.

Lemma code_span_parse_s_src stbl s s' res :
  code_span_parse_s stbl s = Ok (s', res) -> b_src (t_r s') = b_src (t_r s).
Proof. unfold code_span_parse_s. intros H. src_crunch. all: src_done. Qed.

Lemma autolink_parse_src utbl etbl red s s' res :
  autolink_parse utbl etbl red s = Ok (s', res) -> b_src (t_r s') = b_src (t_r s).
Proof. unfold autolink_parse. intros H. src_crunch. all: src_done. Qed.

Lemma raw_until_src : forall fuel r closer offset acc segs r',
  raw_until fuel r closer offset acc = Ok (Some (segs, r')) -> b_src r' = b_src r.
Proof.
  induction fuel as [|f IH]; intros r closer offset acc segs r' H; [discriminate|]. cbn [raw_until] in H.
  src_crunch; try (apply IH in H); src_done.
Qed.

Lemma raw_regexp_lines_src : forall fuel r sline sstart eline estart acc segs r',
  raw_regexp_lines fuel r sline sstart eline estart acc = Ok (segs, r') -> b_src r' = b_src r.
Proof.
  induction fuel as [|f IH]; intros r sline sstart eline estart acc segs r' H; [discriminate|].
  cbn [raw_regexp_lines] in H. src_crunch; try (apply IH in H); src_done.
Qed.

Ltac src_fact3 E := first [ apply raw_until_src in E | apply raw_regexp_lines_src in E | src_fact2 E ].
Ltac src_fact E ::= src_fact3 E.

Lemma raw_regexp_src s rx s' res : raw_regexp s rx = Ok (s', res) -> b_src (t_r s') = b_src (t_r s).
Proof. unfold raw_regexp. intros H. src_crunch. all: src_done. Qed.

Lemma raw_collect_src s closer offset s' res :
  raw_collect s closer offset = Ok (s', res) -> b_src (t_r s') = b_src (t_r s).
Proof. unfold raw_collect. intros H. src_crunch. all: src_done. Qed.

Ltac src_fact4 E := first [ apply raw_regexp_src in E | apply raw_collect_src in E | src_fact3 E ].
Ltac src_fact E ::= src_fact4 E.

Lemma raw_html_parse_src reo rec s s' res :
  raw_html_parse reo rec s = Ok (s', res) -> b_src (t_r s') = b_src (t_r s).
Proof. unfold raw_html_parse. intros H. src_crunch. all: src_done. Qed.

Lemma emphasis_parse_src pr sr s s' res :
  emphasis_parse pr sr s = Ok (s', res) -> b_src (t_r s') = b_src (t_r s).
Proof. unfold emphasis_parse. intros H. src_crunch. all: src_done. Qed.

Lemma strike_parse_src pr sr s s' res :
  strike_parse pr sr s = Ok (s', res) -> b_src (t_r s') = b_src (t_r s).
Proof. unfold strike_parse. intros H. src_crunch. all: src_done. Qed.

Lemma task_parse_src ret in_item s parent s' res :
  task_parse ret in_item s parent = Ok (s', res) -> b_src (t_r s') = b_src (t_r s).
Proof. unfold task_parse. intros H. src_crunch. all: src_done. Qed.

Lemma linkify_parse_src ptbl etbl red reu rew s parent s' res :
  linkify_parse ptbl etbl red reu rew s parent = Ok (s', res) -> b_src (t_r s') = b_src (t_r s).
Proof. unfold linkify_parse. intros H. src_crunch. all: src_done. Qed.

Ltac src_fact5 E :=
  first [ apply link_parseX_src in E | apply code_span_parse_s_src in E | apply autolink_parse_src in E
        | apply raw_html_parse_src in E | apply emphasis_parse_src in E | apply strike_parse_src in E
        | apply task_parse_src in E | apply linkify_parse_src in E | src_fact4 E ].
Ltac src_fact E ::= src_fact5 E.

Section Tables.
Variable space_table punct_table : list N.
Variable norm : bytes -> bytes.
Variable url_table email_table : list N.
Variable re_email_domain re_open_tag re_close_tag : re.
Variable punct_rune space_rune : N -> bool.
Variable re_task re_url re_www : re.
Variable refs : list (bytes * (bytes * option bytes)).

Notation ip_parseT := (ip_parseX space_table punct_table norm url_table email_table re_email_domain re_open_tag
                                 re_close_tag punct_rune space_rune re_task re_url re_www refs).
Notation try_inlineT := (try_inlineX space_table punct_table norm url_table email_table re_email_domain re_open_tag
                                 re_close_tag punct_rune space_rune re_task re_url re_www refs).
Notation scan_lineT xc := (scan_lineX xc space_table punct_table norm url_table email_table re_email_domain re_open_tag
                                 re_close_tag punct_rune space_rune re_task re_url re_www refs).
Notation parse_block_loopT xc := (parse_block_loopX xc space_table punct_table norm url_table email_table re_email_domain
                                 re_open_tag re_close_tag punct_rune space_rune re_task re_url re_www refs).

Lemma ip_parseX_src in_item p s parent s' res :
  ip_parseT in_item p s parent = Ok (s', res) -> b_src (t_r s') = b_src (t_r s).
Proof.
  unfold ip_parseX. intros H. destruct p as [[| | | |]| | |]; cbv beta iota zeta in H;
    try (gc_bind H y Ey; destruct y as [s1 n1]; cbn [fst snd] in H; injection H as <- <-); src_done.
Qed.

Lemma try_inlineX_src in_item : forall ips s parent sl sp s' res,
  try_inlineT in_item ips s parent sl sp = Ok (s', res) -> b_src (t_r s') = b_src (t_r s).
Proof.
  induction ips as [|p ips IH]; intros s parent sl sp s' res H; cbn [try_inlineX] in H.
  - injection H as <- <-. reflexivity.
  - gc_bind H y Ey. destruct y as [s1 n1]. apply ip_parseX_src in Ey. destruct n1 as [n1|].
    + injection H as <- <-. exact Ey.
    + gc_bind H r1 E1. apply b_set_position_src in E1. apply IH in H. cbn [t_r ist_r] in H. congruence.
Qed.

Lemma scan_lineX_src xc in_item : forall fuel line i ll n esc sp x parent out,
  scan_lineT xc in_item fuel line i ll n esc sp x parent = Ok out ->
  match out with
  | inl (x', _) => b_src (t_r (xs_s x')) = b_src (t_r (xs_s x))
  | inr (x', _, _) => b_src (t_r (xs_s x')) = b_src (t_r (xs_s x))
  end.
Proof.
  induction fuel as [|f IH]; intros line i ll n esc sp x parent out H; [discriminate|].
  cbn [scan_lineX] in H.
  destruct (ll <=? i); [injection H as <-; reflexivity|].
  destruct (zskip i line) as [|c tl]; [injection H as <-; reflexivity|].
  destruct (N.eqb c 10); [injection H as <-; reflexivity|].
  gc_bind H r Er.
  assert (match r with
          | inl x' => b_src (t_r (xs_s x')) = b_src (t_r (xs_s x))
          | inr (x', _, _) => b_src (t_r (xs_s x')) = b_src (t_r (xs_s x))
          end) as Hr.
  { clear H IH.
    match type of Er with (match ?l0 with [] => _ | _ => _ end) = _ => destruct l0 as [|p0 ps] end.
    - injection Er as <-. reflexivity.
    - gc_bind Er rd Erd. apply b_advance_src in Erd. gc_bind Er t Et. destruct t as [s1 sp1].
      assert (b_src (t_r s1) = b_src (t_r (xs_s x))) as Hs1.
      { dif Et.
        - gc_bind Et bt Ebt. gc_bind Et c' Ec'. injection Et as <- <-. cbn [t_r ist_c ist_r]. exact Erd.
        - injection Et as <- <-. cbn [t_r ist_r]. exact Erd. }
      gc_bind Er y Ey. destruct y as [s2 node]. apply try_inlineX_src in Ey.
      destruct node as [[nd http]|].
      + gc_bind Er h Eh. injection Er as <-. destruct http; cbn [xs_s xst_s xst_http t_r ist_c]; congruence.
      + gc_bind Er pn Epn. injection Er as <-.
        match goal with |- context [if ?b then _ else _] => destruct b end;
          cbn [xs_s xst_s xst_flushed t_r ist_c]; congruence. }
  destruct r as [x1|[[x1 n1] sp1]].
  - injection H as <-. exact Hr.
  - assert (forall e, scan_lineT xc in_item f line (i + 1) ll (n1 + 1) e sp1 x1 parent = Ok out ->
                      match out with
                      | inl (x', _) => b_src (t_r (xs_s x')) = b_src (t_r (xs_s x))
                      | inr (x', _, _) => b_src (t_r (xs_s x')) = b_src (t_r (xs_s x))
                      end) as Hrec.
    { intros e He. apply IH in He. rewrite Hr in He. exact He. }
    destruct esc; [exact (Hrec _ H)|]. destruct (N.eqb c 92); exact (Hrec _ H).
Qed.

(* ================= 2. the peeked line comes from the source ================= *)
Lemma gcs_in_firstn {A} n (l : list A) x : In x (firstn n l) -> In x l.
Proof. revert l. induction n as [|n IH]; intros [|a l]; cbn [firstn In]; try tauto. intros [H|H]; auto. Qed.
Lemma gcs_in_skipn {A} n (l : list A) x : In x (skipn n l) -> In x l.
Proof. revert l. induction n as [|n IH]; intros [|a l]; cbn [skipn In]; try tauto. intros H; auto. Qed.

Lemma slice_from src a b v : slice src a b = Ok v -> forall x, In x v -> In x src.
Proof.
  unfold slice. destruct (_ && _ && _)%bool; [|discriminate]. intros H. injection H as <-.
  intros x Hx. apply gcs_in_firstn in Hx. apply gcs_in_skipn in Hx. exact Hx.
Qed.

Lemma seg_value_from src sg v : seg_value src sg = Ok v -> from_src src v.
Proof.
  unfold seg_value, from_src. intros H. gc_bind H w Ew. pose proof (slice_from _ _ _ _ Ew) as Hw.
  set (r := if s_pad sg =? 0 then w else if s_pad sg <? 0 then w else spaces_n (s_pad sg) ++ w) in *.
  assert (forall b, In b r -> In b src \/ b = 32%N \/ b = 10%N) as Hr.
  { subst r. intros b Hb. destruct (s_pad sg =? 0); [left; apply Hw; exact Hb|].
    destruct (s_pad sg <? 0); [left; apply Hw; exact Hb|].
    apply in_app_or in Hb. destruct Hb as [Hb|Hb]; [|left; apply Hw; exact Hb].
    unfold spaces_n in Hb. apply repeat_spec in Hb. right. left. exact Hb. }
  destruct (s_pad sg <? 0); [discriminate|]. destruct (s_fnl sg).
  - destruct (rev r) as [|c rr]; [injection H as <-; exact Hr|].
    destruct (N.eqb c 10); injection H as <-; [exact Hr|].
    intros b Hb. apply in_app_or in Hb. destruct Hb as [Hb|[Hb|[]]]; [apply Hr; exact Hb|].
    right. right. symmetry. exact Hb.
  - injection H as <-. exact Hr.
Qed.

Lemma b_peek_line_from r r' line sg : b_peek_line r = Ok (r', Some line, sg) -> from_src (b_src r) line.
Proof.
  unfold b_peek_line. intros H. destruct (b_in_range r); [|discriminate].
  gc_bind H v Ev. injection H as <- <- <-. eapply seg_value_from. exact Ev.
Qed.

(* ================= 3. one line: the configurations agree on the bytes of the line ================= *)
Lemma scan_lineX_agree xc1 xc2 in_item : forall fuel line i ll n esc sp x parent,
  (forall c, In c line -> inline_parsersX xc1 c = inline_parsersX xc2 c) ->
  inline_parsersX xc1 32 = inline_parsersX xc2 32 ->
  scan_lineT xc1 in_item fuel line i ll n esc sp x parent = scan_lineT xc2 in_item fuel line i ll n esc sp x parent.
Proof.
  induction fuel as [|f IH]; intros line i ll n esc sp x parent Hl H32; [reflexivity|].
  cbn [scan_lineX].
  destruct (ll <=? i); [reflexivity|].
  destruct (zskip i line) as [|c tl] eqn:Ez; [reflexivity|].
  assert (In c line) as Hc.
  { apply (gcs_in_skipn (Z.to_nat i)). unfold zskip in Ez. rewrite Ez. left. reflexivity. }
  destruct (N.eqb c 10); [reflexivity|].
  match goal with |- context [inline_parsersX xc1 ?p] =>
    assert (inline_parsersX xc1 p = inline_parsersX xc2 p) as Hp
      by (match goal with |- context [if ?b then 32%N else c] => destruct b end; [exact H32|exact (Hl c Hc)]);
    rewrite Hp; clear Hp
  end.
  apply gc_bind_ext. intros r _. destruct r as [x1|[[x1 n1] sp1]]; [reflexivity|].
  destruct esc; [apply IH; assumption|]. destruct (N.eqb c 92); apply IH; assumption.
Qed.

(* ================= 4. the loop over the lines of a block ================= *)
Lemma parse_block_loopX_agree xc1 xc2 in_item src :
  (forall c, (In c src \/ c = 32%N \/ c = 10%N) -> inline_parsersX xc1 c = inline_parsersX xc2 c) ->
  forall fuel x parent esc, b_src (t_r (xs_s x)) = src ->
  parse_block_loopT xc1 in_item fuel x parent esc = parse_block_loopT xc2 in_item fuel x parent esc.
Proof.
  intros Hall. induction fuel as [|f IH]; intros x parent esc Hx; [reflexivity|].
  cbn [parse_block_loopX].
  apply gc_bind_ext. intros y Ey. destruct y as [[r line] sg].
  destruct line as [line|]; [|reflexivity].
  pose proof (b_peek_line_from _ _ _ _ Ey) as Hfrom. rewrite Hx in Hfrom.
  apply b_peek_line_same in Ey. subst r.
  match goal with |- match ?e with _ => _ end = _ => destruct e as [[[ll hard] visible] soft] end.
  rewrite (scan_lineX_agree xc1 xc2);
    [|intros c Hc; apply Hall; apply Hfrom; exact Hc|apply Hall; right; left; reflexivity].
  apply gc_bind_ext. intros z Ez. apply scan_lineX_src in Ez.
  cbn [xs_s xst_s t_r ist_r] in Ez. rewrite Hx in Ez.
  destruct z as [[x1 e1]|[[x1 n1] sp1]]; [apply IH; exact Ez|].
  apply gc_bind_ext. intros r1 E1.
  assert (b_src r1 = src) as Hr1.
  { dif E1; [apply b_advance_src in E1; congruence|injection E1 as <-; exact Ez]. }
  cbn [xs_s xst_s t_r t_c ist_r].
  match goal with |- (if ?b then _ else _) = _ => destruct b end; [apply IH; exact Hr1|].
  apply gc_bind_ext. intros diff _. apply gc_bind_ext. intros t _.
  destruct t as [c|[c tseg]].
  - apply gc_bind_ext. intros r2 E2. apply b_advance_line_src in E2. apply IH. cbn [xs_s xst_s t_r]. congruence.
  - destruct (new_inode c _) as [c2 tx]. apply gc_bind_ext. intros h _.
    apply gc_bind_ext. intros r2 E2. apply b_advance_line_src in E2. apply IH. cbn [xs_s xst_s t_r]. congruence.
Qed.

End Tables.

(* ================= 5. a block: the configurations agree on the bytes of the source ================= *)
Lemma parse_blockX_agree xc1 xc2 space_table punct_table norm url_table email_table re_email_domain re_open_tag
      re_close_tag punct_rune space_rune re_task re_url re_www refs in_item src lines :
  (forall c, (In c src \/ c = 32%N \/ c = 10%N) -> inline_parsersX xc1 c = inline_parsersX xc2 c) ->
  parse_blockX xc1 space_table punct_table norm url_table email_table re_email_domain re_open_tag re_close_tag
               punct_rune space_rune re_task re_url re_www refs in_item src lines
  = parse_blockX xc2 space_table punct_table norm url_table email_table re_email_domain re_open_tag re_close_tag
               punct_rune space_rune re_task re_url re_www refs in_item src lines.
Proof.
  intros Hall. unfold parse_blockX. apply gc_bind_ext. intros r Er. apply new_block_reader_src in Er.
  rewrite (parse_block_loopX_agree space_table punct_table norm url_table email_table re_email_domain re_open_tag
             re_close_tag punct_rune space_rune re_task re_url re_www refs xc1 xc2 in_item src Hall);
    [reflexivity|]. cbn [xs_s t_r]. exact Er.
Qed.

Lemma inline_childrenX_agree xc1 xc2 space_table punct_table norm url_table email_table re_email_domain re_open_tag
      re_close_tag punct_rune space_rune re_task re_url re_www refs in_item src lines :
  (forall c, (In c src \/ c = 32%N \/ c = 10%N) -> inline_parsersX xc1 c = inline_parsersX xc2 c) ->
  inline_childrenX xc1 space_table punct_table norm url_table email_table re_email_domain re_open_tag re_close_tag
                   punct_rune space_rune re_task re_url re_www refs in_item src lines
  = inline_childrenX xc2 space_table punct_table norm url_table email_table re_email_domain re_open_tag re_close_tag
                   punct_rune space_rune re_task re_url re_www refs in_item src lines.
Proof.
  intros Hall. unfold inline_childrenX.
  rewrite (parse_blockX_agree xc1 xc2 space_table punct_table norm url_table email_table re_email_domain re_open_tag
             re_close_tag punct_rune space_rune re_task re_url re_www refs in_item src lines Hall).
  reflexivity.
Qed.

(* the strikethrough switch is read at the trigger '~' only, the task list switch at '[' only *)
Lemma inline_parsersX_strike xc1 xc2 c :
  x_task xc1 = x_task xc2 -> x_linkify xc1 = x_linkify xc2 -> c <> 126%N ->
  inline_parsersX xc1 c = inline_parsersX xc2 c.
Proof.
  intros Ht Hl Hc. unfold inline_parsersX. rewrite Ht, Hl.
  destruct (N.eqb_spec c 126) as [E|_]; [contradiction|]. reflexivity.
Qed.
Lemma inline_parsersX_task xc1 xc2 c :
  x_strike xc1 = x_strike xc2 -> x_linkify xc1 = x_linkify xc2 -> c <> 91%N ->
  inline_parsersX xc1 c = inline_parsersX xc2 c.
Proof.
  intros Hs Hl Hc. unfold inline_parsersX. rewrite Hs, Hl.
  destruct (N.eqb_spec c 91) as [E|_]; [contradiction|]. reflexivity.
Qed.

Theorem inline_childrenX_strike : forall xc1 xc2 space_table punct_table norm url_table email_table re_email_domain
    re_open_tag re_close_tag punct_rune space_rune re_task re_url re_www refs in_item src lines,
  x_task xc1 = x_task xc2 -> x_linkify xc1 = x_linkify xc2 -> ~ In 126%N src ->
  inline_childrenX xc1 space_table punct_table norm url_table email_table re_email_domain re_open_tag re_close_tag
                   punct_rune space_rune re_task re_url re_www refs in_item src lines
  = inline_childrenX xc2 space_table punct_table norm url_table email_table re_email_domain re_open_tag re_close_tag
                   punct_rune space_rune re_task re_url re_www refs in_item src lines.
Proof.
  intros xc1 xc2 space_table punct_table norm url_table email_table re_email_domain re_open_tag re_close_tag
         punct_rune space_rune re_task re_url re_www refs in_item src lines Ht Hl Hn.
  apply inline_childrenX_agree. intros c Hc. apply inline_parsersX_strike; [exact Ht|exact Hl|].
  intros E. subst c. destruct Hc as [Hc|[Hc|Hc]]; [exact (Hn Hc)|discriminate Hc|discriminate Hc].
Qed.

Theorem inline_childrenX_task : forall xc1 xc2 space_table punct_table norm url_table email_table re_email_domain
    re_open_tag re_close_tag punct_rune space_rune re_task re_url re_www refs in_item src lines,
  x_strike xc1 = x_strike xc2 -> x_linkify xc1 = x_linkify xc2 -> ~ In 91%N src ->
  inline_childrenX xc1 space_table punct_table norm url_table email_table re_email_domain re_open_tag re_close_tag
                   punct_rune space_rune re_task re_url re_www refs in_item src lines
  = inline_childrenX xc2 space_table punct_table norm url_table email_table re_email_domain re_open_tag re_close_tag
                   punct_rune space_rune re_task re_url re_www refs in_item src lines.
Proof.
  intros xc1 xc2 space_table punct_table norm url_table email_table re_email_domain re_open_tag re_close_tag
         punct_rune space_rune re_task re_url re_www refs in_item src lines Hs Hl Hn.
  apply inline_childrenX_agree. intros c Hc. apply inline_parsersX_task; [exact Hs|exact Hl|].
  intros E. subst c. destruct Hc as [Hc|[Hc|Hc]]; [exact (Hn Hc)|discriminate Hc|discriminate Hc].
Qed.
