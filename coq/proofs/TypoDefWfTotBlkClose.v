(* Helper file for TypoDefWfTotBlk.v: closeBlocks of the generalised driver (close_rangeD,
   close_blocksD of model/TypoDefParseD.v) under the state invariant SD, with the frame the
   drivers need.  Port of ParseBlocksTotalClose.v (CFrame, ReadyLeaf, range_of ... are reused). *)
Require Import GM.model.Base GM.model.Util GM.model.Reader GM.model.ReaderSpec GM.model.Blocks GM.model.ListItem
               GM.model.LeafBlocks GM.model.CodeBlock GM.model.LinkDest GM.model.Regex GM.model.BlockParse
               GM.model.TypoDefParseD.
Require Import GM.proofs.ReaderProofs GM.proofs.BlocksProofs
               GM.proofs.ParseBlocksTotalReader GM.proofs.ParseBlocksTotalDefs GM.proofs.ParseBlocksTotalSpec
               GM.proofs.ParseBlocksTotalSt GM.proofs.ParseBlocksTotalShape GM.proofs.ParseBlocksTotalLeaf2
               GM.proofs.ParseBlocksTotalCont GM.proofs.ParseBlocksTotalTransform GM.proofs.ParseBlocksTotalClose
               GM.proofs.TypoDefConservativeBlkInv
               GM.proofs.TypoDefWfTotBlkDefs GM.proofs.TypoDefWfTotBlkSpec GM.proofs.TypoDefWfTotBlkTc
               GM.proofs.TypoDefWfTotBlkDl.
From Coq Require Import ZArith Lia List Bool.
Import ListNotations.
Open Scope Z_scope.

(* which old paragraphs a closing range may detach: those of the core proof (Dacc) and the children
   of a closed DefinitionDescription *)
Definition DaccD (h0 : heap) (c0 : pctx) (closed : list (nat * bparser)) (j : nat) (n : bnode) : Prop :=
  Dacc h0 c0 closed j n \/ (exists D, In (D, PHTML) closed /\ bpar n = Some D /\ ddk h0 D).

Section S.
Variable space_table punct_table : list N.
Variable norm : bytes -> bytes.
Variable re_t1o re_t1c re_t2 re_t3 re_t4 re_t5 re_t6 re_t7 : re.
Variable allowed_tags : list bytes.
Variable src : bytes.
Hypothesis tbl : TblOK space_table.
Notation SI := (SI space_table src).
Notation SD := (SD space_table src).

Notation DLI lem := (lem space_table punct_table norm re_t1o re_t1c re_t2 re_t3 re_t4 re_t5 re_t6 re_t7 allowed_tags src tbl).

(* which old paragraphs one closing step may detach: those of the core step and the children of a
   closed DefinitionDescription *)
Definition DstepD (s : st) (node : nat) (p : bparser) (j : nat) (n : bnode) : Prop :=
  Dstep s node p j n \/ (p = PHTML /\ bpar n = Some node /\ ddk (s_h s) node).

(* the body of one iteration of close_rangeD *)
Definition close_stepD (s : st) (node : nat) (p : bparser) : result st :=
  isp <- is_paragraph (s_h s) node ;;
  att <- attached (s_h s) node ;;
  s <- (if isp && att then (x <- transform_paragraph space_table punct_table norm s node ;; Ok (fst x)) else Ok s) ;;
  att <- attached (s_h s) node ;;
  (if att then p_closeD space_table p s node else Ok s).

Lemma close_stepD_ok s node p : SD s -> In (node, p) (c_arr (s_c s)) -> ReadyLeaf s node p ->
  exists s', close_stepD s node p = Ok s' /\ SD s' /\ s_r s' = s_r s /\ ctx_after_close s s' node p /\
             kkeep (s_h s) (s_h s') /\
             CFrame (DstepD s node p) (fun j => j = node) (s_h s) (s_h s').
Proof.
  intros HD Hin [Rf Rs]. pose proof HD as [HS HT].
  destruct (ci_arr _ _ (si_c _ _ _ HS) _ Hin) as [n [Hn Hk]]. cbn [fst snd] in Hn, Hk.
  unfold close_stepD, is_paragraph, attached. rewrite (hget_some _ _ _ Hn). cbn [bind].
  (* first the paragraph transformer *)
  assert (exists s1, (if bkind_eqb (bk n) BParagraph && match bpar n with Some _ => true | None => false end
                      then (x <- transform_paragraph space_table punct_table norm s node ;; Ok (fst x)) else Ok s) = Ok s1 /\
            SD s1 /\ s_r s1 = s_r s /\ cframe (s_c s) (s_c s1) /\ c_fence (s_c s1) = c_fence (s_c s) /\
            c_tmp_para (s_c s1) = c_tmp_para (s_c s) /\ kkeep (s_h s) (s_h s1) /\
            CFrame (fun j _ => j = node) (fun j => j = node) (s_h s) (s_h s1) /\
            (p <> PParagraph -> s1 = s)) as [s1 (E1 & S1 & R1 & F1 & Ff1 & Ft1 & K1 & C1 & Q1)].
  { destruct (bkind_eqb_spec (bk n) BParagraph) as [Kp|Kp]; cbn [andb].
    - destruct (bpar n) as [q|] eqn:Eq.
      + destruct (DLI transform_paragraph_okD s node n HD Hn Kp ltac:(congruence))
          as [s1 [gone (E & (T1 & T2 & T3 & T4 & T5 & T6 & T7 & T8 & _) & TT & TK)]].
        rewrite E. cbn [bind fst]. exists s1. csplit; auto.
        * split; assumption.
        * intros Np. exfalso. apply Np. destruct p; cbn in Hk; congruence.
      + exists s. csplit; auto; try apply cframe_refl; try apply CFrame_refl; apply kkeep_refl.
    - exists s. csplit; auto; try apply cframe_refl; try apply CFrame_refl; apply kkeep_refl. }
  rewrite E1. cbn [bind].
  destruct C1 as [L1 C1]. destruct (C1 node n Hn) as [n1 (Hn1 & Kn1 & _ & _ & P1)].
  rewrite (hget_some _ _ _ Hn1). cbn [bind].
  destruct (bpar n1) as [q|] eqn:Eq1.
  2:{ exists s1. csplit; auto.
      - unfold ctx_after_close. csplit; auto.
      - eapply CFrame_weaken; [split; [exact L1|exact C1]| |auto]. intros j x ->. left. left. reflexivity. }
  assert (Hread : (p = PFenced -> c_fence (s_c s1) <> None) /\
                  (p = PSetext -> blines n1 <> [] /\ c_tmp_para (s_c s1) <> None)).
  { split.
    - intros ->. rewrite Ff1. apply Rf. reflexivity.
    - intros ->. destruct (Rs eq_refl) as [A B]. rewrite Ft1. split; [|exact A].
      rewrite (Q1 ltac:(discriminate)) in Hn1. rewrite Hn in Hn1. injection Hn1 as <-.
      apply (B n Hn). congruence. }
  destruct (DLI p_closeD_ok p s1 node n1 S1 Hn1 ltac:(congruence) ltac:(congruence) (proj1 Hread) (proj2 Hread))
    as [s2 (E2 & (S2 & R2 & F2 & Ff2 & Ffn2 & Ft2 & C2) & T2 & K2)].
  exists s2. split; [exact E2|]. split; [split; assumption|]. split; [congruence|]. split; [|split].
  - unfold ctx_after_close. csplit.
    + eapply cframe_trans; eassumption.
    + intros Np. rewrite (Ff2 Np). exact Ff1.
    + intros ch ind fl nd Ef Hne. destruct p; try (rewrite Ff2 by discriminate; exact Ff1).
      rewrite <- Ff1 in Ef. rewrite (Ffn2 eq_refl ch ind fl nd Ef Hne). exact Ff1.
    + intros Np. rewrite (Ft2 Np). exact Ft1.
  - eapply kkeep_trans; eassumption.
  - eapply (CFrame_trans (fun j _ => j = node) (close_detachD p node s1) (DstepD s node p)
                         (fun j => j = node) (fun j => j = node) (fun j => j = node)).
    + split; [exact L1|exact C1].
    + exact C2.
    + intros j x ->. left. left. reflexivity.
    + intros j x x1 Hx Hx1 Kx Px Hd. unfold close_detachD in Hd. unfold DstepD.
      destruct Hd as [Hd|(Hp & Hb & Hdd)].
      * left. unfold close_detach in Hd. unfold Dstep. destruct p; try contradiction.
        -- right. left. split; [reflexivity|]. congruence.
        -- right. right. split; [reflexivity|]. destruct Hd as [c [ln (A & B & C)]].
           rewrite (Q1 ltac:(discriminate)) in B. exists c, ln. csplit; auto. congruence.
      * right. subst p. rewrite (Q1 ltac:(discriminate)) in Hdd. csplit; auto. congruence.
    + auto.
    + auto.
Qed.

(* close_rangeD is the iteration of close_stepD *)
Lemma close_rangeD_unfold s blocks k i :
  close_rangeD space_table punct_table norm s blocks (S k) i =
  if (i <? 0) || (zlen blocks <=? i) then Panic
  else match nth_error blocks (Z.to_nat i) with
       | None => Panic
       | Some (node, p) => s <- close_stepD s node p ;; close_rangeD space_table punct_table norm s blocks k (i - 1)
       end.
Proof.
  cbn [close_rangeD]. destruct ((i <? 0) || (zlen blocks <=? i)); [reflexivity|].
  destruct (nth_error blocks (Z.to_nat i)) as [[node p]|]; [|reflexivity].
  unfold close_stepD. destruct (is_paragraph (s_h s) node) as [isp| |]; cbn [bind]; try reflexivity.
  destruct (attached (s_h s) node) as [att| |]; cbn [bind]; try reflexivity.
  destruct (if isp && att then _ else _) as [s1| |]; cbn [bind]; try reflexivity.
  destruct (attached (s_h s1) node) as [att1| |]; cbn [bind]; reflexivity.
Qed.

Fixpoint close_listD (s : st) (l : list (nat * bparser)) : result st :=
  match l with
  | [] => Ok s
  | (node, p) :: t => s <- close_stepD s node p ;; close_listD s t
  end.

Lemma nlp_ready s node p : nlp p -> ReadyLeaf s node p.
Proof. intros [A B]. split; intros ->; contradiction. Qed.

Lemma close_listD_ok : forall l s, SD s -> (forall e, In e l -> In e (c_arr (s_c s))) ->
  match l with [] => True | e :: t => ReadyLeaf s (fst e) (snd e) /\ Forall (fun x => nlp (snd x)) t end ->
  exists s', close_listD s l = Ok s' /\ SD s' /\ s_r s' = s_r s /\ cframe (s_c s) (s_c s') /\
    kkeep (s_h s) (s_h s') /\
    (forall ch ind fl nd, c_fence (s_c s) = Some (ch, ind, fl, nd) -> ~ In (nd, PFenced) l ->
                          c_fence (s_c s') = c_fence (s_c s)) /\
    ((forall H, ~ In (H, PSetext) l) -> c_tmp_para (s_c s') = c_tmp_para (s_c s)) /\
    CFrame (DaccD (s_h s) (s_c s) l) (fun j => In j (map fst l)) (s_h s) (s_h s').
Proof.
  induction l as [|[node p] t IH]; intros s HD Hin Hhd.
  - exists s. split; [reflexivity|]. csplit; auto; try apply cframe_refl; [apply kkeep_refl|apply CFrame_refl].
  - cbn [close_listD]. destruct Hhd as [Hr Hct]. cbn [fst snd] in Hr. pose proof HD as [HS HT].
    assert (Hinc : In (node, p) (c_arr (s_c s))) by (apply Hin; left; reflexivity).
    destruct (close_stepD_ok s node p HD Hinc Hr) as [s1 (E1 & S1 & R1 & (F1 & Ff1 & Ffn1 & Ft1) & K1 & C1)].
    rewrite E1. cbn [bind].
    destruct (IH s1 S1) as [s2 (E2 & S2 & R2 & F2 & K2 & Ff2 & Ft2 & C2)].
    { intros e Hein. destruct F1 as (A & _). rewrite A. apply Hin. right. exact Hein. }
    { destruct t as [|e2 t2]; [exact I|]. inversion Hct as [|x y Hx Hy]; subst. split; [|exact Hy].
      apply nlp_ready, Hx. }
    exists s2. split; [exact E2|]. split; [exact S2|]. split; [congruence|]. split; [eapply cframe_trans; eassumption|].
    split; [eapply kkeep_trans; eassumption|].
    assert (Hnoleaf : forall q x, In (q, x) t -> nlp x).
    { intros q x Hq. rewrite Forall_forall in Hct. exact (Hct (q, x) Hq). }
    csplit.
    + intros ch ind fl nd Ef Hni.
      assert (E01 : c_fence (s_c s1) = c_fence (s_c s)).
      { destruct (bkind_eqb_spec (kind_of_parser p) BFenced) as [Kp|Kp].
        - apply (Ffn1 ch ind fl nd Ef). intros ->. apply Hni. left. destruct p; cbn in Kp; try discriminate. reflexivity.
        - apply Ff1. intros ->. apply Kp. reflexivity. }
      rewrite (Ff2 ch ind fl nd); [exact E01|congruence|]. intros Hx. apply Hni. right. exact Hx.
    + intros Hns. rewrite Ft2; [apply Ft1|].
      * intros ->. apply (Hns node). left. reflexivity.
      * intros H Hx. apply (Hns H). right. exact Hx.
    + eapply (CFrame_trans (DstepD s node p) (DaccD (s_h s1) (s_c s1) t)); [exact C1|exact C2| | | |].
      * intros j x Hd. unfold DstepD, Dstep in Hd. unfold DaccD, Dacc. destruct Hd as [[->|[[-> Hd]|[-> Hd]]]|(-> & Hb & Hdd)].
        -- left. left. left. reflexivity.
        -- left. right. left. split; [exact Hd|]. exists node. left. reflexivity.
        -- left. right. right. destruct Hd as [c [ln (A & B & C)]]. exists node, c, ln. csplit; auto. left. reflexivity.
        -- right. exists node. csplit; auto. left. reflexivity.
      * intros j x x1 Hx Hx1 Kx Px Hd. unfold DaccD, Dacc in *. destruct Hd as [[Hd|[[Hd [H HH]]|Hd]]|Hd].
        -- left. left. right. exact Hd.
        -- apply Hnoleaf in HH. destruct HH as [_ HH]. contradiction.
        -- left. right. right. destruct Hd as [L [c [ln1 (A & B & C & D)]]].
           assert (HLin : In (L, PList) (c_arr (s_c s))) by (apply Hin; right; exact A).
           destruct (ci_arr _ _ (si_c _ _ _ HS) _ HLin) as [ln [Hln Kln]]. cbn [fst snd] in Hln, Kln.
           destruct C1 as [_ C1]. destruct (C1 L ln Hln) as [ln' (G1 & G2 & G3 & G4 & G5)].
           rewrite G1 in C. injection C as <-. exists L, c, ln. csplit.
           ++ right. exact A.
           ++ congruence.
           ++ exact Hln.
           ++ rewrite <- (G4 Kln). exact D.
        -- right. destruct Hd as [D (A & B & C)].
           assert (HDin : In (D, PHTML) (c_arr (s_c s))) by (apply Hin; right; exact A).
           destruct (ci_arr _ _ (si_c _ _ _ HS) _ HDin) as [dn [Hdn _]]. cbn [fst] in Hdn.
           exists D. csplit.
           ++ right. exact A.
           ++ congruence.
           ++ eapply ddk_back; [exact K1| |exact C]. eapply nth_error_lt, Hdn.
      * intros j ->. left. reflexivity.
      * intros j Hj. right. exact Hj.
Qed.

Lemma close_rangeD_list blocks : forall cnt s i, Z.of_nat cnt <= i + 1 -> i < zlen blocks ->
  close_rangeD space_table punct_table norm s blocks cnt i = close_listD s (rev (range_of blocks cnt i)).
Proof.
  induction cnt as [|k IH]; intros s i Hc Hi; [reflexivity|].
  rewrite close_rangeD_unfold.
  destruct (Z.ltb_spec i 0) as [C|_]; [lia|]. destruct (Z.leb_spec (zlen blocks) i) as [C|_]; [lia|]. cbn [orb].
  destruct (nth_error_ex_lt blocks (Z.to_nat i) ltac:(unfold zlen in Hi; lia)) as [[node p] He]. rewrite He.
  rewrite (range_of_S norm src blocks k i (node, p) Hc He). rewrite rev_app_distr. cbn [rev app close_listD].
  destruct (close_stepD s node p) as [s1| |]; cbn [bind]; try reflexivity.
  apply IH; lia.
Qed.

(* closeBlocks(from, to) on the opened blocks: closes the entries to..from (from the top down) and
   removes them from the slice.  The top entry needs its context record (ReadyLeaf), the others
   none (nlp: neither a fenced code block nor a setext heading) *)
Lemma close_blocksD_ok s from to : SD s -> 0 <= to -> to <= from + 1 -> from < Z.of_nat (c_len (s_c s)) ->
  let closed := rev (range_of (ops s) (Z.to_nat (from - to + 1)) from) in
  match closed with [] => True | e :: t => ReadyLeaf s (fst e) (snd e) /\ Forall (fun x => nlp (snd x)) t end ->
  exists s', close_blocksD space_table punct_table norm s from to = Ok s' /\ SD s' /\ s_r s' = s_r s /\
    kkeep (s_h s) (s_h s') /\
    ops s' = firstn (Z.to_nat to) (ops s) ++ skipn (Z.to_nat (from + 1)) (ops s) /\
    (forall ch ind fl nd, c_fence (s_c s) = Some (ch, ind, fl, nd) -> ~ In (nd, PFenced) closed ->
                          c_fence (s_c s') = c_fence (s_c s)) /\
    ((forall H, ~ In (H, PSetext) closed) -> c_tmp_para (s_c s') = c_tmp_para (s_c s)) /\
    CFrame (DaccD (s_h s) (s_c s) closed) (fun j => In j (map fst closed)) (s_h s) (s_h s').
Proof.
  intros HD Hto Hft Hfrom closed Hhd. pose proof HD as [HS HT].
  pose proof (ci_len _ _ (si_c _ _ _ HS)) as Hlen.
  pose proof (opened_length (s_c s) Hlen) as Hol. fold (ops s) in Hol.
  unfold close_blocksD. fold (ops s).
  rewrite close_rangeD_list by (unfold zlen; lia). fold closed.
  destruct (close_listD_ok closed s HD) as [s1 (E1 & [S1 T1] & R1 & (F1 & F2 & F3 & F4) & K1 & Ff1 & Ft1 & C1)].
  { intros e He. apply opened_in. unfold closed in He. apply in_rev in He. unfold range_of in He.
    apply in_firstn in He. eapply in_skipn. exact He. }
  { exact Hhd. }
  rewrite E1. cbn [bind]. rewrite F2.
  destruct (Z.eqb_spec from (Z.of_nat (c_len (s_c s)) - 1)) as [Ef|Ef].
  - destruct (Z.ltb_spec to 0) as [C|_]; [lia|]. destruct (Z.ltb_spec (Z.of_nat (c_len (s_c s))) to) as [C|_]; [lia|].
    cbn [orb]. eexists. split; [reflexivity|].
    assert (HC : CInv (s_h s1) (cset_open (s_c s1) (c_arr (s_c s1)) (Z.to_nat to))).
    { pose proof (si_c _ _ _ S1) as [D1 D2 D3 D4]. constructor; cbn [cset_open c_arr c_len c_tmp_para c_fence]; auto.
      rewrite F1. lia. }
    split; [split; [apply SI_set_c; assumption|exact T1]|]. split; [exact R1|]. split; [exact K1|]. csplit; auto.
    unfold ops, opened. cbn [st_c s_c cset_open c_arr c_len]. rewrite F1.
    rewrite skipn_all2 by (rewrite firstn_length; lia). rewrite app_nil_r.
    rewrite (zfirst_firstn norm src) by lia. reflexivity.
  - destruct (Z.ltb_spec to 0) as [C|_]; [lia|]. destruct (Z.ltb_spec (from + 1) to) as [C|_]; [lia|].
    destruct (Z.ltb_spec (Z.of_nat (c_len (s_c s))) (from + 1)) as [C|_]; [lia|]. cbn [orb].
    eexists. split; [reflexivity|].
    set (moved := zskip (from + 1) (firstn (c_len (s_c s)) (c_arr (s_c s1)))).
    assert (Hmv : moved = skipn (Z.to_nat (from + 1)) (ops s)).
    { unfold moved, zskip, ops, opened. rewrite F1. reflexivity. }
    assert (Hml : length moved = (c_len (s_c s) - Z.to_nat (from + 1))%nat).
    { rewrite Hmv, skipn_length, Hol. reflexivity. }
    assert (Hzf : length (zfirst to (c_arr (s_c s1))) = Z.to_nat to).
    { unfold zfirst. rewrite firstn_length, F1. lia. }
    assert (HC : CInv (s_h s1)
              (cset_open (s_c s1) (zfirst to (c_arr (s_c s1)) ++ moved ++ skipn (Z.to_nat to + length moved) (c_arr (s_c s1)))
                         (Z.to_nat to + length moved))).
    { pose proof (si_c _ _ _ S1) as [D1 D2 D3 D4]. constructor; cbn [cset_open c_arr c_len c_tmp_para c_fence]; auto.
      - rewrite !app_length, Hzf. lia.
      - intros e He. apply D2. apply in_app_or in He. destruct He as [He|He].
        + unfold zfirst in He. eapply in_firstn, He.
        + apply in_app_or in He. destruct He as [He|He].
          * unfold moved, zskip in He. apply in_skipn in He. eapply in_firstn, He.
          * eapply in_skipn, He. }
    split; [split; [apply SI_set_c; assumption|exact T1]|]. split; [exact R1|]. split; [exact K1|]. csplit; auto.
    unfold ops at 1. unfold opened. cbn [st_c s_c cset_open c_arr c_len].
    rewrite app_assoc. rewrite firstn_app.
    replace (Z.to_nat to + length moved - length (zfirst to (c_arr (s_c s1)) ++ moved))%nat with O
      by (rewrite app_length, Hzf; lia).
    cbn [firstn]. rewrite app_nil_r. rewrite firstn_all2 by (rewrite app_length, Hzf; lia).
    rewrite Hmv. f_equal. unfold zfirst, ops, opened. rewrite F1. symmetry. apply (zfirst_firstn norm src). lia.
Qed.

End S.
