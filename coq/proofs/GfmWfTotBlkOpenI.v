(* Helper file for GfmWfTotBlk.v: the interface between the proof of openBlocks of the generalised
   driver (open_blocksX, files GfmWfTotBlkOpenA.v / GfmWfTotBlkOpenB.v) and the proofs of the loops around
   it (GfmWfTotBlkEach.v, GfmWfTotBlkDrive.v): the statement open_blocksX_spec.
   It is the postcondition of the core proof (ParseBlocksTotalOpen.v open_blocks_ok_fix) with the facts the
   fork has to track outside the heap invariant (marked NEW): the lines of the open paragraph have the
   strong property para_lines, and the temporary paragraph of a new setext heading has lines; (marked NEW2)
   the open paragraph is the last child of its parent, so that the RequireParagraph path of try_parsersX
   never pushes a setext heading while its temporary paragraph is still open (closeBlocks could then run the
   table transformer on that paragraph, leave it without lines, and setext_close would take its `[]` branch). *)
Require Import GM.model.Base GM.model.Util GM.model.Reader GM.model.ReaderSpec GM.model.Blocks GM.model.ListItem
               GM.model.LeafBlocks GM.model.CodeBlock GM.model.LinkDest GM.model.Regex GM.model.Html GM.model.TableX
               GM.model.BlockParse GM.model.BlockParseX.
Require Import GM.proofs.ReaderProofs GM.proofs.BlocksProofs
               GM.proofs.ParseBlocksTotalReader GM.proofs.GfmWfTotBlkDefs GM.proofs.GfmWfTotBlkSpec
               GM.proofs.GfmWfTotBlkSt GM.proofs.GfmWfTotBlkShape.
From Coq Require Import ZArith Lia List Bool.
Import ListNotations.
Open Scope Z_scope.

(* the paragraph at the end of the opened blocks, if any *)
Definition last_para (c : pctx) : option nat :=
  match last_opened c with Some (x, PParagraph) => Some x | _ => None end.

(* what openBlocks may do to the old nodes: kinds stay; lines and parents stay except at the last
   opened paragraph; the children of List nodes other than `parent0` stay *)
Definition OFrame (h h' : heap) (parent0 : nat) (x0 : option nat) : Prop :=
  (length h <= length h')%nat /\
  forall j n, nth_error h j = Some n -> exists n', nth_error h' j = Some n' /\ bk n' = bk n /\
    (Some j <> x0 -> blines n' = blines n /\ bpar n' = bpar n) /\
    (bk n = BList -> j <> parent0 -> bch n' = bch n).

Section S.
Variable table_on : bool.
Variable space_table punct_table : list N.
Variable norm : bytes -> bytes.
Variable re_t1o re_t1c re_t2 re_t3 re_t4 re_t5 re_t6 re_t7 : re.
Variable allowed_tags : list bytes.
Variable src : bytes.
Notation SI := (SI space_table src).
Notation para_lines := (para_lines space_table src).
Notation OBX := (open_blocksX table_on space_table punct_table norm re_t1o re_t1c re_t2 re_t3 re_t4 re_t5 re_t6 re_t7 allowed_tags).

(* NEW: the lines of the open paragraph (the last opened block, if it is a paragraph) have the strong property *)
Definition LastPara (s : st) : Prop :=
  forall l n, last_opened (s_c s) = Some (l, PParagraph) -> nth_error (s_h s) l = Some n -> para_lines (blines n).

(* NEW2: the open paragraph is the last child of its parent *)
Definition LastParaLC (s : st) : Prop :=
  forall l n, last_opened (s_c s) = Some (l, PParagraph) -> nth_error (s_h s) l = Some n ->
    exists q qn, bpar n = Some q /\ nth_error (s_h s) q = Some qn /\ last_id (bch qn) = Some l.

Definition open_blocksX_spec : Prop :=
  forall fuel parent pn blank x, let s := bx_s x in
  SI s -> nth_error (s_h s) parent = Some pn ->
  (bk pn = BList -> LP space_table s parent) ->
  (forall e n, In e (ops s) -> nth_error (s_h s) (fst e) = Some n -> bpar n <> None) ->
  (forall k e, nth_error (ops s) k = Some e -> (S k < length (ops s))%nat -> is_container (snd e) = true) ->
  Below (s_h s) (s_r s) ->
  LastPara s ->                                                                                   (* NEW *)
  LastParaLC s ->                                                                                 (* NEW2 *)
  (Z.to_nat (2 * (s_stop (r_pos (s_r s)) - s_start (r_pos (s_r s))) + 8) <= fuel)%nat ->
  exists res x', OBX fuel parent blank x = Ok (res, x') /\ let s' := bx_s x' in
    SI s' /\ r_le (s_r s) (s_r s') /\
    (c_fence (s_c s) <> None -> c_fence (s_c s') <> None) /\
    (c_tmp_para (s_c s) <> None -> c_tmp_para (s_c s') <> None) /\
    (forall t, c_tmp_para (s_c s') = Some t -> (t < length (s_h s))%nat) /\
    (((res = paragraphContinuation \/ res = noBlocksOpened) /\ ops s' = ops s /\
      c_fence (s_c s') = c_fence (s_c s) /\ c_tmp_para (s_c s') = c_tmp_para (s_c s) /\
      hsame_pc (s_h s) (s_h s') /\
      (forall j n n', Some j <> last_para (s_c s) -> nth_error (s_h s) j = Some n -> nth_error (s_h s') j = Some n' ->
                      blines n' = blines n) /\
      bk pn <> BList /\
      LastPara s' /\                                                                             (* NEW *)
      LastParaLC s')                                                                              (* NEW2 *)
     \/
     (res = newBlocksOpened /\ exists base' new, ops s' = base' ++ new /\ new <> [] /\
      (base' = ops s \/ exists x, ops s = base' ++ [(x, PParagraph)]) /\
      OFrame (s_h s) (s_h s') parent (last_para (s_c s)) /\
      Chain (s_h s') parent new /\ (forall e, In e new -> (length (s_h s) <= fst e)%nat) /\
      (bk pn = BList -> exists it pn', nth_error new 0%nat = Some (it, PListItem) /\
                                       nth_error (s_h s') parent = Some pn' /\ last_id (bch pn') = Some it) /\
      (forall n p nn, nth_error new (pred (length new)) = Some (n, p) -> nth_error (s_h s') n = Some nn ->
         (p = PFenced -> exists ch ind fl, c_fence (s_c s') = Some (ch, ind, fl, n)) /\
         (p <> PFenced -> c_fence (s_c s') = c_fence (s_c s)) /\
         (p = PSetext -> c_tmp_para (s_c s') <> None /\ blines nn <> [] /\
                         exists x, last_opened (s_c s) = Some (x, PParagraph)) /\
         (p <> PSetext -> c_tmp_para (s_c s') = c_tmp_para (s_c s) \/
                          exists x, last_opened (s_c s) = Some (x, PParagraph)) /\
         (* NEW: the temporary paragraph of a new setext heading is the paragraph that was open, and it has lines;
            NEW2: it has been popped from the opened blocks (the RequireParagraph path always closes it, because
            it is the last child of its parent) *)
         (p = PSetext -> exists x xn, last_opened (s_c s) = Some (x, PParagraph) /\ c_tmp_para (s_c s') = Some x /\
                                      nth_error (s_h s') x = Some xn /\ blines xn <> [] /\
                                      ops s = base' ++ [(x, PParagraph)]) /\
         (* NEW: a new paragraph has the strong property; NEW2: and is the last child of its parent *)
         (p = PParagraph -> para_lines (blines nn)) /\
         (p = PParagraph -> exists q qn, bpar nn = Some q /\ nth_error (s_h s') q = Some qn /\ last_id (bch qn) = Some n)) /\
      (* NEW2: the paragraph parser does not interrupt a paragraph: a paragraph that is opened directly below `parent`
         while no block was popped means that no paragraph was open *)
      (forall n, new = [(n, PParagraph)] -> base' = ops s -> last_para (s_c s) = None) /\
      (* NEW: when the paragraph that was open is still among the opened blocks, its lines are untouched *)
      (base' = ops s -> forall l n n', last_para (s_c s) = Some l -> nth_error (s_h s) l = Some n ->
                                       nth_error (s_h s') l = Some n' -> blines n' = blines n))).

End S.
