(* Block quotes around plain paragraphs, specification side: a document tree made of plain
   paragraphs and block quotes (nested to any depth) is printed by md_of as a source of the shape
   of SpecQuoteShape (qdoc_src), the HTML the specification prescribes for it is the HTML of that
   shape (qbs_html), and prefixing every line of the source with "> " (a bare ">" on an empty
   line) gives the source of the shape wrapped in one more block quote. *)
Require Import GM.model.Base GM.model.Util GM.model.SpecDoc GM.proofs.SpecParaBytes GM.proofs.SpecParaSpec
               GM.proofs.SpecQuoteShape.
From Coq Require Import List NArith ZArith Bool Lia.
Import ListNotations.
Open Scope N_scope.

(* verbatim copies (suffix _s) of the definitions the main theorem file uses *)
Fixpoint qblock_s (fuel : nat) (b : block) : bool :=
  match fuel with
  | O => false
  | S f =>
    match b with
    | BPara 0 a => plain_para_s (BPara 0 a)
    | BQuote st bs => (st <=? 1) && negb (match bs with [] => true | _ => false end) && forallb (qblock_s f) bs
    | _ => false
    end
  end.
Definition qdoc_s (fuel : nat) (d : doc) : bool := negb (match d with [] => true | _ => false end) && forallb (qblock_s fuel) d.
Definition quote_lines_s (md : bytes) : bytes :=
  join nl (map (fun l => match l with [] => [62] | _ => [62;32] ++ l end) (split_lines md [])).

(* ---------- the witness ---------- *)
Fixpoint to_qbs (t : block -> qb) (l : list block) : qbs :=
  match l with
  | [] => QOne (QP [])
  | [x] => QOne (t x)
  | x :: r => QCons (t x) (to_qbs t r)
  end.
Fixpoint tr (fuel : nat) (b : block) : qb :=
  match fuel with
  | O => QP []
  | S f =>
    match b with
    | BPara _ a => QP (lines_of [] a)
    | BQuote st bs => QQ (st =? 0) (to_qbs (tr f) bs)
    | _ => QP []
    end
  end.

(* ---------- the lines of a shape ---------- *)
Fixpoint qb_lines (pfx : bytes) (b : qb) : list bytes :=
  match b with
  | QP p => map (app pfx) p
  | QQ st bs => qbs_lines (pfx ++ mk st) (pfx ++ [62]) bs
  end
with qbs_lines (pfx sep : bytes) (bs : qbs) : list bytes :=
  match bs with
  | QOne b => qb_lines pfx b
  | QCons b r => qb_lines pfx b ++ [sep] ++ qbs_lines pfx sep r
  end.

Lemma qb_lines_pfx :
  (forall b p pfx, qb_lines (p ++ pfx) b = map (app p) (qb_lines pfx b)) /\
  (forall bs p pfx sep, qbs_lines (p ++ pfx) (p ++ sep) bs = map (app p) (qbs_lines pfx sep bs)).
Proof.
  apply qb_qbs_ind.
  - intros l p pfx. cbn [qb_lines]. rewrite map_map. apply map_ext. intros x. rewrite app_assoc. reflexivity.
  - intros st bs IH p pfx. cbn [qb_lines]. rewrite <- !app_assoc. apply IH.
  - intros b IH p pfx sep. cbn [qbs_lines]. apply IH.
  - intros b IHb r IHr p pfx sep. cbn [qbs_lines]. rewrite !map_app. rewrite IHb, IHr. reflexivity.
Qed.
Lemma qb_lines_pfx0 b p : qb_lines p b = map (app p) (qb_lines [] b).
Proof. rewrite <- (proj1 qb_lines_pfx b p []). rewrite app_nil_r. reflexivity. Qed.

(* a line of the source: free of newlines and not empty *)
Definition okl (l : bytes) : bool := nonl l && negb (is_nil l).
Lemma nonl_app a b : nonl a = true -> nonl b = true -> nonl (a ++ b) = true.
Proof. unfold nonl. intros Ha Hb. rewrite forallb_app, Ha, Hb. reflexivity. Qed.
Lemma okl_app_r a b : nonl a = true -> okl b = true -> okl (a ++ b) = true.
Proof.
  unfold okl. intros Ha Hb. apply andb_true_iff in Hb. destruct Hb as [Hb Hn].
  rewrite (nonl_app a b Ha Hb). destruct b as [|c r]; [discriminate|]. destruct a; reflexivity.
Qed.
Lemma okl_app_l a b : okl a = true -> nonl b = true -> okl (a ++ b) = true.
Proof.
  unfold okl. intros Ha Hb. apply andb_true_iff in Ha. destruct Ha as [Ha Hn].
  rewrite (nonl_app a b Ha Hb). destruct a as [|c r]; [discriminate|]. reflexivity.
Qed.
Lemma mk_nonl st : nonl (mk st) = true.
Proof. destruct st; reflexivity. Qed.

Lemma qb_lines_ok :
  (forall b, qb_ok b = true -> forall pfx, nonl pfx = true ->
     qb_lines pfx b <> [] /\ forallb okl (qb_lines pfx b) = true) /\
  (forall bs, qbs_ok bs = true -> forall pfx sep, nonl pfx = true -> okl sep = true ->
     qbs_lines pfx sep bs <> [] /\ forallb okl (qbs_lines pfx sep bs) = true).
Proof.
  apply qb_qbs_ind.
  - intros p Hp pfx Hpfx. cbn [qb_ok] in Hp. destruct (para_ok_inv p Hp) as (b & r & -> & Hb & Hr).
    cbn [qb_lines]. split; [discriminate|].
    apply forallb_forall. intros x Hx. apply in_map_iff in Hx. destruct Hx as (y & <- & Hy).
    apply okl_app_r; [exact Hpfx|].
    assert (Hy' : body_okb y = true).
    { destruct Hy as [<-|Hy]; [exact Hb|exact (proj1 (forallb_forall _ _) Hr y Hy)]. }
    unfold okl. rewrite (body_ok_nonl y Hy'). destruct (body_ok_head y Hy') as (c & t & -> & _). reflexivity.
  - intros st bs IH Hok pfx Hpfx. cbn [qb_ok] in Hok. cbn [qb_lines]. apply (IH Hok).
    + apply nonl_app; [exact Hpfx|apply mk_nonl].
    + apply okl_app_r; [exact Hpfx|reflexivity].
  - intros b IH Hok pfx sep Hpfx Hsep. cbn [qbs_ok] in Hok. cbn [qbs_lines]. apply (IH Hok pfx Hpfx).
  - intros b IHb r IHr Hok pfx sep Hpfx Hsep. cbn [qbs_ok] in Hok. apply andb_true_iff in Hok. destruct Hok as [Hb Hr].
    cbn [qbs_lines]. destruct (IHb Hb pfx Hpfx) as [Hne Hall]. destruct (IHr Hr pfx sep Hpfx Hsep) as [_ Hall2].
    split.
    + intros E. apply app_eq_nil in E. destruct E as [E _]. exact (Hne E).
    + rewrite !forallb_app. rewrite Hall, Hall2. cbn [forallb]. rewrite Hsep. reflexivity.
Qed.

(* the source is the lines joined by newlines *)
Lemma qb_src_lines :
  (forall b, qb_ok b = true -> forall pfx, nonl pfx = true -> qb_src pfx b = join nl (qb_lines pfx b)) /\
  (forall bs, qbs_ok bs = true -> forall pfx sep, nonl pfx = true -> okl sep = true ->
     qbs_src pfx sep bs = join nl (qbs_lines pfx sep bs)).
Proof.
  apply qb_qbs_ind.
  - intros p _ pfx _. reflexivity.
  - intros st bs IH Hok pfx Hpfx. cbn [qb_ok] in Hok. cbn [qb_src qb_lines]. apply (IH Hok).
    + apply nonl_app; [exact Hpfx|apply mk_nonl].
    + apply okl_app_r; [exact Hpfx|reflexivity].
  - intros b IH Hok pfx sep Hpfx Hsep. cbn [qbs_ok] in Hok. cbn [qbs_src qbs_lines]. apply (IH Hok pfx Hpfx).
  - intros b IHb r IHr Hok pfx sep Hpfx Hsep. cbn [qbs_ok] in Hok. apply andb_true_iff in Hok. destruct Hok as [Hb Hr].
    cbn [qbs_src qbs_lines].
    destruct (proj1 qb_lines_ok b Hb pfx Hpfx) as [Hne _].
    destruct (proj2 qb_lines_ok r Hr pfx sep Hpfx Hsep) as [Hne2 _].
    rewrite join_app_ne; [|exact Hne|discriminate].
    rewrite join_app_ne; [|discriminate|exact Hne2].
    rewrite (IHb Hb pfx Hpfx), (IHr Hr pfx sep Hpfx Hsep). reflexivity.
Qed.

(* ---------- the lines of a block of the fragment ---------- *)
(* the local fixpoint of block_lines *)
Fixpoint blocks_lines_s (sep : bool) (l : list block) : list line :=
  match l with
  | [] => []
  | [x] => block_lines x
  | x :: r => block_lines x ++ (if sep then [blank] else []) ++ blocks_lines_s sep r
  end.
(* what a block quote does to a line of its content *)
Definition qf (st : N) (l : line) : line :=
  if is_blank l then ([62], [])
  else if (st =? 1) && negb (first_byte l =? 32) && negb (first_byte l =? 9) then pre [62] l
  else pre [62;32] l.
Lemma block_lines_quote st bs : block_lines (BQuote st bs) = map (qf st) (blocks_lines_s true bs).
Proof. reflexivity. Qed.
Lemma block_html_quote st bs : block_html (BQuote st bs) = tag bq_name ++ nl ++ html_of bs ++ ctag bq_name ++ nl.
Proof. reflexivity. Qed.
Lemma block_defs_quote st bs : block_defs (BQuote st bs) = flat_map block_defs bs.
Proof. reflexivity. Qed.
Lemma doc_lines_blocks d : doc_lines d = blocks_lines_s true d.
Proof.
  induction d as [|x r IH]; [reflexivity|]. destruct r as [|y r']; [reflexivity|].
  change (doc_lines (x :: y :: r')) with (block_lines x ++ [blank] ++ doc_lines (y :: r')).
  rewrite IH. reflexivity.
Qed.

(* a line that is not blank and begins with neither a blank nor a tab *)
Definition good (l : line) : bool :=
  match fst l ++ snd l with c :: _ => negb (c =? 32) && negb (c =? 9) | [] => false end.
Lemma qf_good st l : st <= 1 -> good l = true ->
  line_md false (qf st l) = mk (st =? 0) ++ line_md false l /\ good (qf st l) = true.
Proof.
  intros Hst Hg. destruct l as [a b].
  assert (Hb : is_blank (a, b) = false).
  { destruct a; [destruct b; [discriminate|reflexivity]|reflexivity]. }
  assert (Hf : negb (first_byte (a, b) =? 32) && negb (first_byte (a, b) =? 9) = true).
  { unfold good in Hg. unfold first_byte. destruct (fst (a, b) ++ snd (a, b)); [discriminate|exact Hg]. }
  assert (Hp : forall m, line_md false (pre m (a, b)) = m ++ line_md false (a, b) /\ good (pre m (a, b)) = good (m, a ++ b)).
  { intros m. unfold pre, line_md, good. cbn [fst snd]. rewrite <- app_assoc. split; reflexivity. }
  unfold qf. rewrite Hb, <- andb_assoc, Hf, andb_true_r.
  destruct (N.eqb_spec st 1) as [->|Hn1].
  - cbn [N.eqb mk]. destruct (Hp [62]) as [-> ->]. split; reflexivity.
  - assert (E0 : st = 0) by lia. subst st. cbn [N.eqb mk]. destruct (Hp [62;32]) as [-> ->]. split; reflexivity.
Qed.
Lemma qf_blank st : line_md false (qf st blank) = [62] /\ good (qf st blank) = true.
Proof. split; reflexivity. Qed.
Lemma good_not_blank l : good l = true -> is_blank l = false.
Proof. destruct l as [a b]. destruct a; [destruct b; [discriminate|reflexivity]|reflexivity]. Qed.

(* ---------- what is shown of one block ---------- *)
Definition blk_spec (b : block) (q : qb) : Prop :=
  qb_ok q = true /\ map (line_md false) (block_lines b) = qb_lines [] q /\
  forallb good (block_lines b) = true /\ block_html b = qb_html q /\ block_defs b = [].

Lemma map_lines_pfx (F : line -> line) pfx L :
  (forall l, good l = true -> line_md false (F l) = pfx ++ line_md false l) ->
  forallb good L = true ->
  map (line_md false) (map F L) = map (app pfx) (map (line_md false) L).
Proof.
  intros HF HL. rewrite !map_map. apply map_ext_in. intros l Hl.
  apply HF. exact (proj1 (forallb_forall _ _) HL l Hl).
Qed.

Lemma blocks_spec (t : block -> qb) bs : bs <> [] -> (forall b, In b bs -> blk_spec b (t b)) ->
  qbs_ok (to_qbs t bs) = true /\
  (forall F pfx sep, (forall l, good l = true -> line_md false (F l) = pfx ++ line_md false l) ->
     line_md false (F blank) = sep ->
     map (line_md false) (map F (blocks_lines_s true bs)) = qbs_lines pfx sep (to_qbs t bs)) /\
  forallb (fun l => good l || is_blank l) (blocks_lines_s true bs) = true /\
  flat_map block_html bs = qbs_html (to_qbs t bs) /\ flat_map block_defs bs = [].
Proof.
  induction bs as [|x r IH]; intros Hne H; [contradiction|].
  destruct (H x (or_introl eq_refl)) as (Hok & Hl & Hg & Hh & Hd).
  assert (Hg' : forallb (fun l => good l || is_blank l) (block_lines x) = true).
  { apply forallb_forall. intros l Hin. rewrite (proj1 (forallb_forall _ _) Hg l Hin). reflexivity. }
  destruct r as [|y r'].
  - cbn [to_qbs qbs_ok blocks_lines_s qbs_lines flat_map qbs_html]. rewrite !app_nil_r.
    split; [exact Hok|]. split; [|split; [exact Hg'|split; [exact Hh|exact Hd]]].
    intros F pfx sep HF _. rewrite (map_lines_pfx F pfx _ HF Hg), Hl. symmetry. apply qb_lines_pfx0.
  - destruct IH as (IHok & IHl & IHg & IHh & IHd); [discriminate|intros b Hb; apply H; right; exact Hb|].
    change (to_qbs t (x :: y :: r')) with (QCons (t x) (to_qbs t (y :: r'))).
    change (blocks_lines_s true (x :: y :: r')) with (block_lines x ++ [blank] ++ blocks_lines_s true (y :: r')).
    cbn [qbs_ok qbs_lines qbs_html]. rewrite Hok, IHok.
    split; [reflexivity|]. split; [|split; [|split]].
    + intros F pfx sep HF HB. rewrite !map_app. rewrite (map_lines_pfx F pfx _ HF Hg), Hl.
      rewrite (IHl F pfx sep HF HB). cbn [map]. rewrite HB. rewrite <- qb_lines_pfx0. reflexivity.
    + rewrite !forallb_app. rewrite Hg', IHg. reflexivity.
    + change (flat_map block_html (x :: y :: r')) with (block_html x ++ flat_map block_html (y :: r')).
      rewrite Hh, IHh. reflexivity.
    + change (flat_map block_defs (x :: y :: r')) with (block_defs x ++ flat_map block_defs (y :: r')).
      rewrite Hd, IHd. reflexivity.
Qed.

Lemma para_spec a : plain_atoms_s true a = true -> blk_spec (BPara 0 a) (QP (lines_of [] a)).
Proof.
  intros Ha. unfold blk_spec. cbn [qb_ok qb_lines qb_html block_defs].
  split; [exact (para_lines_ok a Ha)|]. split; [|split; [|split]].
  - rewrite (para_block_lines a Ha). rewrite <- (map_id (lines_of [] a)) at 1. apply map_ext. reflexivity.
  - cbn [block_lines]. rewrite (para_split a Ha).
    pose proof (lines_of_ok a true [] Ha eq_refl ltac:(discriminate)) as Hok.
    rewrite forallb_forall. intros l Hl. apply in_map_iff in Hl. destruct Hl as (y & <- & Hy).
    pose proof (proj1 (forallb_forall _ _) Hok y Hy) as Hb.
    destruct (body_ok_head y Hb) as (c & t & -> & Hc). apply wordc_range in Hc.
    unfold good. change (spaces 0) with (@nil N). cbn [fst snd app].
    apply andb_true_iff. split; apply negb_true_iff; apply N.eqb_neq; lia.
  - exact (para_block_html a Ha).
  - exact (atoms_defs_plain a true Ha).
Qed.

Lemma qblock_spec fuel : forall b, qblock_s fuel b = true -> blk_spec b (tr fuel b).
Proof.
  induction fuel as [|f IH]; intros b H; [discriminate|].
  destruct b as [ind a| | | |st bs| |]; cbn [qblock_s] in H; try discriminate.
  - destruct ind; [|discriminate].
    destruct (plain_para_inv _ H) as (a' & Ea & Ha). injection Ea as <-.
    cbn [tr]. exact (para_spec a Ha).
  - apply andb_true_iff in H. destruct H as [H Hall]. apply andb_true_iff in H. destruct H as [Hst Hne].
    apply N.leb_le in Hst.
    assert (Hne' : bs <> []) by (destruct bs; [discriminate|discriminate]).
    destruct (blocks_spec (tr f) bs Hne') as (Hok & Hl & Hg & Hh & Hd).
    { intros b Hb. apply IH. exact (proj1 (forallb_forall _ _) Hall b Hb). }
    cbn [tr]. unfold blk_spec. cbn [qb_ok qb_lines qb_html]. rewrite block_lines_quote, block_html_quote, block_defs_quote.
    split; [exact Hok|]. split; [|split; [|split; [|exact Hd]]].
    + apply Hl; [|reflexivity]. intros l Hgl. exact (proj1 (qf_good st l Hst Hgl)).
    + apply forallb_forall. intros l Hl'. apply in_map_iff in Hl'. destruct Hl' as (y & <- & Hy).
      pose proof (proj1 (forallb_forall _ _) Hg y Hy) as Hy'. apply orb_true_iff in Hy'. destruct Hy' as [Hy'|Hy'].
      * exact (proj2 (qf_good st y Hst Hy')).
      * destruct y as [[|c u] [|c' u']]; try discriminate. reflexivity.
    + unfold html_of. rewrite Hh. reflexivity.
Qed.

(* ---------- the top level of a shape: prefix and separator line are empty ---------- *)
Definition qmark (l : bytes) : bytes := match l with [] => [62] | _ => [62;32] ++ l end.
Lemma okl_nonl l : okl l = true -> nonl l = true.
Proof. unfold okl. intros H. apply andb_true_iff in H. apply H. Qed.
Lemma qmark_okl L : forallb okl L = true -> map qmark L = map (app [62;32]) L.
Proof.
  intros H. apply map_ext_in. intros l Hl. pose proof (proj1 (forallb_forall _ _) H l Hl) as Hk.
  unfold okl in Hk. apply andb_true_iff in Hk. destruct Hk as [_ Hk]. destruct l; [discriminate|reflexivity].
Qed.
Lemma top_lines bs : qbs_ok bs = true ->
  qbs_lines [] [] bs <> [] /\ forallb nonl (qbs_lines [] [] bs) = true /\
  qbs_src [] [] bs = join nl (qbs_lines [] [] bs) /\
  map qmark (qbs_lines [] [] bs) = qbs_lines [62;32] [62] bs.
Proof.
  assert (Hb : forall b, qb_ok b = true ->
            qb_lines [] b <> [] /\ forallb nonl (qb_lines [] b) = true /\
            qb_src [] b = join nl (qb_lines [] b) /\ map qmark (qb_lines [] b) = qb_lines [62;32] b).
  { intros b Hok. destruct (proj1 qb_lines_ok b Hok [] eq_refl) as [Hne Hall].
    split; [exact Hne|]. split; [|split].
    - apply forallb_forall. intros l Hl. apply okl_nonl. exact (proj1 (forallb_forall _ _) Hall l Hl).
    - exact (proj1 qb_src_lines b Hok [] eq_refl).
    - rewrite (qmark_okl _ Hall). symmetry. apply qb_lines_pfx0. }
  induction bs as [b|b r IH]; intros Hok; cbn [qbs_ok] in Hok.
  - cbn [qbs_lines qbs_src]. exact (Hb b Hok).
  - apply andb_true_iff in Hok. destruct Hok as [Hok Hr].
    destruct (Hb b Hok) as (Hne & Hnl & Hsrc & Hq). destruct (IH Hr) as (Hne2 & Hnl2 & Hsrc2 & Hq2).
    cbn [qbs_lines qbs_src]. split; [|split; [|split]].
    + intros E. apply app_eq_nil in E. destruct E as [E _]. exact (Hne E).
    + rewrite !forallb_app, Hnl, Hnl2. reflexivity.
    + rewrite join_app_ne; [|exact Hne|discriminate].
      rewrite join_app_ne; [|discriminate|exact Hne2].
      rewrite Hsrc, Hsrc2. reflexivity.
    + rewrite !map_app, Hq, Hq2. reflexivity.
Qed.
Lemma split_join_all L : L <> [] -> forallb nonl L = true -> split_lines (join nl L) [] = L.
Proof.
  destruct L as [|x r]; [contradiction|]. intros _ H. cbn [forallb] in H. apply andb_true_iff in H.
  destruct H as [Hx Hr]. rewrite (split_join r x [] Hx Hr). reflexivity.
Qed.

(* ---------- documents ---------- *)
Lemma qdoc_spec fuel d : qdoc_s fuel d = true ->
  qbs_ok (to_qbs (tr fuel) d) = true /\
  html_of d = qbs_html (to_qbs (tr fuel) d) /\
  flat_map block_defs d = [] /\
  map (line_md false) (doc_lines d) = qbs_lines [] [] (to_qbs (tr fuel) d).
Proof.
  intros H. unfold qdoc_s in H. apply andb_true_iff in H. destruct H as [Hne Hall].
  assert (Hne' : d <> []) by (destruct d; [discriminate|discriminate]).
  destruct (blocks_spec (tr fuel) d Hne') as (Hok & Hl & _ & Hh & Hd).
  { intros b Hb. apply qblock_spec. exact (proj1 (forallb_forall _ _) Hall b Hb). }
  split; [exact Hok|]. split; [exact Hh|]. split; [exact Hd|].
  rewrite doc_lines_blocks. rewrite <- (Hl (fun l => l) [] []); [|reflexivity|reflexivity].
  rewrite map_id. reflexivity.
Qed.
Lemma qdoc_md fuel d fin : qdoc_s fuel d = true -> md_of false fin d = qdoc_src (to_qbs (tr fuel) d) fin.
Proof.
  intros H. destruct (qdoc_spec fuel d H) as (Hok & _ & Hd & HL).
  destruct (top_lines _ Hok) as (_ & _ & Hsrc & _).
  unfold md_of, qdoc_src. rewrite Hd, app_nil_r, HL, Hsrc. reflexivity.
Qed.

Theorem qdoc_shape : forall fuel d, qdoc_s fuel d = true ->
  exists q, qbs_ok q = true /\ (forall fin, md_of false fin d = qdoc_src q fin) /\ html_of d = qbs_html q.
Proof.
  intros fuel d H. destruct (qdoc_spec fuel d H) as (Hok & Hh & _ & _).
  exists (to_qbs (tr fuel) d). split; [exact Hok|]. split; [|exact Hh].
  intros fin. exact (qdoc_md fuel d fin H).
Qed.

Theorem quote_lines_shape : forall fuel d, qdoc_s fuel d = true ->
  exists q, qbs_ok q = true /\ md_of false false d = qdoc_src q false /\ html_of d = qbs_html q /\
            quote_lines_s (md_of false false d) = qdoc_src (QOne (QQ true q)) false.
Proof.
  intros fuel d H. destruct (qdoc_spec fuel d H) as (Hok & Hh & _ & _).
  exists (to_qbs (tr fuel) d). split; [exact Hok|]. split; [exact (qdoc_md fuel d false H)|]. split; [exact Hh|].
  rewrite (qdoc_md fuel d false H).
  destruct (top_lines _ Hok) as (Hne & Hnl & Hsrc & Hq).
  unfold quote_lines_s, qdoc_src. rewrite !app_nil_r. rewrite Hsrc, (split_join_all _ Hne Hnl).
  change (map _ (qbs_lines [] [] (to_qbs (tr fuel) d))) with (map qmark (qbs_lines [] [] (to_qbs (tr fuel) d))).
  rewrite Hq. cbn [qbs_src qb_src]. symmetry.
  apply (proj2 qb_src_lines _ Hok); reflexivity.
Qed.
