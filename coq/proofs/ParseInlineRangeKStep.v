(* Helper file for ParseInlineRange.v (public inline kinds): the steps of the inline phase as far as
   the key nodes (delimiters, link label states) and the block node are concerned.  gstep h h' holds
   for every operation that does not attach a fresh key node: classes are kept, new nodes are plain,
   the block node stays without parent, no detached key node is attached, the key children of the
   block node stay in increasing order. *)
Require Import GM.model.Base GM.model.Util GM.model.Reader GM.model.HtmlSpec GM.model.BlockParse GM.model.InlineParse.
Require Import GM.proofs.ParseInlineRangeHeap GM.proofs.ParseInlineRangeKList.
From Coq Require Import ZArith Lia List Bool.
Import ListNotations.
Open Scope Z_scope.

Definition plain (k : ikind) : Prop := cls k <> 0%nat /\ cls k <> 8%nat /\ cls k <> 9%nat.
Definition nkey (h : iheap) (x : nat) : Prop := kcls h x <> 0%nat /\ kcls h x <> 8%nat /\ kcls h x <> 9%nat.

Lemma nkey_iskey h x : nkey h x -> iskey h x = false.
Proof.
  intros (_ & H8 & H9). unfold iskey, isdel, islab. apply orb_false_iff.
  split; apply Nat.eqb_neq; assumption.
Qed.

Lemma kcls_none h x : (length h <= x)%nat -> kcls h x = 99%nat.
Proof. intros H. unfold kcls. rewrite kd_none by exact H. reflexivity. Qed.

Lemma nkey_invalid h x : (length h <= x)%nat -> nkey h x.
Proof. intros H. unfold nkey. rewrite kcls_none by exact H. lia. Qed.

Record gstep (h h' : iheap) : Prop := {
  g_kle : kle h h';
  g_new : forall x, (length h <= x)%nat -> nkey h' x;
  g_root : pr h 0%nat = None -> pr h' 0%nat = None;
  g_att : forall x, iskey h' x = true -> pr h' x <> None -> pr h x <> None;
  g_incr : incr (K h) -> incr (K h');
  g_lab : forall x, islab h x = true -> kd h' x = kd h x
}.

Lemma islab_valid h x : islab h x = true -> (x < length h)%nat.
Proof.
  unfold islab, kcls. destruct (kd h x) as [k|] eqn:E; [intros _; eapply kd_valid; exact E|cbn; discriminate].
Qed.

Lemma islab_dlk h x : islab h x = true -> dlk h x = None.
Proof.
  unfold islab, kcls, dlk. destruct (kd h x) as [k|]; [|reflexivity]. destruct k; cbn; try reflexivity. discriminate.
Qed.

Lemma gstep_refl h : gstep h h.
Proof.
  constructor; auto.
  - apply kle_refl.
  - intros x Hx. apply nkey_invalid. exact Hx.
Qed.

Lemma gstep_trans a b c : gstep a b -> gstep b c -> gstep a c.
Proof.
  intros [A1 A2 A3 A4 A5 A6] [B1 B2 B3 B4 B5 B6]. constructor; auto.
  - eapply kle_trans; eassumption.
  - intros x Hx. destruct (Nat.lt_ge_cases x (length b)) as [Hlt|Hge].
    + unfold nkey. rewrite (kle_kcls b c x B1 Hlt). apply A2. exact Hx.
    + apply B2. exact Hge.
  - intros x Hk Hp. destruct (Nat.lt_ge_cases x (length b)) as [Hlt|Hge].
    + assert (Hkb : iskey b x = true).
      { unfold iskey, isdel, islab in *. rewrite (kle_kcls b c x B1 Hlt) in Hk. exact Hk. }
      apply A4; [exact Hkb|]. apply B4; assumption.
    + rewrite (nkey_iskey c x (B2 x Hge)) in Hk. discriminate.
  - intros x Hx. rewrite B6; [apply A6; exact Hx|]. unfold islab in *. rewrite (kle_kcls a b x A1 (islab_valid a x Hx)). exact Hx.
Qed.

(* ---------- elementary steps ---------- *)
Lemma gstep_same_tree h h' : kle h h' -> length h' = length h ->
  (forall j, pr h' j = pr h j) -> (forall j, ch h' j = ch h j) -> tree_ok h ->
  (forall x, islab h x = true -> kd h' x = kd h x) ->
  gstep h h' /\ K h' = K h /\ dch h' = dch h.
Proof.
  intros Hk Hl P C Ht Hlab.
  destruct (K_same h h' Ht Hk (C 0%nat)) as [EK ED].
  split; [|split; assumption]. constructor.
  - exact Hk.
  - intros x Hx. apply nkey_invalid. lia.
  - rewrite P. auto.
  - intros x _. rewrite P. auto.
  - rewrite EK. auto.
  - exact Hlab.
Qed.

Lemma gstep_kind h h' i k k' : kind_step h h' i k' -> kd h i = Some k -> cls k' = cls k -> cls k <> 9%nat -> tree_ok h ->
  gstep h h' /\ K h' = K h /\ dch h' = dch h.
Proof.
  intros (L & Kd & P & C) Hi Hc H9 Ht. apply gstep_same_tree; try assumption.
  - intros j kj Hj. rewrite Kd. destruct (Nat.eqb_spec j i) as [->|Hne].
    + exists k'. split; [reflexivity|]. congruence.
    + exists kj. auto.
  - intros x Hx. rewrite Kd. destruct (Nat.eqb_spec x i) as [->|]; [|reflexivity].
    exfalso. unfold islab, kcls in Hx. rewrite Hi in Hx. apply Nat.eqb_eq in Hx. contradiction.
Qed.

Lemma gstep_new c k c' x : new_inode c k = (c', x) -> plain k -> tree_ok (i_h c) ->
  gstep (i_h c) (i_h c') /\ K (i_h c') = K (i_h c) /\ dch (i_h c') = dch (i_h c) /\ tree_ok (i_h c') /\
  kd (i_h c') x = Some k /\ pr (i_h c') x = None /\ (forall j, ~ In x (ch (i_h c') j)) /\ x = length (i_h c) /\
  (forall j, ch (i_h c') j = ch (i_h c) j) /\ (forall j, pr (i_h c') j = pr (i_h c) j) /\
  (forall j, j <> x -> kd (i_h c') j = kd (i_h c) j).
Proof.
  intros H Hp Ht. destruct (new_inode_view c k c' x H) as (Hx & L & _ & _ & _ & _ & Kd & P & C).
  assert (Hk : kle (i_h c) (i_h c')).
  { intros j kj Hj. rewrite Kd. destruct (Nat.eqb_spec j x) as [->|Hne]; [|exists kj; auto].
    apply kd_valid in Hj. lia. }
  assert (Ht' : tree_ok (i_h c')) by (eapply tree_ok_same; eassumption).
  destruct (K_same _ _ Ht Hk (C 0%nat)) as [EK ED].
  assert (Hnot : forall j, ~ In x (ch (i_h c') j)).
  { intros j. rewrite C. intros Hin. apply (t_child _ Ht) in Hin. apply pr_valid in Hin. lia. }
  split; [|split; [exact EK|split; [exact ED|split; [exact Ht'|split; [rewrite Kd, Nat.eqb_refl; reflexivity|
           split; [|split; [exact Hnot|split; [exact Hx|split; [exact C|split; [exact P|]]]]]]]]]].
  - constructor.
    + exact Hk.
    + intros y Hy. destruct (Nat.eq_dec y x) as [->|Hne].
      * unfold nkey, kcls. rewrite Kd, Nat.eqb_refl. exact Hp.
      * apply nkey_invalid. lia.
    + rewrite P. auto.
    + intros y _. rewrite P. auto.
    + rewrite EK. auto.
    + intros y Hy. rewrite Kd. destruct (Nat.eqb_spec y x) as [->|]; [|reflexivity]. apply islab_valid in Hy. lia.
  - rewrite P. unfold pr. rewrite (proj2 (nth_error_None _ _)) by lia. reflexivity.
  - intros j Hj. rewrite Kd. destruct (Nat.eqb_spec j x); [contradiction|reflexivity].
Qed.

Lemma same_nodes_kle h h' : same_nodes h h' -> kle h h'.
Proof. intros [_ Kd]. apply kle_same. exact Kd. Qed.

(* attaching a node that is not a key node, or a key node that has a parent and goes below another node *)
Lemma gstep_attach h h' p c : attach_ord h h' p c -> tree_ok h -> c <> 0%nat ->
  (iskey h c = true -> pr h c <> None /\ p <> 0%nat) ->
  gstep h h' /\ (iskey h c = false -> K h' = K h /\ dch h' = dch h) /\
  (p <> 0%nat -> rch h' = remove_id c (rch h)).
Proof.
  intros [T S Vp Vc C I P] Ht Hc0 Hkey. pose proof (same_nodes_kle _ _ S) as Hk.
  assert (Hcls : forall x, kcls h' x = kcls h x) by (intros x; apply same_kcls; apply (sn_kd _ _ S)).
  assert (Hrem : p <> 0%nat -> rch h' = remove_id c (rch h)).
  { intros Hp. unfold rch. rewrite <- C. symmetry. apply remove_id_notin. apply notin_other_parent; [exact T|].
    rewrite P, Nat.eqb_refl. congruence. }
  assert (HK : incr (K h) -> incr (K h')).
  { destruct (iskey h c) eqn:Ec.
    - destruct (Hkey eq_refl) as [_ Hp0]. destruct (K_remove h h' c Ht Hk (Hrem Hp0)) as [-> _]. apply incr_remove.
    - assert (Ec' : iskey h' c = false) by (unfold iskey, isdel, islab in *; rewrite Hcls; exact Ec).
      destruct (K_remove_nonkey h h' c Ht Hk Ec' (C 0%nat)) as [-> _]. auto. }
  split; [|split; [|exact Hrem]].
  - constructor.
    + exact Hk.
    + intros x Hx. apply nkey_invalid. rewrite (sn_len _ _ S). exact Hx.
    + rewrite P. destruct (Nat.eqb_spec 0 c); [congruence|auto].
    + intros x Hx. rewrite P. destruct (Nat.eqb_spec x c) as [->|]; [|auto].
      intros _. assert (Hkc : iskey h c = true) by (unfold iskey, isdel, islab in *; rewrite <- Hcls; exact Hx).
      exact (proj1 (Hkey Hkc)).
    + exact HK.
    + intros x _. apply (sn_kd _ _ S).
  - intros Ec. assert (Ec' : iskey h' c = false) by (unfold iskey, isdel, islab in *; rewrite Hcls; exact Ec).
    exact (K_remove_nonkey h h' c Ht Hk Ec' (C 0%nat)).
Qed.

Lemma gstep_detach h c h' : i_detach h c = Ok h' -> tree_ok h ->
  gstep h h' /\ tree_ok h' /\ same_nodes h h' /\ K h' = remove_id c (K h) /\ dch h' = remove_id c (dch h) /\
  (forall j, ch h' j = remove_id c (ch h j)) /\ (forall j, pr h' j = if Nat.eqb j c then None else pr h j).
Proof.
  intros H Ht. destruct (detach_ch h c h' H Ht) as (Ht' & S & C & P).
  pose proof (same_nodes_kle _ _ S) as Hk.
  destruct (K_remove h h' c Ht Hk (C 0%nat)) as [EK ED].
  split; [|split; [exact Ht'|split; [exact S|split; [exact EK|split; [exact ED|split; [exact C|exact P]]]]]]. constructor.
  - exact Hk.
  - intros x Hx. apply nkey_invalid. rewrite (sn_len _ _ S). exact Hx.
  - rewrite P. destruct (Nat.eqb 0 c); auto.
  - intros x _. rewrite P. destruct (Nat.eqb x c); [congruence|auto].
  - rewrite EK. apply incr_remove.
  - intros x _. apply (sn_kd _ _ S).
Qed.

Lemma gstep_remove h p c h' : i_remove h p c = Ok h' -> tree_ok h -> pr h c = Some p ->
  gstep h h' /\ tree_ok h' /\ same_nodes h h' /\ K h' = remove_id c (K h) /\ dch h' = remove_id c (dch h) /\
  (forall j, ch h' j = remove_id c (ch h j)) /\ (forall j, pr h' j = if Nat.eqb j c then None else pr h j).
Proof.
  unfold i_remove. intros H Ht Hp. destruct (iget h c) as [n| |] eqn:E; cbn [bind] in H; try discriminate.
  apply iget_kd in E. destruct E as (_ & Ep & _). rewrite <- Ep, Hp in H. cbn [opt_nat_eqb] in H. rewrite Nat.eqb_refl in H.
  apply gstep_detach; assumption.
Qed.

(* ReplaceChild of a child by a node that has no parent: the new node takes the place *)
Lemma replace_pos h p old new h' X Y : i_replace h p old new = Ok h' -> tree_ok h ->
  pr h old = Some p -> pr h new = None -> ch h p = X ++ old :: Y ->
  tree_ok h' /\ same_nodes h h' /\ ch h' p = X ++ new :: Y /\ (forall j, j <> p -> ch h' j = ch h j) /\
  (forall j, pr h' j = if Nat.eqb j old then None else if Nat.eqb j new then Some p else pr h j).
Proof.
  unfold i_replace. intros H Ht Ho Hn Hc.
  assert (Hne : old <> new) by congruence.
  destruct (i_insert_before h p old new) as [h1| |] eqn:E1; cbn [bind] in H; try discriminate.
  destruct (insert_before_ch h p old new h1 E1 Ht Ho) as (Ht1 & S1 & Vp & Vn & C1 & P1).
  assert (Hnn : forall j, ~ In new (ch h j)).
  { intros j Hin. apply (t_child h Ht) in Hin. congruence. }
  assert (HoX : ~ In old X).
  { pose proof (t_nodup h Ht p) as ND. rewrite Hc in ND. apply NoDup_remove_2 in ND. rewrite in_app_iff in ND. tauto. }
  assert (C1p : ch h1 p = X ++ new :: old :: Y).
  { rewrite C1, Nat.eqb_refl, (remove_id_notin new _ (Hnn p)), Hc. apply insert_before_mid. exact HoX. }
  assert (C1j : forall j, j <> p -> ch h1 j = ch h j).
  { intros j Hj. rewrite C1. destruct (Nat.eqb_spec j p); [contradiction|]. apply remove_id_notin. apply Hnn. }
  assert (Po : pr h1 old = Some p). { rewrite P1. destruct (Nat.eqb_spec old new); [contradiction|exact Ho]. }
  destruct (gstep_remove h1 p old h' H Ht1 Po) as (_ & Ht' & S2 & _ & _ & C2 & P2).
  split; [exact Ht'|]. split; [|split; [|split]].
  - destruct S1 as [L1 K1]. destruct S2 as [L2 K2]. constructor; [congruence|]. intros j. rewrite K2. apply K1.
  - rewrite C2, C1p. replace (X ++ new :: old :: Y) with ((X ++ [new]) ++ old :: Y) by (rewrite <- app_assoc; reflexivity).
    rewrite remove_id_mid; [rewrite <- app_assoc; reflexivity|]. rewrite in_app_iff. cbn. intros [Hx|[Hx|[]]]; [contradiction|congruence].
  - intros j Hj. rewrite C2, (C1j j Hj). apply remove_id_notin. apply notin_other_parent; [exact Ht|]. congruence.
  - intros j. rewrite P2, P1. reflexivity.
Qed.

Lemma filter_all_false (P : nat -> bool) T : (forall t, In t T -> P t = false) -> filter P T = [].
Proof.
  induction T as [|t T IH]; cbn; intros HP; [reflexivity|]. rewrite (HP t) by auto. apply IH. intros u Hu. apply HP. auto.
Qed.

(* the root list when the children of one node change at one place *)
Lemma K_splice h h' n X T Y : tree_ok h -> kle h h' -> rch h = X ++ n :: Y -> rch h' = X ++ T ++ Y ->
  (forall t, In t T -> iskey h' t = false) ->
  K h' = remove_id n (K h) /\ dch h' = remove_id n (dch h).
Proof.
  intros Ht Hk Hr Hr' HT.
  assert (HnX : ~ In n X).
  { pose proof (t_nodup h Ht 0%nat) as ND. fold (rch h) in ND. rewrite Hr in ND. apply NoDup_remove_2 in ND. rewrite in_app_iff in ND. tauto. }
  assert (Hv : forall x, In x (X ++ Y) -> (x < length h)%nat).
  { intros x Hx. apply (rch_valid h x Ht). rewrite Hr. rewrite in_app_iff in *. cbn. tauto. }
  unfold K, dch. rewrite Hr', Hr, <- !filter_remove_id, (remove_id_mid n X Y HnX), !filter_app. split.
  - rewrite (filter_all_false (iskey h') T HT). cbn. rewrite <- !filter_app. apply filter_ext_in. intros x Hx.
    unfold iskey, isdel, islab. rewrite (kle_kcls h h' x Hk (Hv x Hx)). reflexivity.
  - rewrite (filter_all_false (isdel h') T). 2:{ intros t Hin. apply HT in Hin. unfold iskey in Hin. apply orb_false_iff in Hin. tauto. }
    cbn. rewrite <- !filter_app. apply filter_ext_in. intros x Hx.
    unfold isdel. rewrite (kle_kcls h h' x Hk (Hv x Hx)). reflexivity.
Qed.

(* ---------- changes of kinds within their class ---------- *)
Lemma kind_step_kle h h' i k k' : kind_step h h' i k' -> kd h i = Some k -> cls k' = cls k -> kle h h'.
Proof.
  intros (_ & Kd & _ & _) Hi Hc j kj Hj. rewrite Kd. destruct (Nat.eqb_spec j i) as [->|Hne].
  - exists k'. split; [reflexivity|]. congruence.
  - exists kj. auto.
Qed.

Lemma lonly_kle h h' : lonly h h' -> kle h h'.
Proof.
  intros (L & _ & _ & _ & Kn & Dn) j k Hj. destruct (dlk h j) as [pn|] eqn:Ed.
  - assert (Hd' : dlk h' j <> None) by (rewrite Dn; congruence).
    unfold dlk in Ed, Hd'. rewrite Hj in Ed. destruct (kd h' j) as [k'|]; [|congruence]. exists k'. split; [reflexivity|].
    destruct k; try discriminate. destruct k'; try congruence. reflexivity.
  - exists k. rewrite (Kn j Ed). auto.
Qed.

Lemma lonly_gstep h h' : lonly h h' -> tree_ok h -> gstep h h' /\ K h' = K h /\ dch h' = dch h /\ tree_ok h'.
Proof.
  intros Hl Ht. pose proof (lonly_kle _ _ Hl) as Hk. destruct Hl as (L & P & C & _ & Kn & _).
  destruct (gstep_same_tree h h' Hk L P C Ht) as (G & EK & ED).
  { intros x Hx. apply Kn. apply islab_dlk. exact Hx. }
  split; [exact G|]. split; [exact EK|]. split; [exact ED|]. eapply tree_ok_same; eassumption.
Qed.

Lemma kind_gstep h h' i k k' : kind_step h h' i k' -> kd h i = Some k -> cls k' = cls k -> cls k <> 9%nat -> tree_ok h ->
  gstep h h' /\ K h' = K h /\ dch h' = dch h /\ tree_ok h'.
Proof.
  intros Hs Hi Hc H9 Ht. destruct (gstep_kind h h' i k k' Hs Hi Hc H9 Ht) as (G & EK & ED).
  split; [exact G|]. split; [exact EK|]. split; [exact ED|]. destruct Hs as (_ & _ & P & C). eapply tree_ok_same; eassumption.
Qed.

Lemma iupd_kind_step h i k h' : iupd h i (fun m => iset_kind m k) = Ok h' -> kind_step h h' i k.
Proof. intros H. apply iupd_kind in H. destruct H as (_ & L & Kd & P & C). repeat split; assumption. Qed.

(* ---------- the text-merging helpers ---------- *)
Lemma plain_text s a b r : plain (IText s a b r).
Proof. unfold plain. cbn. lia. Qed.

Lemma nkey_kd h x k : kd h x = Some k -> plain k -> nkey h x.
Proof. intros E P. unfold nkey, kcls. rewrite E. exact P. Qed.

Lemma fresh_append_g c k parent c1 t h2 : tree_ok (i_h c) -> plain k -> (0 < length (i_h c))%nat ->
  new_inode c k = (c1, t) -> i_append (i_h c1) parent t = Ok h2 ->
  gstep (i_h c) h2 /\ K h2 = K (i_h c) /\ dch h2 = dch (i_h c) /\ tree_ok h2 /\
  (forall j, ch h2 j = if Nat.eqb j parent then ch (i_h c) j ++ [t] else ch (i_h c) j) /\
  (forall j, pr h2 j = if Nat.eqb j t then Some parent else pr (i_h c) j) /\
  (forall j, kd h2 j = if Nat.eqb j t then Some k else kd (i_h c) j) /\ t = length (i_h c).
Proof.
  intros Ht Hp H0 Hn Ha.
  destruct (gstep_new c k c1 t Hn Hp Ht) as (G1 & EK1 & ED1 & Ht1 & Kt & Pt & Nt & Hx & C1 & P1 & Kd1).
  destruct (append_ch _ _ _ _ Ha Ht1) as (Ht2 & S2 & _ & _ & C2 & P2).
  pose proof (append_ord _ _ _ _ Ha Ht1) as Ho.
  assert (Hkt : iskey (i_h c1) t = false) by (apply nkey_iskey; eapply nkey_kd; eassumption).
  destruct (gstep_attach _ _ _ _ Ho Ht1) as (G2 & EK2 & _); [lia|rewrite Hkt; discriminate|].
  destruct (EK2 Hkt) as [EK2' ED2'].
  split; [eapply gstep_trans; eassumption|]. split; [congruence|]. split; [congruence|]. split; [exact Ht2|].
  split; [|split; [|split; [|exact Hx]]].
  - intros j. rewrite C2, C1, (remove_id_notin t). 2:{ rewrite <- C1. apply Nt. } reflexivity.
  - intros j. rewrite P2, P1. reflexivity.
  - intros j. rewrite (sn_kd _ _ S2). destruct (Nat.eqb_spec j t) as [->|Hne]; [exact Kt|apply Kd1; exact Hne].
Qed.

Lemma merge_or_append_g c parent s c' : merge_or_append c parent s = Ok c' -> tree_ok (i_h c) ->
  gstep (i_h c) (i_h c') /\ K (i_h c') = K (i_h c) /\ dch (i_h c') = dch (i_h c) /\ tree_ok (i_h c') /\
  i_dfirst c' = i_dfirst c /\ i_dlast c' = i_dlast c /\ i_labels c' = i_labels c /\ i_bottoms c' = i_bottoms c.
Proof.
  unfold merge_or_append. intros H Ht.
  destruct (iget (i_h c) parent) as [pn| |] eqn:Ep; cbn [bind] in H; try discriminate.
  assert (H0 : (0 < length (i_h c))%nat). { apply iget_ok in Ep. assert (nth_error (i_h c) parent <> None) by congruence. apply nth_error_Some in H0. lia. }
  destruct (new_inode c (mk_text s)) as [c1 t] eqn:En.
  assert (Hfresh : forall r, (h <- i_append (i_h c1) parent t;; Ok (cx_h c1 h)) = Ok r ->
            gstep (i_h c) (i_h r) /\ K (i_h r) = K (i_h c) /\ dch (i_h r) = dch (i_h c) /\ tree_ok (i_h r) /\
            i_dfirst r = i_dfirst c /\ i_dlast r = i_dlast c /\ i_labels r = i_labels c /\ i_bottoms r = i_bottoms c).
  { intros r Hr. destruct (i_append (i_h c1) parent t) as [h| |] eqn:Ea; cbn [bind] in Hr; try discriminate.
    inversion Hr; subst r. cbn [i_h cx_h i_dfirst i_dlast i_labels i_bottoms].
    destruct (fresh_append_g c _ parent c1 t h Ht (plain_text _ _ _ _) H0 En Ea) as (G & EK & ED & Ht2 & _).
    destruct (new_inode_view c _ c1 t En) as (_ & _ & F1 & F2 & F3 & F4 & _).
    repeat (split; [assumption|]). assumption. }
  destruct (last_id (ich pn)) as [l|]; [|apply Hfresh; exact H].
  destruct (iget (i_h c) l) as [ln| |] eqn:El; cbn [bind] in H; try discriminate.
  apply iget_kd in El. destruct El as (Ekl & _).
  destruct (ik ln) as [|ts soft hard raw| | | | | | | |]; try (apply Hfresh; exact H).
  destruct ((s_stop ts =? s_start s) && negb soft); [|apply Hfresh; exact H].
  destruct (iupd (i_h c) l _) as [h| |] eqn:Eu; cbn [bind] in H; try discriminate.
  inversion H; subst c'. cbn [i_h cx_h i_dfirst i_dlast i_labels i_bottoms].
  destruct (kind_gstep _ _ _ _ _ (iupd_kind_step _ _ _ _ Eu) Ekl eq_refl ltac:(cbn; lia) Ht) as (G & EK & ED & Ht2).
  repeat (split; [assumption|]). repeat split.
Qed.

Lemma gstep_replace h p old new h' X Y : i_replace h p old new = Ok h' -> tree_ok h ->
  pr h old = Some p -> pr h new = None -> new <> 0%nat -> iskey h new = false -> ch h p = X ++ old :: Y ->
  gstep h h' /\ tree_ok h' /\ same_nodes h h' /\ ch h' p = X ++ new :: Y /\ (forall j, j <> p -> ch h' j = ch h j) /\
  (forall j, pr h' j = if Nat.eqb j old then None else if Nat.eqb j new then Some p else pr h j).
Proof.
  intros H Ht Ho Hn Hn0 Hk Hc.
  destruct (replace_pos h p old new h' X Y H Ht Ho Hn Hc) as (Ht' & S & Cp & Cj & P).
  split; [|repeat (split; [assumption|]); assumption].
  unfold i_replace in H. destruct (i_insert_before h p old new) as [h1| |] eqn:E1; cbn [bind] in H; try discriminate.
  pose proof (insert_before_ord _ _ _ _ _ E1 Ht) as Ho1.
  destruct (gstep_attach _ _ _ _ Ho1 Ht Hn0) as (G1 & _); [rewrite Hk; discriminate|].
  assert (Po : pr h1 old = Some p).
  { rewrite (ao_pr _ _ _ _ Ho1). destruct (Nat.eqb_spec old new) as [->|]; [congruence|exact Ho]. }
  destruct (gstep_remove h1 p old h' H (ao_tree _ _ _ _ Ho1) Po) as (G2 & _).
  eapply gstep_trans; eassumption.
Qed.

(* MergeOrReplaceTextSegment(parent, n, s) for a child n of parent: n leaves its place, at most a
   fresh text node takes it *)
Lemma merge_or_replace_g c par n s c' : merge_or_replace c par n s = Ok c' -> tree_ok (i_h c) -> pr (i_h c) n = Some par ->
  gstep (i_h c) (i_h c') /\ tree_ok (i_h c') /\ pr (i_h c') n = None /\
  (forall j, j <> par -> ch (i_h c') j = ch (i_h c) j) /\
  (forall X Y, ch (i_h c) par = X ++ n :: Y -> exists T, ch (i_h c') par = X ++ T ++ Y /\ forall t, In t T -> nkey (i_h c') t) /\
  (forall x, x <> n -> (x < length (i_h c))%nat -> pr (i_h c') x = pr (i_h c) x) /\
  i_dfirst c' = i_dfirst c /\ i_dlast c' = i_dlast c /\ i_labels c' = i_labels c /\ i_bottoms c' = i_bottoms c.
Proof.
  unfold merge_or_replace. intros H Ht Hpn.
  destruct (i_prev (i_h c) n) as [pv| |] eqn:Ep; cbn [bind] in H; try discriminate.
  assert (H0 : (0 < length (i_h c))%nat) by (apply pr_valid in Hpn; lia).
  pose proof (t_par _ Ht n par Hpn) as Hin. destruct (in_split n _ Hin) as (X0 & Y0 & Hsp).
  destruct (new_inode c (mk_text s)) as [c1 t] eqn:En.
  assert (Hrepl : forall r, (h <- i_replace (i_h c1) par n t;; Ok (cx_h c1 h)) = Ok r ->
    gstep (i_h c) (i_h r) /\ tree_ok (i_h r) /\ pr (i_h r) n = None /\
    (forall j, j <> par -> ch (i_h r) j = ch (i_h c) j) /\
    (forall X Y, ch (i_h c) par = X ++ n :: Y -> exists T, ch (i_h r) par = X ++ T ++ Y /\ forall t, In t T -> nkey (i_h r) t) /\
    (forall x, x <> n -> (x < length (i_h c))%nat -> pr (i_h r) x = pr (i_h c) x) /\
    i_dfirst r = i_dfirst c /\ i_dlast r = i_dlast c /\ i_labels r = i_labels c /\ i_bottoms r = i_bottoms c).
  { intros r Hr. destruct (i_replace (i_h c1) par n t) as [h| |] eqn:Ea; cbn [bind] in Hr; try discriminate.
    inversion Hr; subst r. clear Hr. cbn [i_h cx_h i_dfirst i_dlast i_labels i_bottoms].
    destruct (gstep_new c _ c1 t En (plain_text _ _ _ _) Ht) as (G1 & _ & _ & Ht1 & Kt & Pt & Nt & Hx & C1 & P1 & Kd1).
    destruct (new_inode_view c _ c1 t En) as (_ & _ & F1 & F2 & F3 & F4 & _).
    assert (Hkt : iskey (i_h c1) t = false) by (apply nkey_iskey; eapply nkey_kd; [exact Kt|apply plain_text]).
    assert (Hc1 : ch (i_h c1) par = X0 ++ n :: Y0) by (rewrite C1; exact Hsp).
    destruct (gstep_replace _ _ _ _ _ X0 Y0 Ea Ht1) as (G2 & Ht2 & S2 & Cp & Cj & P2); try assumption; try lia.
    { rewrite P1. exact Hpn. }
    split; [eapply gstep_trans; eassumption|]. split; [exact Ht2|]. split; [rewrite P2, Nat.eqb_refl; reflexivity|].
    split; [intros j Hj; rewrite (Cj j Hj); apply C1|]. split; [|split; [|repeat split; assumption]].
    - intros X Y Hxy. rewrite Hsp in Hxy. pose proof (t_nodup _ Ht par) as ND. rewrite Hsp in ND.
      destruct (nodup_split_eq n X0 Y0 X Y ND Hxy) as [-> ->].
      exists [t]. split; [exact Cp|]. intros u [<-|[]]. eapply nkey_kd; [|apply plain_text]. rewrite (sn_kd _ _ S2). exact Kt.
    - intros x Hxn Hxl. rewrite P2, P1. destruct (Nat.eqb_spec x n); [contradiction|]. destruct (Nat.eqb_spec x t); [lia|reflexivity]. }
  destruct pv as [p|]; [|apply Hrepl; exact H].
  destruct (iget (i_h c) p) as [pn| |] eqn:El; cbn [bind] in H; try discriminate.
  apply iget_kd in El. destruct El as (Ekl & _).
  destruct (ik pn) as [|ts soft hard raw| | | | | | | |]; try (apply Hrepl; exact H).
  destruct ((s_stop ts =? s_start s) && negb soft); [|apply Hrepl; exact H].
  destruct (iupd (i_h c) p _) as [h| |] eqn:Eu; cbn [bind] in H; try discriminate.
  destruct (i_remove h par n) as [h2| |] eqn:Er; cbn [bind] in H; try discriminate.
  inversion H; subst c'. clear H. cbn [i_h cx_h i_dfirst i_dlast i_labels i_bottoms].
  pose proof (iupd_kind_step _ _ _ _ Eu) as Hs.
  destruct (kind_gstep _ _ _ _ _ Hs Ekl eq_refl ltac:(cbn; lia) Ht) as (G1 & _ & _ & Ht1).
  destruct Hs as (L1 & Kd1 & P1 & C1).
  destruct (gstep_remove h par n h2 Er Ht1) as (G2 & Ht2 & S2 & _ & _ & C2 & P2); [rewrite P1; exact Hpn|].
  split; [eapply gstep_trans; eassumption|]. split; [exact Ht2|]. split; [rewrite P2, Nat.eqb_refl; reflexivity|].
  split; [|split; [|split; [|repeat split]]].
  - intros j Hj. rewrite C2, C1. apply remove_id_notin. apply notin_other_parent; [exact Ht|]. congruence.
  - intros X Y Hxy. exists []. split; [|intros u []]. rewrite C2, C1, Hxy. cbn [app]. apply remove_id_mid.
    pose proof (t_nodup _ Ht par) as ND. rewrite Hxy in ND. apply NoDup_remove_2 in ND. rewrite in_app_iff in ND. tauto.
  - intros x Hxn _. rewrite P2, P1. destruct (Nat.eqb_spec x n); [contradiction|reflexivity].
Qed.

(* ---------- RemoveDelimiter ---------- *)
Lemma remove_delimiter_g E c A d B c' : remove_delimiter c d = Ok c' -> tree_ok (i_h c) -> dl_ok E c (A ++ d :: B) ->
  gstep (i_h c) (i_h c') /\ tree_ok (i_h c') /\ pr (i_h c') d = None /\
  (exists par, pr (i_h c) d = Some par /\
     (forall j, j <> par -> ch (i_h c') j = ch (i_h c) j) /\
     (forall X Y, ch (i_h c) par = X ++ d :: Y -> exists T, ch (i_h c') par = X ++ T ++ Y /\ forall t, In t T -> nkey (i_h c') t)) /\
  (forall x, x <> d -> (x < length (i_h c))%nat -> pr (i_h c') x = pr (i_h c) x) /\
  i_labels c' = i_labels c /\ i_bottoms c' = i_bottoms c.
Proof.
  rewrite remove_delimiter_eq. intros H Ht Hd.
  destruct (dget (i_h c) d) as [[[[[[[[sg co] cc] len] orig] chh] p] nx]| |] eqn:Eg; cbn [bind] in H; try discriminate.
  pose proof (dseg_mid _ _ _ _ _ _ (dl_chain _ _ _ Hd)) as Hdd.
  destruct (dget_dlk _ _ _ _ _ _ _ _ _ _ Eg) as [Hdd' _]. rewrite Hdd in Hdd'. inversion Hdd'; subst p nx. clear Hdd'.
  destruct (rd_links c d (lst_of None A) (nxt_of B None)) as [c3| |] eqn:E3; cbn [bind] in H; try discriminate.
  destruct (rd_links_ok [] E c A d B c3 E3 Hd) as ([Lo _] & Fl & Fb & _).
  destruct (lonly_gstep _ _ Lo Ht) as (G3 & _ & _ & Ht3).
  destruct Lo as (L3 & P3 & C3 & _).
  destruct (iget (i_h c3) d) as [nd| |] eqn:En; cbn [bind] in H; try discriminate.
  apply iget_kd in En. destruct En as (_ & Epd & _).
  destruct (ipar nd) as [par|] eqn:Epar; [|discriminate].
  destruct (negb (len =? 0)).
  - destruct (merge_or_replace_g c3 par d sg c' H Ht3 Epd) as (G4 & Ht4 & Pd & Cj & Cp & Po & _ & _ & F3 & F4).
    split; [eapply gstep_trans; eassumption|]. split; [exact Ht4|]. split; [exact Pd|]. split; [|split; [|split; congruence]].
    + exists par. split; [rewrite <- P3; exact Epd|]. split.
      * intros j Hj. rewrite (Cj j Hj). apply C3.
      * intros X Y Hxy. apply Cp. rewrite C3. exact Hxy.
    + intros x Hx Hl. rewrite Po; [apply P3|exact Hx|lia].
  - destruct (i_remove (i_h c3) par d) as [h4| |] eqn:Er; cbn [bind] in H; try discriminate.
    inversion H; subst c'. clear H. cbn [i_h cx_h i_labels i_bottoms].
    destruct (gstep_remove _ _ _ _ Er Ht3 Epd) as (G4 & Ht4 & S4 & _ & _ & C4 & P4).
    split; [eapply gstep_trans; eassumption|]. split; [exact Ht4|]. split; [rewrite P4, Nat.eqb_refl; reflexivity|].
    split; [|split; [|split; assumption]].
    + exists par. split; [rewrite <- P3; exact Epd|]. split.
      * intros j Hj. rewrite C4, C3. apply remove_id_notin. apply notin_other_parent; [exact Ht|]. rewrite <- P3, Epd. congruence.
      * intros X Y Hxy. exists []. split; [|intros u []]. rewrite C4, C3, Hxy. cbn [app]. apply remove_id_mid.
        pose proof (t_nodup _ Ht par) as ND. rewrite Hxy in ND. apply NoDup_remove_2 in ND. rewrite in_app_iff in ND. tauto.
    + intros x Hx _. rewrite P4, P3. destruct (Nat.eqb_spec x d); [contradiction|reflexivity].
Qed.

(* the effect on the key children of the block node *)
Lemma splice_K h h' d par : tree_ok h -> gstep h h' -> pr h d = Some par ->
  (forall j, j <> par -> ch h' j = ch h j) ->
  (forall X Y, ch h par = X ++ d :: Y -> exists T, ch h' par = X ++ T ++ Y /\ forall t, In t T -> nkey h' t) ->
  K h' = remove_id d (K h) /\ dch h' = remove_id d (dch h).
Proof.
  intros Ht G Hp Cj Cp. destruct (Nat.eq_dec par 0) as [->|Hne].
  - pose proof (t_par _ Ht d 0%nat Hp) as Hin. destruct (in_split d _ Hin) as (X & Y & Hsp).
    destruct (Cp X Y Hsp) as (T & HT & HTn).
    eapply K_splice; [exact Ht|exact (g_kle _ _ G)|exact Hsp|exact HT|]. intros t Hin'. apply nkey_iskey. apply HTn. exact Hin'.
  - assert (Hr : rch h' = rch h) by (apply Cj; auto).
    destruct (K_same h h' Ht (g_kle _ _ G) Hr) as [-> ->].
    assert (Hnot : ~ In d (rch h)) by (apply notin_other_parent; [exact Ht|congruence]).
    split; symmetry; apply remove_id_notin; intros Hin; apply filter_In in Hin; tauto.
Qed.
