(* C20: components take effect by priority value alone. *)
Require Import GM.model.Base GM.model.Prio.
From Coq Require Import ZArith Lia Permutation Sorted.
Open Scope Z_scope.

Definition distinct_prios (l : list comp) : Prop := NoDup (map c_prio l).
Definition prio_le (a b : comp) : Prop := c_prio a <= c_prio b.

(* ---------- auxiliary lemmas: sorting ---------- *)

Lemma insert_comp_perm x l : Permutation (x :: l) (insert_comp x l).
Proof.
  induction l as [|y l IH]; cbn [insert_comp].
  - apply Permutation_refl.
  - destruct (Z.leb_spec (c_prio x) (c_prio y)) as [H|H].
    + apply Permutation_refl.
    + eapply perm_trans; [apply perm_swap|]. apply perm_skip. exact IH.
Qed.

Lemma insert_comp_sorted x l :
  StronglySorted prio_le l -> StronglySorted prio_le (insert_comp x l).
Proof.
  induction l as [|y l IH]; intros Hs; cbn [insert_comp].
  - constructor; constructor.
  - apply StronglySorted_inv in Hs. destruct Hs as [Hs Hall].
    destruct (Z.leb_spec (c_prio x) (c_prio y)) as [H|H].
    + constructor.
      * constructor; assumption.
      * constructor; [exact H|].
        eapply Forall_impl; [|exact Hall]. intros z Hz. unfold prio_le in *. lia.
    + constructor.
      * apply IH; exact Hs.
      * eapply Permutation_Forall; [apply insert_comp_perm|].
        constructor; [unfold prio_le; lia|exact Hall].
Qed.

Lemma sort_comps_perm l : Permutation l (sort_comps l).
Proof.
  induction l as [|x l IH]; cbn [sort_comps fold_right].
  - constructor.
  - eapply perm_trans; [apply perm_skip; exact IH|]. apply insert_comp_perm.
Qed.

Lemma sort_comps_sorted l : StronglySorted prio_le (sort_comps l).
Proof.
  induction l as [|x l IH]; cbn [sort_comps fold_right].
  - constructor.
  - apply insert_comp_sorted. exact IH.
Qed.

Lemma sort_comps_in p l : In p (sort_comps l) <-> In p l.
Proof.
  split; intros H.
  - eapply Permutation_in; [apply Permutation_sym, sort_comps_perm|exact H].
  - eapply Permutation_in; [apply sort_comps_perm|exact H].
Qed.

Lemma distinct_prios_perm l l' : Permutation l l' -> distinct_prios l -> distinct_prios l'.
Proof.
  intros Hp Hd. unfold distinct_prios in *.
  eapply Permutation_NoDup; [|exact Hd]. apply Permutation_map. exact Hp.
Qed.

(* Sort yields a sorted permutation ... *)
Theorem sort_comps_sorted_perm l : Permutation l (sort_comps l) /\ StronglySorted prio_le (sort_comps l).
Proof. split; [apply sort_comps_perm|apply sort_comps_sorted]. Qed.

(* ... and for pairwise distinct priorities the sorted permutation is unique: whatever
   algorithm sort.Slice uses, and whatever the registration order, the result is this list *)
Theorem sorted_unique l1 l2 : distinct_prios l1 -> Permutation l1 l2 ->
  StronglySorted prio_le l1 -> StronglySorted prio_le l2 -> l1 = l2.
Proof.
  revert l2. induction l1 as [|a l1 IH]; intros l2 Hd Hp Hs1 Hs2.
  - apply Permutation_nil in Hp. symmetry; exact Hp.
  - destruct l2 as [|b l2].
    + apply Permutation_sym, Permutation_nil in Hp. discriminate Hp.
    + apply StronglySorted_inv in Hs1. destruct Hs1 as [Hs1 Ha1].
      apply StronglySorted_inv in Hs2. destruct Hs2 as [Hs2 Ha2].
      unfold distinct_prios in Hd. cbn [map] in Hd.
      apply NoDup_cons_iff in Hd. destruct Hd as [Hnin Hd].
      assert (Hab : a = b).
      { assert (Hina : In a (b :: l2)).
        { eapply Permutation_in; [exact Hp|]. left; reflexivity. }
        assert (Hinb : In b (a :: l1)).
        { eapply Permutation_in; [apply Permutation_sym; exact Hp|]. left; reflexivity. }
        destruct Hina as [Hba|Hina]; [symmetry; exact Hba|].
        destruct Hinb as [Hab|Hinb]; [exact Hab|].
        exfalso.
        rewrite Forall_forall in Ha1, Ha2.
        pose proof (Ha1 b Hinb) as H1. pose proof (Ha2 a Hina) as H2.
        unfold prio_le in H1, H2.
        assert (Heq : c_prio a = c_prio b) by lia.
        apply Hnin. rewrite Heq. apply in_map. exact Hinb. }
      subst b. f_equal.
      apply IH.
      * exact Hd.
      * eapply Permutation_cons_inv. exact Hp.
      * exact Hs1.
      * exact Hs2.
Qed.

Theorem sort_perm_invariant l l' : distinct_prios l -> Permutation l l' -> sort_comps l = sort_comps l'.
Proof.
  intros Hd Hp. apply sorted_unique.
  - eapply distinct_prios_perm; [apply sort_comps_perm|exact Hd].
  - eapply perm_trans; [apply Permutation_sym, sort_comps_perm|].
    eapply perm_trans; [exact Hp|]. apply sort_comps_perm.
  - apply sort_comps_sorted.
  - apply sort_comps_sorted.
Qed.

(* registration order does not matter for any table *)
Theorem tables_perm_invariant l l' : distinct_prios l -> Permutation l l' ->
  (forall c, block_candidates l c = block_candidates l' c) /\
  (forall c, inline_table l c = inline_table l' c) /\
  transformer_order l = transformer_order l' /\
  renderer_table l = renderer_table l'.
Proof.
  intros Hd Hp. pose proof (sort_perm_invariant l l' Hd Hp) as E.
  unfold block_candidates, block_table, free_parsers, inline_table, transformer_order, renderer_table.
  rewrite E. repeat split; reflexivity.
Qed.

(* ---------- auxiliary lemmas: tables ---------- *)

Lemma SS_app (l1 l2 : list comp) :
  StronglySorted prio_le l1 -> StronglySorted prio_le l2 ->
  (forall x y, In x l1 -> In y l2 -> prio_le x y) ->
  StronglySorted prio_le (l1 ++ l2).
Proof.
  induction l1 as [|a l1 IH]; intros H1 H2 Hc; cbn [app].
  - exact H2.
  - apply StronglySorted_inv in H1. destruct H1 as [H1 Ha].
    constructor.
    + apply IH; [exact H1|exact H2|].
      intros x y Hx Hy. apply Hc; [right; exact Hx|exact Hy].
    + apply Forall_app. split; [exact Ha|].
      apply Forall_forall. intros y Hy. apply Hc; [left; reflexivity|exact Hy].
Qed.

Lemma SS_const (p : comp) (l : list comp) :
  (forall x, In x l -> x = p) -> StronglySorted prio_le l.
Proof.
  induction l as [|a l IH]; intros H.
  - constructor.
  - constructor.
    + apply IH. intros x Hx. apply H. right; exact Hx.
    + apply Forall_forall. intros y Hy.
      rewrite (H a (or_introl eq_refl)). rewrite (H y (or_intror Hy)).
      unfold prio_le. lia.
Qed.

Lemma occurrences_in c p q : In q (occurrences c p) -> q = p /\ has_trigger c p = true.
Proof.
  unfold occurrences, has_trigger. destruct (c_trig p) as [ts|]; intros H.
  - apply in_map_iff in H. destruct H as [t [Ht Hin]].
    apply filter_In in Hin. destruct Hin as [Hin Heq].
    split; [symmetry; exact Ht|].
    apply existsb_exists. exists t. split; assumption.
  - destruct H.
Qed.

Lemma occurrences_has c p : has_trigger c p = true -> In p (occurrences c p).
Proof.
  unfold occurrences, has_trigger. destruct (c_trig p) as [ts|]; intros H.
  - apply existsb_exists in H. destruct H as [t [Hin Heq]].
    apply in_map_iff. exists t. split; [reflexivity|].
    apply filter_In. split; assumption.
  - discriminate H.
Qed.

Lemma flat_occ_sorted c s :
  StronglySorted prio_le s -> StronglySorted prio_le (flat_map (occurrences c) s).
Proof.
  induction s as [|a s IH]; intros Hs; cbn [flat_map].
  - constructor.
  - apply StronglySorted_inv in Hs. destruct Hs as [Hs Ha].
    apply SS_app.
    + apply (SS_const a). intros x Hx. apply occurrences_in in Hx. apply Hx.
    + apply IH; exact Hs.
    + intros x y Hx Hy. apply occurrences_in in Hx. destruct Hx as [Hx _]. subst x.
      apply in_flat_map in Hy. destruct Hy as [z [Hz Hy]].
      apply occurrences_in in Hy. destruct Hy as [Hy _]. subst y.
      rewrite Forall_forall in Ha. apply Ha. exact Hz.
Qed.

Lemma flat_occ_trigger c s :
  Forall (fun p => has_trigger c p = true) (flat_map (occurrences c) s).
Proof.
  apply Forall_forall. intros y Hy.
  apply in_flat_map in Hy. destruct Hy as [z [Hz Hy]].
  apply occurrences_in in Hy. destruct Hy as [Hy Ht]. subst y. exact Ht.
Qed.

Lemma flat_occ_complete c l p :
  In p l -> has_trigger c p = true -> In p (flat_map (occurrences c) (sort_comps l)).
Proof.
  intros Hin Ht. apply in_flat_map. exists p. split.
  - apply sort_comps_in; exact Hin.
  - apply occurrences_has; exact Ht.
Qed.

Lemma filter_sorted (f : comp -> bool) s :
  StronglySorted prio_le s -> StronglySorted prio_le (filter f s).
Proof.
  induction s as [|a s IH]; intros Hs; cbn [filter].
  - constructor.
  - apply StronglySorted_inv in Hs. destruct Hs as [Hs Ha].
    destruct (f a).
    + constructor; [apply IH; exact Hs|].
      apply Forall_forall. intros y Hy. apply filter_In in Hy. destruct Hy as [Hy _].
      rewrite Forall_forall in Ha. apply Ha; exact Hy.
    + apply IH; exact Hs.
Qed.

(* parsers registered for trigger c come in ascending priority, the trigger-less ones after
   them, also in ascending priority *)
Theorem block_order l c : distinct_prios l ->
  exists trig free, block_candidates l c = trig ++ free /\
    StronglySorted prio_le trig /\ StronglySorted prio_le free /\
    Forall (fun p => has_trigger c p = true) trig /\ Forall (fun p => is_free p = true) free /\
    (forall p, In p l -> is_free p = true -> In p free) /\
    (forall p, In p l -> has_trigger c p = true -> In p trig).
Proof.
  intros _.
  exists (flat_map (occurrences c) (sort_comps l)), (free_parsers l).
  split; [|split; [|split; [|split; [|split; [|split]]]]].
  - unfold block_candidates, block_table.
    destruct (flat_map (occurrences c) (sort_comps l)) as [|x t]; reflexivity.
  - apply flat_occ_sorted, sort_comps_sorted.
  - unfold free_parsers. apply filter_sorted, sort_comps_sorted.
  - apply flat_occ_trigger.
  - unfold free_parsers. apply Forall_forall. intros p Hp.
    apply filter_In in Hp. apply Hp.
  - intros p Hin Hf. unfold free_parsers. apply filter_In. split; [|exact Hf].
    apply sort_comps_in; exact Hin.
  - intros p Hin Ht. apply flat_occ_complete; assumption.
Qed.

Theorem inline_order l c : distinct_prios l ->
  StronglySorted prio_le (inline_table l c) /\
  Forall (fun p => has_trigger c p = true) (inline_table l c) /\
  (forall p, In p l -> has_trigger c p = true -> In p (inline_table l c)).
Proof.
  intros _. unfold inline_table. split; [|split].
  - apply flat_occ_sorted, sort_comps_sorted.
  - apply flat_occ_trigger.
  - intros p Hin Ht. apply flat_occ_complete; assumption.
Qed.

(* the first to accept wins: every component consulted before the winner declined, nothing
   after the winner is consulted *)
Theorem first_accept_wins cands log w : consult cands = (log, Some w) ->
  exists before p after, cands = before ++ p :: after /\ c_id p = w /\ c_accept p = true /\
    Forall (fun q => c_accept q = false) before /\ log = map c_id before ++ [w].
Proof.
  revert log w. induction cands as [|p l IH]; intros log w H; cbn [consult] in H.
  - discriminate H.
  - destruct (c_accept p) eqn:Ea.
    + injection H as Hlog Hw. subst log w.
      exists [], p, l. repeat split; try reflexivity; try assumption. constructor.
    + destruct (consult l) as [log' w'] eqn:Ec.
      injection H as Hlog Hw. subst log w'.
      destruct (IH log' w eq_refl) as [before [p0 [after [Hc [Hid [Hacc [Hall Hl]]]]]]].
      exists (p :: before), p0, after. split; [|split; [|split; [|split]]].
      * cbn [app]. rewrite Hc. reflexivity.
      * exact Hid.
      * exact Hacc.
      * constructor; assumption.
      * cbn [map app]. rewrite Hl. reflexivity.
Qed.

Theorem nobody_accepts cands log : consult cands = (log, None) ->
  Forall (fun q => c_accept q = false) cands /\ log = map c_id cands.
Proof.
  revert log. induction cands as [|p l IH]; intros log H; cbn [consult] in H.
  - injection H as Hlog. subst log. split; [constructor|reflexivity].
  - destruct (c_accept p) eqn:Ea.
    + discriminate H.
    + destruct (consult l) as [log' w'] eqn:Ec.
      injection H as Hlog Hw. subst log w'.
      destruct (IH log' eq_refl) as [Hall Hl].
      split; [constructor; assumption|].
      cbn [map]. rewrite Hl. reflexivity.
Qed.

(* transformers run in ascending priority *)
Theorem transformers_ascending l : exists s, transformer_order l = map c_id s /\
  Permutation l s /\ StronglySorted prio_le s.
Proof.
  exists (sort_comps l). split; [reflexivity|].
  split; [apply sort_comps_perm|apply sort_comps_sorted].
Qed.

(* ---------- auxiliary lemmas: renderer table ---------- *)

Definition has_kind (k : N) (q : comp) : bool := existsb (N.eqb k) (c_kinds q).

Lemma has_kind_iff k q : has_kind k q = true <-> In k (c_kinds q).
Proof.
  unfold has_kind. rewrite existsb_exists. split.
  - intros [x [Hin Heq]]. apply N.eqb_eq in Heq. subst x. exact Hin.
  - intros Hin. exists k. split; [exact Hin|apply N.eqb_refl].
Qed.

Lemma lookup_register_gen ks id : forall t k,
  reg_lookup (fold_left (fun t k0 => (k0, id) :: t) ks t) k =
  if existsb (N.eqb k) ks then Some id else reg_lookup t k.
Proof.
  induction ks as [|a ks IH]; intros t k; cbn [fold_left existsb].
  - reflexivity.
  - rewrite IH. cbn [reg_lookup].
    destruct (existsb (N.eqb k) ks); destruct (N.eqb k a); reflexivity.
Qed.

Lemma lookup_register t p k :
  reg_lookup (register t p) k = if has_kind k p then Some (c_id p) else reg_lookup t k.
Proof. unfold register, has_kind. apply lookup_register_gen. Qed.

Lemma lookup_table s k :
  reg_lookup (fold_left register (rev s) []) k =
  match find (has_kind k) s with Some q => Some (c_id q) | None => None end.
Proof.
  induction s as [|a s IH]; cbn [rev find].
  - reflexivity.
  - rewrite fold_left_app. cbn [fold_left]. rewrite lookup_register.
    destruct (has_kind k a); [reflexivity|exact IH].
Qed.

Lemma find_min k p s :
  StronglySorted prio_le s -> NoDup (map c_prio s) -> In p s -> has_kind k p = true ->
  (forall q, In q s -> has_kind k q = true -> c_prio p <= c_prio q) ->
  find (has_kind k) s = Some p.
Proof.
  induction s as [|a s IH]; intros Hs Hd Hin Hk Hmin.
  - destruct Hin.
  - apply StronglySorted_inv in Hs. destruct Hs as [Hs Ha].
    cbn [map] in Hd. apply NoDup_cons_iff in Hd. destruct Hd as [Hnin Hd].
    cbn [find]. destruct (has_kind k a) eqn:Eka.
    + destruct Hin as [Hap|Hin]; [subst a; reflexivity|].
      exfalso.
      rewrite Forall_forall in Ha. pose proof (Ha p Hin) as H1. unfold prio_le in H1.
      pose proof (Hmin a (or_introl eq_refl) Eka) as H2.
      assert (Heq : c_prio a = c_prio p) by lia.
      apply Hnin. rewrite Heq. apply in_map. exact Hin.
    + destruct Hin as [Hap|Hin].
      * subst a. rewrite Hk in Eka. discriminate Eka.
      * apply IH; try assumption.
        intros q Hq Hkq. apply Hmin; [right; exact Hq|exact Hkq].
Qed.

Lemma max_fold_ge (t : reg_table) : forall m : N,
  (m <= fold_left (fun m kv => N.max m (fst kv)) t m)%N.
Proof.
  induction t as [|a t IH]; intros m; cbn [fold_left].
  - lia.
  - pose proof (IH (N.max m (fst a))) as H. lia.
Qed.

Lemma lookup_le_max (t : reg_table) : forall (m k v : N),
  reg_lookup t k = Some v -> (k <= fold_left (fun m kv => N.max m (fst kv)) t m)%N.
Proof.
  induction t as [|[k' v'] t IH]; intros m k v H; cbn [reg_lookup] in H.
  - discriminate H.
  - cbn [fold_left fst]. destruct (N.eqb_spec k k') as [E|E].
    + subst k'. pose proof (max_fold_ge t (N.max m k)) as H1. lia.
    + eapply IH. exact H.
Qed.

(* for a node kind the function registered by the renderer with the smallest priority value is used *)
Theorem renderer_min_wins l k p : distinct_prios l -> In p l -> In k (c_kinds p) ->
  (forall q, In q l -> In k (c_kinds q) -> c_prio p <= c_prio q) ->
  dispatch (renderer_table l) k = Some (c_id p).
Proof.
  intros Hd Hin Hk Hmin.
  assert (Hl : reg_lookup (renderer_table l) k = Some (c_id p)).
  { unfold renderer_table. rewrite lookup_table.
    rewrite (find_min k p (sort_comps l)); [reflexivity| | | | |].
    - apply sort_comps_sorted.
    - apply (distinct_prios_perm l); [apply sort_comps_perm|exact Hd].
    - apply sort_comps_in; exact Hin.
    - apply has_kind_iff; exact Hk.
    - intros q Hq Hkq. apply Hmin; [apply sort_comps_in; exact Hq|apply has_kind_iff; exact Hkq]. }
  unfold dispatch.
  destruct (N.leb_spec k (max_kind (renderer_table l))) as [Hle|Hgt].
  - exact Hl.
  - exfalso. pose proof (lookup_le_max (renderer_table l) 0%N k (c_id p) Hl) as H.
    unfold max_kind in Hgt. lia.
Qed.

(* a node of a kind with no renderer function is skipped, without failing, and its children
   are still rendered *)
Theorem missing_renderer_skips l k cs : (forall q, In q l -> ~ In k (c_kinds q)) ->
  render_ktree (renderer_table l) (KNode k cs) = flat_map (render_ktree (renderer_table l)) cs.
Proof.
  intros Hno. cbn [render_ktree].
  assert (Hd : dispatch (renderer_table l) k = None).
  { unfold dispatch. destruct (k <=? max_kind (renderer_table l))%N; [|reflexivity].
    unfold renderer_table. rewrite lookup_table.
    destruct (find (has_kind k) (sort_comps l)) as [q|] eqn:Ef; [|reflexivity].
    exfalso. apply find_some in Ef. destruct Ef as [Hq Hk].
    apply (Hno q); [apply sort_comps_in; exact Hq|apply has_kind_iff; exact Hk]. }
  rewrite Hd. reflexivity.
Qed.
