(* Shared definitions for the well-formedness and totality proofs of the parser model with
   extension.Typographer and extension.DefinitionList (TypoDefWf*.v): what the block phase
   guarantees about the lines of the inline-bearing blocks of its tree, and the kinds it yields.

   The lines of a DefinitionTerm are the lines of the paragraph the definition list parser took
   over, cut at their right ends only.  When that paragraph is still open (a paragraph behind an
   earlier definition list is taken over without being closed), a continuation line keeps the
   virtual padding a partly consumed tab left it with:  "- x" / "  : y" / "" / "  foo" / " <TAB>bar" /
   "  : c"  gives the term "bar" the line {start 19; stop 22; padding 2}.  So the lines the inline
   phase gets satisfy ParseInv.lines_ok (padding = 0) as in the default configuration, or are ONE
   line that satisfies ReaderSpec.seg_ok (padding >= 0).  (For several lines with padding the
   inline phase is not total: with the source "aa``" and the lines {0,3,padding 0}, {3,4,padding 2}
   inline_childrenT panics - codeSpanParser.Parse computes the end of the content of a code span
   from the index in the padded line, segment.WithStop(segment.Start + i - closure), which is
   beyond the source.  The block phase never hands over such lines.) *)
Require Import GM.model.Base GM.model.Util GM.model.Reader GM.model.ReaderSpec GM.model.HtmlWriter GM.model.Html GM.model.HtmlSpec
               GM.model.BlockParse GM.model.InlineParse GM.model.TypoDefParseT GM.model.TypoDefParseD GM.model.TypoDefParse.
Require Import GM.proofs.ParseInv GM.proofs.ParseCompose.
From Coq Require Import List ZArith Bool Lia.
Import ListNotations.
Open Scope Z_scope.

(* ---------- lines ---------- *)
(* ReaderSpec.seg_ok as a boolean: non-empty, inside the source, padding >= 0, no forced newline *)
Definition seg_okP_b (src : bytes) (s : seg) : bool :=
  (0 <=? s_start s) && (s_start s <? s_stop s) && (s_stop s <=? zlen src) && (0 <=? s_pad s) && negb (s_fnl s).
(* the lines of an inline-bearing block: as in the default configuration, or one line with padding *)
Definition linesTD_ok (src : bytes) (l : list seg) : Prop :=
  lines_ok src l \/ exists sg, l = [sg] /\ seg_ok src sg.
Definition linesTD_ok_b (src : bytes) (l : list seg) : bool :=
  (forallb (seg_ok_b src) l && segs_sorted_b l) || match l with [sg] => seg_okP_b src sg | _ => false end.

Lemma seg_okP_b_spec src s : seg_okP_b src s = true <-> seg_ok src s.
Proof.
  unfold seg_okP_b, seg_ok. rewrite !andb_true_iff, !Z.leb_le, Z.ltb_lt, negb_true_iff.
  split; [intros ((((H1 & H2) & H3) & H4) & H5)|intros ((H1 & H2) & H3 & H4 & H5)]; repeat split; assumption.
Qed.

Lemma linesTD_ok_b_spec src l : linesTD_ok_b src l = true <-> linesTD_ok src l.
Proof.
  unfold linesTD_ok_b, linesTD_ok, lines_ok. rewrite orb_true_iff, andb_true_iff. split; intros [H|H].
  - left. exact H.
  - right. destruct l as [|sg [|s2 t]]; try discriminate H. exists sg. split; [reflexivity|apply seg_okP_b_spec; exact H].
  - left. exact H.
  - right. destruct H as (sg & -> & H). apply seg_okP_b_spec. exact H.
Qed.

Lemma lines_ok_TD src l : lines_ok src l -> linesTD_ok_b src l = true.
Proof. intros H. apply linesTD_ok_b_spec. left. exact H. Qed.

(* the lines of every inline-bearing block of the tree (paragraphs, text blocks, headings,
   definition terms) are what the block reader wants *)
Fixpoint tree_lines_okTD (src : bytes) (t : tree) {struct t} : bool :=
  match t with
  | Node k lines _ kids =>
    (if has_inlinesTD k then linesTD_ok_b src lines else true) &&
    (fix go (l : list tree) : bool := match l with [] => true | x :: r => tree_lines_okTD src x && go r end) kids
  end.

Lemma tree_lines_okTD_unfold src k l a kids :
  tree_lines_okTD src (Node k l a kids) =
  (if has_inlinesTD k then linesTD_ok_b src l else true) && forallb (tree_lines_okTD src) kids.
Proof.
  cbn [tree_lines_okTD]. f_equal; try reflexivity;
  (induction kids as [|x r IH]; [reflexivity|cbn [forallb]; rewrite IH; reflexivity]).
Qed.

(* ---------- kinds ---------- *)
(* the kinds the block phase with the definition list parsers produces *)
Definition block_kindTD (k : kind) : bool :=
  match k with
  | KDefinitionList | KDefinitionTerm | KDefinitionDescription _ => true
  | _ => block_kind k
  end.

Lemma block_kind_TD k : block_kind k = true -> block_kindTD k = true.
Proof. destruct k; cbn; intros H; try discriminate H; reflexivity. Qed.

Lemma has_inlinesTD_block k : block_kind k = true -> has_inlinesTD k = has_inlines k.
Proof. destruct k; cbn; intros H; try discriminate H; reflexivity. Qed.

(* for a block kind, the local conditions do not look at the children *)
Lemma node_ok_blockTD_children src it k l a kids kids' :
  block_kindTD k = true -> node_ok src it (Node k l a kids) = node_ok src it (Node k l a kids').
Proof. intros Hk. destruct k; try discriminate Hk; reflexivity. Qed.

Lemma block_kindTD_flags k : block_kindTD k = true ->
  (match k with KTableCell _ => false | _ => true end) = true /\
  (match k with KTable => true | _ => false end) = false /\
  (match k with KTableHeader | KTableRow => true | _ => false end) = false.
Proof. intros Hk. destruct k; try discriminate Hk; repeat split. Qed.

(* a tree of the default configuration: its lines are fine for the generalised statement too *)
Lemma tree_lines_ok_TD src : forall t, all_kinds block_kind t = true -> tree_lines_ok src t = true -> tree_lines_okTD src t = true.
Proof.
  intros t. induction t as [k l a kids IH] using tree_ind_forall. intros Hk Hl.
  rewrite all_kinds_unfold in Hk. apply andb_true_iff in Hk as [Hk Hks].
  rewrite tree_lines_ok_unfold in Hl. apply andb_true_iff in Hl as [Hl Hls].
  rewrite tree_lines_okTD_unfold, (has_inlinesTD_block k Hk). apply andb_true_iff. split.
  - destruct (has_inlines k); [|reflexivity]. apply andb_true_iff in Hl as [H1 H2]. apply lines_ok_TD. split; assumption.
  - rewrite forallb_forall in Hks, Hls |- *. rewrite Forall_forall in IH. intros x Hx. exact (IH x Hx (Hks x Hx) (Hls x Hx)).
Qed.

Lemma all_kinds_block_TD : forall t, all_kinds block_kind t = true -> all_kinds block_kindTD t = true.
Proof.
  intros t. induction t as [k l a kids IH] using tree_ind_forall. intros Hk.
  rewrite all_kinds_unfold in Hk |- *. apply andb_true_iff in Hk as [Hk Hks]. rewrite (block_kind_TD k Hk). cbn [andb].
  rewrite forallb_forall in Hks |- *. rewrite Forall_forall in IH. intros x Hx. exact (IH x Hx (Hks x Hx)).
Qed.
