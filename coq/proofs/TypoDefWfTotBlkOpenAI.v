(* Helper file for TypoDefWfTotBlk.v: the interface between the two halves of the proof of openBlocks
   of the generalised driver:
     TypoDefWfTotBlkOpenA*.v  one round of open_blocks_loopD (try_parsersD): round_spec, dd_round_spec
     TypoDefWfTotBlkOpenB*.v  the loop and open_blocksD: open_blocksD_spec (TypoDefWfTotBlkOpenI.v)
   The outcomes of a round below a parent that is no DefinitionList are those of the core proof
   (ParseBlocksTotalOpen.v: declined / the paragraph in front popped and gone / a block pushed) and one more:
   the definition list parser has pushed a list (OPushDL).  The round that follows works below that list:
   the definition list parser declines, the description parser makes the terms, detaches the temporary
   paragraph, advances the reader and its description is pushed (dd_round_spec).  Only in that round the
   parent is a DefinitionList. *)
Require Import GM.model.Base GM.model.Util GM.model.Reader GM.model.ReaderSpec GM.model.Blocks GM.model.ListItem
               GM.model.LeafBlocks GM.model.CodeBlock GM.model.LinkDest GM.model.Regex GM.model.BlockParse
               GM.model.TypoDefParseD.
Require Import GM.proofs.ReaderProofs GM.proofs.BlocksProofs
               GM.proofs.ParseBlocksTotalReader GM.proofs.ParseBlocksTotalDefs GM.proofs.ParseBlocksTotalSpec
               GM.proofs.ParseBlocksTotalSt GM.proofs.ParseBlocksTotalShape GM.proofs.ParseBlocksTotalOpen
               GM.proofs.TypoDefConservativeBlkInv
               GM.proofs.TypoDefWfTotBlkDefs GM.proofs.TypoDefWfTotBlkSpec GM.proofs.TypoDefWfTotBlkOpenI.
From Coq Require Import ZArith Lia List Bool.
Import ListNotations.
Open Scope Z_scope.

Section S.
Variable space_table punct_table : list N.
Variable norm : bytes -> bytes.
Variable re_t1o re_t1c re_t2 re_t3 re_t4 re_t5 re_t6 re_t7 : re.
Variable allowed_tags : list bytes.
Variable src : bytes.
Notation SI := (SI space_table src).
Notation SD := (SD space_table src).
Notation OBLD := (open_blocks_loopD true space_table punct_table norm re_t1o re_t2 re_t3 re_t4 re_t5 re_t6 re_t7 allowed_tags).
Notation isb := (Reader.is_blank space_table).
Notation itb := (is_thematic_break space_table).

(* the paragraph in front of a setext bar or of the first definition description has been closed, popped and
   transformed, and nothing is left of it (for the definition list parser the new list node stays in the
   heap, detached): the round is repeated *)
Definition OPopD (parent : nat) (pn : bnode) (res w : Z) (s : st) (t : try_res) : Prop :=
  exists s' base x, t = TRetry parent false res s' /\ SD s' /\ kkeep (s_h s) (s_h s') /\ same_pos (s_r s) (s_r s') /\
    ops s = base ++ [(x, PParagraph)] /\ ops s' = base /\
    OFrameD (s_h s) (s_h s') parent /\ c_fence (s_c s') = c_fence (s_c s) /\
    (c_tmp_para (s_c s') = c_tmp_para (s_c s) \/ c_tmp_para (s_c s') <> None) /\
    (forall t, c_tmp_para (s_c s') = Some t -> (t < length (s_h s))%nat) /\
    (3 <? w) = false /\ isb (sview s) = false /\ bk pn <> BList.

(* a block of a default parser has been pushed *)
Definition PFD (parent : nat) (pn : bnode) (s : st) (bp : bparser) (node : nat) (kids : bool) (s' : st) : Prop :=
    SD s' /\ kkeep (s_h s) (s_h s') /\ r_le (s_r s) (s_r s') /\
    (kids = true -> same_line (s_r s) (s_r s') /\ is_container bp = true) /\
    node = length (s_h s) /\
    (ops s' = ops s ++ [(node, bp)] \/
     (bp = PSetext /\ exists base x, ops s = base ++ [(x, PParagraph)] /\ ops s' = base ++ [(node, bp)])) /\
    OFrameD (s_h s) (s_h s') parent /\
    (exists nn, nth_error (s_h s') node = Some nn /\ bk nn = kind_of_parser bp /\ bpar nn = Some parent /\ dnode nn /\
                (bp = PSetext -> blines nn <> [])) /\
    (exists pn', nth_error (s_h s') parent = Some pn' /\ last_id (bch pn') = Some node) /\
    (bk pn = BList -> bp = PListItem) /\
    (bp = PFenced -> exists ch ind fl, c_fence (s_c s') = Some (ch, ind, fl, node)) /\
    (bp <> PFenced -> c_fence (s_c s') = c_fence (s_c s)) /\
    (bp = PSetext -> c_tmp_para (s_c s') <> None /\
                     (forall t, c_tmp_para (s_c s') = Some t -> (t < length (s_h s))%nat) /\
                     exists x, last_opened (s_c s) = Some (x, PParagraph)) /\
    (bp <> PSetext -> c_tmp_para (s_c s') = c_tmp_para (s_c s)) /\
    (bp = PList -> kids = true /\ sin s' /\ snd (parse_list_item (sview s')) <> 0%N /\ itb (sview s') (soff s') = false /\
                   ~ lastlist s /\ same_pos (s_r s) (s_r s')) /\
    (kids = true -> bp <> PList -> s_start (r_pos (s_r s)) + 1 <= s_start (r_pos (s_r s'))).

Definition OPushD (parent : nat) (pn : bnode) (cont : bool) (s : st) (t : try_res) : Prop :=
  exists bp node (kids : bool) s',
    t = (if kids then TRetry node cont newBlocksOpened s' else TDone newBlocksOpened s') /\
    PFD parent pn s bp node kids s'.

(* the definition list parser has pushed the list `lst` (a new node, or a list that was a child of the
   parent already: then it has been moved behind its siblings): it is the last child of the parent, its
   Offset was computed on this line (which starts with ':') and its temporary paragraph, if any, is
   attached; the reader has not moved; the paragraph in front may have been popped (the first item) *)
Definition DLF (parent : nat) (pn : bnode) (s : st) (lst : nat) (s' : st) : Prop :=
    SD s' /\ kkeep (s_h s) (s_h s') /\ same_pos (s_r s) (s_r s') /\ sin s' /\ DLine s' /\
    (ops s' = ops s ++ [(lst, PHTML)] \/
     (exists base x, ops s = base ++ [(x, PParagraph)] /\ ops s' = base ++ [(lst, PHTML)])) /\
    OFrameD (s_h s) (s_h s') parent /\
    ((length (s_h s) <= lst)%nat \/ dlk (s_h s) lst) /\
    (exists ln, nth_error (s_h s') lst = Some ln /\ is_dl ln = true /\ bpar ln = Some parent /\
                Wok s' (b_i2 ln) /\ TmpOK (s_h s') (b_seg ln)) /\
    (exists pn', nth_error (s_h s') parent = Some pn' /\ last_id (bch pn') = Some lst) /\
    c_fence (s_c s') = c_fence (s_c s) /\ c_tmp_para (s_c s') = c_tmp_para (s_c s) /\
    bk pn <> BList.

Definition OPushDL (parent : nat) (pn : bnode) (cont : bool) (s : st) (t : try_res) : Prop :=
  exists lst s', t = TRetry lst cont newBlocksOpened s' /\ DLF parent pn s lst s'.

(* one round below a parent that is no DefinitionList *)
Definition round_spec : Prop :=
  forall f parent pn blank cont res s,
  SD s -> nth_error (s_h s) parent = Some pn -> is_dl pn = false -> lastatt s ->
  (bk pn = BList -> LP space_table s parent) ->
  (exists s', OBLD (S f) parent blank cont res s = Ok (res, cont, s') /\ SD s' /\ dcl s s' /\ bk pn <> BList /\
     (cont && (res =? noBlocksOpened) = true \/ ~ sin s \/ isb (sview s) = true \/ (3 <? wof s) = true))
  \/
  (sin s /\ exists t, OBLD (S f) parent blank cont res s =
        match t with
        | TRetry parent' cont' res' s' => OBLD f parent' blank cont' res' s'
        | TDone res' s' => Ok (res', cont, s')
        end /\ (OPopD parent pn res (wof s) s t \/ OPushD parent pn cont s t \/ OPushDL parent pn cont s t)).

(* the round below the list the definition list parser has pushed: a description is pushed, the reader
   has advanced on the line *)
Definition DDF (lst : nat) (s : st) (dd : nat) (s' : st) : Prop :=
    SD s' /\ kkeep (s_h s) (s_h s') /\ same_line (s_r s) (s_r s') /\
    s_start (r_pos (s_r s)) + 1 <= s_start (r_pos (s_r s')) /\
    ops s' = ops s ++ [(dd, PHTML)] /\ (length (s_h s) <= dd)%nat /\
    (forall q, OFrameD (s_h s) (s_h s') q) /\
    (exists dn, nth_error (s_h s') dd = Some dn /\ is_dd dn = true /\ bpar dn = Some lst) /\
    (exists ln', nth_error (s_h s') lst = Some ln' /\ last_id (bch ln') = Some dd) /\
    c_fence (s_c s') = c_fence (s_c s) /\ c_tmp_para (s_c s') = c_tmp_para (s_c s).

Definition dd_round_spec : Prop :=
  forall f parent pn s0 lst blank cont s,
  DLF parent pn s0 lst s -> lastatt s ->
  exists dd s', OBLD (S f) lst blank cont newBlocksOpened s = OBLD f dd blank cont newBlocksOpened s' /\ DDF lst s dd s'.

End S.
