(* Continue / Close of the block parsers and the paragraph transformer of model/BlockParse.v as heap
   changes hstep (HeadingOptsEqDefs.v): they keep the kinds, change child lists only by paragraphs and
   text blocks, and change the lines of no heading (Close of a setext heading: of no other heading). *)
Require Import GM.model.Base GM.model.Util GM.model.Reader GM.model.Blocks GM.model.ListItem
               GM.model.LeafBlocks GM.model.CodeBlock GM.model.LinkDest GM.model.Regex
               GM.model.HtmlWriter GM.model.Html GM.model.BlockParse.
Require Import GM.proofs.ParseBlocksRangeA GM.proofs.ParseBlocksRangeB GM.proofs.HeadingOptsEqDefs GM.proofs.HeadingOptsEqHp.
From Coq Require Import List ZArith NArith Bool Lia.
Import ListNotations.

(* ---------- the reader steps do not touch the heap ---------- *)
Lemma hf_peek_h s s' l sg : peek_line_s s = Ok (s', l, sg) -> s_h s' = s_h s.
Proof. unfold peek_line_s. intros H. bind_inv H x Ex. destruct x as [[r l1] sg1]. injection H as <- _ _. reflexivity. Qed.
Lemma hf_loff_h s s' o : line_offset_s s = Ok (s', o) -> s_h s' = s_h s.
Proof. unfold line_offset_s. intros H. bind_inv H x Ex. destruct x as [r o1]. injection H as <- _. reflexivity. Qed.
Lemma hf_adv_h s k s' : advance_s s k = Ok s' -> s_h s' = s_h s.
Proof. unfold advance_s. intros H. bind_inv H r Er. injection H as <-. reflexivity. Qed.

(* ---------- at most an update of one node that keeps its kind and its children ---------- *)
Definition upd1 (node : nat) (h h' : heap) : Prop :=
  h' = h \/ exists n n', nth_error h node = Some n /\ h' = hset h node n' /\ bk n' = bk n /\ bch n' = bch n.

Lemma upd1_hstep (exc : nat -> Prop) node h h' n : upd1 node h h' -> nth_error h node = Some n ->
  (bk n <> BHeading \/ exc node) -> hstep exc h h'.
Proof.
  intros [->|[m [m' [Hm [-> [Hk Hc]]]]]] Hn Hx.
  - apply hstep_refl.
  - rewrite Hn in Hm. injection Hm as <-.
    apply (hstep_hset exc h node n m' Hn Hk Hc).
    intros Hh Hne. destruct Hx as [Hx|Hx]; [contradiction|]. exfalso. exact (Hne Hx).
Qed.

Ltac hf_step H :=
  match type of H with
  | bind (peek_line_s _) _ = Ok _ =>
    let x := fresh "x" in let E := fresh "E" in bind_inv H x E; destruct x as [[? ?] ?]; apply hf_peek_h in E
  | bind (line_offset_s _) _ = Ok _ =>
    let x := fresh "x" in let E := fresh "E" in bind_inv H x E; destruct x as [? ?]; apply hf_loff_h in E
  | bind (advance_s _ _) _ = Ok _ =>
    let x := fresh "x" in let E := fresh "E" in bind_inv H x E; apply hf_adv_h in E
  | bind (hupd _ _ _) _ = Ok _ =>
    let x := fresh "hh" in let E := fresh "E" in let m := fresh "m" in let Em := fresh "Em" in
    bind_inv H x E; apply hupd_ok in E; destruct E as [m [Em E]]
  | bind _ _ = Ok _ => let x := fresh "x" in let E := fresh "E" in bind_inv H x E
  | (if ?b then _ else _) = Ok _ => destruct b
  | (let '(_, _) := ?x in _) = Ok _ => destruct x
  | Panic = Ok _ => discriminate H
  | Ok _ = Ok _ => injection H; clear H; intros; subst
  end.

(* closes a goal upd1 node (s_h s) (s_h s') once s' is an explicit term *)
Ltac hf_fin :=
  cbn [s_h st_r st_h st_c] in *;
  repeat match goal with E : s_h ?a = _ |- _ => rewrite E in *; clear E end;
  subst;
  first [ left; reflexivity
        | right; eexists _, _; split; [eassumption|split; [reflexivity|split; reflexivity]] ].

Section Frame.
Variable space_table punct_table : list N.
Variable norm : bytes -> bytes.
Variable re_t1c : re.

(* ---------- Continue ---------- *)
Lemma paragraph_continue_upd1 s node s' b :
  paragraph_continue space_table s node = Ok (s', b) -> upd1 node (s_h s) (s_h s').
Proof.
  unfold paragraph_continue. intros H. repeat hf_step H; hf_fin.
Qed.

Lemma code_continue_upd1 s node s' b :
  code_continue space_table s node = Ok (s', b) -> upd1 node (s_h s) (s_h s').
Proof.
  unfold code_continue. intros H. bind_inv H x Ex. destruct x as [[sg r]|z]; repeat hf_step H; hf_fin.
Qed.

Lemma fenced_continue_upd1 s node s' b :
  fenced_continue space_table s node = Ok (s', b) -> upd1 node (s_h s) (s_h s').
Proof.
  unfold fenced_continue. intros H. destruct (c_fence (s_c s)) as [[[[ch indent] flen] nf]|]; [|discriminate H].
  hf_step H. bind_inv H x Ex. destruct x as [[cl ln] r]. destruct cl; [hf_step H; hf_fin|].
  destruct ln as [[start padding]|]; [|discriminate H]. repeat hf_step H; hf_fin.
Qed.

Lemma bq_continue_upd1 s node s' b :
  bq_continue s = Ok (s', b) -> upd1 node (s_h s) (s_h s').
Proof.
  unfold bq_continue. intros H. repeat hf_step H; hf_fin.
Qed.

Lemma html_continue_upd1 s node s' b :
  html_continue space_table re_t1c s node = Ok (s', b) -> upd1 node (s_h s) (s_h s').
Proof.
  unfold html_continue. intros H. repeat hf_step H; hf_fin.
Qed.

Lemma list_item_continue_upd1 s node s' b :
  list_item_continue space_table s node = Ok (s', b) -> upd1 node (s_h s) (s_h s').
Proof.
  unfold list_item_continue. intros H. hf_step H. hf_step H. hf_step H. 
  - repeat hf_step H; hf_fin.
  - bind_inv H p Ep. repeat hf_step H; hf_fin.
Qed.


Lemma list_continue_upd1 s node s' b :
  list_continue space_table s node = Ok (s', b) -> upd1 node (s_h s) (s_h s').
Proof.
  unfold list_continue. intros H. repeat hf_step H.
  1: match goal with |- context [if ?c then _ else _] => destruct c end.
  all: hf_fin.
Qed.


(* ---------- Close ---------- *)
Lemma paragraph_close_hstep exc s node s' n :
  paragraph_close space_table s node = Ok s' -> nth_error (s_h s) node = Some n -> bk n = BParagraph ->
  hstep exc (s_h s) (s_h s').
Proof.
  unfold paragraph_close. intros H Hn Hk. bind_inv H nd End. apply hget_ok in End. rewrite Hn in End. injection End as <-.
  destruct (blines n) as [|l ls].
  - destruct (bpar n) as [p|]; [|discriminate H]. bind_inv H h Eh. injection H as <-. cbn [s_h st_h].
    eapply hstep_remove_child; [exact Eh|exact Hn|]. rewrite Hk. reflexivity.
  - bind_inv H ls' El. destruct (rev ls') as [|lst pre]; [discriminate H|].
    bind_inv H lst' Elst. bind_inv H h Eh. injection H as <-. cbn [s_h st_h].
    eapply upd1_hstep; [|exact Hn|left; rewrite Hk; discriminate].
    apply hupd_ok in Eh. destruct Eh as [nd [End ->]]. right. eexists _, _. split; [exact End|]. split; [reflexivity|].
    split; reflexivity.
Qed.

Lemma code_close_upd1 s node s' :
  code_close space_table s node = Ok s' -> upd1 node (s_h s) (s_h s').
Proof.
  unfold code_close. intros H. repeat hf_step H; hf_fin.
Qed.

Lemma fenced_close_upd1 s node s' :
  fenced_close s node = Ok s' -> upd1 node (s_h s) (s_h s').
Proof.
  unfold fenced_close. intros H. destruct (c_fence (s_c s)) as [[[[ch indent] flen] nf]|]; [|discriminate H].
  injection H as <-. destruct (Nat.eqb nf node); hf_fin.
Qed.


(* the two loops of list_close that turn the paragraphs of the items into text blocks *)
Definition lc_kids (c : nat) : list nat -> st -> result st :=
  fix kids (gs : list nat) (s : st) : result st :=
    match gs with
    | [] => Ok s
    | g :: tl =>
      gn <- hget (s_h s) g ;;
      if bkind_eqb (bk gn) BParagraph then
        let '(s, t) := new_node s (set_lines (mknode BTextBlock 0) (blines gn)) in
        h <- replace_child (s_h s) c g t ;;
        kids tl (st_h s h)
      else kids tl s
    end.
Definition lc_items : list nat -> st -> result st :=
  fix items (cs : list nat) (s : st) : result st :=
    match cs with
    | [] => Ok s
    | c :: rest =>
      cn <- hget (s_h s) c ;;
      s <- lc_kids c (bch cn) s ;;
      items rest s
    end.

Lemma bkind_eqb_para k : bkind_eqb k BParagraph = true -> k = BParagraph.
Proof. destruct k; cbn; intros H; try discriminate H; reflexivity. Qed.

Lemma lc_kids_hstep exc c : forall gs s s', lc_kids c gs s = Ok s' -> hstep exc (s_h s) (s_h s').
Proof.
  induction gs as [|g tl IH]; intros s s' H.
  - cbn in H. injection H as <-. apply hstep_refl.
  - cbn [lc_kids] in H. fold (lc_kids c) in H. bind_inv H gn Eg. apply hget_ok in Eg.
    destruct (bkind_eqb (bk gn) BParagraph) eqn:Ek; [|apply IH; exact H].
    apply bkind_eqb_para in Ek.
    unfold new_node, halloc in H. cbv beta iota zeta in H. cbn [s_h st_h] in H.
    bind_inv H h Eh. apply IH in H. cbn [s_h st_h] in H.
    eapply hstep_trans; [|exact H].
    eapply hstep_trans; [apply (hstep_alloc exc (s_h s) (set_lines (mknode BTextBlock 0) (blines gn))); reflexivity|].
    eapply hstep_replace_child; [exact Eh| | |apply nth_app_new|reflexivity].
    + rewrite nth_error_app1; [exact Eg|]. eapply nth_some_lt; exact Eg.
    + rewrite Ek. reflexivity.
Qed.

Lemma lc_items_hstep exc : forall cs s s', lc_items cs s = Ok s' -> hstep exc (s_h s) (s_h s').
Proof.
  induction cs as [|c rest IH]; intros s s' H.
  - cbn in H. injection H as <-. apply hstep_refl.
  - cbn [lc_items] in H. fold lc_items in H. bind_inv H cn Ec. bind_inv H s1 E1.
    eapply hstep_trans; [eapply lc_kids_hstep; exact E1|]. apply IH. exact H.
Qed.

Lemma list_close_hstep exc s node s' n :
  list_close s node = Ok s' -> nth_error (s_h s) node = Some n -> bk n = BList ->
  hstep exc (s_h s) (s_h s').
Proof.
  unfold list_close. intros H Hn Hk. bind_inv H nd End. bind_inv H tight Et. bind_inv H h Eh.
  apply hupd_ok in Eh. destruct Eh as [n1 [En1 ->]]. rewrite Hn in En1. injection En1 as <-.
  assert (H1 : hstep exc (s_h s) (hset (s_h s) node (set_tight n tight))).
  { apply (hstep_hset exc (s_h s) node n); [exact Hn|reflexivity|reflexivity|].
    intros Hh. rewrite Hk in Hh. discriminate Hh. }
  destruct (negb tight).
  - injection H as <-. exact H1.
  - eapply hstep_trans; [exact H1|]. apply (lc_items_hstep exc) in H. exact H.
Qed.


Lemma setext_close_hstep s node s' n tmp t :
  setext_close space_table s node = Ok s' -> nth_error (s_h s) node = Some n -> bk n = BHeading ->
  c_tmp_para (s_c s) = Some tmp -> nth_error (s_h s) tmp = Some t -> bk t = BParagraph -> blines t <> [] ->
  hstep (eq node) (s_h s) (s_h s').
Proof.
  unfold setext_close. intros H Hn Hk Hc Ht Hkt Hl.
  assert (Hne : node <> tmp).
  { intros ->. rewrite Hn in Ht. injection Ht as <-. rewrite Hk in Hkt. discriminate Hkt. }
  bind_inv H nd End. apply hget_ok in End. rewrite Hn in End. injection End as <-.
  rewrite Hc in H. destruct (blines n) as [|sg rest]; [discriminate H|].
  bind_inv H h1 E1. apply hupd_ok in E1. destruct E1 as [n1 [En1 ->]]. rewrite Hn in En1. injection En1 as <-.
  cbn [s_h st_h st_c] in H.
  bind_inv H t1 Et1. apply hget_ok in Et1. rewrite nth_hset_ne in Et1 by exact Hne. rewrite Ht in Et1. injection Et1 as <-.
  assert (Hlt : (node < length (s_h s))%nat) by (eapply nth_some_lt; exact Hn).
  assert (H1 : hstep (eq node) (s_h s) (hset (s_h s) node (set_lines n []))).
  { apply (hstep_hset (eq node) (s_h s) node n); [exact Hn|reflexivity|reflexivity|].
    intros _ Hx. exfalso. apply Hx. reflexivity. }
  destruct (blines t) as [|tl0 tls]; [exfalso; apply Hl; reflexivity|].
  bind_inv H h2 E2. apply hupd_ok in E2. destruct E2 as [n2 [En2 ->]].
  rewrite nth_hset_eq in En2 by exact Hlt. injection En2 as <-.
  assert (H2 : hstep (eq node) (hset (s_h s) node (set_lines n []))
                 (hset (hset (s_h s) node (set_lines n [])) node
                    (set_blank (set_lines (set_lines n []) (tl0 :: tls)) (bblank t)))).
  { apply (hstep_hset (eq node) _ node (set_lines n [])); [apply nth_hset_eq; exact Hlt|reflexivity|reflexivity|].
    intros _ Hx. exfalso. apply Hx. reflexivity. }
  destruct (bpar t) as [tp|].
  - bind_inv H h3 E3. injection H as <-. cbn [s_h st_h st_c].
    eapply hstep_trans; [exact H1|]. eapply hstep_trans; [exact H2|].
    eapply hstep_remove_child; [exact E3| |].
    + rewrite nth_hset_ne by exact Hne. rewrite nth_hset_ne by exact Hne. exact Ht.
    + rewrite Hkt. reflexivity.
  - injection H as <-. cbn [s_h st_h st_c]. eapply hstep_trans; [exact H1|exact H2].
Qed.


(* ---------- the paragraph transformer ---------- *)
Lemma lrd_transform_hstep exc s node s' n :
  lrd_transform space_table punct_table norm s node = Ok s' ->
  nth_error (s_h s) node = Some n -> bk n = BParagraph -> hstep exc (s_h s) (s_h s').
Proof.
  unfold lrd_transform. intros H Hn Hk.
  bind_inv H nd End. apply hget_ok in End. rewrite Hn in End. injection End as <-.
  bind_inv H br Ebr. bind_inv H x Ex. destruct x as [c removes]. bind_inv H lines El.
  destruct lines as [|l0 ls].
  - unfold new_node, halloc in H. cbv beta iota zeta in H. cbn [s_h st_h st_c] in H.
    destruct (bpar n) as [p|]; [|discriminate H]. bind_inv H h Eh. injection H as <-. cbn [s_h st_h st_c].
    eapply hstep_trans;
      [apply (hstep_alloc exc (s_h s) (set_blank (mknode BTextBlock 0) (bblank n))); reflexivity|].
    eapply hstep_replace_child; [exact Eh| | |apply nth_app_new|reflexivity].
    + rewrite nth_error_app1; [exact Hn|]. eapply nth_some_lt; exact Hn.
    + rewrite Hk. reflexivity.
  - bind_inv H h Eh. injection H as <-. cbn [s_h st_h st_c] in *.
    apply hupd_ok in Eh. destruct Eh as [n1 [En1 ->]]. rewrite Hn in En1. injection En1 as <-.
    apply (hstep_hset exc (s_h s) node n); [exact Hn|reflexivity|reflexivity|].
    intros Hh. rewrite Hk in Hh. discriminate Hh.
Qed.


(* ---------- the three required lemmas ---------- *)
Lemma p_continue_hstep bp s node s' cont kids n :
  p_continue space_table re_t1c bp s node = Ok (s', cont, kids) ->
  nth_error (s_h s) node = Some n -> bk n = pkind bp -> hstep no_exc (s_h s) (s_h s').
Proof.
  intros H Hn Hk.
  assert (Hu : upd1 node (s_h s) (s_h s') /\ bk n <> BHeading \/ s' = s).
  { unfold p_continue in H. destruct bp; cbn [pkind] in Hk.
    1, 2, 6: right; injection H as <- _ _; reflexivity.
    all: left; (split; [|rewrite Hk; discriminate]); bind_inv H x Ex; destruct x as [s1 b]; cbn [fst snd] in H;
      injection H as <- _ _.
    - eapply list_continue_upd1; eassumption.
    - eapply list_item_continue_upd1; eassumption.
    - eapply code_continue_upd1; eassumption.
    - eapply fenced_continue_upd1; eassumption.
    - eapply bq_continue_upd1; eassumption.
    - eapply html_continue_upd1; eassumption.
    - eapply paragraph_continue_upd1; eassumption. }
  destruct Hu as [[Hu Hh]| ->]; [|apply hstep_refl].
  eapply upd1_hstep; [exact Hu|exact Hn|left; exact Hh].
Qed.

Lemma p_close_hstep bp s node s' n :
  p_close space_table bp s node = Ok s' ->
  nth_error (s_h s) node = Some n -> bk n = pkind bp ->
  (bp = PSetext -> exists tmp t, c_tmp_para (s_c s) = Some tmp /\ nth_error (s_h s) tmp = Some t /\
                                 bk t = BParagraph /\ blines t <> []) ->
  hstep (eq node) (s_h s) (s_h s').
Proof.
  intros H Hn Hk Hs. unfold p_close in H. destruct bp; cbn [pkind] in Hk.
  - destruct (Hs eq_refl) as [tmp [t [Hc [Ht [Hkt Hl]]]]].
    eapply setext_close_hstep; eassumption.
  - injection H as <-. apply hstep_refl.
  - eapply list_close_hstep; eassumption.
  - injection H as <-. apply hstep_refl.
  - eapply upd1_hstep; [eapply code_close_upd1; exact H|exact Hn|left; rewrite Hk; discriminate].
  - injection H as <-. apply hstep_refl.
  - eapply upd1_hstep; [eapply fenced_close_upd1; exact H|exact Hn|left; rewrite Hk; discriminate].
  - injection H as <-. apply hstep_refl.
  - injection H as <-. apply hstep_refl.
  - eapply paragraph_close_hstep; eassumption.
Qed.

Lemma transform_paragraph_hstep s node s' gone n :
  transform_paragraph space_table punct_table norm s node = Ok (s', gone) ->
  nth_error (s_h s) node = Some n -> bk n = BParagraph -> hstep no_exc (s_h s) (s_h s').
Proof.
  unfold transform_paragraph. intros H Hn Hk. bind_inv H s1 E1. bind_inv H nd End. injection H as <- _.
  eapply lrd_transform_hstep; eassumption.
Qed.

End Frame.
