(* Helper file for TypoDefWfTotBlk.v: the loop open_blocks_loopD (part 2 of the port of ParseBlocksTotalOpen.v:
   np_loop, push_kids_pre) under the two Section Hypotheses round_spec / dd_round_spec (one round of the loop:
   proved in TypoDefWfTotBlkOpenA*.v).
     RGD_pushD / RGD_pushDL   the run behind a pushed block of a default parser / behind the pair
                              (DefinitionList, DefinitionDescription) the definition list parsers push
     push_kids_preD, dd_preD  the state behind a pushed container / behind the pushed description
     np_loopD                 the rounds behind the first one (the last opened block is no paragraph) *)
Require Import GM.model.Base GM.model.Util GM.model.Reader GM.model.ReaderSpec GM.model.Blocks GM.model.ListItem
               GM.model.LeafBlocks GM.model.CodeBlock GM.model.LinkDest GM.model.Regex GM.model.BlockParse
               GM.model.TypoDefParseD.
Require Import GM.proofs.ReaderProofs GM.proofs.BlocksProofs
               GM.proofs.ParseBlocksTotalReader GM.proofs.ParseBlocksTotalDefs GM.proofs.ParseBlocksTotalSpec
               GM.proofs.ParseBlocksTotalSt GM.proofs.ParseBlocksTotalShape GM.proofs.ParseBlocksTotalOpen
               GM.proofs.TypoDefConservativeBlkInv
               GM.proofs.TypoDefWfTotBlkDefs GM.proofs.TypoDefWfTotBlkSpec GM.proofs.TypoDefWfTotBlkOpenI
               GM.proofs.TypoDefWfTotBlkOpenAI GM.proofs.TypoDefWfTotBlkOpenB1.
From Coq Require Import ZArith Lia List Bool Wf_nat.
Import ListNotations.
Open Scope Z_scope.

Section S.
Variable space_table punct_table : list N.
Variable norm : bytes -> bytes.
Variable re_t1o re_t1c re_t2 re_t3 re_t4 re_t5 re_t6 re_t7 : re.
Variable allowed_tags : list bytes.
Variable src : bytes.
Hypothesis tbl : TblOK space_table.
Notation SI := (SI space_table src).
Notation SD := (SD space_table src).
Notation OBLD := (open_blocks_loopD true space_table punct_table norm re_t1o re_t2 re_t3 re_t4 re_t5 re_t6 re_t7 allowed_tags).
Notation isb := (Reader.is_blank space_table).
Notation RGD := (RGD space_table src).
Notation PFD := (PFD space_table src).
Notation DLF := (DLF space_table src).
Notation DDF := (DDF space_table src).

Hypothesis HR : round_spec space_table punct_table norm re_t1o re_t2 re_t3 re_t4 re_t5 re_t6 re_t7 allowed_tags src.
Hypothesis HD : dd_round_spec space_table punct_table norm re_t1o re_t2 re_t3 re_t4 re_t5 re_t6 re_t7 allowed_tags src.

(* ---------------------------------------------------------------------------------------- *)
(* the run behind a pushed block                                                              *)
Lemma RGD_pushD parent pn s bp node kids s1 nn s' new' :
  nth_error (s_h s) parent = Some pn ->
  PFD parent pn s bp node kids s1 -> nth_error (s_h s1) node = Some nn ->
  RGD node nn s1 s' new' -> (kids = false -> new' = [] /\ s_h s' = s_h s1) ->
  (bp = PList -> exists it, nth_error new' 0%nat = Some (it, PListItem)) ->
  RGD parent pn s s' ((node, bp) :: new').
Proof.
  intros Hp (S1 & K1 & Lr & Hk & Hnode & Hops & HAF & (nn0 & N1 & N2 & N3 & N4 & N5) & (pn1 & P1 & P2) & Hlist & Hf1 & Hf2 & _) Hn R Hleaf Hl.
  rewrite Hn in N1. injection N1 as <-.
  assert (Hcont : new' <> [] -> is_container bp = true).
  { intros Hne. destruct kids; [apply (Hk eq_refl)|]. destruct (Hleaf eq_refl) as [C _]. contradiction. }
  eapply (RGD_cons space_table src parent pn s node bp nn s1 s' new'); eauto.
  - intros Kp. destruct kids; [|apply (Hleaf eq_refl)]. exfalso. destruct (Hk eq_refl) as [_ Hc].
    rewrite N2 in Kp. apply kind_para_parser in Kp. subst bp. discriminate.
  - left. cbn [fst]. lia.
  - intros ->. exact N2.
  - intros Hne. left. apply Hcont, Hne.
  - intros C. destruct N4 as [N4 _]. congruence.
  - intros Kl. exists pn1. csplit; auto. destruct HAF as [_ HA]. destruct (HA parent pn Hp) as (pn' & E' & K' & _).
    rewrite P1 in E'. injection E' as <-. congruence.
  - intros ->. split; [|apply Hf1; reflexivity]. destruct new' as [|e new'']; [reflexivity|].
    exfalso. specialize (Hcont ltac:(discriminate)). discriminate.
Qed.

(* the run behind the pair the definition list parsers push *)
Lemma RGD_pushDL parent pn s lst s1 dd s2 dn s' new' :
  nth_error (s_h s) parent = Some pn ->
  DLF parent pn s lst s1 -> DDF lst s1 dd s2 -> nth_error (s_h s2) dd = Some dn ->
  RGD dd dn s2 s' new' -> RGD parent pn s s' ((lst, PHTML) :: (dd, PHTML) :: new').
Proof.
  intros Hp (S1 & K1 & Sp & Hin1 & DLn & Hops & HAF & Hfr & (ln & L1 & L2 & L3 & L4 & L5) & Hpl & Hf & Ht & Knl)
         (S2 & K2 & SL & Hadv & Hops2 & Hdd & HAF2 & (dn0 & D1 & D2 & D3) & Hpl2 & Hf2 & Ht2) Hn R.
  rewrite Hn in D1. injection D1 as <-.
  pose proof R as (_ & K3 & _).
  assert (Kl : bk ln = BHTML) by (apply is_dl_kind, L2).
  assert (Kd : bk dn = BHTML) by (apply is_dd_kind, D2).
  assert (R1 : RGD lst ln s1 s' ((dd, PHTML) :: new')).
  { eapply (RGD_cons space_table src lst ln s1 dd PHTML dn s2 s' new'); eauto; try discriminate.
    - apply same_line_le, SL.
    - rewrite Kd. discriminate.
    - left. exact Hdd.
    - intros _. right. split; [reflexivity|]. right. exists dn. auto.
    - intros C. rewrite (is_dd_not_dl _ D2) in C. discriminate.
    - rewrite Kl. discriminate. }
  eapply (RGD_cons space_table src parent pn s lst PHTML ln s1 s' ((dd, PHTML) :: new')); eauto; try discriminate.
  - apply same_pos_le, Sp.
  - rewrite Kl. discriminate.
  - destruct Hfr as [Hfr|Hfr]; [left; exact Hfr|right; split; [reflexivity|exact Hfr]].
  - intros _. right. split; [reflexivity|]. left. exists ln. auto.
  - intros _. exists dd. split; [reflexivity|]. eapply ddk_keep; [exact K3|]. exists dn. auto.
  - intros C. contradiction.
Qed.

(* ---------------------------------------------------------------------------------------- *)
(* the rounds behind the first one: the last opened block is not a paragraph                  *)
Definition NPreD (parent : nat) (pn : bnode) (cont : bool) (res : Z) (s : st) : Prop :=
  SD s /\ nth_error (s_h s) parent = Some pn /\ is_dl pn = false /\ lastatt s /\
  (bk pn = BList -> LP space_table s parent) /\
  last_para (s_c s) = None /\
  (res = newBlocksOpened \/ (cont = false /\ sin s /\ isb (sview s) = false /\ (3 <? wof s) = false)).

Definition NPostD (parent : nat) (pn : bnode) (res : Z) (s s' : st) (new : list (nat * bparser)) : Prop :=
  RGD parent pn s s' new /\ ops s' = ops s ++ new /\ c_tmp_para (s_c s') = c_tmp_para (s_c s) /\
  (forall e, In e new -> snd e <> PSetext) /\
  (bk pn = BList -> exists it, nth_error new 0%nat = Some (it, PListItem)) /\
  (res <> newBlocksOpened -> new <> []).

(* the state behind a pushed container *)
Lemma push_kids_preD parent pn cont s bp node s1 : PFD parent pn s bp node true s1 ->
  exists nn, nth_error (s_h s1) node = Some nn /\ bk nn = kind_of_parser bp /\ bp <> PSetext /\
    ops s1 = ops s ++ [(node, bp)] /\ NPreD node nn cont newBlocksOpened s1 /\ pot nn s1 + 1 <= pot pn s.
Proof.
  intros PFx.
  pose proof PFx as (S1 & K1 & Lr & Hk & Hnode & Hops & HAF & (nn & N1 & N2 & N3 & N4 & N5) & Hpl & Hlist & Hf1 & Hf2 & Hset & Htmp & HPL & Hadv).
  destruct (Hk eq_refl) as [SL Hc].
  assert (Hns : bp <> PSetext) by (intros ->; discriminate).
  assert (Hops1 : ops s1 = ops s ++ [(node, bp)]) by (destruct Hops as [H|[H _]]; [exact H|contradiction]).
  pose proof S1 as [S1i _].
  assert (El1 : last_opened (s_c s1) = Some (node, bp)).
  { apply (last_opened_app _ (ops s)); [apply (ci_len _ _ (si_c _ _ _ S1i))|exact Hops1]. }
  exists nn. csplit; auto.
  - unfold NPreD. csplit; auto.
    + apply N4.
    + intros l lp n El En. rewrite El1 in El. injection El as <- <-. rewrite N1 in En. injection En as <-. congruence.
    + intros K. assert (Ebp : bp = PList) by (rewrite N2 in K; destruct bp; cbn in K; congruence).
      destruct (HPL Ebp) as (_ & Q1 & Q2 & Q3 & _ & _). unfold LP. csplit; auto. left. exists node, bp, nn. auto.
    + unfold last_para. rewrite El1. destruct bp; try reflexivity. discriminate Hc.
  - unfold pot in *. destruct SL as (_ & Q2 & Q3 & _). pose proof (ri_bounds _ (si_r _ _ _ S1i)) as Hb1.
    assert (Hdec : bp = PList \/ bp <> PList) by (destruct bp; (left; reflexivity) || (right; discriminate)).
    destruct Hdec as [Ebp|Hnl].
    + destruct (bkind_eqb_spec (bk pn) BList) as [K|_].
      * exfalso. specialize (Hlist K). congruence.
      * rewrite N2, Ebp. change (bkind_eqb (kind_of_parser PList) BList) with true. lia.
    + specialize (Hadv eq_refl Hnl). destruct (bkind_eqb (bk nn) BList); destruct (bkind_eqb (bk pn) BList); lia.
Qed.

(* the state behind the pushed list: the hypothesis of the round below it *)
Lemma dl_preD parent pn s lst s1 : DLF parent pn s lst s1 ->
  lastatt s1 /\ pot pn s1 = pot pn s /\ 4 <= pot pn s + 2 /\ bk pn <> BList.
Proof.
  intros (S1 & K1 & Sp & Hin1 & DLn & Hops & HAF & Hfr & (ln & L1 & L2 & L3 & L4 & L5) & Hpl & Hf & Ht & Knl).
  pose proof S1 as [S1i _].
  assert (El1 : last_opened (s_c s1) = Some (lst, PHTML)).
  { destruct Hops as [H|(b & x & _ & H)]; eapply last_opened_app; try exact H; apply (ci_len _ _ (si_c _ _ _ S1i)). }
  csplit.
  - intros l lp n El En. rewrite El1 in El. injection El as <- <-. rewrite L1 in En. injection En as <-. congruence.
  - unfold pot. destruct Sp as (_ & Q & _). rewrite Q. reflexivity.
  - unfold pot. destruct Sp as (_ & Q & _). pose proof (ri_bounds _ (si_r _ _ _ S1i)) as Hb1. rewrite Q in Hb1.
    destruct (bkind_eqb_spec (bk pn) BList) as [K|_]; [contradiction|]. lia.
  - exact Knl.
Qed.

(* the state behind the pushed description *)
Lemma dd_preD lst cont s1 dd s2 : DDF lst s1 dd s2 ->
  exists dn, nth_error (s_h s2) dd = Some dn /\ NPreD dd dn cont newBlocksOpened s2 /\
    forall pn, bk pn <> BList -> pot dn s2 + 2 <= pot pn s1.
Proof.
  intros (S2 & K2 & SL & Hadv & Hops2 & Hdd & HAF2 & (dn & D1 & D2 & D3) & Hpl2 & Hf2 & Ht2).
  pose proof S2 as [S2i _].
  assert (El2 : last_opened (s_c s2) = Some (dd, PHTML)).
  { eapply last_opened_app; [apply (ci_len _ _ (si_c _ _ _ S2i))|exact Hops2]. }
  assert (Kd : bk dn = BHTML) by (apply is_dd_kind, D2).
  exists dn. csplit; auto.
  - unfold NPreD. csplit; auto.
    + apply is_dd_not_dl, D2.
    + intros l lp n El En. rewrite El2 in El. injection El as <- <-. rewrite D1 in En. injection En as <-. congruence.
    + intros K. rewrite Kd in K. discriminate.
    + unfold last_para. rewrite El2. reflexivity.
  - intros pn Knl. unfold pot. rewrite Kd. destruct SL as (_ & Q2 & Q3 & _).
    destruct (bkind_eqb_spec (bk pn) BList) as [K|_]; [contradiction|]. cbn [bkind_eqb]. lia.
Qed.

Lemma np_loopD blank : forall fuel parent pn cont res s, NPreD parent pn cont res s -> (Z.to_nat (pot pn s) <= fuel)%nat ->
  exists cont' s' new, OBLD fuel parent blank cont res s = Ok (newBlocksOpened, cont', s') /\ NPostD parent pn res s s' new.
Proof using HR HD.
  induction fuel as [fuel IH] using lt_wf_ind. intros parent pn cont res s (HS & Hp & Hdl & Hatt & HLP & Hnp & Hmode) Hfuel.
  pose proof HS as [HSi _].
  destruct fuel as [|f].
  { exfalso. pose proof (ri_bounds _ (si_r _ _ _ HSi)) as Hb. unfold pot in Hfuel. destruct (bkind_eqb (bk pn) BList); lia. }
  destruct (HR f parent pn blank cont res s HS Hp Hdl Hatt HLP) as [(s' & E & S' & D & Knl & Hwhy)|(Hin & t & E & O)].
  - (* nothing more is opened *)
    destruct Hmode as [->|(Hc & Hin & Hb & Hw)].
    2:{ exfalso. subst cont. destruct Hwhy as [H|[H|[H|H]]]; [discriminate|contradiction|congruence|congruence]. }
    exists cont, s', []. split; [exact E|]. unfold NPostD. csplit.
    + apply RGD_nil; assumption.
    + rewrite (dcl_ops _ _ D), app_nil_r. reflexivity.
    + destruct D as (_ & _ & _ & _ & _ & Dt). exact Dt.
    + intros e [].
    + intros K. contradiction.
    + intros C. congruence.
  - rewrite E. destruct O as [O|[O|O]].
    + exfalso. destruct O as (s' & base & x & _ & _ & _ & _ & Eo & _).
      pose proof (last_opened_app _ _ _ (ci_len _ _ (si_c _ _ _ HSi)) Eo) as El.
      unfold last_para in Hnp. rewrite El in Hnp. discriminate.
    + destruct O as (bp & node & kids & s1 & -> & PFx).
      pose proof PFx as (S1 & K1 & Lr & Hk & Hnode & Hops & HAF & (nn & N1 & N2 & N3 & N4 & N5) & Hpl & Hlist & Hf1 & Hf2 & Hset & Htmp & HPL & Hadv).
      assert (Hns : bp <> PSetext).
      { intros ->. destruct (Hset eq_refl) as (_ & _ & x & El). unfold last_para in Hnp. rewrite El in Hnp. discriminate. }
      assert (Hops1 : ops s1 = ops s ++ [(node, bp)]) by (destruct Hops as [H|[H _]]; [exact H|contradiction]).
      destruct kids.
      * (* a container: the loop goes on below it *)
        destruct (push_kids_preD parent pn cont s bp node s1 PFx) as (nn' & N1' & _ & _ & _ & Hpre & Hpot).
        rewrite N1 in N1'. injection N1' as <-.
        destruct (IH f ltac:(lia) node nn cont newBlocksOpened s1 Hpre) as (cont' & s' & new' & E' & (R & Ho' & Ht' & Hns' & Hl' & _)).
        { unfold pot in *. destruct (bkind_eqb (bk pn) BList); destruct (bkind_eqb (bk nn) BList); lia. }
        exists cont', s', ((node, bp) :: new'). split; [exact E'|]. unfold NPostD. csplit.
        -- eapply RGD_pushD; [exact Hp|exact PFx|exact N1|exact R|discriminate|]. intros ->. apply Hl'. rewrite N2. reflexivity.
        -- rewrite Ho', Hops1, <- app_assoc. reflexivity.
        -- rewrite Ht'. apply Htmp, Hns.
        -- intros e [<-|He]; [exact Hns|apply Hns', He].
        -- intros K. exists node. rewrite (Hlist K). reflexivity.
        -- discriminate.
      * (* a leaf *)
        exists cont, s1, [(node, bp)]. split; [reflexivity|]. unfold NPostD. csplit.
        -- eapply RGD_pushD; [exact Hp|exact PFx|exact N1|apply RGD_nil; [exact S1|apply dcl_refl]|auto|].
           intros ->. exfalso. destruct (HPL eq_refl) as [C _]. discriminate.
        -- exact Hops1.
        -- apply Htmp, Hns.
        -- intros e [<-|[]]. exact Hns.
        -- intros K. exists node. rewrite (Hlist K). reflexivity.
        -- discriminate.
    + (* the definition list parser has pushed a list: the next round pushes the description *)
      destruct O as (lst & s1 & -> & DL).
      destruct (dl_preD parent pn s lst s1 DL) as (Hatt1 & Hpot1 & Hpos & Knl).
      destruct f as [|f']; [exfalso; lia|].
      destruct (HD f' parent pn s lst blank cont s1 DL Hatt1) as (dd & s2 & E2 & DD).
      rewrite E2.
      destruct (dd_preD lst cont s1 dd s2 DD) as (dn & D1 & Hpre & Hpot2). specialize (Hpot2 pn Knl).
      destruct (IH f' ltac:(lia) dd dn cont newBlocksOpened s2 Hpre) as (cont' & s' & new' & E' & (R & Ho' & Ht' & Hns' & Hl' & _)).
      { lia. }
      pose proof DL as (_ & _ & _ & _ & _ & Hops & _ & _ & _ & _ & _ & Ht1 & _).
      pose proof DD as (_ & _ & _ & _ & Hops2 & _ & _ & _ & _ & _ & Ht2).
      assert (Hops1 : ops s1 = ops s ++ [(lst, PHTML)]).
      { destruct Hops as [H|(b & x & Eo & _)]; [exact H|]. exfalso.
        pose proof (last_opened_app _ _ _ (ci_len _ _ (si_c _ _ _ HSi)) Eo) as El.
        unfold last_para in Hnp. rewrite El in Hnp. discriminate. }
      exists cont', s', ((lst, PHTML) :: (dd, PHTML) :: new'). split; [exact E'|]. unfold NPostD. csplit.
      * eapply RGD_pushDL; eassumption.
      * rewrite Ho', Hops2, Hops1, <- !app_assoc. reflexivity.
      * rewrite Ht', Ht2. exact Ht1.
      * intros e [<-|[<-|He]]; [discriminate|discriminate|apply Hns', He].
      * intros K. contradiction.
      * discriminate.
Qed.

End S.
