(* C03 / C04 mechanism theorems for the text-level writers.

   All five theorems are proved as stated (no statement was changed, no hypothesis added).
   Remarks:
   - `all_bytes v` in writer_write_out is not needed by the proof (EscOut does not bound bytes).
   - `plus_safe` is not used in this file; `entities_bytes` is used only by url_value_safe
     (the destination after entity resolution must still consist of bytes for
     UrlProofs.url_escape_alphabet to apply).  On the real tables it is discharged by
       forallb (fun e => forallb (fun c => c <? 256) (snd e)) entities = true   (vm_compute).
   - After the section closes: writer_write_out, raw_write_out, render_attributes_out depend on
     table_std only; render_attributes_filtered on nothing; url_value_safe on table_std, url_ok
     and entities_bytes. *)
Require Import GM.model.Base GM.model.Util GM.model.HtmlDecode GM.model.UrlSpec GM.model.HtmlWriter.
Require Import GM.proofs.Finite GM.proofs.EscapeProofs GM.proofs.UrlProofs.
From Coq Require Import Lia ZifyBool ZifyNat ZifyN.
Open Scope N_scope.

(* ================= table-free auxiliary facts ================= *)

Lemma EscOut_app a b : EscOut a -> EscOut b -> EscOut (a ++ b).
Proof.
  intros Ha Hb. induction Ha as [|c w H1 H2 H3 H4 _ IH| w _ IH| w _ IH| w _ IH| w _ IH].
  - exact Hb.
  - cbn [app]. apply eo_plain; assumption.
  - rewrite <- app_assoc. apply eo_quot. exact IH.
  - rewrite <- app_assoc. apply eo_amp. exact IH.
  - rewrite <- app_assoc. apply eo_lt. exact IH.
  - rewrite <- app_assoc. apply eo_gt. exact IH.
Qed.

Lemma plain_out w : Forall (fun c => c <> 60 /\ c <> 62 /\ c <> 34 /\ c <> 38) w -> EscOut w.
Proof.
  intro H. induction H as [|c w (H1 & H2 & H3 & H4) _ IH]; [apply eo_nil|].
  apply eo_plain; assumption.
Qed.

Lemma high_out w : Forall (fun c => 128 <= c) w -> EscOut w.
Proof.
  intro H. apply plain_out. apply (Forall_impl _ (P := fun c => 128 <= c)); [|exact H].
  intros c Hc. cbv beta in Hc. lia.
Qed.

Lemma ref_out r : r = r_quot \/ r = r_amp \/ r = r_lt \/ r = r_gt -> EscOut r.
Proof.
  intros [-> | [-> | [-> | ->]]].
  - rewrite <- (app_nil_r r_quot). apply eo_quot, eo_nil.
  - rewrite <- (app_nil_r r_amp). apply eo_amp, eo_nil.
  - rewrite <- (app_nil_r r_lt). apply eo_lt, eo_nil.
  - rewrite <- (app_nil_r r_gt). apply eo_gt, eo_nil.
Qed.

(* ---------- UTF-8 encoding ---------- *)
Lemma encode_rune_high r : 128 <= r -> Forall (fun c => 128 <= c) (encode_rune r).
Proof.
  intro Hr. unfold encode_rune.
  destruct (N.ltb_spec r 128) as [H0|H0]; [lia|].
  destruct (r <? 2048); [repeat constructor; lia|].
  destruct (negb (valid_rune r)); [repeat constructor; lia|].
  destruct (r <? 65536); repeat constructor; lia.
Qed.

Lemma encode_rune_out r : r <> 60 -> r <> 62 -> r <> 34 -> r <> 38 -> EscOut (encode_rune r).
Proof.
  intros H1 H2 H3 H4. destruct (N.lt_ge_cases r 128) as [Hr|Hr].
  - unfold encode_rune. destruct (N.ltb_spec r 128) as [H0|H0]; [|lia].
    apply eo_plain; try assumption. apply eo_nil.
  - apply high_out, encode_rune_high. exact Hr.
Qed.

Lemma to_valid_rune_cases v : to_valid_rune v = 65533 \/ (to_valid_rune v = v /\ v <= 1114111).
Proof.
  unfold to_valid_rune, valid_rune.
  destruct ((v =? 0) || negb ((v <? 55296) || ((57344 <=? v) && (v <=? 1114111)))) eqn:E.
  - left. reflexivity.
  - right. split; [reflexivity | lia].
Qed.

Lemma to_valid_rune_le v : to_valid_rune v <= 1114111.
Proof. destruct (to_valid_rune_cases v) as [->|[-> H]]; lia. Qed.

Lemma encode_rune_bytes r : r <= 1114111 -> Forall (fun c => c < 256) (encode_rune r).
Proof.
  intro Hr. unfold encode_rune.
  destruct (N.ltb_spec r 128) as [H0|H0]; [repeat constructor; lia|].
  destruct (N.ltb_spec r 2048) as [H1|H1]; [repeat constructor; lia|].
  destruct (negb (valid_rune r)); [repeat constructor; lia|].
  destruct (N.ltb_spec r 65536) as [H2|H2]; repeat constructor; lia.
Qed.

Lemma encode_valid_bytes v : Forall (fun c => c < 256) (encode_rune (to_valid_rune v)).
Proof. apply encode_rune_bytes, to_valid_rune_le. Qed.

(* ---------- read_while ---------- *)
Lemma read_while_app p v : v = fst (read_while p v) ++ snd (read_while p v).
Proof.
  induction v as [|c v IH]; cbn [read_while]; [reflexivity|].
  destruct (p c); [|reflexivity].
  destruct (read_while p v) as [a b]. cbn [fst snd] in *. cbn [app]. f_equal. exact IH.
Qed.

(* ---------- prefixes ---------- *)
Lemma has_prefix_ci_spec p : forall s, has_prefix_ci s p = prefix_of p (map lower_ascii s).
Proof.
  induction p as [|a p IH]; intros [|b s]; cbn [has_prefix_ci prefix_of map]; try reflexivity.
  rewrite IH, N.eqb_sym. reflexivity.
Qed.

Lemma prefix_of_app p q : forall v,
  prefix_of (p ++ q) v = prefix_of p v && prefix_of q (skipn (length p) v).
Proof.
  induction p as [|a p IH]; intros v.
  - cbn [app length skipn]. destruct q, v; reflexivity.
  - destruct v as [|b v]; cbn [app length skipn prefix_of]; [reflexivity|].
    rewrite IH. rewrite andb_assoc. reflexivity.
Qed.

Lemma prefix_first a p b w : a <> b -> prefix_of (a :: p) (b :: w) = false.
Proof. intro H. cbn [prefix_of]. destruct (N.eqb_spec a b); [contradiction | reflexivity]. Qed.

Lemma prefix_head a p v : prefix_of (a :: p) v = true -> exists w, v = a :: w.
Proof.
  destruct v as [|b w]; cbn [prefix_of]; [discriminate|].
  intro H. apply andb_prop in H as [H _]. apply N.eqb_eq in H. subst b. exists w. reflexivity.
Qed.

(* ---------- what the browser sees of a value without controls ---------- *)
Lemma filter_id {A} (f : A -> bool) l : forallb f l = true -> filter f l = l.
Proof.
  induction l as [|x l IH]; cbn [forallb filter]; [reflexivity|].
  intro H. apply andb_prop in H as [Hx Hl]. rewrite Hx. f_equal. apply IH. exact Hl.
Qed.

Lemma drop_leading_id d : forallb url_byte_ok d = true -> drop_leading_ctl d = d.
Proof.
  destruct d as [|c d]; [reflexivity|]. cbn [forallb drop_leading_ctl].
  intro H. apply andb_prop in H as [Hc _]. unfold url_byte_ok in Hc.
  destruct (N.leb_spec c 32) as [H0|H0]; [lia | reflexivity].
Qed.

Lemma no_tabs d : forallb url_byte_ok d = true ->
  forallb (fun c => negb ((c =? 9) || (c =? 10) || (c =? 13))) d = true.
Proof.
  induction d as [|c d IH]; cbn [forallb]; [reflexivity|].
  intro H. apply andb_prop in H as [Hc Hd]. rewrite (IH Hd).
  unfold url_byte_ok in Hc. lia.
Qed.

(* the pure boolean core of the guard: IsDangerousURL on d covers browser_dangerous on the
   lower-cased d *)
Lemma guard_core d : is_dangerous_url d = false ->
  let v := map lower_ascii d in
  prefix_of b_js v || prefix_of b_vb v || prefix_of b_file v ||
    (prefix_of b_data v && negb (data_allowed v)) = false.
Proof.
  intros H v. unfold is_dangerous_url in H.
  rewrite !has_prefix_ci_spec in H. rewrite <- skipn_map in H. fold v in H.
  destruct (prefix_of b_dimg v && Nat.leb 11 (length d)) eqn:Hc.
  - apply andb_prop in Hc as [Hd _].
    unfold data_allowed. rewrite !prefix_of_app. rewrite Hd.
    change (length b_dimg) with 11%nat.
    destruct (prefix_head _ _ _ Hd) as [w Hw].
    assert (Hjs : prefix_of b_js v = false) by (rewrite Hw; apply prefix_first; discriminate).
    assert (Hvb : prefix_of b_vb v = false) by (rewrite Hw; apply prefix_first; discriminate).
    assert (Hfi : prefix_of b_file v = false) by (rewrite Hw; apply prefix_first; discriminate).
    rewrite Hjs, Hvb, Hfi.
    destruct (prefix_of b_png (skipn 11 v)), (prefix_of b_gif (skipn 11 v)),
             (prefix_of b_jpeg (skipn 11 v)), (prefix_of b_webp (skipn 11 v)),
             (prefix_of b_svg (skipn 11 v)), (prefix_of b_data v);
      cbn in H |- *; congruence.
  - destruct (prefix_of b_js v), (prefix_of b_vb v), (prefix_of b_file v), (prefix_of b_data v);
      cbn in H |- *; congruence.
Qed.

Section Writer.
Variable html_escape_table : list (option bytes).
Variable punct_table : list N.
Variable entities : list (bytes * bytes).
Variable url_escape_table : list N.
Variable utf8len_table : list N.
Hypothesis table_std : forall c, esc_entry html_escape_table c = esc_std c.
Hypothesis url_ok : url_tables_ok url_escape_table utf8len_table = true.
Hypothesis plus_safe : url_safe url_escape_table 43 = true.

Definition all_bytes (v : bytes) : Prop := Forall (fun c => c < 256) v.
(* every entity expands to bytes *)
Hypothesis entities_bytes : Forall (fun e => Forall (fun c => c < 256) (snd e)) entities.

(* ---------- escaping pieces ---------- *)
Lemma esc1_out c : EscOut (esc1 html_escape_table c).
Proof.
  destruct (esc1_cases html_escape_table table_std c)
    as [[_ ->]|[[_ ->]|[[_ ->]|[[_ ->]|(H1 & H2 & H3 & H4 & ->)]]]].
  - apply ref_out; auto.
  - apply ref_out; auto.
  - apply ref_out; auto.
  - apply ref_out; auto.
  - apply eo_plain; try assumption. apply eo_nil.
Qed.

Lemma escape_rune_out v : EscOut (escape_rune html_escape_table v).
Proof using table_std.
  clear url_ok plus_safe entities_bytes. (* keep lia from picking up unrelated section hypotheses *)
  unfold escape_rune.
  assert (Hgen : v <> 60 -> v <> 62 -> v <> 34 -> v <> 38 -> EscOut (encode_rune (to_valid_rune v))).
  { intros H1 H2 H3 H4. destruct (to_valid_rune_cases v) as [->|[-> _]].
    - apply encode_rune_out; discriminate.
    - apply encode_rune_out; assumption. }
  destruct (N.ltb_spec v 256) as [Hv|Hv].
  - rewrite table_std. unfold esc_std.
    destruct (N.eqb_spec v 34) as [E1|E1]; [apply ref_out; auto|].
    destruct (N.eqb_spec v 38) as [E2|E2]; [apply ref_out; auto|].
    destruct (N.eqb_spec v 60) as [E3|E3]; [apply ref_out; auto|].
    destruct (N.eqb_spec v 62) as [E4|E4]; [apply ref_out; auto|].
    apply Hgen; assumption.
  - apply Hgen; lia.
Qed.

Theorem raw_write_out v : EscOut (raw_write html_escape_table v).
Proof. unfold raw_write. apply escape_html_out. exact table_std. Qed.

Lemma write_ref_out a out tl :
  write_ref html_escape_table entities a = Some (out, tl) -> EscOut out.
Proof.
  unfold write_ref. intro H.
  repeat match type of H with
  | match ?x with _ => _ end = _ => destruct x; try discriminate H
  end.
  all: injection H as <- _.
  all: first [apply escape_rune_out | apply raw_write_out].
Qed.

Lemma writer_write_fuel_out es : forall f v,
  EscOut (writer_write_fuel html_escape_table punct_table entities f es v).
Proof using table_std.
  clear url_ok plus_safe entities_bytes.
  induction f as [|f IH]; intro v; cbn [writer_write_fuel]; [apply eo_nil|].
  destruct v as [|c rest]; [apply eo_nil|].
  destruct (c =? 92).
  { destruct rest as [|d rest']; [apply esc1_out|].
    destruct (is_punct punct_table d); [apply EscOut_app; [apply esc1_out | apply IH]|].
    destruct (es && (d =? 32)); [apply IH|].
    apply EscOut_app; [apply esc1_out | apply IH]. }
  destruct (c =? 0).
  { apply EscOut_app; [|apply IH]. apply high_out. repeat constructor; lia. }
  destruct (c =? 38).
  { destruct (write_ref html_escape_table entities rest) as [[out tl]|] eqn:Hw.
    - apply EscOut_app; [|apply IH]. exact (write_ref_out _ _ _ Hw).
    - apply EscOut_app; [apply esc1_out | apply IH]. }
  apply EscOut_app; [apply esc1_out | apply IH].
Qed.

(* Write emits only text-safe bytes: no raw < > double-quote, and every & starts one of the
   four references EscapeHTML produces *)
Theorem writer_write_out es v : all_bytes v -> EscOut (writer_write html_escape_table punct_table entities es v).
Proof. intros _. unfold writer_write. apply writer_write_fuel_out. Qed.

(* RenderAttributes: for attribute names of the safe grammar the output is a well-formed
   attribute list whose values are escaped *)
Theorem render_attributes_out filter attrs :
  Forall (fun a => attr_name_ok (a_name a) = true) attrs ->
  AttrsOut (render_attributes html_escape_table filter attrs).
Proof.
  intro H. unfold render_attributes.
  induction H as [|a attrs Ha _ IH]; cbn [flat_map]; [apply ao_nil|].
  destruct (attr_passes filter a); [|exact IH].
  unfold render_attr. rewrite <- !app_assoc.
  apply ao_cons; [exact Ha | apply escape_html_out; exact table_std | exact IH].
Qed.

(* only names accepted by the filter (or with the data- prefix) are written *)
Theorem render_attributes_filtered f attrs :
  exists kept, render_attributes html_escape_table (Some f) attrs = flat_map (render_attr html_escape_table) kept /\
    Forall (fun a => In a attrs /\ (f (a_name a) = true \/ prefix_of data_prefix (a_name a) = true)) kept.
Proof.
  exists (List.filter (attr_passes (Some f)) attrs). split.
  - unfold render_attributes. induction attrs as [|a attrs IH]; cbn [flat_map List.filter]; [reflexivity|].
    destruct (attr_passes (Some f) a); cbn [flat_map app]; rewrite IH; reflexivity.
  - apply Forall_forall. intros a Ha. apply filter_In in Ha as [Hin Hp].
    split; [exact Hin|]. unfold attr_passes in Hp. apply orb_true_iff in Hp. exact Hp.
Qed.

(* ---------- all_bytes is preserved by the resolving stages of URLEscape ---------- *)
Lemma ab_tail c v : all_bytes (c :: v) -> all_bytes v.
Proof. intro H. inversion H as [|c' v' _ Hv]; exact Hv. Qed.

Lemma ab_app_r a b : all_bytes (a ++ b) -> all_bytes b.
Proof. intro H. apply Forall_app in H. apply H. Qed.

Lemma ab_app a b : all_bytes a -> all_bytes b -> all_bytes (a ++ b).
Proof. intros Ha Hb. apply Forall_app. split; assumption. Qed.

Lemma unescape_punct_bytes : forall n v, (length v <= n)%nat -> all_bytes v ->
  all_bytes (unescape_punct punct_table v).
Proof using Type.
  clear table_std url_ok plus_safe entities_bytes.
  induction n as [|n IH]; intros v Hn Hv.
  - destruct v as [|c v]; [constructor | cbn [length] in Hn; lia].
  - destruct v as [|c rest]; [constructor|]. cbn [unescape_punct].
    destruct rest as [|d rest']; [exact Hv|].
    cbn [length] in Hn.
    inversion Hv as [|c' v' Hc Hr]; subst c' v'.
    inversion Hr as [|d' v' Hd Hr']; subst d' v'.
    destruct ((c =? 92) && is_punct punct_table d).
    + constructor; [exact Hd|]. apply IH; [lia | exact Hr'].
    + constructor; [exact Hc|]. apply IH; [cbn [length]; lia | exact Hr].
Qed.

Lemma numeric_ref_bytes a repl tl : all_bytes a -> numeric_ref a = Some (repl, tl) ->
  all_bytes repl /\ all_bytes tl.
Proof.
  unfold numeric_ref. intros Ha H.
  repeat match type of H with
  | match read_while ?p ?v with _ => _ end = _ =>
      let E := fresh "E" in
      pose proof (read_while_app p v) as E; destruct (read_while p v) as [? ?]; cbn [fst snd] in E
  | match ?x with _ => _ end = _ => destruct x; try discriminate H
  end.
  all: injection H as <- <-.
  all: split; [apply encode_valid_bytes|].
  - apply ab_tail, ab_tail in Ha.
    match goal with E : _ = _ ++ _ |- _ => rewrite E in Ha end.
    apply ab_app_r, ab_tail in Ha. exact Ha.
  - apply ab_tail in Ha.
    match goal with E : _ = _ ++ _ |- _ => rewrite E in Ha end.
    apply ab_app_r, ab_tail in Ha. exact Ha.
Qed.

Lemma resolve_numeric_fuel_bytes : forall f v, all_bytes v -> all_bytes (resolve_numeric_fuel f v).
Proof.
  induction f as [|f IH]; intros v Hv; cbn [resolve_numeric_fuel]; [constructor|].
  destruct v as [|c rest]; [constructor|].
  inversion Hv as [|c' v' Hc Hr]; subst c' v'.
  destruct (c =? 38).
  - destruct (numeric_ref rest) as [[repl tl]|] eqn:Hn.
    + destruct (numeric_ref_bytes _ _ _ Hr Hn) as [H1 H2].
      apply ab_app; [exact H1 | apply IH; exact H2].
    + constructor; [exact Hc | apply IH; exact Hr].
  - constructor; [exact Hc | apply IH; exact Hr].
Qed.

Lemma lookup_entity_bytes_gen name : forall tab,
  Forall (fun e => Forall (fun c => c < 256) (snd e)) tab ->
  match lookup_entity tab name with Some cs => all_bytes cs | None => True end.
Proof.
  intros tab Ht. induction Ht as [|[n cs] tab He _ IH]; cbn [lookup_entity]; [exact I|].
  destruct (bytes_eqb n name); [exact He | exact IH].
Qed.

Lemma lookup_entity_bytes name :
  match lookup_entity entities name with Some cs => all_bytes cs | None => True end.
Proof. apply lookup_entity_bytes_gen. exact entities_bytes. Qed.

Lemma entity_ref_bytes a repl tl : all_bytes a -> entity_ref entities a = Some (repl, tl) ->
  all_bytes repl /\ all_bytes tl.
Proof.
  unfold entity_ref. intros Ha H.
  repeat match type of H with
  | match read_while ?p ?v with _ => _ end = _ =>
      let E := fresh "E" in
      pose proof (read_while_app p v) as E; destruct (read_while p v) as [? ?]; cbn [fst snd] in E
  | match lookup_entity entities ?n with _ => _ end = _ =>
      let L := fresh "L" in
      pose proof (lookup_entity_bytes n) as L; destruct (lookup_entity entities n);
      try discriminate H
  | match ?x with _ => _ end = _ => destruct x; try discriminate H
  end.
  all: injection H as <- <-.
  all: split; [assumption|].
  all: match goal with E : _ = _ ++ _ |- _ => rewrite E in Ha end.
  all: apply ab_app_r, ab_tail in Ha; exact Ha.
Qed.

Lemma resolve_entities_fuel_bytes : forall f v, all_bytes v ->
  all_bytes (resolve_entities_fuel entities f v).
Proof.
  induction f as [|f IH]; intros v Hv; cbn [resolve_entities_fuel]; [constructor|].
  destruct v as [|c rest]; [constructor|].
  inversion Hv as [|c' v' Hc Hr]; subst c' v'.
  destruct (c =? 38).
  - destruct (entity_ref entities rest) as [[repl tl]|] eqn:Hn.
    + destruct (entity_ref_bytes _ _ _ Hr Hn) as [H1 H2].
      apply ab_app; [exact H1 | apply IH; exact H2].
    + constructor; [exact Hc | apply IH; exact Hr].
  - constructor; [exact Hc | apply IH; exact Hr].
Qed.

Lemma url_escape_byte_ok dest resolve : all_bytes dest ->
  forallb url_byte_ok (url_escape url_escape_table utf8len_table punct_table entities dest resolve) = true.
Proof using url_ok entities_bytes.
  intro Hd. unfold url_escape. destruct resolve.
  - apply (url_escape_alphabet _ _ url_ok).
    apply resolve_entities_fuel_bytes, resolve_numeric_fuel_bytes.
    apply (unescape_punct_bytes (length dest)); [apply le_n | exact Hd].
  - apply (url_escape_alphabet _ _ url_ok). exact Hd.
Qed.

Lemma browser_view_escaped d : forallb url_byte_ok d = true ->
  browser_view (escape_html html_escape_table d) = map lower_ascii d.
Proof.
  intro H. unfold browser_view.
  rewrite (html_decode_escape _ table_std), (drop_leading_id d H), (filter_id _ _ (no_tabs d H)).
  reflexivity.
Qed.

(* the safe-mode URL guard: whatever destination the parser stored, the value written into
   href/src is never one a browser would treat as javascript:, vbscript:, file: or a
   non-image data: URL *)
Theorem url_value_safe dest resolve : all_bytes dest ->
  browser_dangerous
    (url_value html_escape_table punct_table entities url_escape_table utf8len_table false dest resolve) = false.
Proof.
  intro Hd. unfold url_value. cbv zeta.
  pose proof (url_escape_byte_ok dest resolve Hd) as Hok.
  set (d := url_escape url_escape_table utf8len_table punct_table entities dest resolve) in *.
  cbn [orb]. destruct (is_dangerous_url d) eqn:Hdg; cbn [negb].
  - reflexivity.
  - unfold browser_dangerous. cbv zeta. rewrite (browser_view_escaped d Hok).
    exact (guard_core d Hdg).
Qed.

End Writer.
