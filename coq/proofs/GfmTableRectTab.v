(* C17 for the GFM parser model, part 1: the Table subtree GfmParse.table_tree builds from a table
   the paragraph transformer (TableX.transform) yields satisfies tables_ok (model/GfmSpec.v). *)
Require Import GM.model.Base GM.model.Util GM.model.Reader GM.model.Regex GM.model.HtmlWriter GM.model.Html GM.model.HtmlI
               GM.model.TableX GM.model.BlockParse GM.model.InlineParse GM.model.BlockParseX GM.model.InlineParseX
               GM.model.GfmParse GM.model.GfmI GM.model.GfmSpec.
Require Import GM.proofs.TableProofs.
From Coq Require Import List ZArith Bool Lia.
Import ListNotations.

(* the invariant kept for every table stored next to the heap *)
Definition good_table (t : table) : Prop := tables_ok false (table_tree t) = true.

Section Tab.
Variable space_table : list N.

(* ---------- header rows have written cells only ---------- *)
Lemma parse_cells_header_some fuel : forall src line base pos limit aligns cells i c,
  parse_cells space_table fuel src line base pos limit aligns true = Ok cells ->
  nth_error cells i = Some c -> exists s, fst c = Some s.
Proof.
  induction fuel as [|f IH]; intros src line base pos limit aligns cells i c H Hn;
    cbn [TableX.parse_cells] in H.
  - discriminate H.
  - destruct (pos <? limit)%Z.
    + assert (Hb : exists a s2 rest al',
                 parse_cells space_table f src line base
                   (Z.min limit (find_closure_pipe
                      (skipn (Z.to_nat pos) (firstn (Z.to_nat limit) line)) pos
                      (if (pos =? 0)%Z then 0%N else nth (Z.to_nat (pos - 1)) line 0%N)) + 1)%Z
                   limit al' true = Ok rest /\ cells = (Some s2, a) :: rest).
      { destruct aligns as [|a0 t].
        - bind_inv H s1 Hs1. bind_inv H s2 Hs2. bind_inv H rest Hrest.
          inversion H; subst cells. eexists _, _, _, _. split; [exact Hrest|reflexivity].
        - bind_inv H s1 Hs1. bind_inv H s2 Hs2. bind_inv H rest Hrest.
          inversion H; subst cells. eexists _, _, _, _. split; [exact Hrest|reflexivity]. }
      destruct Hb as [a [s2 [rest [al' [Hrest Hc]]]]]. subst cells.
      destruct i as [|i']; cbn [nth_error] in Hn.
      * inversion Hn; subst c. exists s2. reflexivity.
      * exact (IH _ _ _ _ _ _ _ _ _ Hrest Hn).
    + inversion H; subst cells. destruct i; discriminate Hn.
Qed.

Lemma parse_row_header_some src sg aligns cells i c :
  parse_row space_table src sg aligns true = Ok cells ->
  nth_error cells i = Some c -> exists s, fst c = Some s.
Proof.
  intros H Hn. apply parse_row_cells in H.
  destruct H as [fuel [line [base [pos [limit H]]]]].
  exact (parse_cells_header_some _ _ _ _ _ _ _ _ _ _ H Hn).
Qed.

(* the header cell of a column that exists carries the column's alignment *)
Lemma header_cell_align src sg aligns cells i c :
  parse_row space_table src sg aligns true = Ok cells ->
  length aligns = length cells ->
  nth_error cells i = Some c -> nth_error aligns i = Some (snd c).
Proof.
  intros H Hlen Hn.
  destruct (parse_row_header_some _ _ _ _ _ _ H Hn) as [s Hs].
  destruct c as [o a]. cbn [fst snd] in *. subst o.
  destruct (row_cell_alignment _ _ _ _ _ _ _ _ _ H Hn) as [Ha|[_ [Hle _]]].
  - exact Ha.
  - exfalso. assert (Hlt : (i < length cells)%nat).
    { apply nth_error_Some. rewrite Hn. discriminate. }
    lia.
Qed.

(* ---------- what transform yields ---------- *)
Lemma parse_rows_each src aligns : forall ls rows,
  parse_rows space_table src ls aligns = Ok rows ->
  Forall (fun r => exists l, parse_row space_table src l aligns false = Ok r) rows.
Proof.
  induction ls as [|l r IH]; intros rows H; cbn [TableX.parse_rows] in H.
  - inversion H; subst rows. constructor.
  - bind_inv H row Hrow. bind_inv H rest Hrest. inversion H; subst rows.
    constructor; [exists l; exact Hrow|exact (IH _ Hrest)].
Qed.

Lemma transform_from_parts fuel : forall src before prev rest kept tbl,
  transform_from space_table fuel src before prev rest = Ok (Some (kept, tbl)) ->
  t_aligns tbl <> [] /\
  length (t_aligns tbl) = length (t_header tbl) /\
  (exists p, parse_row space_table src p (t_aligns tbl) true = Ok (t_header tbl)) /\
  Forall (fun r => exists l, parse_row space_table src l (t_aligns tbl) false = Ok r) (t_rows tbl).
Proof.
  induction fuel as [|f IH]; intros src before prev rest kept tbl H;
    cbn [TableX.transform_from] in H.
  - discriminate H.
  - destruct rest as [|cur after]; [discriminate H|].
    bind_inv H line Hline.
    destruct (parse_delimiter space_table line) as [aligns|] eqn:Hd.
    + bind_inv H header Hheader.
      destruct (Nat.eqb (length aligns) (length header)) eqn:He; cbn [negb] in H;
        [|discriminate H].
      bind_inv H rows Hrows. inversion H; subst kept tbl. cbn [t_aligns t_header t_rows].
      apply Nat.eqb_eq in He.
      split; [exact (delimiter_nonempty _ _ _ Hd)|].
      split; [exact He|].
      split; [exists prev; exact Hheader|].
      exact (parse_rows_each _ _ _ _ Hrows).
    + exact (IH _ _ _ _ _ _ H).
Qed.

Lemma transform_parts src lines kept tbl :
  transform space_table src lines = Ok (Some (kept, tbl)) ->
  t_aligns tbl <> [] /\
  length (t_aligns tbl) = length (t_header tbl) /\
  (exists p, parse_row space_table src p (t_aligns tbl) true = Ok (t_header tbl)) /\
  Forall (fun r => exists l, parse_row space_table src l (t_aligns tbl) false = Ok r) (t_rows tbl).
Proof.
  unfold TableX.transform. intros H.
  destruct lines as [|l0 rest]; [discriminate H|].
  exact (transform_from_parts _ _ _ _ _ _ _ H).
Qed.

End Tab.

(* ---------- the tree of a table ---------- *)
Lemma tables_ok_cell_tree b c : tables_ok b (cell_tree c) = true.
Proof. destruct c as [[sg|] a]; reflexivity. Qed.

Lemma forallb_is_cell_map cs : forallb is_cell (map cell_tree cs) = true.
Proof.
  induction cs as [|c r IH]; [reflexivity|].
  cbn [map forallb]. rewrite IH. destruct c as [[sg|] a]; reflexivity.
Qed.

(* the nested fix of tables_ok as forallb *)
Lemma tables_ok_kids flag kids :
  (fix go (l : list tree) : bool := match l with [] => true | x :: r => tables_ok flag x && go r end) kids
  = forallb (tables_ok flag) kids.
Proof. induction kids as [|x r IH]; [reflexivity|]. cbn [forallb]. rewrite IH. reflexivity. Qed.

Lemma tables_ok_unfold b k l a kids :
  tables_ok b (Node k l a kids) =
  table_rect (Node k l a kids) &&
  (match k with KTableHeader | KTableRow => b | _ => true end) &&
  forallb (tables_ok (match k with KTable => true | _ => false end)) kids.
Proof. cbn [tables_ok]. rewrite tables_ok_kids. reflexivity. Qed.

Lemma forallb_tables_ok_cells b cs : forallb (tables_ok b) (map cell_tree cs) = true.
Proof.
  induction cs as [|c r IH]; [reflexivity|].
  cbn [map forallb]. rewrite IH, tables_ok_cell_tree. reflexivity.
Qed.

Definition cell_pair_ok (p : tree * tree) : bool :=
  match fst p with
  | Node _ [] _ _ => true
  | _ => match cell_align (fst p), cell_align (snd p) with
         | Some a, Some b => align_eqb a b | _, _ => false end
  end.

Lemma align_eqb_refl a : align_eqb a a = true.
Proof. destruct a; reflexivity. Qed.

Lemma combine_cells_ok : forall (r hdr : list cell),
  (forall i c h, nth_error r i = Some c -> nth_error hdr i = Some h -> fst c = None \/ snd c = snd h) ->
  forallb cell_pair_ok (combine (map cell_tree r) (map cell_tree hdr)) = true.
Proof.
  induction r as [|c r IH]; intros hdr H; [reflexivity|].
  destruct hdr as [|h hdr]; [reflexivity|].
  cbn [map combine forallb].
  rewrite IH.
  - rewrite andb_true_r.
    destruct (H 0%nat c h eq_refl eq_refl) as [Hn|Ha].
    + destruct c as [o a]. cbn [fst] in Hn. subst o. reflexivity.
    + destruct c as [[sg|] a]; destruct h as [[sh|] b]; cbn [snd] in Ha; subst b;
        unfold cell_pair_ok; cbn [cell_tree fst snd cell_align]; try reflexivity; apply align_eqb_refl.
  - intros i c' h' Hc Hh. exact (H (S i) c' h' Hc Hh).
Qed.

Lemma table_tree_ok (t : table) :
  t_header t <> [] ->
  Forall (fun r => length r = length (t_header t) /\
                   forall i c h, nth_error r i = Some c -> nth_error (t_header t) i = Some h ->
                                 fst c = None \/ snd c = snd h) (t_rows t) ->
  good_table t.
Proof.
  intros Hne Hrows. unfold good_table, table_tree.
  rewrite tables_ok_unfold. cbn [forallb].
  rewrite tables_ok_unfold. rewrite forallb_tables_ok_cells.
  cbn [table_rect].
  rewrite forallb_is_cell_map.
  replace (match map cell_tree (t_header t) with [] => true | _ :: _ => false end) with false
    by (destruct (t_header t); [contradiction Hne; reflexivity|reflexivity]).
  cbn [negb andb].
  rewrite andb_true_r.
  assert (H1 : forallb (fun r : tree =>
     match r with
     | Node KTableRow _ _ cs =>
         forallb is_cell cs && Nat.eqb (length cs) (length (map cell_tree (t_header t))) &&
         forallb (fun p : tree * tree =>
            match fst p with
            | Node _ [] _ _ => true
            | _ => match cell_align (fst p), cell_align (snd p) with
                   | Some a, Some b => align_eqb a b | _, _ => false end
            end) (combine cs (map cell_tree (t_header t)))
     | _ => false
     end) (map (fun r : list cell => Node KTableRow [] None (map cell_tree r)) (t_rows t)) = true).
  { induction Hrows as [|r rs [Hlen Hal] Hrs IH]; [reflexivity|].
    cbn [map forallb]. rewrite IH. rewrite andb_true_r.
    rewrite forallb_is_cell_map. rewrite !map_length.
    match goal with |- context [Nat.eqb ?a ?b] => replace (Nat.eqb a b) with true by (symmetry; apply Nat.eqb_eq; exact Hlen) end.
    cbn [andb].
    exact (combine_cells_ok _ _ Hal). }
  rewrite H1. cbn [andb].
  clear H1 Hne. induction Hrows as [|r rs Hr Hrs IH]; [reflexivity|].
  cbn [map forallb]. rewrite IH. rewrite andb_true_r.
  rewrite tables_ok_unfold. cbn [table_rect andb]. apply forallb_tables_ok_cells.
Qed.

(* every table the paragraph transformer yields is good *)
Theorem transform_good space_table src lines kept tbl :
  transform space_table src lines = Ok (Some (kept, tbl)) -> good_table tbl.
Proof.
  intros H. apply transform_parts in H. destruct H as [Hne [Hlen [[p Hp] Hrows]]].
  apply table_tree_ok.
  - intros He. rewrite He in Hlen. cbn [length] in Hlen.
    destruct (t_aligns tbl); [apply Hne; reflexivity|discriminate Hlen].
  - eapply Forall_impl; [|exact Hrows].
    intros r [l Hl]. split.
    + pose proof (body_row_width _ _ _ _ _ Hl) as Hw. exact (eq_trans Hw Hlen).
    + intros i c h Hc Hh.
      pose proof (header_cell_align _ _ _ _ _ _ _ Hp Hlen Hh) as Hha.
      destruct c as [[s|] a]; [|left; reflexivity]. right. cbn [snd].
      destruct (row_cell_alignment _ _ _ _ _ _ _ _ _ Hl Hc) as [Ha|[Hf _]]; [|discriminate Hf].
      rewrite Hha in Ha. inversion Ha; reflexivity.
Qed.
