(* C11 for the Typographer / DefinitionList parser model, inline phase: on a source without the
   seven bytes 39 34 44 45 46 60 62 (apostrophe, double quote, comma, hyphen, full stop, less-than,
   greater-than) the inline phase with the Typographer is the inline phase without it.

   The typographer parser is registered on these seven bytes and on '*' and '['.  On the first seven (none of them
   occurs in a line the inline phase scans: the lines consist of bytes of the source, blanks and
   newlines) the parser lists differ, so these bytes are excluded; on '*' and '[' the typographer
   parser stands behind the Emphasis / Link parser.  When that parser declines, the driver sets
   the reader back to the position before the call, the typographer parser peeks the same line
   as the declining parser did (the parsers leave b_src, b_segs and b_last of the reader alone:
   TypoDefConservativeTypoFr.v), finds a first byte that is none of its own and declines too,
   and the driver sets the reader back once more, which changes nothing. *)
Require Import GM.model.Base GM.model.Util GM.model.Reader GM.model.Blocks GM.model.ListItem
               GM.model.LeafBlocks GM.model.CodeSpan GM.model.LinkDest GM.model.Regex GM.model.Delim
               GM.model.HtmlWriter GM.model.Html GM.model.BlockParse GM.model.InlineParse GM.model.TypoDefParseT.
Require Import GM.proofs.GfmConservativeDefs GM.proofs.GfmConservativeSrc
               GM.proofs.TypoDefConservativeInl GM.proofs.TypoDefConservativeTypoFr.
From Coq Require Import List ZArith NArith Bool Lia.
Import ListNotations.
Open Scope Z_scope.

(* a byte that is none of 39 34 44 45 46 60 62 *)
Definition okbyte (c : N) : Prop :=
  c <> 39%N /\ c <> 34%N /\ c <> 44%N /\ c <> 45%N /\ c <> 46%N /\ c <> 60%N /\ c <> 62%N.

Lemma tdc_in_skipn {A} n (l : list A) x : In x (skipn n l) -> In x l.
Proof. revert l. induction n as [|n IH]; intros [|a l]; cbn [skipn In]; try tauto. intros H; auto. Qed.

(* ================= the reader: back to a position, twice ================= *)
Lemma b_peek_line_some r r' l sg : b_peek_line r = Ok (r', Some l, sg) ->
  r' = r /\ b_in_range r = true /\ seg_value (b_src r) (b_pos r) = Ok l /\ sg = b_pos r.
Proof.
  unfold b_peek_line. intros H. destruct (b_in_range r); [|discriminate].
  gc_bind H v Ev. injection H as <- <- <-. auto.
Qed.

Lemma set_position_peek r r' l sg r1 :
  bfr r' = bfr r -> b_peek_line r = Ok (r, Some l, sg) ->
  b_set_position r' (b_line r) (b_pos r) = Ok r1 ->
  b_peek_line r1 = Ok (r1, Some l, sg) /\ b_set_position r1 (b_line r) (b_pos r) = Ok r1.
Proof.
  intros Hfr Hp Hs. apply b_peek_line_some in Hp as (_ & Hin & Hv & ->).
  destruct r as [src segs line pos head last loff]. destruct r' as [src' segs' line' pos' head' last' loff'].
  unfold bfr in Hfr. cbn [b_src b_segs b_last] in Hfr. injection Hfr as -> -> ->.
  unfold b_in_range in Hin. cbn [b_line b_pos b_last b_nsegs b_segs] in Hin.
  apply andb_true_iff in Hin as [Hin H3]. apply andb_true_iff in Hin as [H1 H2].
  cbn [b_src b_pos b_line] in *.
  unfold b_set_position, bset_head, bset_pos, bset_line, bset_loff, b_nsegs in *.
  cbn [b_segs b_src b_line b_pos b_head b_last b_loff] in *.
  destruct (Z.eqb_spec (s_start pos) (-1)) as [E|_]; [apply Z.leb_le in H2; lia|].
  rewrite H1 in *. destruct (seg_at segs line) as [s| |] eqn:Es; cbn [bind] in *; try discriminate.
  injection Hs as <-. cbn [b_segs b_src b_line b_pos b_head b_last b_loff]. split.
  - unfold b_peek_line, b_in_range, b_nsegs. cbn [b_line b_pos b_last b_segs b_src].
    rewrite H1, H2, H3. cbn [andb]. rewrite Hv. reflexivity.
  - rewrite H1, Es. reflexivity.
Qed.

Section Typo.
Variable space_table punct_table : list N.
Variable norm : bytes -> bytes.
Variable url_table email_table : list N.
Variable re_email_domain re_open_tag re_close_tag : re.
Variable punct_rune space_rune : N -> bool.
Variable uni_punct uni_space uni_digit uni_letter : N -> bool.
Variable refs : list (bytes * (bytes * option bytes)).
Variable src : bytes.
Hypothesis src_ok : forall c, In c src -> okbyte c.

Notation IP := (ip_parse space_table punct_table norm url_table email_table re_email_domain re_open_tag re_close_tag punct_rune space_rune refs).
Notation TI := (try_inline space_table punct_table norm url_table email_table re_email_domain re_open_tag re_close_tag punct_rune space_rune refs).
Notation TYP := (typo_parse space_table punct_table punct_rune space_rune uni_punct uni_space uni_digit uni_letter).
Notation IPT := (ip_parseT space_table punct_table norm url_table email_table re_email_domain re_open_tag re_close_tag punct_rune space_rune uni_punct uni_space uni_digit uni_letter refs).
Notation TIT := (try_inlineT space_table punct_table norm url_table email_table re_email_domain re_open_tag re_close_tag punct_rune space_rune uni_punct uni_space uni_digit uni_letter refs).
Notation SLT b := (scan_lineT b space_table punct_table norm url_table email_table re_email_domain re_open_tag re_close_tag punct_rune space_rune uni_punct uni_space uni_digit uni_letter refs).
Notation PBLT b := (parse_block_loopT b space_table punct_table norm url_table email_table re_email_domain re_open_tag re_close_tag punct_rune space_rune uni_punct uni_space uni_digit uni_letter refs).
Notation PBT b := (parse_blockT b space_table punct_table norm url_table email_table re_email_domain re_open_tag re_close_tag punct_rune space_rune uni_punct uni_space uni_digit uni_letter refs).

Lemma from_src_ok v : from_src src v -> forall c, In c v -> okbyte c.
Proof.
  intros Hv c Hc. destruct (Hv c Hc) as [H|[->| ->]]; [apply src_ok; exact H| |]; unfold okbyte; repeat split; discriminate.
Qed.

(* ================= the typographer parser declines on a byte that is none of its own ================= *)
Lemma typo_parse_none x c tl sg :
  b_peek_line (t_r (ts_s x)) = Ok (t_r (ts_s x), Some (c :: tl), sg) -> okbyte c -> TYP x = Ok (x, None).
Proof.
  intros Hp (H39 & H34 & H44 & H45 & H46 & H60 & H62).
  destruct x as [[cx rx] sq dq]. cbn [ts_s t_r] in Hp.
  unfold typo_parse. cbn [ts_s t_r]. rewrite Hp. cbn [bind]. cbv beta iota zeta.
  apply N.eqb_neq in H39, H34, H45, H46, H60, H62.
  rewrite H39, H34, H45, H46, H60, H62. cbn [andb orb].
  destruct (2 <? zlen (c :: tl)); destruct (1 <? zlen (c :: tl)); reflexivity.
Qed.

(* ================= a declining Link / Emphasis parser has peeked a line ================= *)
Lemma ip_none_peek p s parent s1 : p = IPLink \/ p = IPEmphasis -> IP p s parent = Ok (s1, None) ->
  (exists c tl sg, b_peek_line (t_r s) = Ok (t_r s, Some (c :: tl), sg)) /\ bfr (t_r s1) = bfr (t_r s).
Proof.
  intros [-> | ->] H; unfold ip_parse in H.
  - split; [|eapply link_parse_fr; exact H].
    unfold link_parse in H. destruct (b_peek_line (t_r s)) as [[[r line] sg]| |] eqn:E; cbn [bind] in H; try discriminate.
    pose proof (b_peek_line_same _ _ _ _ E) as ->.
    destruct line as [[|c tl]|]; try discriminate. exists c, tl, sg. reflexivity.
  - split; [|eapply emphasis_parse_fr; exact H].
    unfold emphasis_parse in H. gc_bind H before Eb.
    destruct (b_peek_line (t_r s)) as [[[r line] sg]| |] eqn:E; cbn [bind] in H; try discriminate.
    pose proof (b_peek_line_same _ _ _ _ E) as ->.
    destruct line as [[|c tl]|]; cbn [line_of scan_delimiter bind] in H; try discriminate.
    exists c, tl, sg. reflexivity.
Qed.

(* ================= behind a Link / Emphasis parser the typographer parser changes nothing ================= *)
Lemma try_inlineT_typo p x parent : p = IPLink \/ p = IPEmphasis -> b_src (t_r (ts_s x)) = src ->
  TIT [TCore p; TTypo] x parent (b_line (t_r (ts_s x))) (b_pos (t_r (ts_s x))) =
  TIT [TCore p] x parent (b_line (t_r (ts_s x))) (b_pos (t_r (ts_s x))).
Proof.
  intros Hp Hx. cbn [try_inlineT ip_parseT].
  destruct (IP p (ts_s x) parent) as [[s1 n1]| |] eqn:Eip; cbn [bind fst snd]; try reflexivity.
  destruct n1 as [n1|]; [reflexivity|].
  destruct (ip_none_peek p (ts_s x) parent s1 Hp Eip) as [(c & tl & sg & Hpk) Hfr].
  cbn [ts_s tst_s].
  destruct (b_set_position (t_r s1) (b_line (t_r (ts_s x))) (b_pos (t_r (ts_s x)))) as [r1| |] eqn:Es; cbn [bind]; try reflexivity.
  destruct (set_position_peek _ _ _ _ _ Hfr Hpk Es) as [Hpk1 Hs1].
  assert (Hc : okbyte c).
  { apply (from_src_ok (c :: tl)); [|left; reflexivity]. rewrite <- Hx. exact (b_peek_line_from space_table norm _ _ _ _ Hpk). }
  rewrite (typo_parse_none (tst_s (tst_s x s1) (ist_r s1 r1)) c tl sg); [|cbn [ts_s tst_s t_r ist_r]; exact Hpk1|exact Hc].
  cbn [bind ts_s tst_s t_r ist_r]. rewrite Hs1. cbn [bind]. reflexivity.
Qed.

Lemma inline_parsersT_ok c : okbyte c ->
  inline_parsersT true c = inline_parsersT false c \/
  exists p, (p = IPLink \/ p = IPEmphasis) /\ inline_parsersT true c = [TCore p; TTypo] /\ inline_parsersT false c = [TCore p].
Proof.
  intros (H39 & H34 & H44 & H45 & H46 & H60 & H62). unfold inline_parsersT.
  apply N.eqb_neq in H39, H34, H44, H45, H46, H60, H62.
  destruct (N.eqb c 96); [left; reflexivity|].
  destruct (N.eqb c 91); [right; exists IPLink; auto|].
  destruct (N.eqb c 33 || N.eqb c 93); [left; reflexivity|].
  rewrite H60.
  destruct (N.eqb c 42); [right; exists IPEmphasis; auto|].
  destruct (N.eqb c 95); [left; reflexivity|].
  rewrite H39, H34, H44, H45, H46, H62. left. reflexivity.
Qed.

(* ================= one character of a line: the part of scan_lineT that calls the parsers ================= *)
Definition stepT (ips : list iparserT) (x : tst) (n i : Z) (start_pos : seg) (parent : nat)
  : result (tst + (tst * Z * seg)) :=
  match ips with
  | [] => Ok (inr (x, n, start_pos))
  | _ =>
    let s := ts_s x in
    rd <- b_advance (t_r s) n ;;
    let s := ist_r s rd in
    let sl := b_line (t_r s) in
    let sp := b_pos (t_r s) in
    t <- (if negb (i =? 0) then
            bt <- seg_between start_pos sp ;;
            c' <- merge_or_append (t_c s) parent bt ;;
            Ok (ist_c s c', sp)
          else Ok (s, start_pos)) ;;
    let '(s, start_pos) := t in
    y <- TIT ips (tst_s x s) parent sl sp ;;
    let '(x, node) := y in
    match node with
    | Some nd =>
      let s := ts_s x in
      h <- i_append (i_h (t_c s)) parent nd ;;
      Ok (inl (tst_s x (ist_c s (cx_h (t_c s) h))))
    | None => Ok (inr (x, 0, start_pos))
    end
  end.

Lemma scan_lineT_unfold b f line i ll n esc sp x parent :
  SLT b (S f) line i ll n esc sp x parent =
  if ll <=? i then Ok (inr (x, n, sp))
  else
    match zskip i line with
    | [] => Ok (inr (x, n, sp))
    | c :: _ =>
      if N.eqb c 10 then Ok (inr (x, n, sp))
      else
        let isspace := is_space space_table c && negb (N.eqb c 13) && negb (N.eqb c 10) in
        let ispunct := is_punct punct_table c in
        let consult := (ispunct && negb esc) || isspace || (i =? 0) in
        let pchar := if isspace || ((i =? 0) && negb ispunct) then 32%N else c in
        r <- stepT (if consult then inline_parsersT b pchar else []) x n i sp parent ;;
        match r with
        | inl x => Ok (inl (x, esc))
        | inr (x, n, start_pos) =>
          if esc then SLT b f line (i + 1) ll (n + 1) false start_pos x parent
          else if N.eqb c 92 then SLT b f line (i + 1) ll (n + 1) true start_pos x parent
          else SLT b f line (i + 1) ll (n + 1) false start_pos x parent
        end
    end.
Proof. reflexivity. Qed.

(* the state of the result of stepT / scan_lineT *)
Definition step_state (r : tst + (tst * Z * seg)) : tst := match r with inl x => x | inr (x, _, _) => x end.
Definition scan_stateT (r : (tst * bool) + (tst * Z * seg)) : tst := match r with inl (x, _) => x | inr (x, _, _) => x end.

(* ---- the parsers of the default configuration keep the source of the reader ---- *)
Lemma ip_parse_src p s parent s' res : IP p s parent = Ok (s', res) -> b_src (t_r s') = b_src (t_r s).
Proof.
  unfold ip_parse. intros H. destruct p.
  - eapply code_span_parse_s_src. exact H.
  - eapply link_parse_src. exact H.
  - eapply autolink_parse_src. exact H.
  - eapply raw_html_parse_src. exact H.
  - eapply emphasis_parse_src. exact H.
Qed.

Lemma try_inline_src : forall ips s parent sl sp s' res,
  TI ips s parent sl sp = Ok (s', res) -> b_src (t_r s') = b_src (t_r s).
Proof.
  induction ips as [|p ips IH]; intros s parent sl sp s' res H; cbn [try_inline] in H.
  - injection H as <- <-. reflexivity.
  - gc_bind H y Ey. destruct y as [s1 n1]. apply ip_parse_src in Ey. destruct n1 as [n1|].
    + injection H as <- <-. exact Ey.
    + gc_bind H r1 E1. apply b_set_position_src in E1. apply IH in H. cbn [t_r ist_r] in H. congruence.
Qed.

Lemma stepT_core_src cips x n i sp parent r :
  stepT (map TCore cips) x n i sp parent = Ok r -> b_src (t_r (ts_s (step_state r))) = b_src (t_r (ts_s x)).
Proof.
  unfold stepT. intros H. destruct cips as [|p0 ps]; cbn [map] in H.
  - injection H as <-. reflexivity.
  - change (TCore p0 :: map TCore ps) with (map TCore (p0 :: ps)) in H.
    gc_bind H rd Erd. apply b_advance_src in Erd. cbv zeta in H. gc_bind H t Et. destruct t as [s1 sp1].
    assert (Hs1 : b_src (t_r s1) = b_src (t_r (ts_s x))).
    { destruct (negb (i =? 0)).
      - gc_bind Et bt Ebt. gc_bind Et c' Ec'. injection Et as <- <-. cbn [t_r ist_c ist_r]. exact Erd.
      - injection Et as <- <-. cbn [t_r ist_r]. exact Erd. }
    rewrite try_inlineT_core in H. cbn [ts_s tst_s] in H. gc_bind H y Ey. gc_bind Ey z Ez. injection Ey as <-.
    destruct z as [s2 node]. apply try_inline_src in Ez. cbn [fst snd] in H. destruct node as [nd|].
    + cbn [ts_s tst_s] in H. gc_bind H h Eh. injection H as <-. cbn [step_state ts_s tst_s t_r ist_c]. congruence.
    + injection H as <-. cbn [step_state ts_s tst_s]. congruence.
Qed.

Lemma core_ips (consult : bool) c :
  (if consult then inline_parsersT false c else []) = map TCore (if consult then inline_parsers c else []).
Proof. destruct consult; [apply inline_parsersT_off|reflexivity]. Qed.

Lemma scan_lineT_off_src : forall fuel line i ll n esc sp x parent out,
  SLT false fuel line i ll n esc sp x parent = Ok out ->
  b_src (t_r (ts_s (scan_stateT out))) = b_src (t_r (ts_s x)).
Proof.
  induction fuel as [|f IH]; intros line i ll n esc sp x parent out H; [discriminate|].
  rewrite scan_lineT_unfold in H.
  destruct (ll <=? i); [injection H as <-; reflexivity|].
  destruct (zskip i line) as [|c tl]; [injection H as <-; reflexivity|].
  destruct (N.eqb c 10); [injection H as <-; reflexivity|].
  cbv zeta in H. rewrite core_ips in H. gc_bind H r Er. apply stepT_core_src in Er.
  destruct r as [x1|[[x1 n1] sp1]]; cbn [step_state] in Er.
  - injection H as <-. exact Er.
  - destruct esc; [apply IH in H; congruence|]. destruct (N.eqb c 92); apply IH in H; congruence.
Qed.

(* ================= one character: with and without the typographer ================= *)
Lemma stepT_agree pchar (consult : bool) x n i sp parent : okbyte pchar -> b_src (t_r (ts_s x)) = src ->
  stepT (if consult then inline_parsersT true pchar else []) x n i sp parent =
  stepT (if consult then inline_parsersT false pchar else []) x n i sp parent.
Proof.
  intros Hc Hx. destruct consult; [|reflexivity].
  destruct (inline_parsersT_ok pchar Hc) as [E|(p & Hp & E1 & E2)]; [rewrite E; reflexivity|].
  rewrite E1, E2. unfold stepT.
  apply gc_bind_ext. intros rd Erd. pose proof (b_advance_src _ _ _ Erd) as Hrd. cbv zeta.
  apply gc_bind_ext. intros [s1 sp1] Et.
  assert (Hs1 : t_r s1 = rd).
  { destruct (negb (i =? 0)).
    - gc_bind Et bt Ebt. gc_bind Et c' Ec'. injection Et as <- <-. reflexivity.
    - injection Et as <- <-. reflexivity. }
  cbn [t_r ist_r].
  pose proof (try_inlineT_typo p (tst_s x s1) parent Hp) as Hk. cbn [ts_s tst_s] in Hk. rewrite Hs1 in Hk.
  rewrite Hk; [reflexivity|]. congruence.
Qed.

Lemma scan_lineT_agree : forall fuel line i ll n esc sp x parent,
  (forall c, In c line -> okbyte c) -> b_src (t_r (ts_s x)) = src ->
  SLT true fuel line i ll n esc sp x parent = SLT false fuel line i ll n esc sp x parent.
Proof.
  induction fuel as [|f IH]; intros line i ll n esc sp x parent Hl Hx; [reflexivity|].
  rewrite !scan_lineT_unfold.
  destruct (ll <=? i); [reflexivity|].
  destruct (zskip i line) as [|c tl] eqn:Ez; [reflexivity|].
  assert (Hc : okbyte c).
  { apply Hl. apply (tdc_in_skipn (Z.to_nat i)). unfold zskip in Ez. rewrite Ez. left. reflexivity. }
  destruct (N.eqb c 10); [reflexivity|]. cbv zeta.
  match goal with |- context [inline_parsersT true ?p] =>
    assert (Hp : okbyte p)
      by (match goal with |- context [if ?b then 32%N else c] => destruct b end;
          [unfold okbyte; repeat split; discriminate|exact Hc])
  end.
  rewrite (stepT_agree _ _ x n i sp parent Hp Hx).
  apply gc_bind_ext. intros r Er. rewrite core_ips in Er. apply stepT_core_src in Er.
  destruct r as [x1|[[x1 n1] sp1]]; [reflexivity|]. cbn [step_state] in Er.
  destruct esc; [apply IH; [exact Hl|congruence]|]. destruct (N.eqb c 92); (apply IH; [exact Hl|congruence]).
Qed.

(* ================= the loop over the lines of a block ================= *)
Lemma parse_block_loopT_agree : forall fuel x parent esc, b_src (t_r (ts_s x)) = src ->
  PBLT true fuel x parent esc = PBLT false fuel x parent esc.
Proof.
  induction fuel as [|f IH]; intros x parent esc Hx; [reflexivity|].
  cbn [parse_block_loopT].
  apply gc_bind_ext. intros y Ey. destruct y as [[r line] sg].
  destruct line as [line|]; [|reflexivity].
  pose proof (b_peek_line_from space_table norm _ _ _ _ Ey) as Hfrom. rewrite Hx in Hfrom.
  apply b_peek_line_same in Ey. subst r.
  match goal with |- match ?e with _ => _ end = _ => destruct e as [[[ll hard] visible] soft] end.
  cbn [ts_s tst_s t_r ist_r].
  rewrite scan_lineT_agree; [|apply from_src_ok; exact Hfrom|cbn [ts_s tst_s t_r ist_r]; exact Hx].
  apply gc_bind_ext. intros z Ez. apply scan_lineT_off_src in Ez.
  cbn [ts_s tst_s t_r ist_r] in Ez. rewrite Hx in Ez.
  destruct z as [[x1 e1]|[[x1 n1] sp1]]; cbn [scan_stateT] in Ez; [apply IH; exact Ez|].
  apply gc_bind_ext. intros r1 E1.
  assert (b_src r1 = src) as Hr1.
  { destruct (negb (n1 =? 0)); [apply b_advance_src in E1; congruence|injection E1 as <-; exact Ez]. }
  cbn [ts_s tst_s t_r t_c ist_r].
  match goal with |- (if ?b then _ else _) = _ => destruct b end; [apply IH; exact Hr1|].
  apply gc_bind_ext. intros diff _. apply gc_bind_ext. intros [c tseg] _.
  destruct (new_inode c _) as [c2 tx]. apply gc_bind_ext. intros h _.
  apply gc_bind_ext. intros r2 E2. apply b_advance_line_src in E2. apply IH. cbn [ts_s tst_s t_r]. congruence.
Qed.

Lemma parse_blockT_agree cnt lines : PBT true cnt src lines = PBT false cnt src lines.
Proof.
  unfold parse_blockT. apply gc_bind_ext. intros r Er. apply new_block_reader_src in Er.
  rewrite parse_block_loopT_agree; [reflexivity|]. cbn [ts_s t_r]. exact Er.
Qed.
End Typo.

(* on a source without the seven bytes, the inline children with and without the typographer *)
Theorem inline_childrenT_typo : forall space_table punct_table norm url_table email_table re_email_domain re_open_tag
    re_close_tag punct_rune space_rune uni_punct uni_space uni_digit uni_letter refs cnt src lines,
  (forall c, In c src -> okbyte c) ->
  inline_childrenT true space_table punct_table norm url_table email_table re_email_domain re_open_tag re_close_tag
                   punct_rune space_rune uni_punct uni_space uni_digit uni_letter refs cnt src lines =
  inline_childrenT false space_table punct_table norm url_table email_table re_email_domain re_open_tag re_close_tag
                   punct_rune space_rune uni_punct uni_space uni_digit uni_letter refs cnt src lines.
Proof.
  intros space_table punct_table norm url_table email_table re_email_domain re_open_tag re_close_tag punct_rune
         space_rune uni_punct uni_space uni_digit uni_letter refs cnt src lines Hok.
  unfold inline_childrenT.
  rewrite (parse_blockT_agree space_table punct_table norm url_table email_table re_email_domain re_open_tag
             re_close_tag punct_rune space_rune uni_punct uni_space uni_digit uni_letter refs src Hok cnt lines).
  reflexivity.
Qed.
