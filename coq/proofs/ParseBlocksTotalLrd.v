(* The link-reference-definition paragraph transformer (model/BlockParse.v, section "link reference
   definitions": parse_lrd, lrd_loop, apply_removes) never panics and never runs out of fuel over a
   block reader built from well-formed line segments, and the line surgery yields a sublist of the
   paragraph's lines.

   Main results: lrd_lines_total, segs_ok_sublist, Forall_sublist.
   Section hypotheses used: sp32 (is_space space_table 32 = true) only. *)
Require Import GM.model.Base GM.model.Util GM.model.Reader GM.model.ReaderSpec GM.model.Blocks GM.model.ListItem
               GM.model.LeafBlocks GM.model.CodeBlock GM.model.LinkDest GM.model.Regex GM.model.BlockParse.
Require Import GM.proofs.BReaderProofs.
Require GM.proofs.LinkDestProofs.
From Coq Require Import ZArith Lia ZifyBool List.
Open Scope Z_scope.

(* ================= sublists ================= *)
Inductive sublist {A} : list A -> list A -> Prop :=
| sl_nil : sublist [] []
| sl_skip x l1 l2 : sublist l1 l2 -> sublist l1 (x :: l2)
| sl_keep x l1 l2 : sublist l1 l2 -> sublist (x :: l1) (x :: l2).

Lemma sublist_refl {A} (l : list A) : sublist l l.
Proof. induction l as [|x l IH]; [apply sl_nil | apply sl_keep; exact IH]. Qed.

Lemma sublist_nil_inv {A} (l : list A) : sublist l [] -> l = [].
Proof. intros H. inversion H. reflexivity. Qed.

Lemma sublist_trans {A} (a b c : list A) : sublist a b -> sublist b c -> sublist a c.
Proof.
  intros Hab Hbc. revert a Hab. induction Hbc as [|x b c Hbc IH|x b c Hbc IH]; intros a Hab.
  - exact Hab.
  - apply sl_skip. apply IH. exact Hab.
  - inversion Hab as [|y l1 l2 Hs|y l1 l2 Hs]; subst.
    + apply sl_skip. apply IH. exact Hs.
    + apply sl_keep. apply IH. exact Hs.
Qed.

Lemma sublist_skipn {A} (n : nat) : forall l : list A, sublist (skipn n l) l.
Proof.
  induction n as [|n IH]; intros l.
  - apply sublist_refl.
  - destruct l as [|x l]; [apply sl_nil|]. cbn [skipn]. apply sl_skip. apply IH.
Qed.

Lemma sublist_first_skip {A} : forall (l : list A) (k lo : nat), (k <= lo)%nat ->
  sublist (firstn k l ++ skipn lo l) l.
Proof.
  induction l as [|x l IH]; intros k lo Hk.
  - rewrite firstn_nil, skipn_nil. apply sl_nil.
  - destruct k as [|k].
    + cbn [firstn app]. apply sublist_skipn.
    + destruct lo as [|lo]; [lia|]. cbn [firstn skipn app]. apply sl_keep. apply IH. lia.
Qed.

Lemma sublist_In {A} (l' l : list A) x : sublist l' l -> In x l' -> In x l.
Proof.
  intros H. induction H as [|y l1 l2 H IH|y l1 l2 H IH]; intros Hin.
  - exact Hin.
  - right. apply IH. exact Hin.
  - destruct Hin as [E|Hin]; [left; exact E | right; apply IH; exact Hin].
Qed.

Lemma Forall_sublist {A} (P : A -> Prop) (l l' : list A) : Forall P l -> sublist l' l -> Forall P l'.
Proof.
  intros HF H. induction H as [|y l1 l2 H IH|y l1 l2 H IH].
  - constructor.
  - inversion HF; subst. apply IH. assumption.
  - inversion HF; subst. constructor; [assumption | apply IH; assumption].
Qed.

Lemma segs_ok_sublist src (l' l : list seg) : sublist l' l -> segs_ok src l -> segs_ok src l'.
Proof.
  intros H. induction H as [|y l1 l2 H IH|y l1 l2 H IH]; intros Hok.
  - exact Hok.
  - apply IH. exact (proj2 (segs_ok_cons_inv _ _ _ Hok)).
  - destruct (segs_ok_cons_inv _ _ _ Hok) as [Hy Hl2].
    destruct (IH Hl2) as [HF HS]. split.
    + constructor; assumption.
    + destruct l1 as [|b l1']; [exact I|]. split; [|exact HS].
      apply (sorted_after src l2 y b Hok). apply (sublist_In (b :: l1') l2 b H). left. reflexivity.
Qed.

(* ================= monotone progress of the block reader ================= *)
(* r' is a later state of r: invariant, same source and lines, and neither the line number nor the
   start of the position went back *)
Definition rle (r r' : breader) : Prop :=
  BInv r' /\ b_src r' = b_src r /\ b_segs r' = b_segs r /\
  b_line r <= b_line r' /\ s_start (b_pos r) <= s_start (b_pos r').

Lemma rle_refl r : BInv r -> rle r r.
Proof. intros H. unfold rle. split; [exact H|]. split; [reflexivity|]. split; [reflexivity|]. lia. Qed.

Lemma rle_trans a b c : rle a b -> rle b c -> rle a c.
Proof.
  intros (H1 & H2 & H3 & H4 & H5) (K1 & K2 & K3 & K4 & K5). unfold rle.
  split; [exact K1|]. split; [congruence|]. split; [congruence|]. lia.
Qed.

Lemma rle_inv r r' : rle r r' -> BInv r'.
Proof. intros H. exact (proj1 H). Qed.

Lemma b_advance_line_pos r r' : b_advance_line r = Ok r' ->
  (b_line r + 1 < zlen (b_segs r) /\
   exists t, nth_error (b_segs r) (Z.to_nat (b_line r + 1)) = Some t /\ b_pos r' = t) \/
  (zlen (b_segs r) <= b_line r + 1 /\ b_pos r' = b_pos r).
Proof.
  unfold b_advance_line, b_set_position.
  change (s_start (mkseg (-1) (-1)) =? -1) with true. cbv iota. unfold b_nsegs. bsimpl.
  destruct (Z.ltb_spec (b_line r + 1) (zlen (b_segs r))) as [Hlt|Hge].
  - unfold seg_at. destruct ((0 <=? b_line r + 1) && (b_line r + 1 <? zlen (b_segs r))); [|discriminate].
    destruct (nth_error (b_segs r) (Z.to_nat (b_line r + 1))) as [t|] eqn:E; [|discriminate].
    cbn [bind]. intros H. inversion H; subst r'. left. split; [exact Hlt|]. exists t. split; reflexivity.
  - cbn [bind]. intros H. inversion H; subst r'. right. split; [exact Hge | reflexivity].
Qed.

Lemma b_advance_line_rle r : BInv r ->
  exists r', b_advance_line r = Ok r' /\ rle r r' /\ b_line r' = b_line r + 1.
Proof.
  intros H. destruct (b_advance_line_spec r H) as (r' & Hr' & Hinv & Hsrc & Hsegs & _ & Hline & _).
  exists r'. split; [exact Hr'|]. split; [|exact Hline].
  unfold rle. split; [exact Hinv|]. split; [exact Hsrc|]. split; [exact Hsegs|]. split; [lia|].
  destruct (b_advance_line_pos r r' Hr') as [(Hlt & t & Ht & Hp)|(Hge & Hp)].
  - pose proof (bi_line r H) as H0.
    destruct (binv_cur r H) as (s & pre & post & Hn & El & Elen & Hok & Ha & Hb & Hc & Hd & Hle & Hlt' & Heq); [lia|].
    pose proof (sorted_nth (b_src r) (b_segs r) _ _ s t (bi_segs r H) Hn Ht) as Hx.
    rewrite Hp. lia.
  - rewrite Hp. lia.
Qed.

Lemma b_step_mono r r1 : BInv r -> b_in_range r = true -> b_step r = Ok r1 ->
  b_line r <= b_line r1 /\ s_start (b_pos r) <= s_start (b_pos r1) /\ b_line r1 < zlen (b_segs r) /\
  (s_pad (b_pos r) = 0 -> s_start (b_pos r) < s_start (b_pos r1)).
Proof.
  intros H Hin Hs.
  destruct (binv_in r H Hin) as (s & pre & post & Hn & El & Elen & Hok & Ha & Hb & Hc & Hd & Hle & Hlt & Heq).
  pose proof (in_range_true r Hin) as [Hi1 Hi2]. pose proof (bi_line r H) as H0.
  unfold b_step in Hs.
  destruct (Z.eqb_spec (s_pad (b_pos r)) 0) as [E|E]; cbn [negb] in Hs.
  - destruct ((s_stop (b_pos r) - 1 <=? s_start (b_pos r)) && (s_stop (b_pos r) <? b_last r)) eqn:Ec.
    + assert (Hpost : post <> []) by (intros Ep; specialize (Heq Ep); lia).
      destruct (b_advance_line_rle r H) as (r' & Hr' & (Hinv & Hsrc & Hsegs & Hl & Hp) & Hline).
      rewrite Hr' in Hs. inversion Hs; subst r1.
      assert (HN : b_line r + 1 < zlen (b_segs r)).
      { rewrite El, zlen_app, zlen_cons. destruct post as [|p post]; [congruence|]. rewrite zlen_cons.
        pose proof (zlen_nonneg post). lia. }
      split; [lia|]. split; [exact Hp|]. split; [lia|]. intros _.
      destruct (b_advance_line_pos r r' Hr') as [(_ & t & Ht & Hpt)|(Hge & _)]; [|lia].
      pose proof (sorted_nth (b_src r) (b_segs r) _ _ s t (bi_segs r H) Hn Ht) as Hx.
      rewrite Hpt. lia.
    + inversion Hs; subst r1. bsimpl. repeat split; lia.
  - inversion Hs; subst r1. bsimpl. repeat split; lia.
Qed.

Lemma b_advance_slow_mono : forall fuel r n r', BInv r -> b_loff r = -1 ->
  0 <= n <= zlen (b_rest r) -> b_advance_slow fuel r n = Ok r' ->
  b_line r <= b_line r' /\ s_start (b_pos r) <= s_start (b_pos r') /\
  (b_line r < zlen (b_segs r) -> b_line r' < zlen (b_segs r)) /\
  (0 < n -> s_pad (b_pos r) = 0 -> s_start (b_pos r) < s_start (b_pos r')).
Proof.
  induction fuel as [|f IH]; intros r n r' H Hl Hn Hs; [discriminate|].
  rewrite b_advance_slow_step in Hs. destruct (Z.ltb_spec 0 n) as [Hpos|Hz].
  - assert (Hin : b_in_range r = true).
    { destruct (b_in_range r) eqn:E; [reflexivity|]. rewrite (b_rest_out r E) in Hn. unfold zlen in Hn. cbn [length] in Hn. lia. }
    destruct (b_step_spec r H Hl Hin) as (r1 & Hr1 & Hinv1 & Hl1 & Hsrc1 & Hsegs1 & Hrest1).
    rewrite Hr1 in Hs. cbn [bind] in Hs.
    destruct (b_step_mono r r1 H Hin Hr1) as (M1 & M2 & M3 & M4).
    destruct (IH r1 (n - 1) r' Hinv1 Hl1) as (N1 & N2 & N3 & N4).
    + rewrite Hrest1. unfold zlen in *. rewrite skipn_length. lia.
    + exact Hs.
    + rewrite Hsegs1 in N3. split; [lia|]. split; [lia|]. split; [intros _; apply N3; exact M3|].
      intros _ Hp. specialize (M4 Hp). lia.
  - inversion Hs; subst r'. repeat split; lia.
Qed.

(* Advance, with progress information *)
Lemma b_advance_ok r n : BInv r -> 0 <= n <= zlen (b_rest r) ->
  exists r', b_advance r n = Ok r' /\ rle r r' /\
    b_rest r' = skipn (Z.to_nat n) (b_rest r) /\
    (b_line r < zlen (b_segs r) -> b_line r' < zlen (b_segs r)) /\
    (0 < n -> s_pad (b_pos r) = 0 -> s_start (b_pos r) < s_start (b_pos r')).
Proof.
  intros H Hn. destruct (b_advance_spec r n H Hn) as (r' & Hr' & Hinv & Hsrc & Hsegs & Hrest).
  exists r'. split; [exact Hr'|].
  assert (Hm : b_line r <= b_line r' /\ s_start (b_pos r) <= s_start (b_pos r') /\
    (b_line r < zlen (b_segs r) -> b_line r' < zlen (b_segs r)) /\
    (0 < n -> s_pad (b_pos r) = 0 -> s_start (b_pos r) < s_start (b_pos r'))).
  { unfold b_advance in Hr'.
    destruct ((n <? s_stop (b_pos (bset_loff r (-1))) - s_start (b_pos (bset_loff r (-1)))) &&
              (s_pad (b_pos (bset_loff r (-1))) =? 0)) eqn:Ef.
    - inversion Hr'; subst r'. bsimpl. repeat split; lia.
    - apply (b_advance_slow_mono _ (bset_loff r (-1)) n r') in Hr'.
      + exact Hr'.
      + apply binv_set_loff. exact H.
      + reflexivity.
      + exact Hn. }
  destruct Hm as (M1 & M2 & M3 & M4).
  split; [unfold rle; split; [exact Hinv|]; split; [exact Hsrc|]; split; [exact Hsegs|]; split; assumption|]. split; [exact Hrest|]. split; assumption.
Qed.

(* ---------- in range <-> something is left ---------- *)
Lemma in_range_view r : BInv r -> b_in_range r = true -> exists c tl, b_view r = c :: tl.
Proof.
  intros H Hin. destruct (b_view_prefix_rest r H Hin) as [Hne _].
  destruct (b_view r) as [|c tl]; [congruence|]. exists c, tl. reflexivity.
Qed.

Lemma rest_cons_in r c t : b_rest r = c :: t -> b_in_range r = true.
Proof.
  intros E. destruct (b_in_range r) eqn:Hin; [reflexivity|]. rewrite (b_rest_out r Hin) in E. discriminate.
Qed.

Lemma in_range_rest_len r : BInv r -> b_in_range r = true -> 1 <= zlen (b_rest r).
Proof.
  intros H Hin. destruct (in_range_view r H Hin) as (c & tl & E).
  rewrite (b_rest_in r Hin), E. cbn [app]. rewrite zlen_cons.
  pose proof (zlen_nonneg (tl ++ flat_map (seg_bytes (b_src r)) (skipn (Z.to_nat (b_line r + 1)) (b_segs r)))). lia.
Qed.

Lemma rest_head_view r c t : BInv r -> b_rest r = c :: t -> exists tl, b_view r = c :: tl.
Proof.
  intros H E. pose proof (rest_cons_in r c t E) as Hin.
  destruct (in_range_view r H Hin) as (c' & tl & Ev).
  rewrite (b_rest_in r Hin), Ev in E. cbn [app] in E. inversion E; subst c'. exists tl. exact Ev.
Qed.

(* a later state whose remainder is exactly the following lines is on a later line (or off the block) *)
Lemma consumed_line r r' : BInv r -> b_in_range r = true -> rle r r' ->
  b_rest r' = flat_map (seg_bytes (b_src r)) (skipn (Z.to_nat (b_line r + 1)) (b_segs r)) ->
  b_in_range r' = true -> b_line r < b_line r'.
Proof.
  intros H Hin (Hinv & Hsrc & Hsegs & Hl & Hp) Hrest Hin'.
  destruct (Z.eq_dec (b_line r') (b_line r)) as [E|E]; [|lia].
  exfalso. destruct (in_range_view r' Hinv Hin') as (c & tl & Ev).
  rewrite (b_rest_in r' Hin'), Hsrc, Hsegs, E, Ev in Hrest.
  apply (f_equal (@length N)) in Hrest. cbn [app length] in Hrest. rewrite app_length in Hrest. lia.
Qed.

(* ================= Value never panics ================= *)
(* the segments FindClosure returns: they start inside the block, at or behind the start of one of its lines *)
Definition val_ok (segs : list seg) (sg : seg) : Prop :=
  0 <= s_start sg <= s_stop sg /\ exists k s, nth_error segs k = Some s /\ s_start s <= s_start sg.

Lemma find_line_total segs k s start : nth_error segs k = Some s -> s_start s <= start ->
  forall fuel line, Z.of_nat k <= line < zlen segs -> line - Z.of_nat k < Z.of_nat fuel ->
  exists j, b_value_find_line fuel segs line start = Ok j /\ 0 <= j <= line.
Proof.
  intros Hk Hst. induction fuel as [|f IH]; intros line Hl Hf; [lia|].
  cbn [b_value_find_line]. replace (0 <=? line) with true by lia.
  destruct (nth_error_ex segs line) as [t Ht]; [lia|].
  rewrite (seg_at_ok _ _ t) by (try lia; exact Ht). cbn [bind].
  destruct (Z.leb_spec (s_start t) start) as [E|E].
  - exists line. split; [reflexivity | lia].
  - assert (Hne : line <> Z.of_nat k).
    { intros Eq. subst line. rewrite Nat2Z.id in Ht. rewrite Hk in Ht. inversion Ht; subst t. lia. }
    destruct (IH (line - 1)) as (j & Hj & Hjl); [lia | lia |].
    exists j. split; [exact Hj | lia].
Qed.

Lemma seg_ok_nth src segs i s : segs_ok src segs -> nth_error segs i = Some s -> seg_ok src s.
Proof.
  intros [HF _] Hn. rewrite Forall_forall in HF. apply HF. exact (nth_error_In _ _ Hn).
Qed.

Lemma value_loop_total r sg : segs_ok (b_src r) (b_segs r) ->
  forall fuel line i acc, 0 <= line -> zlen (b_segs r) - line < Z.of_nat fuel -> (0 < fuel)%nat ->
  exists v, b_value_loop fuel r sg line i acc = Ok v.
Proof.
  intros Hok. induction fuel as [|f IH]; intros line i acc Hl Hf Hpos; [lia|].
  cbn [b_value_loop]. unfold b_nsegs.
  destruct (Z.ltb_spec line (zlen (b_segs r))) as [Hlt|Hge]; [|eexists; reflexivity].
  destruct (nth_error_ex (b_segs r) line) as [s Hs]; [lia|].
  rewrite (seg_at_ok _ _ s) by (try lia; exact Hs). cbn [bind].
  pose proof (seg_ok_nth _ _ _ _ Hok Hs) as Hsok. unfold seg_ok in Hsok.
  assert (Hcr : forall i', 0 <= i' -> exists v, copy_range (b_src r) i' (s_stop sg) (s_stop s) = Ok v).
  { intros i' Hi'. unfold copy_range. destruct (Z.ltb_spec i' (Z.min (s_stop sg) (s_stop s))) as [E|E].
    - rewrite slice_ok by lia. eexists. reflexivity.
    - eexists. reflexivity. }
  destruct (i <? 0) eqn:Ei.
  - destruct (Hcr (s_start s)) as [v Hv]; [lia|]. rewrite Hv. cbn [bind].
    destruct (s_stop sg <=? s_stop s); [eexists; reflexivity|]. apply IH; lia.
  - destruct (Hcr i) as [v Hv]; [lia|]. rewrite Hv. cbn [bind].
    destruct (s_stop sg <=? s_stop s); [eexists; reflexivity|]. apply IH; lia.
Qed.

Lemma b_value_total r sg : segs_ok (b_src r) (b_segs r) -> val_ok (b_segs r) sg ->
  exists v, b_value r sg = Ok v.
Proof.
  intros Hok (Hr & k & s & Hk & Hs).
  assert (Hklt : (k < length (b_segs r))%nat) by (apply nth_error_Some; congruence).
  unfold b_value. replace (s_stop sg - s_start sg + 1 <? 0) with false by lia.
  destruct (find_line_total (b_segs r) k s (s_start sg) Hk Hs (length (b_segs r) + 1) (b_nsegs r - 1))
    as (j & Hj & Hjl); [unfold b_nsegs, zlen; lia | unfold b_nsegs, zlen; lia |].
  rewrite Hj. cbn [bind]. replace (s_start sg <? 0) with false by lia. replace (j <? 0) with false by lia.
  apply value_loop_total; [exact Hok | lia | unfold zlen; lia | lia].
Qed.

Lemma concat_values_total r l : segs_ok (b_src r) (b_segs r) -> Forall (val_ok (b_segs r)) l ->
  exists v, concat_values r l = Ok v.
Proof.
  intros Hok HF. induction HF as [|sg l Hsg HF IH].
  - eexists. reflexivity.
  - cbn [concat_values]. destruct (b_value_total r sg Hok Hsg) as [v Hv]. rewrite Hv. cbn [bind].
    destruct IH as [w Hw]. rewrite Hw. cbn [bind]. eexists. reflexivity.
Qed.

Lemma val_ok_pos r v : BInv r -> b_in_range r = true -> s_start (b_pos r) <= v ->
  val_ok (b_segs r) (seg_with_stop (b_pos r) v).
Proof.
  intros H Hin Hv.
  destruct (binv_in r H Hin) as (s & pre & post & Hn & El & Elen & Hok & Ha & Hb & Hc & Hd & Hle & Hlt & Heq).
  unfold seg_ok in Hok. unfold val_ok, seg_with_stop. bsimpl. split; [lia|].
  exists (Z.to_nat (b_line r)), s. split; [exact Hn | exact Ha].
Qed.

Lemma val_ok_cur r : BInv r -> b_in_range r = true -> val_ok (b_segs r) (b_pos r).
Proof.
  intros H Hin.
  destruct (binv_in r H Hin) as (s & pre & post & Hn & El & Elen & Hok & Ha & Hb & Hc & Hd & Hle & Hlt & Heq).
  unfold seg_ok in Hok. unfold val_ok. split; [lia|].
  exists (Z.to_nat (b_line r)), s. split; [exact Hn | exact Ha].
Qed.

(* ================= the destination scanner consumes at most the line ================= *)
Section LD.
Variable space_table punct_table : list N.

Lemma angle_close_bound : forall fuel l i k, angle_close punct_table fuel l i = Some k -> i <= k < i + zlen l.
Proof.
  induction fuel as [|f IH]; intros l i k H; [discriminate|].
  cbn [angle_close] in H. destruct l as [|c r]; [discriminate|].
  destruct r as [|d r'].
  - destruct (N.eqb c 62); [|discriminate]. inversion H; subst k. rewrite zlen_cons. change (zlen (@nil N)) with 0. lia.
  - destruct (N.eqb c 92 && is_punct punct_table d)%bool.
    + apply IH in H. rewrite !zlen_cons. lia.
    + destruct (N.eqb c 62).
      * inversion H; subst k. rewrite !zlen_cons. pose proof (zlen_nonneg r'). lia.
      * apply IH in H. rewrite !zlen_cons in *. lia.
Qed.

Lemma bare_end_bound : forall fuel l i opened,
  i <= bare_end space_table punct_table fuel l i opened <= i + zlen l.
Proof.
  induction fuel as [|f IH]; intros l i opened.
  - cbn [bare_end]. pose proof (zlen_nonneg l). lia.
  - cbn [bare_end]. destruct l as [|c r]; [change (zlen (@nil N)) with 0; lia|].
    destruct r as [|d r'].
    + rewrite zlen_cons. change (zlen (@nil N)) with 0.
      destruct (N.eqb c 40); [lia|]. destruct (N.eqb c 41); [destruct (opened - 1 <? 0); lia|].
      destruct (is_space space_table c); lia.
    + pose proof (zlen_nonneg r') as Hr. rewrite !zlen_cons.
      destruct (N.eqb c 92 && is_punct punct_table d)%bool.
      * pose proof (IH r' (i + 2) opened). lia.
      * destruct (N.eqb c 40).
        -- pose proof (IH (d :: r') (i + 1) (opened + 1)) as Hx. rewrite zlen_cons in Hx. lia.
        -- destruct (N.eqb c 41).
           ++ destruct (opened - 1 <? 0); [lia|].
              pose proof (IH (d :: r') (i + 1) (opened - 1)) as Hx. rewrite zlen_cons in Hx. lia.
           ++ destruct (is_space space_table c); [lia|].
              pose proof (IH (d :: r') (i + 1) opened) as Hx. rewrite zlen_cons in Hx. lia.
Qed.

Lemma pld_bound line d adv : parse_link_destination space_table punct_table line = Some (d, adv) ->
  0 <= adv <= zlen line.
Proof.
  intros H. destruct line as [|c rest].
  - cbn in H. discriminate.
  - destruct (N.eq_dec c 60) as [E|E].
    + subst c. rewrite LinkDestProofs.P_angle in H.
      destruct (angle_close punct_table (S (length (60%N :: rest))) rest 1) as [i|] eqn:Ea; [|discriminate].
      inversion H; subst. apply angle_close_bound in Ea. rewrite zlen_cons. lia.
    + rewrite (LinkDestProofs.P_bare space_table punct_table c rest E) in H. cbv zeta in H.
      pose proof (bare_end_bound (S (length (c :: rest))) (c :: rest) 0 0) as Hb.
      set (i := bare_end space_table punct_table (S (length (c :: rest))) (c :: rest) 0 0) in *. clearbody i.
      destruct (i =? 0); [discriminate|].
      injection H as _ H2. lia.
Qed.
End LD.

(* ================= the reader helpers used by parse_lrd ================= *)
Section S.
Variable space_table punct_table : list N.
Variable norm : bytes -> bytes.
Hypothesis sp32 : is_space space_table 32 = true.
Notation is_space := (is_space space_table).
Notation is_blank := (Reader.is_blank space_table).

(* the inner loop of SkipSpaces over the peeked line l, a prefix of what remains *)
Lemma ssi_spec : forall l i r chars sg tl, BInv r -> b_rest r = l ++ tl ->
  exists r' res, skip_spaces_inner space_table breader b_advance l i r chars sg = Ok (r', res) /\
    rle r r' /\
    match res with
    | Some _ => is_blank l = false /\ exists c t, is_space c = false /\ b_rest r' = c :: t
    | None => is_blank l = true /\ b_rest r' = tl
    end.
Proof.
  induction l as [|c l IH]; intros i r chars sg tl H Hrest.
  - cbn [skip_spaces_inner]. exists r, None. split; [reflexivity|]. split; [apply rle_refl; exact H|].
    split; [reflexivity | exact Hrest].
  - cbn [skip_spaces_inner Reader.is_blank]. destruct (is_space c) eqn:Ec.
    + destruct (b_advance_ok r 1 H) as (r1 & Hr1 & Hle1 & Hrest1 & _).
      { rewrite Hrest. cbn [app]. rewrite zlen_cons. pose proof (zlen_nonneg (l ++ tl)). lia. }
      rewrite Hr1. cbn [bind].
      rewrite Hrest in Hrest1. cbn [app skipn Z.to_nat Pos.to_nat Pos.iter_op Nat.add] in Hrest1.
      destruct (IH (i + 1) r1 (chars + 1) sg tl (rle_inv _ _ Hle1) Hrest1) as (r' & res & Hr' & Hle' & Hres).
      exists r', res. split; [exact Hr'|]. split; [exact (rle_trans _ _ _ Hle1 Hle')|].
      cbn [andb]. exact Hres.
    + eexists. eexists. split; [reflexivity|]. split; [apply rle_refl; exact H|].
      split; [reflexivity|]. exists c, (l ++ tl). split; [exact Ec | exact Hrest].
Qed.

Lemma skip_spaces_spec : forall fuel r chars, BInv r -> (0 < fuel)%nat ->
  (b_in_range r = true -> zlen (b_segs r) - b_line r < Z.of_nat fuel) ->
  exists r' sg ch ok, skip_spaces space_table breader b_peek_line b_advance fuel r chars = Ok (r', sg, ch, ok) /\
    rle r r' /\
    (b_in_range r = false -> r' = r) /\
    (b_in_range r' = true -> exists c t, b_view r' = c :: t /\ is_space c = false) /\
    (b_in_range r = true -> is_blank (b_view r) = true -> b_in_range r' = true -> b_line r < b_line r').
Proof.
  induction fuel as [|f IH]; intros r chars H Hpos Hf; [lia|].
  cbn [skip_spaces]. rewrite (b_peek_line_view r H). cbn [bind].
  destruct (b_in_range r) eqn:Hin.
  - pose proof (in_range_true r Hin) as [Hi1 Hi2]. specialize (Hf eq_refl).
    destruct (ssi_spec (b_view r) 0 r chars (b_pos r) _ H (b_rest_in r Hin)) as (r1 & res & Hr1 & Hle1 & Hres).
    rewrite Hr1. cbn [bind]. destruct res as [[sg' ch]|].
    + destruct Hres as (Hnb & c & t & Hc & Hrest1).
      exists r1, sg', ch, true. split; [reflexivity|]. split; [exact Hle1|]. split; [discriminate|]. split.
      * intros _. destruct (rest_head_view r1 c t (rle_inv _ _ Hle1) Hrest1) as [tl Ev].
        exists c, tl. split; [exact Ev | exact Hc].
      * intros _ Hb. congruence.
    + destruct Hres as (Hb & Hrest1).
      pose proof (consumed_line r r1 H Hin Hle1 Hrest1) as Hadv.
      pose proof Hle1 as (Hinv1 & Hsrc1 & Hsegs1 & Hl1 & Hp1).
      destruct (IH r1 (chars + count_spaces space_table (b_view r)) Hinv1) as (r' & sg & ch & ok & Hr' & Hle' & Hout & Hhd & _).
      * lia.
      * intros Hin1. specialize (Hadv Hin1). rewrite Hsegs1. lia.
      * exists r', sg, ch, ok. split; [exact Hr'|].
        split; [exact (rle_trans _ _ _ Hle1 Hle')|].
        split; [discriminate|]. split; [exact Hhd|].
        intros _ _ Hin'. destruct (b_in_range r1) eqn:Hin1.
        -- specialize (Hadv eq_refl). destruct Hle' as (_ & _ & _ & Hl' & _). lia.
        -- rewrite (Hout eq_refl) in Hin'. congruence.
  - exists r, (b_pos r), chars, false. split; [reflexivity|]. split; [apply rle_refl; exact H|].
    split; [reflexivity|]. split; [intros C; congruence|]. intros C; discriminate.
Qed.

Lemma bfuel_enough r : BInv r -> zlen (b_segs r) - b_line r < Z.of_nat (bfuel r).
Proof. intros H. pose proof (bi_line r H). unfold bfuel, zlen. lia. Qed.

Lemma b_skip_spaces_ok r : BInv r ->
  exists r' sg ch ok, b_skip_spaces space_table (bfuel r) r = Ok (r', sg, ch, ok) /\
    rle r r' /\
    (b_in_range r = false -> r' = r) /\
    (b_in_range r' = true -> exists c t, b_view r' = c :: t /\ is_space c = false) /\
    (b_in_range r = true -> is_blank (b_view r) = true -> b_in_range r' = true -> b_line r < b_line r').
Proof.
  intros H. unfold b_skip_spaces. apply skip_spaces_spec; [exact H | unfold bfuel; lia |].
  intros _. apply bfuel_enough. exact H.
Qed.

(* ---------- FindClosure with the options of the link parser ---------- *)
Lemma fc_lines_ok opts o c : forall fuel r opened cso ret, BInv r ->
  Forall (val_ok (b_segs r)) ret ->
  zlen (b_segs r) - b_line r < Z.of_nat fuel -> (0 < fuel)%nat ->
  exists r' res,
    fc_lines punct_table breader b_peek_line b_advance b_advance_line fuel opts o c r opened cso ret = Ok (r', res) /\
    rle r r' /\
    match res with
    | Some l => Forall (val_ok (b_segs r)) l /\ b_line r' < zlen (b_segs r)
    | None => True
    end.
Proof.
  induction fuel as [|f IH]; intros r opened cso ret H Hret Hf Hpos; [lia|].
  cbn [fc_lines]. rewrite (b_peek_line_view r H). cbn [bind].
  destruct (b_in_range r) eqn:Hin.
  - pose proof (in_range_true r Hin) as [Hi1 Hi2].
    pose proof (fc_scan_total punct_table opts o c (S (length (b_view r))) (b_view r) 0 opened cso (Nat.lt_succ_diag_r _)) as Hok.
    destruct (fc_scan punct_table (S (length (b_view r))) opts o c (b_view r) 0 opened cso) as [res| |] eqn:Escan;
      try (exfalso; exact Hok).
    cbn [bind]. destruct res as [i| |opened' cso'].
    + apply fc_scan_closed in Escan.
      destruct (b_advance_ok r (i + 1) H) as (r' & Hr' & Hle' & _ & HltN & _).
      { rewrite (b_rest_in r Hin), zlen_app.
        pose proof (zlen_nonneg (flat_map (seg_bytes (b_src r)) (skipn (Z.to_nat (b_line r + 1)) (b_segs r)))). lia. }
      rewrite Hr'. cbn [bind]. eexists. eexists. split; [reflexivity|]. split; [exact Hle'|].
      split; [|apply HltN; exact Hi1].
      apply Forall_app. split; [exact Hret|]. constructor; [|constructor].
      apply val_ok_pos; [exact H | exact Hin | lia].
    + eexists. eexists. split; [reflexivity|]. split; [apply rle_refl; exact H | exact I].
    + destruct (negb (o_newline opts)).
      * eexists. eexists. split; [reflexivity|]. split; [apply rle_refl; exact H | exact I].
      * destruct (b_advance_line_rle r H) as (r1 & Hr1 & Hle1 & Hline1).
        rewrite Hr1. cbn [bind].
        pose proof Hle1 as (Hinv1 & Hsrc1 & Hsegs1 & _ & _).
        destruct (IH r1 opened' cso' (ret ++ [b_pos r]) Hinv1) as (r' & res' & Hr' & Hle' & Hres').
        -- rewrite Hsegs1. apply Forall_app. split; [exact Hret|]. constructor; [|constructor].
           apply val_ok_cur; assumption.
        -- rewrite Hsegs1, Hline1. lia.
        -- lia.
        -- exists r', res'. split; [exact Hr'|]. split; [exact (rle_trans _ _ _ Hle1 Hle')|].
           rewrite Hsegs1 in Hres'. exact Hres'.
  - eexists. eexists. split; [reflexivity|]. split; [apply rle_refl; exact H | exact I].
Qed.

Lemma find_closure_ok r o c : BInv r ->
  exists r' res, b_find_closure punct_table (bfuel r) r o c link_fc_opts = Ok (r', res) /\
    rle r r' /\
    match res with
    | Some l => Forall (val_ok (b_segs r)) l /\ b_line r' < zlen (b_segs r)
    | None => True
    end.
Proof.
  intros H. unfold b_find_closure, find_closure, b_position.
  destruct (fc_lines_ok link_fc_opts o c (bfuel r) r 1 0 [] H) as (r' & res & Hr' & Hle' & Hres).
  - constructor.
  - apply bfuel_enough. exact H.
  - unfold bfuel. lia.
  - rewrite Hr'. cbn [bind link_fc_opts o_advance negb]. exists r', res. split; [reflexivity|].
    split; [exact Hle' | exact Hres].
Qed.

(* ---------- Peek ---------- *)
Lemma b_peek_in r pk : b_peek r = Ok pk -> pk <> 255%N -> b_in_range r = true.
Proof.
  unfold b_peek. destruct (b_in_range r); [reflexivity|]. intros E Hne. inversion E; subst pk. congruence.
Qed.

Lemma b_peek_nopad r pk : b_peek r = Ok pk -> pk <> 255%N -> pk <> 32%N -> s_pad (b_pos r) = 0.
Proof.
  unfold b_peek. destruct (b_in_range r).
  - destruct (Z.eqb_spec (s_pad (b_pos r)) 0) as [E|E]; [intros; exact E|].
    cbn [negb]. intros E1 _ Hne. inversion E1; subst pk. congruence.
  - intros E Hne. inversion E; subst pk. congruence.
Qed.

(* ---------- parseLinkDestination over the block reader ---------- *)
Lemma b_pld_ok r : BInv r ->
  exists r' d, b_parse_link_destination space_table punct_table r = Ok (r', d) /\ rle r r' /\
    (d <> None -> b_line r' < zlen (b_segs r)).
Proof.
  intros H. unfold b_parse_link_destination.
  destruct (b_skip_spaces_ok r H) as (r1 & sg & ch & ok & Hr1 & Hle1 & _).
  rewrite Hr1. cbn [bind]. pose proof Hle1 as (Hinv1 & Hsrc1 & Hsegs1 & _ & _).
  rewrite (b_peek_line_view r1 Hinv1). cbn [bind].
  destruct (b_in_range r1) eqn:Hin1.
  - cbn [line_of].
    destruct (parse_link_destination space_table punct_table (b_view r1)) as [[d adv]|] eqn:Ep.
    + apply pld_bound in Ep.
      destruct (b_advance_ok r1 adv Hinv1) as (r' & Hr' & Hle' & _ & HltN & _).
      { rewrite (b_rest_in r1 Hin1), zlen_app.
        pose proof (zlen_nonneg (flat_map (seg_bytes (b_src r1)) (skipn (Z.to_nat (b_line r1 + 1)) (b_segs r1)))). lia. }
      rewrite Hr'. cbn [bind]. exists r', (Some d). split; [reflexivity|].
      split; [exact (rle_trans _ _ _ Hle1 Hle')|]. intros _. rewrite <- Hsegs1. apply HltN.
      apply in_range_true in Hin1. lia.
    + exists r1, None. split; [reflexivity|]. split; [exact Hle1|]. congruence.
  - cbn [line_of].
    destruct (parse_link_destination space_table punct_table []) as [[d adv]|] eqn:Ep.
    + cbn in Ep. discriminate.
    + exists r1, None. split; [reflexivity|]. split; [exact Hle1|]. congruence.
Qed.

(* ================= parse_lrd, cut into its stages ================= *)
Definition lrd_t4 (r : breader) (c : pctx) (label dest : bytes) (start_line end_line : Z)
    (is_new_line : bool) (spaces : Z) (opener : N) : result (breader * pctx * Z * Z) :=
  let none r := Ok (r, c, -1, -1) in
  if negb (N.eqb opener 34 || N.eqb opener 39 || N.eqb opener 40) then
    if negb is_new_line then none r
    else Ok (r, add_ref norm c label dest None, start_line, end_line + 1)
  else if spaces =? 0 then none r
  else
    r <- b_advance r 1 ;;
    let closer := if N.eqb opener 40 then 41%N else opener in
    z2 <- b_find_closure punct_table (bfuel r) r opener closer link_fc_opts ;;
    let '(r, tsegs) := z2 in
    match tsegs with
    | None =>
      if negb is_new_line then none r
      else (r <- b_advance_line r ;; Ok (r, add_ref norm c label dest None, start_line, end_line + 1))
    | Some tsegs =>
      title <- concat_values r tsegs ;;
      y3 <- b_peek_line r ;;
      let '(r, line3, _) := y3 in
      match line3 with
      | Some l3 =>
        if negb (is_blank l3) then
          if negb is_new_line then none r
          else Ok (r, add_ref norm c label dest None, start_line, end_line)
        else Ok (r, add_ref norm c label dest (Some title), start_line, b_line r + 1)
      | None => Ok (r, add_ref norm c label dest (Some title), start_line, b_line r + 1)
      end
    end.

Definition lrd_t3 (r : breader) (c : pctx) (label dest : bytes) (start_line : Z) : result (breader * pctx * Z * Z) :=
  y2 <- b_peek_line r ;;
  let '(r, line2, _) := y2 in
  let is_new_line := match line2 with None => true | Some l => is_blank l end in
  let end_line := b_line r in
  x3 <- b_skip_spaces space_table (bfuel r) r ;;
  let '(r, _, spaces, _) := x3 in
  opener <- b_peek r ;;
  lrd_t4 r c label dest start_line end_line is_new_line spaces opener.

Definition lrd_t2 (r : breader) (c : pctx) (start_line : Z) (segs : list seg) : result (breader * pctx * Z * Z) :=
  let none r := Ok (r, c, -1, -1) in
  label <- concat_values r segs ;;
  if is_blank label then none r
  else
    pk <- b_peek r ;;
    if negb (N.eqb pk 58) then none r
    else
      r <- b_advance r 1 ;;
      x2 <- b_skip_spaces space_table (bfuel r) r ;;
      let '(r, _, _, _) := x2 in
      d <- b_parse_link_destination space_table punct_table r ;;
      let '(r, dest) := d in
      match dest with
      | None => none r
      | Some dest => lrd_t3 r c label dest start_line
      end.

Lemma parse_lrd_eq r c : parse_lrd space_table punct_table norm r c =
  (let none r := Ok (r, c, -1, -1) in
  x <- b_skip_spaces space_table (bfuel r) r ;;
  let '(r, _, _, _) := x in
  y <- b_peek_line r ;;
  let '(r, line, _) := y in
  match line with
  | None => none r
  | Some line =>
    let start_line := b_line r in
    let '(width, pos) := indent_width line 0 in
    if 3 <? width then none r
    else
      let pos := if negb (width =? 0) then pos + 1 else pos in
      ch <- at_ line pos ;;
      if negb (N.eqb ch 91) then none r
      else
        r <- b_advance r (pos + 1) ;;
        z <- b_find_closure punct_table (bfuel r) r 91%N 93%N link_fc_opts ;;
        let '(r, segs) := z in
        match segs with
        | None => none r
        | Some segs => lrd_t2 r c start_line segs
        end
  end).
Proof. reflexivity. Qed.

(* what a round of the loop guarantees *)
Definition adj (a b : Z) : Z := if a =? b then b + 1 else b.
(* the next round, if it starts at all, starts on line b' or later *)
Definition tailinv (r' : breader) (b' : Z) : Prop :=
  b_in_range r' = true -> b' <= b_line r' \/ (b' <= b_line r' + 1 /\ is_blank (b_view r') = true).
(* facts about the start line a of a round started from r0 *)
Definition start_facts (r0 : breader) (a : Z) : Prop :=
  b_in_range r0 = true /\ b_line r0 <= a /\ (is_blank (b_view r0) = true -> b_line r0 < a) /\ 0 <= a.
Definition lrd_post (r0 : breader) (c : pctx) (res : result (breader * pctx * Z * Z)) : Prop :=
  exists r' c' a b, res = Ok (r', c', a, b) /\ rle r0 r' /\ (exists refs, c' = cset_refs c refs) /\
    (a = -1 \/
     (start_facts r0 a /\ a <= adj a b /\ adj a b <= zlen (b_segs r0) /\
      s_start (b_pos r0) < s_start (b_pos r') /\ tailinv r' (adj a b))).

Lemma cset_refs_self c : c = cset_refs c (c_refs c).
Proof. destruct c. reflexivity. Qed.

Lemma add_ref_refs c label dest title : exists refs, add_ref norm c label dest title = cset_refs c refs.
Proof.
  unfold add_ref. destruct (existsb _ _).
  - exists (c_refs c). apply cset_refs_self.
  - eexists. reflexivity.
Qed.

Lemma post_none r0 c r : rle r0 r -> lrd_post r0 c (Ok (r, c, -1, -1)).
Proof.
  intros Hle. exists r, c, (-1), (-1). split; [reflexivity|]. split; [exact Hle|].
  split; [exists (c_refs c); apply cset_refs_self|]. left. reflexivity.
Qed.

Lemma post_some r0 c r label dest title a b : rle r0 r -> start_facts r0 a ->
  a <= adj a b -> adj a b <= zlen (b_segs r0) -> s_start (b_pos r0) < s_start (b_pos r) ->
  tailinv r (adj a b) ->
  lrd_post r0 c (Ok (r, add_ref norm c label dest title, a, b)).
Proof.
  intros Hle Hsf H1 H2 H3 H4. exists r, (add_ref norm c label dest title), a, b.
  split; [reflexivity|]. split; [exact Hle|]. split; [apply add_ref_refs|]. right.
  split; [exact Hsf|]. split; [exact H1|]. split; [exact H2|]. split; [exact H3 | exact H4].
Qed.

Lemma quote_not_eof opener : negb (N.eqb opener 34 || N.eqb opener 39 || N.eqb opener 40) = false ->
  opener <> 255%N.
Proof. intros H E. subst opener. discriminate. Qed.

(* stage 4: the optional title *)
Lemma lrd_t4_ok r0 c r label dest a e nl spaces opener :
  rle r0 r -> start_facts r0 a -> a <= e -> e < zlen (b_segs r0) -> e <= b_line r ->
  s_start (b_pos r0) < s_start (b_pos r) ->
  (nl = true -> b_in_range r = true -> e < b_line r) ->
  b_peek r = Ok opener ->
  lrd_post r0 c (lrd_t4 r c label dest a e nl spaces opener).
Proof.
  intros Hle Hsf Hae HeN Her Hst Hnl Hpk. pose proof Hle as (Hinv & Hsrc & Hsegs & Hl & Hp).
  unfold lrd_t4.
  destruct (negb (N.eqb opener 34 || N.eqb opener 39 || N.eqb opener 40)) eqn:Eq.
  - destruct nl; cbn [negb]; [|apply post_none; exact Hle].
    apply post_some; try assumption.
    + unfold adj. destruct (Z.eqb_spec a (e + 1)); lia.
    + unfold adj. destruct (Z.eqb_spec a (e + 1)); lia.
    + intros Hin. left. specialize (Hnl eq_refl Hin). unfold adj. destruct (Z.eqb_spec a (e + 1)); lia.
  - pose proof (b_peek_in r opener Hpk (quote_not_eof opener Eq)) as Hin.
    destruct (spaces =? 0); [apply post_none; exact Hle|].
    destruct (b_advance_ok r 1 Hinv) as (r7 & Hr7 & Hle7 & _).
    { pose proof (in_range_rest_len r Hinv Hin). lia. }
    rewrite Hr7. cbn [bind]. pose proof Hle7 as (Hinv7 & Hsrc7 & Hsegs7 & Hl7 & Hp7).
    destruct (find_closure_ok r7 opener (if N.eqb opener 40 then 41%N else opener) Hinv7)
      as (r8 & tsegs & Hr8 & Hle8 & Hres8).
    rewrite Hr8. cbn [bind]. pose proof Hle8 as (Hinv8 & Hsrc8 & Hsegs8 & Hl8 & Hp8).
    pose proof (rle_trans _ _ _ Hle (rle_trans _ _ _ Hle7 Hle8)) as Hle08.
    destruct tsegs as [tsegs|].
    + destruct Hres8 as [HF8 HN8].
      destruct (concat_values_total r8 tsegs) as [title Htitle].
      { exact (bi_segs r8 Hinv8). }
      { rewrite Hsegs8. exact HF8. }
      rewrite Htitle. cbn [bind]. rewrite (b_peek_line_view r8 Hinv8). cbn [bind].
      destruct (b_in_range r8) eqn:Hin8.
      * destruct (is_blank (b_view r8)) eqn:Eb; cbn [negb].
        -- apply post_some; try assumption.
           ++ unfold adj. destruct (Z.eqb_spec a (b_line r8 + 1)); lia.
           ++ unfold adj. destruct (Z.eqb_spec a (b_line r8 + 1)); [lia|]. rewrite Hsegs7, Hsegs in HN8. lia.
           ++ lia.
           ++ intros _. right. split; [|exact Eb]. unfold adj. destruct (Z.eqb_spec a (b_line r8 + 1)); lia.
        -- destruct nl; cbn [negb]; [|apply post_none; exact Hle08].
           specialize (Hnl eq_refl Hin).
           apply post_some; try assumption.
           ++ unfold adj. destruct (Z.eqb_spec a e); lia.
           ++ unfold adj. destruct (Z.eqb_spec a e); lia.
           ++ lia.
           ++ intros _. left. unfold adj. destruct (Z.eqb_spec a e); lia.
      * apply post_some; try assumption.
        -- unfold adj. destruct (Z.eqb_spec a (b_line r8 + 1)); lia.
        -- unfold adj. destruct (Z.eqb_spec a (b_line r8 + 1)); [lia|]. rewrite Hsegs7, Hsegs in HN8. lia.
        -- lia.
        -- intros C. congruence.
    + destruct nl; cbn [negb]; [|apply post_none; exact Hle08].
      destruct (b_advance_line_rle r8 Hinv8) as (r9 & Hr9 & Hle9 & Hline9).
      rewrite Hr9. cbn [bind]. pose proof Hle9 as (Hinv9 & Hsrc9 & Hsegs9 & Hl9 & Hp9).
      apply post_some; try assumption.
      * exact (rle_trans _ _ _ Hle08 Hle9).
      * unfold adj. destruct (Z.eqb_spec a (e + 1)); lia.
      * unfold adj. destruct (Z.eqb_spec a (e + 1)); lia.
      * lia.
      * intros _. left. unfold adj. destruct (Z.eqb_spec a (e + 1)); lia.
Qed.

(* stage 3: behind the destination *)
Lemma lrd_t3_ok r0 c r label dest a :
  rle r0 r -> start_facts r0 a -> a <= b_line r -> b_line r < zlen (b_segs r0) ->
  s_start (b_pos r0) < s_start (b_pos r) ->
  lrd_post r0 c (lrd_t3 r c label dest a).
Proof.
  intros Hle Hsf Ha HN Hst. pose proof Hle as (Hinv & Hsrc & Hsegs & Hl & Hp).
  unfold lrd_t3. rewrite (b_peek_line_view r Hinv). cbn [bind].
  destruct (b_skip_spaces_ok r Hinv) as (r6 & sg & ch & ok & Hr6 & Hle6 & Hout6 & _ & Hadv6).
  rewrite Hr6. cbn [bind]. pose proof Hle6 as (Hinv6 & Hsrc6 & Hsegs6 & Hl6 & Hp6).
  rewrite (b_peek_head r6 Hinv6). cbn [bind].
  apply lrd_t4_ok; try assumption.
  - exact (rle_trans _ _ _ Hle Hle6).
  - lia.
  - intros Hnl Hin6. destruct (b_in_range r) eqn:Hin.
    + apply Hadv6; [reflexivity | exact Hnl | exact Hin6].
    + rewrite (Hout6 eq_refl) in Hin6. congruence.
  - apply b_peek_head. exact Hinv6.
Qed.

(* stage 2: behind the label *)
Lemma lrd_t2_ok r0 c r a segs :
  rle r0 r -> start_facts r0 a -> a <= b_line r -> Forall (val_ok (b_segs r)) segs ->
  lrd_post r0 c (lrd_t2 r c a segs).
Proof.
  intros Hle Hsf Ha HF. pose proof Hle as (Hinv & Hsrc & Hsegs & Hl & Hp).
  unfold lrd_t2.
  destruct (concat_values_total r segs (bi_segs r Hinv) HF) as [label Hlabel].
  rewrite Hlabel. cbn [bind].
  destruct (is_blank label); [apply post_none; exact Hle|].
  pose proof (b_peek_head r Hinv) as Hpk. rewrite Hpk. cbn [bind].
  set (pk := if b_in_range r then hd 255%N (b_view r) else 255%N) in *.
  destruct (N.eqb_spec pk 58) as [E58|E58]; cbn [negb]; [|apply post_none; exact Hle].
  assert (Hin : b_in_range r = true) by (apply (b_peek_in r pk Hpk); rewrite E58; discriminate).
  assert (Hpad : s_pad (b_pos r) = 0) by (apply (b_peek_nopad r pk Hpk); rewrite E58; discriminate).
  destruct (b_advance_ok r 1 Hinv) as (r4 & Hr4 & Hle4 & _ & _ & Hstrict).
  { pose proof (in_range_rest_len r Hinv Hin). lia. }
  rewrite Hr4. cbn [bind]. pose proof Hle4 as (Hinv4 & Hsrc4 & Hsegs4 & Hl4 & Hp4).
  specialize (Hstrict ltac:(lia) Hpad).
  destruct (b_skip_spaces_ok r4 Hinv4) as (r5 & sg & ch & ok & Hr5 & Hle5 & _).
  rewrite Hr5. cbn [bind]. pose proof Hle5 as (Hinv5 & Hsrc5 & Hsegs5 & Hl5 & Hp5).
  destruct (b_pld_ok r5 Hinv5) as (r6 & d & Hr6 & Hle6 & HN6).
  rewrite Hr6. cbn [bind]. pose proof Hle6 as (Hinv6 & Hsrc6 & Hsegs6 & Hl6 & Hp6).
  pose proof (rle_trans _ _ _ Hle (rle_trans _ _ _ Hle4 (rle_trans _ _ _ Hle5 Hle6))) as Hle06.
  destruct d as [dest|]; [|apply post_none; exact Hle06].
  apply lrd_t3_ok; try assumption.
  - lia.
  - rewrite <- Hsegs, <- Hsegs4, <- Hsegs5. apply HN6. discriminate.
  - lia.
Qed.

(* util.IndentWidth of a line that does not start with a space: width 0 at position 0, or (a tab) width > 3 *)
Lemma iwp_mono : forall bs cur w pos, w <= fst (indent_width_pos bs cur w pos).
Proof.
  induction bs as [|ch bs IH]; intros cur w pos; cbn [indent_width_pos]; [cbn; lia|].
  destruct (N.eqb ch 32).
  - pose proof (IH cur (w + 1) (pos + 1)). lia.
  - destruct (N.eqb ch 9); [|cbn; lia].
    pose proof (IH cur (w + (4 - (cur + w) mod 4)) (pos + 1)).
    pose proof (Z.mod_pos_bound (cur + w) 4). lia.
Qed.

Lemma indent_first c0 t : is_space c0 = false ->
  indent_width (c0 :: t) 0 = (0, 0) \/ 3 < fst (indent_width (c0 :: t) 0).
Proof.
  intros Hc. unfold indent_width. cbn [indent_width_pos].
  destruct (N.eqb_spec c0 32) as [E|E]; [subst c0; congruence|].
  destruct (N.eqb c0 9); [|left; reflexivity].
  right. pose proof (iwp_mono t 0 (0 + (4 - (0 + 0) mod 4)) (0 + 1)) as Hm.
  change ((0 + 0) mod 4) with 0 in *. lia.
Qed.

(* one round *)
Lemma parse_lrd_ok r0 c : BInv r0 -> lrd_post r0 c (parse_lrd space_table punct_table norm r0 c).
Proof.
  intros H0. rewrite parse_lrd_eq. cbv zeta.
  destruct (b_skip_spaces_ok r0 H0) as (r1 & sg & ch & ok & Hr1 & Hle1 & Hout1 & Hhd1 & Hadv1).
  rewrite Hr1. cbn [bind]. pose proof Hle1 as (Hinv1 & Hsrc1 & Hsegs1 & Hl1 & Hp1).
  rewrite (b_peek_line_view r1 Hinv1). cbn [bind].
  destruct (b_in_range r1) eqn:Hin1; [|apply post_none; exact Hle1].
  destruct (Hhd1 eq_refl) as (c0 & t & Ev & Hc0). rewrite Ev.
  assert (Hsf : start_facts r0 (b_line r1)).
  { assert (Hin0 : b_in_range r0 = true).
    { destruct (b_in_range r0) eqn:E; [reflexivity|]. rewrite (Hout1 eq_refl) in Hin1. congruence. }
    split; [exact Hin0|]. split; [exact Hl1|]. split.
    - intros Hb. apply Hadv1; [exact Hin0 | exact Hb | reflexivity].
    - pose proof (bi_line r0 H0). lia. }
  destruct (indent_first c0 t Hc0) as [Ei|Ei].
  - rewrite Ei. change (3 <? 0) with false. cbv iota. change (negb (0 =? 0)) with false. cbv iota.
    assert (Hat : at_ (c0 :: t) 0 = Ok c0).
    { unfold at_. replace ((0 <=? 0) && (0 <? zlen (c0 :: t))) with true
        by (rewrite zlen_cons; pose proof (zlen_nonneg t); lia). reflexivity. }
    rewrite Hat. cbn [bind].
    destruct (N.eqb c0 91); cbn [negb]; [|apply post_none; exact Hle1].
    destruct (b_advance_ok r1 (0 + 1) Hinv1) as (r2 & Hr2 & Hle2 & _).
    { pose proof (in_range_rest_len r1 Hinv1 Hin1). lia. }
    rewrite Hr2. cbn [bind]. pose proof Hle2 as (Hinv2 & Hsrc2 & Hsegs2 & Hl2 & Hp2).
    destruct (find_closure_ok r2 91%N 93%N Hinv2) as (r3 & segs & Hr3 & Hle3 & Hres3).
    rewrite Hr3. cbn [bind]. pose proof Hle3 as (Hinv3 & Hsrc3 & Hsegs3 & Hl3 & Hp3).
    pose proof (rle_trans _ _ _ Hle1 (rle_trans _ _ _ Hle2 Hle3)) as Hle03.
    destruct segs as [segs|]; [|apply post_none; exact Hle03].
    apply lrd_t2_ok; try assumption.
    + lia.
    + rewrite Hsegs3. exact (proj1 Hres3).
  - destruct (indent_width (c0 :: t) 0) as [w p]. cbn [fst] in Ei.
    replace (3 <? w) with true by lia. apply post_none. exact Hle1.
Qed.

(* ================= the loop and the line surgery ================= *)
(* the (start, end) pairs are ordered: off <= a1 <= b1 <= a2 <= b2 <= ... <= n *)
Fixpoint chain (off : Z) (rem : list (Z * Z)) (n : Z) : Prop :=
  match rem with
  | [] => True
  | (a, b) :: t => off <= a /\ a <= b /\ b <= n /\ chain b t n
  end.
Fixpoint last_b (off : Z) (rem : list (Z * Z)) : Z :=
  match rem with [] => off | (_, b) :: t => last_b b t end.

Lemma chain_app : forall rem off n a b, chain off rem n -> last_b off rem <= a -> a <= b -> b <= n ->
  chain off (rem ++ [(a, b)]) n /\ last_b off (rem ++ [(a, b)]) = b.
Proof.
  induction rem as [|[a1 b1] t IH]; intros off n a b Hc Hl Hab Hbn.
  - cbn in *. repeat split; lia.
  - cbn [chain last_b app] in *. destruct Hc as (H1 & H2 & H3 & H4).
    destruct (IH b1 n a b H4 Hl Hab Hbn) as [K1 K2].
    split; [|exact K2]. split; [exact H1|]. split; [exact H2|]. split; [exact H3 | exact K1].
Qed.

Lemma lrd_loop_ok : forall fuel r c rem, BInv r ->
  chain 0 rem (zlen (b_segs r)) -> tailinv r (last_b 0 rem) ->
  zlen (b_src r) - s_start (b_pos r) < Z.of_nat fuel ->
  exists c' rem', lrd_loop space_table punct_table norm fuel r c rem = Ok (c', rem') /\
    (exists refs, c' = cset_refs c refs) /\ chain 0 rem' (zlen (b_segs r)).
Proof.
  induction fuel as [|f IH]; intros r c rem H Hc Ht Hf.
  - exfalso. destruct (bi_bounds r H) as [(E & E1 & E2)|(E & E1 & E2)].
    + pose proof (zlen_nonneg (b_src r)). lia.
    + lia.
  - cbn [lrd_loop].
    destruct (parse_lrd_ok r c H) as (r' & c' & a & b & Hr' & Hle' & [refs Hrefs] & Hcase).
    rewrite Hr'. cbn [bind]. destruct Hcase as [Ea|((Hin & Hla & Hlb & Ha0) & Hab & HbN & Hst & Ht')].
    + subst a. change (-1 <? -1) with false. cbv iota.
      exists c', rem. split; [reflexivity|]. split; [exists refs; exact Hrefs | exact Hc].
    + replace (-1 <? a) with true by lia.
      pose proof Hle' as (Hinv' & Hsrc' & Hsegs' & Hl' & Hp').
      assert (Hlast : last_b 0 rem <= a).
      { destruct (Ht Hin) as [Hx|[Hx Hy]]; [lia|]. specialize (Hlb Hy). lia. }
      destruct (chain_app rem 0 (zlen (b_segs r)) a (adj a b) Hc Hlast Hab HbN) as [Hc2 Hl2].
      destruct (IH r' c' (rem ++ [(a, adj a b)]) Hinv') as (c'' & rem'' & Hloop & [refs' Hrefs'] & Hc'').
      * rewrite Hsegs'. exact Hc2.
      * rewrite Hl2. exact Ht'.
      * rewrite Hsrc'. lia.
      * exists c'', rem''. split; [exact Hloop|]. split.
        -- exists refs'. rewrite Hrefs', Hrefs. reflexivity.
        -- rewrite Hsegs' in Hc''. exact Hc''.
Qed.

Lemma zlen_first_skip {A} (l : list A) k lo : 0 <= k <= zlen l -> 0 <= lo <= zlen l ->
  zlen (zfirst k l ++ zskip lo l) = k + (zlen l - lo).
Proof.
  intros Hk Hlo. unfold zfirst, zskip, zlen in *. rewrite app_length, firstn_length, skipn_length. lia.
Qed.

Lemma apply_removes_ok : forall rem lines off n, chain off rem n -> n - off <= zlen lines ->
  exists l', apply_removes rem lines off = Ok l' /\ sublist l' lines.
Proof.
  induction rem as [|[a b] t IH]; intros lines off n Hc Hn.
  - exists lines. split; [reflexivity | apply sublist_refl].
  - cbn [chain] in Hc. destruct Hc as (H1 & H2 & H3 & H4).
    destruct lines as [|x l].
    + exists []. split; [reflexivity | apply sl_nil].
    + cbn [apply_removes]. set (L := x :: l) in *. clearbody L.
      replace ((b - off <? 0) || (zlen L <? b - off) || (a - off <? 0) || (zlen L <? a - off)) with false by lia.
      destruct (IH (zfirst (a - off) L ++ zskip (b - off) L) b n H4) as (l' & Hl' & Hsub).
      * rewrite zlen_first_skip by lia. lia.
      * exists l'. split; [exact Hl'|]. apply (sublist_trans _ _ _ Hsub).
        unfold zfirst, zskip. apply sublist_first_skip. lia.
Qed.

Theorem lrd_lines_total (src : bytes) (lines : list seg) (c : pctx) : segs_ok src lines ->
  exists br c' removes lines',
    new_block_reader src lines = Ok br /\
    lrd_loop space_table punct_table norm (length src + length lines + 2) br c [] = Ok (c', removes) /\
    (exists refs, c' = cset_refs c refs) /\
    apply_removes removes lines 0 = Ok lines' /\
    sublist lines' lines.
Proof.
  intros Hok. destruct (new_block_reader_spec src lines Hok) as (br & Hbr & Hinv & Hsrc & Hsegs).
  destruct (lrd_loop_ok (length src + length lines + 2) br c [] Hinv) as (c' & removes & Hloop & Hrefs & Hc).
  - exact I.
  - intros _. left. cbn [last_b]. exact (bi_line br Hinv).
  - rewrite Hsrc. destruct (bi_bounds br Hinv) as [(E & E1 & E2)|(E & E1 & E2)]; unfold zlen; lia.
  - rewrite Hsegs in Hc.
    destruct (apply_removes_ok removes lines 0 (zlen lines) Hc) as (lines' & Hl' & Hsub); [lia|].
    exists br, c', removes, lines'. split; [exact Hbr|]. split; [exact Hloop|]. split; [exact Hrefs|].
    split; [exact Hl' | exact Hsub].
Qed.
End S.
