(* Helper file for TypoDefWfInl.v: scan_lineT and parse_block_loopT of model/TypoDefParseT.v keep
   the invariant "heap well formed and reader inside the block".  Ports of scan_line_ok and
   parse_block_loop_ok of proofs/ParseInlineRangeParsers.v (template: proofs/GfmWfInlLoop.v),
   generalised to a first line with padding (TypoDefWfInlReader.PA): while the position has
   padding the scanned bytes are blanks, no inline parser is registered on the blank, and the
   first Advance that precedes a call of the inline parsers consumes the whole padding. *)
Require Import GM.model.Base GM.model.Util GM.model.Reader GM.model.ReaderSpec GM.model.Blocks GM.model.ListItem
               GM.model.LeafBlocks GM.model.CodeSpan GM.model.LinkDest GM.model.Regex GM.model.Delim GM.model.HtmlWriter
               GM.model.Html GM.model.HtmlSpec GM.model.BlockParse GM.model.InlineParse GM.model.TypoDefParseT.
Require Import GM.proofs.BReaderProofs GM.proofs.BlockRangeProofs GM.proofs.RegexProofs GM.proofs.ParseInv.
Require Import GM.proofs.ParseInlineRangeHeap GM.proofs.ParseInlineRangeReader GM.proofs.TypoDefWfInlReader GM.proofs.TypoDefWfInlParsers
               GM.proofs.TypoDefWfInlTypo.
From Coq Require Import ZArith Lia List Bool.
Import ListNotations.
Open Scope Z_scope.

(* a byte of the padding *)
Lemma zskip_spaces_head q (v : bytes) i c tl : 0 <= i < q -> zskip i (spaces_n q ++ v) = c :: tl -> c = 32%N.
Proof.
  intros Hi H. unfold zskip, spaces_n in H.
  assert (Hn : nth_error (repeat 32%N (Z.to_nat q) ++ v) (Z.to_nat i) = Some c).
  { rewrite <- (firstn_skipn (Z.to_nat i) (repeat 32%N (Z.to_nat q) ++ v)), H.
    rewrite nth_error_app2; rewrite firstn_length, app_length, repeat_length; [|lia].
    replace (Z.to_nat i - Nat.min (Z.to_nat i) (Z.to_nat q + length v))%nat with O by lia. reflexivity. }
  rewrite nth_error_app1 in Hn by (rewrite repeat_length; lia).
  apply nth_error_In, repeat_spec in Hn. exact Hn.
Qed.

Section Loop.
Variable typo : bool.
Variable space_table punct_table : list N.
Variable norm : bytes -> bytes.
Variable url_table email_table : list N.
Variable re_email_domain re_open_tag re_close_tag : re.
Variable punct_rune space_rune : N -> bool.
Variable uni_punct uni_space uni_digit uni_letter : N -> bool.
Variable refs : list (bytes * (bytes * option bytes)).
Variable src : bytes.
Variable lines : list seg.
Hypothesis Hsp32 : is_space space_table 32 = true.
Hypothesis Hsp10 : is_space space_table 10 = true.
Hypothesis Hsrc : bytes_ok src.
Hypothesis Hrefs : refs_ok refs.

Local Notation RI := (TypoDefWfInlReader.RI src lines).
Local Notation RP := (TypoDefWfInlReader.RP src lines).
Local Notation st_ok := (TypoDefWfInlParsers.st_ok src lines).
Local Notation trim_right_in := (TypoDefWfInlParsers.trim_right_in space_table norm src Hsp32 Hsp10).
Local Notation try_inlineT_ok := (TypoDefWfInlTypo.try_inlineT_ok space_table punct_table norm url_table email_table
  re_email_domain re_open_tag re_close_tag punct_rune space_rune uni_punct uni_space uni_digit uni_letter refs src lines
  Hsp32 Hsp10 Hsrc Hrefs).
Notation TRYT := (try_inlineT space_table punct_table norm url_table email_table re_email_domain re_open_tag re_close_tag
                  punct_rune space_rune uni_punct uni_space uni_digit uni_letter refs).
Notation SCANT := (scan_lineT typo space_table punct_table norm url_table email_table re_email_domain re_open_tag re_close_tag
                  punct_rune space_rune uni_punct uni_space uni_digit uni_letter refs).
Notation LOOPT := (parse_block_loopT typo space_table punct_table norm url_table email_table re_email_domain re_open_tag re_close_tag
                  punct_rune space_rune uni_punct uni_space uni_digit uni_letter refs).

(* heap well formed, reader inside the block: possibly still in the padding of the single line *)
Definition st_okP (s : ist) (L : list nat) : Prop := ctx_ok src [] (t_c s) L /\ RP (t_r s).

(* what scan_lineT and the loop know about the reader and the pending text *)
Record scan_inv (line : bytes) (l0 : Z) (i n : Z) (start_pos : seg) (s : ist) : Prop := {
  si_n : 0 <= n <= i;
  si_i : i <= zlen line;
  si_len : s_stop (b_pos (t_r s)) - s_start (b_pos (t_r s)) + s_pad (b_pos (t_r s)) = zlen line - (i - n);
  si_line : b_line (t_r s) = l0;
  si_l0 : l0 < zlen lines;
  si_sp : 0 <= s_start start_pos <= s_start (b_pos (t_r s));
  si_pad : s_pad (b_pos (t_r s)) <= s_pad start_pos;
  si_pa : 0 < s_pad (b_pos (t_r s)) -> i = n /\ exists v, line = spaces_n (s_pad (b_pos (t_r s))) ++ v
}.

(* no inline parser is registered on the blank *)
Lemma no_parser_on_blank (consult : bool) (b : bool) : (if consult then inline_parsersT typo (if true || b then 32%N else 32%N) else []) = [].
Proof. destruct consult; [|reflexivity]. destruct typo; reflexivity. Qed.

Lemma scan_lineT_ok : forall fuel line i line_length n escaped start_pos x parent out l0 L,
  SCANT fuel line i line_length n escaped start_pos x parent = Ok out ->
  st_okP (ts_s x) L -> pok (i_h (t_c (ts_s x))) parent -> scan_inv line l0 i n start_pos (ts_s x) ->
  match out with
  | inl (x', _) => exists L', st_ok (ts_s x') L' /\ kle (i_h (t_c (ts_s x))) (i_h (t_c (ts_s x')))
  | inr (x', n', sp') => exists L' i', st_okP (ts_s x') L' /\ kle (i_h (t_c (ts_s x))) (i_h (t_c (ts_s x'))) /\
                                         scan_inv line l0 i' n' sp' (ts_s x')
  end.
Proof.
  induction fuel as [|f IH]; intros line i line_length n escaped start_pos x parent out l0 L H Hs Hpar Hinv;
    cbn [scan_lineT] in H; [discriminate|].
  assert (Hstop : exists L' i', st_okP (ts_s x) L' /\ kle (i_h (t_c (ts_s x))) (i_h (t_c (ts_s x))) /\ scan_inv line l0 i' n start_pos (ts_s x)).
  { exists L, i. split; [exact Hs|]. split; [apply kle_refl|exact Hinv]. }
  destruct (line_length <=? i); [inversion H; subst out; exact Hstop|].
  destruct (zskip i line) as [|c tl] eqn:Ez; [inversion H; subst out; exact Hstop|].
  destruct (N.eqb c 10); [inversion H; subst out; exact Hstop|].
  assert (Hi : i < zlen line).
  { pose proof (zlen_zskip i line) as Hz. rewrite Ez, zlen_cons in Hz. pose proof (zlen_nonneg tl). destruct Hinv. lia. }
  match type of H with (_ <- ?X ;; _) = _ => destruct X as [r| |] eqn:Er end; cbn [bind] in H; try discriminate.
  (* the consultation of the inline parsers *)
  assert (Hr : match r with
               | inl x' => exists L', st_ok (ts_s x') L' /\ kle (i_h (t_c (ts_s x))) (i_h (t_c (ts_s x')))
               | inr (x', n', sp') => exists L', st_okP (ts_s x') L' /\ kle (i_h (t_c (ts_s x))) (i_h (t_c (ts_s x'))) /\
                                                  scan_inv line l0 i n' sp' (ts_s x')
               end).
  { match type of Er with match ?IPS with [] => _ | _ => _ end = _ => destruct IPS as [|ip0 ips0] eqn:Eips end.
    { inversion Er; subst r. exists L. split; [exact Hs|]. split; [apply kle_refl|exact Hinv]. }
    set (s := ts_s x) in *.
    destruct Hs as [Hc Hrd]. destruct Hinv as [I1 I2 I3 I4 I5 I6 I7 I8].
    pose proof (rp_pad _ _ _ Hrd) as Hpad0.
    (* the padding is behind *)
    assert (Hpn : s_pad (b_pos (t_r s)) <= n).
    { destruct (Z.le_gt_cases (s_pad (b_pos (t_r s))) n) as [Hle|Hgt]; [exact Hle|exfalso].
      destruct (I8 ltac:(lia)) as (Ein & v & Ev). subst i. rewrite Ev in Ez.
      apply zskip_spaces_head in Ez; [|lia]. subst c. rewrite Hsp32 in Eips. cbn [N.eqb Pos.eqb negb andb] in Eips.
      rewrite no_parser_on_blank in Eips. discriminate Eips. }
    destruct (b_advance (t_r s) n) as [rd| |] eqn:Ea; cbn [bind] in Er; try discriminate.
    assert (Hin : b_in_range (t_r s) = true) by (apply (rp_in_range_intro src lines); [exact Hrd|lia|lia]).
    destruct (rp_advance_scan src lines (t_r s) n rd Hrd Hin ltac:(lia) ltac:(lia) Ea) as (Hrd1 & Fl & Fs & Fe).
    cbn [ist_r t_c t_r] in Er.
    (* flushing the pending text *)
    match type of Er with (_ <- ?X ;; _) = _ => destruct X as [[s1 sp1]| |] eqn:Et end; cbn [bind] in Er; try discriminate.
    assert (Ht : exists L1, st_ok s1 L1 /\ kle (i_h (t_c s)) (i_h (t_c s1)) /\ t_r s1 = rd /\
                 0 <= s_start sp1 <= s_start (b_pos rd) /\ 0 <= s_pad sp1).
    { destruct (negb (i =? 0)).
      - destruct (seg_between start_pos (b_pos rd)) as [bt| |] eqn:Eb; cbn [bind] in Et; try discriminate.
        destruct (merge_or_append (t_c s) parent bt) as [c'| |] eqn:Em; cbn [bind] in Et; try discriminate.
        inversion Et; subst s1 sp1. clear Et.
        assert (Hbt : seg_in src bt = true).
        { unfold seg_between in Eb. destruct (s_stop start_pos =? s_stop (b_pos rd)); [|discriminate Eb]. inversion Eb; subst bt.
          pose proof (ri_bounds _ _ _ Hrd1). apply seg_in_intro; cbn [mksegp s_start s_stop s_pad]; try lia.
          rewrite (ri_pad _ _ _ Hrd1). lia. }
        destruct (nstep_neutral src _ _ (fun Hh => merge_or_append_ok src _ _ _ _ Em Hh Hbt) [] L Hc) as [Hc' Hk'].
        exists L. split; [split; [exact Hc'|exact Hrd1]|]. split; [exact Hk'|]. split; [reflexivity|].
        split; [pose proof (ri_bounds _ _ _ Hrd1); lia|rewrite (ri_pad _ _ _ Hrd1); lia].
      - inversion Et; subst s1 sp1. exists L. split; [split; [exact Hc|exact Hrd1]|]. split; [apply kle_refl|].
        split; [reflexivity|]. split; [lia|lia]. }
    destruct Ht as (L1 & Hs1 & Hk1 & Er1 & Hsp1 & Hpad1).
    assert (Hpar1 : pok (i_h (t_c s1)) parent) by (eapply pok_kle; eassumption).
    destruct (TRYT (ip0 :: ips0) (tst_s x s1) parent (b_line rd) (b_pos rd)) as [[x2 node]| |] eqn:Etry; cbn [bind] in Er; try discriminate.
    destruct (try_inlineT_ok rd Hrd1 (ip0 :: ips0) (tst_s x s1) parent x2 node L1 Hs1 ltac:(cbn [ts_s tst_s]; rewrite Er1; reflexivity)
                ltac:(cbn [ts_s tst_s]; rewrite Er1; reflexivity) Etry) as [(L2 & Hs2 & Hk2 & Hres2) Hpos2].
    cbn [ts_s tst_s] in Hk2.
    destruct node as [nd|].
    - destruct (i_append (i_h (t_c (ts_s x2))) parent nd) as [h| |] eqn:Eap; cbn [bind] in Er; try discriminate.
      inversion Er; subst r. clear Er. destruct Hs2 as [Hc2 Hr2].
      pose proof (i_append_spec _ _ _ _ Eap (h_tree _ _ (proj1 Hc2))) as Hat.
      assert (Hpar2 : pok (i_h (t_c (ts_s x2))) parent). { eapply pok_kle; [|exact Hpar]. eapply kle_trans; eassumption. }
      destruct (ctx_attach src _ _ _ _ _ _ Hc2 Hat (pok_edge _ _ _ Hpar2)) as [Hc3 Hk3].
      { destruct (Hres2 nd eq_refl) as [Hn|Hn]; [left; exact Hn|right; left; exact Hn]. }
      cbn [ts_s tst_s].
      exists L2. split; [split; [exact Hc3|exact Hr2]|]. cbn [ist_c t_c cx_h i_h].
      eapply kle_trans; [exact Hk1|]. eapply kle_trans; [exact Hk2|exact Hk3].
    - inversion Er; subst r. clear Er. destruct (Hpos2 eq_refl) as [Pl Pp].
      exists L2. split; [split; [exact (proj1 Hs2)|left; exact (proj2 Hs2)]|]. split; [eapply kle_trans; eassumption|].
      constructor; rewrite ?Pl, ?Pp, ?(ri_pad _ _ _ Hrd1); try lia. }
  destruct r as [x1|[[x1 n1] sp1]].
  - inversion H; subst out. exact Hr.
  - destruct Hr as (L1 & Hs1 & Hk1 & Hinv1).
    assert (Hnext : forall esc, SCANT f line (i + 1) line_length (n1 + 1) esc sp1 x1 parent = Ok out ->
             match out with
             | inl (x', _) => exists L', st_ok (ts_s x') L' /\ kle (i_h (t_c (ts_s x))) (i_h (t_c (ts_s x')))
             | inr (x', n', sp') => exists L' i', st_okP (ts_s x') L' /\ kle (i_h (t_c (ts_s x))) (i_h (t_c (ts_s x'))) /\
                                                    scan_inv line l0 i' n' sp' (ts_s x')
             end).
    { intros esc Hsc.
      assert (Hp1 : pok (i_h (t_c (ts_s x1))) parent) by (eapply pok_kle; eassumption).
      assert (Hi1 : scan_inv line l0 (i + 1) (n1 + 1) sp1 (ts_s x1)).
      { destruct Hinv1 as [I1 I2 I3 I4 I5 I6 I7 I8]. constructor; try lia; try assumption.
        intros Hp. destruct (I8 Hp) as [E1 E2]. split; [lia|exact E2]. }
      pose proof (IH line (i + 1) line_length (n1 + 1) esc sp1 x1 parent out l0 L1 Hsc Hs1 Hp1 Hi1) as IHr.
      destruct out as [[x' e']|[[x' n'] sp']].
      - destruct IHr as (L' & Hs' & Hk'). exists L'. split; [exact Hs'|eapply kle_trans; eassumption].
      - destruct IHr as (L' & i' & Hs' & Hk' & Hinv'). exists L', i'. split; [exact Hs'|]. split; [eapply kle_trans; eassumption|exact Hinv']. }
    destruct escaped; [apply Hnext in H; exact H|]. destruct (N.eqb c 92); apply Hnext in H; exact H.
Qed.

(* ---------- parseBlock: the loop over the lines ---------- *)
Lemma parse_block_loopT_ok : forall fuel x parent escaped x' L, LOOPT fuel x parent escaped = Ok x' ->
  ctx_ok src [] (t_c (ts_s x)) L -> RP (t_r (ts_s x)) \/ b_in_range (t_r (ts_s x)) = false -> pok (i_h (t_c (ts_s x))) parent ->
  exists L', ctx_ok src [] (t_c (ts_s x')) L' /\ kle (i_h (t_c (ts_s x))) (i_h (t_c (ts_s x'))).
Proof.
  induction fuel as [|f IH]; intros x parent escaped x' L H Hc Hr Hpar; cbn [parse_block_loopT] in H; [discriminate|].
  set (s := ts_s x) in *.
  destruct Hr as [Hr|Hout].
  2:{ unfold b_peek_line in H. rewrite Hout in H. cbn [bind] in H. inversion H; subst x'. cbn [ts_s tst_s ist_r t_c].
      exists L. split; [exact Hc|apply kle_refl]. }
  destruct (b_peek_line (t_r s)) as [[[r1 line] sg]| |] eqn:Ep; cbn [bind] in H; try discriminate.
  destruct (rp_peek _ _ _ _ _ _ Hr Ep) as (-> & -> & Hline).
  destruct line as [line|].
  2:{ inversion H; subst x'. cbn [ts_s tst_s ist_r t_c]. exists L. split; [exact Hc|apply kle_refl]. }
  destruct Hline as (Hin & Hv & Hl & Hp0 & Hp1 & Hp2 & Hlt).
  match type of H with context [match ?X with pair _ _ => _ end] =>
    match type of X with (Z * bool * bool * bool)%type => destruct X as [[[line_length hard] visible] soft] end end.
  cbn [ts_s tst_s ist_r t_c t_r] in H.
  destruct (SCANT (S (length line)) line 0 line_length 0 escaped (b_pos (t_r s)) (tst_s x (ist_r s (t_r s))) parent) as [out| |] eqn:Esc;
    cbn [bind] in H; try discriminate.
  assert (Hinv0 : scan_inv line (b_line (t_r s)) 0 0 (b_pos (t_r s)) (ts_s (tst_s x (ist_r s (t_r s))))).
  { pose proof (zlen_nonneg line). constructor; cbn [ts_s tst_s ist_r t_r]; try lia; try reflexivity.
    intros _. split; [reflexivity|]. eexists. exact Hv. }
  pose proof (scan_lineT_ok _ _ _ _ _ _ _ _ _ _ _ L Esc (conj Hc Hr) Hpar Hinv0) as Hout.
  destruct out as [[x1 esc]|[[x1 n] sp]].
  - destruct Hout as (L1 & [Hc1 Hr1] & Hk1). cbn [ts_s tst_s ist_r t_c] in Hk1.
    destruct (IH _ _ _ _ L1 H Hc1) as (L2 & Hs2 & Hk2); [left; left; exact Hr1|eapply pok_kle; eassumption|].
    exists L2. split; [exact Hs2|eapply kle_trans; eassumption].
  - destruct Hout as (L1 & i' & [Hc1 Hr1] & Hk1 & [I1 I2 I3 I4 I5 I6 I7 I8]). cbn [ts_s tst_s ist_r t_c] in Hk1.
    set (s1 := ts_s x1) in *.
    assert (Hpar1 : pok (i_h (t_c s1)) parent) by (eapply pok_kle; eassumption).
    pose proof (rp_pad _ _ _ Hr1) as Hpad1.
    match type of H with (_ <- ?X ;; _) = _ => destruct X as [r2| |] eqn:Ea end; cbn [bind] in H; try discriminate.
    assert (Hr2 : RP r2 /\ pos_le (t_r s1) r2 /\ s_pad (b_pos r2) <= s_pad (b_pos (t_r s1))).
    { destruct (negb (n =? 0)) eqn:En.
      - apply negb_true_iff, Z.eqb_neq in En.
        assert (Hin1 : b_in_range (t_r s1) = true) by (apply (rp_in_range_intro src lines); [exact Hr1|lia|lia]).
        eapply rp_advance_end; [exact Hr1|exact Hin1| |exact Ea]. lia.
      - inversion Ea; subst r2. split; [exact Hr1|]. split; [apply pos_le_refl|lia]. }
    destruct Hr2 as (Hr2 & Hpos2 & Hpd2). cbn [ts_s tst_s ist_r t_c t_r] in H.
    pose proof (rp_pad _ _ _ Hr2) as Hpad2.
    destruct (negb (b_line (t_r s) =? b_line r2)) eqn:Eline.
    { destruct (IH _ _ _ _ L1 H) as (L2 & Hs2 & Hk2); [exact Hc1|left; exact Hr2|exact Hpar1|].
      exists L2. split; [exact Hs2|eapply kle_trans; eassumption]. }
    apply negb_false_iff, Z.eqb_eq in Eline.
    destruct (seg_between sp (b_pos r2)) as [diff| |] eqn:Eb; cbn [bind] in H; try discriminate.
    assert (Hdiff : seg_in src diff = true).
    { unfold seg_between in Eb. destruct (s_stop sp =? s_stop (b_pos r2)); [|discriminate Eb]. inversion Eb; subst diff.
      destruct Hpos2 as [_ Hp2']. destruct (Hp2' ltac:(lia)) as [Hle _].
      pose proof (rp_bounds _ _ _ Hr2). apply seg_in_intro; cbn [mksegp s_start s_stop s_pad]; lia. }
    match type of H with (_ <- ?X ;; _) = _ => destruct X as [[c2 tseg]| |] eqn:Et end; cbn [bind] in H; try discriminate.
    assert (Ht : ctx_ok src [] c2 L1 /\ kle (i_h (t_c s1)) (i_h c2) /\ seg_in src tseg = true).
    { assert (Hsame : forall tg, seg_in src tg = true -> ctx_ok src [] (t_c s1) L1 /\ kle (i_h (t_c s1)) (i_h (t_c s1)) /\ seg_in src tg = true).
      { intros tg Htg. split; [exact Hc1|]. split; [apply kle_refl|exact Htg]. }
      destruct (hard && visible); [inversion Et; subst c2 tseg; apply Hsame; exact Hdiff|].
      rewrite (rp_src _ _ _ Hr2) in Et.
      destruct (seg_trim_right_space space_table src diff) as [trimmed| |] eqn:Etr; cbn [bind] in Et; try discriminate.
      pose proof (trim_right_in _ _ Hdiff Etr) as Htrim.
      destruct (seg_is_empty trimmed); [|inversion Et; subst c2 tseg; apply Hsame; exact Htrim].
      destruct (iget (i_h (t_c s1)) parent) as [pn| |]; cbn [bind] in Et; try discriminate.
      destruct (last_id (ich pn)) as [lst|]; [|inversion Et; subst c2 tseg; apply Hsame; exact Htrim].
      destruct (iget (i_h (t_c s1)) lst) as [ln| |] eqn:Eg; cbn [bind] in Et; try discriminate.
      apply iget_kd in Eg. destruct Eg as (Ekl & _).
      destruct (ik ln) as [|ts sf hd raw| | | | | | | |]; try (inversion Et; subst c2 tseg; apply Hsame; exact Htrim).
      destruct (_ && _ && _ && _); [|inversion Et; subst c2 tseg; apply Hsame; exact Htrim].
      destruct (seg_trim_right_space space_table src ts) as [ts'| |] eqn:Ets; cbn [bind] in Et; try discriminate.
      pose proof (h_kind _ _ (proj1 Hc1) lst _ Ekl) as Hko. cbn in Hko.
      pose proof (trim_right_in _ _ Hko Ets) as Hts'.
      destruct (iupd (i_h (t_c s1)) lst _) as [h| |] eqn:Eu; cbn [bind] in Et; try discriminate.
      inversion Et; subst c2 tseg. clear Et.
      apply iupd_kind in Eu. destruct Eu as (_ & Lh & Kh & Ph & Ch).
      assert (Hst : kind_step (i_h (t_c s1)) h lst (IText ts' sf hd raw)) by (repeat split; assumption).
      destruct (ctx_kind src _ _ _ _ _ _ _ Hc1 Hst Ekl eq_refl) as [Hc2 Hk2]; [cbn; lia|cbn; exact Hts'|].
      split; [exact Hc2|]. split; [exact Hk2|exact Htrim]. }
    destruct Ht as (Hc2 & Hk2 & Htseg).
    destruct (new_inode c2 (IText tseg soft hard false)) as [c3 tx] eqn:En.
    destruct (i_append (i_h c3) parent tx) as [h4| |] eqn:Eap; cbn [bind] in H; try discriminate.
    destruct (b_advance_line r2) as [r3| |] eqn:Eal; cbn [bind] in H; try discriminate.
    destruct (ctx_new src _ _ _ _ _ _ En Htseg Hc2) as (Hc3 & Hk3 & _ & Kx & _).
    pose proof (i_append_spec _ _ _ _ Eap (h_tree _ _ (proj1 Hc3))) as Hat.
    destruct (ctx_attach src _ _ _ _ _ _ Hc3 Hat) as [Hc4 Hk4].
    { eapply text_edge. exact Kx. }
    { left. eapply kd_dlk_none; [exact Kx|cbn; lia]. }
    pose proof (rp_advance_line _ _ _ _ Hr2 Eal) as Hr3.
    assert (Hk04 : kle (i_h (t_c s)) h4).
    { eapply kle_trans; [exact Hk1|]. eapply kle_trans; [exact Hk2|]. eapply kle_trans; [exact Hk3|exact Hk4]. }
    destruct (IH _ _ _ _ L1 H) as (L2 & Hs2 & Hk5).
    * cbn [ts_s tst_s t_c]. exact Hc4.
    * cbn [ts_s tst_s t_r]. exact Hr3.
    * cbn [ts_s tst_s t_c cx_h i_h]. eapply pok_kle; [exact Hk04|exact Hpar].
    * exists L2. split; [exact Hs2|]. eapply kle_trans; [exact Hk04|exact Hk5].
Qed.

End Loop.
