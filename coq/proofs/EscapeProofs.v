Require Import GM.model.Base GM.model.Util GM.model.HtmlDecode.
From Coq Require Import Lia.
Open Scope N_scope.

Lemma strip_app p w : strip p (p ++ w) = Some w.
Proof. induction p as [|a p IH]; cbn [strip app]; [reflexivity|]. rewrite N.eqb_refl. exact IH. Qed.

Section Escape.
Variable html_escape_table : list (option bytes).
Hypothesis table_std : forall c, esc_entry html_escape_table c = esc_std c.

Notation escape_html := (escape_html html_escape_table).
Notation esc1 := (esc1 html_escape_table).

Lemma esc1_cases c :
  (c = 34 /\ esc1 c = r_quot) \/ (c = 38 /\ esc1 c = r_amp) \/
  (c = 60 /\ esc1 c = r_lt) \/ (c = 62 /\ esc1 c = r_gt) \/
  (c <> 34 /\ c <> 38 /\ c <> 60 /\ c <> 62 /\ esc1 c = [c]).
Proof.
  unfold Util.esc1. rewrite table_std. unfold esc_std.
  destruct (N.eqb_spec c 34) as [->|H1]; [left; auto|].
  destruct (N.eqb_spec c 38) as [->|H2]; [right; left; auto|].
  destruct (N.eqb_spec c 60) as [->|H3]; [right; right; left; auto|].
  destruct (N.eqb_spec c 62) as [->|H4]; [right; right; right; left; auto|].
  right; right; right; right; auto.
Qed.

Lemma escape_cons c v : escape_html (c :: v) = esc1 c ++ escape_html v.
Proof. reflexivity. Qed.

Theorem escape_html_out v : EscOut (escape_html v).
Proof.
  induction v as [|c v IH]; [constructor|].
  rewrite escape_cons.
  destruct (esc1_cases c) as [[_ ->]|[[_ ->]|[[_ ->]|[[_ ->]|(H1 & H2 & H3 & H4 & ->)]]]].
  - now apply eo_quot. - now apply eo_amp. - now apply eo_lt. - now apply eo_gt.
  - cbn [app]. now apply eo_plain.
Qed.

(* no raw lt/gt/double-quote in the output; an ampersand only starts one of the four references *)
Lemma EscOut_no_raw w : EscOut w -> Forall (fun b => b <> 60 /\ b <> 62 /\ b <> 34) w.
Proof.
  induction 1 as [|c w H1 H2 H3 H4 _ IH| w _ IH| w _ IH| w _ IH| w _ IH].
  - constructor.
  - constructor; auto.
  - unfold r_quot; cbn [app]; repeat (constructor; [repeat split; discriminate|]); exact IH.
  - unfold r_amp; cbn [app]; repeat (constructor; [repeat split; discriminate|]); exact IH.
  - unfold r_lt; cbn [app]; repeat (constructor; [repeat split; discriminate|]); exact IH.
  - unfold r_gt; cbn [app]; repeat (constructor; [repeat split; discriminate|]); exact IH.
Qed.

Theorem escape_html_no_raw v : Forall (fun b => b <> 60 /\ b <> 62 /\ b <> 34) (escape_html v).
Proof. apply EscOut_no_raw, escape_html_out. Qed.

Lemma strip_ref_plain r c w : hd 0 r = 38 -> r <> [] -> c <> 38 -> strip r (c :: w) = None.
Proof.
  destruct r as [|a r]; [congruence|]. cbn [hd strip]. intros -> _ Hc.
  destruct (N.eqb_spec 38 c); [congruence|reflexivity].
Qed.

Lemma decode_step_plain f c w :
  c <> 38 -> html_decode_fuel (S f) (c :: w) = c :: html_decode_fuel f w.
Proof.
  intro Hc. cbn [html_decode_fuel].
  rewrite !strip_ref_plain by (try reflexivity; try discriminate; exact Hc). reflexivity.
Qed.

Lemma decode_fuel_escape v : forall f, (length (escape_html v) <= f)%nat ->
  html_decode_fuel f (escape_html v) = v.
Proof.
  induction v as [|c v IH]; intros f Hf.
  - destruct f; reflexivity.
  - rewrite escape_cons in *. rewrite app_length in Hf.
    destruct (esc1_cases c) as [[-> E]|[[-> E]|[[-> E]|[[-> E]|(H1 & H2 & H3 & H4 & E)]]]];
      rewrite E in *; unfold r_quot, r_amp, r_lt, r_gt in Hf; cbn [length] in Hf.
    + destruct f as [|f]; [lia|]. change (r_quot ++ escape_html v) with (38 :: (tl r_quot ++ escape_html v)).
      cbn [html_decode_fuel]. change (38 :: tl r_quot ++ escape_html v) with (r_quot ++ escape_html v).
      rewrite strip_app. f_equal. apply IH. lia.
    + destruct f as [|f]; [lia|]. change (r_amp ++ escape_html v) with (38 :: (tl r_amp ++ escape_html v)).
      cbn [html_decode_fuel]. change (38 :: tl r_amp ++ escape_html v) with (r_amp ++ escape_html v).
      replace (strip r_quot (r_amp ++ escape_html v)) with (@None bytes) by reflexivity.
      rewrite strip_app. f_equal. apply IH. lia.
    + destruct f as [|f]; [lia|]. change (r_lt ++ escape_html v) with (38 :: (tl r_lt ++ escape_html v)).
      cbn [html_decode_fuel]. change (38 :: tl r_lt ++ escape_html v) with (r_lt ++ escape_html v).
      replace (strip r_quot (r_lt ++ escape_html v)) with (@None bytes) by reflexivity.
      replace (strip r_amp (r_lt ++ escape_html v)) with (@None bytes) by reflexivity.
      rewrite strip_app. f_equal. apply IH. lia.
    + destruct f as [|f]; [lia|]. change (r_gt ++ escape_html v) with (38 :: (tl r_gt ++ escape_html v)).
      cbn [html_decode_fuel]. change (38 :: tl r_gt ++ escape_html v) with (r_gt ++ escape_html v).
      replace (strip r_quot (r_gt ++ escape_html v)) with (@None bytes) by reflexivity.
      replace (strip r_amp (r_gt ++ escape_html v)) with (@None bytes) by reflexivity.
      replace (strip r_lt (r_gt ++ escape_html v)) with (@None bytes) by reflexivity.
      rewrite strip_app. f_equal. apply IH. lia.
    + destruct f as [|f]; [lia|]. cbn [app]. rewrite decode_step_plain by exact H2.
      f_equal. apply IH. lia.
Qed.

Theorem html_decode_escape v : html_decode (escape_html v) = v.
Proof. unfold html_decode. apply decode_fuel_escape. lia. Qed.

End Escape.
