(* Totality of the block phase of the heading-options model, part OpsC: the Close functions of the
   heading parsers with the options (model/HeadingOpts.v: parse_last_line_attributes,
   auto_heading_id, atx_close_h, setext_close_h) never panic / run out of fuel under the state
   invariant SI of the core totality proof, and satisfy ParseBlocksTotalSpec.close_post. *)
Require Import GM.model.Base GM.model.Util GM.model.Reader GM.model.ReaderSpec GM.model.Blocks GM.model.ListItem
               GM.model.LeafBlocks GM.model.CodeBlock GM.model.LinkDest GM.model.Regex GM.model.BlockParse
               GM.model.HtmlWriter GM.model.Html GM.model.Attr GM.model.Ids GM.model.HeadingOpts.
Require Import GM.proofs.ReaderProofs GM.proofs.BlocksProofs GM.proofs.IdsProofs
               GM.proofs.ParseBlocksTotalReader GM.proofs.ParseBlocksTotalDefs GM.proofs.ParseBlocksTotalSpec
               GM.proofs.ParseBlocksTotalSt GM.proofs.HeadingOptsWfTotShape GM.proofs.ParseBlocksTotalLeaf2
               GM.proofs.HeadingOptsWfAttr GM.proofs.HeadingOptsWfTotOpsCG.
From Coq Require Import ZArith Lia List Bool.
Open Scope Z_scope.

(* ---------- the wrapper ---------- *)
Lemma set_node_attr_s x i nm v : hx_s (set_node_attr x i nm v) = hx_s x.
Proof. reflexivity. Qed.
Lemma set_node_attrs_s l : forall x i, hx_s (set_node_attrs x i l) = hx_s x.
Proof.
  induction l as [|[nm v] l IH]; intros x i; [reflexivity|]. cbn [set_node_attrs]. rewrite IH. reflexivity.
Qed.

(* ---------- the value of a heading line ---------- *)
Lemma seg_value_olineE src sg : olineE src sg -> seg_value src sg = Ok (sub src (s_start sg) (s_stop sg)).
Proof.
  intros (A & B & C & D). unfold seg_value. rewrite slice_sub by lia. cbn [bind]. rewrite C, D. reflexivity.
Qed.

(* ---------- the scan of the last line: total ---------- *)
Section Scan.
Variable space_table punct_table : list N.
Hypothesis attr_total : AttrTotal space_table punct_table.
Notation parse_attrs := (ParseAttributesModel space_table punct_table).
Notation last_line_scan := (last_line_scan space_table punct_table).

Lemma rest_in_range r : r_in_range r = true -> (1 <= length (r_rest r))%nat.
Proof.
  intros Hin. apply in_range_true in Hin. rewrite r_rest_in by lia. rewrite app_length, skipn_length.
  unfold zlen in Hin. lia.
Qed.

Lemma lls_adv line r n : RInv r -> r_src r = line -> 0 <= n ->
  exists r', r_advance r n = Ok r' /\ RInv r' /\ r_src r' = line /\
             length (r_rest r') = (length (r_rest r) - Z.to_nat n)%nat.
Proof.
  intros Hi Hs Hn. destruct (advance_skips_gen r n Hi Hn) as [r' (E & Hi' & Hs' & Hr')].
  exists r'. csplit; auto; [congruence|]. rewrite Hr', skipn_length. reflexivity.
Qed.

Lemma rest_same_pos r r' : r_src r' = r_src r -> r_pos r' = r_pos r -> r_rest r' = r_rest r.
Proof. intros E1 E2. unfold r_rest. rewrite E1, E2. reflexivity. Qed.

Lemma lls_total line : forall fuel r res st_ en,
  RInv r -> r_src r = line -> (length (r_rest r) < fuel)%nat ->
  0 <= st_ <= zlen line -> 0 <= en <= zlen line ->
  exists res' st' en', last_line_scan fuel r res st_ en = Ok (res', st', en') /\
    0 <= st' <= zlen line /\ 0 <= en' <= zlen line.
Proof.
  induction fuel as [|f IH]; intros r res st_ en Hi Hs Hf Hst Hen; [lia|].
  cbn [HeadingOpts.last_line_scan]. rewrite (peek_is_head r Hi). cbn [bind].
  destruct (r_in_range r) eqn:Hin.
  2:{ cbn [N.eqb Pos.eqb]. exists res, st_, en. auto. }
  pose proof (rest_in_range r Hin) as Hrest.
  set (c := hd 255%N (r_view r)).
  destruct (N.eqb c 255).
  { exists res, st_, en. auto. }
  destruct (N.eqb c 92).
  { destruct (lls_adv line r 1 Hi Hs ltac:(lia)) as [r1 (E1 & Hi1 & Hs1 & Hl1)]. rewrite E1. cbn [bind].
    rewrite (peek_is_head r1 Hi1). cbn [bind].
    destruct (N.eqb (if r_in_range r1 then hd 255%N (r_view r1) else 255%N) 123).
    - destruct (lls_adv line r1 1 Hi1 Hs1 ltac:(lia)) as [r2 (E2 & Hi2 & Hs2 & Hl2)]. rewrite E2. cbn [bind].
      apply IH; auto. lia.
    - cbn [bind]. apply IH; auto. lia. }
  destruct (N.eqb c 123).
  { destruct (attr_total r Hi) as [r2 [res2 E2]]. rewrite E2. cbn [bind].
    destruct (parse_attrs_RInv space_table punct_table r r2 res2 Hi E2) as (Hi2 & Hs2 & _).
    destruct (set_position_restores r2 (r_line r) (r_pos r) Hi2) as [r3 (E3 & Hi3 & Hs3 & Hp3)].
    { exists r. csplit; auto. }
    rewrite E3. cbn [bind]. unfold r_position in Hp3. injection Hp3 as _ Hp3.
    destruct (lls_adv line r3 1 Hi3 ltac:(congruence) ltac:(lia)) as [r4 (E4 & Hi4 & Hs4 & Hl4)]. rewrite E4. cbn [bind].
    rewrite (rest_same_pos r r3 ltac:(congruence) Hp3) in Hl4.
    apply IH; auto.
    - lia.
    - pose proof (ri_range r Hi). rewrite Hs in *. lia.
    - pose proof (ri_range r2 Hi2). rewrite Hs2, Hs in *. lia. }
  destruct (lls_adv line r 1 Hi Hs ltac:(lia)) as [r1 (E1 & Hi1 & Hs1 & Hl1)]. rewrite E1. cbn [bind].
  apply IH; auto. lia.
Qed.

Lemma new_reader_rest line : (length (r_rest (new_reader line)) <= length line)%nat.
Proof.
  unfold new_reader. rewrite r_advance_line_eq by (rsimpl; lia). unfold r_rest. rsimpl.
  destruct ((0 <=? 0) && (0 <? zlen line)); [|cbn [length]; lia].
  rewrite spaces_zero. cbn [app Z.to_nat skipn]. lia.
Qed.

Lemma new_reader_src line : r_src (new_reader line) = line.
Proof. unfold new_reader. rewrite advance_line_src. reflexivity. Qed.

Lemma lls_start line : exists res st_ en,
  last_line_scan (2 * length line + 4) (new_reader line) None 0 0 = Ok (res, st_, en) /\
  0 <= st_ <= zlen line /\ 0 <= en <= zlen line.
Proof.
  pose proof (zlen_nonneg line). pose proof (new_reader_rest line).
  apply lls_total; try lia; [apply new_reader_inv|apply new_reader_src].
Qed.

End Scan.

(* ---------- steps that only change the lines of one node ---------- *)
Section Ops.
Variable hc : hcfg.
Variable space_table punct_table : list N.
Variable norm : bytes -> bytes.
Variable re_t1o re_t1c re_t2 re_t3 re_t4 re_t5 re_t6 re_t7 : re.
Variable allowed_tags : list bytes.
Variable utf8len_table : list N.
Variable spaces : bytes.
Variable src : bytes.
Hypothesis tbl : TblOK space_table.
Hypothesis attr_total : AttrTotal space_table punct_table.
Notation SI := (SI space_table src).
Notation close_post := (close_post space_table src).
Notation olineE := (olineE src).
Notation pad0 := (fun sg : seg => s_pad sg = 0).

(* node is a heading whose lines are inside the source, without padding *)
Definition HeadE (s : st) (node : nat) : Prop :=
  exists n, nth_error (s_h s) node = Some n /\ bk n = BHeading /\ Forall olineE (blines n).

(* the state after a step that only replaces the lines of `node` *)
Definition LStep (node : nat) (s s' : st) : Prop :=
  SI s' /\ s_r s' = s_r s /\ s_c s' = s_c s /\ close_frame node (fun _ _ => False) (s_h s) (s_h s') /\
  bch_frame (fun _ _ _ => False) (s_h s) (s_h s').

Lemma cframe_refl' c : cframe c c.
Proof. unfold cframe. auto. Qed.
Lemma cframe_trans' a b c : cframe a b -> cframe b c -> cframe a c.
Proof. unfold cframe. intros (A1 & A2 & A3 & A4) (B1 & B2 & B3 & B4). csplit; congruence. Qed.

Lemma cf_refl node P h : close_frame node P h h.
Proof. split; [lia|]. intros j n H. exists n. csplit; auto. Qed.
Lemma cf_hset node P h n n' : nth_error h node = Some n -> bk n' = bk n -> bch n' = bch n -> bpar n' = bpar n ->
  close_frame node P h (hset h node n').
Proof.
  intros Hi K C Pp. split; [rewrite hset_length; lia|]. intros j x Hj. destruct (Nat.eq_dec node j) as [<-|Hne].
  - rewrite hset_same by (eapply nth_error_lt, Hi). exists n'. rewrite Hi in Hj. injection Hj as <-. csplit; auto. intros E. contradiction.
  - rewrite hset_other by exact Hne. exists x. csplit; auto.
Qed.
Lemma cf_trans node P h h1 h2 : close_frame node P h h1 -> close_frame node (fun _ _ => False) h1 h2 -> close_frame node P h h2.
Proof.
  intros [L1 H1] [L2 H2]. split; [lia|]. intros j n Hj.
  destruct (H1 j n Hj) as [n1 (A1 & A2 & A3 & A4 & A5)]. destruct (H2 j n1 A1) as [n2 (B1 & B2 & B3 & B4 & B5)].
  exists n2. csplit.
  - exact B1.
  - congruence.
  - intros Hne. rewrite B3, A3; auto.
  - intros K. rewrite B4, A4; congruence.
  - destruct B5 as [B5|[_ []]]. destruct A5 as [A5|A5]; [left; congruence|right; exact A5].
Qed.

(* child lists: a frame followed by a step that changes no child list *)
Lemma bch_frame_same (T : nat -> bnode -> bnode -> Prop) node P h h1 h2 :
  close_frame node P h h1 -> bch_frame T h h1 -> bch_frame (fun _ _ _ => False) h1 h2 ->
  (forall j n n1 n2, T j n n1 -> bch n2 = bch n1 -> T j n n2) -> bch_frame T h h2.
Proof.
  intros [_ H1] B1 B2 HT j n n2 Hj Hj2. destruct (H1 j n Hj) as [n1 (Hj1 & _)].
  destruct (B2 j n1 n2 Hj1 Hj2) as [E2|[]]. destruct (B1 j n n1 Hj Hj1) as [E1|E1]; [left; congruence|right].
  eapply HT; eassumption.
Qed.

Lemma LStep_refl node s : SI s -> LStep node s s.
Proof. intros HS. unfold LStep. csplit; auto. - apply cf_refl. - apply bch_frame_refl. Qed.
Lemma LStep_trans node a b c : LStep node a b -> LStep node b c -> LStep node a c.
Proof.
  intros (A1 & A2 & A3 & A4 & A5) (B1 & B2 & B3 & B4 & B5). unfold LStep. csplit; try congruence.
  - eapply cf_trans; eassumption.
  - eapply bch_frame_same; try eassumption. intros j n n1 n2 [].
Qed.

Lemma close_post_LStep bp node s s1 s2 : close_post bp node s s1 -> LStep node s1 s2 -> close_post bp node s s2.
Proof.
  intros (A1 & A2 & A3 & A4 & A5 & A6 & A7) (B1 & B2 & B3 & B4 & _). unfold close_post. rewrite B3. csplit; auto.
  - congruence.
  - eapply cf_trans; eassumption.
Qed.

Lemma LStep_close_post bp node s s' : SI s -> LStep node s s' -> close_post bp node s s'.
Proof.
  intros HS HL. apply (close_post_LStep bp node s s s'); [|exact HL].
  unfold close_post. csplit; auto. - apply cframe_refl'. - apply cf_refl.
Qed.

Lemma HeadE_last s node n last pre : SI s -> nth_error (s_h s) node = Some n -> Forall olineE (blines n) ->
  rev (blines n) = last :: pre -> blines n = rev pre ++ [last] /\ olineE last /\ Forall olineE (rev pre) /\
  seg_value (src_of s) last = Ok (sub src (s_start last) (s_stop last)).
Proof.
  intros HS Hn Hl Er. apply (f_equal (@rev seg)) in Er. rewrite rev_involutive in Er. cbn [rev] in Er.
  rewrite Er in Hl. apply Forall_app in Hl. destruct Hl as [Hp Hlast]. inversion Hlast as [|? ? Ho _]; subst.
  csplit; auto. unfold src_of. rewrite (si_src _ _ _ HS). apply seg_value_olineE, Ho.
Qed.

(* ---------- parseLastLineAttributes ---------- *)
Lemma parse_last_line_attributes_ok x node : SI (hx_s x) -> HeadE (hx_s x) node ->
  exists x', parse_last_line_attributes space_table punct_table x node = Ok x' /\
             LStep node (hx_s x) (hx_s x') /\ HeadE (hx_s x') node.
Proof.
  intros HS HE. pose proof HE as (n & Hn & Hk & Hl). unfold parse_last_line_attributes.
  rewrite (hget_some _ _ _ Hn). cbn [bind].
  destruct (rev (blines n)) as [|last pre] eqn:Er.
  { exists x. split; [reflexivity|]. split; [apply LStep_refl, HS|exact HE]. }
  destruct (HeadE_last _ _ _ _ _ HS Hn Hl Er) as (El & Ho & Hpre & Ev). rewrite Ev. cbn [bind].
  set (line := sub src (s_start last) (s_stop last)).
  destruct (lls_start space_table punct_table attr_total line) as (res & st_ & en & Es & Hst & Hen). rewrite Es. cbn [bind].
  destruct res as [attrs|].
  2:{ exists x. split; [reflexivity|]. split; [apply LStep_refl, HS|exact HE]. }
  destruct (Z.ltb_spec en 0) as [C|_]; [lia|]. destruct (Z.ltb_spec (zlen line) en) as [C|_]; [lia|]. cbn [orb].
  destruct (Reader.is_blank space_table (zskip en line)).
  2:{ exists x. split; [reflexivity|]. split; [apply LStep_refl, HS|exact HE]. }
  rewrite (hupd_ok _ _ _ _ Hn). cbn [bind]. eexists. split; [reflexivity|].
  cbn [sth_s hx_s].
  set (nl := seg_set_stop last (s_start last + st_)).
  assert (Hnl : olineE nl).
  { destruct Ho as (A & B & C & D). unfold line in Hst. rewrite zlen_sub in Hst by lia.
    unfold olineE, nl, seg_set_stop. cbn [s_start s_stop s_pad s_fnl]. csplit; auto; lia. }
  assert (Hls : Forall olineE (rev pre ++ [nl])) by (apply Forall_app; split; [exact Hpre|constructor; [exact Hnl|constructor]]).
  assert (S' : SI (st_h (hx_s x) (hset (s_h (hx_s x)) node (set_lines n (rev pre ++ [nl]))))).
  { apply (upd_node_ok space_table src (hx_s x) node n); cbn [set_lines bk bch bpar blines]; auto.
    - unfold node_ok. cbn [set_lines bk]. rewrite Hk. exact I.
    - rewrite Hk. discriminate. }
  split.
  - unfold LStep. cbn [st_h s_h s_c s_r]. csplit; auto; [apply (cf_hset _ _ _ n); auto|].
    intros j nj nj' Hj Hj'. left. destruct (Nat.eq_dec node j) as [<-|Hne].
    + rewrite hset_same in Hj' by (eapply nth_error_lt, Hn). injection Hj' as <-. rewrite Hn in Hj. injection Hj as <-. reflexivity.
    + rewrite hset_other in Hj' by exact Hne. congruence.
  - exists (set_lines n (rev pre ++ [nl])). cbn [st_h s_h set_lines bk blines]. csplit; auto.
    apply hset_same. eapply nth_error_lt, Hn.
Qed.

(* ---------- AutoHeadingID ---------- *)
Lemma auto_heading_id_ok x node : SI (hx_s x) -> HeadE (hx_s x) node ->
  exists x', auto_heading_id space_table utf8len_table spaces x node = Ok x' /\ hx_s x' = hx_s x.
Proof.
  intros HS (n & Hn & Hk & Hl). unfold auto_heading_id.
  assert (G : exists x', (n0 <- hget (s_h (hx_s x)) node ;;
                line <- match rev (blines n0) with [] => Ok [] | last :: _ => seg_value (src_of (hx_s x)) last end ;;
                g <- generate utf8len_table space_table spaces (hx_ids x) line true ;;
                (let '(id, t) := g in Ok (set_node_attr (sth_ids x t) node n_id (AVBytes id)))) = Ok x' /\ hx_s x' = hx_s x).
  { rewrite (hget_some _ _ _ Hn). cbn [bind].
    assert (exists line, match rev (blines n) with [] => Ok [] | last :: _ => seg_value (src_of (hx_s x)) last end = Ok line)
      as [line Eline].
    { destruct (rev (blines n)) as [|last pre] eqn:Er; [eexists; reflexivity|].
      destruct (HeadE_last _ _ _ _ _ HS Hn Hl Er) as (_ & _ & _ & Ev). eexists. exact Ev. }
    rewrite Eline. cbn [bind].
    destruct (generate_total utf8len_table space_table spaces (hx_ids x) line true) as [id [t Eg]]. rewrite Eg. cbn [bind].
    eexists. split; [reflexivity|reflexivity]. }
  destruct (node_id_attr x node) as [[v|v|]|]; try exact G.
  eexists. split; [reflexivity|reflexivity].
Qed.

(* ---------- atxHeadingParser.Close ---------- *)
Lemma atx_close_h_ok x node : SI (hx_s x) -> HeadE (hx_s x) node ->
  exists x', atx_close_h hc space_table punct_table utf8len_table spaces x node = Ok x' /\
             LStep node (hx_s x) (hx_s x') /\ HeadE (hx_s x') node.
Proof.
  intros HS HE. unfold atx_close_h.
  assert (exists x1, (if h_attr hc then match node_id_attr x node with Some _ => Ok x
                                          | None => parse_last_line_attributes space_table punct_table x node end
                      else Ok x) = Ok x1 /\ LStep node (hx_s x) (hx_s x1) /\ HeadE (hx_s x1) node) as [x1 (E1 & L1 & H1)].
  { destruct (h_attr hc); [|exists x; split; [reflexivity|split; [apply LStep_refl, HS|exact HE]]].
    destruct (node_id_attr x node); [exists x; split; [reflexivity|split; [apply LStep_refl, HS|exact HE]]|].
    apply parse_last_line_attributes_ok; assumption. }
  rewrite E1. cbn [bind]. pose proof L1 as (S1 & _).
  destruct (h_autoid hc).
  - destruct (auto_heading_id_ok x1 node S1 H1) as [x2 (E2 & Eq)]. exists x2. rewrite Eq. auto.
  - exists x1. auto.
Qed.

Lemma atx_close_h_post x node : SI (hx_s x) -> HeadE (hx_s x) node ->
  exists x', atx_close_h hc space_table punct_table utf8len_table spaces x node = Ok x' /\
             close_post PATX node (hx_s x) (hx_s x').
Proof.
  intros HS HE. destruct (atx_close_h_ok x node HS HE) as [x' (E & L & _)]. exists x'. split; [exact E|].
  apply LStep_close_post; assumption.
Qed.

(* ---------- setextHeadingParser.Close ---------- *)
(* the core Close gives the heading the lines of the temporary paragraph *)
Lemma setext_close_lines s node n tmp t0 : SI s -> nth_error (s_h s) node = Some n -> bk n = BHeading ->
  blines n <> [] -> c_tmp_para (s_c s) = Some tmp -> nth_error (s_h s) tmp = Some t0 ->
  exists s', setext_close space_table s node = Ok s' /\
    exists n', nth_error (s_h s') node = Some n' /\ bk n' = BHeading /\ blines n' = blines t0.
Proof.
  intros HS Hn Hk Hl Et Ht0. unfold setext_close. rewrite (hget_some _ _ _ Hn). cbn [bind].
  destruct (blines n) as [|sg rest] eqn:El; [contradiction|]. rewrite Et.
  rewrite (hupd_ok _ _ _ _ Hn). cbn [bind]. cbn [st_c st_h s_h s_c s_r].
  pose proof (si_h _ _ _ HS) as HH. pose proof (si_c _ _ _ HS) as HC.
  destruct (ci_tmp _ _ HC tmp Et) as [t0' [Ht0' Kt0]]. rewrite Ht0 in Ht0'. injection Ht0' as <-.
  assert (Hne : node <> tmp).
  { intros E. subst tmp. rewrite Hn in Ht0. injection Ht0 as <-. congruence. }
  assert (Hlt : (node < length (s_h s))%nat) by (eapply nth_error_lt, Hn).
  assert (Ht1 : nth_error (hset (s_h s) node (set_lines n [])) tmp = Some t0) by (rewrite hset_other by exact Hne; exact Ht0).
  rewrite (hget_some _ _ _ Ht1). cbn [bind].
  pose proof (tmp_has_lines space_table src s tmp t0 HS Et Ht0) as Htne.
  destruct (blines t0) as [|y tl] eqn:Elt; [contradiction|].
  assert (Hn1 : nth_error (hset (s_h s) node (set_lines n [])) node = Some (set_lines n [])) by (apply hset_same; exact Hlt).
  rewrite (hupd_ok _ _ _ _ Hn1). cbn [bind]. rewrite hset_hset.
  set (n2 := set_blank (set_lines (set_lines n []) (y :: tl)) (bblank t0)).
  set (h2 := hset (s_h s) node n2).
  assert (Hn2 : nth_error h2 node = Some n2) by (unfold h2; apply hset_same; exact Hlt).
  destruct (bpar t0) as [tp|] eqn:Ept.
  2:{ eexists. split; [reflexivity|]. cbn [s_h]. exists n2. csplit; auto. }
  assert (S2 : SI (st_h s h2)).
  { apply (upd_node_ok space_table src s node n); unfold n2; cbn [set_blank set_lines bk bch bpar blines]; auto.
    - unfold node_ok. cbn [set_blank set_lines bk]. rewrite Hk. exact I.
    - rewrite Hk. discriminate. }
  assert (Ht2 : nth_error h2 tmp = Some t0) by (unfold h2; rewrite hset_other by exact Hne; exact Ht0).
  destruct (remove_child_ok space_table src h2 tp tmp t0 (si_h _ _ _ S2) Ht2) as [h3 (E3 & _ & L3 & _ & R3)].
  rewrite E3. cbn [bind]. eexists. split; [reflexivity|]. cbn [s_h].
  destruct (nth_error_ex_lt h3 node) as [n3 Hn3]; [unfold h2 in L3; rewrite hset_length in L3; lia|].
  destruct (R3 node n3 Hn3) as [n2' (Hn2' & K & Ln & _)]. rewrite Hn2 in Hn2'. injection Hn2' as <-.
  exists n3. split; [exact Hn3|]. rewrite K, Ln. unfold n2. cbn [set_blank set_lines bk blines]. auto.
Qed.

Lemma setext_close_h_ok x node n : SI (hx_s x) -> nth_error (s_h (hx_s x)) node = Some n -> bk n = BHeading ->
  blines n <> [] -> c_tmp_para (s_c (hx_s x)) <> None -> bpar n <> None ->
  (forall t tn, c_tmp_para (s_c (hx_s x)) = Some t -> nth_error (s_h (hx_s x)) t = Some tn -> Forall pad0 (blines tn)) ->
  exists x', setext_close_h hc space_table punct_table utf8len_table spaces x node = Ok x' /\
             close_post PSetext node (hx_s x) (hx_s x') /\
             bch_frame (close_bch PSetext node (hx_s x)) (s_h (hx_s x)) (s_h (hx_s x')).
Proof.
  intros HS Hn Hk Hl Htmp Hpar Hpad. unfold setext_close_h, hlift0.
  destruct (setext_close_ok space_table punct_table norm re_t1o re_t1c re_t2 re_t3 re_t4 re_t5 re_t6 re_t7 allowed_tags
              src tbl (hx_s x) node n HS Hn Hk Hl Htmp Hpar) as [s1 (E1 & P1)].
  destruct (c_tmp_para (s_c (hx_s x))) as [tmp|] eqn:Et; [|contradiction].
  destruct (ci_tmp _ _ (si_c _ _ _ HS) tmp Et) as [t0 [Ht0 Kt0]].
  destruct (setext_close_lines (hx_s x) node n tmp t0 HS Hn Hk Hl Et Ht0) as [s1' (E1' & n1 & Hn1 & K1 & L1)].
  rewrite E1 in E1'. injection E1' as <-.
  assert (B1 : bch_frame (close_bch PSetext node (hx_s x)) (s_h (hx_s x)) (s_h s1)).
  { apply (p_close_bch space_table punct_table norm re_t1o re_t1c re_t2 re_t3 re_t4 re_t5 re_t6 re_t7 allowed_tags
             src tbl PSetext (hx_s x) node n s1 HS Hn Hk Hpar); [discriminate| |exact E1].
    intros _. split; [exact Hl|]. rewrite Et. discriminate. }
  rewrite E1. cbn [bind].
  pose proof P1 as (S1 & _).
  (* the heading now has the lines of the temporary paragraph: inside the source, no padding *)
  assert (H1 : HeadE (hx_s (sth_s x s1)) node).
  { cbn [sth_s hx_s]. exists n1. csplit; auto. rewrite L1.
    pose proof (hi_ok _ _ _ (si_h _ _ _ HS) tmp t0 Ht0) as Hok. unfold node_ok in Hok. rewrite Kt0 in Hok.
    destruct Hok as (_ & (Hall & _) & _). pose proof (Hpad tmp t0 eq_refl Ht0) as Hp0.
    rewrite Forall_forall in *. intros sg Hsg. destruct (Hall sg Hsg) as (A & B & C & D). specialize (Hp0 sg Hsg).
    unfold olineE. csplit; auto; lia. }
  assert (exists x2, (if h_attr hc then parse_last_line_attributes space_table punct_table (sth_s x s1) node else Ok (sth_s x s1)) = Ok x2 /\
                     LStep node s1 (hx_s x2) /\ HeadE (hx_s x2) node) as [x2 (E2 & L2 & H2)].
  { destruct (h_attr hc).
    - apply (parse_last_line_attributes_ok (sth_s x s1) node); [exact S1|exact H1].
    - exists (sth_s x s1). split; [reflexivity|]. split; [apply LStep_refl, S1|exact H1]. }
  rewrite E2. cbn [bind]. pose proof L2 as (S2 & _).
  assert (exists x3, (if h_autoid hc then auto_heading_id space_table utf8len_table spaces x2 node else Ok x2) = Ok x3 /\
                     hx_s x3 = hx_s x2) as [x3 (E3 & Eq3)].
  { destruct (h_autoid hc); [apply auto_heading_id_ok; assumption|exists x2; auto]. }
  exists x3. split; [exact E3|]. rewrite Eq3. split.
  - eapply close_post_LStep; eassumption.
  - destruct P1 as (_ & _ & _ & _ & _ & _ & F1). destruct L2 as (_ & _ & _ & _ & B2).
    eapply bch_frame_same; [exact F1|exact B1|exact B2|].
    intros j a a1 a2 (tm & T1 & T2) Eb. exists tm. split; [exact T1|congruence].
Qed.

End Ops.
