(* C15: generated ids are non-empty, fresh, drawn from [a-z0-9-], pairwise distinct.

   Status: all statements below are proved as originally written (no statement was changed,
   none was found false).  Model check of [dec] by computation: dec 0 = "0", dec 9 = "9",
   dec 10 = "10", dec 99 = "99", dec 100 = "100"; the fuel S (log2 n) is sufficient for every n
   ([dec_value]: n < 2^(S (log2 n)), and each step at least halves n), including n = 0
   (N.log2 0 = 0, fuel 1, one digit). *)
Require Import GM.model.Base GM.model.Util GM.model.Ids.
Require Import GM.proofs.Finite.
From Coq Require Import Lia ZifyBool ZifyN ZifyNat.
Open Scope N_scope.

(* ---------- mem ---------- *)
Lemma mem_true_iff t x : mem t x = true <-> In x t.
Proof.
  unfold mem. rewrite existsb_exists. split.
  - intros [y [Hy He]]. apply bytes_eqb_eq in He. now subst.
  - intros Hi. exists x. split; [exact Hi|]. now apply bytes_eqb_eq.
Qed.

Lemma mem_false_iff t x : mem t x = false <-> ~ In x t.
Proof.
  rewrite <- mem_true_iff. destruct (mem t x); split; intros H; congruence.
Qed.

(* ---------- dec ---------- *)
Definition dstep (a d : N) : N := 10 * a + (d - 48).
Definition value (l : bytes) : N := fold_left dstep l 0.

Lemma div10_lt_pow2 n p : 10 <= n -> n < 2 * p -> n / 10 < p.
Proof.
  intros H10 Hn.
  pose proof (N.div_mod n 10 ltac:(lia)) as Hdm.
  pose proof (N.mod_lt n 10 ltac:(lia)) as Hm.
  lia.
Qed.

Lemma dec_fuel_value fuel : forall n acc, n < 2 ^ N.of_nat fuel ->
  fold_left dstep (dec_fuel fuel n acc) 0 = fold_left dstep acc n.
Proof.
  induction fuel as [|f IH]; intros n acc Hn.
  - cbn [dec_fuel]. change (2 ^ N.of_nat 0) with 1 in Hn. assert (n = 0) as -> by lia. reflexivity.
  - cbn [dec_fuel]. destruct (N.ltb_spec n 10) as [Hlt|Hge].
    + cbn [fold_left]. f_equal. unfold dstep. lia.
    + rewrite IH.
      * cbn [fold_left]. f_equal. unfold dstep.
        pose proof (N.div_mod n 10 ltac:(lia)) as Hdm.
        pose proof (N.mod_lt n 10 ltac:(lia)) as Hm. lia.
      * apply div10_lt_pow2; [exact Hge|].
        rewrite Nat2N.inj_succ, N.pow_succ_r' in Hn. exact Hn.
Qed.

Lemma dec_value n : value (dec n) = n.
Proof.
  unfold value, dec. rewrite dec_fuel_value; [reflexivity|].
  rewrite Nat2N.inj_succ, N2Nat.id.
  destruct (N.eq_dec n 0) as [->|Hnz].
  - reflexivity.
  - apply N.log2_spec. lia.
Qed.

Lemma dec_fuel_charset fuel : forall n acc, forallb id_char acc = true ->
  forallb id_char (dec_fuel fuel n acc) = true.
Proof.
  induction fuel as [|f IH]; intros n acc Hacc; cbn [dec_fuel]; [exact Hacc|].
  destruct (N.ltb_spec n 10) as [Hlt|Hge].
  - cbn [forallb]. rewrite Hacc. unfold id_char. lia.
  - apply IH. cbn [forallb]. rewrite Hacc.
    pose proof (N.mod_lt n 10 ltac:(lia)) as Hm. unfold id_char. lia.
Qed.

Lemma dec_charset n : forallb id_char (dec n) = true.
Proof. unfold dec. now apply dec_fuel_charset. Qed.

(* the decimal rendering of the counter is injective *)
Theorem dec_injective a b : dec a = dec b -> a = b.
Proof. intros H. rewrite <- (dec_value a), <- (dec_value b). now rewrite H. Qed.

(* ---------- probe ---------- *)
Definition cand (base : bytes) (i : N) : bytes := base ++ [45] ++ dec i.

Lemma cand_injective base i j : cand base i = cand base j -> i = j.
Proof.
  unfold cand. intros H. apply app_inv_head in H. apply app_inv_head in H.
  now apply dec_injective.
Qed.

Lemma probe_ok_spec fuel t base : forall i c, probe fuel t base i = Ok c ->
  mem t c = false /\ exists j, c = cand base j.
Proof.
  induction fuel as [|f IH]; intros i c H; cbn [probe] in H; [discriminate|].
  fold (cand base i) in H.
  destruct (mem t (cand base i)) eqn:Hm.
  - now apply IH in H.
  - injection H as <-. split; [exact Hm|]. now exists i.
Qed.

Lemma probe_not_panic fuel t base : forall i, probe fuel t base i <> Panic.
Proof.
  induction fuel as [|f IH]; intros i; cbn [probe]; [discriminate|].
  destruct (mem t (base ++ [45] ++ dec i)); [apply IH|discriminate].
Qed.

Lemma probe_out_of_fuel fuel t base : forall a, probe fuel t base (N.of_nat a) = OutOfFuel ->
  forall k, In k (seq a fuel) -> In (cand base (N.of_nat k)) t.
Proof.
  induction fuel as [|f IH]; intros a H k Hk; cbn [seq In] in Hk; [contradiction|].
  cbn [probe] in H. fold (cand base (N.of_nat a)) in H.
  destruct (mem t (cand base (N.of_nat a))) eqn:Hm; [|discriminate].
  destruct Hk as [<-|Hk].
  - now apply mem_true_iff.
  - apply (IH (S a)); [|exact Hk].
    replace (N.of_nat (S a)) with (N.of_nat a + 1) by lia. exact H.
Qed.

Lemma NoDup_map_inj {A B} (f : A -> B) (l : list A) :
  (forall x y, f x = f y -> x = y) -> NoDup l -> NoDup (map f l).
Proof.
  intros Hinj Hnd. induction Hnd as [|x l Hx Hnd IH]; cbn [map]; constructor; [|exact IH].
  intros Hin. apply in_map_iff in Hin. destruct Hin as [y [Hy Hyl]].
  apply Hinj in Hy. now subst.
Qed.

(* pigeonhole: S (length t) pairwise distinct candidates cannot all be among the entries of t *)
Lemma probe_total t base : exists c, probe (S (length t)) t base 1 = Ok c.
Proof.
  destruct (probe (S (length t)) t base 1) as [c| |] eqn:Hp.
  - now exists c.
  - exfalso. now apply probe_not_panic in Hp.
  - exfalso. change 1 with (N.of_nat 1) in Hp.
    pose proof (probe_out_of_fuel _ _ _ _ Hp) as Hall.
    assert (NoDup (map (fun k => cand base (N.of_nat k)) (seq 1 (S (length t))))) as Hnd.
    { apply NoDup_map_inj; [|apply seq_NoDup].
      intros x y Hxy. apply cand_injective in Hxy. lia. }
    assert (incl (map (fun k => cand base (N.of_nat k)) (seq 1 (S (length t)))) t) as Hincl.
    { intros x Hx. apply in_map_iff in Hx. destruct Hx as [k [<- Hk]]. now apply Hall. }
    pose proof (NoDup_incl_length Hnd Hincl) as Hlen.
    rewrite map_length, seq_length in Hlen. lia.
Qed.

Section Ids.
Variable utf8len_table : list N.
Variable space_table : list N.
Variable spaces : bytes.
Notation generate := (generate utf8len_table space_table spaces).
Notation generate_all := (generate_all utf8len_table space_table spaces).
Notation slug := (slug utf8len_table space_table spaces).

Lemma slug1_charset c : forallb id_char (slug1 space_table c) = true.
Proof.
  unfold slug1. destruct (is_alnum c) eqn:Ha.
  - cbn [forallb]. unfold is_alnum in Ha. unfold id_char.
    destruct ((65 <=? c) && (c <=? 90)) eqn:Hu; lia.
  - destruct (is_space space_table c || (c =? 45) || (c =? 95)); reflexivity.
Qed.

Lemma slug_loop_charset fuel : forall v,
  forallb id_char (slug_loop utf8len_table space_table fuel v) = true.
Proof.
  induction fuel as [|f IH]; intros v; cbn [slug_loop]; [reflexivity|].
  destruct v as [|c rest]; [reflexivity|].
  destruct (u8len utf8len_table c =? 1).
  - rewrite forallb_app, slug1_charset, IH. reflexivity.
  - apply IH.
Qed.

(* the slug is never empty and uses only a-z 0-9 - (so EscapeHTML leaves it alone) *)
Theorem slug_nonempty_charset v h : slug v h <> [] /\ forallb id_char (slug v h) = true.
Proof.
  unfold Ids.slug.
  set (w := trim_right (trim_left v spaces) spaces).
  pose proof (slug_loop_charset (length w) w) as Hc.
  destruct (slug_loop utf8len_table space_table (length w) w) as [|x r].
  - destruct h; split; try discriminate; reflexivity.
  - split; [discriminate|exact Hc].
Qed.

(* Generate returns an id that is non-empty, was not in the table, and is recorded *)
Theorem generate_fresh t v h r t' : generate t v h = Ok (r, t') ->
  r <> [] /\ mem t r = false /\ t' = r :: t /\ forallb id_char r = true.
Proof.
  unfold Ids.generate. intros H.
  destruct (slug_nonempty_charset v h) as [Hne Hcs].
  destruct (mem t (slug v h)) eqn:Hm.
  - destruct (probe (S (length t)) t (slug v h) 1) as [c| |] eqn:Hp; cbn [bind] in H; try discriminate.
    injection H as <- <-.
    apply probe_ok_spec in Hp. destruct Hp as [Hfree [j ->]].
    repeat split; try assumption.
    + unfold cand. intros Habs. apply app_eq_nil in Habs. destruct Habs as [_ Habs]. discriminate.
    + unfold cand. rewrite !forallb_app, Hcs, dec_charset. reflexivity.
  - injection H as <- <-. repeat split; assumption.
Qed.

(* Generate always terminates: among base-1 .. base-(n+1) one is not among the n table entries *)
Theorem generate_total t v h : exists r t', generate t v h = Ok (r, t').
Proof.
  unfold Ids.generate. destruct (mem t (slug v h)).
  - destruct (probe_total t (slug v h)) as [c Hc]. rewrite Hc. cbn [bind]. now eauto.
  - now eauto.
Qed.

(* all ids generated for one document are pairwise distinct (and none is empty), whatever the
   heading texts and whatever was put into the table before *)
Theorem generate_all_distinct t vs rs : generate_all t vs = Ok rs ->
  NoDup rs /\ Forall (fun r => r <> [] /\ mem t r = false) rs /\ length rs = length vs.
Proof.
  revert t rs. induction vs as [|v rest IH]; intros t rs H; cbn [Ids.generate_all] in H.
  - injection H as <-. repeat split; constructor.
  - destruct (generate t v true) as [[r t']| |] eqn:Hg; cbn [bind] in H; try discriminate.
    destruct (generate_all t' rest) as [rs'| |] eqn:Hr; cbn [bind] in H; try discriminate.
    injection H as <-.
    apply generate_fresh in Hg. destruct Hg as [Hne [Hfree [-> _]]].
    apply IH in Hr. destruct Hr as [Hnd [Hall Hlen]].
    rewrite Forall_forall in Hall.
    repeat split.
    + constructor; [|exact Hnd]. intros Hin. apply Hall in Hin. destruct Hin as [_ Hin].
      apply mem_false_iff in Hin. apply Hin. now left.
    + constructor; [now split|]. apply Forall_forall. intros x Hx.
      apply Hall in Hx. destruct Hx as [Hxne Hxm]. split; [exact Hxne|].
      apply mem_false_iff. apply mem_false_iff in Hxm. intros Hin. apply Hxm. now right.
    + cbn [length]. now rewrite Hlen.
Qed.

Theorem generate_all_total t vs : exists rs, generate_all t vs = Ok rs.
Proof.
  revert t. induction vs as [|v rest IH]; intros t; cbn [Ids.generate_all].
  - now eauto.
  - destruct (generate_total t v true) as [r [t' Hg]]. rewrite Hg. cbn [bind].
    destruct (IH t') as [rs Hrs]. rewrite Hrs. cbn [bind]. now eauto.
Qed.

End Ids.
