(* C11 for the footnote parser model, the reader of the block phase: every reader function the
   block parsers use keeps RB (the reader reads src; a cached line has no "[^"), and a line that
   PeekLine returns has no "[^". *)
Require Import GM.model.Base GM.model.Util GM.model.Reader GM.model.Blocks GM.model.ListItem
               GM.model.LeafBlocks GM.model.CodeBlock.
Require Import GM.proofs.FootnoteConservativeDefs.
From Coq Require Import List ZArith NArith Bool Lia.
Import ListNotations.
Open Scope Z_scope.

(* H : (... ) = Ok _ : take the computation apart, keeping the equations of the calls *)
Ltac crunch H :=
  repeat (first
    [ progress cbn [bind] in H
    | discriminate H
    | match type of H with
      | bind ?e _ = _ => let E := fresh "E" in destruct e eqn:E; cbn [bind] in H; [|discriminate H|discriminate H]
      | (let '(_, _) := ?e in _) = _ => let E := fresh "E" in destruct e eqn:E
      | (if ?b then _ else _) = _ => let E := fresh "B" in destruct b eqn:E
      | match ?e with _ => _ end = _ => let E := fresh "E" in destruct e eqn:E
      end ]).

Section Rd.
Variable src : bytes.
Hypothesis Hsrc : nfm src = true.
Notation RB := (RB src).

Lemma RB_nocache r : r_src r = src -> r_peeked r = None -> RB r.
Proof. intros H1 H2. split; [exact H1|]. intros v E. rewrite H2 in E. discriminate E. Qed.

Lemma RB_peek r r' l sg : r_peek_line r = Ok (r', l, sg) -> RB r -> RB r' /\ nfm (match l with Some v => v | None => [] end) = true.
Proof.
  unfold r_peek_line. intros H [Hs Hc]. destruct (r_in_range r).
  - destruct (r_peeked r) as [v|] eqn:Ep.
    + injection H as <- <- <-. split; [split; [exact Hs|rewrite Ep; exact Hc]|]. apply Hc. reflexivity.
    + fc_bind H v Ev. injection H as <- <- <-. rewrite Hs in Ev. pose proof (nfm_seg_value _ _ _ Hsrc Ev) as Hv.
      split; [|exact Hv]. split; [exact Hs|]. cbn. intros w E. injection E as <-. exact Hv.
  - injection H as <- <- <-. split; [split; assumption|reflexivity].
Qed.
Lemma RB_peek1 r r' l sg : r_peek_line r = Ok (r', l, sg) -> RB r -> RB r'.
Proof. intros H1 H2. exact (proj1 (RB_peek _ _ _ _ H1 H2)). Qed.

Lemma RB_loff r r' o : r_line_offset r = Ok (r', o) -> RB r -> RB r'.
Proof.
  unfold r_line_offset. intros H [Hs Hc]. destruct (r_loff r <? 0).
  - destruct (r_head r <? s_start (r_pos r)).
    + fc_bind H v Ev. injection H as <- <-. split; assumption.
    + injection H as <- <-. split; assumption.
  - injection H as <- <-. split; assumption.
Qed.

Lemma RB_advance_line r : RB r -> RB (r_advance_line r).
Proof.
  intros [Hs _]. unfold r_advance_line. cbv zeta. cbn [rset_peeked rset_loff rset_pos rset_head r_pos r_src r_line r_peeked r_head r_loff].
  destruct (_ <? 0); apply RB_nocache; cbn; try assumption; reflexivity.
Qed.

Lemma RB_advance_slow : forall fuel r n r', r_advance_slow fuel r n = Ok r' -> RB r -> RB r'.
Proof.
  induction fuel as [|f IH]; intros r n r' H HR; [discriminate|]. cbn [r_advance_slow] in H.
  destruct (_ && _); [|injection H as <-; exact HR].
  destruct (negb _).
  - eapply IH; [exact H|]. destruct HR as [Hs Hc]. split; assumption.
  - fc_bind H c Ec. destruct (N.eqb c 10).
    + eapply IH; [exact H|]. apply RB_advance_line, HR.
    + eapply IH; [exact H|]. destruct HR as [Hs Hc]. split; assumption.
Qed.

Lemma RB_advance r n r' : r_advance r n = Ok r' -> RB r -> RB r'.
Proof.
  unfold r_advance. cbv zeta. intros H [Hs Hc]. destruct (_ && _).
  - injection H as <-. apply RB_nocache; [exact Hs|reflexivity].
  - eapply RB_advance_slow; [exact H|]. apply RB_nocache; [exact Hs|reflexivity].
Qed.

Lemma RB_set_padding r v : RB r -> RB (r_set_padding r v).
Proof. intros [Hs _]. apply RB_nocache; [exact Hs|reflexivity]. Qed.

Lemma RB_set_position r line pos r' : r_set_position r line pos = Ok r' -> RB r -> RB r'.
Proof.
  unfold r_set_position. cbv zeta. intros H [Hs _]. fc_bind H r1 E1. injection H as <-.
  assert (X : r_src r1 = src /\ r_peeked r1 = None).
  { destruct (negb _).
    - fc_bind E1 h Eh. injection E1 as <-. destruct (0 <=? h); split; cbn; try assumption; reflexivity.
    - injection E1 as <-. split; cbn; [assumption|reflexivity]. }
  apply RB_nocache; cbn; apply X.
Qed.

Lemma RB_adv_pad r n p r' : r_advance_and_set_padding r n p = Ok r' -> RB r -> RB r'.
Proof.
  unfold r_advance_and_set_padding. intros H HR. fc_bind H r1 E1. pose proof (RB_advance _ _ _ E1 HR) as H1.
  destruct (_ <? _); injection H as <-; [apply RB_set_padding, H1|exact H1].
Qed.

Lemma RB_skip_blank sp : forall fuel r n r' sg lines ok,
  skip_blank_lines sp reader r_peek_line r_advance_line_res fuel r n = Ok (r', sg, lines, ok) -> RB r -> RB r'.
Proof.
  induction fuel as [|f IH]; intros r n r' sg lines ok H HR; [discriminate|]. cbn [skip_blank_lines] in H.
  fc_bind H x Ex. destruct x as [[r1 l] sg1]. pose proof (RB_peek1 _ _ _ _ Ex HR) as H1. cbv beta iota in H.
  destruct l as [l|]; [|injection H as <- <- <- <-; exact H1].
  destruct (Reader.is_blank sp l); [|injection H as <- <- <- <-; exact H1].
  unfold r_advance_line_res in H at 1. cbn [bind] in H. eapply IH; [exact H|]. apply RB_advance_line, H1.
Qed.

(* ---- the reader-level parsers ---- *)
Lemma RB_code_block_take r pos padding sg r' : code_block_take r pos padding = Ok (sg, r') -> RB r -> RB r'.
Proof.
  unfold code_block_take. intros H HR. fc_bind H r1 E1. pose proof (RB_adv_pad _ _ _ _ E1 HR) as H1.
  fc_bind H x Ex. destruct x as [[r2 l2] sg2]. pose proof (RB_peek1 _ _ _ _ Ex H1) as H2.
  fc_bind H t Et. destruct t as [sg3 r3].
  assert (H3 : RB r3).
  { destruct (s_pad sg2 =? 0); [injection Et as <- <-; exact H2|].
    fc_bind Et y Ey. destruct y as [r4 off]. pose proof (RB_loff _ _ _ Ey H2) as H4.
    unfold r_position in Et. fc_bind Et r5 E5. pose proof (RB_set_position _ _ _ _ E5 H4) as H5.
    fc_bind Et z Ez. destruct z as [r6 off2]. pose proof (RB_loff _ _ _ Ez H5) as H6.
    fc_bind Et r7 E7. pose proof (RB_set_position _ _ _ _ E7 H6) as H7. injection Et as <- <-. exact H7. }
  fc_bind H r8 E8. injection H as <- <-. eapply RB_advance; [exact E8|exact H3].
Qed.

Lemma RB_code_block_open sp r sg r' : code_block_open sp r = Ok (Some (sg, r')) -> RB r -> RB r'.
Proof.
  unfold code_block_open. intros H HR. fc_bind H x Ex. destruct x as [[r1 l] sg1]. pose proof (RB_peek1 _ _ _ _ Ex HR) as H1.
  fc_bind H y Ey. destruct y as [r2 off]. pose proof (RB_loff _ _ _ Ey H1) as H2.
  destruct (indent_position _ off 4) as [pos padding]. destruct (_ || _); [discriminate|].
  fc_bind H t Et. destruct t as [sg3 r3]. injection H as <- <-. eapply RB_code_block_take; [exact Et|exact H2].
Qed.

Lemma RB_code_block_continue sp r sg r' : code_block_continue sp r = Ok (inl (sg, r')) -> RB r -> RB r'.
Proof.
  unfold code_block_continue. intros H HR. fc_bind H x Ex. destruct x as [[r1 l] sg1]. pose proof (RB_peek1 _ _ _ _ Ex HR) as H1.
  match type of H with (if ?b then _ else _) = _ => destruct b end.
  - fc_bind H t Et. injection H as <- <-. exact H1.
  - fc_bind H y Ey. destruct y as [r2 off]. pose proof (RB_loff _ _ _ Ey H1) as H2.
    destruct (indent_position _ off 4) as [pos padding]. destruct (pos <? 0); [discriminate|].
    fc_bind H t Et. destruct t as [sg3 r3]. injection H as <- <-. eapply RB_code_block_take; [exact Et|exact H2].
Qed.

Lemma RB_fence_continue_r sp r ch indent flen closed ln r' :
  fence_continue_r sp r ch indent flen = Ok (closed, ln, r') -> RB r -> RB r'.
Proof.
  unfold fence_continue_r. intros H HR. fc_bind H x Ex. destruct x as [[r1 l] sg1]. pose proof (RB_peek1 _ _ _ _ Ex HR) as H1.
  destruct l as [line|]; [|discriminate].
  fc_bind H y Ey. destruct y as [r2 off]. pose proof (RB_loff _ _ _ Ey H1) as H2.
  destruct (fence_continue sp line off (s_pad sg1) ch indent flen) as [adv|[pos padding]].
  - fc_bind H r3 E3. injection H as <- <- <-. eapply RB_advance; [exact E3|exact H2].
  - fc_bind H t Et. destruct t as [adj r3].
    assert (H3 : RB r3).
    { destruct (padding =? 0); [injection Et as <- <-; exact H2|].
      unfold r_position in Et. fc_bind Et r5 E5. pose proof (RB_set_position _ _ _ _ E5 H2) as H5.
      fc_bind Et z Ez. destruct z as [r6 off2]. pose proof (RB_loff _ _ _ Ez H5) as H6.
      fc_bind Et r7 E7. pose proof (RB_set_position _ _ _ _ E7 H6) as H7. injection Et as <- <-. exact H7. }
    fc_bind H r8 E8. injection H as <- <- <-. eapply RB_adv_pad; [exact E8|exact H3].
Qed.

Lemma RB_bq_process r r' ok : bq_process r = Ok (r', ok) -> RB r -> RB r'.
Proof.
  unfold bq_process. intros H HR. fc_bind H x Ex. destruct x as [[r1 l] sg1]. pose proof (RB_peek1 _ _ _ _ Ex HR) as H1.
  destruct l as [line|]; [|discriminate].
  fc_bind H y Ey. destruct y as [r2 off]. pose proof (RB_loff _ _ _ Ey H1) as H2.
  destruct (indent_width line off) as [w pos]. destruct (_ || _); [injection H as <- <-; exact H2|].
  fc_bind H c Ec. destruct (negb _); [injection H as <- <-; exact H2|].
  destruct (zlen line <=? pos + 1).
  - fc_bind H r3 E3. injection H as <- <-. eapply RB_advance; [exact E3|exact H2].
  - fc_bind H d Ed. destruct (N.eqb d 10).
    + fc_bind H r3 E3. injection H as <- <-. eapply RB_advance; [exact E3|exact H2].
    + fc_bind H r3 E3. pose proof (RB_advance _ _ _ E3 H2) as H3.
      destruct (_ || _); [|injection H as <- <-; exact H3].
      fc_bind H z Ez. destruct z as [r4 off2]. pose proof (RB_loff _ _ _ Ez H3) as H4.
      fc_bind H r5 E5. injection H as <- <-. eapply RB_adv_pad; [exact E5|exact H4].
Qed.

Lemma RB_bq_process_total r r' ok : bq_process_total r = Ok (r', ok) -> RB r -> RB r'.
Proof.
  unfold bq_process_total. intros H HR. fc_bind H x Ex. destruct x as [[r1 l] sg1]. pose proof (RB_peek1 _ _ _ _ Ex HR) as H1.
  destruct l as [line|]; [|injection H as <- <-; exact H1]. eapply RB_bq_process; [exact H|exact HR].
Qed.

Lemma RB_list_item_open sp lo r no r' ch : list_item_open sp lo r = Ok (Some (no, r', ch)) -> RB r -> RB r'.
Proof.
  unfold list_item_open. intros H HR. fc_bind H x Ex. destruct x as [[r1 l] sg1]. pose proof (RB_peek1 _ _ _ _ Ex HR) as H1.
  destruct l as [line|]; [|discriminate]. destruct (parse_list_item line) as [m typ].
  destruct (N.eqb typ 0); [discriminate|]. destruct (3 <? _); [discriminate|].
  fc_bind H y Ey. destruct y as [r2 off]. pose proof (RB_loff _ _ _ Ey H1) as H2.
  destruct (_ || _); [injection H as <- <- <-; exact H2|].
  destruct (indent_position _ _ _) as [pos padding].
  fc_bind H r3 E3. injection H as <- <- <-. eapply RB_adv_pad; [exact E3|exact H2].
Qed.

End Rd.
