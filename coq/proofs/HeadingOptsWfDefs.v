(* Shared definitions of the HeadingOptsWf*.v files (well-formedness and totality of the model of
   the default parser with the heading options, model/HeadingOpts.v):

   lines_okH_b     what the block phase with the Attribute option guarantees about the lines of a
                   heading: as ParseInv.lines_ok (segments inside the source, no padding, sorted,
                   non-empty), except that the LAST segment may be empty - parseLastLineAttributes
                   cuts the attribute block off the last line ("Stop = Start + start.Start"), and
                   the special case of atxHeadingParser.Open can leave an empty line ("# # {#i}")
   tree_lines_okH  the lines of the inline-bearing blocks of a tree: headings lines_okH_b, paragraphs
                   and text blocks as in InlineParse.tree_lines_ok
   AI              the per-node attribute lists kept next to the heap are attrs_ok (HtmlSpec.v)
   OInvH / SInvH   the driver invariants of HeadingOptsWfBlk{B,E}.v over the state sth *)
Require Import GM.model.Base GM.model.Util GM.model.Reader GM.model.ReaderSpec GM.model.HtmlWriter GM.model.Html GM.model.HtmlSpec
               GM.model.BlockParse GM.model.InlineParse GM.model.HeadingOpts.
Require Import GM.proofs.ParseInv.
From Coq Require Import List ZArith Bool Lia.
Import ListNotations.
Open Scope Z_scope.

(* a segment written in the source, without padding, possibly empty *)
Definition seg_e_b (src : bytes) (s : seg) : bool :=
  ((0 <=? s_start s) && (s_start s <=? s_stop s) && (s_stop s <=? zlen src) && (s_pad s =? 0))%Z && negb (s_fnl s).

(* all segments but the last as the block reader wants them, the last possibly empty *)
Fixpoint segs_okH_b (src : bytes) (l : list seg) : bool :=
  match l with
  | [] => true
  | [a] => seg_e_b src a
  | a :: tl => seg_ok_b src a && segs_okH_b src tl
  end.
Definition lines_okH_b (src : bytes) (l : list seg) : bool := segs_okH_b src l && segs_sorted_b l.

Definition is_heading_kind (k : kind) : bool := match k with KHeading _ => true | _ => false end.

Fixpoint tree_lines_okH (src : bytes) (t : tree) {struct t} : bool :=
  match t with
  | Node k lines _ kids =>
    (if has_inlines k then
       if is_heading_kind k then lines_okH_b src lines
       else forallb (seg_ok_b src) lines && segs_sorted_b lines
     else true) &&
    (fix go (l : list tree) : bool := match l with [] => true | x :: r => tree_lines_okH src x && go r end) kids
  end.

Lemma tree_lines_okH_unfold src k l a kids :
  tree_lines_okH src (Node k l a kids) =
  (if has_inlines k then
     if is_heading_kind k then lines_okH_b src l else forallb (seg_ok_b src) l && segs_sorted_b l
   else true) && forallb (tree_lines_okH src) kids.
Proof.
  cbn [tree_lines_okH]. f_equal; try reflexivity;
  (induction kids as [|x r IH]; [reflexivity|cbn [forallb]; rewrite IH; reflexivity]).
Qed.

Lemma seg_ok_e_b src s : seg_ok_b src s = true -> seg_e_b src s = true.
Proof.
  unfold seg_ok_b, seg_e_b. intros H.
  repeat (apply andb_true_iff in H as [H ?]). repeat (apply andb_true_iff; split); auto.
  apply Z.leb_le. apply Z.ltb_lt in H3. lia.
Qed.

(* the three cases of lines_okH_b: the block reader's hypothesis; a single empty segment; at least
   one good line followed by an empty segment *)
Lemma segs_okH_all src l : forallb (seg_ok_b src) l = true -> segs_okH_b src l = true.
Proof.
  induction l as [|a tl IH]; intros H; [reflexivity|]. cbn [forallb] in H. apply andb_true_iff in H as [Ha Ht].
  destruct tl as [|b tl]; [exact (seg_ok_e_b src a Ha)|].
  change (segs_okH_b src (a :: b :: tl)) with (seg_ok_b src a && segs_okH_b src (b :: tl)).
  rewrite Ha, (IH Ht). reflexivity.
Qed.

Lemma lines_ok_okH src l : forallb (seg_ok_b src) l && segs_sorted_b l = true -> lines_okH_b src l = true.
Proof.
  intros H. apply andb_true_iff in H as [H1 H2]. unfold lines_okH_b. rewrite (segs_okH_all src l H1), H2. reflexivity.
Qed.

Lemma segs_okH_cases src l : segs_okH_b src l = true ->
  forallb (seg_ok_b src) l = true \/
  exists pre e, l = pre ++ [e] /\ forallb (seg_ok_b src) pre = true /\ seg_e_b src e = true /\ s_start e = s_stop e.
Proof.
  induction l as [|a tl IH]; intros H; [left; reflexivity|].
  destruct tl as [|b tl].
  - cbn [segs_okH_b] in H. destruct (Z.eq_dec (s_start a) (s_stop a)) as [E|E].
    + right. exists [], a. repeat split; auto.
    + left. cbn [forallb]. rewrite andb_true_r. unfold seg_e_b in H. unfold seg_ok_b.
      repeat (apply andb_true_iff in H as [H ?]). repeat (apply andb_true_iff; split); auto.
      apply Z.ltb_lt. apply Z.leb_le in H3. lia.
  - change (segs_okH_b src (a :: b :: tl)) with (seg_ok_b src a && segs_okH_b src (b :: tl)) in H.
    apply andb_true_iff in H as [Ha Ht]. destruct (IH Ht) as [Hall|(pre & e & El & Hp & He & Hee)].
    + left. cbn [forallb] in *. rewrite Ha, Hall. reflexivity.
    + right. exists (a :: pre), e. rewrite El. repeat split; auto. cbn [forallb]. rewrite Ha, Hp. reflexivity.
Qed.

(* ---------- the attributes kept next to the heap ---------- *)
Definition AI (a : list (nat * list attr)) : Prop := Forall (fun e => attrs_ok (Some (snd e)) = true) a.

Lemma AI_nil : AI [].
Proof. constructor. Qed.

Lemma AI_node_attrs a i : AI a -> attrs_ok (node_attrs a i) = true.
Proof.
  induction 1 as [|[j l] r Hj _ IH]; cbn [node_attrs]; [reflexivity|].
  destruct (Nat.eqb i j); [exact Hj|exact IH].
Qed.

Lemma AI_put a i l : AI a -> attrs_ok (Some l) = true -> AI (put_node_attrs a i l).
Proof.
  intros Ha Hl. induction Ha as [|[j b] r Hj Hr IH]; cbn [put_node_attrs].
  - constructor; [exact Hl|constructor].
  - destruct (Nat.eqb i j); constructor; auto.
Qed.

Lemma attrs_ok_set name v l : attr_name_ok name = true -> all_bytes_b (aval_bytes v) = true ->
  attrs_ok (Some l) = true -> attrs_ok (Some (set_attr name v l)) = true.
Proof.
  intros Hn Hv. cbn [attrs_ok]. induction l as [|a l IH]; cbn [set_attr forallb]; intros H.
  - cbn [a_name a_val]. rewrite Hn, Hv. reflexivity.
  - apply andb_true_iff in H as [Ha Hl]. destruct (bytes_eqb (a_name a) name); cbn [forallb a_name a_val].
    + rewrite Hn, Hv, Hl. reflexivity.
    + rewrite Ha, (IH Hl). reflexivity.
Qed.

(* node.SetAttribute keeps AI when the name is a safe attribute name and the value consists of bytes *)
Lemma AI_set_node_attr x i name v : AI (hx_attrs x) -> attr_name_ok name = true -> all_bytes_b (aval_bytes v) = true ->
  AI (hx_attrs (set_node_attr x i name v)).
Proof.
  intros Ha Hn Hv. unfold set_node_attr. cbn [sth_attrs hx_attrs]. apply AI_put; [exact Ha|].
  apply attrs_ok_set; [exact Hn|exact Hv|].
  pose proof (AI_node_attrs _ i Ha) as H. destruct (node_attrs (hx_attrs x) i); [exact H|reflexivity].
Qed.

Lemma set_node_attr_s x i name v : hx_s (set_node_attr x i name v) = hx_s x.
Proof. reflexivity. Qed.
Lemma set_node_attr_ids x i name v : hx_ids (set_node_attr x i name v) = hx_ids x.
Proof. reflexivity. Qed.

Lemma set_node_attrs_s x i l : hx_s (set_node_attrs x i l) = hx_s x.
Proof. revert x. induction l as [|[n v] r IH]; intros x; cbn [set_node_attrs]; [reflexivity|]. rewrite IH. reflexivity. Qed.
Lemma set_node_attrs_ids x i l : hx_ids (set_node_attrs x i l) = hx_ids x.
Proof. revert x. induction l as [|[n v] r IH]; intros x; cbn [set_node_attrs]; [reflexivity|]. rewrite IH. reflexivity. Qed.

(* the attributes ParseAttributes returns: safe names, values that are text consist of bytes *)
Definition pattr_ok (a : bytes * Attr.pval) : Prop :=
  attr_name_ok (fst a) = true /\ all_bytes_b (aval_bytes (aval_of (snd a))) = true.

Lemma AI_set_node_attrs x i l : AI (hx_attrs x) -> Forall pattr_ok l -> AI (hx_attrs (set_node_attrs x i l)).
Proof.
  intros Ha Hl. revert x Ha. induction Hl as [|[n v] r [Hn Hv] _ IH]; intros x Ha; cbn [set_node_attrs]; [exact Ha|].
  apply IH. apply AI_set_node_attr; assumption.
Qed.
