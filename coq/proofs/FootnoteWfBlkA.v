(* Helper library for FootnoteWfBlk.v, part A: the heap primitives of the Close of a footnote
   (model/FootnoteParseBlock.v footnote_close): InsertBefore of the fresh FootnoteList, and the
   "move" of the footnote c from its parent p to the end of the list l, described pointwise; the
   heap parts of the invariant of the core block phase (ParseBlocksRangeB) under such a move. *)
Require Import GM.model.Base GM.model.Util GM.model.Reader GM.model.BlockParse GM.model.FootnoteParseBlock.
Require Import GM.proofs.ReaderProofs GM.proofs.ParseInv GM.proofs.ParseBlocksRangeA GM.proofs.ParseBlocksRangeB.
From Coq Require Import List ZArith Lia Bool.
Import ListNotations.
Open Scope Z_scope.

(* ================= insert_before_id ================= *)
Lemma insert_before_id_in x y l z : In z (insert_before_id x y l) -> z = y \/ In z l.
Proof.
  induction l as [|a t IH]; cbn [insert_before_id].
  - intros [H|[]]. left. congruence.
  - destruct (Nat.eqb x a).
    + intros [H|H]; [left; congruence|right; exact H].
    + intros [H|H]; [right; left; exact H|]. destruct (IH H) as [E|E]; [left; exact E|right; right; exact E].
Qed.

Lemma insert_before_id_keep x y l z : In z l -> In z (insert_before_id x y l).
Proof.
  induction l as [|a t IH]; cbn [insert_before_id]; [intros []|].
  destruct (Nat.eqb x a); intros [H|H].
  - right. left. exact H.
  - right. right. exact H.
  - left. exact H.
  - right. auto.
Qed.

Lemma insert_before_id_new x y l : In y (insert_before_id x y l).
Proof.
  induction l as [|a t IH]; cbn [insert_before_id]; [left; reflexivity|].
  destruct (Nat.eqb x a); [left; reflexivity|right; exact IH].
Qed.

Lemma insert_before_id_nodup x y l : NoDup l -> ~ In y l -> NoDup (insert_before_id x y l).
Proof.
  induction l as [|a t IH]; cbn [insert_before_id]; intros Hnd Hy.
  - constructor; [intros []|constructor].
  - destruct (Nat.eqb x a).
    + constructor; assumption.
    + inversion Hnd as [|? ? Ha Ht]; subst. constructor.
      * intros H. apply insert_before_id_in in H. destruct H as [->|H]; [apply Hy; left; reflexivity|auto].
      * apply IH; [exact Ht|]. intros H. apply Hy. right. exact H.
Qed.

(* the last element stays the last one when the reference is in the list *)
Lemma insert_before_id_last x y l v : In x l -> last_id l = Some v -> last_id (insert_before_id x y l) = Some v.
Proof.
  intros Hx H. apply last_id_some in H. destruct H as [l' ->]. apply last_id_some.
  induction l' as [|a t IH]; cbn [app insert_before_id].
  - destruct Hx as [->|[]]. rewrite Nat.eqb_refl. exists [y]. reflexivity.
  - destruct (Nat.eqb_spec x a) as [E|E].
    + exists (y :: a :: t). reflexivity.
    + destruct Hx as [Hx|Hx]; [congruence|]. destruct (IH Hx) as [l'' El]. rewrite El. exists (a :: l''). reflexivity.
Qed.

(* ================= detach / InsertBefore of a fresh node ================= *)
Lemma detach_none h c n : nth_error h c = Some n -> bpar n = None -> detach h c = Ok h.
Proof. intros E P. unfold detach. apply hget_ok in E. rewrite E. cbn. rewrite P. reflexivity. Qed.

Lemma insert_before_new_spec h mk p c nc np ha :
  nth_error h c = Some nc -> bpar nc = Some p -> nth_error h p = Some np -> bpar mk = None ->
  insert_before (h ++ [mk]) p c (length h) = Ok ha ->
  ha = hset (hset (h ++ [mk]) p (set_ch np (insert_before_id c (length h) (bch np)))) (length h) (set_par mk (Some p)).
Proof.
  intros Ec Pc Ep Pm H. unfold insert_before in H.
  pose proof (nth_some_lt _ _ _ Ec) as Hc. pose proof (nth_some_lt _ _ _ Ep) as Hp.
  assert (nth_error (h ++ [mk]) c = Some nc) as Ec' by (rewrite nth_error_app1 by exact Hc; exact Ec).
  assert (nth_error (h ++ [mk]) p = Some np) as Ep' by (rewrite nth_error_app1 by exact Hp; exact Ep).
  apply hget_ok in Ec'. rewrite Ec' in H. cbn [bind] in H.
  assert (opt_nat_eqb (bpar nc) (Some p) = true) as Eo by (apply opt_nat_eqb_true; exact Pc).
  rewrite Eo in H. rewrite (detach_none _ _ mk (nth_app_new h mk) Pm) in H. cbn [bind] in H.
  bind_inv H h0 E0. apply hupd_ok in E0. destruct E0 as [np' [Ep'' ->]].
  assert (np' = np) by congruence. subst np'.
  apply hupd_ok in H. destruct H as [m [Em ->]].
  rewrite nth_hset_ne in Em by lia. rewrite nth_app_new in Em. injection Em as <-. reflexivity.
Qed.

(* ================= the move, pointwise ================= *)
(* RemoveChild(p, c) then AppendChild(l, c) with ensureIsolated: existing l *)
Lemma move_old_spec h p c l nc h1 h2 :
  remove_child h p c = Ok h1 -> append_child_iso h1 l c = Ok h2 -> c <> p -> c <> l -> p <> l ->
  nth_error h c = Some nc -> bpar nc = Some p ->
  exists np nl, nth_error h p = Some np /\ nth_error h l = Some nl /\ length h2 = length h /\
    nth_error h2 c = Some (set_par nc (Some l)) /\
    nth_error h2 p = Some (set_ch np (remove_id c (bch np))) /\
    nth_error h2 l = Some (set_ch nl (bch nl ++ [c])) /\
    forall j, j <> c -> j <> p -> j <> l -> nth_error h2 j = nth_error h j.
Proof.
  intros Hr Ha Hcp Hcl Hpl Ec Pc. apply remove_child_spec in Hr; [|exact Hcp].
  destruct Hr as [nc' [Ec' [[Hne _]|[_ [np [Ep [Hlen [E1c [E1p E1o]]]]]]]]].
  { exfalso. apply Hne. congruence. }
  assert (nc' = nc) by congruence. subst nc'.
  unfold append_child_iso in Ha. rewrite (detach_none h1 c _ E1c eq_refl) in Ha. cbn [bind] in Ha.
  destruct (append_child_spec _ _ _ _ Ha Hcl) as [nc1 [nl [E2c [E2l [Hlen2 [F1 [F2 F3]]]]]]].
  assert (nc1 = set_par nc None) by congruence. subst nc1.
  rewrite E1o in E2l by congruence.
  exists np, nl. csplit; auto.
  - congruence.
  - rewrite F3 by congruence. exact E1p.
  - intros j J1 J2 J3. rewrite F3 by assumption. apply E1o; assumption.
Qed.

Lemma nth_app_other {A} (h : list A) n j : j <> length h -> nth_error (h ++ [n]) j = nth_error h j.
Proof.
  intros Hj. destruct (Nat.lt_ge_cases j (length h)) as [Hlt|Hge].
  - apply nth_error_app1. exact Hlt.
  - rewrite nth_error_app2 by exact Hge. destruct (j - length h)%nat as [|k] eqn:E; [lia|].
    cbn [nth_error]. symmetry. destruct k; apply nth_error_None; lia.
Qed.

(* ... the same after the allocation of the list and its InsertBefore the footnote *)
Lemma move_new_spec h p c nc np mk ha h1 h2 :
  nth_error h c = Some nc -> bpar nc = Some p -> nth_error h p = Some np -> c <> p -> bpar mk = None -> bch mk = [] ->
  insert_before (h ++ [mk]) p c (length h) = Ok ha -> remove_child ha p c = Ok h1 ->
  append_child_iso h1 (length h) c = Ok h2 ->
  length h2 = S (length h) /\
  nth_error h2 c = Some (set_par nc (Some (length h))) /\
  nth_error h2 p = Some (set_ch np (remove_id c (insert_before_id c (length h) (bch np)))) /\
  nth_error h2 (length h) = Some (set_ch (set_par mk (Some p)) [c]) /\
  forall j, j <> c -> j <> p -> j <> length h -> nth_error h2 j = nth_error h j.
Proof.
  intros Ec Pc Ep Hcp Pm Cm Hi Hr Ha.
  pose proof (nth_some_lt _ _ _ Ec) as Hc. pose proof (nth_some_lt _ _ _ Ep) as Hp.
  pose proof (insert_before_new_spec _ _ _ _ _ _ _ Ec Pc Ep Pm Hi) as ->.
  set (l := length h) in *. set (np' := set_ch np (insert_before_id c l (bch np))) in *.
  assert (length (h ++ [mk]) = S l) as Hlen by (rewrite app_length; cbn [length]; lia).
  assert (nth_error (hset (hset (h ++ [mk]) p np') l (set_par mk (Some p))) c = Some nc) as Ec'.
  { rewrite !nth_hset_ne by lia. rewrite nth_error_app1 by exact Hc. exact Ec. }
  destruct (move_old_spec _ p c l nc h1 h2 Hr Ha Hcp ltac:(lia) ltac:(lia) Ec' Pc)
    as [npa [nla [Epa [Ela [Hl2 [F1 [F2 [F3 F4]]]]]]]].
  rewrite nth_hset_ne in Epa by lia. rewrite nth_hset_eq in Epa by lia. injection Epa as <-.
  rewrite nth_hset_eq in Ela by (rewrite length_hset; lia). injection Ela as <-.
  rewrite !length_hset in Hl2. csplit; auto.
  - congruence.
  - rewrite F3. cbn [set_par bch]. rewrite Cm. reflexivity.
  - intros j J1 J2 J3. rewrite F4 by assumption. rewrite !nth_hset_ne by congruence. apply nth_app_other. exact J3.
Qed.

(* ================= the invariant of the heap under a move ================= *)
(* c, a child of p written as a block quote, becomes the last child of l; l is an old node written as
   a block quote or the fresh node at the end of the heap (then it is also a new child of p) *)
Section Move.
Variable space_table : list N.
Variable src : bytes.
Notation heapS := (heapS space_table src).
Notation nodeP := (nodeP space_table src).
Variables (h h1 : heap) (p c l : nat) (nc np nl1 : bnode) (cp1 : list nat).
Hypothesis Hcp : c <> p.
Hypothesis Hcl : c <> l.
Hypothesis Hpl : p <> l.
Hypothesis Hl0 : l <> 0%nat.
Hypothesis Ec : nth_error h c = Some nc.
Hypothesis Ep : nth_error h p = Some np.
Hypothesis Pc : bpar nc = Some p.
Hypothesis Hcin : In c (bch np).
Hypothesis Kc : bk nc = BBlockquote.
Hypothesis E1c : nth_error h1 c = Some (set_par nc (Some l)).
Hypothesis E1p : nth_error h1 p = Some (set_ch np cp1).
Hypothesis E1l : nth_error h1 l = Some nl1.
Hypothesis E1o : forall j, j <> c -> j <> p -> j <> l -> nth_error h1 j = nth_error h j.
Hypothesis Hl : (exists nl, nth_error h l = Some nl /\ nl1 = set_ch nl (bch nl ++ [c]) /\ bk nl = BBlockquote) \/
                (nth_error h l = None /\ nl1 = set_ch (set_par (mknode BBlockquote fn_list) (Some p)) [c]).
Hypothesis Hin1 : forall z, In z cp1 -> z <> c /\ (In z (bch np) \/ (z = l /\ nth_error h l = None)).
Hypothesis Hkeep1 : forall z, In z (bch np) -> z <> c -> In z cp1.
Hypothesis Hnd1 : NoDup (bch np) -> (nth_error h l = None -> ~ In l (bch np)) -> NoDup cp1.
Hypothesis Hlast1 : forall y, last_id (bch np) = Some y -> y <> c -> last_id cp1 = Some y.

Lemma move_cases j m : nth_error h1 j = Some m ->
  (j = c /\ m = set_par nc (Some l)) \/ (j = p /\ m = set_ch np cp1) \/ (j = l /\ m = nl1) \/
  (j <> c /\ j <> p /\ j <> l /\ nth_error h j = Some m).
Proof.
  intros H. destruct (Nat.eq_dec j c) as [->|H1]; [left; split; congruence|].
  destruct (Nat.eq_dec j p) as [->|H2]; [right; left; split; congruence|].
  destruct (Nat.eq_dec j l) as [->|H3]; [right; right; left; split; congruence|].
  right. right. right. rewrite E1o in H by assumption. auto.
Qed.

Lemma move_l_kind : bk nl1 = BBlockquote.
Proof. destruct Hl as [[nl [_ [-> K]]]|[_ ->]]; [exact K|reflexivity]. Qed.

Lemma move_l_ch x : In x (bch nl1) -> x = c \/ exists nl, nth_error h l = Some nl /\ In x (bch nl).
Proof.
  destruct Hl as [[nl [El [-> K]]]|[_ ->]]; cbn [set_ch bch]; intros H.
  - apply in_app_or in H. destruct H as [H|[H|[]]]; [right; exists nl; auto|left; congruence].
  - destruct H as [H|[]]. left. congruence.
Qed.

Lemma move_l_last : last_id (bch nl1) = Some c.
Proof.
  destruct Hl as [[nl [El [-> K]]]|[_ ->]]; cbn [set_ch bch]; [apply last_id_snoc|reflexivity].
Qed.

(* the old nodes except c keep everything but their children *)
Lemma move_old x nx : x <> c -> nth_error h x = Some nx ->
  exists nx', nth_error h1 x = Some nx' /\ bpar nx' = bpar nx /\ bk nx' = bk nx /\ blines nx' = blines nx /\
              b_i1 nx' = b_i1 nx /\ b_i2 nx' = b_i2 nx /\ b_seg nx' = b_seg nx.
Proof.
  intros Hx Ex. destruct (Nat.eq_dec x p) as [->|Hp].
  - eexists. split; [exact E1p|]. assert (nx = np) by congruence. subst. csplit; reflexivity.
  - destruct (Nat.eq_dec x l) as [->|Hxl].
    + destruct Hl as [[nl [El [-> K]]]|[En _]]; [|congruence].
      eexists. split; [exact E1l|]. assert (nx = nl) by congruence. subst. csplit; reflexivity.
    + exists nx. rewrite E1o by assumption. csplit; auto.
Qed.

Lemma move_data_le : data_le h h1.
Proof.
  intros j m Hj. destruct (Nat.eq_dec j c) as [->|H1].
  - eexists. split; [exact E1c|]. assert (m = nc) by congruence. subst. auto.
  - destruct (move_old j m H1 Hj) as [m' [E' [_ [K [L _]]]]]. exists m'. auto.
Qed.

Lemma move_item x nx : nth_error h1 x = Some nx -> bk nx = BListItem ->
  exists nx0, nth_error h x = Some nx0 /\ bk nx0 = BListItem.
Proof.
  intros Hx K. apply move_cases in Hx. destruct Hx as [[-> ->]|[[-> ->]|[[-> ->]|[_ [_ [_ Hx]]]]]].
  - exists nc. auto.
  - exists np. auto.
  - rewrite move_l_kind in K. discriminate.
  - exists nx. auto.
Qed.

Lemma heapS_move : heapS h -> heapS h1.
Proof.
  intros [Hroot HK Hnd Hns Hit Hnode].
  assert (forall x, In x (bch np) -> x <> c -> exists nx', nth_error h1 x = Some nx' /\ bpar nx' = Some p) as Kp.
  { intros x Hx Hxc. destruct (HK p np x Ep Hx) as [nx [Ex Px]].
    destruct (move_old x nx Hxc Ex) as [nx' [Ex' [Px' _]]]. exists nx'. split; congruence. }
  assert (forall q nq x, nth_error h q = Some nq -> In x (bch nq) -> q <> p ->
            exists nx', nth_error h1 x = Some nx' /\ bpar nx' = Some q) as Ko.
  { intros q nq x Eq Hx Hqp. destruct (HK q nq x Eq Hx) as [nx [Ex Px]].
    assert (x <> c) as Hxc by (intros ->; congruence).
    destruct (move_old x nx Hxc Ex) as [nx' [Ex' [Px' _]]]. exists nx'. split; congruence. }
  constructor.
  - destruct Hroot as [n0 [E0 [K0 P0]]].
    assert (0%nat <> c) as H0c by (intros <-; congruence).
    destruct (move_old 0%nat n0 H0c E0) as [n0' [E0' [P0' [K0' _]]]]. exists n0'. csplit; congruence.
  - intros q nq x Hq Hx. apply move_cases in Hq. destruct Hq as [[-> ->]|[[-> ->]|[[-> ->]|[H1 [H2 [H3 Hq]]]]]].
    + cbn [set_par bch] in Hx. eapply Ko; eassumption.
    + cbn [set_ch bch] in Hx. destruct (Hin1 x Hx) as [Hxc [Hin|[-> Hn]]]; [auto|].
      destruct Hl as [[nl [El _]]|[_ ->]]; [congruence|]. eexists. split; [exact E1l|reflexivity].
    + apply move_l_ch in Hx. destruct Hx as [->|[nl [El Hx]]].
      * eexists. split; [exact E1c|reflexivity].
      * eapply Ko; eauto.
    + eapply Ko; eassumption.
  - intros q nq Hq. apply move_cases in Hq. destruct Hq as [[-> ->]|[[-> ->]|[[-> ->]|[H1 [H2 [H3 Hq]]]]]].
    + cbn [set_par bch]. eapply Hnd; eassumption.
    + cbn [set_ch bch]. apply Hnd1; [eapply Hnd; eassumption|].
      intros Hn Hin. destruct (HK p np l Ep Hin) as [nx [Ex _]]. congruence.
    + destruct Hl as [[nl [El [-> K]]]|[_ ->]]; cbn [set_ch bch].
      * apply NoDup_app_snoc; [eapply Hnd; eassumption|].
        intros Hin. destruct (HK l nl c El Hin) as [nx [Ex Px]]. congruence.
      * constructor; [intros []|constructor].
    + eapply Hnd; eassumption.
  - intros q nq Hq. apply move_cases in Hq. destruct Hq as [[-> ->]|[[-> ->]|[[-> ->]|[H1 [H2 [H3 Hq]]]]]].
    + cbn [set_par bpar]. congruence.
    + cbn [set_ch bpar]. eapply Hns; eassumption.
    + destruct Hl as [[nl [El [-> K]]]|[_ ->]]; cbn [set_ch set_par bpar]; [eapply Hns; eassumption|congruence].
    + eapply Hns; eassumption.
  - intros q nq x nx Hq Hin Hx Kx. destruct (move_item x nx Hx Kx) as [nx0 [Ex0 Kx0]].
    apply move_cases in Hq. destruct Hq as [[-> ->]|[[-> ->]|[[-> ->]|[H1 [H2 [H3 Hq]]]]]].
    + cbn [set_par bch bk] in *. eapply (Hit c nc x nx0); eassumption.
    + cbn [set_ch bch bk] in *. destruct (Hin1 x Hin) as [_ [Hi|[-> Hn]]]; [|congruence].
      eapply (Hit p np x nx0); eassumption.
    + exfalso. apply move_l_ch in Hin. destruct Hin as [->|[nl [El Hin]]].
      * assert (nx0 = nc) by congruence. subst. congruence.
      * pose proof (Hit l nl x nx0 El Hin Ex0 Kx0) as Kl.
        destruct Hl as [[nl' [El' [_ K]]]|[En _]]; [|congruence]. assert (nl' = nl) by congruence. subst. congruence.
    + eapply (Hit q nq x nx0); eassumption.
  - intros q nq Hq. apply move_cases in Hq. destruct Hq as [[-> ->]|[[-> ->]|[[-> ->]|[H1 [H2 [H3 Hq]]]]]].
    + apply (nodeP_same space_table src nc); auto; [eapply Hnode; eassumption|]. intros Hk. rewrite Kc in Hk. discriminate.
    + apply (nodeP_same space_table src np); auto; [eapply Hnode; eassumption|]. intros Hk.
      rewrite (np_leaf _ _ np (Hnode p np Ep) Hk) in Hcin. destruct Hcin.
    + destruct Hl as [[nl [El [-> K]]]|[_ ->]].
      * apply (nodeP_same space_table src nl); auto; [eapply Hnode; eassumption|]. intros Hk. rewrite K in Hk. discriminate.
      * constructor; cbn [set_ch set_par mknode blines b_seg bk b_i1 bch]; try discriminate. constructor.
    + eapply Hnode; eassumption.
Qed.

Lemma Jinv_move R : Jinv src h R -> Jinv src h1 R.
Proof.
  intros HJ q nq Hq Hp. apply move_cases in Hq. destruct Hq as [[-> ->]|[[-> ->]|[[-> ->]|[H1 [H2 [H3 Hq]]]]]].
  - left. intros [K|K]; cbn [set_par bk] in K; congruence.
  - cbn [set_ch bpar] in Hp. destruct (HJ p np Ep Hp) as [Hf|Hin]; [left|right; auto]. apply (fin_same src np); auto.
  - left. intros [K|K]; rewrite move_l_kind in K; discriminate.
  - destruct (HJ q nq Hq Hp); [left|right]; auto.
Qed.

Lemma Bnd_move b : Bnd h b -> Bnd h1 b.
Proof.
  intros HB q nq sg Hq Hk Hs. apply move_cases in Hq. destruct Hq as [[-> ->]|[[-> ->]|[[-> ->]|[H1 [H2 [H3 Hq]]]]]].
  - eapply (HB c nc); eauto.
  - eapply (HB p np); eauto.
  - rewrite move_l_kind in Hk. discriminate.
  - eapply HB; eauto.
Qed.

Lemma move_lastchild q y : lastchild h q y -> y <> c -> q <> l -> lastchild h1 q y.
Proof.
  intros [nq [Eq L]] Hy Hql. destruct (Nat.eq_dec q c) as [->|Hqc].
  - eexists. split; [exact E1c|]. assert (nq = nc) by congruence. subst. exact L.
  - destruct (Nat.eq_dec q p) as [->|Hqp].
    + eexists. split; [exact E1p|]. assert (nq = np) by congruence. subst. cbn [set_ch bch]. apply Hlast1; assumption.
    + exists nq. rewrite E1o by assumption. auto.
Qed.

Lemma move_child_keep q y : child h q y -> y <> c -> child h1 q y.
Proof.
  intros [nq [Eq L]] Hy. destruct (Nat.eq_dec q c) as [->|Hqc].
  - eexists. split; [exact E1c|]. assert (nq = nc) by congruence. subst. exact L.
  - destruct (Nat.eq_dec q p) as [->|Hqp].
    + eexists. split; [exact E1p|]. assert (nq = np) by congruence. subst. cbn [set_ch bch]. apply Hkeep1; assumption.
    + destruct (Nat.eq_dec q l) as [->|Hql].
      * destruct Hl as [[nl [El [-> K]]]|[En _]]; [|congruence]. eexists. split; [exact E1l|].
        assert (nq = nl) by congruence. subst. cbn [set_ch bch]. apply in_or_app. left. exact L.
      * exists nq. rewrite E1o by assumption. auto.
Qed.

Lemma move_lastchild_new : lastchild h1 l c.
Proof. eexists. split; [exact E1l|apply move_l_last]. Qed.
End Move.

(* ================= the new child list of p ================= *)
(* what Section Move asks of the new child list cp1 of p (fresh: l is the new node) *)
Definition cp_ok (c l : nat) (fresh : Prop) (L cp1 : list nat) : Prop :=
  (forall z, In z cp1 -> z <> c /\ (In z L \/ (z = l /\ fresh))) /\
  (forall z, In z L -> z <> c -> In z cp1) /\
  (NoDup L -> (fresh -> ~ In l L) -> NoDup cp1) /\
  (forall y, last_id L = Some y -> y <> c -> last_id cp1 = Some y).

Lemma cp_ok_old c l fresh L : NoDup L -> cp_ok c l fresh L (remove_id c L).
Proof.
  intros Hnd. destruct (remove_id_nodup c L Hnd) as [N1 N2]. unfold cp_ok. csplit.
  - intros z Hz. split; [intros ->; auto|]. left. eapply remove_id_incl. exact Hz.
  - intros z Hz Hzc. apply remove_id_keep; assumption.
  - intros _ _. exact N1.
  - intros y Hy Hyc. apply remove_id_last; assumption.
Qed.

Lemma cp_ok_new c l (fresh : Prop) L : fresh -> NoDup L -> ~ In l L -> In c L ->
  cp_ok c l fresh L (remove_id c (insert_before_id c l L)).
Proof.
  intros Hf Hnd Hl Hc. pose proof (insert_before_id_nodup c l L Hnd Hl) as Hnd2.
  destruct (remove_id_nodup c _ Hnd2) as [N1 N2]. unfold cp_ok. csplit.
  - intros z Hz. split; [intros ->; auto|]. apply remove_id_incl in Hz. apply insert_before_id_in in Hz.
    destruct Hz as [->|Hz]; [right; auto|left; exact Hz].
  - intros z Hz Hzc. apply remove_id_keep; [|exact Hzc]. apply insert_before_id_keep. exact Hz.
  - intros _ _. exact N1.
  - intros y Hy Hyc. apply remove_id_last; [|exact Hyc]. apply insert_before_id_last; assumption.
Qed.
