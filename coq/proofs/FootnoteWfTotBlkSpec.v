(* Helper file for FootnoteWfTotBlk.v (fork of ParseBlocksTotalSpec.v; changes: the parameter lst of the
   invariant, open_extra PBlockquote): the pre/post-conditions of the block parsers' Open, Continue
   and Close functions, shared by the per-parser lemma files and the driver proofs. *)
Require Import GM.model.Base GM.model.Util GM.model.Reader GM.model.ReaderSpec GM.model.Blocks GM.model.ListItem
               GM.model.LeafBlocks GM.model.CodeBlock GM.model.LinkDest GM.model.Regex GM.model.BlockParse.
Require Import GM.proofs.ReaderProofs GM.proofs.BlocksProofs GM.proofs.ParseBlocksTotalReader GM.proofs.FootnoteWfTotBlkDefs.
From Coq Require Import ZArith Lia List Bool.
Open Scope Z_scope.

(* the space table, characterised once; discharged by computation for the generated table *)
Definition TblOK (space_table : list N) : Prop :=
  forall c, is_space space_table c = ((c =? 9) || (c =? 10) || (c =? 13) || (c =? 32))%N.

Definition scache (s s' : st) : Prop := s_h s' = s_h s /\ s_c s' = s_c s /\ same_pos (s_r s) (s_r s').
Definition sin (s : st) : Prop := r_in_range (s_r s) = true.
Definition sview (s : st) : bytes := r_view (s_r s).
Definition soff (s : st) : Z := r_column (s_r s) (r_head (s_r s)).
Definition cframe (c c' : pctx) : Prop :=
  c_arr c' = c_arr c /\ c_len c' = c_len c /\ c_boff c' = c_boff c /\ c_bind c' = c_bind c.
(* BlockOffset, when set, is an index into the current line behind its virtual padding *)
Definition BoffOK (s : st) : Prop :=
  c_boff (s_c s) < zlen (sview s) /\ (0 <= c_boff (s_c s) -> s_pad (r_pos (s_r s)) <= c_boff (s_c s)).

(* nodes keep kind, children, parent (and lines) *)
Definition hsame_pc (h h' : heap) : Prop :=
  length h' = length h /\
  forall j n, nth_error h j = Some n -> exists n', nth_error h' j = Some n' /\ bk n' = bk n /\ bch n' = bch n /\ bpar n' = bpar n.
Definition hsame_struct (h h' : heap) : Prop :=
  length h' = length h /\
  forall j n, nth_error h j = Some n -> exists n', nth_error h' j = Some n' /\ bk n' = bk n /\ bch n' = bch n /\
                                                     bpar n' = bpar n /\ blines n' = blines n.

(* the lines of all paragraphs end before the reader's position *)
Definition Below (h : heap) (r : reader) : Prop :=
  forall i n, nth_error h i = Some n -> bk n = BParagraph ->
    Forall (fun sg => s_stop sg <= s_start (r_pos r)) (blines n).

Section WithSrc.
Variable space_table : list N.
Variable src : bytes.
Variable lst : option nat.
Notation SI := (SI space_table src lst).

(* ---------- Open ---------- *)
Definition open_extra (bp : bparser) (parent : nat) (s s' : st) (nd : bnode) (kids : bool) : Prop :=
  match bp with
  | PSetext =>
    exists last lp ln, last_opened (s_c s) = Some (last, lp) /\ nth_error (s_h s) last = Some ln /\
      bk ln = BParagraph /\ bpar ln = Some parent /\ c_tmp_para (s_c s') = Some last /\ blines nd <> [] /\
      same_pos (s_r s) (s_r s')
  | PBlockquote =>
    (* CHANGED for the footnote model: a Footnote (tag PBlockquote) may be opened without children *)
    kids = true -> same_line (s_r s) (s_r s') /\ s_start (r_pos (s_r s)) + 1 <= s_start (r_pos (s_r s'))
  | PListItem =>
    (exists pn, nth_error (s_h s) parent = Some pn /\ bk pn = BList) /\
    (kids = true -> same_line (s_r s) (s_r s') /\ s_start (r_pos (s_r s)) + 1 <= s_start (r_pos (s_r s')))
  | PList =>
    kids = true /\ same_pos (s_r s) (s_r s') /\ c_skip_list (s_c s') = false /\
    snd (parse_list_item (sview s)) <> 0%N /\
    (forall l lp ln, last_opened (s_c s) = Some (l, lp) -> nth_error (s_h s) l = Some ln -> bk ln <> BList)
  | _ => True
  end.

Definition open_post (bp : bparser) (parent : nat) (s s' : st) (o : open_res) : Prop :=
  SI s' /\ r_le (s_r s) (s_r s') /\ cframe (s_c s) (s_c s') /\
  match o with
  | None =>
    s_h s' = s_h s /\ same_pos (s_r s) (s_r s') /\ c_fence (s_c s') = c_fence (s_c s) /\
    c_tmp_para (s_c s') = c_tmp_para (s_c s) /\ c_empty_item (s_c s') = c_empty_item (s_c s) /\
    (bp <> PList -> c_skip_list (s_c s') = c_skip_list (s_c s))
  | Some (id, kids, req) =>
    exists nd, s_h s' = s_h s ++ [nd] /\ id = length (s_h s) /\ bk nd = kind_of_parser bp /\
      bpar nd = None /\ bch nd = [] /\
      req = (match bp with PSetext => true | _ => false end) /\
      (kids = true -> is_container bp = true) /\
      (bp <> PFenced -> c_fence (s_c s') = c_fence (s_c s)) /\ (bp = PFenced -> c_fence (s_c s') <> None) /\
      (bp <> PSetext -> c_tmp_para (s_c s') = c_tmp_para (s_c s)) /\
      open_extra bp parent s s' nd kids
  end.

(* ---------- Continue ---------- *)
Definition cont_post (bp : bparser) (node : nat) (s s' : st) (cont kids : bool) : Prop :=
  SI s' /\ r_le (s_r s) (s_r s') /\ cframe (s_c s) (s_c s') /\
  c_fence (s_c s') = c_fence (s_c s) /\ c_tmp_para (s_c s') = c_tmp_para (s_c s) /\
  kids = is_container bp /\
  (is_container bp = true -> s_h s' = s_h s /\ same_line (s_r s) (s_r s')) /\
  (is_container bp = false -> cont = false -> hsame_struct (s_h s) (s_h s') /\ same_line (s_r s) (s_r s')) /\
  (is_container bp = false -> cont = true -> hsame_pc (s_h s) (s_h s')).

(* ---------- Close (and the paragraph transformer) ---------- *)
(* what a closing step may do to the old nodes: kinds stay, the children of lists stay, lines
   change only at `node`, parents change only at paragraphs allowed by `may_detach` *)
Definition close_frame (node : nat) (may_detach : nat -> bnode -> Prop) (h h' : heap) : Prop :=
  (length h <= length h')%nat /\
  forall j n, nth_error h j = Some n -> exists n', nth_error h' j = Some n' /\ bk n' = bk n /\
    (j <> node -> blines n' = blines n) /\ (bk n = BList -> bch n' = bch n) /\
    (bpar n' = bpar n \/ (bk n = BParagraph /\ may_detach j n)).

Definition close_detach (bp : bparser) (node : nat) (s : st) (j : nat) (n : bnode) : Prop :=
  match bp with
  | PSetext => c_tmp_para (s_c s) = Some j
  | PList => exists c ln, bpar n = Some c /\ nth_error (s_h s) node = Some ln /\ In c (bch ln)
  | _ => False
  end.

Definition close_post (bp : bparser) (node : nat) (s s' : st) : Prop :=
  SI s' /\ s_r s' = s_r s /\ cframe (s_c s) (s_c s') /\
  (bp <> PFenced -> c_fence (s_c s') = c_fence (s_c s)) /\
  (bp = PFenced -> forall ch ind fl nd, c_fence (s_c s) = Some (ch, ind, fl, nd) -> nd <> node ->
                   c_fence (s_c s') = c_fence (s_c s)) /\
  (bp <> PSetext -> c_tmp_para (s_c s') = c_tmp_para (s_c s)) /\
  close_frame node (close_detach bp node s) (s_h s) (s_h s').

(* transformParagraph on an attached paragraph *)
Definition transform_post (node : nat) (s s' : st) (gone : bool) : Prop :=
  SI s' /\ s_r s' = s_r s /\ cframe (s_c s) (s_c s') /\
  c_fence (s_c s') = c_fence (s_c s) /\ c_tmp_para (s_c s') = c_tmp_para (s_c s) /\
  c_skip_list (s_c s') = c_skip_list (s_c s) /\ c_empty_item (s_c s') = c_empty_item (s_c s) /\
  close_frame node (fun j _ => j = node) (s_h s) (s_h s') /\
  (exists n', nth_error (s_h s') node = Some n' /\ (gone = true <-> bpar n' = None)) /\
  (Below (s_h s) (s_r s) -> Below (s_h s') (s_r s)).

(* ---------- the list protocol ---------- *)
(* what must hold when blocks are opened below a List node: the line is a list item, is not a
   thematic break, and the list parser itself will decline *)
Definition LP (s : st) (parent : nat) : Prop :=
  sin s /\ snd (parse_list_item (sview s)) <> 0%N /\
  is_thematic_break space_table (sview s) (soff s) = false /\
  ((exists l lp ln, last_opened (s_c s) = Some (l, lp) /\ nth_error (s_h s) l = Some ln /\ bk ln = BList) \/
   c_skip_list (s_c s) = true).

End WithSrc.
