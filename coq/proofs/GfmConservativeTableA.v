(* C11 for the GFM parser model, Table extension, part A: pure facts about model/TableX.v.
   A delimiter row contains a '-' (byte 45); the text of a segment consists of bytes of the
   source, blanks and a newline; hence the paragraph transformer of the Table extension leaves
   every paragraph of a source without '-' alone. *)
Require Import GM.model.Base GM.model.Util GM.model.Reader GM.model.Html GM.model.TableX.
Require Import GM.proofs.GfmConservativeDefs.
From Coq Require Import List ZArith NArith Bool Lia.
Import ListNotations.
Open Scope Z_scope.

(* ---- drop_while ---- *)
Lemma gct_drop_while_in p (v : bytes) b : In b (drop_while p v) -> In b v.
Proof.
  induction v as [|c r IH]; cbn [drop_while]; intros H; [exact H|].
  destruct (p c); [right; auto|exact H].
Qed.

Lemma gct_drop_while_len p (v : bytes) :
  length (drop_while p v) <> length v -> exists c r, v = c :: r /\ p c = true.
Proof.
  destruct v as [|c r]; cbn [drop_while]; intros H; [congruence|].
  destruct (p c) eqn:E; [|congruence]. exists c, r. split; auto.
Qed.

(* ---- delim_cell ---- *)
Lemma gct_delim_cell_dash col a : delim_cell col = Some a -> In 45%N col.
Proof.
  unfold delim_cell. intros H.
  apply (gct_drop_while_in re_space).
  set (v0 := drop_while re_space col) in *.
  assert (Hv : forall (lc : bool) (v : bytes),
             (forall b, In b v -> In b v0) ->
             (let v' := drop_while (fun c => (c =? 45)%N) v in
              if Nat.eqb (length v') (length v) then None
              else let '(rc, v'') := match v' with 58%N :: r => (true, r) | _ => (false, v') end in
                   match drop_while re_space v'' with
                   | [] => Some (if lc then (if rc then ACenter else ALeft) else (if rc then ARight else ANone))
                   | _ => None end) = Some a -> In 45%N v0).
  { intros lc v Hsub H1. cbv zeta in H1.
    destruct (Nat.eqb_spec (length (drop_while (fun c => (c =? 45)%N) v)) (length v)) as [E|E]; [discriminate H1|].
    apply gct_drop_while_len in E. destruct E as [c [r [Ev Ec]]].
    apply N.eqb_eq in Ec. subst c v. apply Hsub. left. reflexivity. }
  destruct v0 as [|c0 r0] eqn:E0.
  - exact (Hv false [] (fun b Hb => Hb) H).
  - destruct (N.eqb_spec c0 58) as [E58|E58].
    + subst c0. apply (Hv true r0); [intros b Hb; right; exact Hb|]. exact H.
    + apply (Hv false (c0 :: r0)); [intros b Hb; exact Hb|].
      destruct c0 as [|p]; [exact H|].
      repeat (destruct p as [p|p|]; try exact H). congruence.
Qed.

(* ---- split_pipe ---- *)
Lemma gct_split_pipe_in (v : bytes) : forall cur c b,
  In c (split_pipe v cur) -> In b c -> In b v \/ In b cur.
Proof.
  induction v as [|x r IH]; intros cur c b Hc Hb; cbn [split_pipe] in Hc.
  - destruct Hc as [Hc|[]]. subst c. right. apply in_rev. exact Hb.
  - destruct (N.eqb x 124).
    + destruct Hc as [Hc|Hc].
      * subst c. right. apply in_rev. exact Hb.
      * destruct (IH [] c b Hc Hb) as [H|[]]. left. right. exact H.
    + destruct (IH (x :: cur) c b Hc Hb) as [H|[H|H]].
      * left. right. exact H.
      * subst x. left. left. reflexivity.
      * right. exact H.
Qed.

Lemma gct_all_some_cons {A} (l : list (option A)) a r :
  all_some l = Some (a :: r) -> exists l', l = Some a :: l'.
Proof.
  destruct l as [|[x|] l']; cbn [all_some]; intros H; try discriminate.
  destruct (all_some l'); [|discriminate]. injection H as H1 H2. subst x. eauto.
Qed.

Section WithSpace.
Variable space_table : list N.

Theorem parse_delimiter_dash line aligns :
  parse_delimiter space_table line = Some aligns -> In 45%N line.
Proof.
  unfold parse_delimiter. intros H.
  destruct (negb (is_table_delim space_table line)); [discriminate H|].
  set (c0 := split_pipe line []) in *.
  set (c1 := match c0 with c :: r => if blank space_table c then r else c0 | [] => [] end) in *.
  set (c2 := match rev c1 with cl :: r => if blank space_table cl then rev r else c1 | [] => [] end) in *.
  assert (H1 : forall c, In c c1 -> In c c0).
  { intros c Hc. subst c1. destruct c0 as [|x r]; [exact Hc|].
    destruct (blank space_table x); [right; exact Hc|exact Hc]. }
  assert (H2 : forall c, In c c2 -> In c c1).
  { intros c Hc. subst c2. destruct (rev c1) as [|x r] eqn:E; [destruct Hc|].
    destruct (blank space_table x); [|exact Hc].
    apply in_rev. rewrite E. right. apply in_rev. exact Hc. }
  destruct (all_some (map delim_cell c2)) as [[|a r]|] eqn:E; try discriminate H.
  apply gct_all_some_cons in E. destruct E as [l' E].
  destruct c2 as [|c r2] eqn:E2; [discriminate E|].
  cbn [map] in E. injection E as Ea _.
  apply gct_delim_cell_dash in Ea.
  assert (Hc : In c c0). { apply H1. apply H2. left. reflexivity. }
  destruct (gct_split_pipe_in line [] c 45%N Hc Ea) as [Hin|[]]. exact Hin.
Qed.

(* ---- the text of a segment ---- *)
Lemma gct_firstn_in {A} (x : A) : forall n l, In x (firstn n l) -> In x l.
Proof.
  induction n as [|n IH]; intros l H; [destruct H|].
  destruct l as [|y r]; [destruct H|]. cbn [firstn] in H. destruct H as [H|H]; [left; exact H|right; auto].
Qed.
Lemma gct_skipn_in {A} (x : A) : forall n l, In x (skipn n l) -> In x l.
Proof.
  induction n as [|n IH]; intros l H; [exact H|].
  destruct l as [|y r]; [destruct H|]. cbn [skipn] in H. right. auto.
Qed.
Lemma gct_slice_in src a b v x : slice src a b = Ok v -> In x v -> In x src.
Proof.
  unfold slice. intros H Hx.
  destruct ((0 <=? a) && (a <=? b) && (b <=? zlen src)); [|discriminate H].
  injection H as H. subst v. apply gct_firstn_in in Hx.
  eapply gct_skipn_in. exact Hx.
Qed.

Theorem seg_value_from_t src sg v : seg_value src sg = Ok v -> from_src src v.
Proof.
  unfold seg_value, from_src. intros H. gc_bind H w Hw.
  destruct (s_pad sg <? 0) eqn:Eneg; [discriminate H|].
  set (r := if s_pad sg =? 0 then w else spaces_n (s_pad sg) ++ w) in *.
  assert (Hr : forall b, In b r -> In b src \/ b = 32%N \/ b = 10%N).
  { intros b Hb. subst r. destruct (s_pad sg =? 0).
    - left. eapply gct_slice_in; eauto.
    - apply in_app_or in Hb. destruct Hb as [Hb|Hb].
      + apply repeat_spec in Hb. right. left. exact Hb.
      + left. eapply gct_slice_in; eauto. }
  assert (Hr' : forall b, In b (r ++ [10%N]) -> In b src \/ b = 32%N \/ b = 10%N).
  { intros b Hb. apply in_app_or in Hb. destruct Hb as [Hb|[Hb|[]]]; [auto|]. right. right. auto. }
  destruct (s_fnl sg).
  - destruct (rev r) as [|c t]; [injection H as H; subst v; exact Hr|].
    destruct (N.eqb c 10); injection H as H; subst v; assumption.
  - injection H as H. subst v. exact Hr.
Qed.

Lemma gct_from_src_no_dash src v : ~ In 45%N src -> from_src src v -> ~ In 45%N v.
Proof.
  intros Hs Hv Hin. destruct (Hv _ Hin) as [H|[H|H]]; [auto|discriminate H|discriminate H].
Qed.

(* ---- Transform ---- *)
Lemma gct_transform_from_no_dash_ok src : ~ In 45%N src ->
  forall fuel before prev rest r,
  transform_from space_table fuel src before prev rest = Ok r -> r = None.
Proof.
  intros Hs. induction fuel as [|f IH]; intros before prev rest r H; cbn [transform_from] in H; [discriminate H|].
  destruct rest as [|cur after]; [injection H as H; auto|].
  gc_bind H line Hline.
  destruct (parse_delimiter space_table line) as [aligns|] eqn:Ed.
  - exfalso. apply parse_delimiter_dash in Ed.
    exact (gct_from_src_no_dash _ _ Hs (seg_value_from_t _ _ _ Hline) Ed).
  - eapply IH; eauto.
Qed.

Theorem transform_no_dash_ok src lines r : ~ In 45%N src ->
  TableX.transform space_table src lines = Ok r -> r = None.
Proof.
  intros Hs H. unfold transform in H. destruct lines as [|l0 rest]; [injection H as H; auto|].
  eapply gct_transform_from_no_dash_ok; eauto.
Qed.

Lemma gct_transform_from_no_dash src : ~ In 45%N src ->
  forall rest fuel before prev,
  (length rest < fuel)%nat ->
  (forall l, In l rest -> exists v, seg_value src l = Ok v) ->
  transform_from space_table fuel src before prev rest = Ok None.
Proof.
  intros Hs. induction rest as [|cur after IH]; intros fuel before prev Hf Hv;
    (destruct fuel as [|f]; [cbn [length] in Hf; lia|]); cbn [transform_from]; [reflexivity|].
  destruct (Hv cur (or_introl eq_refl)) as [line Hline]. rewrite Hline. cbn [bind].
  destruct (parse_delimiter space_table line) as [aligns|] eqn:Ed.
  - exfalso. apply parse_delimiter_dash in Ed.
    exact (gct_from_src_no_dash _ _ Hs (seg_value_from_t _ _ _ Hline) Ed).
  - apply IH; [cbn [length] in Hf; lia|]. intros l Hl. apply Hv. right. exact Hl.
Qed.

Theorem transform_no_dash src lines : ~ In 45%N src ->
  (forall l, In l lines -> exists v, seg_value src l = Ok v) ->
  TableX.transform space_table src lines = Ok None.
Proof.
  intros Hs Hv. unfold transform. destruct lines as [|l0 rest]; [reflexivity|].
  apply gct_transform_from_no_dash; [exact Hs|cbn [length]; lia|].
  intros l Hl. apply Hv. right. exact Hl.
Qed.

End WithSpace.
