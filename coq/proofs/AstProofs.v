(* Refinement proofs for C13: the pointer-level mutators of model/AstHeap.v refine the
   list-of-children forest of model/AstSpec.v; Walk on the heap equals Walk on the forest. *)
Require Import GM.model.Base GM.model.AstHeap GM.model.AstSpec GM.model.AstLegal.
From Coq Require Import Lia Permutation Sorted.
Open Scope N_scope.

(* ------------------------------------------------------------------------- *)
(* Basics                                                                     *)
(* ------------------------------------------------------------------------- *)

Lemma upd_same {A} (f : id -> A) k v : upd f k v k = v.
Proof. unfold upd. rewrite N.eqb_refl. reflexivity. Qed.

Lemma upd_other {A} (f : id -> A) k v x : x <> k -> upd f k v x = f x.
Proof. intros Hne. unfold upd. destruct (N.eqb_spec x k) as [E|E]; [contradiction|reflexivity]. Qed.

Lemma oid_eqb_spec a b : reflect (a = b) (oid_eqb a b).
Proof.
  destruct a as [x|], b as [y|]; cbn; try (constructor; congruence).
  destruct (N.eqb_spec x y) as [E|E]; constructor; congruence.
Qed.

Lemma oid_eqb_refl a : oid_eqb a a = true.
Proof. destruct (oid_eqb_spec a a) as [E|E]; congruence. Qed.

Ltac hsimpl :=
  cbn [par fst_ lst nxt prv cnt set_par set_fst set_lst set_nxt set_prv set_cnt pa ch] in *.

(* decide all [upd] lookups in the goal *)
Ltac updd :=
  unfold upd;
  repeat match goal with
         | |- context [N.eqb ?a ?b] => destruct (N.eqb_spec a b); try subst
         end.

(* ---- lists ---- *)

Fixpoint last_or (pr : oid) (l : list id) : oid :=
  match l with [] => pr | x :: l' => last_or (Some x) l' end.
Definition head_or (nx : oid) (l : list id) : oid :=
  match l with [] => nx | x :: _ => Some x end.

Lemma last_or_app pr l1 l2 : last_or pr (l1 ++ l2) = last_or (last_or pr l1) l2.
Proof. revert pr. induction l1 as [|x l1 IH]; intros pr; cbn; auto. Qed.

Lemma last_opt_snoc l a : last_opt (l ++ [a]) = Some a.
Proof. unfold last_opt. rewrite rev_unit. reflexivity. Qed.

Lemma last_opt_last_or l : last_opt l = last_or None l.
Proof.
  destruct l as [|a l _] using rev_ind; [reflexivity|].
  rewrite last_opt_snoc, last_or_app. reflexivity.
Qed.

Lemma head_or_app nx l1 l2 : head_or nx (l1 ++ l2) = head_or (head_or nx l2) l1.
Proof. destruct l1; reflexivity. Qed.

Lemma snoc_case (l : list id) : l = [] \/ exists l' a, l = l' ++ [a].
Proof.
  destruct l as [|a l _] using rev_ind; [left; reflexivity|right; eauto].
Qed.

Lemma last_or_in pr l a : last_or pr l = Some a -> pr = Some a \/ In a l.
Proof.
  revert pr. induction l as [|x l IH]; intros pr H; cbn in *; auto.
  apply IH in H. destruct H as [H|H]; auto. injection H as ->. auto.
Qed.

Lemma last_or_some_ne a l : last_or (Some a) l <> None.
Proof. revert a. induction l as [|x l IH]; intros a; cbn; [discriminate|apply IH]. Qed.

Lemma last_or_nonempty pr l : l <> [] -> last_or pr l = last_or None l.
Proof. destruct l as [|x l]; [congruence|reflexivity]. Qed.

Lemma last_or_none_in l a : last_or None l = Some a -> In a l.
Proof. intros H. apply last_or_in in H. destruct H as [H|H]; [discriminate|exact H]. Qed.

Lemma head_or_none_in l a : head_or None l = Some a -> In a l.
Proof. destruct l as [|x l]; cbn; [discriminate|]. intros H. injection H as ->. auto. Qed.

Lemma head_opt_app_ne l1 l2 : l1 <> [] -> head_opt (l1 ++ l2) = head_opt l1.
Proof. destruct l1; [congruence|reflexivity]. Qed.

Lemma last_opt_app_ne l1 l2 : l2 <> [] -> last_opt (l1 ++ l2) = last_opt l2.
Proof.
  intros H. rewrite !last_opt_last_or, last_or_app. apply last_or_nonempty. exact H.
Qed.

Lemma nodup_app {A} (l1 l2 : list A) :
  NoDup (l1 ++ l2) <-> NoDup l1 /\ NoDup l2 /\ (forall y, In y l1 -> In y l2 -> False).
Proof.
  induction l1 as [|x l1 IH]; cbn.
  - split; [intros H; repeat split; auto using NoDup_nil | tauto].
  - rewrite !NoDup_cons_iff, IH, in_app_iff. split.
    + intros (Hx & H1 & H2 & H3). repeat split; auto.
      intros y [->|Hy] Hy2; eauto.
    + intros ((Hx & H1) & H2 & H3). repeat split; auto.
      * intros [H|H]; eauto.
      * intros y Hy Hy2. eauto.
Qed.

Lemma nodup_mid {A} (l1 : list A) x l2 :
  NoDup (l1 ++ x :: l2) ->
  ~ In x l1 /\ ~ In x l2 /\ NoDup l1 /\ NoDup l2 /\ (forall y, In y l1 -> In y l2 -> False).
Proof.
  intros H. apply nodup_app in H. destruct H as (H1 & H2 & H3).
  apply NoDup_cons_iff in H2. destruct H2 as (H2 & H4).
  repeat split; auto.
  - intros Hx. apply (H3 x Hx). left; reflexivity.
  - intros y Hy Hy2. apply (H3 y Hy). right; exact Hy2.
Qed.

Lemma existsb_eqb_in y l : existsb (N.eqb y) l = true <-> In y l.
Proof.
  rewrite existsb_exists. split.
  - intros (x & Hx & E). apply N.eqb_eq in E. subst. exact Hx.
  - intros H. exists y. split; [exact H|apply N.eqb_refl].
Qed.

Lemma in_remove_id x y l : In y (remove_id x l) <-> y <> x /\ In y l.
Proof.
  induction l as [|z l IH]; cbn; [tauto|].
  destruct (N.eqb_spec x z) as [E|E]; cbn; rewrite IH.
  - subst. split; [tauto|]. intros (Hne & [H|H]); [congruence|tauto].
  - split.
    + intros [H|H]; [subst; split; [congruence|auto]|tauto].
    + tauto.
Qed.

Lemma remove_id_notin x l : ~ In x l -> remove_id x l = l.
Proof.
  induction l as [|z l IH]; cbn; intros H; [reflexivity|].
  destruct (N.eqb_spec x z) as [E|E]; [subst; tauto|].
  rewrite IH; tauto.
Qed.

Lemma remove_id_split x l1 l2 : NoDup (l1 ++ x :: l2) -> remove_id x (l1 ++ x :: l2) = l1 ++ l2.
Proof.
  intros H. apply nodup_mid in H. destruct H as (H1 & H2 & _).
  induction l1 as [|z l1 IH]; cbn.
  - rewrite N.eqb_refl. apply remove_id_notin. exact H2.
  - cbn in H1. destruct (N.eqb_spec x z) as [E|E]; [subst; tauto|].
    rewrite IH; tauto.
Qed.

Lemma nodup_remove_id x l : NoDup l -> NoDup (remove_id x l).
Proof.
  induction l as [|z l IH]; cbn; intros H; [constructor|].
  apply NoDup_cons_iff in H. destruct H as (H1 & H2).
  destruct (N.eqb_spec x z) as [E|E]; auto.
  constructor; auto. rewrite in_remove_id. tauto.
Qed.

Lemma insert_before_id_split c x l1 l2 :
  ~ In c l1 -> insert_before_id c x (l1 ++ c :: l2) = l1 ++ x :: c :: l2.
Proof.
  induction l1 as [|z l1 IH]; cbn; intros H.
  - rewrite N.eqb_refl. reflexivity.
  - destruct (N.eqb_spec c z) as [E|E]; [subst; tauto|]. rewrite IH; tauto.
Qed.

Lemma insert_after_id_split c x l1 l2 :
  ~ In c l1 -> insert_after_id c x (l1 ++ c :: l2) = l1 ++ c :: x :: l2.
Proof.
  induction l1 as [|z l1 IH]; cbn; intros H.
  - rewrite N.eqb_refl. reflexivity.
  - destruct (N.eqb_spec c z) as [E|E]; [subst; tauto|]. rewrite IH; tauto.
Qed.

(* ------------------------------------------------------------------------- *)
(* Doubly linked segments                                                     *)
(* ------------------------------------------------------------------------- *)

Fixpoint dll (h : heap) (pr : oid) (l : list id) (nx : oid) : Prop :=
  match l with
  | [] => True
  | x :: l' => prv h x = pr /\ nxt h x = head_or nx l' /\ dll h (Some x) l' nx
  end.

Lemma dll_app h l1 : forall pr l2 nx,
  dll h pr (l1 ++ l2) nx <-> dll h pr l1 (head_or nx l2) /\ dll h (last_or pr l1) l2 nx.
Proof.
  induction l1 as [|x l1 IH]; intros pr l2 nx; cbn [dll app last_or].
  - tauto.
  - rewrite IH, head_or_app. tauto.
Qed.

Lemma dll_frame h h' l : forall pr nx,
  (forall y, In y l -> prv h' y = prv h y /\ nxt h' y = nxt h y) ->
  dll h pr l nx -> dll h' pr l nx.
Proof.
  induction l as [|x l IH]; intros pr nx Hf Hd; cbn in *; [exact I|].
  destruct Hd as (H1 & H2 & H3).
  destruct (Hf x (or_introl eq_refl)) as [E1 E2].
  rewrite E1, E2. repeat split; auto.
Qed.

(* change the outgoing [next] link of the segment *)
Lemma dll_set_nx h h' pr l nx nx' :
  dll h pr l nx -> NoDup l ->
  (forall y, In y l -> prv h' y = prv h y) ->
  (forall y, In y l -> last_or None l <> Some y -> nxt h' y = nxt h y) ->
  (forall a, last_or None l = Some a -> nxt h' a = nx') ->
  dll h' pr l nx'.
Proof.
  intros Hd Hnd H1 H2 H3.
  destruct (snoc_case l) as [->|(l' & a & ->)]; [exact I|].
  apply nodup_app in Hnd. destruct Hnd as (Hnd1 & _ & Hdisj).
  assert (Hla : last_or None (l' ++ [a]) = Some a) by (rewrite last_or_app; reflexivity).
  apply dll_app in Hd. apply dll_app. cbn [dll head_or] in *.
  destruct Hd as (Hd1 & Hpa & Hna & _).
  split.
  - eapply dll_frame; [|exact Hd1].
    intros y Hy. split.
    + apply H1. apply in_or_app; auto.
    + apply H2; [apply in_or_app; auto|].
      rewrite Hla. intros E. injection E as ->. apply (Hdisj y Hy). left; reflexivity.
  - rewrite H1 by (apply in_or_app; right; left; reflexivity).
    rewrite (H3 a Hla). auto.
Qed.

(* change the incoming [prev] link of the segment *)
Lemma dll_set_pr h h' pr pr' l nx :
  dll h pr l nx -> NoDup l ->
  (forall y, In y l -> nxt h' y = nxt h y) ->
  (forall y, In y l -> head_or None l <> Some y -> prv h' y = prv h y) ->
  (forall b, head_or None l = Some b -> prv h' b = pr') ->
  dll h' pr' l nx.
Proof.
  intros Hd Hnd H1 H2 H3.
  destruct l as [|b l]; [exact I|].
  cbn [dll head_or] in *. destruct Hd as (Hp & Hn & Hd).
  apply NoDup_cons_iff in Hnd. destruct Hnd as (Hb & _).
  repeat split.
  - apply H3. reflexivity.
  - rewrite H1 by (left; reflexivity). exact Hn.
  - eapply dll_frame; [|exact Hd].
    intros y Hy. split.
    + apply H2; [right; exact Hy|]. intros E. injection E as ->. contradiction.
    + apply H1. right; exact Hy.
Qed.

Lemma repr3_dll h l :
  (forall l1 x l2, l = l1 ++ x :: l2 -> prv h x = last_opt l1 /\ nxt h x = head_opt l2)
  <-> dll h None l None.
Proof.
  split.
  - intros H.
    assert (G : forall l2 l1, l = l1 ++ l2 -> dll h (last_opt l1) l2 None).
    { induction l2 as [|x l2 IH]; intros l1 E; cbn [dll]; [exact I|].
      destruct (H l1 x l2 E) as [E1 E2]. repeat split; auto.
      rewrite <- (last_opt_snoc l1 x). apply IH. rewrite <- app_assoc. exact E. }
    apply (G l []). reflexivity.
  - intros Hd l1 x l2 ->. apply dll_app in Hd. destruct Hd as [_ Hd].
    cbn [dll] in Hd. destruct Hd as (E1 & E2 & _).
    rewrite last_opt_last_or. auto.
Qed.

Lemma Repr_intro h f :
  (forall x, par h x = pa f x) ->
  (forall p, fst_ h p = head_opt (ch f p)) ->
  (forall p, lst h p = last_opt (ch f p)) ->
  (forall p, cnt h p = Z.of_nat (length (ch f p))) ->
  (forall p, dll h None (ch f p) None) ->
  (forall x, pa f x = None -> prv h x = None /\ nxt h x = None) ->
  Repr h f.
Proof.
  intros H1 H2 H3 H4 H5 H6. split; [exact H1|]. split; [|split; [|exact H6]].
  - intros p. auto.
  - intros p l1 x l2 E. apply (proj2 (repr3_dll h (ch f p)) (H5 p)). exact E.
Qed.

Lemma Repr_dll h f p : Repr h f -> dll h None (ch f p) None.
Proof.
  intros (_ & _ & H3 & _). apply repr3_dll. intros l1 x l2 E. apply (H3 p). exact E.
Qed.

(* ------------------------------------------------------------------------- *)
(* Well-formedness of the specification operations                            *)
(* ------------------------------------------------------------------------- *)

Lemma wf_in f p x : wf_forest f -> (In x (ch f p) <-> pa f x = Some p).
Proof. intros [H _]. apply H. Qed.

Lemma wf_nodup f p : wf_forest f -> NoDup (ch f p).
Proof. intros [_ H]. apply H. Qed.

Lemma wf_notin f x p : wf_forest f -> pa f x = None -> ~ In x (ch f p).
Proof. intros Hwf Hx Hin. apply (wf_in f p x Hwf) in Hin. congruence. Qed.

Lemma detach_pa f x : pa (detach f x) x = None.
Proof.
  unfold detach. destruct (pa f x) as [p|] eqn:E; cbn; [apply upd_same|exact E].
Qed.

Lemma detach_iso f x : pa f x = None -> detach f x = f.
Proof. intros E. unfold detach. rewrite E. reflexivity. Qed.

Lemma wf_detach f x : wf_forest f -> wf_forest (detach f x).
Proof.
  intros Hwf. unfold detach. destruct (pa f x) as [p|] eqn:Hpa; [|exact Hwf].
  split; cbn.
  - intros q y. unfold upd.
    destruct (N.eqb_spec q p) as [->|Hq]; destruct (N.eqb_spec y x) as [->|Hy].
    + rewrite in_remove_id. split; [tauto|discriminate].
    + rewrite in_remove_id, (wf_in f p y Hwf). tauto.
    + rewrite (wf_in f q x Hwf). split; [congruence|discriminate].
    + apply (wf_in f q y Hwf).
  - intros q. unfold upd. destruct (N.eqb_spec q p) as [->|Hq].
    + apply nodup_remove_id. apply (wf_nodup f p Hwf).
    + apply (wf_nodup f q Hwf).
Qed.

Lemma wf_insert f p x l' :
  wf_forest f -> pa f x = None -> Permutation (x :: ch f p) l' ->
  wf_forest {| pa := upd (pa f) x (Some p); ch := upd (ch f) p l' |}.
Proof.
  intros Hwf Hx Hperm. split; cbn.
  - intros q y. unfold upd.
    destruct (N.eqb_spec q p) as [->|Hq]; destruct (N.eqb_spec y x) as [->|Hy].
    + split; [reflexivity|]. intros _. apply (Permutation_in _ Hperm). left; reflexivity.
    + rewrite <- (wf_in f p y Hwf). split.
      * intros H. apply (Permutation_in _ (Permutation_sym Hperm)) in H.
        destruct H as [H|H]; [congruence|exact H].
      * intros H. apply (Permutation_in _ Hperm). right; exact H.
    + split; [|congruence]. intros H. exfalso. apply (wf_notin f x q Hwf Hx H).
    + apply (wf_in f q y Hwf).
  - intros q. unfold upd. destruct (N.eqb_spec q p) as [->|Hq].
    + apply (Permutation_NoDup Hperm). constructor.
      * apply (wf_notin f x p Hwf Hx).
      * apply (wf_nodup f p Hwf).
    + apply (wf_nodup f q Hwf).
Qed.

Lemma wf_s_remove_children f p : wf_forest f -> wf_forest (s_remove_children f p).
Proof.
  intros Hwf. split; cbn.
  - intros q y. unfold upd.
    destruct (existsb (N.eqb y) (ch f p)) eqn:E.
    + apply existsb_eqb_in in E. apply (wf_in f p y Hwf) in E.
      destruct (N.eqb_spec q p) as [->|Hq]; cbn.
      * split; [tauto|discriminate].
      * rewrite (wf_in f q y Hwf). split; [congruence|discriminate].
    + assert (Hn : ~ In y (ch f p)).
      { intros H. apply existsb_eqb_in in H. congruence. }
      destruct (N.eqb_spec q p) as [->|Hq]; cbn.
      * rewrite <- (wf_in f p y Hwf). tauto.
      * apply (wf_in f q y Hwf).
  - intros q. unfold upd. destruct (N.eqb_spec q p) as [->|Hq]; [constructor|].
    apply (wf_nodup f q Hwf).
Qed.

Lemma wf_permute f p l' :
  wf_forest f -> Permutation (ch f p) l' ->
  wf_forest {| pa := pa f; ch := upd (ch f) p l' |}.
Proof.
  intros Hwf Hperm. split; cbn.
  - intros q y. unfold upd. destruct (N.eqb_spec q p) as [->|Hq].
    + rewrite <- (wf_in f p y Hwf). split.
      * apply (Permutation_in _ (Permutation_sym Hperm)).
      * apply (Permutation_in _ Hperm).
    + apply (wf_in f q y Hwf).
  - intros q. unfold upd. destruct (N.eqb_spec q p) as [->|Hq].
    + apply (Permutation_NoDup Hperm). apply (wf_nodup f p Hwf).
    + apply (wf_nodup f q Hwf).
Qed.

(* ------------------------------------------------------------------------- *)
(* RemoveChild                                                                *)
(* ------------------------------------------------------------------------- *)

Lemma remove_child_fields h p x : par h x = Some p ->
  exists h', remove_child h p (Some x) = Ok h' /\
    par h' = upd (par h) x None /\
    fst_ h' = (match prv h x with None => upd (fst_ h) p (nxt h x) | Some _ => fst_ h end) /\
    lst h' = (match nxt h x with None => upd (lst h) p (prv h x) | Some _ => lst h end) /\
    cnt h' = upd (cnt h) p (cnt h p - 1)%Z /\
    nxt h' = upd (match prv h x with Some a => upd (nxt h) a (nxt h x) | None => nxt h end) x None /\
    prv h' = upd (match nxt h x with Some b => upd (prv h) b (prv h x) | None => prv h end) x None.
Proof.
  intros Hp. unfold remove_child. rewrite Hp, oid_eqb_refl. cbn [negb]. hsimpl.
  eexists. split; [reflexivity|].
  destruct (prv h x) as [a|]; destruct (nxt h x) as [b|]; hsimpl; repeat split; reflexivity.
Qed.

Lemma repr_remove h f p x :
  wf_forest f -> Repr h f -> pa f x = Some p ->
  exists h', remove_child h p (Some x) = Ok h' /\ Repr h' (detach f x).
Proof.
  intros Hwf HR Hpa.
  pose proof HR as (Hpar & Hflc & H3 & H4).
  assert (Hin : In x (ch f p)) by (apply (wf_in f p x Hwf); exact Hpa).
  apply in_split in Hin. destruct Hin as (l1 & l2 & Hsplit).
  destruct (H3 p l1 x l2 Hsplit) as [Hprv Hnxt].
  pose proof (wf_nodup f p Hwf) as Hnd. rewrite Hsplit in Hnd.
  pose proof (nodup_mid _ _ _ Hnd) as (Hx1 & Hx2 & Hnd1 & Hnd2 & Hdisj).
  destruct (remove_child_fields h p x) as (h' & Hrun & Fpar & Ffst & Flst & Fcnt & Fnxt & Fprv).
  { rewrite Hpar. exact Hpa. }
  exists h'. split; [exact Hrun|].
  rewrite last_opt_last_or in Hprv. change (head_opt l2) with (head_or None l2) in Hnxt.
  unfold detach. rewrite Hpa. rewrite Hsplit, remove_id_split by exact Hnd.
  pose proof (Repr_dll h f p HR) as Hd. rewrite Hsplit in Hd.
  apply dll_app in Hd. cbn [dll head_or] in Hd. destruct Hd as (Hd1 & _ & _ & Hd2).
  (* membership facts *)
  assert (Hin_ch : forall y, In y l1 \/ In y l2 -> In y (ch f p)).
  { intros y Hy. rewrite Hsplit. apply in_or_app. cbn. tauto. }
  assert (Hxin : In x (ch f p)) by (rewrite Hsplit; apply in_or_app; cbn; auto).
  (* frame: nodes outside ch f p keep their links *)
  assert (Hframe : forall y, ~ In y (ch f p) -> prv h' y = prv h y /\ nxt h' y = nxt h y).
  { intros y Hy. rewrite Fprv, Fnxt, Hprv, Hnxt. unfold upd.
    destruct (N.eqb_spec y x) as [->|Hyx]; [contradiction|].
    split.
    - destruct (head_or None l2) as [b|] eqn:Eb; [|reflexivity].
      apply head_or_none_in in Eb.
      destruct (N.eqb_spec y b) as [->|Hyb]; [|reflexivity]. exfalso. apply Hy. auto.
    - destruct (last_or None l1) as [a|] eqn:Ea; [|reflexivity].
      apply last_or_none_in in Ea.
      destruct (N.eqb_spec y a) as [->|Hya]; [|reflexivity]. exfalso. apply Hy. auto. }
  apply Repr_intro; cbn [pa ch].
  - intros y. rewrite Fpar. unfold upd. rewrite Hpar. reflexivity.
  - intros q. rewrite Ffst, Hprv.
    destruct (N.eqb_spec q p) as [->|Hq];
      [rewrite (upd_same (ch f))|rewrite (upd_other (ch f)) by exact Hq].
    + destruct l1 as [|a1 l1]; cbn [last_or].
      * rewrite upd_same. rewrite Hnxt. reflexivity.
      * destruct (last_or (Some a1) l1) as [a|] eqn:Ea.
        -- rewrite (proj1 (Hflc p)), Hsplit. reflexivity.
        -- exfalso. apply (last_or_some_ne _ _ Ea).
    + destruct (last_or None l1) as [a|]; [apply (Hflc q)|].
      rewrite upd_other by exact Hq. apply (Hflc q).
  - intros q. rewrite Flst, Hnxt.
    destruct (N.eqb_spec q p) as [->|Hq];
      [rewrite (upd_same (ch f))|rewrite (upd_other (ch f)) by exact Hq].
    + destruct l2 as [|b l2]; cbn [head_or].
      * rewrite upd_same, app_nil_r. rewrite Hprv. symmetry. apply last_opt_last_or.
      * rewrite (proj1 (proj2 (Hflc p))), Hsplit.
        rewrite !last_opt_last_or, !last_or_app. reflexivity.
    + destruct (head_or None l2) as [b|]; [apply (Hflc q)|].
      rewrite upd_other by exact Hq. apply (Hflc q).
  - intros q. rewrite Fcnt.
    destruct (N.eqb_spec q p) as [->|Hq];
      [rewrite (upd_same (ch f)), upd_same
      |rewrite (upd_other (ch f)), upd_other by exact Hq; apply (Hflc q)].
    rewrite (proj2 (proj2 (Hflc p))), Hsplit, !app_length. cbn [length]. lia.
  - intros q. destruct (N.eqb_spec q p) as [->|Hq];
      [rewrite (upd_same (ch f))|rewrite (upd_other (ch f)) by exact Hq].
    + apply dll_app. split.
      * eapply dll_set_nx; [exact Hd1|exact Hnd1|..].
        -- intros y Hy. rewrite Fprv, Hnxt. unfold upd.
           destruct (N.eqb_spec y x) as [->|Hyx]; [contradiction|].
           destruct (head_or None l2) as [b|] eqn:Eb; [|reflexivity].
           apply head_or_none_in in Eb.
           destruct (N.eqb_spec y b) as [->|Hyb]; [|reflexivity]. exfalso. eauto.
        -- intros y Hy Hlast. rewrite Fnxt, Hprv. unfold upd.
           destruct (N.eqb_spec y x) as [->|Hyx]; [contradiction|].
           destruct (last_or None l1) as [a|] eqn:Ea; [|reflexivity].
           destruct (N.eqb_spec y a) as [->|Hya]; [congruence|reflexivity].
        -- intros a Ea. rewrite Fnxt, Hprv, Ea. unfold upd.
           apply last_or_none_in in Ea.
           destruct (N.eqb_spec a x) as [->|Hax]; [contradiction|].
           rewrite N.eqb_refl. exact Hnxt.
      * eapply dll_set_pr; [exact Hd2|exact Hnd2|..].
        -- intros y Hy. rewrite Fnxt, Hprv. unfold upd.
           destruct (N.eqb_spec y x) as [->|Hyx]; [contradiction|].
           destruct (last_or None l1) as [a|] eqn:Ea; [|reflexivity].
           apply last_or_none_in in Ea.
           destruct (N.eqb_spec y a) as [->|Hya]; [|reflexivity]. exfalso. eauto.
        -- intros y Hy Hhead. rewrite Fprv, Hnxt. unfold upd.
           destruct (N.eqb_spec y x) as [->|Hyx]; [contradiction|].
           destruct (head_or None l2) as [b|] eqn:Eb; [|reflexivity].
           destruct (N.eqb_spec y b) as [->|Hyb]; [congruence|reflexivity].
        -- intros b Eb. rewrite Fprv, Hnxt, Eb. unfold upd.
           apply head_or_none_in in Eb.
           destruct (N.eqb_spec b x) as [->|Hbx]; [contradiction|].
           rewrite N.eqb_refl. exact Hprv.
    + eapply dll_frame; [|apply (Repr_dll h f q HR)].
      intros y Hy. apply Hframe. intros Hy'.
      apply (wf_in f q y Hwf) in Hy. apply (wf_in f p y Hwf) in Hy'. congruence.
  - intros y. unfold upd. destruct (N.eqb_spec y x) as [->|Hyx].
    + intros _. rewrite Fprv, Fnxt, !upd_same. auto.
    + intros Hy. destruct (Hframe y) as [E1 E2]; [apply (wf_notin f y p Hwf Hy)|].
      rewrite E1, E2. apply H4. exact Hy.
Qed.

Lemma repr_isolate h f x :
  wf_forest f -> Repr h f ->
  exists h', ensure_isolated h (Some x) = Ok h' /\ Repr h' (detach f x).
Proof.
  intros Hwf HR. unfold ensure_isolated. rewrite (proj1 HR x).
  destruct (pa f x) as [p|] eqn:Hpa.
  - apply repr_remove; auto.
  - exists h. split; [reflexivity|]. rewrite detach_iso by exact Hpa. exact HR.
Qed.

(* ------------------------------------------------------------------------- *)
(* AppendChild                                                                *)
(* ------------------------------------------------------------------------- *)

Definition append_core (h : heap) (self x : id) : result heap :=
  h <- match fst_ h self with
       | None => Ok (set_prv (set_nxt (set_fst h self (Some x)) x None) x None)
       | Some _ =>
         match lst h self with
         | None => Panic
         | Some last => Ok (set_prv (set_nxt h last (Some x)) x (Some last))
         end
       end ;;
  let h := set_par h x (Some self) in
  let h := set_lst h self (Some x) in
  Ok (set_cnt h self (cnt h self + 1)%Z).

Lemma append_child_unfold h p x :
  append_child h p (Some x) = (h1 <- ensure_isolated h (Some x) ;; append_core h1 p x).
Proof. reflexivity. Qed.

Definition s_append_raw (f : forest) (p x : id) : forest :=
  {| pa := upd (pa f) x (Some p); ch := upd (ch f) p (ch f p ++ [x]) |}.

Lemma repr_append_core h f p x :
  wf_forest f -> Repr h f -> pa f x = None ->
  exists h', append_core h p x = Ok h' /\ Repr h' (s_append_raw f p x).
Proof.
  intros Hwf HR Hpa.
  pose proof HR as (Hpar & Hflc & H3 & H4).
  destruct (H4 x Hpa) as [Hxp Hxn].
  destruct (Hflc p) as (Hfst & Hlst & Hcnt).
  pose proof (wf_nodup f p Hwf) as Hnd.
  pose proof (Repr_dll h f p HR) as Hd.
  assert (Hxl : ~ In x (ch f p)) by (apply wf_notin; auto).
  rewrite last_opt_last_or in Hlst.
  assert (F : exists h', append_core h p x = Ok h' /\
     par h' = upd (par h) x (Some p) /\ lst h' = upd (lst h) p (Some x) /\
     cnt h' = upd (cnt h) p (cnt h p + 1)%Z /\
     fst_ h' = (match ch f p with [] => upd (fst_ h) p (Some x) | _ :: _ => fst_ h end) /\
     prv h' = upd (prv h) x (last_or None (ch f p)) /\
     (forall y, nxt h' y = if oid_eqb (Some y) (last_or None (ch f p)) then Some x else nxt h y)).
  { unfold append_core. rewrite Hfst.
    destruct (ch f p) as [|z l] eqn:El; cbn [head_opt bind].
    - eexists. split; [reflexivity|]. hsimpl. do 5 (split; [reflexivity|]).
      intros y. cbn. unfold upd. destruct (N.eqb_spec y x) as [->|Hy]; auto.
    - rewrite Hlst. cbn [last_or].
      destruct (last_or (Some z) l) as [a|] eqn:Ea; [|exfalso; apply (last_or_some_ne _ _ Ea)].
      eexists. split; [reflexivity|]. hsimpl. do 5 (split; [reflexivity|]).
      intros y. cbn. unfold upd. destruct (N.eqb_spec y a) as [->|Hy]; auto. }
  destruct F as (h' & Hrun & Fpar & Flst & Fcnt & Ffst & Fprv & Fnxt).
  exists h'. split; [exact Hrun|].
  assert (Hframe : forall y, y <> x -> ~ In y (ch f p) -> prv h' y = prv h y /\ nxt h' y = nxt h y).
  { intros y Hyx Hy. rewrite Fprv, Fnxt. rewrite upd_other by exact Hyx. split; [reflexivity|].
    destruct (oid_eqb_spec (Some y) (last_or None (ch f p))) as [E|E]; [|reflexivity].
    symmetry in E. apply last_or_none_in in E. contradiction. }
  unfold s_append_raw. apply Repr_intro; cbn [pa ch].
  - intros y. rewrite Fpar. unfold upd. rewrite Hpar. reflexivity.
  - intros q. rewrite Ffst.
    destruct (N.eqb_spec q p) as [->|Hq];
      [rewrite (upd_same (ch f))|rewrite (upd_other (ch f)) by exact Hq].
    + destruct (ch f p) as [|z l]; [rewrite upd_same; reflexivity|exact Hfst].
    + destruct (ch f p) as [|z l]; [rewrite upd_other by exact Hq|]; apply (Hflc q).
  - intros q. rewrite Flst.
    destruct (N.eqb_spec q p) as [->|Hq];
      [rewrite (upd_same (ch f)), upd_same|rewrite (upd_other (ch f)), upd_other by exact Hq].
    + symmetry. apply last_opt_snoc.
    + apply (Hflc q).
  - intros q. rewrite Fcnt.
    destruct (N.eqb_spec q p) as [->|Hq];
      [rewrite (upd_same (ch f)), upd_same|rewrite (upd_other (ch f)), upd_other by exact Hq].
    + rewrite Hcnt, app_length. cbn [length]. lia.
    + apply (Hflc q).
  - intros q. destruct (N.eqb_spec q p) as [->|Hq];
      [rewrite (upd_same (ch f))|rewrite (upd_other (ch f)) by exact Hq].
    + apply dll_app. cbn [dll head_or]. split; [|repeat split].
      * eapply dll_set_nx; [exact Hd|exact Hnd|..].
        -- intros y Hy. rewrite Fprv. apply upd_other. congruence.
        -- intros y Hy Hlast. rewrite Fnxt.
           destruct (oid_eqb_spec (Some y) (last_or None (ch f p))) as [E|E]; congruence.
        -- intros a Ea. rewrite Fnxt, Ea, oid_eqb_refl. reflexivity.
      * rewrite Fprv. apply upd_same.
      * rewrite Fnxt.
        destruct (oid_eqb_spec (Some x) (last_or None (ch f p))) as [E|E]; [|exact Hxn].
        symmetry in E. apply last_or_none_in in E. contradiction.
    + eapply dll_frame; [|apply (Repr_dll h f q HR)].
      intros y Hy. apply Hframe.
      * intros ->. apply (wf_notin f x q Hwf Hpa Hy).
      * intros Hy'. apply (wf_in f q y Hwf) in Hy. apply (wf_in f p y Hwf) in Hy'. congruence.
  - intros y. unfold upd. destruct (N.eqb_spec y x) as [->|Hyx]; [discriminate|].
    intros Hy. destruct (Hframe y Hyx) as [E1 E2]; [apply (wf_notin f y p Hwf Hy)|].
    rewrite E1, E2. apply H4. exact Hy.
Qed.

Lemma wf_s_append_raw f p x :
  wf_forest f -> pa f x = None -> wf_forest (s_append_raw f p x).
Proof.
  intros Hwf Hpa. apply wf_insert; auto. apply Permutation_cons_append.
Qed.

Lemma append_refines h f p x :
  wf_forest f -> Repr h f ->
  exists h', append_child h p (Some x) = Ok h' /\ Repr h' (s_append f p x) /\ wf_forest (s_append f p x).
Proof.
  intros Hwf HR. rewrite append_child_unfold.
  destruct (repr_isolate h f x Hwf HR) as (h1 & E1 & HR1). rewrite E1. cbn [bind].
  pose proof (wf_detach f x Hwf) as Hwf1.
  destruct (repr_append_core h1 (detach f x) p x Hwf1 HR1 (detach_pa f x)) as (h2 & E2 & HR2).
  exists h2. split; [exact E2|]. split; [exact HR2|].
  apply (wf_s_append_raw (detach f x)); auto. apply detach_pa.
Qed.

(* ------------------------------------------------------------------------- *)
(* InsertBefore / InsertAfter / ReplaceChild                                  *)
(* ------------------------------------------------------------------------- *)

Definition ib_core (h : heap) (self c x : id) : heap :=
  let h := set_cnt h self (cnt h self + 1)%Z in
  let prev := prv h c in
  let h := match prev with
           | Some p => set_prv (set_nxt h p (Some x)) x (Some p)
           | None => set_prv (set_fst h self (Some x)) x None
           end in
  let h := set_nxt h x (Some c) in
  let h := set_prv h c (Some x) in
  set_par h x (Some self).

Lemma insert_before_unfold h p c x : par h c = Some p ->
  insert_before h p (Some c) (Some x) = (h1 <- ensure_isolated h (Some x) ;; Ok (ib_core h1 p c x)).
Proof. intros E. unfold insert_before. rewrite E, oid_eqb_refl. reflexivity. Qed.

Lemma insert_before_unfold_app h p c x : par h c <> Some p ->
  insert_before h p (Some c) (Some x) = append_child h p (Some x).
Proof.
  intros E. unfold insert_before.
  destruct (oid_eqb_spec (par h c) (Some p)) as [E'|E']; [contradiction|reflexivity].
Qed.

Lemma repr_ib_core h f p c x l1 l2 :
  wf_forest f -> Repr h f -> pa f x = None -> ch f p = l1 ++ c :: l2 ->
  Repr (ib_core h p c x) {| pa := upd (pa f) x (Some p); ch := upd (ch f) p (l1 ++ x :: c :: l2) |}.
Proof.
  intros Hwf HR Hpa Hsplit.
  pose proof HR as (Hpar & Hflc & H3 & H4).
  destruct (H4 x Hpa) as [Hxp Hxn].
  destruct (Hflc p) as (Hfst & Hlst & Hcnt).
  destruct (H3 p l1 c l2 Hsplit) as [Hprv Hnxt].
  rewrite last_opt_last_or in Hprv. change (head_opt l2) with (head_or None l2) in Hnxt.
  pose proof (wf_nodup f p Hwf) as Hnd. rewrite Hsplit in Hnd.
  pose proof (nodup_mid _ _ _ Hnd) as (Hc1 & Hc2 & Hnd1 & Hnd2 & Hdisj).
  pose proof (Repr_dll h f p HR) as Hd. rewrite Hsplit in Hd.
  apply dll_app in Hd. cbn [dll head_or] in Hd. destruct Hd as (Hd1 & _ & _ & Hd2).
  assert (Hxl : ~ In x (ch f p)) by (apply wf_notin; auto).
  assert (Hx1 : ~ In x l1) by (intros H; apply Hxl; rewrite Hsplit; apply in_or_app; auto).
  assert (Hx2 : ~ In x l2) by (intros H; apply Hxl; rewrite Hsplit; apply in_or_app; cbn; auto).
  assert (Hxc : x <> c) by (intros ->; apply Hxl; rewrite Hsplit; apply in_or_app; cbn; auto).
  assert (Hin_ch : forall y, In y l1 \/ In y l2 -> In y (ch f p)).
  { intros y Hy. rewrite Hsplit. apply in_or_app. cbn. tauto. }
  assert (Hcin : In c (ch f p)) by (rewrite Hsplit; apply in_or_app; cbn; auto).
  set (h' := ib_core h p c x).
  assert (F : par h' = upd (par h) x (Some p) /\ lst h' = lst h /\
     cnt h' = upd (cnt h) p (cnt h p + 1)%Z /\
     fst_ h' = (match prv h c with None => upd (fst_ h) p (Some x) | Some _ => fst_ h end) /\
     nxt h' = upd (match prv h c with Some a => upd (nxt h) a (Some x) | None => nxt h end) x (Some c) /\
     prv h' = upd (upd (prv h) x (prv h c)) c (Some x)).
  { unfold h', ib_core. hsimpl. destruct (prv h c) as [a|]; hsimpl; repeat split; reflexivity. }
  destruct F as (Fpar & Flst & Fcnt & Ffst & Fnxt & Fprv).
  assert (Hframe : forall y, y <> x -> ~ In y (ch f p) -> prv h' y = prv h y /\ nxt h' y = nxt h y).
  { intros y Hyx Hy. rewrite Fprv, Fnxt, Hprv. split.
    - rewrite !upd_other; auto. intros ->. contradiction.
    - rewrite upd_other by exact Hyx.
      destruct (last_or None l1) as [a|] eqn:Ea; [|reflexivity].
      apply last_or_none_in in Ea. apply upd_other. intros ->. apply Hy. auto. }
  apply Repr_intro; cbn [pa ch].
  - intros y. rewrite Fpar. unfold upd. rewrite Hpar. reflexivity.
  - intros q. rewrite Ffst, Hprv.
    destruct (N.eqb_spec q p) as [->|Hq];
      [rewrite (upd_same (ch f))|rewrite (upd_other (ch f)) by exact Hq].
    + destruct l1 as [|a1 l1]; cbn [last_or].
      * rewrite upd_same. reflexivity.
      * destruct (last_or (Some a1) l1) as [a|] eqn:Ea;
          [|exfalso; apply (last_or_some_ne _ _ Ea)].
        rewrite Hfst, Hsplit. reflexivity.
    + destruct (last_or None l1) as [a|]; [apply (Hflc q)|].
      rewrite upd_other by exact Hq. apply (Hflc q).
  - intros q. rewrite Flst.
    destruct (N.eqb_spec q p) as [->|Hq];
      [rewrite (upd_same (ch f))|rewrite (upd_other (ch f)) by exact Hq; apply (Hflc q)].
    rewrite Hlst, Hsplit, !last_opt_last_or, !last_or_app. reflexivity.
  - intros q. rewrite Fcnt.
    destruct (N.eqb_spec q p) as [->|Hq];
      [rewrite (upd_same (ch f)), upd_same
      |rewrite (upd_other (ch f)), upd_other by exact Hq; apply (Hflc q)].
    rewrite Hcnt, Hsplit, !app_length. cbn [length]. lia.
  - intros q. destruct (N.eqb_spec q p) as [->|Hq];
      [rewrite (upd_same (ch f))|rewrite (upd_other (ch f)) by exact Hq].
    + apply dll_app. cbn [dll head_or]. split; [|repeat split].
      * eapply dll_set_nx; [exact Hd1|exact Hnd1|..].
        -- intros y Hy. rewrite Fprv. rewrite !upd_other; auto; intros ->; contradiction.
        -- intros y Hy Hlast. rewrite Fnxt, Hprv.
           rewrite upd_other by (intros ->; contradiction).
           destruct (last_or None l1) as [a|] eqn:Ea; [|reflexivity].
           apply upd_other. congruence.
        -- intros a Ea. rewrite Fnxt, Hprv, Ea.
           apply last_or_none_in in Ea.
           rewrite upd_other by (intros ->; contradiction). apply upd_same.
      * rewrite Fprv. rewrite upd_other by exact Hxc. rewrite upd_same. exact Hprv.
      * rewrite Fnxt. apply upd_same.
      * rewrite Fprv. apply upd_same.
      * rewrite Fnxt, Hprv. rewrite upd_other by congruence.
        destruct (last_or None l1) as [a|] eqn:Ea; [|exact Hnxt].
        apply last_or_none_in in Ea. rewrite upd_other; [exact Hnxt|]. intros ->. contradiction.
      * eapply dll_frame; [|exact Hd2].
        intros y Hy. rewrite Fprv, Fnxt, Hprv. split.
        -- rewrite !upd_other; auto; intros ->; contradiction.
        -- rewrite upd_other by (intros ->; contradiction).
           destruct (last_or None l1) as [a|] eqn:Ea; [|reflexivity].
           apply last_or_none_in in Ea. apply upd_other. intros ->. eauto.
    + eapply dll_frame; [|apply (Repr_dll h f q HR)].
      intros y Hy. apply Hframe.
      * intros ->. apply (wf_notin f x q Hwf Hpa Hy).
      * intros Hy'. apply (wf_in f q y Hwf) in Hy. apply (wf_in f p y Hwf) in Hy'. congruence.
  - intros y. unfold upd. destruct (N.eqb_spec y x) as [->|Hyx]; [discriminate|].
    intros Hy. destruct (Hframe y Hyx) as [E1 E2]; [apply (wf_notin f y p Hwf Hy)|].
    rewrite E1, E2. apply H4. exact Hy.
Qed.

Lemma detach_pa_other f x y : y <> x -> pa (detach f x) y = pa f y.
Proof.
  intros H. unfold detach. destruct (pa f x) as [p|]; cbn; [apply upd_other; exact H|reflexivity].
Qed.

Lemma insert_before_refines h f p r x :
  wf_forest f -> Repr h f -> r <> Some x ->
  exists h', insert_before h p r (Some x) = Ok h' /\
    Repr h' (s_insert_before f p r x) /\ wf_forest (s_insert_before f p r x).
Proof.
  intros Hwf HR Hr. destruct r as [c|]; [|apply append_refines; auto].
  assert (Hcx : c <> x) by congruence.
  unfold s_insert_before, is_child.
  destruct (oid_eqb_spec (pa f c) (Some p)) as [E|E].
  - rewrite insert_before_unfold by (rewrite (proj1 HR c); exact E).
    destruct (repr_isolate h f x Hwf HR) as (h1 & E1 & HR1). rewrite E1. cbn [bind].
    pose proof (wf_detach f x Hwf) as Hwf1.
    pose proof (detach_pa f x) as Hpa1.
    set (f1 := detach f x) in *.
    assert (Hin : In c (ch f1 p)).
    { apply (wf_in f1 p c Hwf1). unfold f1. rewrite detach_pa_other by exact Hcx. exact E. }
    apply in_split in Hin. destruct Hin as (l1 & l2 & Hsplit).
    pose proof (wf_nodup f1 p Hwf1) as Hnd. rewrite Hsplit in Hnd.
    pose proof (nodup_mid _ _ _ Hnd) as (Hc1 & _).
    eexists. split; [reflexivity|].
    rewrite Hsplit, insert_before_id_split by exact Hc1.
    split.
    + apply repr_ib_core; auto.
    + apply wf_insert; auto. rewrite Hsplit. apply Permutation_middle.
  - rewrite insert_before_unfold_app by (rewrite (proj1 HR c); exact E).
    apply append_refines; auto.
Qed.

Lemma insert_after_refines h f p r x :
  wf_forest f -> Repr h f -> r <> Some x ->
  exists h', insert_after h p r (Some x) = Ok h' /\
    Repr h' (s_insert_after f p r x) /\ wf_forest (s_insert_after f p r x).
Proof.
  intros Hwf HR Hr. destruct r as [c|]; [|apply append_refines; auto].
  assert (Hcx : c <> x) by congruence.
  unfold s_insert_after, is_child, insert_after. rewrite (proj1 HR c).
  destruct (oid_eqb_spec (pa f c) (Some p)) as [E|E]; cbn [negb];
    [|apply append_refines; auto].
  destruct (repr_isolate h f x Hwf HR) as (h1 & E1 & HR1). rewrite E1. cbn [bind].
  pose proof (wf_detach f x Hwf) as Hwf1.
  pose proof (detach_pa f x) as Hpa1.
  set (f1 := detach f x) in *.
  assert (Hin : In c (ch f1 p)).
  { apply (wf_in f1 p c Hwf1). unfold f1. rewrite detach_pa_other by exact Hcx. exact E. }
  apply in_split in Hin. destruct Hin as (l1 & l2 & Hsplit).
  pose proof (wf_nodup f1 p Hwf1) as Hnd. rewrite Hsplit in Hnd.
  pose proof (nodup_mid _ _ _ Hnd) as (Hc1 & _).
  pose proof HR1 as (Hpar1 & Hflc1 & H31 & H41).
  destruct (H31 p l1 c l2 Hsplit) as [_ Hnxt]. rewrite Hnxt.
  assert (Heq : {| pa := upd (pa f1) x (Some p);
                   ch := upd (ch f1) p (insert_after_id c x (ch f1 p)) |}
                = s_insert_before f1 p (head_opt l2) x).
  { rewrite Hsplit, insert_after_id_split by exact Hc1.
    destruct l2 as [|d l2]; cbn [head_opt s_insert_before].
    - unfold s_append. rewrite (detach_iso f1 x Hpa1). rewrite Hsplit.
      rewrite <- app_assoc. reflexivity.
    - unfold is_child.
      assert (Hd : pa f1 d = Some p).
      { apply (wf_in f1 p d Hwf1). rewrite Hsplit. apply in_or_app. cbn. auto. }
      rewrite Hd, oid_eqb_refl. rewrite (detach_iso f1 x Hpa1). rewrite Hsplit.
      replace (l1 ++ c :: d :: l2) with ((l1 ++ [c]) ++ d :: l2) by (rewrite <- app_assoc; reflexivity).
      rewrite insert_before_id_split.
      + rewrite <- app_assoc. reflexivity.
      + pose proof (nodup_mid _ _ _ Hnd) as (_ & Hc2 & _ & _ & Hdisj).
        intros Hd'. apply in_app_or in Hd'. destruct Hd' as [Hd'|[Hd'|[]]].
        * apply (Hdisj d Hd'). left; reflexivity.
        * subst d. apply Hc2. left; reflexivity. }
  rewrite Heq. apply insert_before_refines; auto.
  destruct l2 as [|d l2]; cbn; [discriminate|].
  intros Hd. injection Hd as ->.
  apply (wf_notin f1 x p Hwf1 Hpa1). rewrite Hsplit. apply in_or_app. cbn. auto.
Qed.

Lemma remove_refines h f p x :
  wf_forest f -> Repr h f ->
  exists h', remove_child h p (Some x) = Ok h' /\
    Repr h' (s_remove f p x) /\ wf_forest (s_remove f p x).
Proof.
  intros Hwf HR. unfold s_remove.
  destruct (oid_eqb_spec (pa f x) (Some p)) as [E|E].
  - destruct (repr_remove h f p x Hwf HR E) as (h' & E1 & HR1).
    exists h'. split; [exact E1|]. split; [exact HR1|apply wf_detach; exact Hwf].
  - exists h. unfold remove_child. rewrite (proj1 HR x).
    destruct (oid_eqb_spec (pa f x) (Some p)) as [E'|E']; [contradiction|].
    cbn [negb]. auto.
Qed.

Lemma replace_refines h f p r x :
  wf_forest f -> Repr h f -> r <> Some x ->
  exists h', replace_child h p r (Some x) = Ok h' /\
    Repr h' (s_replace f p r x) /\ wf_forest (s_replace f p r x).
Proof.
  intros Hwf HR Hr. unfold replace_child, s_replace.
  destruct (insert_before_refines h f p r x Hwf HR Hr) as (h1 & E1 & HR1 & Hwf1).
  rewrite E1. cbn [bind].
  destruct r as [c|].
  - apply remove_refines; auto.
  - exists h1. auto.
Qed.

(* ------------------------------------------------------------------------- *)
(* RemoveChildren                                                             *)
(* ------------------------------------------------------------------------- *)

Fixpoint sll (h : heap) (l : list id) : Prop :=
  match l with [] => True | x :: l' => nxt h x = head_opt l' /\ sll h l' end.

Lemma dll_sll h l : forall pr, dll h pr l None -> sll h l.
Proof.
  induction l as [|x l IH]; intros pr Hd; cbn in *; [exact I|].
  destruct Hd as (_ & H2 & H3). split; [exact H2|]. eapply IH. exact H3.
Qed.

Lemma sll_frame h h' l : (forall y, In y l -> nxt h' y = nxt h y) -> sll h l -> sll h' l.
Proof.
  induction l as [|x l IH]; intros Hf Hs; cbn in *; [exact I|].
  destruct Hs as [H1 H2]. split.
  - rewrite Hf by (left; reflexivity). exact H1.
  - apply IH; auto.
Qed.

Lemma rc_loop_spec : forall R fuel h, (length R <= fuel)%nat -> NoDup R -> sll h R ->
  exists h', remove_children_loop fuel h (head_opt R) = Ok h' /\
    fst_ h' = fst_ h /\ lst h' = lst h /\ cnt h' = cnt h /\
    (forall y, par h' y = if existsb (N.eqb y) R then None else par h y) /\
    (forall y, prv h' y = if existsb (N.eqb y) R then None else prv h y) /\
    (forall y, nxt h' y = if existsb (N.eqb y) R then None else nxt h y).
Proof.
  induction R as [|x R IH]; intros fuel h Hlen Hnd Hs.
  - exists h. destruct fuel; cbn; repeat split; reflexivity.
  - destruct fuel as [|fuel]; [cbn in Hlen; lia|].
    cbn [remove_children_loop head_opt]. hsimpl.
    cbn [sll] in Hs. destruct Hs as [Hn Hs]. rewrite Hn.
    apply NoDup_cons_iff in Hnd. destruct Hnd as [Hx Hnd].
    edestruct (IH fuel) as (h' & Hrun & F1 & F2 & F3 & F4 & F5 & F6);
      [| exact Hnd | | exists h'; split; [exact Hrun|]].
    + cbn in Hlen. lia.
    + eapply sll_frame; [|exact Hs]. intros y Hy. hsimpl. apply upd_other.
      intros ->. contradiction.
    + rewrite F1, F2, F3. hsimpl. do 3 (split; [reflexivity|]).
      cbn [existsb]. split; [|split]; intros y; rewrite ?F4, ?F5, ?F6; hsimpl; unfold upd;
        destruct (N.eqb y x); destruct (existsb (N.eqb y) R); reflexivity.
Qed.

Lemma remove_children_refines fuel h f p :
  wf_forest f -> Repr h f -> (length (ch f p) <= fuel)%nat ->
  exists h', remove_children fuel h p = Ok h' /\
    Repr h' (s_remove_children f p) /\ wf_forest (s_remove_children f p).
Proof.
  intros Hwf HR Hlen.
  pose proof HR as (Hpar & Hflc & H3 & H4).
  unfold remove_children. rewrite (proj1 (Hflc p)).
  destruct (rc_loop_spec (ch f p) fuel h Hlen (wf_nodup f p Hwf))
    as (h' & Hrun & F1 & F2 & F3 & F4 & F5 & F6).
  { eapply dll_sll. apply (Repr_dll h f p HR). }
  rewrite Hrun. cbn [bind]. eexists. split; [reflexivity|].
  split; [|apply wf_s_remove_children; exact Hwf].
  assert (Hframe : forall y, ~ In y (ch f p) -> prv h' y = prv h y /\ nxt h' y = nxt h y).
  { intros y Hy. rewrite F5, F6.
    destruct (existsb (N.eqb y) (ch f p)) eqn:E; [|auto].
    apply existsb_eqb_in in E. contradiction. }
  unfold s_remove_children. apply Repr_intro; hsimpl.
  - intros y. rewrite F4, Hpar. reflexivity.
  - intros q. rewrite F1. unfold upd. destruct (N.eqb_spec q p) as [->|Hq]; [reflexivity|].
    apply (Hflc q).
  - intros q. rewrite F2. unfold upd. destruct (N.eqb_spec q p) as [->|Hq]; [reflexivity|].
    apply (Hflc q).
  - intros q. rewrite F3. unfold upd. destruct (N.eqb_spec q p) as [->|Hq]; [reflexivity|].
    apply (Hflc q).
  - intros q. destruct (N.eqb_spec q p) as [->|Hq];
      [rewrite (upd_same (ch f)); exact I|rewrite (upd_other (ch f)) by exact Hq].
    eapply dll_frame; [|apply (Repr_dll h f q HR)].
    intros y Hy. apply Hframe. intros Hy'.
    apply (wf_in f q y Hwf) in Hy. apply (wf_in f p y Hwf) in Hy'. congruence.
  - intros y. rewrite F5, F6. destruct (existsb (N.eqb y) (ch f p)) eqn:E; [auto|].
    apply H4.
Qed.

(* ------------------------------------------------------------------------- *)
(* The specification sort: permutation and sortedness                         *)
(* ------------------------------------------------------------------------- *)

Lemma s_insert_sorted_perm key x l : Permutation (x :: l) (s_insert_sorted key x l).
Proof.
  induction l as [|y l IH]; cbn [s_insert_sorted]; [apply Permutation_refl|].
  destruct (key y - key x <? 0)%Z; [|apply Permutation_refl].
  eapply Permutation_trans; [apply perm_swap|]. apply perm_skip. exact IH.
Qed.

Lemma s_sort_fold_perm key l : forall acc,
  Permutation (l ++ acc) (fold_left (fun acc x => s_insert_sorted key x acc) l acc).
Proof.
  induction l as [|x l IH]; intros acc; cbn [fold_left app]; [apply Permutation_refl|].
  eapply Permutation_trans; [|apply IH].
  eapply Permutation_trans; [apply Permutation_middle|].
  apply Permutation_app_head. apply s_insert_sorted_perm.
Qed.

Lemma s_sort_perm key l : Permutation l (s_sort key l).
Proof.
  unfold s_sort. rewrite <- (app_nil_r l) at 1. apply s_sort_fold_perm.
Qed.

Definition key_le (key : id -> Z) (a b : id) : Prop := (key a <= key b)%Z.

Lemma s_insert_sorted_sorted key x l :
  StronglySorted (key_le key) l -> StronglySorted (key_le key) (s_insert_sorted key x l).
Proof.
  induction l as [|y l IH]; intros Hs; cbn [s_insert_sorted].
  - constructor; constructor.
  - apply StronglySorted_inv in Hs. destruct Hs as [Hs Hall].
    destruct (Z.ltb_spec (key y - key x) 0) as [Hlt|Hge].
    + constructor; [apply IH; exact Hs|].
      rewrite Forall_forall in *. intros z Hz.
      apply (Permutation_in _ (Permutation_sym (s_insert_sorted_perm key x l))) in Hz.
      destruct Hz as [<-|Hz]; [unfold key_le; lia|apply Hall; exact Hz].
    + constructor; [constructor; assumption|].
      constructor; [unfold key_le; lia|].
      rewrite Forall_forall in *. intros z Hz. specialize (Hall z Hz). unfold key_le in *. lia.
Qed.

Lemma s_sort_fold_sorted key l : forall acc,
  StronglySorted (key_le key) acc ->
  StronglySorted (key_le key) (fold_left (fun acc x => s_insert_sorted key x acc) l acc).
Proof.
  induction l as [|x l IH]; intros acc Hs; cbn [fold_left]; [exact Hs|].
  apply IH. apply s_insert_sorted_sorted. exact Hs.
Qed.

(* ------------------------------------------------------------------------- *)
(* SortChildren                                                               *)
(* ------------------------------------------------------------------------- *)

Lemma sort_find_spec h key cur : forall fuel B c,
  sll h (c :: B) -> (length B < fuel)%nat -> (key c - key cur < 0)%Z ->
  exists c' B1 B2, sort_find fuel h (cmp_of_key key) c cur = Ok c' /\
    c :: B = B1 ++ c' :: B2 /\
    s_insert_sorted key cur (c :: B) = B1 ++ c' :: cur :: B2.
Proof.
  induction fuel as [|fuel IH]; intros B c Hs Hlen Hc; [lia|].
  cbn [sort_find]. cbn [sll] in Hs. destruct Hs as [Hn Hs]. rewrite Hn.
  cbn [s_insert_sorted]. destruct (Z.ltb_spec (key c - key cur) 0) as [_|Hge]; [|lia].
  destruct B as [|n B]; cbn [head_opt].
  - exists c, [], []. cbn. auto.
  - change (cmp_of_key key n cur) with (key n - key cur)%Z.
    destruct (Z.ltb_spec (key n - key cur) 0) as [Hlt|Hge].
    + destruct (IH B n Hs) as (c' & B1 & B2 & E1 & E2 & E3); [cbn in Hlen; lia|exact Hlt|].
      exists c', (c :: B1), B2. rewrite E1. split; [reflexivity|]. split.
      * cbn [app]. rewrite E2. reflexivity.
      * rewrite E3. reflexivity.
    + exists c, [], (n :: B). split; [reflexivity|]. split; [reflexivity|].
      cbn [s_insert_sorted]. destruct (Z.ltb_spec (key n - key cur) 0) as [Hlt|_]; [lia|].
      reflexivity.
Qed.

Lemma dll_cons h pr x l nx :
  dll h pr (x :: l) nx <-> prv h x = pr /\ nxt h x = head_or nx l /\ dll h (Some x) l nx.
Proof. reflexivity. Qed.

Lemma sort_loop_step key fuel h L cur :
  dll h None L None -> NoDup L -> ~ In cur L -> (length L <= S fuel)%nat ->
  exists h1, sort_loop (S fuel) h (cmp_of_key key) (head_opt L) (Some cur)
             = sort_loop fuel h1 (cmp_of_key key)
                 (head_opt (s_insert_sorted key cur L)) (nxt h cur) /\
    dll h1 None (s_insert_sorted key cur L) None /\
    par h1 = par h /\ fst_ h1 = fst_ h /\ lst h1 = lst h /\ cnt h1 = cnt h /\
    (forall y, y <> cur -> ~ In y L -> prv h1 y = prv h y /\ nxt h1 y = nxt h y).
Proof.
  intros Hd Hnd Hc Hlen. destruct L as [|s L0].
  - exists (set_prv (set_nxt h cur None) cur None). split; [reflexivity|].
    cbn [s_insert_sorted dll head_or]. hsimpl. rewrite !upd_same.
    split; [auto|]. do 4 (split; [reflexivity|]).
    intros y Hy _. rewrite !upd_other by exact Hy. auto.
  - cbn [sort_loop head_opt].
    change (cmp_of_key key s cur) with (key s - key cur)%Z.
    cbn [s_insert_sorted].
    assert (Hsc : s <> cur) by (intros ->; apply Hc; left; reflexivity).
    destruct (Z.leb_spec 0 (key s - key cur)) as [Hfront|Hback].
    + destruct (Z.ltb_spec (key s - key cur) 0) as [Hlt|_]; [lia|].
      eexists. split; [reflexivity|].
      split; [|do 4 (split; [reflexivity|])].
      * apply dll_cons. hsimpl. split; [apply upd_same|]. split; [apply upd_same|].
        eapply dll_set_pr; [exact Hd|exact Hnd|..].
        -- intros y Hy. hsimpl. apply upd_other. intros ->. contradiction.
        -- intros y Hy Hh. hsimpl. cbn [head_or] in Hh.
           rewrite !upd_other; [reflexivity|intros ->; contradiction|congruence].
        -- intros b Hb. cbn [head_or] in Hb. injection Hb as <-. hsimpl.
           rewrite upd_other by exact Hsc. apply upd_same.
      * intros y Hy HyL. hsimpl.
        assert (Hys : y <> s) by (intros ->; apply HyL; left; reflexivity).
        rewrite !upd_other by assumption. auto.
    + destruct (Z.ltb_spec (key s - key cur) 0) as [Hlt|Hge]; [|lia].
      destruct (sort_find_spec h key cur (S fuel) L0 s) as (c' & B1 & B2 & E1 & E2 & E3);
        [eapply dll_sll; exact Hd|cbn in Hlen; lia|exact Hlt|].
      rewrite E1. cbn [bind].
      cbn [s_insert_sorted] in E3.
      destruct (Z.ltb_spec (key s - key cur) 0) as [_|Hge]; [|lia].
      rewrite E3.
      replace (head_opt (B1 ++ c' :: cur :: B2)) with (Some s)
        by (destruct B1; cbn in *; congruence).
      rewrite E2 in Hd, Hnd, Hc.
      pose proof (nodup_mid _ _ _ Hnd) as (Hc1 & Hc2 & Hnd1 & Hnd2 & Hdisj).
      apply dll_app in Hd. cbn [dll head_or] in Hd. destruct Hd as (Hd1 & Hpc & Hnc & Hd2).
      assert (Hcc : c' <> cur) by (intros ->; apply Hc; apply in_or_app; cbn; auto).
      assert (Hcur1 : ~ In cur B1) by (intros H; apply Hc; apply in_or_app; auto).
      assert (Hcur2 : ~ In cur B2) by (intros H; apply Hc; apply in_or_app; cbn; auto).
      eexists. split; [reflexivity|]. hsimpl.
      rewrite (upd_other (nxt h) cur _ c') by exact Hcc. rewrite Hnc.
      set (hA := set_prv (set_nxt h cur (head_or None B2)) cur (Some c')).
      set (hB := match head_or None B2 with Some n => set_prv hA n (Some cur) | None => hA end).
      assert (Fprv : prv hB = match head_or None B2 with
                              | Some n => upd (upd (prv h) cur (Some c')) n (Some cur)
                              | None => upd (prv h) cur (Some c') end).
      { unfold hB, hA. destruct (head_or None B2); reflexivity. }
      assert (Fnxt : nxt hB = upd (nxt h) cur (head_or None B2)).
      { unfold hB, hA. destruct (head_or None B2); reflexivity. }
      assert (Fpar : par hB = par h) by (unfold hB, hA; destruct (head_or None B2); reflexivity).
      assert (Ffst : fst_ hB = fst_ h) by (unfold hB, hA; destruct (head_or None B2); reflexivity).
      assert (Flst : lst hB = lst h) by (unfold hB, hA; destruct (head_or None B2); reflexivity).
      assert (Fcnt : cnt hB = cnt h) by (unfold hB, hA; destruct (head_or None B2); reflexivity).
      clearbody hB. clear hA.
      split; [|hsimpl; do 4 (split; [assumption|])].
      * apply dll_app. cbn [dll head_or]. hsimpl. rewrite Fprv, Fnxt.
        split; [|repeat split].
        -- eapply dll_frame; [|exact Hd1]. intros y Hy. hsimpl. rewrite Fprv, Fnxt. split.
           ++ destruct (head_or None B2) as [n|] eqn:En.
              ** apply head_or_none_in in En.
                 rewrite !upd_other; [reflexivity|intros ->; contradiction|intros ->; eauto].
              ** rewrite upd_other; [reflexivity|intros ->; contradiction].
           ++ rewrite !upd_other; [reflexivity|intros ->; contradiction|intros ->; contradiction].
        -- destruct (head_or None B2) as [n|] eqn:En.
           ++ apply head_or_none_in in En.
              rewrite !upd_other; [exact Hpc|exact Hcc|intros ->; contradiction].
           ++ rewrite upd_other; [exact Hpc|exact Hcc].
        -- apply upd_same.
        -- destruct (head_or None B2) as [n|] eqn:En.
           ++ apply head_or_none_in in En.
              rewrite upd_other by (intros ->; contradiction). apply upd_same.
           ++ apply upd_same.
        -- rewrite upd_other by congruence. apply upd_same.
        -- eapply dll_set_pr; [exact Hd2|exact Hnd2|..].
           ++ intros y Hy. hsimpl. rewrite Fnxt.
              rewrite !upd_other; [reflexivity|intros ->; contradiction|intros ->; contradiction].
           ++ intros y Hy Hh. hsimpl. rewrite Fprv.
              destruct (head_or None B2) as [n|] eqn:En.
              ** rewrite !upd_other; [reflexivity|intros ->; contradiction|congruence].
              ** rewrite upd_other; [reflexivity|intros ->; contradiction].
           ++ intros b Hb. hsimpl. rewrite Fprv. rewrite Hb. apply upd_same.
      * intros y Hy HyL. rewrite Fprv, Fnxt. rewrite E2 in HyL.
        assert (Hyc : y <> c') by (intros ->; apply HyL; apply in_or_app; cbn; auto).
        split.
        -- destruct (head_or None B2) as [n|] eqn:En.
           ++ apply head_or_none_in in En.
              rewrite !upd_other; [reflexivity|assumption|].
              intros ->. apply HyL. apply in_or_app; cbn; auto.
           ++ rewrite upd_other; [reflexivity|assumption].
        -- rewrite !upd_other; [reflexivity|assumption|assumption].
Qed.

Definition ins_all (key : id -> Z) (R L : list id) : list id :=
  fold_left (fun acc x => s_insert_sorted key x acc) R L.

Lemma sort_loop_spec key : forall R L fuel h,
  dll h None L None -> sll h R -> NoDup (L ++ R) ->
  (length R <= fuel)%nat -> (length L + 2 * length R <= fuel + 2)%nat ->
  exists h', sort_loop fuel h (cmp_of_key key) (head_opt L) (head_opt R)
             = Ok (h', head_opt (ins_all key R L)) /\
    dll h' None (ins_all key R L) None /\
    par h' = par h /\ fst_ h' = fst_ h /\ lst h' = lst h /\ cnt h' = cnt h /\
    (forall y, ~ In y (L ++ R) -> prv h' y = prv h y /\ nxt h' y = nxt h y).
Proof.
  induction R as [|cur R IH]; intros L fuel h Hd Hs Hnd Hl1 Hl2.
  - exists h. cbn [ins_all fold_left head_opt].
    split; [destruct fuel; reflexivity|]. repeat split; auto.
  - destruct fuel as [|fuel]; [cbn in Hl1; lia|].
    cbn [sll] in Hs. destruct Hs as [Hn Hs].
    pose proof (nodup_mid _ _ _ Hnd) as (Hc1 & Hc2 & Hnd1 & Hnd2 & Hdisj).
    destruct (sort_loop_step key fuel h L cur Hd Hnd1 Hc1)
      as (h1 & Hstep & Hd1 & P1 & P2 & P3 & P4 & Hfr1).
    { cbn [length] in Hl2. lia. }
    cbn [head_opt]. rewrite Hstep, Hn.
    pose proof (s_insert_sorted_perm key cur L) as Hperm.
    assert (Hperm2 : Permutation (L ++ cur :: R) (s_insert_sorted key cur L ++ R)).
    { eapply Permutation_trans; [apply Permutation_sym, Permutation_middle|].
      apply (Permutation_app_tail R Hperm). }
    destruct (IH (s_insert_sorted key cur L) fuel h1 Hd1)
      as (h' & Hrun & Hd' & Q1 & Q2 & Q3 & Q4 & Hfr2).
    + eapply sll_frame; [|exact Hs]. intros y Hy. apply Hfr1.
      * intros ->. contradiction.
      * intros HyL. eauto.
    + apply (Permutation_NoDup Hperm2 Hnd).
    + cbn [length] in Hl1. lia.
    + rewrite <- (Permutation_length Hperm). cbn [length] in *. lia.
    + exists h'. split; [exact Hrun|]. split; [exact Hd'|].
      rewrite Q1, Q2, Q3, Q4. do 4 (split; [assumption|]).
      intros y Hy.
      assert (Hy2 : ~ In y (s_insert_sorted key cur L ++ R)).
      { intros H. apply Hy. apply (Permutation_in _ (Permutation_sym Hperm2) H). }
      destruct (Hfr2 y Hy2) as [E1 E2]. rewrite E1, E2. apply Hfr1.
      * intros ->. apply Hy. apply in_or_app. cbn; auto.
      * intros H. apply Hy. apply in_or_app. auto.
Qed.

Lemma last_of_chain_spec h : forall l fuel acc,
  sll h l -> (length l <= fuel)%nat -> last_of_chain fuel h (head_opt l) acc = Ok (last_or acc l).
Proof.
  induction l as [|x l IH]; intros fuel acc Hs Hlen.
  - destruct fuel; reflexivity.
  - destruct fuel as [|fuel]; [cbn in Hlen; lia|].
    cbn [sll] in Hs. destruct Hs as [Hn Hs].
    cbn [last_of_chain head_opt last_or]. rewrite Hn. apply IH; [exact Hs|cbn in Hlen; lia].
Qed.

Lemma sort_children_refines fuel h f p key :
  wf_forest f -> Repr h f ->
  (length (ch f p) <= fuel)%nat -> (2 * length (ch f p) <= fuel + 2)%nat ->
  exists h', sort_children fuel h p (cmp_of_key key) = Ok h' /\
    Repr h' (s_sort_children f p key) /\ wf_forest (s_sort_children f p key).
Proof.
  intros Hwf HR Hl1 Hl2.
  pose proof HR as (Hpar & Hflc & H3 & H4).
  destruct (Hflc p) as (Hfst & Hlst & Hcnt).
  pose proof (s_sort_perm key (ch f p)) as Hperm.
  destruct (sort_loop_spec key (ch f p) [] fuel h) as (h1 & Hrun & Hd1 & P1 & P2 & P3 & P4 & Hfr).
  { exact I. }
  { eapply dll_sll. apply (Repr_dll h f p HR). }
  { apply (wf_nodup f p Hwf). }
  { exact Hl1. }
  { cbn [length]. lia. }
  change (ins_all key (ch f p) []) with (s_sort key (ch f p)) in *.
  cbn [app] in Hfr.
  unfold sort_children. rewrite Hfst.
  cbn [head_opt] in Hrun. rewrite Hrun. cbn [bind].
  set (L := s_sort key (ch f p)) in *.
  rewrite (last_of_chain_spec _ L).
  2:{ eapply sll_frame; [|eapply dll_sll; exact Hd1]. intros y _. reflexivity. }
  2:{ rewrite <- (Permutation_length Hperm). exact Hl1. }
  cbn [bind]. eexists. split; [reflexivity|].
  split; [|apply wf_permute; [exact Hwf|exact Hperm]].
  assert (Hlast : last_or (lst h1 p) L = last_opt L).
  { rewrite last_opt_last_or. destruct L as [|z L'] eqn:EL; [|reflexivity].
    cbn [last_or]. rewrite P3, Hlst.
    apply Permutation_sym, Permutation_nil in Hperm. rewrite Hperm. reflexivity. }
  unfold s_sort_children. fold L. apply Repr_intro; hsimpl.
  - intros y. rewrite P1. apply Hpar.
  - intros q. destruct (N.eqb_spec q p) as [->|Hq];
      [rewrite (upd_same (ch f)), upd_same; reflexivity
      |rewrite (upd_other (ch f)), upd_other by exact Hq].
    rewrite P2. apply (Hflc q).
  - intros q. destruct (N.eqb_spec q p) as [->|Hq];
      [rewrite (upd_same (ch f)), upd_same; exact Hlast
      |rewrite (upd_other (ch f)), upd_other by exact Hq].
    rewrite P3. apply (Hflc q).
  - intros q. rewrite P4. destruct (N.eqb_spec q p) as [->|Hq];
      [rewrite (upd_same (ch f))|rewrite (upd_other (ch f)) by exact Hq; apply (Hflc q)].
    rewrite Hcnt, (Permutation_length Hperm). reflexivity.
  - intros q. destruct (N.eqb_spec q p) as [->|Hq];
      [rewrite (upd_same (ch f))|rewrite (upd_other (ch f)) by exact Hq].
    + eapply dll_frame; [|exact Hd1]. intros y _. split; reflexivity.
    + eapply dll_frame; [|apply (Repr_dll h f q HR)].
      intros y Hy. hsimpl. apply Hfr. intros Hy'.
      apply (wf_in f q y Hwf) in Hy. apply (wf_in f p y Hwf) in Hy'. congruence.
  - intros y Hy. destruct (Hfr y) as [E1 E2]; [apply (wf_notin f y p Hwf Hy)|].
    rewrite E1, E2. apply H4. exact Hy.
Qed.

(* ------------------------------------------------------------------------- *)
(* Main theorems                                                              *)
(* ------------------------------------------------------------------------- *)

Lemma repr_empty : Repr empty_heap empty_forest.
Proof.
  apply Repr_intro; cbn; auto.
Qed.

Lemma wf_empty : wf_forest empty_forest.
Proof.
  split; cbn.
  - intros p x. split; [tauto|discriminate].
  - intros p. constructor.
Qed.

(* one operation *)
Theorem step_refines fuel h f o :
  wf_forest f -> Repr h f -> Legal f o -> fuel_ok fuel f o ->
  exists h', step fuel h o = Ok h' /\ Repr h' (spec_step f o) /\ wf_forest (spec_step f o).
Proof.
  intros Hwf HR Hleg Hfuel.
  destruct o as [s v|s r v|s r v|s r v|s v|s|s key]; cbn [step spec_step].
  - destruct v as [x|]; [|destruct Hleg]. apply append_refines; assumption.
  - destruct v as [x|]; [|destruct Hleg]. destruct Hleg as [_ Hr].
    apply insert_before_refines; assumption.
  - destruct v as [x|]; [|destruct Hleg]. destruct Hleg as [_ Hr].
    apply insert_after_refines; assumption.
  - destruct v as [x|]; [|destruct Hleg]. destruct Hleg as [_ Hr].
    apply replace_refines; assumption.
  - destruct v as [x|]; [|destruct Hleg]. apply remove_refines; assumption.
  - cbn [fuel_ok] in Hfuel. apply remove_children_refines; try assumption. lia.
  - cbn [fuel_ok] in Hfuel. apply sort_children_refines; try assumption; lia.
Qed.

(* every operation sequence *)
Theorem run_refines fuel ops : forall h f,
  wf_forest f -> Repr h f -> LegalRun fuel f ops ->
  exists h', run fuel h ops = Ok h' /\ Repr h' (spec_run f ops) /\ wf_forest (spec_run f ops).
Proof.
  induction ops as [|o rest IH]; intros h f Hwf HR Hrun.
  - exists h. cbn. auto.
  - cbn [LegalRun] in Hrun. destruct Hrun as (Hleg & Hfuel & Hrest).
    destruct (step_refines fuel h f o Hwf HR Hleg Hfuel) as (h1 & E & HR1 & Hwf1).
    cbn [run]. rewrite E. cbn [bind].
    change (spec_run f (o :: rest)) with (spec_run (spec_step f o) rest).
    apply IH; assumption.
Qed.

(* SortChildren: the result is a permutation of the children, sorted by the key *)
Theorem s_sort_sorted_perm key l :
  Permutation l (s_sort key l) /\ StronglySorted (fun a b => (key a <= key b)%Z) (s_sort key l).
Proof.
  split; [apply s_sort_perm|].
  apply (s_sort_fold_sorted key l []). constructor.
Qed.

(* Walk on the pointer structure is Walk on the forest, for every visitor and every fuel *)
Lemma walk_helper_refines h f : Repr h f -> forall v fuel,
  (forall n tr, walk_helper fuel h v n tr = walk_spec fuel f v n tr) /\
  (forall p l1 l2 tr, ch f p = l1 ++ l2 ->
     walk_children fuel h v (head_opt l2) tr = walk_spec_list fuel f v l2 tr).
Proof.
  intros HR v. pose proof HR as (Hpar & Hflc & H3 & H4).
  induction fuel as [|fuel [IH1 IH2]]; [split; reflexivity|].
  split.
  - intros n tr. cbn [walk_helper walk_spec].
    destruct (v (length tr) n true) as [status err].
    destruct (err || (status =? 1)); [reflexivity|].
    destruct (status =? 2); [reflexivity|].
    rewrite (proj1 (Hflc n)). rewrite (IH2 n [] (ch f n)) by reflexivity. reflexivity.
  - intros p l1 l2 tr Hsplit. cbn [walk_children walk_spec_list].
    destruct l2 as [|x rest]; cbn [head_opt]; [reflexivity|].
    rewrite IH1. destruct (walk_spec fuel f v x tr) as [[[st err] tr']| |]; cbn [bind];
      [|reflexivity|reflexivity].
    destruct (err || (st =? 1)); [reflexivity|].
    destruct (H3 p l1 x rest Hsplit) as [_ Hn]. rewrite Hn.
    apply (IH2 p (l1 ++ [x]) rest). rewrite <- app_assoc. exact Hsplit.
Qed.

Theorem walk_refines h f : Repr h f -> wf_forest f -> forall fuel v n,
  walk fuel h v n =
  (r <- walk_spec fuel f v n [] ;; let '(_, err, tr) := r in Ok (err, tr)).
Proof.
  intros HR _ fuel v n. unfold walk.
  rewrite (proj1 (walk_helper_refines h f HR v fuel)). reflexivity.
Qed.
