(* C05 / C03 / C04 (block phase): every tree the block-phase model produces is well formed in the
   sense of HtmlSpec.wf_node (all line segments inside the source, heading levels 1..6, HTML
   closure lines and fence info inside the source), the lines of its inline-bearing blocks
   satisfy the block reader's hypothesis, and the reference map holds byte strings.
   For all tables, regular expressions and label normalisations. *)
Require Import GM.model.Base GM.model.Util GM.model.Reader GM.model.ReaderSpec GM.model.Blocks GM.model.ListItem
               GM.model.LeafBlocks GM.model.CodeBlock GM.model.LinkDest GM.model.Regex GM.model.HtmlWriter
               GM.model.Html GM.model.HtmlSpec GM.model.BlockParse GM.model.InlineParse.
Require Import GM.proofs.MiscProofs GM.proofs.ReaderProofs GM.proofs.BReaderProofs GM.proofs.BlockRangeProofs GM.proofs.ParseInv.
From Coq Require Import ZArith Lia.
Open Scope Z_scope.

Section S.
Variable space_table punct_table : list N.
Variable norm : bytes -> bytes.
Variable re_t1o re_t1c re_t2 re_t3 re_t4 re_t5 re_t6 re_t7 : re.
Variable allowed_tags : list bytes.
Notation PB := (parse_blocks space_table punct_table norm re_t1o re_t1c re_t2 re_t3 re_t4 re_t5 re_t6 re_t7 allowed_tags).

Theorem parse_blocks_tree_ok : forall src s t,
  bytes_ok src -> PB src = Ok s ->
  to_tree (S (length (s_h s))) src (s_h s) 0%nat = Ok t ->
  wf_node src false false t = true /\ tree_lines_ok src t = true /\ refs_ok (c_refs (s_c s)).
Proof. Admitted.

End S.
