(* C05 / C03 / C04 (block phase): every tree the block-phase model produces is well formed in the
   sense of HtmlSpec.wf_node (all line segments inside the source, heading levels 1..6, HTML
   closure lines and fence info inside the source), the lines of its inline-bearing blocks
   satisfy the block reader's hypothesis, and the reference map holds byte strings.
   For all punctuation tables, regular expressions, label normalisations and allowed tags, and for
   every white space table that classifies the blank (byte 32) as white space (hypothesis sp32:
   the virtual padding of a line consists of blanks, and the proof needs them to be white space);
   the hypothesis is discharged by computation for the table regenerated from the code in the
   corollaries at the end, which have no hypothesis besides bytes_ok.

   The proof lives in the helper files ParseBlocksRange{A..P}.v:
     A reader along successful runs; B heap of block nodes and the invariant (heapS, Jinv, Bnd,
     openS, SInv); C Open of the ten block parsers; D, F Continue; G, H, I Close (paragraph, code,
     fenced code; setext heading; list); J transformParagraph / link reference definitions;
     K to_tree; E regrouping the lists of the invariant; L closeBlocks; M, N openBlocks;
     P the loop over the opened blocks, the outer loops, the final invariant. *)
Require Import GM.model.Base GM.model.Util GM.model.UtilI GM.model.Reader GM.model.ReaderSpec GM.model.Blocks GM.model.ListItem
               GM.model.LeafBlocks GM.model.CodeBlock GM.model.LinkDest GM.model.Regex GM.model.HtmlWriter
               GM.model.Html GM.model.HtmlSpec GM.model.BlockParse GM.model.InlineParse GM.model.ParseI.
Require Import GM.gen.Tables GM.gen.Regexes.
Require Import GM.proofs.MiscProofs GM.proofs.ReaderProofs GM.proofs.BReaderProofs GM.proofs.BlockRangeProofs GM.proofs.ParseInv.
Require Import GM.proofs.ParseBlocksRangeB GM.proofs.ParseBlocksRangeK GM.proofs.ParseBlocksRangeP.
From Coq Require Import ZArith Lia.
Open Scope Z_scope.

Section S.
Variable space_table punct_table : list N.
Variable norm : bytes -> bytes.
Variable re_t1o re_t1c re_t2 re_t3 re_t4 re_t5 re_t6 re_t7 : re.
Variable allowed_tags : list bytes.
Notation PB := (parse_blocks space_table punct_table norm re_t1o re_t1c re_t2 re_t3 re_t4 re_t5 re_t6 re_t7 allowed_tags).
(* the white space table classifies the blank as white space *)
Hypothesis sp32 : is_space space_table 32%N = true.

(* The statement of the skeleton, which had no hypothesis about the white space table:

   Theorem parse_blocks_tree_ok : forall src s t,
     bytes_ok src -> PB src = Ok s ->
     to_tree (S (length (s_h s))) src (s_h s) 0%nat = Ok t ->
     wf_node src false false t = true /\ tree_lines_ok src t = true /\ refs_ok (c_refs (s_c s)).

   It is proved here under the section hypothesis sp32. *)
Theorem parse_blocks_tree_ok_sp : forall src s t,
  bytes_ok src -> PB src = Ok s ->
  to_tree (S (length (s_h s))) src (s_h s) 0%nat = Ok t ->
  wf_node src false false t = true /\ tree_lines_ok src t = true /\ refs_ok (c_refs (s_c s)).
Proof.
  intros src s t Hsrc Hpb Ht.
  destruct (parse_blocks_final space_table punct_table norm re_t1o re_t1c re_t2 re_t3 re_t4 re_t5 re_t6 re_t7 allowed_tags
              src sp32 Hsrc s Hpb) as [HhS [HJ Hr]].
  destruct (to_tree_ok space_table punct_table norm re_t1o re_t1c re_t2 re_t3 re_t4 re_t5 re_t6 re_t7 allowed_tags
              src sp32 Hsrc (s_h s) HhS HJ _ 0%nat t (or_introl eq_refl) Ht) as [Hwf Hl].
  auto.
Qed.

End S.

(* the white space table regenerated from the code classifies the blank as white space *)
Lemma space_table_blank : is_space space_table 32%N = true.
Proof. vm_compute. reflexivity. Qed.

(* the block phase with the tables and regular expressions regenerated from the code: the statement
   of the skeleton, instantiated (this is the hypothesis blocks_ok of ParseCompose.v) *)
Corollary ParseBlocks_tree_ok : forall src s t,
  bytes_ok src -> ParseBlocks src = Ok s ->
  to_tree (S (length (s_h s))) src (s_h s) 0%nat = Ok t ->
  wf_node src false false t = true /\ tree_lines_ok src t = true /\ refs_ok (c_refs (s_c s)).
Proof.
  intros src s t. unfold ParseBlocks. apply parse_blocks_tree_ok_sp. exact space_table_blank.
Qed.

Corollary ParseBlocksTree_ok : forall src t refs,
  bytes_ok src -> ParseBlocksTree src = Ok (t, refs) ->
  wf_node src false false t = true /\ tree_lines_ok src t = true /\ refs_ok refs.
Proof.
  intros src t refs Hsrc H. unfold ParseBlocksTree in H.
  destruct (ParseBlocks src) as [s| |] eqn:Es; cbn [bind] in H; try discriminate.
  destruct (to_tree (S (length (s_h s))) src (s_h s) 0%nat) as [t'| |] eqn:Et; cbn [bind] in H; try discriminate.
  injection H as <- <-. exact (ParseBlocks_tree_ok src s t' Hsrc Es Et).
Qed.
