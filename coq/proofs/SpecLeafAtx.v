(* Leaf blocks, block phase: an ATX heading "## words" opens a heading node whose one line is
   the text behind the blank, and is closed by the following empty line or the end of the source. *)
Require Import GM.model.Base GM.model.Util GM.model.Reader GM.model.ListItem GM.model.Blocks GM.model.LeafBlocks GM.model.CodeBlock
               GM.model.Regex GM.model.BlockParse.
Require Import GM.gen.Tables GM.proofs.SpecParaBytes GM.proofs.SpecParaReader GM.proofs.SpecParaBlocks GM.proofs.SpecParaBlocks2
               GM.proofs.SpecLeafBytes GM.proofs.SpecLeafStep.
From Coq Require Import List NArith ZArith Bool Lia.
Import ListNotations.
Open Scope Z_scope.

Opaque space_table punct_table.

(* ---------- the line "## text" ---------- *)
Lemma zskip_zlen_app {A} (a b : list A) : zskip (zlen a) (a ++ b) = b.
Proof. unfold zskip. apply skipn_zlen_app. Qed.
Lemma zfirst_zlen_app {A} (a b : list A) : zfirst (zlen a) (a ++ b) = a.
Proof. unfold zfirst. apply firstn_zlen_app. Qed.
Lemma zskip_0 {A} (l : list A) : zskip 0 l = l.
Proof. reflexivity. Qed.
Lemma nth_byte_mid (a : bytes) c b : nth_byte (a ++ c :: b) (zlen a) = c.
Proof.
  unfold nth_byte, zlen. rewrite Nat2Z.id. rewrite app_nth2 by lia. rewrite Nat.sub_diag. reflexivity.
Qed.

Lemma count_repeat_hash n x : count_byte 35 (repeat 35%N n ++ 32%N :: x) = Z.of_nat n.
Proof.
  induction n as [|n IH]; [reflexivity|].
  cbn [repeat app count_byte]. change (N.eqb 35 35) with true. cbv iota. rewrite IH. lia.
Qed.
Lemma count_hashes lv x : count_byte 35 (hashes lv ++ 32%N :: x) = Z.of_N lv.
Proof. unfold hashes. rewrite count_repeat_hash. lia. Qed.

Lemma trim_right_letter (x : bytes) c term : wordc c = true -> term = [10%N] \/ term = [] ->
  trim_right_space_len space_table (x ++ [c] ++ term) = zlen term.
Proof.
  intros Hc Ht. unfold trim_right_space_len. rewrite !rev_app_distr. cbn [rev app].
  destruct Ht as [-> | ->]; cbn [rev app trim_left_space_len]; rewrite ?nl_is_space, (word_not_space c Hc); reflexivity.
Qed.

Lemma back_over_letter f line i start c : nth_byte line i = c -> wordc c = true ->
  back_over_hashes (S f) line i start = i.
Proof.
  intros Hn Hc. cbn [back_over_hashes]. rewrite Hn.
  replace (N.eqb c 35) with false by (symmetry; apply N.eqb_neq; apply wordc_range in Hc; lia). reflexivity.
Qed.

Lemma trim_right_hash_letter r c : wordc c = true -> trim_right (r ++ [c]) [35%N] = r ++ [c].
Proof.
  intros Hc. unfold trim_right. rewrite rev_app_distr. cbn [rev app trim_left in_set existsb].
  replace (N.eqb c 35) with false by (symmetry; apply N.eqb_neq; apply wordc_range in Hc; lia).
  cbn [orb]. cbv iota. change (c :: rev r) with ([c] ++ rev r). rewrite rev_app_distr, rev_involutive. reflexivity.
Qed.

Lemma atx_open_line lv t term : (1 <= lv <= 6)%N -> body_okb t = true -> term = [10%N] \/ term = [] ->
  atx_open space_table (hashes lv ++ [32%N] ++ t ++ term) 0 =
  Ok (Some (Z.of_N lv, Some (Z.of_N lv + 1, Z.of_N lv + 1 + zlen t))).
Proof.
  intros Hlv Hb Ht.
  destruct (body_ok_last t Hb) as (r & c & Et & Hc).
  destruct (body_ok_head t Hb) as (c1 & r1 & Et1 & Hc1).
  pose proof (body_ok_nonempty t Hb) as Hpos.
  set (L := Z.of_N lv). assert (HL : 1 <= L <= 6) by (unfold L; lia).
  assert (HzL : zlen (hashes lv) = L) by apply zlen_hashes.
  set (line := hashes lv ++ [32%N] ++ t ++ term).
  assert (Hlen : zlen line = L + 1 + zlen t + zlen term).
  { unfold line. rewrite !zlen_app, HzL. change (zlen [32%N]) with 1. lia. }
  pose proof (zlen_nonneg term) as Hterm.
  assert (F1 : count_byte 35 (zskip 0 line) = L) by (rewrite zskip_0; unfold line; apply count_hashes).
  assert (F3 : trim_left_space_len space_table (zskip L line) = 1).
  { rewrite <- HzL. unfold line. rewrite zskip_zlen_app. rewrite Et1. cbn [app trim_left_space_len].
    rewrite blank_is_space, (word_not_space c1 Hc1). reflexivity. }
  assert (F4 : trim_right_space_len space_table line = zlen term).
  { unfold line. rewrite Et.
    replace (hashes lv ++ [32%N] ++ (r ++ [c]) ++ term) with ((hashes lv ++ [32%N] ++ r) ++ [c] ++ term)
      by (rewrite <- !app_assoc; reflexivity).
    apply trim_right_letter; assumption. }
  assert (F5 : nth_byte line (L + 1 + zlen t - 1) = c).
  { unfold line. rewrite Et.
    replace (hashes lv ++ [32%N] ++ (r ++ [c]) ++ term) with ((hashes lv ++ [32%N] ++ r) ++ c :: term)
      by (rewrite <- !app_assoc; reflexivity).
    replace (L + 1 + zlen (r ++ [c]) - 1) with (zlen (hashes lv ++ [32%N] ++ r)); [apply nth_byte_mid|].
    rewrite !zlen_app, HzL. change (zlen [32%N]) with 1. change (zlen [c]) with 1. lia. }
  assert (F6 : zfirst (zlen t) (zskip (L + 1) line) = t).
  { replace (L + 1) with (zlen (hashes lv ++ [32%N])) by (rewrite zlen_app, HzL; reflexivity).
    unfold line. rewrite app_assoc. rewrite zskip_zlen_app. apply zfirst_zlen_app. }
  unfold atx_open. fold line. change (0 <? 0) with false. cbv iota zeta.
  rewrite F1. rewrite !Z.add_0_l, !Z.sub_0_r.
  replace (L =? 0) with false by (symmetry; apply Z.eqb_neq; lia).
  replace (6 <? L) with false by (symmetry; apply Z.ltb_ge; lia). cbn [orb]. cbv iota.
  rewrite Hlen.
  replace (L =? L + 1 + zlen t + zlen term) with false by (symmetry; apply Z.eqb_neq; lia).
  rewrite F3. change (1 =? 0) with false. cbv iota.
  replace (L + 1 + zlen t + zlen term <=? L + 1) with false by (symmetry; apply Z.leb_gt; lia).
  rewrite F4.
  replace (L + 1 + zlen t + zlen term - zlen term) with (L + 1 + zlen t) by lia.
  replace (L + 1 + zlen t <=? L + 1) with false by (symmetry; apply Z.leb_gt; lia).
  assert (Hline : exists fl, length line = S fl).
  { destruct line as [|x xs] eqn:E; [rewrite zlen_nil in Hlen; lia|]. eexists. reflexivity. }
  destruct Hline as [fl Hfl]. rewrite Hfl.
  rewrite (back_over_letter fl line (L + 1 + zlen t - 1) (L + 1) c F5 Hc).
  replace (L + 1 + zlen t - 1 <? 0) with false by (symmetry; apply Z.ltb_ge; lia).
  rewrite Z.eqb_refl. cbn [negb andb]. cbv iota.
  replace (L + 1 + zlen t - 1 + 1) with (L + 1 + zlen t) by lia.
  replace (L + 1 + zlen t <? 0) with false by (symmetry; apply Z.ltb_ge; lia).
  replace (L + 1 + zlen t - (L + 1)) with (zlen t) by lia.
  rewrite F6. rewrite Et at 1. rewrite (trim_right_hash_letter r c Hc).
  replace (Nat.eqb (length (r ++ [c])) 0) with false.
  2:{ symmetry. apply Nat.eqb_neq. rewrite app_length. cbn [length]. lia. }
  reflexivity.
Qed.

Lemma no_nl_app a b : no_nl a -> no_nl b -> no_nl (a ++ b).
Proof. unfold no_nl. intros Ha Hb. rewrite forallb_app, Ha, Hb. reflexivity. Qed.
Lemma no_nl_hashes lv : no_nl (hashes lv).
Proof. unfold no_nl, hashes. induction (N.to_nat lv) as [|n IH]; [reflexivity|]. cbn [repeat forallb]. rewrite IH. reflexivity. Qed.

Section Driver.
Variable norm : bytes -> bytes.
Variables re_t1o re_t1c re_t2 re_t3 re_t4 re_t5 re_t6 re_t7 : re.
Variable allowed_tags : list bytes.
Notation TRY := (try_parsers space_table punct_table norm re_t1o re_t2 re_t3 re_t4 re_t5 re_t6 re_t7 allowed_tags).
Notation STEP := (block_step norm re_t1o re_t1c re_t2 re_t3 re_t4 re_t5 re_t6 re_t7 allowed_tags).

(* the ATX heading parser opens *)
Lemma atx_open_s_line h c src pre lv t term rest k a b :
  c_boff c = 0 -> at_line src pre (hashes lv ++ [32%N] ++ t ++ term) rest a b ->
  (1 <= lv <= 6)%N -> body_okb t = true -> term = [10%N] \/ term = [] ->
  atx_open_s space_table (mkst h c (rd src k a b a (SomeB (hashes lv ++ [32%N] ++ t ++ term)) 0)) =
  Ok (mkst (h ++ [set_lines (mknode BHeading (Z.of_N lv)) [mkseg (a + Z.of_N lv + 1) (a + Z.of_N lv + 1 + zlen t)]]) c
           (rd src k a b a (SomeB (hashes lv ++ [32%N] ++ t ++ term)) 0), Some (length h, false, false)).
Proof.
  intros Hc Hat Hlv Hb Ht.
  assert (Hne : hashes lv ++ [32%N] ++ t ++ term <> []).
  { intros E. apply (f_equal (@length N)) in E. rewrite !app_length in E. cbn [length] in E. lia. }
  pose proof (at_line_in_range _ _ _ _ _ _ Hat Hne) as Hr.
  unfold atx_open_s. rewrite peek_s_cached by lia. cbn [bind line_of s_c]. rewrite Hc.
  rewrite (atx_open_line lv t term Hlv Hb Ht). cbn [bind].
  unfold lseg. cbn [s_start s_pad]. unfold new_node, halloc, st_h. cbn [s_h s_c s_r].
  replace (a + (Z.of_N lv + 1) - 0) with (a + Z.of_N lv + 1) by lia.
  replace (a + (Z.of_N lv + 1 + zlen t) - 0) with (a + Z.of_N lv + 1 + zlen t) by lia. reflexivity.
Qed.

Lemma atx_block_step lv t : lblock_ok (LAtx lv t) = true -> STEP (LAtx lv t).
Proof.
  cbn [lblock_ok]. intros Hok. apply andb_true_iff in Hok. destruct Hok as [Hok Hb]. apply andb_true_iff in Hok.
  destruct Hok as [H1 H6]. apply N.leb_le in H1. apply N.leb_le in H6.
  intros f eb term suf next cs cl arr pre k stats src Hpt Ht Hsrc Hnext.
  cbn [lblock_src] in *.
  assert (Hh : exists rl, hashes lv ++ [32%N] ++ t = 35%N :: rl).
  { unfold hashes. destruct (N.to_nat lv) as [|n] eqn:E; [lia|]. cbn [repeat app]. eexists. reflexivity. }
  destruct Hh as [rl Hrl].
  assert (Hnl : no_nl (hashes lv ++ [32%N] ++ t)).
  { apply no_nl_app; [apply no_nl_hashes|]. apply no_nl_app; [reflexivity|]. apply text_no_nl. apply body_ok_text. exact Hb. }
  assert (Hsrc' : src = pre ++ (hashes lv ++ [32%N] ++ t) ++ term ++ suf) by (rewrite Hsrc, <- !app_assoc; reflexivity).
  destruct (oneline_step norm re_t1o re_t1c re_t2 re_t3 re_t4 re_t5 re_t6 re_t7 allowed_tags
              PATX (hashes lv ++ [32%N] ++ t) (node_of (zlen pre) (LAtx lv t)) (S f) eb term suf next cs cl arr pre k stats src 35%N rl)
    as (stats' & sfin & bl & Hrun & Hheap & Hcx & Hrd); try assumption.
  - left. reflexivity.
  - reflexivity.
  - intros blank. exists (zlen pre), (SomeB ((hashes lv ++ [32%N] ++ t) ++ term)), 0.
    change (candidates 35) with [PATX; PCodeBlock; PParagraph].
    rewrite ctx_ctxG.
    rewrite (try_opened norm re_t1o re_t2 re_t3 re_t4 re_t5 re_t6 re_t7 allowed_tags PATX [PCodeBlock; PParagraph] cs cl arr 0 0 None
               (set_lines (mknode BHeading (Z.of_N lv)) [mkseg (zlen pre + Z.of_N lv + 1) (zlen pre + Z.of_N lv + 1 + zlen t)])
               (rd src k (zlen pre) (zlen pre + zlen ((hashes lv ++ [32%N] ++ t) ++ term)) (zlen pre) (SomeB ((hashes lv ++ [32%N] ++ t) ++ term)) 0) blank).
    + reflexivity.
    + reflexivity.
    + cbn [p_open]. rewrite <- !app_assoc.
      rewrite (atx_open_s_line _ _ src pre lv t term suf k); try assumption.
      * reflexivity.
      * reflexivity.
      * split; [|split; reflexivity]. rewrite Hsrc'. rewrite <- !app_assoc. reflexivity.
      * lia.
      * apply (term_ok_cases _ _ Ht).
  - intros blank. split; reflexivity.
  - exists stats', sfin, bl. split; [exact Hrun|]. split; [exact Hheap|]. split; [rewrite Hcx; reflexivity|].
    intros Heb. eexists _, _, _. split; [exact Hcx|]. split; [|split; [|exact (Hrd Heb)]].
    + subst eb. destruct (ptail_nil_inv _ _ _ Hpt) as [(Hf & _)|(_ & ->)]; [discriminate|].
      rewrite Hsrc'. rewrite (term_ok_nonempty term _ Ht) by discriminate. rewrite <- !app_assoc. reflexivity.
    + subst eb. destruct (ptail_nil_inv _ _ _ Hpt) as [(Hf & _)|(_ & Hs)]; [discriminate|]. subst suf.
      rewrite (term_ok_nonempty term _ Ht) by discriminate. rewrite !zlen_app. change (zlen [10%N]) with 1. lia.
Qed.
End Driver.
