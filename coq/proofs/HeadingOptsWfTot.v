(* Totality of the block phase of the parser model with the heading options (model/HeadingOpts.v, model/HeadingOptsI.v):
   parse_blocksH never returns Panic / OutOfFuel and the heap it leaves converts with to_treeH, for every option
   set hc.  The analogue of ParseBlocksTotal.v.  Hypotheses: TblOK of the white space table (discharged for the
   generated table by computation, ParseBlocksTotal.space_table_ok) and AttrTotal (ParseAttributes on the source
   reader is total; proved in HeadingOptsWfAttr.v, here a hypothesis).
   The proof lives in the helper files HeadingOptsWfTot*.v:
     Shape (LineInv; LastOK with three more conjuncts), OpsCG/OpsC/Close (the H closes, closeBlocks),
     OpsO/OpenA/OpenB (the H opens, openBlocks), EachA/Each (the loop over the opened blocks, under the interface
     statements open_blocksH_spec / close_blocksH_spec), Drive (outer loops, to_treeH),
   and, unforked, the per-parser files of the core proof ParseBlocksTotal{Reader,Defs,Spec,St,Lrd,Transform,Leaf,
   Leaf2,Cont*,Pair}.v. *)
Require Import GM.model.Base GM.model.Util GM.model.UtilI GM.model.Reader GM.model.ReaderSpec GM.model.Blocks GM.model.ListItem
               GM.model.LeafBlocks GM.model.CodeBlock GM.model.LinkDest GM.model.Regex GM.model.HtmlWriter
               GM.model.Html GM.model.HtmlSpec GM.model.BlockParse GM.model.InlineParse GM.model.ParseI
               GM.model.Attr GM.model.Ids GM.model.HeadingOpts GM.model.HeadingOptsI.
Require Import GM.gen.Tables GM.gen.Regexes.
Require Import GM.proofs.MiscProofs GM.proofs.ReaderProofs GM.proofs.BReaderProofs GM.proofs.BlockRangeProofs GM.proofs.ParseInv.
Require Import GM.proofs.ParseBlocksTotalSpec GM.proofs.HeadingOptsWfAttr GM.proofs.HeadingOptsWfTotShape.
Require GM.proofs.ParseBlocksTotal GM.proofs.HeadingOptsWfTotClose GM.proofs.HeadingOptsWfTotOpenB.
Require Import GM.proofs.HeadingOptsWfTotEachA GM.proofs.HeadingOptsWfTotDrive.
From Coq Require Import ZArith Lia List.
Import ListNotations.
Open Scope Z_scope.

Section S.
Variable hc : hcfg.
Variable space_table punct_table : list N.
Variable norm : bytes -> bytes.
Variable re_t1o re_t1c re_t2 re_t3 re_t4 re_t5 re_t6 re_t7 : re.
Variable allowed_tags : list bytes.
Variable utf8len_table : list N.
Variable spaces : bytes.
Notation PBH := (parse_blocksH hc space_table punct_table norm re_t1o re_t1c re_t2 re_t3 re_t4 re_t5 re_t6 re_t7 allowed_tags
                               utf8len_table spaces).
(* the white space table marks exactly tab, newline, carriage return and blank *)
Hypothesis tbl : TblOK space_table.
(* ParseAttributes is total on readers that satisfy the reader invariant *)
Hypothesis attr_total : AttrTotal space_table punct_table.

(* the interface statements of HeadingOptsWfTotEachA.v hold *)
Lemma close_blocksH_spec_ok src : close_blocksH_spec hc space_table punct_table norm utf8len_table spaces src.
Proof using All.
  intros x from to.
  exact (HeadingOptsWfTotClose.close_blocksH_ok hc space_table punct_table norm re_t1o re_t1c re_t2 re_t3 re_t4 re_t5 re_t6 re_t7
           allowed_tags utf8len_table spaces src tbl attr_total x from to).
Qed.

Lemma open_blocksH_spec_ok src :
  open_blocksH_spec hc space_table punct_table norm re_t1o re_t1c re_t2 re_t3 re_t4 re_t5 re_t6 re_t7 allowed_tags
                    utf8len_table spaces src.
Proof using All.
  intros fuel parent pn blank x.
  exact (HeadingOptsWfTotOpenB.open_blocksH_ok_fix hc space_table punct_table norm re_t1o re_t1c re_t2 re_t3 re_t4 re_t5 re_t6 re_t7
           allowed_tags utf8len_table spaces src tbl attr_total fuel parent pn blank x).
Qed.

Theorem parse_blocksH_total : forall src, bytes_ok src ->
  exists x t, PBH src = Ok x /\ to_treeH (S (length (s_h (hx_s x)))) src (s_h (hx_s x)) (hx_attrs x) 0%nat = Ok t.
Proof using All.
  intros src _.
  exact (parse_blocksH_tree_ok hc space_table punct_table norm re_t1o re_t1c re_t2 re_t3 re_t4 re_t5 re_t6 re_t7 allowed_tags
           utf8len_table spaces src tbl (open_blocksH_spec_ok src) (close_blocksH_spec_ok src)).
Qed.

End S.

Corollary ParseBlocksTreeH_total : forall hc src, AttrTotal space_table punct_table -> bytes_ok src ->
  exists r, ParseBlocksTreeH hc src = Ok r.
Proof.
  intros hc src Hat Hb. unfold ParseBlocksTreeH, ParseBlocksH.
  destruct (parse_blocksH_total hc space_table punct_table ToLinkReference
              re_htmlBlockType1Open re_htmlBlockType1Close re_htmlBlockType2Open re_htmlBlockType3Open
              re_htmlBlockType4Open re_htmlBlockType5Open re_htmlBlockType6 re_htmlBlockType7 allowed_block_tags
              utf8len_table spaces ParseBlocksTotal.space_table_ok Hat src Hb) as [x [t [E1 E2]]].
  rewrite E1. cbn [bind]. rewrite E2. cbn [bind]. eexists. reflexivity.
Qed.
