(* Helper library for TypoDefWfBlk.v, part E: regrouping the three lists of the invariant. *)
Require Import GM.model.Base GM.model.Util GM.model.Reader GM.model.ReaderSpec GM.model.Blocks GM.model.ListItem
               GM.model.LeafBlocks GM.model.CodeBlock GM.model.LinkDest GM.model.Regex GM.model.HtmlWriter
               GM.model.Html GM.model.HtmlSpec GM.model.BlockParse GM.model.InlineParse GM.model.TypoDefParseD.
Require Import GM.proofs.ReaderProofs GM.proofs.BlockRangeProofs GM.proofs.ParseInv
               GM.proofs.ParseBlocksRangeA GM.proofs.TypoDefWfBlkB GM.proofs.TypoDefWfBlkT GM.proofs.TypoDefWfBlkC
               GM.proofs.TypoDefWfBlkD.
From Coq Require Import ZArith Lia Sorted.
Open Scope Z_scope.

Section E.
Variable space_table punct_table : list N.
Variable norm : bytes -> bytes.
Variable re_t1o re_t1c re_t2 re_t3 re_t4 re_t5 re_t6 re_t7 : re.
Variable allowed_tags : list bytes.
Variable src : bytes.
Hypothesis sp32 : is_space space_table 32%N = true.
Set Default Proof Using "All".

(* lemmas of parts C and D take all the section variables: CC supplies them *)
Notation CC f := (f space_table punct_table norm re_t1o re_t1c re_t2 re_t3 re_t4 re_t5 re_t6 re_t7 allowed_tags src sp32) (only parsing).
Notation SInv := (SInv space_table src).
Notation HI := (HI space_table src).
Notation nodeP := (nodeP space_table src).
Notation heapS := (heapS space_table src).
Notation Jinv := (Jinv src).
Notation openS := (openS src).
Notation pline := (pline space_table src).
Notation oline := (oline src).
Notation fin_lines := (fin_lines src).
Notation fin := (fin src).
Notation cont_post := (cont_post space_table src).
Notation item_guard := (item_guard space_table).
Notation verdict := (verdict space_table).

(* ---------- list bookkeeping ---------- *)
Lemma in_ids_drop (A D N : list (nat * bparser)) e c : In c (ids (A ++ (D ++ [e]) ++ N)) -> c = fst e \/ In c (ids (A ++ D ++ N)).
Proof.
  rewrite !ids_app. cbn [ids map]. rewrite !in_app_iff. cbn [In]. intuition auto.
Qed.

Lemma flat3 {X} (A D : list X) : (A ++ D) ++ [] ++ [] = A ++ D ++ [].
Proof. rewrite <- app_assoc. reflexivity. Qed.
Lemma flat3n {X} (A N : list X) : (A ++ N) ++ [] ++ [] = A ++ [] ++ N.
Proof. cbn [app]. rewrite app_nil_r. reflexivity. Qed.

Lemma Adj_last_cons l m q x : Adj (last l 0%nat :: m) q x -> Adj (0%nat :: l ++ m) q x.
Proof.
  intros H. destruct (CC exists_last_or_nil l) as [->|[l' [z ->]]].
  - exact H.
  - rewrite last_app_single in H. rewrite <- app_assoc. cbn [app]. rewrite app_comm_cons. apply Adj_app_r. exact H.
Qed.

(* ---------- dropping the last of the blocks being closed ---------- *)
Lemma SInv_drop fl s A D N x bp : SInv fl s A (D ++ [(x, bp)]) N ->
  (forall n, nth_error (s_h s) x = Some n -> bpar n <> None -> fin n) -> SInv fl s A D N.
Proof.
  intros [HR [H1 H2 H3 H4 H5]] Hfin. split; [exact HR|]. constructor; auto.
  - intros c nc Ec Pc. destruct (H3 c nc Ec Pc) as [F|Hin]; [left; exact F|].
    apply in_ids_drop in Hin. cbn [fst] in Hin. destruct Hin as [->|Hin]; [left; eapply Hfin; eassumption|right; exact Hin].
  - eapply openS_dropD. exact H4.
Qed.

(* ---------- splitting the continued blocks from those to be closed ---------- *)
Lemma nodup_app_l {X} (a b : list X) : NoDup (a ++ b) -> NoDup a.
Proof. induction a as [|x t IH]; intros H; [constructor|]. inversion H as [|? ? Hx Ht]; subst. constructor; [|auto]. intros Hi. apply Hx. apply in_or_app. left. exact Hi. Qed.

Lemma openS_split h c A D : openS h c (A ++ D) [] [] -> openS h c A D [].
Proof.
  intros [Hp Ha HnD HnN Hdu Hs Hc Hl Ht Hf Hdt Hpe].
  rewrite flat3 in Hp, Ha, Ht, Hdt, Hpe. rewrite app_nil_r in Hs, HnD.
  constructor; auto.
  - rewrite app_nil_r. rewrite ids_app in HnD. eapply nodup_app_l. exact HnD.
  - intros q x Hq. apply Hs. rewrite ids_app. rewrite app_nil_r in Hq. rewrite app_comm_cons. apply Adj_app_l. exact Hq.
  - left. intros q x Hq. apply spineL_chainL in Hs. apply Hs. rewrite ids_app. apply Adj_last_cons. exact Hq.
  - intros _. destruct D as [|d D']; [exact I|]. apply Hs. rewrite ids_app. apply Adj_last_cons.
    exists [], (ids D'). reflexivity.
Qed.

Lemma openS_join h c A D : openS h c A D [] -> spineL h (0%nat :: ids (A ++ D)) -> openS h c (A ++ D) [] [].
Proof.
  intros [Hp Ha HnD HnN Hdu Hs Hc Hl Ht Hf Hdt Hpe] Hsp. constructor; rewrite ?flat3; auto; rewrite ?app_nil_r; auto;
    try (intros x H1 H2; exact (False_ind _ H2)); try (left; intros q x Hq; exfalso; eapply Adj_single; exact Hq).
  all: try (intros x bp n Hin E Hdl Hsg; destruct (Hpe x bp n Hin E Hdl Hsg) as [HN _]; congruence).
Qed.

(* the last of the new blocks is no list whose b_seg is set *)
Definition npend (h : heap) (N : list (nat * bparser)) : Prop :=
  forall n, nth_error h (lastid (ids N)) = Some n -> is_dl n = true -> b_seg n = None.

Lemma openS_merge h c A N : openS h c A [] N -> npend h N -> openS h c (A ++ N) [] [].
Proof.
  intros [Hp Ha HnD HnN Hdu Hs Hc Hl Ht Hf Hdt Hpe] Hnp. constructor; rewrite ?flat3n; auto; rewrite ?app_nil_r; auto;
    try (intros x H1 H2; exact (False_ind _ H2)); try (left; intros q x Hq; exfalso; eapply Adj_single; exact Hq).
  intros x bp n Hin E Hdl Hsg. exfalso. destruct (Hpe x bp n Hin E Hdl Hsg) as [_ ->]. apply Hsg. apply Hnp; assumption.
Qed.

Lemma HI_regroup b h c A D N A' D' N' : HI b h c A D N -> (openS h c A D N -> openS h c A' D' N') ->
  (forall x, In x (ids (A ++ D ++ N)) -> In x (ids (A' ++ D' ++ N'))) -> HI b h c A' D' N'.
Proof.
  intros [H1 H2 H3 H4 H5] Ho Hi. constructor; auto. eapply Jinv_mono; [exact H3|]. intros x. apply Hi.
Qed.

Lemma SInv_split fl s A D : SInv fl s (A ++ D) [] [] -> SInv fl s A D [].
Proof.
  intros [HR HH]. split; [exact HR|]. eapply HI_regroup; [exact HH|apply openS_split|].
  intros x. rewrite flat3. auto.
Qed.
Lemma SInv_join fl s A D : SInv fl s A D [] -> spineL (s_h s) (0%nat :: ids (A ++ D)) -> SInv fl s (A ++ D) [] [].
Proof.
  intros [HR HH] Hsp. split; [exact HR|]. eapply HI_regroup; [exact HH|intros Ho; apply openS_join; assumption|].
  intros x. rewrite flat3. auto.
Qed.
Lemma SInv_merge fl s A N : SInv fl s A [] N -> npend (s_h s) N -> SInv fl s (A ++ N) [] [].
Proof.
  intros [HR HH] Hnp. split; [exact HR|]. eapply HI_regroup; [exact HH|intros Ho; apply openS_merge; assumption|].
  intros x. rewrite flat3n. auto.
Qed.

Lemma SInv_spine fl s E : SInv fl s E [] [] -> spineL (s_h s) (0%nat :: ids E).
Proof. intros [_ HH]. pose proof (os_spine _ _ _ _ _ _ (hi_open _ _ _ _ _ _ _ _ HH)) as H. rewrite app_nil_r in H. exact H. Qed.

(* ---------- the invariant of the drivers ---------- *)
(* at most one setext heading is open *)
Definition uniqS (E : list (nat * bparser)) : Prop := forall x y, In (x, PSetext) E -> In (y, PSetext) E -> x = y.
Definition OInv (fl : flavor) (s : st) (A D N : list (nat * bparser)) : Prop :=
  SInv fl s A D N /\ Oeq (s_c s) (A ++ D ++ N) /\ uniqS (A ++ D ++ N).

Lemma uniqS_incl E E' : uniqS E -> incl E' E -> uniqS E'.
Proof. intros H Hi x y Hx Hy. apply H; apply Hi; assumption. Qed.

Lemma OInv_FW s A D N : OInv FF s A D N -> OInv WW s A D N.
Proof. intros [H1 H2]. split; [apply (CC SInv_FW); exact H1|exact H2]. Qed.

Lemma OInv_split fl s A D : OInv fl s (A ++ D) [] [] -> OInv fl s A D [].
Proof. unfold OInv. intros [H1 [H2 H3]]. rewrite flat3 in *. split; [apply SInv_split; exact H1|split; assumption]. Qed.
Lemma OInv_join fl s A D : OInv fl s A D [] -> spineL (s_h s) (0%nat :: ids (A ++ D)) -> OInv fl s (A ++ D) [] [].
Proof. unfold OInv. intros [H1 [H2 H3]] Hsp. rewrite flat3. split; [apply SInv_join; assumption|split; assumption]. Qed.
Lemma OInv_merge fl s A N : OInv fl s A [] N -> npend (s_h s) N -> OInv fl s (A ++ N) [] [].
Proof. unfold OInv. intros [H1 [H2 H3]] Hnp. rewrite flat3n in *. split; [apply SInv_merge; assumption|split; assumption]. Qed.

(* an opened node exists in the heap, has the kind of its parser, and its id is below the heap length *)
Lemma SInv_entry fl s A D N x bp : SInv fl s A D N -> In (x, bp) (A ++ D ++ N) ->
  exists n, nth_error (s_h s) x = Some n /\ bk n = pkind bp /\ (x < length (s_h s))%nat.
Proof.
  intros [_ HH] Hin. destruct (os_pair _ _ _ _ _ _ (hi_open _ _ _ _ _ _ _ _ HH) x bp Hin) as [n [E K]].
  exists n. csplit; auto. eapply nth_some_lt; eassumption.
Qed.

Lemma pkind_para bp : pkind bp = BParagraph -> bp = PParagraph.
Proof. destruct bp; cbn; congruence. Qed.

End E.
