(* Block quotes around plain paragraphs: the lines of a quoted document spell its source, and the
   abstract machine of SpecQuoteMachine run on them builds the heap of SpecQuoteShape (pure list
   reasoning, no parser model involved). *)
Require Import GM.model.Base GM.model.Util GM.model.Reader GM.model.SpecDoc GM.model.BlockParse.
Require Import GM.proofs.SpecParaBytes GM.proofs.SpecParaBlocks GM.proofs.SpecParaSpec
               GM.proofs.SpecQuoteShape GM.proofs.SpecQuoteLen GM.proofs.SpecQuoteMachine.
From Coq Require Import List NArith ZArith Bool Lia.
Import ListNotations.
Open Scope Z_scope.

(* ---------- the lines ---------- *)
Lemma chain_app sg st : chain (sg ++ [st]) = chain sg ++ mk st.
Proof.
  induction sg as [|s r IH]; [cbn [app chain]; rewrite app_nil_r; reflexivity|].
  cbn [app chain]. rewrite IH, app_assoc. reflexivity.
Qed.
Lemma zlen_chain_app sg st : zlen (chain (sg ++ [st])) = zlen (chain sg) + zlen (mk st).
Proof. rewrite chain_app, zlen_app. reflexivity. Qed.
Lemma zlen_sep_some sg : zlen (lbytes (LSep (Some sg))) = zlen (chain sg) + 1.
Proof. cbn [lbytes]. rewrite zlen_app. reflexivity. Qed.

(* the first line of a block is a text line with at least the markers of the enclosing quotes *)
Lemma qb_qbs_lines_head :
  (forall b sg, qb_ok b = true -> exists ms body rest,
     qb_lines sg b = LTxt ms body :: rest /\ (length sg <= length ms)%nat) /\
  (forall bs sg sepl, qbs_ok bs = true -> exists ms body rest,
     qbs_lines sg sepl bs = LTxt ms body :: rest /\ (length sg <= length ms)%nat).
Proof.
  apply qb_qbs_ind.
  - intros p sg Hok. cbn [qb_ok] in Hok. destruct (para_ok_inv p Hok) as (b & r & -> & _ & _).
    exists sg, b, (map (LTxt sg) r). split; [reflexivity|lia].
  - intros st bs IH sg Hok. cbn [qb_ok] in Hok. cbn [qb_lines].
    destruct (IH (sg ++ [st]) (LSep (Some sg)) Hok) as (ms & body & rest & E & Hl).
    exists ms, body, rest. split; [exact E|]. rewrite app_length in Hl. cbn [length] in Hl. lia.
  - intros b IH sg sepl Hok. cbn [qbs_ok] in Hok. cbn [qbs_lines]. apply IH. exact Hok.
  - intros b IHb r _ sg sepl Hok. cbn [qbs_ok] in Hok. apply andb_true_iff in Hok. destruct Hok as [Hb _].
    cbn [qbs_lines]. destruct (IHb sg Hb) as (ms & body & rest & E & Hl).
    exists ms, body, (rest ++ sepl :: qbs_lines sg sepl r). split; [rewrite E; reflexivity|exact Hl].
Qed.
Lemma qb_lines_head : forall b sg, qb_ok b = true -> exists ms body rest,
  qb_lines sg b = LTxt ms body :: rest /\ (length sg <= length ms)%nat.
Proof. exact (proj1 qb_qbs_lines_head). Qed.
Lemma qbs_lines_head : forall bs sg sepl, qbs_ok bs = true -> exists ms body rest,
  qbs_lines sg sepl bs = LTxt ms body :: rest /\ (length sg <= length ms)%nat.
Proof. exact (proj2 qb_qbs_lines_head). Qed.

(* no empty line inside a block *)
Lemma qb_qbs_lines_inner :
  (forall b sg, Forall inner (qb_lines sg b)) /\
  (forall bs sg sepl, inner sepl -> Forall inner (qbs_lines sg sepl bs)).
Proof.
  apply qb_qbs_ind.
  - intros p sg. cbn [qb_lines]. apply Forall_forall. intros l Hin. apply in_map_iff in Hin.
    destruct Hin as (x & <- & _). unfold inner. discriminate.
  - intros st bs IH sg. cbn [qb_lines]. apply IH. unfold inner. discriminate.
  - intros b IH sg sepl _. cbn [qbs_lines]. apply IH.
  - intros b IHb r IHr sg sepl Hs. cbn [qbs_lines]. apply Forall_app. split; [apply IHb|].
    constructor; [exact Hs|apply IHr; exact Hs].
Qed.
Lemma qb_lines_inner : forall b sg, Forall inner (qb_lines sg b).
Proof. exact (proj1 qb_qbs_lines_inner). Qed.

(* ---------- the lines spell the source ---------- *)
Lemma qb_qbs_lines_src :
  (forall b sg, qb_ok b = true -> join nl (map lbytes (qb_lines sg b)) = qb_src (chain sg) b) /\
  (forall bs sg sepl, qbs_ok bs = true ->
     join nl (map lbytes (qbs_lines sg sepl bs)) = qbs_src (chain sg) (lbytes sepl) bs).
Proof.
  apply qb_qbs_ind.
  - intros p sg _. cbn [qb_lines qb_src]. rewrite map_map. reflexivity.
  - intros st bs IH sg Hok. cbn [qb_ok] in Hok. cbn [qb_lines qb_src]. rewrite (IH _ _ Hok).
    rewrite chain_app. reflexivity.
  - intros b IH sg sepl Hok. cbn [qbs_ok] in Hok. cbn [qbs_lines qbs_src]. apply IH. exact Hok.
  - intros b IHb r IHr sg sepl Hok. cbn [qbs_ok] in Hok. apply andb_true_iff in Hok. destruct Hok as [Hb Hr].
    cbn [qbs_lines qbs_src]. rewrite map_app.
    destruct (qb_lines_head b sg Hb) as (ms & body & rest & E & _).
    destruct (qbs_lines_head r sg sepl Hr) as (ms' & body' & rest' & E' & _).
    rewrite join_app_ne; [|rewrite E; discriminate|discriminate].
    rewrite (IHb sg Hb). cbn [map]. rewrite <- (IHr sg sepl Hr). rewrite E'. reflexivity.
Qed.
(* (without the hypothesis the statement fails: for QCons (QP []) (QOne (QP [])) the lines are the
   single empty line, the source two newlines) *)
Theorem qdoc_lines_src : forall d, qbs_ok d = true -> join nl (map lbytes (qdoc_lines d)) = qbs_src [] [] d.
Proof. intros d Hok. exact (proj2 qb_qbs_lines_src d [] (LSep None) Hok). Qed.

(* ---------- heaps ---------- *)
Lemma hset_len h : forall i n, length (hset h i n) = length h.
Proof. induction h as [|x h IH]; intros [|i] n; cbn [hset length]; try reflexivity. rewrite IH. reflexivity. Qed.
Lemma hset_app_l h X : forall i n, (i < length h)%nat -> hset (h ++ X) i n = hset h i n ++ X.
Proof.
  induction h as [|x h IH]; intros i n Hi; [cbn [length] in Hi; lia|].
  destruct i as [|i]; [reflexivity|]. cbn [app hset]. cbn [length] in Hi. rewrite IH by lia. reflexivity.
Qed.
Lemma hset_app_last A x y : hset (A ++ [x]) (length A) y = A ++ [y].
Proof. induction A as [|a A IH]; [reflexivity|]. cbn [app length hset]. rewrite IH. reflexivity. Qed.
Lemma hset_twice h : forall i a b, hset (hset h i a) i b = hset h i b.
Proof. induction h as [|x h IH]; intros [|i] a b; cbn [hset]; try reflexivity. rewrite IH. reflexivity. Qed.
Lemma nth_hset_same h : forall i n, (i < length h)%nat -> nth_error (hset h i n) i = Some n.
Proof.
  induction h as [|x h IH]; intros i n Hi; [cbn [length] in Hi; lia|].
  destruct i as [|i]; [reflexivity|]. cbn [hset nth_error]. apply IH. cbn [length] in Hi. lia.
Qed.
Lemma nth_lt_some {A} (h : list A) i : (i < length h)%nat -> exists n, nth_error h i = Some n.
Proof. intros Hi. destruct (nth_error h i) as [n|] eqn:E; [exists n; reflexivity|]. apply nth_error_None in E. lia. Qed.

Lemma add_children_len h P ids : length (add_children h P ids) = length h.
Proof. unfold add_children. destruct (nth_error h P); [apply hset_len|reflexivity]. Qed.
Lemma add_children_app_l h X P ids : (P < length h)%nat -> add_children (h ++ X) P ids = add_children h P ids ++ X.
Proof.
  intros HP. unfold add_children. rewrite nth_error_app1 by exact HP.
  destruct (nth_error h P); [apply hset_app_l; exact HP|reflexivity].
Qed.
Lemma add_children_twice h P a b : (P < length h)%nat ->
  add_children (add_children h P a) P b = add_children h P (a ++ b).
Proof.
  intros HP. destruct (nth_lt_some h P HP) as [n E]. unfold add_children. rewrite E.
  rewrite nth_hset_same by exact HP. rewrite hset_twice. cbn [set_ch bch]. rewrite app_assoc. reflexivity.
Qed.
Lemma add_children_last A n ids : add_children (A ++ [n]) (length A) ids = A ++ [set_ch n (bch n ++ ids)].
Proof.
  unfold add_children. rewrite nth_error_app2 by lia. rewrite Nat.sub_diag. cbn [nth_error]. apply hset_app_last.
Qed.
(* adding a further child after nodes were appended *)
Lemma add_children_more h X P i ids : (P < length h)%nat ->
  add_children (add_children h P [i] ++ X) P ids = add_children h P (i :: ids) ++ X.
Proof.
  intros HP. rewrite add_children_app_l by (rewrite add_children_len; exact HP).
  rewrite add_children_twice by exact HP. reflexivity.
Qed.

Lemma lastq_app q i : lastq (q ++ [i]) = i.
Proof. unfold lastq. apply last_last. Qed.

(* ---------- sizes ---------- *)
Lemma qb_qbs_nodes_len :
  (forall b tl L off par idx, length (qb_nodes tl L off par idx b) = qb_size b) /\
  (forall bs tl L Ls off par idx, length (qbs_nodes tl L Ls off par idx bs) = qbs_size bs).
Proof.
  apply qb_qbs_ind.
  - reflexivity.
  - intros st bs IH tl L off par idx. cbn [qb_nodes qb_size length]. rewrite IH. reflexivity.
  - intros b IH tl L Ls off par idx. cbn [qbs_nodes qbs_size]. apply IH.
  - intros b IHb r IHr tl L Ls off par idx. cbn [qbs_nodes qbs_size]. rewrite app_length, IHb, IHr. reflexivity.
Qed.
Lemma qb_nodes_len b tl L off par idx : length (qb_nodes tl L off par idx b) = qb_size b.
Proof. apply (proj1 qb_qbs_nodes_len). Qed.

(* ---------- closing the last paragraph of a block ---------- *)
Lemma trim_qsegs L t : forall p off, trim_segs t (qsegs L t off p) = qsegs L 0 off p.
Proof.
  induction p as [|b [|b' r] IH]; intros off.
  - reflexivity.
  - cbn [qsegs trim_segs]. unfold mkseg at 2 3. cbn [s_start s_stop]. replace (off + L + zlen b + t - t) with (off + L + zlen b + 0) by lia. reflexivity.
  - change (qsegs L t off (b :: b' :: r)) with (mkseg (off + L) (off + L + zlen b + 1) :: qsegs L t (off + L + zlen b + 1) (b' :: r)).
    change (qsegs L 0 off (b :: b' :: r)) with (mkseg (off + L) (off + L + zlen b + 1) :: qsegs L 0 (off + L + zlen b + 1) (b' :: r)).
    rewrite <- IH. destruct (qsegs L t (off + L + zlen b + 1) (b' :: r)) eqn:E; [destruct r; discriminate E|reflexivity].
Qed.
Lemma qb_qbs_nodes_trim t :
  (forall b H L off par idx,
     upd_last (trim_node t) (H ++ qb_nodes t L off par idx b) = H ++ qb_nodes 0 L off par idx b) /\
  (forall bs H L Ls off par idx,
     upd_last (trim_node t) (H ++ qbs_nodes t L Ls off par idx bs) = H ++ qbs_nodes 0 L Ls off par idx bs).
Proof.
  apply qb_qbs_ind.
  - intros p H L off par idx. cbn [qb_nodes]. rewrite upd_last_app. unfold trim_node, pnode, set_lines.
    cbn [bk bpar bch blines bblank b_i1 b_i2 b_tight b_seg]. rewrite trim_qsegs. reflexivity.
  - intros st bs IH H L off par idx. cbn [qb_nodes].
    change (H ++ ?x :: ?r) with (H ++ [x] ++ r). rewrite !app_assoc. apply IH.
  - intros b IH H L Ls off par idx. cbn [qbs_nodes]. apply IH.
  - intros b _ r IHr H L Ls off par idx. cbn [qbs_nodes]. rewrite !app_assoc. apply IHr.
Qed.
Lemma qb_nodes_trim t b H L off par idx :
  upd_last (trim_node t) (H ++ qb_nodes t L off par idx b) = H ++ qb_nodes 0 L off par idx b.
Proof. apply (proj1 (qb_qbs_nodes_trim t)). Qed.
Lemma qbs_nodes_trim t bs H L Ls off par idx :
  upd_last (trim_node t) (H ++ qbs_nodes t L Ls off par idx bs) = H ++ qbs_nodes 0 L Ls off par idx bs.
Proof. apply (proj2 (qb_qbs_nodes_trim t)). Qed.

(* ---------- steps of the machine ---------- *)
Definition seplev (tau : option (list bool)) : nat := match tau with None => O | Some tau => S (length tau) end.
Lemma astep_sep t s tau : astep t s (LSep tau) =
  Build_ast (upd_last (trim_node 1) (a_h s)) (firstn (seplev tau) (a_q s)) false (a_off s + zlen (lbytes (LSep tau)) + t).
Proof. reflexivity. Qed.
(* the open quotes and the open paragraph after a step do not depend on the terminator *)
Lemma astep_q_indep t t' s l : a_q (astep t s l) = a_q (astep t' s l) /\ a_p (astep t s l) = a_p (astep t' s l).
Proof. destruct l as [ms body|tau]; cbn [astep]; [destruct (a_p s)|]; split; reflexivity. Qed.

(* the first line of a paragraph directly below the innermost open quote *)
Lemma astep_para_first t ah q off sg b : length q = length sg ->
  astep t (Build_ast ah q false off) (LTxt sg b) =
  Build_ast (add_children ah (lastq q) [length ah] ++
             [pnode (Some (lastq q)) [mkseg (off + zlen (chain sg)) (off + zlen (chain sg) + zlen b + t)] false])
            q true (off + zlen (chain sg) + zlen b + t).
Proof.
  intros Hq. cbn [astep a_p a_h a_q a_off]. replace (length sg - length q)%nat with O by lia.
  cbn [first_nodes seq]. rewrite app_nil_r. reflexivity.
Qed.
(* the lines of a paragraph that is open *)
Lemma para_run sg t : forall r b H par ls q off,
  arun t (Build_ast (H ++ [pnode par ls false]) q true off) (map (LTxt sg) (b :: r)) =
  Build_ast (H ++ [pnode par (ls ++ qsegs (zlen (chain sg)) t off (b :: r)) false]) q true
            (off + plen (zlen (chain sg)) (b :: r) + t).
Proof.
  induction r as [|b' r IH]; intros b H par ls q off.
  - cbn [map arun astep a_p a_h a_q a_off]. rewrite upd_last_app. cbn [qsegs plen]. f_equal. lia.
  - cbn [map]. rewrite arun_cons2. change (LTxt sg b' :: map (LTxt sg) r) with (map (LTxt sg) (b' :: r)).
    cbn [astep a_p a_h a_q a_off]. rewrite upd_last_app.
    unfold add_line, set_lines, pnode at 1 2 3 4 5 6 7 8 9.
    cbn [bk bpar bch blines bblank b_i1 b_i2 b_tight b_seg].
    fold (pnode par (ls ++ [mkseg (off + zlen (chain sg)) (off + zlen (chain sg) + zlen b + 1)]) false).
    rewrite IH. rewrite <- app_assoc. rewrite (plen_cons2 _ b b' r). f_equal. lia.
Qed.
Lemma para_valid sg : forall r s, a_p s = true -> length sg = length (a_q s) -> forallb body_okb r = true ->
  avalid s (map (LTxt sg) r).
Proof.
  induction r as [|b r IH]; intros s Hp Hq Hr; [exact I|].
  cbn [forallb] in Hr. apply andb_true_iff in Hr. destruct Hr as [Hb Hr].
  cbn [map avalid]. split.
  - cbn [lvalid]. rewrite Hp. split; [exact Hb|exact Hq].
  - apply IH; [| |exact Hr]; cbn [astep]; rewrite Hp; cbn [a_p a_q]; [reflexivity|exact Hq].
Qed.
(* a line with more markers than open quotes: the same step once the first new quote is open *)
Lemma astep_open_one t ah q off ms body : (length q < length ms)%nat ->
  astep t (Build_ast ah q false off) (LTxt ms body) =
  astep t (Build_ast (add_children ah (lastq q) [length ah] ++ [qnode (Some (lastq q)) [] false])
                     (q ++ [length ah]) false off) (LTxt ms body).
Proof.
  intros Hlt. cbn [astep a_p a_h a_q a_off]. rewrite lastq_app, !app_length, add_children_len. cbn [length].
  replace (length ms - length q)%nat with (S (length ms - (length q + 1))) by lia.
  replace (length ah + 1)%nat with (S (length ah)) by lia.
  cbn [first_nodes seq].
  pose proof (add_children_last (add_children ah (lastq q) [length ah]) (qnode (Some (lastq q)) [] false) [S (length ah)]) as E.
  rewrite add_children_len in E. rewrite E. rewrite <- !app_assoc. reflexivity.
Qed.

(* ---------- the run over a block / a list of blocks ---------- *)
(* in a state without open paragraph whose open quotes are those of sg: the lines are valid and
   the run appends the nodes of the block(s) as children of the innermost open quote *)
Lemma qb_qbs_run :
  (forall b sg t ah q off, qb_ok b = true -> length q = length sg -> (lastq q < length ah)%nat ->
     avalid (Build_ast ah q false off) (qb_lines sg b) /\
     exists spine, arun t (Build_ast ah q false off) (qb_lines sg b) =
       Build_ast (add_children ah (lastq q) [length ah] ++ qb_nodes t (zlen (chain sg)) off (lastq q) (length ah) b)
                 (q ++ spine) true (off + qb_len (zlen (chain sg)) b + t)) /\
  (forall bs sg tau t ah q off, qbs_ok bs = true -> length q = length sg -> (lastq q < length ah)%nat ->
     seplev tau = length q ->
     avalid (Build_ast ah q false off) (qbs_lines sg (LSep tau) bs) /\
     exists spine, arun t (Build_ast ah q false off) (qbs_lines sg (LSep tau) bs) =
       Build_ast (add_children ah (lastq q) (qbs_ids (length ah) bs) ++
                  qbs_nodes t (zlen (chain sg)) (zlen (lbytes (LSep tau))) off (lastq q) (length ah) bs)
                 (q ++ spine) true (off + qbs_len (zlen (chain sg)) (zlen (lbytes (LSep tau))) bs + t)).
Proof.
  apply qb_qbs_ind.
  - (* a paragraph *)
    intros p sg t ah q off Hok Hq HP. cbn [qb_ok] in Hok.
    destruct (para_ok_inv p Hok) as (b & r & -> & Hb & Hr). cbn [qb_lines qb_nodes qb_len]. split.
    + cbn [map avalid]. split; [cbn [lvalid a_p a_q]; split; [exact Hb|lia]|].
      rewrite astep_para_first by exact Hq. apply para_valid; [reflexivity|cbn [a_q]; lia|exact Hr].
    + exists []. rewrite app_nil_r. destruct r as [|b' r].
      * cbn [map arun]. rewrite astep_para_first by exact Hq. cbn [qsegs plen]. f_equal. lia.
      * cbn [map]. rewrite arun_cons2. change (LTxt sg b' :: map (LTxt sg) r) with (map (LTxt sg) (b' :: r)).
        rewrite astep_para_first by exact Hq. rewrite para_run. rewrite (plen_cons2 _ b b' r). f_equal. lia.
  - (* a quote *)
    intros st bs IH sg t ah q off Hok Hq HP. cbn [qb_ok] in Hok. cbn [qb_lines qb_nodes qb_len].
    pose (ah' := add_children ah (lastq q) [length ah] ++ [qnode (Some (lastq q)) [] false]).
    assert (Hlen' : length ah' = S (length ah)).
    { unfold ah'. rewrite app_length, add_children_len. cbn [length]. lia. }
    destruct (IH (sg ++ [st]) (Some sg) t ah' (q ++ [length ah]) off Hok) as [Hv (spine & Hr)].
    { rewrite !app_length. cbn [length]. lia. }
    { rewrite lastq_app, Hlen'. lia. }
    { cbn [seplev]. rewrite app_length. cbn [length]. lia. }
    destruct (qbs_lines_head bs (sg ++ [st]) (LSep (Some sg)) Hok) as (ms & body & rest & E & Hms).
    rewrite app_length in Hms. cbn [length] in Hms.
    assert (Hstep : forall t', astep t' (Build_ast ah q false off) (LTxt ms body) =
                               astep t' (Build_ast ah' (q ++ [length ah]) false off) (LTxt ms body)).
    { intros t'. apply astep_open_one. lia. }
    rewrite E in Hv, Hr |- *. split.
    + cbn [avalid] in Hv |- *. destruct Hv as [Hl Hv]. split.
      * cbn [lvalid a_p a_q] in Hl |- *. split; [apply Hl|lia].
      * rewrite Hstep. exact Hv.
    + exists (length ah :: spine).
      assert (Hrun : arun t (Build_ast ah q false off) (LTxt ms body :: rest) =
                     arun t (Build_ast ah' (q ++ [length ah]) false off) (LTxt ms body :: rest)).
      { destruct rest as [|l rest]; cbn [arun]; rewrite Hstep; reflexivity. }
      rewrite Hrun, Hr. rewrite lastq_app, Hlen', zlen_chain_app, zlen_sep_some.
      assert (Hadd : forall ids, add_children ah' (length ah) ids =
                                 add_children ah (lastq q) [length ah] ++ [qnode (Some (lastq q)) ids false]).
      { intros ids. unfold ah'.
        pose proof (add_children_last (add_children ah (lastq q) [length ah]) (qnode (Some (lastq q)) [] false) ids) as E'.
        rewrite add_children_len in E'. exact E'. }
      rewrite Hadd. rewrite <- !app_assoc. reflexivity.
  - (* the last block of a list *)
    intros b IH sg tau t ah q off Hok Hq HP Hlev. cbn [qbs_ok] in Hok.
    cbn [qbs_lines qbs_nodes qbs_len qbs_ids]. apply IH; assumption.
  - (* a block, the separator, the rest *)
    intros b IHb r IHr sg tau t ah q off Hok Hq HP Hlev. cbn [qbs_ok] in Hok.
    apply andb_true_iff in Hok. destruct Hok as [Hb Hr]. cbn [qbs_lines qbs_nodes qbs_len qbs_ids].
    destruct (IHb sg 1 ah q off Hb Hq HP) as [Hvb (spb & Hrb)].
    pose (ah2 := add_children ah (lastq q) [length ah] ++ qb_nodes 0 (zlen (chain sg)) off (lastq q) (length ah) b).
    assert (Hlen2 : length ah2 = (length ah + qb_size b)%nat).
    { unfold ah2. rewrite app_length, add_children_len, qb_nodes_len. reflexivity. }
    pose (off2 := off + qb_len (zlen (chain sg)) b + 1 + zlen (lbytes (LSep tau)) + 1).
    destruct (IHr sg tau t ah2 q off2 Hr Hq ltac:(lia) Hlev) as [Hvr (spr & Hrr)].
    assert (Hsep : astep 1 (arun 1 (Build_ast ah q false off) (qb_lines sg b)) (LSep tau) = Build_ast ah2 q false off2).
    { rewrite Hrb, astep_sep. cbn [a_h a_q a_off]. rewrite qb_nodes_trim, Hlev.
      rewrite firstn_app, Nat.sub_diag, firstn_all. cbn [firstn]. rewrite app_nil_r. reflexivity. }
    split.
    + apply avalid_app. split; [exact Hvb|]. cbn [avalid]. split.
      * rewrite Hrb. cbn [lvalid a_p a_q]. split; [reflexivity|].
        destruct tau as [tau'|]; [|exact I]. cbn [seplev] in Hlev. rewrite app_length. lia.
      * rewrite Hsep. exact Hvr.
    + exists spr. destruct (qbs_lines_head r sg (LSep tau) Hr) as (ms & body & rest & E & _).
      rewrite arun_app by discriminate. rewrite E, arun_cons2, <- E. rewrite Hsep, Hrr, Hlen2.
      unfold ah2. rewrite add_children_more by exact HP. rewrite <- app_assoc. f_equal. unfold off2. lia.
Qed.

(* ---------- the whole document ---------- *)
Theorem qdoc_run : forall d t, qbs_ok d = true -> afinal t (arun t ainit (qdoc_lines d)) = qdoc_heap d.
Proof.
  intros d t Hok.
  destruct (proj2 qb_qbs_run d [] None t [dnode []] [] 0 Hok eq_refl (Nat.lt_0_succ 0) eq_refl) as [_ (sp & Hr)].
  unfold qdoc_lines, ainit. rewrite Hr. unfold afinal. cbn [a_h].
  change (add_children [dnode []] (lastq []) (qbs_ids (length [dnode []]) d)) with [dnode (qbs_ids 1 d)].
  rewrite qbs_nodes_trim. reflexivity.
Qed.
Theorem qdoc_valid : forall d, qbs_ok d = true -> avalid ainit (qdoc_lines d).
Proof.
  intros d Hok.
  exact (proj1 (proj2 qb_qbs_run d [] None 0 [dnode []] [] 0 Hok eq_refl (Nat.lt_0_succ 0) eq_refl)).
Qed.
