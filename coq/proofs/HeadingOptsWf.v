(* C05 / C01 / C03 / C04 for the model of the default parser with the heading options
   parser.WithAttribute() / parser.WithAutoHeadingID() (model/HeadingOptsI.v), for EVERY source
   and all four option sets.

   Helper files (prefix HeadingOptsWf):
     Off                 the two option sets without the Attribute option, carried over from the default
                         parser model and from the pass of model/HeadingIds.v through proofs/HeadingOptsEq.v
                         (kept as an independent second proof; the port below covers all four sets)
     Defs, Nl            lines_okH_b (the last line of a heading may be empty: the attribute block is cut
                         off), lines_nlH_b (every other line is a complete source line), tree_lines_okN,
                         AI (the attribute lists kept next to the heap are attrs_ok)
     Attr                ParseAttributes on the source reader: reader invariants, safe names and byte values,
                         totality (fuel)
     BlkB .. BlkK        fork of proofs/ParseBlocksRangeB..K.v with `fin` weakened for headings; K: to_treeH
     BlkQ, BlkR          the new Close (parseLastLineAttributes, AutoHeadingID) and Open (ATX with an
                         attribute block, which may move the reader across line ends) keep the invariant
     BlkL, BlkM, BlkN, BlkP, Blk   the driver copy (closeBlocksH .. parse_blocksH) keeps it
     Inl*                the inline phase on lines whose last segment is empty
     Tot*                totality of the block phase (fork of proofs/ParseBlocksTotal{Shape,Close,Open,Each,Drive}.v)
     Tree                attach_inlines over tree_lines_okN trees *)
Require Import GM.model.Base GM.model.Util GM.model.Reader GM.model.HtmlWriter GM.model.Html GM.model.HtmlI GM.model.HtmlSpec
               GM.model.BlockParse GM.model.InlineParse GM.model.ParseI GM.model.HeadingOpts GM.model.HeadingOptsI.
Require Import GM.gen.Tables.
Require Import GM.proofs.ParseInv GM.proofs.ParseCompose GM.proofs.HtmlConcrete GM.proofs.ParseInlineRange GM.proofs.ParseInlineTotal.
Require Import GM.proofs.HeadingOptsWfDefs GM.proofs.HeadingOptsWfNl GM.proofs.HeadingOptsWfTree GM.proofs.HeadingOptsWfAttr GM.proofs.HeadingOptsWfBlk
               GM.proofs.HeadingOptsWfInl GM.proofs.HeadingOptsWfTot.
From Coq Require Import List ZArith Bool.
Import ListNotations.

(* the block tree consists of block kinds *)
Lemma ParseBlocksTreeH_block_kinds hc src t refs : ParseBlocksTreeH hc src = Ok (t, refs) -> all_kinds block_kind t = true.
Proof.
  unfold ParseBlocksTreeH. intros H. apply pc_bind_ok in H as (x & _ & H). apply pc_bind_ok in H as (t' & Ht & H).
  apply pc_Ok_inj in H. injection H as <- _. exact (to_treeH_block_kinds _ _ _ _ _ _ Ht).
Qed.

(* the inline phase on the lines the block phase hands over: the block reader's hypothesis for
   paragraphs and text blocks (core theorems), lines_okN_b for headings (HeadingOptsWfInl.v) *)
Lemma InlineChildren_inl_ok refs src : bytes_ok src -> refs_ok refs -> forall lines ts,
  lines_inl src lines -> InlineChildren refs src lines = Ok ts -> Forall (fun t => wf_node src false false t = true) ts.
Proof.
  intros Hsrc Hrefs lines ts [Hl|Hl] H.
  - exact (InlineChildren_ok refs src lines ts Hsrc Hrefs Hl H).
  - exact (InlineChildren_okH refs src lines ts Hsrc Hrefs Hl H).
Qed.
Lemma InlineChildren_inl_total refs src : bytes_ok src -> forall lines,
  lines_inl src lines -> exists ts, InlineChildren refs src lines = Ok ts.
Proof.
  intros Hsrc lines [Hl|Hl].
  - exact (InlineChildren_total refs src lines Hsrc Hl).
  - exact (InlineChildren_totalH refs src lines Hsrc Hl).
Qed.

(* C05: every tree the parser model with the heading options yields is well formed *)
Theorem ParseTreeH_wf : forall hc src t, bytes_ok src -> ParseTreeH hc src = Ok t -> wf_tree src t = true.
Proof.
  intros hc src t Hsrc H. unfold ParseTreeH in H.
  apply pc_bind_ok in H as ([bt refs] & Hb & H).
  destruct (ParseBlocksTreeH_ok hc src bt refs Hsrc Hb) as (Hwf & Hlines & Hrefs).
  unfold wf_tree. rewrite Hsrc. cbn [andb].
  apply (attachH_wf src (InlineChildren refs src)) with (t := bt).
  - exact (InlineChildren_inl_ok refs src Hsrc Hrefs).
  - exact (ParseBlocksTreeH_block_kinds hc src bt refs Hb).
  - exact Hwf.
  - exact Hlines.
  - exact H.
Qed.

(* C01: the parser model with the heading options never panics and never runs out of fuel *)
Theorem ParseTreeH_total : forall hc src, bytes_ok src -> exists t, ParseTreeH hc src = Ok t.
Proof.
  intros hc src Hsrc.
  destruct (ParseBlocksTreeH_total hc src (parse_attrs_total space_table punct_table) Hsrc) as [[bt refs] Hb].
  destruct (ParseBlocksTreeH_ok hc src bt refs Hsrc Hb) as (_ & Hlines & _).
  unfold ParseTreeH. rewrite Hb. cbn [bind].
  exact (attachH_total src (InlineChildren refs src) (InlineChildren_inl_total refs src Hsrc) bt Hlines).
Qed.

Lemma ConvertModelH_ok hc c src o : ConvertModelH hc c src = Ok o ->
  exists t, ParseTreeH hc src = Ok t /\ RenderHTML c src t = Ok o.
Proof. unfold ConvertModelH. intros H. exact (pc_bind_ok _ _ _ H). Qed.

(* C03 / C04: safe-mode output of the Convert model with the heading options is inert, for every source *)
Theorem ConvertModelH_safe_inert : forall hc c src o, unsafe c = false -> bytes_ok src -> ConvertModelH hc c src = Ok o -> Inert o.
Proof.
  intros hc c src o Hu Hsrc H. apply ConvertModelH_ok in H as (t & Ht & Hr).
  exact (RenderHTML_safe_inert c src t o Hu (ParseTreeH_wf hc src t Hsrc Ht) Hr).
Qed.
Theorem ConvertModelH_safe_inert_xhtml : forall hc c src o, unsafe c = false -> xhtml c = true -> bytes_ok src ->
  ConvertModelH hc c src = Ok o -> InertX o.
Proof.
  intros hc c src o Hu Hx Hsrc H. apply ConvertModelH_ok in H as (t & Ht & Hr).
  exact (RenderHTML_safe_inert_xhtml c src t o Hu Hx (ParseTreeH_wf hc src t Hsrc Ht) Hr).
Qed.

(* C01: once the parser model has returned a tree, rendering cannot fail *)
Theorem ConvertModelH_render_total : forall hc c src t, bytes_ok src -> ParseTreeH hc src = Ok t ->
  exists o, ConvertModelH hc c src = Ok o.
Proof.
  intros hc c src t Hsrc Ht. unfold ConvertModelH. rewrite Ht. cbn [bind].
  exact (RenderHTML_total c src t (ParseTreeH_wf hc src t Hsrc Ht)).
Qed.

Theorem ConvertModelH_total : forall hc c src, bytes_ok src -> exists o, ConvertModelH hc c src = Ok o.
Proof.
  intros hc c src Hsrc. destruct (ParseTreeH_total hc src Hsrc) as [t Ht].
  exact (ConvertModelH_render_total hc c src t Hsrc Ht).
Qed.
