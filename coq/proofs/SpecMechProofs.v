(* C02 mechanism theorems: spellings the specification declares equivalent are treated alike.

   Status: all seven theorems are proved as originally written (no statement was changed, none
   was found false).  Notes: the hypotheses [0 < cp] (both spelling theorems) and [0 <= cur]
   (indent theorems) are not used by the proofs; [all_ws ws] is essential for
   [indent_width_is_expanded_width] (a non-blank byte inside ws stops IndentWidth's position
   count).  Sanity check by computation: hex 0 = "0", hex 255 = "ff", hex 1114111 = "10ffff",
   dec 1114111 = "1114111", and both references to U+00E9 resolve to [195; 169]. *)
Require Import GM.model.Base GM.model.Util GM.model.Ids GM.model.HtmlDecode GM.model.HtmlWriter GM.model.Blocks GM.model.SpecMech.
From Coq Require Import ZArith Lia ZifyBool ZifyNat ZifyN.
Open Scope N_scope.

(* ---------- backslash runs ---------- *)
Lemma fbu_cons c r :
  final_backslash_unescaped (c :: r) =
  if c =? 92 then match r with [] => true | _ :: r' => final_backslash_unescaped r' end
  else final_backslash_unescaped r.
Proof.
  destruct (N.eqb_spec c 92) as [->|Hne]; [destruct r; reflexivity|].
  destruct c as [|p]; [reflexivity|].
  do 7 (try (destruct p as [p|p|]; try reflexivity)).
  exfalso. apply Hne. reflexivity.
Qed.

Lemma fbu_repeat k : final_backslash_unescaped (repeat 92 k) = Nat.odd k.
Proof.
  assert (H : final_backslash_unescaped (repeat 92 k) = Nat.odd k /\
              final_backslash_unescaped (repeat 92 (Datatypes.S k)) = Nat.odd (Datatypes.S k)).
  { induction k as [|k [IH1 IH2]].
    - split; reflexivity.
    - split; [exact IH2|].
      change (repeat 92 (Datatypes.S (Datatypes.S k))) with (92 :: 92 :: repeat 92 k).
      rewrite fbu_cons. change (92 =? 92) with true. cbn iota.
      rewrite IH1. reflexivity. }
  exact (proj1 H).
Qed.

(* hard line break: the parity test agrees with the specification's left-to-right reading of
   backslash escapes, for lines that contain backslashes only in their final run
   (a backslash earlier in the line is followed by some other byte, which it may escape) *)
Theorem trailing_parity_is_unescaped body k : (forall c, In c body -> c <> 92) ->
  final_backslash_unescaped (body ++ repeat 92 k) = Nat.odd k.
Proof.
  induction body as [|c body IH]; intros Hb.
  - apply fbu_repeat.
  - cbn [app]. rewrite fbu_cons.
    destruct (N.eqb_spec c 92) as [Hc|Hc].
    + exfalso. apply (Hb c); [left; reflexivity|exact Hc].
    + apply IH. intros d Hd. apply Hb. right. exact Hd.
Qed.

Lemma ctb_cons c r :
  count_trailing_bs_rev (c :: r) =
  if c =? 92 then Datatypes.S (count_trailing_bs_rev r) else O.
Proof.
  destruct (N.eqb_spec c 92) as [->|Hne]; [reflexivity|].
  destruct c as [|p]; [reflexivity|].
  do 7 (try (destruct p as [p|p|]; try reflexivity)).
  exfalso. apply Hne. reflexivity.
Qed.

Lemma rev_repeat {A} (x : A) k : rev (repeat x k) = repeat x k.
Proof.
  induction k as [|k IH]; [reflexivity|].
  cbn [repeat rev]. rewrite IH. clear IH.
  induction k as [|k IH]; [reflexivity|].
  cbn [repeat app]. rewrite IH. reflexivity.
Qed.

Theorem ends_with_unescaped_backslash_parity body k :
  (match rev body with 92 :: _ => False | _ => True end) ->
  ends_with_unescaped_backslash (body ++ repeat 92 k) = Nat.odd k.
Proof.
  intros Hb. unfold ends_with_unescaped_backslash.
  rewrite rev_app_distr, rev_repeat. f_equal.
  induction k as [|k IH].
  - cbn [repeat app]. destruct (rev body) as [|c r]; [reflexivity|].
    rewrite ctb_cons. destruct (N.eqb_spec c 92) as [->|Hc]; [contradiction|reflexivity].
  - cbn [repeat app]. rewrite ctb_cons. change (92 =? 92) with true. cbn iota.
    rewrite IH. reflexivity.
Qed.

(* ---------- positional digit strings, generically in the base ---------- *)
Section Digits.
Variable base : N.
Variable digit : N -> N.
Variable okc : N -> bool.
Hypothesis base_ge : 2 <= base.
Hypothesis digit_back : forall d, d < base -> digit_val (digit d) = d.
Hypothesis digit_ok : forall d, d < base -> okc (digit d) = true.

Fixpoint gen_fuel (fuel : nat) (n : N) (acc : bytes) : bytes :=
  match fuel with
  | O => acc
  | Datatypes.S f => if n <? base then digit n :: acc
                     else gen_fuel f (n / base) (digit (n mod base) :: acc)
  end.

Definition pstep (acc c : N) : N := acc * base + digit_val c.

Lemma gen_fuel_value fuel : forall n acc, n < 2 ^ N.of_nat fuel ->
  fold_left pstep (gen_fuel fuel n acc) 0 = fold_left pstep acc n.
Proof.
  induction fuel as [|f IH]; intros n acc Hn.
  - cbn [gen_fuel]. change (2 ^ N.of_nat 0) with 1 in Hn. assert (n = 0) as -> by lia. reflexivity.
  - cbn [gen_fuel]. destruct (N.ltb_spec n base) as [Hlt|Hge].
    + cbn [fold_left]. f_equal. unfold pstep. rewrite digit_back by exact Hlt. lia.
    + pose proof (N.div_mod n base ltac:(lia)) as Hdm.
      pose proof (N.mod_lt n base ltac:(lia)) as Hm.
      rewrite IH.
      * cbn [fold_left]. f_equal. unfold pstep. rewrite digit_back by exact Hm. lia.
      * rewrite Nat2N.inj_succ, N.pow_succ_r' in Hn.
        apply N.div_lt_upper_bound; [lia|]. nia.
Qed.

Lemma gen_fuel_shape fuel : forall n acc, exists ds,
  gen_fuel fuel n acc = ds ++ acc /\
  forallb okc ds = true /\
  (fuel <> O -> ds <> []) /\
  (forall k, n < base ^ N.of_nat (Datatypes.S k) -> (length ds <= Datatypes.S k)%nat).
Proof.
  induction fuel as [|f IH]; intros n acc.
  - exists []. cbn [gen_fuel app forallb length]. repeat split; [congruence|lia].
  - cbn [gen_fuel]. destruct (N.ltb_spec n base) as [Hlt|Hge].
    + exists [digit n]. cbn [app forallb length]. rewrite digit_ok by exact Hlt.
      repeat split; [discriminate|lia].
    + pose proof (N.mod_lt n base ltac:(lia)) as Hm.
      destruct (IH (n / base) (digit (n mod base) :: acc)) as (ds & Heq & Hok & _ & Hlen).
      exists (ds ++ [digit (n mod base)]). rewrite Heq, <- app_assoc.
      repeat split.
      * rewrite forallb_app, Hok. cbn [forallb]. rewrite digit_ok by exact Hm. reflexivity.
      * intros _ Hnil. apply app_eq_nil in Hnil. destruct Hnil as [_ Hnil]. discriminate Hnil.
      * intros k Hk. rewrite app_length. cbn [length].
        destruct k as [|k].
        { change (base ^ N.of_nat 1) with (base ^ 1) in Hk. rewrite N.pow_1_r in Hk. lia. }
        assert (length ds <= Datatypes.S k)%nat; [|lia].
        apply Hlen. rewrite Nat2N.inj_succ, N.pow_succ_r' in Hk.
        apply N.div_lt_upper_bound; [lia|]. exact Hk.
Qed.
End Digits.

Lemma dec_is_gen fuel : forall n acc, dec_fuel fuel n acc = gen_fuel 10 (fun d => 48 + d) fuel n acc.
Proof.
  induction fuel as [|f IH]; intros n acc; cbn [dec_fuel gen_fuel]; [reflexivity|].
  rewrite IH. reflexivity.
Qed.

Lemma hex_is_gen fuel : forall n acc, hex_fuel fuel n acc = gen_fuel 16 hexdigit_lower fuel n acc.
Proof.
  induction fuel as [|f IH]; intros n acc; cbn [hex_fuel gen_fuel]; [reflexivity|].
  rewrite IH. reflexivity.
Qed.

Lemma log2_fuel n : n < 2 ^ N.of_nat (Datatypes.S (N.to_nat (N.log2 n))).
Proof.
  rewrite Nat2N.inj_succ, N2Nat.id.
  destruct (N.eq_dec n 0) as [->|Hnz]; [reflexivity|].
  apply N.log2_spec. lia.
Qed.

Lemma parse_fold base s : fold_left (pstep base) s 0 <= 4294967295 ->
  parse_uint32 base s = fold_left (pstep base) s 0.
Proof.
  intros H. unfold parse_uint32. fold (pstep base).
  destruct (N.ltb_spec 4294967295 (fold_left (pstep base) s 0)) as [Hlt|Hle]; [lia|reflexivity].
Qed.

(* dec: digits only, non-empty, at most 7 of them below 10^7, value read back by ParseUint *)
Lemma dec_facts cp : cp < 10000000 ->
  forallb is_numeric (dec cp) = true /\ dec cp <> [] /\ (length (dec cp) <= 7)%nat /\
  parse_uint32 10 (dec cp) = cp.
Proof.
  intros Hcp. unfold dec. rewrite dec_is_gen.
  assert (Hback : forall d, d < 10 -> digit_val (48 + d) = d).
  { intros d Hd. unfold digit_val.
    destruct ((48 <=? 48 + d) && (48 + d <=? 57)) eqn:E; [lia|exfalso; lia]. }
  assert (Hok : forall d, d < 10 -> is_numeric (48 + d) = true).
  { intros d Hd. unfold is_numeric. lia. }
  assert (Hb : 2 <= 10) by lia.
  pose proof (gen_fuel_value 10 (fun d => 48 + d) is_numeric Hb Hback Hok _ cp [] (log2_fuel cp)) as Hv.
  destruct (gen_fuel_shape 10 (fun d => 48 + d) is_numeric Hb Hback Hok
              (Datatypes.S (N.to_nat (N.log2 cp))) cp []) as (ds & Heq & Hds & Hne & Hlen).
  rewrite Heq in *. rewrite app_nil_r in *. cbn [fold_left] in Hv.
  repeat split.
  - exact Hds.
  - apply Hne. discriminate.
  - apply (Hlen 6%nat). exact Hcp.
  - rewrite parse_fold; rewrite Hv; [reflexivity|lia].
Qed.

Lemma hex_facts cp : cp < 16777216 ->
  forallb is_hex (hex cp) = true /\ hex cp <> [] /\ (length (hex cp) <= 6)%nat /\
  parse_uint32 16 (hex cp) = cp.
Proof.
  intros Hcp. unfold hex. rewrite hex_is_gen.
  assert (Hback : forall d, d < 16 -> digit_val (hexdigit_lower d) = d).
  { intros d Hd. unfold digit_val, hexdigit_lower.
    destruct (N.ltb_spec d 10) as [H10|H10].
    - destruct ((48 <=? 48 + d) && (48 + d <=? 57)) eqn:E; [lia|exfalso; lia].
    - destruct ((48 <=? 87 + d) && (87 + d <=? 57)) eqn:E; [exfalso; lia|].
      destruct ((97 <=? 87 + d) && (87 + d <=? 102)) eqn:E2; [lia|exfalso; lia]. }
  assert (Hok : forall d, d < 16 -> is_hex (hexdigit_lower d) = true).
  { intros d Hd. unfold is_hex, hexdigit_lower.
    destruct (N.ltb_spec d 10) as [H10|H10]; lia. }
  assert (Hb : 2 <= 16) by lia.
  pose proof (gen_fuel_value 16 hexdigit_lower is_hex Hb Hback Hok _ cp [] (log2_fuel cp)) as Hv.
  destruct (gen_fuel_shape 16 hexdigit_lower is_hex Hb Hback Hok
              (Datatypes.S (N.to_nat (N.log2 cp))) cp []) as (ds & Heq & Hds & Hne & Hlen).
  rewrite Heq in *. rewrite app_nil_r in *. cbn [fold_left] in Hv.
  repeat split.
  - exact Hds.
  - apply Hne. discriminate.
  - apply (Hlen 5%nat). exact Hcp.
  - rewrite parse_fold; rewrite Hv; [reflexivity|lia].
Qed.

(* ---------- ReadWhile ---------- *)
Lemma read_while_stop p ds c tl : forallb p ds = true -> p c = false ->
  read_while p (ds ++ c :: tl) = (ds, c :: tl).
Proof.
  intros Hds Hc. induction ds as [|d ds IH].
  - cbn [app read_while]. rewrite Hc. reflexivity.
  - cbn [forallb] in Hds. apply andb_prop in Hds. destruct Hds as [Hd Hds].
    cbn [app read_while]. rewrite Hd, (IH Hds). reflexivity.
Qed.

Lemma read_while_len p : forall v, (length (snd (read_while p v)) <= length v)%nat.
Proof.
  induction v as [|c v IH]; [cbn; lia|].
  cbn [read_while]. destruct (p c).
  - destruct (read_while p v) as [a b]. cbn [snd length] in *. lia.
  - cbn [snd]. lia.
Qed.

(* ---------- the references of a code point, as both resolvers read them ---------- *)
Lemma numeric_ref_dec cp : cp < 1114112 ->
  numeric_ref (35 :: dec cp ++ [59]) = Some (encode_rune (to_valid_rune cp), []).
Proof.
  intros Hcp. destruct (dec_facts cp ltac:(lia)) as (Hds & Hne & Hlen & Hval).
  destruct (dec cp) as [|d0 ds] eqn:Edec; [congruence|].
  assert (Hd0 : is_numeric d0 = true).
  { cbn [forallb] in Hds. apply andb_prop in Hds. exact (proj1 Hds). }
  assert (Hx : (d0 =? 120) || (d0 =? 88) = false) by (unfold is_numeric in Hd0; lia).
  unfold numeric_ref. cbn [app]. rewrite Hx, Hd0.
  change (d0 :: ds ++ [59]) with ((d0 :: ds) ++ [59]).
  rewrite (read_while_stop is_numeric (d0 :: ds) 59 [] Hds eq_refl).
  assert (Hl : Nat.ltb (length (d0 :: ds)) 8 = true) by (apply Nat.ltb_lt; lia).
  rewrite Hl, Hval. reflexivity.
Qed.

Lemma numeric_ref_hex cp : cp < 1114112 ->
  numeric_ref (35 :: 120 :: hex cp ++ [59]) = Some (encode_rune (to_valid_rune cp), []).
Proof.
  intros Hcp. destruct (hex_facts cp ltac:(lia)) as (Hds & Hne & Hlen & Hval).
  unfold numeric_ref. change ((120 =? 120) || (120 =? 88)) with true. cbn iota.
  rewrite (read_while_stop is_hex (hex cp) 59 [] Hds eq_refl).
  destruct (hex cp) as [|d0 ds] eqn:Ehex; [congruence|].
  rewrite Hval. reflexivity.
Qed.

Lemma resolve_numeric_fuel_nil f : resolve_numeric_fuel f [] = [].
Proof. destruct f; reflexivity. Qed.

Lemma resolve_numeric_amp f rest repl tl : numeric_ref rest = Some (repl, tl) ->
  resolve_numeric_fuel (Datatypes.S f) (38 :: rest) = repl ++ resolve_numeric_fuel f tl.
Proof.
  intros H. cbn [resolve_numeric_fuel]. change (38 =? 38) with true. cbn iota.
  rewrite H. reflexivity.
Qed.

(* decimal and hexadecimal references to the same code point resolve to the same bytes, for
   both resolvers (link destinations / titles, and text) *)
Theorem numeric_spellings_agree cp : 0 < cp -> cp < 1114112 ->
  resolve_numeric (ref_decimal cp) = resolve_numeric (ref_hex cp).
Proof.
  intros _ Hcp. unfold resolve_numeric, ref_decimal, ref_hex. cbn [app length].
  rewrite (resolve_numeric_amp _ _ _ _ (numeric_ref_dec cp Hcp)).
  rewrite (resolve_numeric_amp _ _ _ _ (numeric_ref_hex cp Hcp)).
  rewrite !resolve_numeric_fuel_nil. reflexivity.
Qed.

Section Tables.
Variable html_escape_table : list (option bytes).
Variable punct_table : list N.
Variable entities : list (bytes * bytes).

Lemma write_ref_dec cp : cp < 1114112 ->
  write_ref html_escape_table entities (35 :: dec cp ++ [59]) =
  Some (escape_rune html_escape_table cp, []).
Proof.
  intros Hcp. destruct (dec_facts cp ltac:(lia)) as (Hds & Hne & Hlen & Hval).
  destruct (dec cp) as [|d0 ds] eqn:Edec; [congruence|].
  assert (Hd0 : is_numeric d0 = true).
  { cbn [forallb] in Hds. apply andb_prop in Hds. exact (proj1 Hds). }
  assert (Hx : (d0 =? 120) || (d0 =? 88) = false) by (unfold is_numeric in Hd0; lia).
  unfold write_ref. cbn [app]. rewrite Hx, Hd0.
  change (d0 :: ds ++ [59]) with ((d0 :: ds) ++ [59]).
  rewrite (read_while_stop is_numeric (d0 :: ds) 59 [] Hds eq_refl).
  assert (Hl : Nat.ltb (length (d0 :: ds)) 8 = true) by (apply Nat.ltb_lt; lia).
  rewrite Hl, Hval. reflexivity.
Qed.

Lemma write_ref_hex cp : cp < 1114112 ->
  write_ref html_escape_table entities (35 :: 120 :: hex cp ++ [59]) =
  Some (escape_rune html_escape_table cp, []).
Proof.
  intros Hcp. destruct (hex_facts cp ltac:(lia)) as (Hds & Hne & Hlen & Hval).
  unfold write_ref. change ((120 =? 120) || (120 =? 88)) with true. cbn iota.
  rewrite (read_while_stop is_hex (hex cp) 59 [] Hds eq_refl).
  destruct (hex cp) as [|d0 ds] eqn:Ehex; [congruence|].
  assert (Hl : Nat.ltb (length (d0 :: ds)) 7 = true) by (apply Nat.ltb_lt; lia).
  rewrite Hl, Hval. reflexivity.
Qed.

Notation wwf := (writer_write_fuel html_escape_table punct_table entities).

Lemma wwf_nil f es : wwf f es [] = [].
Proof. destruct f; reflexivity. Qed.

Lemma wwf_amp f es rest out tl : write_ref html_escape_table entities rest = Some (out, tl) ->
  wwf (Datatypes.S f) es (38 :: rest) = out ++ wwf f es tl.
Proof.
  intros H. cbn [writer_write_fuel].
  change (38 =? 92) with false. change (38 =? 0) with false. change (38 =? 38) with true.
  cbn iota. rewrite H. reflexivity.
Qed.

Theorem writer_numeric_spellings_agree cp : 0 < cp -> cp < 1114112 ->
  writer_write html_escape_table punct_table entities false (ref_decimal cp) =
  writer_write html_escape_table punct_table entities false (ref_hex cp).
Proof.
  intros _ Hcp. unfold writer_write, ref_decimal, ref_hex. cbn [app length].
  rewrite (wwf_amp _ _ _ _ _ (write_ref_dec cp Hcp)).
  rewrite (wwf_amp _ _ _ _ _ (write_ref_hex cp Hcp)).
  rewrite !wwf_nil. reflexivity.
Qed.

(* a resolved reference consumes input: what remains is no longer than what followed '&' *)
Lemma write_ref_len a out tl : write_ref html_escape_table entities a = Some (out, tl) ->
  (length tl <= length a)%nat.
Proof.
  unfold write_ref. intro H.
  repeat match type of H with
  | context [read_while ?p ?x] =>
      let E := fresh "E" in
      pose proof (read_while_len p x) as E;
      destruct (read_while p x) as [? ?]; cbn [snd] in E
  | match ?x with _ => _ end = _ => destruct x; try discriminate H
  end.
  all: injection H as _ <-.
  all: cbn [length] in *; lia.
Qed.

(* the fuel of Write is only a recursion device: any fuel at least the input length will do *)
Lemma wwf_fuel es : forall f1 f2 v, (length v <= f1)%nat -> (length v <= f2)%nat ->
  wwf f1 es v = wwf f2 es v.
Proof.
  induction f1 as [|f1 IH]; intros f2 v H1 H2.
  - destruct v as [|c rest]; [|cbn [length] in H1; lia]. rewrite !wwf_nil. reflexivity.
  - destruct f2 as [|f2].
    + destruct v as [|c rest]; [|cbn [length] in H2; lia]. rewrite !wwf_nil. reflexivity.
    + destruct v as [|c rest]; [reflexivity|]. cbn [length] in H1, H2.
      cbn [writer_write_fuel].
      destruct (c =? 92).
      { destruct rest as [|d rest']; [reflexivity|]. cbn [length] in H1, H2.
        destruct (is_punct punct_table d); [f_equal; apply IH; lia|].
        destruct (es && (d =? 32)); [apply IH; lia|].
        f_equal. apply IH; cbn [length]; lia. }
      destruct (c =? 0); [f_equal; apply IH; lia|].
      destruct (c =? 38).
      { destruct (write_ref html_escape_table entities rest) as [[out tl]|] eqn:Hw.
        - apply write_ref_len in Hw. f_equal. apply IH; lia.
        - f_equal. apply IH; lia. }
      f_equal. apply IH; lia.
Qed.

Lemma wwf_bs f es d rest' : is_punct punct_table d = true ->
  wwf (Datatypes.S f) es (92 :: d :: rest') = esc1 html_escape_table d ++ wwf f es rest'.
Proof.
  intros H. cbn [writer_write_fuel]. change (92 =? 92) with true. cbn iota.
  rewrite H. reflexivity.
Qed.

(* a backslash before ASCII punctuation is removed and the punctuation is written as plain text *)
Theorem writer_backslash_escape p rest : is_punct punct_table p = true ->
  writer_write html_escape_table punct_table entities false (92 :: p :: rest) =
  esc1 html_escape_table p ++ writer_write html_escape_table punct_table entities false rest.
Proof.
  intros Hp. unfold writer_write. cbn [length].
  rewrite (wwf_bs _ false p rest Hp). f_equal.
  apply wwf_fuel; lia.
Qed.
End Tables.

(* indentation written with spaces or with tabs reaching the same column is the same
   indentation: util.IndentWidth only depends on the expanded width *)
Fixpoint expanded_width (ws : bytes) (col : Z) : Z :=
  match ws with
  | c :: r => if N.eqb c 32 then expanded_width r (col + 1)%Z
              else if N.eqb c 9 then expanded_width r (col + (4 - col mod 4))%Z else col
  | [] => col
  end.
Definition all_ws (ws : bytes) : Prop := Forall (fun c => c = 32 \/ c = 9) ws.

Lemma indent_width_pos_expanded ws c rest cur : all_ws ws -> c <> 32 -> c <> 9 -> forall w pos,
  indent_width_pos (ws ++ c :: rest) cur w pos =
  ((expanded_width ws (cur + w) - cur)%Z, (pos + Z.of_nat (length ws))%Z).
Proof.
  intros Hws H32 H9. induction Hws as [|d ws Hd Hws IH]; intros w pos.
  - cbn [app indent_width_pos expanded_width length].
    destruct (N.eqb_spec c 32) as [E|_]; [contradiction|].
    destruct (N.eqb_spec c 9) as [E|_]; [contradiction|].
    f_equal; lia.
  - cbn [app indent_width_pos expanded_width length].
    destruct (N.eqb_spec d 32) as [_|N32].
    + rewrite IH. f_equal; [f_equal; f_equal; lia|lia].
    + destruct (N.eqb_spec d 9) as [_|N9].
      * rewrite IH. f_equal; [f_equal; f_equal; lia|lia].
      * exfalso. destruct Hd as [Hd|Hd]; contradiction.
Qed.

Theorem indent_width_is_expanded_width ws c rest cur : all_ws ws -> c <> 32 -> c <> 9 -> (0 <= cur)%Z ->
  indent_width (ws ++ c :: rest) cur = ((expanded_width ws cur - cur)%Z, Z.of_nat (length ws)).
Proof.
  intros Hws H32 H9 _. unfold indent_width.
  rewrite (indent_width_pos_expanded ws c rest cur Hws H32 H9).
  rewrite Z.add_0_r, Z.add_0_l. reflexivity.
Qed.

Theorem tabs_equal_spaces ws1 ws2 c rest cur : all_ws ws1 -> all_ws ws2 -> c <> 32 -> c <> 9 -> (0 <= cur)%Z ->
  expanded_width ws1 cur = expanded_width ws2 cur ->
  fst (indent_width (ws1 ++ c :: rest) cur) = fst (indent_width (ws2 ++ c :: rest) cur).
Proof.
  intros Hw1 Hw2 H32 H9 Hcur Heq.
  rewrite (indent_width_is_expanded_width ws1 c rest cur Hw1 H32 H9 Hcur).
  rewrite (indent_width_is_expanded_width ws2 c rest cur Hw2 H32 H9 Hcur).
  cbn [fst]. rewrite Heq. reflexivity.
Qed.
