(* HeadingOptsWfInl, part E (hwInl): scan_line, the loop of parseBlock and parse_block under the
   lock-step relation of part A: the inline phase over pre ++ [e] (e an empty segment behind the
   non-empty lines pre) builds the same context as over pre, provided every line of pre ends at the end
   of the source or with a newline. *)
Require Import GM.model.Base GM.model.Util GM.model.Reader GM.model.ReaderSpec GM.model.ListItem GM.model.CodeSpan GM.model.LinkDest
               GM.model.Regex GM.model.Delim GM.model.BlockParse GM.model.InlineParse.
Require GM.proofs.ParseBlocksTotalReader.
Require Import GM.proofs.BReaderProofs GM.proofs.BlockRangeProofs GM.proofs.ParseInv GM.proofs.ParseInlineRangeReader
               GM.proofs.HeadingOptsWfInlA GM.proofs.HeadingOptsWfInlB GM.proofs.HeadingOptsWfInlC GM.proofs.HeadingOptsWfInlD.
From Coq Require Import ZArith Lia ZifyBool List Bool.
Import ListNotations.
Open Scope Z_scope.

Ltac nrm := cbn [bind] in *; unfold ist_r, ist_c in *; cbn [t_c t_r] in *.

Lemma zskip_cons_nth (l : bytes) i c tl : 0 <= i -> zskip i l = c :: tl -> i < zlen l /\ nth_byte l i = c.
Proof.
  intros Hi E. split.
  - pose proof (br_zlen_zskip i l) as Hz. rewrite E, zlen_cons in Hz. pose proof (zlen_nonneg tl). lia.
  - unfold nth_byte, zskip in *. revert l E. generalize (Z.to_nat i) as j. induction j as [|j IH]; intros l E.
    + cbn in E. subst l. reflexivity.
    + destruct l as [|x l]; [discriminate E|]. cbn [skipn nth] in *. apply IH. exact E.
Qed.

Section E.
Variable space_table punct_table : list N.
Variable norm : bytes -> bytes.
Variable url_table email_table : list N.
Variable re_email_domain re_open_tag re_close_tag : re.
Variable punct_rune space_rune : N -> bool.
Variable refs : list (bytes * (bytes * option bytes)).
Variable src : bytes.
Variable pre : list seg.
Variable e : seg.
Hypothesis Hpre : segs_ok src pre.
Hypothesis Hpads : Forall (fun s => s_pad s = 0) pre.
Hypothesis Hne : pre <> [].
Hypothesis He1 : s_start e = s_stop e.
Hypothesis He2 : s_pad e = 0.
Hypothesis He3 : s_fnl e = false.
Hypothesis Hke : last_stop pre <= s_start e.
(* every line of pre is a complete line of the source; e lies inside the source *)
Hypothesis Hnl : Forall (fun sg => s_stop sg = zlen src \/ nth_byte src (s_stop sg - 1) = 10%N) pre.
Hypothesis Hkz : s_stop e <= zlen src.

Notation Sim := (Sim src pre e).
Notation EQS := (EQS src pre e).
Notation EQ := (EQ pre e).
Notation RI := (RI src pre).
Notation k' := (last_stop pre).
Notation k := (s_start e).
Notation m := (zlen pre).
Notation SCAN := (scan_line space_table punct_table norm url_table email_table re_email_domain re_open_tag re_close_tag
                  punct_rune space_rune refs).
Notation LOOP := (parse_block_loop space_table punct_table norm url_table email_table re_email_domain re_open_tag re_close_tag
                  punct_rune space_rune refs).
Notation TRY := (try_inline space_table punct_table norm url_table email_table re_email_domain re_open_tag re_close_tag
                  punct_rune space_rune refs).

Ltac inst L := let X := fresh in pose proof (L src pre e) as X;
  repeat match type of X with ?P -> _ => specialize (X ltac:(assumption)) end; exact X.
Definition e_peek_line := ltac:(inst sim_peek_line).
Definition e_advance := ltac:(inst sim_advance).
Definition e_advance_fast := ltac:(inst sim_advance_fast).
Definition e_advance_line := ltac:(inst sim_advance_line).
Definition e_in_eqs := ltac:(inst sim_in_eqs).
Definition e_inv0 := ltac:(inst sim_inv0).
Definition e_inv1 := ltac:(inst sim_inv1).
Definition e_RI_of := ltac:(inst RI_of).
Definition e_cur_facts := ltac:(inst cur_facts).
Definition e_sim_src := ltac:(inst sim_src).
Definition e_new := ltac:(inst sim_new).
Definition e_try := sim_try_inline space_table punct_table norm url_table email_table re_email_domain re_open_tag re_close_tag
                      punct_rune space_rune refs src pre e Hpre Hpads Hne He1 He2 He3 Hke.

(* at the same position of a line of pre with bytes left on it, the reader over pre is in range *)
Lemma eqs_in_range r r' : EQS r r' -> s_start (b_pos r) < s_stop (b_pos r) -> b_in_range r = true.
Proof.
  intros (I & J & (El & Ep & Hl & Hq)) Hlt. unfold b_in_range, b_nsegs. rewrite (i_segs _ _ _ I), (i_last _ _ _ I).
  destruct (nth_pre_lt pre (b_line r)) as [sg Hsg]; [pose proof (i_line _ _ _ I); lia|].
  destruct (i_cur _ _ _ I sg Hsg) as (C1 & C2 & _). destruct (e_cur_facts _ _ Hsg) as (F1 & F2 & _). lia.
Qed.

(* ---------- scan_line ---------- *)
Definition scan_post (line : bytes) (i : Z) (stop0 : Z) (out out' : (ist * bool) + (ist * Z * seg)) : Prop :=
  match out, out' with
  | inl (s1, esc), inl (s1', esc') => t_c s1' = t_c s1 /\ esc' = esc /\ Sim (t_r s1) (t_r s1')
  | inr (s1, n1, sp1), inr (s1', n1', sp1') =>
    t_c s1' = t_c s1 /\ n1' = n1 /\ sp1' = sp1 /\ EQS (t_r s1) (t_r s1') /\
    exists i1, 0 <= n1 <= i1 /\ i1 <= zlen line /\ s_stop (b_pos (t_r s1)) = stop0 /\
               s_stop (b_pos (t_r s1)) - s_start (b_pos (t_r s1)) = zlen line - (i1 - n1) /\
               (forall j, i <= j < zlen line -> nth_byte line j = 10%N -> i1 <= j)
  | _, _ => False
  end.

Lemma sim_scan_line : forall fuel line i line_length n escaped start_pos c r r' parent out,
  EQS r r' -> 0 <= n <= i -> i <= zlen line ->
  s_stop (b_pos r) - s_start (b_pos r) = zlen line - (i - n) ->
  SCAN fuel line i line_length n escaped start_pos {| t_c := c; t_r := r |} parent = Ok out ->
  exists out', SCAN fuel line i line_length n escaped start_pos {| t_c := c; t_r := r' |} parent = Ok out' /\ scan_post line i (s_stop (b_pos r)) out out'.
Proof.
  induction fuel as [|f IH]; intros line i line_length n escaped start_pos c r r' parent out Q Hn Hi Hlen H; [discriminate H|].
  cbn [scan_line] in *.
  assert (Hstop : exists out', Ok (inr ({| t_c := c; t_r := r' |}, n, start_pos)) = Ok out' /\
                   scan_post line i (s_stop (b_pos r)) (inr ({| t_c := c; t_r := r |}, n, start_pos)) out').
  { eexists. split; [reflexivity|]. cbn [scan_post t_c t_r]. split; [reflexivity|]. split; [reflexivity|]. split; [reflexivity|]. split; [exact Q|].
    exists i. split; [lia|]. split; [lia|]. split; [reflexivity|]. split; [lia|]. intros j Hj _. lia. }
  destruct (line_length <=? i); [inversion H; subst out; exact Hstop|].
  destruct (zskip i line) as [|ch tl] eqn:Ez; [inversion H; subst out; exact Hstop|].
  destruct (N.eqb_spec ch 10) as [E10|N10]; [inversion H; subst out; exact Hstop|].
  destruct (zskip_cons_nth line i ch tl ltac:(lia) Ez) as [Hilt Hnth]. clear Hstop.
  (* the consultation of the inline parsers *)
  match type of H with bind ?X _ = _ => destruct X as [res| |] eqn:Er; cbn [bind] in H; try discriminate H end.
  match goal with |- exists out', bind ?X' _ = _ /\ _ =>
    assert (Hr : exists res', X' = Ok res' /\
      match res, res' with
      | inl s1, inl s1' => t_c s1' = t_c s1 /\ Sim (t_r s1) (t_r s1')
      | inr (s1, n1, sp1), inr (s1', n1', sp1') =>
        t_c s1' = t_c s1 /\ n1' = n1 /\ sp1' = sp1 /\ EQS (t_r s1) (t_r s1') /\ 0 <= n1 <= i /\
        s_stop (b_pos (t_r s1)) = s_stop (b_pos r) /\
        s_stop (b_pos (t_r s1)) - s_start (b_pos (t_r s1)) = zlen line - (i - n1)
      | _, _ => False
      end) end.
  { match type of Er with match ?IPS with [] => _ | _ => _ end = _ => destruct IPS as [|ip0 ips0] eqn:Eips end.
    { inversion Er; subst res. eexists. split; [reflexivity|]. cbn [t_c t_r]. split; [reflexivity|]. split; [reflexivity|]. split; [reflexivity|]. split; [exact Q|]. split; [lia|]. split; [reflexivity|lia]. }
    nrm. bd Er rd Ea.
    destruct (e_advance_fast r r' n Q ltac:(lia)) as (rd0 & rd' & Ea0 & Ea' & Qd & Ld & Pd). rewrite Ea in Ea0. inversion Ea0; subst rd0. clear Ea0.
    rewrite Ea'. nrm.
    pose proof Qd as (Id & Jd & (Eld & Epd & _)). rewrite Eld, Epd.
    assert (Hind : b_in_range rd = true).
    { apply (eqs_in_range _ _ Qd). rewrite Pd. unfold pos_add. cbn [s_start s_stop]. lia. }
    bd Er t Et. nrm. destruct t as [s2 sp2].
    assert (Ht : exists c2, s2 = {| t_c := c2; t_r := rd |} /\
               (if negb (i =? 0)
                then bt <- seg_between start_pos (b_pos rd);; c' <- merge_or_append c parent bt;; Ok ({| t_c := c'; t_r := rd' |}, b_pos rd)
                else Ok ({| t_c := c; t_r := rd' |}, start_pos)) = Ok ({| t_c := c2; t_r := rd' |}, sp2)).
    { destruct (negb (i =? 0)).
      - bd Et bt Eb. bd Et c' Em. inversion Et; subst. exists c'. split; [reflexivity|]. cbn [bind]. rewrite Em. reflexivity.
      - inversion Et; subst. exists c. split; reflexivity. }
    destruct Ht as (c2 & -> & Et'). rewrite Et'. nrm.
    bd Er x Ex. destruct x as [s3 node].
    destruct (e_try rd rd' Qd Hind (ip0 :: ips0) c2 rd rd' parent s3 node (eqs_sim _ _ _ _ _ Qd) Hind Ex) as (r3' & Ex' & S3 & X3).
    rewrite Ex'. nrm. destruct node as [nd|].
    - bd Er h Eh. inversion Er; subst res. eexists. split; [reflexivity|]. cbn [t_c t_r]. auto.
    - inversion Er; subst res. eexists. split; [reflexivity|]. cbn [t_c t_r].
      destruct (X3 eq_refl (fun C => ltac:(discriminate C))) as [Q3 Y3]. destruct (Y3 ltac:(discriminate)) as [L3 P3].
      split; [reflexivity|]. split; [reflexivity|]. split; [reflexivity|]. split; [exact Q3|]. split; [lia|].
      rewrite P3, Pd. unfold pos_add. cbn [s_start s_stop]. split; [reflexivity|lia]. }
  destruct Hr as (res' & Er' & Hrel). rewrite Er'. nrm.
  destruct res as [s1|[[s1 n1] sp1]]; destruct res' as [s1'|[[s1' n1'] sp1']]; try contradiction.
  - inversion H; subst out. eexists. split; [reflexivity|]. cbn [scan_post]. destruct Hrel as [A B]. auto.
  - destruct Hrel as (Ec & -> & -> & Q1 & Hn1 & Hst1 & Hlen1). destruct s1 as [c1 r1], s1' as [c1' r1']. cbn [t_c t_r] in *. subst c1'.
    assert (Hnext : forall esc, SCAN f line (i + 1) line_length (n1 + 1) esc sp1 {| t_c := c1; t_r := r1 |} parent = Ok out ->
              exists out', SCAN f line (i + 1) line_length (n1 + 1) esc sp1 {| t_c := c1; t_r := r1' |} parent = Ok out' /\ scan_post line i (s_stop (b_pos r)) out out').
    { intros esc Hsc. destruct (IH line (i + 1) line_length (n1 + 1) esc sp1 c1 r1 r1' parent out Q1 ltac:(lia) ltac:(lia) ltac:(lia) Hsc) as (out' & Eo' & Hp).
      exists out'. split; [exact Eo'|]. unfold scan_post in *. destruct out as [[sa ea]|[[sa na] spa]]; destruct out' as [[sb eb]|[[sb nb] spb]]; try contradiction; [exact Hp|].
      destruct Hp as (A1 & A2 & A3 & A4 & (i1 & B1 & B2 & B0 & B3 & B4)). split; [exact A1|]. split; [exact A2|]. split; [exact A3|]. split; [exact A4|].
      exists i1. split; [lia|]. split; [lia|]. split; [congruence|]. split; [lia|]. intros j Hj Hj10. destruct (Z.eq_dec j i) as [->|Nj]; [congruence|]. apply B4; [lia|exact Hj10]. }
    destruct escaped; [exact (Hnext _ H)|]. destruct (N.eqb ch 92); exact (Hnext _ H).
Qed.

(* ---------- the loop of parseBlock ---------- *)
Lemma sim_loop : forall fuel fuel' c r r' parent escaped s1, (fuel <= fuel')%nat -> Sim r r' ->
  LOOP fuel {| t_c := c; t_r := r |} parent escaped = Ok s1 ->
  exists r1', LOOP fuel' {| t_c := c; t_r := r' |} parent escaped = Ok {| t_c := t_c s1; t_r := r1' |} /\ Sim (t_r s1) r1'.
Proof.
  induction fuel as [|f IH]; intros fuel' c r r' parent escaped s1 Hf SM H; [discriminate H|].
  destruct fuel' as [|f']; [lia|]. cbn [parse_block_loop] in *. nrm.
  bd H y Ey. destruct y as [[r0 ln] sg0].
  destruct (e_peek_line r r' r0 ln sg0 SM Ey) as [-> [(v & -> & Hin & Q & -> & E')|(-> & Hout & E')]]; rewrite E'; nrm.
  2:{ inversion H; subst. exists r'. cbn [t_c t_r]. auto. }
  pose proof Q as (I & J & (El & Ep & Hl & Hq)). rewrite El, Ep.
  pose proof (e_RI_of r I Hin) as Hr.
  destruct (ri_peek _ _ _ _ _ _ Hr Ey) as (_ & _ & (_ & Hv & Hvl & Hp0 & Hp1 & Hp2 & _)).
  match type of H with context [match ?X with pair _ _ => _ end] =>
    match type of X with (Z * bool * bool * bool)%type => destruct X as [[[line_length hard] visible] soft] end end.
  bd H x Esc.
  destruct (sim_scan_line _ v 0 _ 0 _ _ _ r r' _ _ Q ltac:(lia) (zlen_nonneg v) ltac:(lia) Esc) as (x' & Esc' & Hpost).
  rewrite Esc'. nrm. unfold scan_post in Hpost.
  destruct x as [[sa ea]|[[sa na] spa]]; destruct x' as [[sb eb]|[[sb nb] spb]]; try contradiction.
  - destruct Hpost as (Ec & -> & SS). destruct sa as [ca ra], sb as [cb rb]. cbn [t_c t_r] in *. subst cb.
    apply (IH f' ca ra rb); [lia|exact SS|exact H].
  - destruct Hpost as (Ec & -> & -> & QS & (i1 & Hn1 & Hi1 & Hst & Hlen1 & Hnl1)).
    destruct sa as [ca ra], sb as [cb rb]. cbn [t_c t_r] in *. subst cb.
    (* the final Advance: strictly inside the line, or the line has no newline and ends the source *)
    match type of H with bind ?X _ = _ => destruct X as [r1| |] eqn:Ea; cbn [bind] in H; try discriminate H end.
    assert (Ha : exists r1', (if negb (na =? 0) then b_advance rb na else Ok rb) = Ok r1' /\ EQS r1 r1').
    { destruct (Z.eqb_spec na 0) as [E0|N0]; cbn [negb] in *.
      - inversion Ea; subst r1. exists rb. auto.
      - destruct (Z_lt_dec i1 (zlen v)) as [Hlt|Hge].
        + destruct (e_advance_fast ra rb na QS ltac:(lia)) as (x0 & r1' & Ea0 & Ea' & Q1 & _). rewrite Ea in Ea0. inversion Ea0; subst x0.
          exists r1'. auto.
        + assert (Ei1 : i1 = zlen v) by lia.
          assert (Ek : k' = k).
          { destruct (nth_pre_lt pre (b_line r)) as [sg Hsg]; [pose proof (i_line _ _ _ I); lia|].
            destruct (i_cur _ _ _ I sg Hsg) as (C1 & _). destruct (e_cur_facts _ _ Hsg) as (_ & F2 & _).
            rewrite Forall_forall in Hnl. destruct (Hnl sg (nth_error_In _ _ Hsg)) as [Hz|H10].
            - lia.
            - exfalso. assert (Hlast : nth_byte v (zlen v - 1) = 10%N).
              { unfold nth_byte. remember (zlen v - 1) as j eqn:Ej. rewrite Hv. rewrite ParseBlocksTotalReader.nth_sub by lia.
                rewrite <- C1 in H10. unfold nth_byte in H10.
                replace (s_start (b_pos r) + j) with (s_stop (b_pos r) - 1) by lia. exact H10. }
              pose proof (Hnl1 (zlen v - 1) ltac:(lia) Hlast). lia. }
          destruct (e_advance ra rb na r1 (eqs_sim _ _ _ _ _ QS) ltac:(lia) Ea) as (r1' & Ea' & S1 & Q1 & _).
          exists r1'. split; [exact Ea'|]. destruct QS as (_ & _ & QE). destruct S1 as (I1 & J1 & _).
          split; [exact I1|]. split; [exact J1|]. exact (Q1 Ek QE). }
    destruct Ha as (r1' & Ea' & Q1). rewrite Ea'. nrm.
    pose proof Q1 as (I1 & J1 & (El1 & Ep1 & _)). rewrite El1, Ep1, (e_sim_src _ _ (eqs_sim _ _ _ _ _ Q1)).
    destruct (negb (b_line r =? b_line r1)).
    { apply (IH f' ca r1 r1'); [lia|exact (eqs_sim _ _ _ _ _ Q1)|exact H]. }
    bd H diff Ed. nrm. bd H t Et. nrm. destruct t as [c2 tseg]. destruct (new_inode c2 _) as [c3 tx].
    bd H h Eh. nrm. bd H r2 E2. destruct (e_advance_line r1 r1' r2 (eqs_sim _ _ _ _ _ Q1) E2) as (r2' & E2' & S2 & _). rewrite E2'. nrm.
    apply (IH f' _ r2 r2'); [lia|exact S2|exact H].
Qed.

(* ---------- parse_block and inline_children ---------- *)
Notation PB := (parse_block space_table punct_table norm url_table email_table re_email_domain re_open_tag re_close_tag
                  punct_rune space_rune refs).
Notation IC := (inline_children space_table punct_table norm url_table email_table re_email_domain re_open_tag re_close_tag
                  punct_rune space_rune refs).

Lemma parse_block_app c : PB src pre = Ok c -> PB src (pre ++ [e]) = Ok c.
Proof.
  unfold parse_block. intros H. bd H r Er. destruct (e_new r Er) as (r' & Er' & Q & _). rewrite Er'. cbn [bind].
  bd H s1 El.
  assert (Hf : (2 * length src + 2 * length pre + 8 <= 2 * length src + 2 * length (pre ++ [e]) + 8)%nat) by (rewrite app_length; lia).
  destruct (sim_loop _ _ _ _ _ _ _ _ Hf (eqs_sim _ _ _ _ _ Q) El) as (r1' & El' & S1). rewrite El'. cbn [bind].
  unfold ifuel in *. cbn [t_c t_r] in *. rewrite (e_sim_src _ _ S1). exact H.
Qed.

Lemma inline_children_app ts : IC src pre = Ok ts -> IC src (pre ++ [e]) = Ok ts.
Proof.
  unfold inline_children. intros H. bd H c Ec. rewrite (parse_block_app c Ec). cbn [bind]. exact H.
Qed.

End E.
