(* The invariant gheap / gctx / gst of GfmConservativeDefs.v (no Emphasis node of level <= 0, no
   Delimiter node with the character '~') is preserved by every function of model/InlineParse.v
   below closer_loop / process_delimiters / process_link_label / link_parse. *)
Require Import GM.model.Base GM.model.Util GM.model.Reader GM.model.Regex GM.model.Delim
               GM.model.CodeSpan GM.model.BlockParse GM.model.InlineParse.
Require Import GM.proofs.GfmConservativeDefs.
From Coq Require Import List ZArith NArith Bool Lia.
Import ListNotations.
Open Scope Z_scope.

(* ---- the heap ---- *)
Lemma iset_g h i n : gheap h -> gk (ik n) -> gheap (iset h i n).
Proof.
  unfold gheap. intros Hh Hn. revert i.
  induction Hh as [|x t Hx Ht IH]; intros i; destruct i as [|i]; cbn [iset]; constructor; auto.
Qed.

Lemma iget_g h i n : gheap h -> iget h i = Ok n -> gk (ik n).
Proof.
  unfold gheap, iget. intros Hh H. destruct (nth_error h i) as [m|] eqn:E; [|discriminate H].
  injection H as H. subst m. apply nth_error_In in E.
  rewrite Forall_forall in Hh. exact (Hh n E).
Qed.

Lemma iupd_g h i f h' :
  iupd h i f = Ok h' -> gheap h -> (forall m, gk (ik m) -> gk (ik (f m))) -> gheap h'.
Proof.
  unfold iupd. intros H Hh Hf. gc_bind H n Hn. injection H as H. subst h'.
  apply iset_g; [exact Hh|]. apply Hf. eapply iget_g; eauto.
Qed.

Lemma gk_iset_par m p : gk (ik m) -> gk (ik (iset_par m p)).
Proof. intros H; exact H. Qed.
Lemma gk_iset_ch m c : gk (ik m) -> gk (ik (iset_ch m c)).
Proof. intros H; exact H. Qed.
Lemma gk_iset_kind m k : gk k -> gk (ik (iset_kind m k)).
Proof. intros H; exact H. Qed.
Lemma gk_text s a b c : gk (IText s a b c).
Proof. exact I. Qed.
Lemma gk_mk_text s : gk (mk_text s).
Proof. exact I. Qed.

Lemma iupd_par_g h i p h' : iupd h i (fun m => iset_par m p) = Ok h' -> gheap h -> gheap h'.
Proof. intros H Hh. eapply iupd_g; eauto. Qed.
Lemma iupd_ch_g h i (g : list nat -> list nat) h' :
  iupd h i (fun m => iset_ch m (g (ich m))) = Ok h' -> gheap h -> gheap h'.
Proof. intros H Hh. eapply iupd_g; eauto. Qed.
Lemma iupd_kind_g h i k h' : iupd h i (fun m => iset_kind m k) = Ok h' -> gheap h -> gk k -> gheap h'.
Proof. intros H Hh Hk. eapply iupd_g; eauto. Qed.

Lemma i_detach_g h c h' : i_detach h c = Ok h' -> gheap h -> gheap h'.
Proof.
  unfold i_detach. intros H Hh. gc_bind H n Hn.
  destruct (ipar n) as [p|]; [|injection H as H; subst; exact Hh].
  gc_bind H h1 H1. eapply iupd_par_g; [exact H|].
  eapply (iupd_ch_g _ _ (remove_id c)); eauto.
Qed.

Lemma i_append_g h p c h' : i_append h p c = Ok h' -> gheap h -> gheap h'.
Proof.
  unfold i_append. intros H Hh. gc_bind H h1 H1. gc_bind H h2 H2.
  eapply (iupd_ch_g _ _ (fun l => l ++ [c])); [exact H|].
  eapply iupd_par_g; [exact H2|]. eapply i_detach_g; eauto.
Qed.

Lemma i_remove_g h p c h' : i_remove h p c = Ok h' -> gheap h -> gheap h'.
Proof.
  unfold i_remove. intros H Hh. gc_bind H n Hn.
  destruct (opt_nat_eqb (ipar n) (Some p)); [eapply i_detach_g; eauto|].
  injection H as H; subst; exact Hh.
Qed.

Lemma i_insert_before_g h p ref new h' : i_insert_before h p ref new = Ok h' -> gheap h -> gheap h'.
Proof.
  unfold i_insert_before. intros H Hh. gc_bind H r Hr.
  destruct (opt_nat_eqb (ipar r) (Some p)); [|eapply i_append_g; eauto].
  gc_bind H h1 H1. gc_bind H h2 H2.
  eapply iupd_par_g; [exact H|].
  eapply (iupd_ch_g _ _ (insert_before_id ref new)); [exact H2|]. eapply i_detach_g; eauto.
Qed.

Lemma i_replace_g h p old new h' : i_replace h p old new = Ok h' -> gheap h -> gheap h'.
Proof.
  unfold i_replace. intros H Hh. gc_bind H h1 H1.
  eapply i_remove_g; [exact H|]. eapply i_insert_before_g; eauto.
Qed.

Lemma i_insert_after_g h p ref new h' : i_insert_after h p ref new = Ok h' -> gheap h -> gheap h'.
Proof.
  unfold i_insert_after. intros H Hh. gc_bind H r Hr.
  destruct (opt_nat_eqb (ipar r) (Some p)); [|eapply i_append_g; eauto].
  gc_bind H h1 H1. gc_bind H nx Hnx.
  assert (Hh1 : gheap h1) by (eapply i_detach_g; eauto).
  destruct nx as [y|]; [eapply i_insert_before_g; eauto|eapply i_append_g; eauto].
Qed.

(* ---- delimiters ---- *)
Lemma dget_ch_g h d sg co cc len orig ch p nx :
  gheap h -> dget h d = Ok (sg, co, cc, len, orig, ch, p, nx) -> ch <> 126%N.
Proof.
  unfold dget. intros Hh H. gc_bind H n Hn.
  apply (iget_g _ _ _ Hh) in Hn.
  destruct (ik n) as [| | | | | | | |s co' cc' len' orig' ch' p' nx'|] eqn:E; try discriminate H.
  injection H as -> -> -> -> -> -> -> ->. exact Hn.
Qed.

Lemma dset_links_g h d p nx h' : dset_links h d p nx = Ok h' -> gheap h -> gheap h'.
Proof.
  unfold dset_links. intros H Hh. gc_bind H n Hn.
  apply (iget_g _ _ _ Hh) in Hn.
  destruct (ik n) as [| | | | | | | |s co cc len orig ch p0 nx0|] eqn:E; try discriminate H.
  injection H as H. subst h'. apply iset_g; [exact Hh|exact Hn].
Qed.

Lemma dset_prev_g h d p h' : dset_prev h d p = Ok h' -> gheap h -> gheap h'.
Proof.
  unfold dset_prev. intros H Hh. gc_bind H x Hx.
  destruct x as [[[[[[[sg co] cc] len] orig] ch] p0] nx]. eapply dset_links_g; eauto.
Qed.

Lemma dset_next_g h d nx h' : dset_next h d nx = Ok h' -> gheap h -> gheap h'.
Proof.
  unfold dset_next. intros H Hh. gc_bind H x Hx.
  destruct x as [[[[[[[sg co] cc] len] orig] ch] p0] nx0]. eapply dset_links_g; eauto.
Qed.

Lemma consume_chars_g h d n h' : consume_chars h d n = Ok h' -> gheap h -> gheap h'.
Proof.
  unfold consume_chars. intros H Hh. gc_bind H nd Hn.
  apply (iget_g _ _ _ Hh) in Hn.
  destruct (ik nd) as [| | | | | | | |s co cc len orig ch p0 nx0|] eqn:E; try discriminate H.
  injection H as H. subst h'. apply iset_g; [exact Hh|exact Hn].
Qed.

Lemma move_children_g fuel : forall h cur stop node h',
  move_children fuel h cur stop node = Ok h' -> gheap h -> gheap h'.
Proof.
  induction fuel as [|f IH]; intros h cur stop node h' H Hh; cbn [move_children] in H; [discriminate H|].
  destruct cur as [x|]; [|injection H as H; subst; exact Hh].
  destruct (opt_nat_eqb (Some x) stop); [injection H as H; subst; exact Hh|].
  gc_bind H nx Hnx. gc_bind H h1 H1.
  eapply IH; [exact H|]. eapply i_append_g; eauto.
Qed.

Lemma lset_g h x p nx fs ls h' : lset h x p nx fs ls = Ok h' -> gheap h -> gheap h'.
Proof.
  unfold lset. intros H Hh. gc_bind H n Hn.
  destruct (ik n); try discriminate H.
  injection H as H. subst h'. apply iset_g; [exact Hh|exact I].
Qed.

Lemma calc_consumption_cases a b c d e f :
  calc_consumption a b c d e f = 0 \/ calc_consumption a b c d e f = 1 \/ calc_consumption a b c d e f = 2.
Proof. unfold calc_consumption. destruct (_ && _ && _); [auto|]. destruct (_ && _); auto. Qed.

Lemma find_opener_pos fuel : forall h cur b cl_open cl_len cl_orig cl_ch maybe op consume mb,
  find_opener fuel h cur b cl_open cl_len cl_orig cl_ch maybe = Ok (Some (op, consume), mb) -> 0 < consume.
Proof.
  induction fuel as [|f IH]; intros h cur b cl_open cl_len cl_orig cl_ch maybe op consume mb H;
    cbn [find_opener] in H; [discriminate H|].
  destruct cur as [o|]; [|discriminate H].
  destruct (is_bottom b o); [discriminate H|].
  gc_bind H x Hx. destruct x as [[[[[[[sg co] cc] len] orig] ch] p] nx].
  destruct (co && N.eqb ch cl_ch); [|eapply IH; exact H].
  destruct (Z.ltb_spec 0 (calc_consumption cc len orig cl_open cl_len cl_orig)) as [Hlt|Hge].
  - injection H as H1 H2 H3. subst. exact Hlt.
  - eapply IH; exact H.
Qed.

(* ---- the parse context ---- *)
Lemma gheap_app h n : gheap h -> gk (ik n) -> gheap (h ++ [n]).
Proof. unfold gheap. intros Hh Hn. apply Forall_app. split; [exact Hh|]. constructor; [exact Hn|constructor]. Qed.

Lemma new_inode_g c k c' n : new_inode c k = (c', n) -> gctx c -> gk k -> gctx c'.
Proof.
  unfold new_inode, gctx. intros H Hc Hk. injection H as H1 H2. subst c'. cbn [i_h cx_h].
  apply gheap_app; [exact Hc|exact Hk].
Qed.

Lemma cx_h_g c h : gheap h -> gctx (cx_h c h).
Proof. intros H; exact H. Qed.
Lemma cx_d_h c f l : i_h (cx_d c f l) = i_h c.
Proof. reflexivity. Qed.
Lemma cx_labels_h c v : i_h (cx_labels c v) = i_h c.
Proof. reflexivity. Qed.
Lemma cx_bottoms_h c v : i_h (cx_bottoms c v) = i_h c.
Proof. reflexivity. Qed.
Lemma push_bottom_h c : i_h (push_bottom c) = i_h c.
Proof. reflexivity. Qed.
Lemma pop_bottom_h c : i_h (fst (pop_bottom c)) = i_h c.
Proof. unfold pop_bottom. destruct (rev (i_bottoms c)) as [|v pre]; reflexivity. Qed.
Lemma pop_bottom_eq_h c c' b : pop_bottom c = (c', b) -> i_h c' = i_h c.
Proof. intros H. rewrite <- (pop_bottom_h c), H. reflexivity. Qed.

Lemma cx_d_g c f l : gctx c -> gctx (cx_d c f l).
Proof. intros H; exact H. Qed.
Lemma cx_labels_g c v : gctx c -> gctx (cx_labels c v).
Proof. intros H; exact H. Qed.
Lemma cx_bottoms_g c v : gctx c -> gctx (cx_bottoms c v).
Proof. intros H; exact H. Qed.
Lemma push_bottom_g c : gctx c -> gctx (push_bottom c).
Proof. intros H; exact H. Qed.
Lemma pop_bottom_g c : gctx c -> gctx (fst (pop_bottom c)).
Proof. unfold gctx. rewrite pop_bottom_h. intros H; exact H. Qed.

(* ---- automation: invert the run, then chain the lemmas along the hypotheses ---- *)
Ltac gp_step H :=
  match type of H with
  | Ok _ = Ok _ => inversion H; clear H; try subst
  | Panic = Ok _ => discriminate H
  | OutOfFuel = Ok _ => discriminate H
  | bind _ _ = Ok _ =>
    let x := fresh "x" in let Hx := fresh "Hx" in gc_bind H x Hx; cbv beta zeta in H
  | (match ?x with _ => _ end) = Ok _ =>
    let E := fresh "E" in destruct x eqn:E
  end.
Ltac gp := repeat match goal with H : _ = Ok _ |- _ => gp_step H end.
Ltac gnorm :=
  unfold gctx, gst, new_inode, push_bottom in *;
  cbn [i_h cx_h cx_d cx_labels cx_bottoms t_c t_r ist_c ist_r fst snd] in *.

Create HintDb gdb.
#[export] Hint Extern 1 (gheap _) => eapply i_detach_g; [eassumption|] : gdb.
#[export] Hint Extern 1 (gheap _) => eapply i_append_g; [eassumption|] : gdb.
#[export] Hint Extern 1 (gheap _) => eapply i_remove_g; [eassumption|] : gdb.
#[export] Hint Extern 1 (gheap _) => eapply i_insert_before_g; [eassumption|] : gdb.
#[export] Hint Extern 1 (gheap _) => eapply i_insert_after_g; [eassumption|] : gdb.
#[export] Hint Extern 1 (gheap _) => eapply i_replace_g; [eassumption|] : gdb.
#[export] Hint Extern 1 (gheap _) => eapply dset_links_g; [eassumption|] : gdb.
#[export] Hint Extern 1 (gheap _) => eapply dset_prev_g; [eassumption|] : gdb.
#[export] Hint Extern 1 (gheap _) => eapply dset_next_g; [eassumption|] : gdb.
#[export] Hint Extern 1 (gheap _) => eapply consume_chars_g; [eassumption|] : gdb.
#[export] Hint Extern 1 (gheap _) => eapply move_children_g; [eassumption|] : gdb.
#[export] Hint Extern 1 (gheap _) => eapply lset_g; [eassumption|] : gdb.
#[export] Hint Extern 1 (gheap _) => eapply iupd_kind_g; [eassumption| |] : gdb.
#[export] Hint Extern 1 (gheap _) => eapply iupd_par_g; [eassumption|] : gdb.
#[export] Hint Extern 1 (gheap (_ ++ [_])) => apply gheap_app : gdb.
#[export] Hint Extern 1 (gk _) => exact I : gdb.
#[export] Hint Extern 1 (gk (ik _)) => eapply iget_g; [|eassumption] : gdb.
Ltac gnorm_goal :=
  unfold gctx, gst, new_inode, push_bottom;
  cbn [i_h cx_h cx_d cx_labels cx_bottoms t_c t_r ist_c ist_r fst snd].
#[export] Hint Extern 0 (gctx _) => progress gnorm_goal : gdb.
#[export] Hint Extern 0 (gst _) => progress gnorm_goal : gdb.
#[export] Hint Extern 0 (gheap (i_h _)) => progress gnorm_goal : gdb.
Ltac gauto := gnorm; eauto 20 with gdb.

Lemma merge_or_append_g c parent s c' : merge_or_append c parent s = Ok c' -> gctx c -> gctx c'.
Proof. unfold merge_or_append. intros H Hc. gnorm. gp; gauto. Qed.

Lemma merge_or_replace_g c parent n s c' : merge_or_replace c parent n s = Ok c' -> gctx c -> gctx c'.
Proof. unfold merge_or_replace. intros H Hc. gnorm. gp; gauto. Qed.
#[export] Hint Extern 1 (gheap _) => eapply merge_or_append_g; [eassumption|] : gdb.
#[export] Hint Extern 1 (gheap _) => eapply merge_or_replace_g; [eassumption|] : gdb.

Lemma push_delimiter_g c d c' : push_delimiter c d = Ok c' -> gctx c -> gctx c'.
Proof. unfold push_delimiter. intros H Hc. gnorm. gp; gauto. Qed.
#[export] Hint Extern 1 (gheap _) => eapply push_delimiter_g; [eassumption|] : gdb.

Lemma remove_delimiter_g c d c' : remove_delimiter c d = Ok c' -> gctx c -> gctx c'.
Proof.
  unfold remove_delimiter. intros H Hc. gc_bind H x Hx.
  destruct x as [[[[[[[sg co] cc] len] orig] ch] p] nx]. cbv beta zeta in H.
  gc_bind H c1 H1. cbv beta zeta in H.
  assert (Hc1 : gctx c1) by (destruct p as [pp|]; destruct nx as [n|]; gnorm; gp; gauto).
  clear H1. destruct nx as [n|]; gnorm; gp; gauto.
Qed.
#[export] Hint Extern 1 (gheap _) => eapply remove_delimiter_g; [eassumption|] : gdb.

Lemma clear_loop_g fuel : forall c cur b c', clear_loop fuel c cur b = Ok c' -> gctx c -> gctx c'.
Proof.
  induction fuel as [|f IH]; intros c cur b c' H Hc; cbn [clear_loop] in H; [discriminate H|].
  destruct cur as [x|]; [|injection H as H; subst; exact Hc].
  destruct (is_bottom b x); [injection H as H; subst; exact Hc|].
  gc_bind H pv Hpv. gc_bind H isd Hisd. gc_bind H c1 H1.
  eapply IH; [exact H|]. destruct isd; gnorm; gp; gauto.
Qed.

Lemma clear_delimiters_g c b c' : clear_delimiters c b = Ok c' -> gctx c -> gctx c'.
Proof.
  unfold clear_delimiters. intros H Hc. destruct (i_dlast c) as [l|].
  - eapply clear_loop_g; eauto.
  - injection H as H; subst; exact Hc.
Qed.

Lemma remove_between_g fuel : forall c cur closer c', remove_between fuel c cur closer = Ok c' -> gctx c -> gctx c'.
Proof.
  induction fuel as [|f IH]; intros c cur closer c' H Hc; cbn [remove_between] in H; [discriminate H|].
  destruct cur as [x|]; [|injection H as H; subst; exact Hc].
  destruct (Nat.eqb x closer); [injection H as H; subst; exact Hc|].
  gc_bind H d Hd. destruct d as [[[[[[[sg co] cc] len] orig] ch] p] nx]. gc_bind H c1 H1.
  eapply IH; [exact H|]. eapply remove_delimiter_g; eauto.
Qed.

(* ---- label states ---- *)
Lemma push_label_g c v c' : push_label c v = Ok c' -> gctx c -> gctx c'.
Proof. unfold push_label. intros H Hc. gnorm. gp; gauto. Qed.

Lemma remove_label_g c d c' : remove_label c d = Ok c' -> gctx c -> gctx c'.
Proof.
  unfold remove_label. intros H Hc. destruct (i_labels c) as [lst0|]; [|injection H as H; subst; exact Hc].
  gc_bind H x Hx. destruct x as [[[[[sg im] dp] dn] df] dl]. cbv beta zeta in H.
  gc_bind H r Hr. destruct r as [c1 lst]. cbv beta zeta in H.
  assert (Hc1 : gctx c1) by (destruct dp as [pp|]; destruct dn as [nl|]; gnorm; gp; gauto).
  clear Hr. gnorm. gp; gauto.
Qed.
#[export] Hint Extern 1 (gheap _) => eapply remove_label_g; [eassumption|] : gdb.

Lemma close_labels_g fuel : forall c cur c', close_labels fuel c cur = Ok c' -> gctx c -> gctx c'.
Proof.
  induction fuel as [|f IH]; intros c cur c' H Hc; cbn [close_labels] in H; [discriminate H|].
  destruct cur as [x|]; [|injection H as H; subst; exact Hc].
  gc_bind H l Hl. destruct l as [[[[[sg im] lp] nx] lf] ll]. gc_bind H c1 H1. gc_bind H n Hn.
  destruct (ipar n) as [p|]; [|discriminate H].
  unfold new_inode in H. gc_bind H h1 Hh1.
  eapply IH; [exact H|]. gauto.
Qed.

Lemma link_close_block_g c c' : link_close_block c = Ok c' -> gctx c -> gctx c'.
Proof. unfold link_close_block. intros H Hc. eapply close_labels_g; [exact H|]. exact Hc. Qed.

(* ---- Delim.scan_delimiter returns a character of the delimiter class ---- *)
Lemma scan_delimiter_isd pr sr isd line before m co cc len ch :
  scan_delimiter pr sr isd line before m = Ok (Some (co, cc, len, ch)) -> isd ch = true.
Proof.
  unfold scan_delimiter. intros H. destruct line as [|c t]; [discriminate H|].
  destruct (isd c) eqn:Ec; cbn [negb] in H; [|discriminate H].
  destruct (_ <? m); [discriminate H|].
  gc_bind H after Ha. cbv beta zeta in H.
  destruct (N.eqb c 95); injection H as H1 H2 H3 H4; subst ch; exact Ec.
Qed.

(* ---- the state of the inline parsers ---- *)
Lemma ist_c_g s c : gctx c -> gst (ist_c s c).
Proof. intros H; exact H. Qed.
Lemma ist_r_g s r : gst (ist_r s r) <-> gst s.
Proof. split; intros H; exact H. Qed.
Lemma gst_t_c s : gst s <-> gctx (t_c s).
Proof. split; intros H; exact H. Qed.
Lemma gst_mk c r : gst {| t_c := c; t_r := r |} <-> gctx c.
Proof. split; intros H; exact H. Qed.

Lemma label_fail_g s last s' res : gst s -> label_fail s last = Ok (s', res) -> gst s'.
Proof.
  unfold label_fail. intros Hs H. gc_bind H x Hx. destruct x as [[[[[sg im] lp] nx] lf] ll].
  gc_bind H n Hn. destruct (ipar n) as [p|]; [|discriminate H].
  gc_bind H c1 H1. destruct (pop_bottom c1) as [c2 b] eqn:E.
  apply pop_bottom_eq_h in E. injection H as H2 H3. subst s'.
  gnorm. rewrite E. gauto.
Qed.

Section WithTables.
Variable space_table punct_table : list N.
Variable norm : bytes -> bytes.
Variable url_table email_table : list N.
Variable re_email_domain re_open_tag re_close_tag : re.
Variable punct_rune space_rune : N -> bool.
Variable refs : list (bytes * (bytes * option bytes)).

Lemma code_span_add_g n : forall segs c c',
  (fix add (l : list seg) (c : ictx) : result ictx :=
     match l with
     | [] => Ok c
     | sg :: t =>
       let '(c, x) := new_inode c (IText sg false false true) in
       h <- i_append (i_h c) n x ;; add t (cx_h c h)
     end) segs c = Ok c' -> gctx c -> gctx c'.
Proof.
  induction segs as [|sg t IH]; intros c c' H Hc.
  - injection H as H; subst; exact Hc.
  - unfold new_inode in H. gc_bind H h Hh. eapply IH; [exact H|]. gauto.
Qed.

Lemma code_span_parse_s_g s s' res : gst s -> code_span_parse_s space_table s = Ok (s', res) -> gst s'.
Proof.
  unfold code_span_parse_s. intros Hs H. gc_bind H x Hx. destruct x as [r0 r].
  destruct r0 as [segs|sg].
  - unfold new_inode in H. gc_bind H c1 H1. injection H as H2 H3. subst s'.
    apply code_span_add_g in H1; [exact H1|]. gauto.
  - gnorm. gp; gauto.
Qed.

Lemma autolink_parse_g s s' res :
  gst s -> autolink_parse url_table email_table re_email_domain s = Ok (s', res) -> gst s'.
Proof. unfold autolink_parse. intros Hs H. gnorm. gp; gauto. Qed.

Lemma raw_collect_g s closer offset s' res : gst s -> raw_collect s closer offset = Ok (s', res) -> gst s'.
Proof. unfold raw_collect. intros Hs H. gnorm. gp; gauto. Qed.

Lemma raw_regexp_g s rx s' res : gst s -> raw_regexp s rx = Ok (s', res) -> gst s'.
Proof. unfold raw_regexp. intros Hs H. gnorm. gp; gauto. Qed.

Lemma raw_html_parse_g s s' res :
  gst s -> raw_html_parse re_open_tag re_close_tag s = Ok (s', res) -> gst s'.
Proof.
  unfold raw_html_parse. intros Hs H. gc_bind H y Hy. destruct y as [[r line] segment]. cbv beta zeta in H.
  assert (Hs1 : gst (ist_r s r)) by exact Hs.
  repeat match type of H with
  | (if ?b then _ else _) = Ok _ => destruct b
  end;
  try (eapply raw_regexp_g; [exact Hs1|exact H]);
  try (eapply raw_collect_g; [exact Hs1|exact H]);
  gnorm; gp; gauto.
Qed.

Lemma emphasis_parse_g s s' res :
  gst s -> emphasis_parse punct_rune space_rune s = Ok (s', res) -> gst s'.
Proof.
  unfold emphasis_parse. intros Hs H. gc_bind H before Hb. gc_bind H y Hy.
  destruct y as [[r line] segment]. cbv beta zeta in H. gc_bind H d Hd.
  destruct d as [[[[co cc] len] ch]|]; [|injection H as H1 H2; subst s'; exact Hs].
  apply scan_delimiter_isd in Hd.
  assert (Hch : ch <> 126%N).
  { intros ->. discriminate Hd. }
  gnorm. gp. gauto.
Qed.

End WithTables.

(* the remaining context-level lemmas, for `gauto` (= gnorm; eauto 20 with gdb) in the files built on this one *)
#[export] Hint Extern 1 (gheap _) => eapply clear_loop_g; [eassumption|] : gdb.
#[export] Hint Extern 1 (gheap _) => eapply clear_delimiters_g; [eassumption|] : gdb.
#[export] Hint Extern 1 (gheap _) => eapply remove_between_g; [eassumption|] : gdb.
#[export] Hint Extern 1 (gheap _) => eapply push_label_g; [eassumption|] : gdb.
#[export] Hint Extern 1 (gheap _) => eapply close_labels_g; [eassumption|] : gdb.
#[export] Hint Extern 1 (gheap _) => eapply link_close_block_g; [eassumption|] : gdb.
