(* C17 end to end for the GFM parser model (model/GfmI.v): every Table node of every tree
   ParseTreeX yields is rectangular - one header row and body rows that all have as many cells
   as the header, every child of a row a cell, the alignment of a cell that of its column in the
   header - for every source and every subset of the four extensions.

   GfmTableRectTab.v:    the tables TableX.transform yields give tables_ok Table subtrees (good_table)
   GfmTableRectBlk.v:    every table the block phase stores next to the heap is good
   GfmTableRectToTree.v: to_treeX builds a tables_ok tree from a heap and good tables
   GfmTableRectTree.v:   attach_inlinesX and table_ast_transform preserve tables_ok; inline trees
                         have no table nodes *)
Require Import GM.model.Base GM.model.Util GM.model.Reader GM.model.Regex GM.model.HtmlWriter GM.model.Html GM.model.HtmlI
               GM.model.TableX GM.model.BlockParse GM.model.InlineParse GM.model.BlockParseX GM.model.InlineParseX
               GM.model.GfmParse GM.model.GfmI GM.model.GfmSpec.
Require Import GM.proofs.TableProofs GM.proofs.GfmTableRectTab GM.proofs.GfmTableRectBlk
               GM.proofs.GfmTableRectToTree GM.proofs.GfmTableRectTree.
From Coq Require Import List ZArith Bool.
Import ListNotations.

(* the theorem for the model with arbitrary tables and regular expressions *)
Theorem parse_treeX_tables_rect :
  forall xc space_table punct_table norm re_t1o re_t1c re_t2 re_t3 re_t4 re_t5 re_t6 re_t7 allowed_tags
         url_table email_table re_email_domain re_open_tag re_close_tag punct_rune space_rune
         re_task re_url re_www src t,
    parse_treeX xc space_table punct_table norm re_t1o re_t1c re_t2 re_t3 re_t4 re_t5 re_t6 re_t7 allowed_tags
                url_table email_table re_email_domain re_open_tag re_close_tag punct_rune space_rune
                re_task re_url re_www src = Ok t ->
    tables_ok false t = true.
Proof.
  intros xc space_table punct_table norm re_t1o re_t1c re_t2 re_t3 re_t4 re_t5 re_t6 re_t7 allowed_tags
         url_table email_table re_email_domain re_open_tag re_close_tag punct_rune space_rune
         re_task re_url re_www src t H.
  unfold parse_treeX in H.
  TableProofs.bind_inv H y Hy. destruct y as [t0 refs].
  unfold parse_blocks_treeX in Hy.
  TableProofs.bind_inv Hy x Hx. TableProofs.bind_inv Hy t1 Ht1. inversion Hy; subst t1 refs. clear Hy.
  apply parse_blocksX_good in Hx.
  apply (to_treeX_ok _ _ _ _ _ _ Hx) in Ht1.
  TableProofs.bind_inv H t2 Ht2.
  assert (G2 : tables_ok false t2 = true).
  { refine (attach_inlinesX_tables_ok _ _ _ _ _ _ Ht1 Ht2).
    intros b lines ch Hch. exact (inline_childrenX_tables_ok _ _ _ _ _ _ _ _ _ _ _ _ _ _ _ _ _ _ _ Hch). }
  destruct (x_table xc).
  - exact (table_ast_transform_tables_ok _ _ _ _ G2 H).
  - inversion H; subst t. exact G2.
Qed.

Theorem ParseTreeX_tables_rect : forall xc src t, ParseTreeX xc src = Ok t -> tables_ok false t = true.
Proof.
  intros xc src t H. unfold ParseTreeX in H. exact (parse_treeX_tables_rect _ _ _ _ _ _ _ _ _ _ _ _ _ _ _ _ _ _ _ _ _ _ _ _ _ H).
Qed.
