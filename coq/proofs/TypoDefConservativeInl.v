(* C11 for the Typographer / DefinitionList parser model, inline phase: with the Typographer off,
   the generalised copy of the inline phase (model/TypoDefParseT.v) is the inline phase of the
   default parser (model/InlineParse.v), lifted through the state with the two quote counters
   (which stay what they are).  The tree conversion itreeT differs from itree on an Emphasis node
   of a level < -10 only; the heap of the default parser has none (gheap, GfmConservativePrim.v). *)
Require Import GM.model.Base GM.model.Util GM.model.Reader GM.model.Blocks GM.model.ListItem GM.model.Regex GM.model.Delim GM.model.HtmlWriter GM.model.Html
               GM.model.BlockParse GM.model.InlineParse GM.model.InlineParseX GM.model.TypoDefParseT.
Require Import GM.proofs.GfmConservativeDefs GM.proofs.GfmConservativePrim GM.proofs.GfmConservativeInl.
From Coq Require Import List ZArith NArith Bool Lia.
Import ListNotations.
Open Scope Z_scope.

Lemma tst_s_s x a b : tst_s (tst_s x a) b = tst_s x b.
Proof. reflexivity. Qed.
Lemma tst_s_id x : tst_s x (ts_s x) = x.
Proof. destruct x; reflexivity. Qed.

Section Inl.
Variable space_table punct_table : list N.
Variable norm : bytes -> bytes.
Variable url_table email_table : list N.
Variable re_email_domain re_open_tag re_close_tag : re.
Variable punct_rune space_rune : N -> bool.
Variable uni_punct uni_space uni_digit uni_letter : N -> bool.
Variable refs : list (bytes * (bytes * option bytes)).

Notation IP := (ip_parse space_table punct_table norm url_table email_table re_email_domain re_open_tag re_close_tag punct_rune space_rune refs).
Notation IPT := (ip_parseT space_table punct_table norm url_table email_table re_email_domain re_open_tag re_close_tag punct_rune space_rune uni_punct uni_space uni_digit uni_letter refs).
Notation TI := (try_inline space_table punct_table norm url_table email_table re_email_domain re_open_tag re_close_tag punct_rune space_rune refs).
Notation TIT := (try_inlineT space_table punct_table norm url_table email_table re_email_domain re_open_tag re_close_tag punct_rune space_rune uni_punct uni_space uni_digit uni_letter refs).
Notation SL := (scan_line space_table punct_table norm url_table email_table re_email_domain re_open_tag re_close_tag punct_rune space_rune refs).
Notation SLT b := (scan_lineT b space_table punct_table norm url_table email_table re_email_domain re_open_tag re_close_tag punct_rune space_rune uni_punct uni_space uni_digit uni_letter refs).
Notation PBL := (parse_block_loop space_table punct_table norm url_table email_table re_email_domain re_open_tag re_close_tag punct_rune space_rune refs).
Notation PBLT b := (parse_block_loopT b space_table punct_table norm url_table email_table re_email_domain re_open_tag re_close_tag punct_rune space_rune uni_punct uni_space uni_digit uni_letter refs).
Notation PB := (parse_block space_table punct_table norm url_table email_table re_email_domain re_open_tag re_close_tag punct_rune space_rune refs).
Notation PBT b := (parse_blockT b space_table punct_table norm url_table email_table re_email_domain re_open_tag re_close_tag punct_rune space_rune uni_punct uni_space uni_digit uni_letter refs).

(* the parsers of the default configuration, tried in the state with the counters *)
Lemma try_inlineT_core : forall ips x parent sl sp,
  TIT (map TCore ips) x parent sl sp = (y <- TI ips (ts_s x) parent sl sp ;; Ok (tst_s x (fst y), snd y)).
Proof.
  induction ips as [|p rest IH]; intros x parent sl sp; cbn [map try_inlineT try_inline].
  - cbn [bind fst snd]. rewrite tst_s_id. reflexivity.
  - cbn [ip_parseT]. destruct (IP p (ts_s x) parent) as [[s1 n1]| |]; cbn [bind fst snd]; try reflexivity.
    destruct n1 as [n1|]; [reflexivity|].
    cbn [ts_s tst_s]. destruct (b_set_position (t_r s1) sl sp) as [r1| |]; cbn [bind]; try reflexivity.
    rewrite IH. cbn [ts_s tst_s]. reflexivity.
Qed.

Lemma inline_parsersT_off c : inline_parsersT false c = map TCore (inline_parsers c).
Proof.
  unfold inline_parsersT, inline_parsers.
  destruct (N.eqb c 96); [reflexivity|]. destruct (N.eqb c 91); [rewrite orb_true_r; reflexivity|].
  rewrite orb_false_r. destruct (N.eqb c 33 || N.eqb c 93); [reflexivity|].
  destruct (N.eqb c 60); [reflexivity|].
  destruct (N.eqb c 42); [reflexivity|]. destruct (N.eqb c 95); [reflexivity|]. cbn [orb].
  destruct (N.eqb c 39 || N.eqb c 34 || N.eqb c 45 || N.eqb c 46 || N.eqb c 44 || N.eqb c 62); reflexivity.
Qed.

Definition lift_scanT (x : tst) (y : (ist * bool) + (ist * Z * seg)) : (tst * bool) + (tst * Z * seg) :=
  match y with inl (s, e) => inl (tst_s x s, e) | inr (s, n, sp) => inr (tst_s x s, n, sp) end.

Lemma scan_lineT_core : forall fuel line i ll n esc sp x parent,
  SLT false fuel line i ll n esc sp x parent = (y <- SL fuel line i ll n esc sp (ts_s x) parent ;; Ok (lift_scanT x y)).
Proof.
  induction fuel as [|f IH]; intros line i ll n esc sp x parent; cbn [scan_lineT scan_line]; [reflexivity|].
  destruct (ll <=? i); [cbn [bind lift_scanT]; rewrite tst_s_id; reflexivity|].
  destruct (zskip i line) as [|c tl]; [cbn [bind lift_scanT]; rewrite tst_s_id; reflexivity|].
  destruct (N.eqb c 10); [cbn [bind lift_scanT]; rewrite tst_s_id; reflexivity|].
  cbv zeta. rewrite inline_parsersT_off.
  set (isspace := is_space space_table c && negb (N.eqb c 13) && negb false).
  set (consult := is_punct punct_table c && negb esc || isspace || (i =? 0)).
  set (pchar := if isspace || (i =? 0) && negb (is_punct punct_table c) then 32%N else c).
  set (cips := if consult then inline_parsers pchar else []).
  assert (Hips : (if consult then map TCore (inline_parsers pchar) else []) = map TCore cips)
    by (subst cips; destruct consult; reflexivity).
  rewrite Hips. clear Hips.
  set (RX := match map TCore cips with [] => _ | _ :: _ => _ end).
  set (R := match cips with [] => _ | _ :: _ => _ end).
  assert (HR : RX = (r <- R ;; Ok (match r with inl s1 => inl (tst_s x s1) | inr (s1, n1, sp1) => inr (tst_s x s1, n1, sp1) end))).
  { subst RX R. destruct cips as [|p0 rest0] eqn:Ecips.
    - cbn [map bind]. rewrite tst_s_id. reflexivity.
    - change (map TCore (p0 :: rest0)) with (TCore p0 :: map TCore rest0).
      cbv iota. change (TCore p0 :: map TCore rest0) with (map TCore (p0 :: rest0)).
      destruct (b_advance (t_r (ts_s x)) n) as [rd| |]; cbn [bind]; try reflexivity.
      cbn [t_r t_c ist_r ist_c].
      match goal with |- (bind ?e _ = _) => destruct e as [[s1 sp1]| |]; cbn [bind]; try reflexivity end.
      rewrite try_inlineT_core. cbn [ts_s tst_s].
      destruct (TI (p0 :: rest0) s1 parent (b_line rd) (b_pos rd)) as [[s2 node]| |]; cbn [bind fst snd]; try reflexivity.
      destruct node as [nd|]; [|reflexivity].
      cbn [ts_s tst_s]. destruct (i_append (i_h (t_c s2)) parent nd) as [h| |]; cbn [bind]; reflexivity. }
  rewrite HR. clear HR RX.
  destruct R as [r| |]; cbn [bind]; try reflexivity.
  destruct r as [s1|[[s1 n1] sp1]].
  - reflexivity.
  - destruct esc; [rewrite IH; reflexivity|]. destruct (N.eqb c 92); rewrite IH; reflexivity.
Qed.

Lemma parse_block_loopT_core : forall fuel x parent esc,
  PBLT false fuel x parent esc = (s' <- PBL fuel (ts_s x) parent esc ;; Ok (tst_s x s')).
Proof.
  induction fuel as [|f IH]; intros x parent esc; cbn [parse_block_loopT parse_block_loop]; [reflexivity|].
  destruct (b_peek_line (t_r (ts_s x))) as [[[r line] sg0]| |]; cbn [bind]; try reflexivity.
  destruct line as [line|]; [|reflexivity].
  match goal with |- context [if ?b then (?u, true, true, false) else ?y] => set (LL := if b then (u, true, true, false) else y) end.
  destruct LL as [[[line_length hard] visible] soft].
  cbn [ts_s tst_s t_r ist_r].
  rewrite scan_lineT_core. cbn [ts_s tst_s].
  destruct (SL (S (length line)) line 0 line_length 0 esc (b_pos r) (ist_r (ts_s x) r) parent) as [z| |]; cbn [bind]; try reflexivity.
  destruct z as [[s1 e1]|[[s1 n1] sp1]]; cbn [lift_scanT].
  - rewrite IH. reflexivity.
  - cbn [ts_s tst_s].
    match goal with |- (bind ?e _ = _) => destruct e as [r1| |]; cbn [bind]; try reflexivity end.
    cbn [t_r t_c ist_r].
    destruct (negb (b_line r =? b_line r1)); [rewrite IH; reflexivity|].
    destruct (seg_between sp1 (b_pos r1)) as [diff| |]; cbn [bind]; try reflexivity.
    match goal with |- (bind ?e _ = _) => destruct e as [[c tseg]| |]; cbn [bind]; try reflexivity end.
    destruct (new_inode c (IText tseg soft hard false)) as [c2 tx].
    destruct (i_append (i_h c2) parent tx) as [h| |]; cbn [bind]; try reflexivity.
    destruct (b_advance_line r1) as [r2| |]; cbn [bind]; try reflexivity.
    rewrite IH. reflexivity.
Qed.

Lemma parse_blockT_core cnt src lines :
  PBT false cnt src lines = (c <- PB src lines ;; Ok (c, cnt)).
Proof.
  unfold parse_blockT, parse_block.
  destruct (new_block_reader src lines) as [r| |]; cbn [bind]; try reflexivity.
  rewrite parse_block_loopT_core. cbn [ts_s].
  destruct (PBL (2 * length src + 2 * length lines + 8) {| t_c := init_ictx; t_r := r |} 0%nat false) as [s1| |];
    cbn [bind]; try reflexivity.
  cbn [ts_s tst_s ts_single ts_double].
  destruct (process_delimiters (ifuel s1) (t_c s1) BNil) as [c2| |]; cbn [bind]; try reflexivity.
  destruct (link_close_block c2) as [c3| |]; cbn [bind]; try reflexivity.
  destruct cnt; reflexivity.
Qed.

(* the heap of the default parser has no Emphasis node of a negative level *)
Lemma itreeT_core src h : gheap h -> forall fuel i, itreeT fuel src h i = itree fuel src h i.
Proof.
  intros Hg. induction fuel as [|f IH]; intros i; cbn [itreeT itree]; [reflexivity|].
  destruct (iget h i) as [n| |] eqn:En; cbn [bind]; try reflexivity.
  pose proof (iget_g h i n Hg En) as Hk.
  assert (Hm : map_res (itreeT f src h) (ich n) = map_res (itree f src h) (ich n)).
  { generalize (ich n). induction l as [|y r IHl]; cbn [map_res]; [reflexivity|]. rewrite IH, IHl. reflexivity. }
  rewrite Hm. destruct (map_res (itree f src h) (ich n)) as [kids| |]; cbn [bind]; try reflexivity.
  destruct (ik n); try reflexivity.
  cbn [gk] in Hk. destruct (Z.ltb_spec level (-10)) as [E|_]; [lia|]. reflexivity.
Qed.

Definition xc_off : xcfg := {| x_strike := false; x_task := false; x_table := false; x_linkify := false |}.

Lemma parse_block_gctx src lines c : PB src lines = Ok c -> gctx c.
Proof.
  exact (proj2 (parse_block_core space_table punct_table norm refs url_table email_table re_email_domain re_open_tag
                                 re_close_tag punct_rune space_rune re_email_domain re_email_domain re_email_domain
                                 xc_off eq_refl eq_refl eq_refl false src lines) c).
Qed.

Theorem inline_childrenT_core cnt src lines :
  inline_childrenT false space_table punct_table norm url_table email_table re_email_domain re_open_tag re_close_tag
                   punct_rune space_rune uni_punct uni_space uni_digit uni_letter refs cnt src lines =
  (ch <- inline_children space_table punct_table norm url_table email_table re_email_domain re_open_tag re_close_tag
                         punct_rune space_rune refs src lines ;; Ok (ch, cnt)).
Proof.
  unfold inline_childrenT, inline_children. rewrite parse_blockT_core.
  destruct (PB src lines) as [c| |] eqn:Ec; cbn [bind]; try reflexivity.
  rewrite (itreeT_core src (i_h c) (parse_block_gctx src lines c Ec)).
  destruct (itree (S (length (i_h c))) src (i_h c) 0%nat) as [t| |]; reflexivity.
Qed.
End Inl.
