(* C02: the code-span parser (model/CodeSpan.v) reads the same content from every spelling
   md_of uses for a code span: a fence of one to three backticks, optionally padded by one
   blank on each side. *)
Require Import GM.model.Base GM.model.Util GM.model.Reader GM.model.ListItem GM.model.LeafBlocks GM.model.CodeSpan.
From Coq Require Import ZArith Lia ZifyBool ZifyNat ZifyN List.
Import ListNotations.
Open Scope Z_scope.

(* every maximal run of backticks in v is shorter than t (cur = length of the run ending here) *)
Fixpoint runs_shorter (t : nat) (cur : nat) (v : bytes) : bool :=
  match v with
  | [] => Nat.ltb cur t
  | c :: r => if N.eqb c 96 then runs_shorter t (S cur) r else (Nat.ltb cur t && runs_shorter t 0 r)%bool
  end.

(* ---------- auxiliary: lengths ---------- *)
Lemma cs_zlen_nonneg {A} (l : list A) : 0 <= zlen l.
Proof. unfold zlen. lia. Qed.
Lemma cs_zlen_app {A} (a b : list A) : zlen (a ++ b) = zlen a + zlen b.
Proof. unfold zlen. rewrite app_length. lia. Qed.
Lemma cs_zlen_cons {A} (x : A) (l : list A) : zlen (x :: l) = 1 + zlen l.
Proof. unfold zlen. cbn [length]. lia. Qed.
Lemma cs_zlen_nil {A} : zlen (@nil A) = 0.
Proof. reflexivity. Qed.
Lemma cs_zlen_repeat {A} (x : A) n : zlen (repeat x n) = Z.of_nat n.
Proof. unfold zlen. rewrite repeat_length. reflexivity. Qed.

Ltac zl := rewrite ?cs_zlen_app, ?cs_zlen_cons, ?cs_zlen_nil, ?cs_zlen_repeat in *;
  change (zlen (@nil N)) with 0 in *.

(* ---------- auxiliary: backtick runs ---------- *)
Definition no_tick_head (l : bytes) : Prop := match l with 96%N :: _ => False | _ => True end.
Definition no_tick_last (l : bytes) : Prop := forall l0, l <> l0 ++ [96%N].

Lemma no_tick_last_of_rev l : (match rev l with 96%N :: _ => False | _ => True end) -> no_tick_last l.
Proof.
  intros H l0 E. subst l. rewrite rev_app_distr in H. cbn in H. exact H.
Qed.

Lemma no_tick_last_app a b : no_tick_last (a ++ b) -> b <> [] -> no_tick_last b.
Proof.
  intros H Hb l0 E. subst b. apply (H (a ++ l0)). rewrite app_assoc. reflexivity.
Qed.

Lemma split_run (l : bytes) :
  exists n l', l = repeat 96%N n ++ l' /\ no_tick_head l'.
Proof.
  induction l as [|x l IH].
  - exists O, []. split; [reflexivity | exact I].
  - destruct (N.eqb_spec x 96) as [E|E].
    + destruct IH as (n & l' & El & Hl'). exists (S n), l'. subst x. cbn [repeat app]. rewrite <- El. split; [reflexivity|exact Hl'].
    + exists O, (x :: l). split; [reflexivity|]. cbn. destruct x as [|p]; [exact I|].
      repeat (destruct p as [p|p|]; try exact I). apply E. reflexivity.
Qed.

Lemma no_tick_head_cons x l : no_tick_head (x :: l) -> x <> 96%N.
Proof. intros H E. subst x. exact H. Qed.

Lemma count_run n l' : no_tick_head l' -> count_byte 96 (repeat 96%N n ++ l') = Z.of_nat n.
Proof.
  intros H. induction n as [|n IH].
  - cbn [repeat app]. destruct l' as [|x l']; [reflexivity|]. cbn [count_byte].
    apply no_tick_head_cons in H. destruct (N.eqb_spec x 96); [contradiction|reflexivity].
  - cbn [repeat app count_byte]. rewrite IH. cbn [N.eqb Pos.eqb]. lia.
Qed.

Lemma runs_shorter_run t cur n l : runs_shorter t cur (repeat 96%N n ++ l) = runs_shorter t (cur + n) l.
Proof.
  revert cur. induction n as [|n IH]; intros cur.
  - cbn [repeat app]. f_equal. lia.
  - cbn [repeat app runs_shorter N.eqb Pos.eqb]. rewrite IH. f_equal. lia.
Qed.

Lemma zskip_app {A} (a b : list A) n : n = zlen a -> zskip n (a ++ b) = b.
Proof.
  intros ->. unfold zskip, zlen. rewrite Nat2Z.id. rewrite skipn_app, skipn_all, Nat.sub_diag. reflexivity.
Qed.

Lemma zskip_beyond {A} (a : list A) n : zlen a <= n -> zskip n a = [].
Proof. intros H. unfold zskip. apply skipn_all2. unfold zlen in H. lia. Qed.

(* ---------- the scan, from any index, over content already known to be run-aligned ---------- *)
Lemma find_closer_finds_gen (t : nat) (rest : bytes) : (1 <= t)%nat -> no_tick_head rest ->
  forall fuel c i, runs_shorter t 0 c = true -> no_tick_last c ->
  (length (c ++ repeat 96%N t ++ rest) < fuel)%nat ->
  find_closer fuel (c ++ repeat 96%N t ++ rest) i (Z.of_nat t) = Some (i + zlen c + Z.of_nat t).
Proof.
  intros Ht Hrest. induction fuel as [|f IH]; intros c i Hrs Hlast Hfuel; [lia|].
  destruct c as [|x c].
  - cbn [app]. destruct t as [|t]; [lia|]. 
    change (repeat 96%N (S t) ++ rest) with (96%N :: (repeat 96%N t ++ rest)) at 1.
    cbn [find_closer N.eqb Pos.eqb].
    change (96%N :: (repeat 96%N t ++ rest)) with (repeat 96%N (S t) ++ rest).
    rewrite count_run by exact Hrest. rewrite Z.eqb_refl. zl. f_equal. lia.
  - destruct (N.eqb_spec x 96) as [E|E].
    + subst x. destruct (split_run (96%N :: c)) as (n & l' & El & Hl').
      destruct l' as [|y c'].
      { exfalso. rewrite app_nil_r in El. destruct n as [|n]; [discriminate|].
        apply (Hlast (repeat 96%N n)). rewrite El. 
        clear. induction n as [|n IHn]; [reflexivity|]. cbn [repeat app] in *. rewrite <- IHn. reflexivity. }
      assert (Hn : (1 <= n)%nat).
      { destruct n as [|n]; [|lia]. cbn [repeat app] in El. inversion El as [[Ey Ec]]. subst y. destruct Hl'. }
      pose proof (no_tick_head_cons _ _ Hl') as Hy.
      rewrite El in Hrs. rewrite runs_shorter_run in Hrs. cbn [runs_shorter Nat.add] in Hrs.
      destruct (N.eqb_spec y 96) as [|_]; [contradiction|].
      apply andb_prop in Hrs. destruct Hrs as [Hlt Hrs].
      cbn [app find_closer N.eqb Pos.eqb].
      change (96%N :: c ++ repeat 96%N t ++ rest) with ((96%N :: c) ++ repeat 96%N t ++ rest).
      rewrite El. rewrite <- app_assoc.
      rewrite count_run by exact Hl'.
      destruct (Z.eqb_spec (Z.of_nat n) (Z.of_nat t)) as [Ent|_]; [lia|].
      change ((y :: c') ++ repeat 96%N t ++ rest) with ([y] ++ c' ++ repeat 96%N t ++ rest).
      rewrite app_assoc. rewrite zskip_app by (zl; lia).
      rewrite IH.
      * f_equal. zl. lia.
      * exact Hrs.
      * intros l0 E0. apply (Hlast (repeat 96%N n ++ y :: l0)). rewrite El, E0.
        rewrite <- app_assoc. reflexivity.
      * change (96%N :: c) with (96%N :: c) in El.
        assert (HL : length (96%N :: c) = (n + S (length c'))%nat).
        { rewrite El, app_length, repeat_length. reflexivity. }
        rewrite app_length in Hfuel |- *. rewrite HL in Hfuel. lia.
    + cbn [app find_closer]. destruct (N.eqb_spec x 96) as [|_]; [contradiction|].
      cbn [runs_shorter] in Hrs. destruct (N.eqb_spec x 96) as [|_]; [contradiction|].
      apply andb_prop in Hrs. destruct Hrs as [_ Hrs].
      rewrite IH.
      * f_equal. zl. lia.
      * exact Hrs.
      * intros l0 E0. apply (Hlast (x :: l0)). rewrite E0. reflexivity.
      * cbn [app length] in Hfuel. lia.
Qed.

(* A. the scan of a line finds the first run of exactly t backticks after content whose runs
   are all shorter, provided the closing run is not followed by a further backtick *)
Theorem find_closer_finds (t : nat) (c rest : bytes) (fuel : nat) :
  (1 <= t)%nat -> runs_shorter t 0 c = true ->
  (match rev c with 96%N :: _ => False | _ => True end) ->
  (match rest with 96%N :: _ => False | _ => True end) ->
  (length (c ++ repeat 96%N t ++ rest) < fuel)%nat ->
  find_closer fuel (c ++ repeat 96%N t ++ rest) 0 (Z.of_nat t) = Some (zlen c + Z.of_nat t).
Proof.
  intros Ht Hrs Hlast Hrest Hfuel.
  rewrite (find_closer_finds_gen t rest Ht Hrest fuel c 0 Hrs (no_tick_last_of_rev c Hlast) Hfuel).
  f_equal.
Qed.

Lemma find_closer_none_gen (t : nat) : (1 <= t)%nat ->
  forall fuel c i, runs_shorter t 0 c = true -> find_closer fuel c i (Z.of_nat t) = None.
Proof.
  intros Ht. induction fuel as [|f IH]; intros c i Hrs; [reflexivity|].
  destruct c as [|x c]; [reflexivity|].
  destruct (N.eqb_spec x 96) as [E|E].
  - subst x. destruct (split_run (96%N :: c)) as (n & l' & El & Hl').
    cbn [find_closer N.eqb Pos.eqb]. rewrite El in Hrs |- *.
    rewrite count_run by exact Hl'. rewrite runs_shorter_run in Hrs. cbn [Nat.add] in Hrs.
    destruct l' as [|y c'].
    + cbn [runs_shorter] in Hrs.
      destruct (Z.eqb_spec (Z.of_nat n) (Z.of_nat t)) as [Ent|_]; [lia|].
      rewrite zskip_beyond by (zl; lia). destruct f; reflexivity.
    + pose proof (no_tick_head_cons _ _ Hl') as Hy. cbn [runs_shorter] in Hrs.
      destruct (N.eqb_spec y 96) as [|_]; [contradiction|].
      apply andb_prop in Hrs. destruct Hrs as [Hlt Hrs].
      destruct (Z.eqb_spec (Z.of_nat n) (Z.of_nat t)) as [Ent|_]; [lia|].
      change (y :: c') with ([y] ++ c'). rewrite app_assoc, zskip_app by (zl; lia).
      apply IH. exact Hrs.
  - cbn [find_closer]. destruct (N.eqb_spec x 96) as [|_]; [contradiction|].
    cbn [runs_shorter] in Hrs. destruct (N.eqb_spec x 96) as [|_]; [contradiction|].
    apply andb_prop in Hrs. destruct Hrs as [_ Hrs]. apply IH. exact Hrs.
Qed.

(* and finds nothing in a line without a run of exactly t backticks *)
Theorem find_closer_none (t : nat) (c : bytes) (fuel : nat) :
  (1 <= t)%nat -> runs_shorter t 0 c = true ->
  find_closer fuel c 0 (Z.of_nat t) = None.
Proof. intros Ht Hrs. apply find_closer_none_gen; assumption. Qed.

(* ---------- auxiliary: slices of a concatenation ---------- *)
Lemma cs_slice_app (a b c : bytes) x y : x = zlen a -> y = zlen a + zlen b ->
  slice (a ++ b ++ c) x y = Ok b.
Proof.
  intros -> ->. unfold slice.
  pose proof (cs_zlen_nonneg a). pose proof (cs_zlen_nonneg b). pose proof (cs_zlen_nonneg c).
  replace ((0 <=? zlen a) && (zlen a <=? zlen a + zlen b) && (zlen a + zlen b <=? zlen (a ++ b ++ c))) with true
    by (zl; lia).
  f_equal. unfold zlen. rewrite Nat2Z.id.
  rewrite skipn_app, skipn_all, Nat.sub_diag. cbn [skipn app].
  replace (Z.to_nat (Z.of_nat (length a) + Z.of_nat (length b) - Z.of_nat (length a))) with (length b + 0)%nat by lia.
  rewrite firstn_app_2. cbn [firstn]. apply app_nil_r.
Qed.

Lemma cs_slice_tail (a b : bytes) x y : x = zlen a -> y = zlen a + zlen b ->
  slice (a ++ b) x y = Ok b.
Proof.
  intros Hx Hy. rewrite <- (app_nil_r b) at 1. apply cs_slice_app; assumption.
Qed.

Lemma cs_at_app (a : bytes) x b i : i = zlen a -> at_ (a ++ x :: b) i = Ok x.
Proof.
  intros ->. unfold at_. pose proof (cs_zlen_nonneg a). pose proof (cs_zlen_nonneg b).
  replace ((0 <=? zlen a) && (zlen a <? zlen (a ++ x :: b))) with true by (zl; lia).
  f_equal. unfold zlen. rewrite Nat2Z.id. apply nth_middle.
Qed.

Lemma cs_at_last (a cc b : bytes) i : cc <> [] -> i = zlen a + zlen cc - 1 ->
  at_ (a ++ cc ++ b) i = Ok (last cc 0%N).
Proof.
  intros Hnn Hi. set (lc := last cc 0%N).
  assert (E : cc = removelast cc ++ [lc]) by (apply app_removelast_last; exact Hnn).
  assert (Hlen : zlen cc = zlen (removelast cc) + 1) by (rewrite E at 1; zl; lia).
  rewrite E, <- app_assoc, app_assoc. cbn [app]. apply cs_at_app. zl. lia.
Qed.

Lemma cs_seg_value src a b v : slice src a b = Ok v -> seg_value src (mksegp a b 0) = Ok v.
Proof. intros H. unfold seg_value. cbn [mksegp s_start s_stop s_pad s_fnl]. rewrite H. reflexivity. Qed.

(* ---------- the block reader over a single line [0, L) ---------- *)
Definition mkr (src : bytes) (L a lo : Z) : breader :=
  {| b_src := src; b_segs := [mkseg 0 L]; b_line := 0; b_pos := mksegp a L 0; b_head := 0; b_last := L; b_loff := lo |}.

Lemma new_one src L : new_block_reader src [mkseg 0 L] = Ok (mkr src L 0 (-1)).
Proof. reflexivity. Qed.

Lemma adv_one src L a lo n : n < L - a -> b_advance (mkr src L a lo) n = Ok (mkr src L (a + n) (-1)).
Proof.
  intros H. unfold b_advance, mkr. cbn [bset_loff b_pos s_start s_stop s_pad mksegp b_src b_segs b_line b_head b_last s_fnl].
  replace ((n <? L - a) && (0 =? 0)) with true by lia. reflexivity.
Qed.

Lemma peek_one src L a lo v : 0 <= a < L -> slice src a L = Ok v ->
  b_peek_line (mkr src L a lo) = Ok (mkr src L a lo, Some v, mksegp a L 0).
Proof.
  intros Ha Hv. unfold b_peek_line, b_in_range, b_nsegs. cbn [mkr b_line b_segs b_pos b_last s_start mksegp b_src].
  change (zlen [mkseg 0 L]) with 1.
  replace ((0 <? 1) && (0 <=? a) && (a <? L)) with true by lia.
  fold (mksegp a L 0). rewrite (cs_seg_value _ _ _ _ Hv). reflexivity.
Qed.

Section WithTables.
Variable space_table : list N.
Hypothesis sp32 : is_space space_table 32%N = true.

Lemma no_tick_head_app_nl rest : no_tick_head rest -> no_tick_head (rest ++ [10%N]).
Proof. destruct rest as [|x rest]; [intros _; exact I|]. cbn [app]. exact (fun H => H). Qed.

(* the parser over the one-line reader placed on the opening run, for any non-empty content cc
   (padding included) that does not start or end with a backtick and is not blank: a single
   segment, trimmed by one byte at each end exactly when both end bytes are a space or newline *)
Lemma parse_general (pre cc rest m : bytes) (f : N) (t : nat) (lo : Z) :
  (1 <= t)%nat -> cc = f :: m -> f <> 96%N -> runs_shorter t 0 cc = true -> no_tick_last cc ->
  no_tick_head rest -> is_blank space_table cc = false ->
  let src := pre ++ repeat 96%N t ++ cc ++ repeat 96%N t ++ rest ++ [10%N] in
  let k := zlen pre in
  let tz := Z.of_nat t in
  exists r',
    code_span_parse space_table (mkr src (zlen src) k lo) =
      Ok (inl (if (is_space_or_newline f && is_space_or_newline (last cc 0%N))%bool
               then [mksegp (k + tz + 1) (k + tz + zlen cc - 1) 0]
               else [mksegp (k + tz) (k + tz + zlen cc) 0]), r') /\
    b_line r' = 0 /\ s_start (b_pos r') = k + 2 * tz + zlen cc /\ s_pad (b_pos r') = 0.
Proof.
  intros Ht Ecc Hf Hrs Hlast Hrest Hblank src k tz.
  set (L := zlen src).
  pose proof (cs_zlen_nonneg pre) as Hpre0. pose proof (cs_zlen_nonneg rest) as Hrest0.
  pose proof (cs_zlen_nonneg m) as Hm0.
  assert (Hcc : zlen cc = 1 + zlen m) by (rewrite Ecc; zl; reflexivity).
  assert (HL : L = k + tz + zlen cc + tz + zlen rest + 1).
  { unfold L, src, k, tz. zl. lia. }
  unfold code_span_parse.
  (* the line at the opening run *)
  rewrite (peek_one src L k lo (repeat 96%N t ++ cc ++ repeat 96%N t ++ rest ++ [10%N])).
  2: lia.
  2: { unfold src. apply cs_slice_tail; [reflexivity|]. unfold L, src. zl. lia. }
  cbn [bind].
  rewrite count_run by (rewrite Ecc; cbn [app]; destruct f as [|p]; [exact I|];
                         repeat (destruct p as [p|p|]; try exact I); apply Hf; reflexivity).
  fold tz.
  rewrite adv_one by lia. cbn [bind mkr b_line b_pos b_segs length].
  fold (mkr src L (k + tz) (-1)).
  cbn [code_span_lines].
  rewrite (peek_one src L (k + tz) (-1) (cc ++ repeat 96%N t ++ rest ++ [10%N])).
  2: lia.
  2: { unfold src. rewrite app_assoc.
       apply cs_slice_tail; [unfold k, tz; zl; lia|]. unfold L, src, k, tz. zl. lia. }
  cbn [bind].
  rewrite (find_closer_finds_gen t (rest ++ [10%N]) Ht (no_tick_head_app_nl _ Hrest) _ cc 0 Hrs Hlast)
    by lia.
  fold tz.
  cbn [seg_with_stop mksegp s_start s_pad app].
  replace (k + tz + (0 + zlen cc + tz) - tz) with (k + tz + zlen cc) by lia.
  set (sg := mksegp (k + tz) (k + tz + zlen cc) 0).
  change (seg_with_stop (mksegp (k + tz) L 0) (k + tz + zlen cc)) with sg.
  assert (Hne : seg_is_empty sg = false).
  { unfold seg_is_empty, sg. cbn [mksegp s_start s_stop s_pad]. lia. }
  rewrite Hne.
  rewrite adv_one by lia. cbn [bind mkr b_src].
  fold (mkr src L (k + tz + (0 + zlen cc + tz)) (-1)).
  set (r' := mkr src L (k + tz + (0 + zlen cc + tz)) (-1)).
  assert (Hval : seg_value src sg = Ok cc).
  { apply cs_seg_value. unfold src. rewrite app_assoc. apply cs_slice_app; unfold k, tz; zl; lia. }
  cbn [all_blank]. rewrite Hval. cbn [bind]. rewrite Hblank.
  cbn [rev app]. rewrite Hne.
  assert (Hat1 : at_ src (s_start sg) = Ok f).
  { unfold src. rewrite app_assoc, Ecc. cbn [app]. apply cs_at_app. unfold sg, k, tz. cbn [mksegp s_start]. zl. lia. }
  assert (Hat2 : at_ src (s_stop sg - 1) = Ok (last cc 0%N)).
  { unfold src. rewrite app_assoc. apply cs_at_last; [rewrite Ecc; discriminate|].
    unfold sg, k, tz. cbn [mksegp s_stop]. zl. lia. }
  rewrite Hat1, Hat2. cbn [bind].
  exists r'. split.
  - destruct (is_space_or_newline f && is_space_or_newline (last cc 0%N))%bool; [|reflexivity].
    unfold update_first, update_last. cbn [rev app]. unfold sg.
    cbn [seg_with_start seg_with_stop mksegp s_start s_stop s_pad]. reflexivity.
  - unfold r'. cbn [mkr b_line b_pos mksegp s_start s_pad]. lia.
Qed.

Lemma runs_shorter_snoc_space t : (1 <= t)%nat -> forall c cur, runs_shorter t cur c = true ->
  runs_shorter t cur (c ++ [32%N]) = true.
Proof.
  intros Ht. induction c as [|x c IH]; intros cur H.
  - cbn [app runs_shorter N.eqb Pos.eqb] in *. rewrite H. cbn [andb]. apply Nat.ltb_lt. lia.
  - cbn [app runs_shorter] in *. destruct (N.eqb_spec x 96) as [_|_].
    + apply IH. exact H.
    + apply andb_prop in H. destruct H as [H1 H2]. rewrite H1, (IH 0%nat H2). reflexivity.
Qed.

(* B. a paragraph of one line: pre, then a code span spelled with t backticks and optional
   padding around content c, then rest.  The parser, started at the opening run, yields a
   CodeSpan whose text is exactly c and leaves the reader just after the closing run. *)
Definition no_newline (v : bytes) : Prop := forall b, In b v -> b <> 10%N.
Fixpoint concat_values (src : bytes) (segs : list seg) : result bytes :=
  match segs with
  | [] => Ok []
  | s :: r => v <- seg_value src s ;; w <- concat_values src r ;; Ok (v ++ w)
  end.

Theorem code_span_single_line (pre c rest : bytes) (t : nat) (padded : bool) (first last : N) (mid : bytes) :
  (1 <= t)%nat -> runs_shorter t 0 c = true ->
  c = first :: mid ++ [last] \/ (c = [first] /\ last = first) ->
  first <> 96%N -> last <> 96%N -> first <> 32%N -> last <> 32%N -> is_space space_table first = false ->
  no_newline pre -> no_newline c -> no_newline rest ->
  (match rest with 96%N :: _ => False | _ => True end) ->
  let pad := if padded then [32%N] else [] in
  let src := pre ++ repeat 96%N t ++ pad ++ c ++ pad ++ repeat 96%N t ++ rest ++ [10%N] in
  forall r0 r, new_block_reader src [mkseg 0 (zlen src)] = Ok r0 -> b_advance r0 (zlen pre) = Ok r ->
  exists segs r',
    code_span_parse space_table r = Ok (inl segs, r') /\
    concat_values src segs = Ok c /\
    b_line r' = 0 /\ s_start (b_pos r') = zlen pre + 2 * Z.of_nat t + 2 * zlen pad + zlen c /\ s_pad (b_pos r') = 0.
Proof.
  intros Ht Hrs Hc Hf96 Hl96 Hf32 Hl32 Hfsp Hnpre Hnc Hnrest Hrest pad src r0 r Hr0 Hr.
  rewrite new_one in Hr0. inversion Hr0 as [Er0]. clear Hr0. subst r0.
  assert (Hc' : exists m', c = first :: m' /\ exists m'', c = m'' ++ [last]).
  { destruct Hc as [Hc|[Hc El]].
    - exists (mid ++ [last]). split; [exact Hc|]. exists (first :: mid). rewrite Hc. reflexivity.
    - exists []. split; [exact Hc|]. exists []. rewrite Hc, El. reflexivity. }
  destruct Hc' as (m' & Ec1 & m'' & Ec2).
  assert (Hf10 : first <> 10%N) by (apply Hnc; rewrite Ec1; left; reflexivity).
  assert (Hclast : no_tick_last c).
  { intros l0 E. rewrite Ec2 in E. apply app_inj_tail in E. destruct E as [_ E]. contradiction. }
  pose proof (cs_zlen_nonneg pre) as Hpre0. pose proof (cs_zlen_nonneg rest) as Hrest0.
  pose proof (cs_zlen_nonneg c) as Hc0. pose proof (cs_zlen_nonneg pad) as Hpad0.
  assert (Hsrc : src = pre ++ repeat 96%N t ++ (pad ++ c ++ pad) ++ repeat 96%N t ++ rest ++ [10%N]).
  { unfold src. rewrite <- !app_assoc. reflexivity. }
  rewrite adv_one in Hr by (unfold src; zl; lia).
  inversion Hr as [Er]. clear Hr. subst r.
  destruct padded.
  - (* padded: one blank trimmed at each end *)
    assert (Hcc : pad ++ c ++ pad = 32%N :: (c ++ [32%N])) by reflexivity.
    destruct (parse_general pre (pad ++ c ++ pad) rest (c ++ [32%N]) 32%N t (-1) Ht Hcc) as (r' & Hp & H1 & H2 & H3).
    + discriminate.
    + rewrite Hcc. cbn [runs_shorter N.eqb Pos.eqb]. rewrite (runs_shorter_snoc_space t Ht c 0%nat Hrs).
      rewrite andb_true_r. apply Nat.ltb_lt. lia.
    + intros l0 E. change (pad ++ c ++ pad) with ((32%N :: c) ++ [32%N]) in E.
      apply app_inj_tail in E. destruct E as [_ E]. discriminate.
    + exact Hrest.
    + rewrite Hcc. unfold is_blank. cbn [forallb]. rewrite sp32, forallb_app, Ec1. cbn [forallb].
      rewrite Hfsp. reflexivity.
    + cbv zeta in Hp. rewrite <- Hsrc in Hp.
      change (pad ++ c ++ pad) with ((32%N :: c) ++ [32%N]) in Hp at 1.
      rewrite last_last in Hp. cbn [is_space_or_newline N.eqb Pos.eqb orb andb] in Hp.
      eexists. exists r'. split; [exact Hp|]. split.
      * cbn [concat_values]. 
        erewrite cs_seg_value; [cbn [bind]; rewrite app_nil_r; reflexivity|].
        unfold src. rewrite (app_assoc pre), (app_assoc _ pad). apply cs_slice_app.
        -- unfold pad. zl. lia.
        -- unfold pad. zl. lia.
      * unfold pad in *. zl. lia.
  - (* not padded: nothing trimmed *)
    assert (Hcc : pad ++ c ++ pad = first :: m').
    { unfold pad. cbn [app]. rewrite app_nil_r. exact Ec1. }
    destruct (parse_general pre (pad ++ c ++ pad) rest m' first t (-1) Ht Hcc Hf96) as (r' & Hp & H1 & H2 & H3).
    + unfold pad. cbn [app]. rewrite app_nil_r. exact Hrs.
    + unfold pad. cbn [app]. rewrite app_nil_r. exact Hclast.
    + exact Hrest.
    + rewrite Hcc. unfold is_blank. cbn [forallb]. rewrite Hfsp. reflexivity.
    + cbv zeta in Hp. rewrite <- Hsrc in Hp.
      replace (is_space_or_newline first) with false in Hp
        by (unfold is_space_or_newline; destruct (N.eqb_spec first 32); [contradiction|];
            destruct (N.eqb_spec first 10); [contradiction|reflexivity]).
      cbn [andb] in Hp.
      eexists. exists r'. split; [exact Hp|]. split.
      * cbn [concat_values].
        erewrite cs_seg_value; [cbn [bind]; rewrite app_nil_r; reflexivity|].
        unfold src, pad. cbn [app]. rewrite (app_assoc pre). apply cs_slice_app.
        -- zl. lia.
        -- zl. lia.
      * unfold pad in *. zl. cbn [app] in *. rewrite app_nil_r in *. lia.
Qed.

End WithTables.
