(* C02: the code-span parser (model/CodeSpan.v) reads the same content from every spelling
   md_of uses for a code span: a fence of one to three backticks, optionally padded by one
   blank on each side. *)
Require Import GM.model.Base GM.model.Util GM.model.Reader GM.model.ListItem GM.model.LeafBlocks GM.model.CodeSpan.
From Coq Require Import ZArith Lia ZifyBool ZifyNat ZifyN.
Open Scope Z_scope.

(* every maximal run of backticks in v is shorter than t (cur = length of the run ending here) *)
Fixpoint runs_shorter (t : nat) (cur : nat) (v : bytes) : bool :=
  match v with
  | [] => Nat.ltb cur t
  | c :: r => if N.eqb c 96 then runs_shorter t (S cur) r else (Nat.ltb cur t && runs_shorter t 0 r)%bool
  end.

(* A. the scan of a line finds the first run of exactly t backticks after content whose runs
   are all shorter, provided the closing run is not followed by a further backtick *)
Theorem find_closer_finds (t : nat) (c rest : bytes) (fuel : nat) :
  (1 <= t)%nat -> runs_shorter t 0 c = true ->
  (match rev c with 96%N :: _ => False | _ => True end) ->
  (match rest with 96%N :: _ => False | _ => True end) ->
  (length (c ++ repeat 96%N t ++ rest) < fuel)%nat ->
  find_closer fuel (c ++ repeat 96%N t ++ rest) 0 (Z.of_nat t) = Some (zlen c + Z.of_nat t).
Proof. Admitted.

(* and finds nothing in a line without a run of exactly t backticks *)
Theorem find_closer_none (t : nat) (c : bytes) (fuel : nat) :
  (1 <= t)%nat -> runs_shorter t 0 c = true ->
  find_closer fuel c 0 (Z.of_nat t) = None.
Proof. Admitted.

Section WithTables.
Variable space_table : list N.
Hypothesis sp32 : is_space space_table 32%N = true.

(* B. a paragraph of one line: pre, then a code span spelled with t backticks and optional
   padding around content c, then rest.  The parser, started at the opening run, yields a
   CodeSpan whose text is exactly c and leaves the reader just after the closing run. *)
Definition no_newline (v : bytes) : Prop := forall b, In b v -> b <> 10%N.
Fixpoint concat_values (src : bytes) (segs : list seg) : result bytes :=
  match segs with
  | [] => Ok []
  | s :: r => v <- seg_value src s ;; w <- concat_values src r ;; Ok (v ++ w)
  end.

Theorem code_span_single_line (pre c rest : bytes) (t : nat) (padded : bool) (first last : N) (mid : bytes) :
  (1 <= t)%nat -> runs_shorter t 0 c = true ->
  c = first :: mid ++ [last] \/ (c = [first] /\ last = first) ->
  first <> 96%N -> last <> 96%N -> first <> 32%N -> last <> 32%N -> is_space space_table first = false ->
  no_newline pre -> no_newline c -> no_newline rest ->
  (match rest with 96%N :: _ => False | _ => True end) ->
  let pad := if padded then [32%N] else [] in
  let src := pre ++ repeat 96%N t ++ pad ++ c ++ pad ++ repeat 96%N t ++ rest ++ [10%N] in
  forall r0 r, new_block_reader src [mkseg 0 (zlen src)] = Ok r0 -> b_advance r0 (zlen pre) = Ok r ->
  exists segs r',
    code_span_parse space_table r = Ok (inl segs, r') /\
    concat_values src segs = Ok c /\
    b_line r' = 0 /\ s_start (b_pos r') = zlen pre + 2 * Z.of_nat t + 2 * zlen pad + zlen c /\ s_pad (b_pos r') = 0.
Proof. Admitted.

End WithTables.
