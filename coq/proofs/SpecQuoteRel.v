(* Block quotes around plain paragraphs, block phase, part 6: the text of a list of lines, and
   the relation between a state of the parser model at the head of a line and a state of the
   abstract machine. *)
Require Import GM.model.Base GM.model.Util GM.model.Reader GM.model.ListItem GM.model.Blocks GM.model.CodeBlock
               GM.model.Regex GM.model.BlockParse GM.model.SpecDoc.
Require Import GM.gen.Tables GM.proofs.SpecParaBytes GM.proofs.SpecParaReader GM.proofs.SpecParaBlocks GM.proofs.SpecParaBlocks2
               GM.proofs.SpecQuoteShape GM.proofs.SpecQuoteMachine GM.proofs.SpecQuoteReader GM.proofs.SpecQuoteSteps
               GM.proofs.SpecQuoteSteps2 GM.proofs.SpecQuoteSteps3 GM.proofs.SpecQuoteEach.
From Coq Require Import List NArith ZArith Bool Lia.
Import ListNotations.
Open Scope Z_scope.

(* ---------- the text of lines: a newline after every line but the last, tb after the last ---------- *)
Fixpoint ltext (tb : bytes) (ls : list qline) : bytes :=
  match ls with
  | [] => []
  | [l] => lbytes l ++ tb
  | l :: r => lbytes l ++ [10%N] ++ ltext tb r
  end.
Lemma ltext_cons2 tb l l' r : ltext tb (l :: l' :: r) = lbytes l ++ [10%N] ++ ltext tb (l' :: r).
Proof. reflexivity. Qed.
Lemma ltext_join tb ls : ls <> [] -> ltext tb ls = join nl (map lbytes ls) ++ tb.
Proof.
  intros Hne. induction ls as [|l [|l' r] IH]; [congruence|reflexivity|].
  rewrite ltext_cons2, IH by discriminate. cbn [map]. rewrite join_cons2. rewrite <- !app_assoc. reflexivity.
Qed.
Lemma ltext_app tb l1 l2 : l1 <> [] -> l2 <> [] -> ltext tb (l1 ++ l2) = ltext [10%N] l1 ++ ltext tb l2.
Proof.
  intros H1 H2. induction l1 as [|l [|l' r] IH]; [congruence| |].
  - destruct l2 as [|x l2]; [congruence|]. cbn [app]. rewrite ltext_cons2. cbn [ltext]. rewrite <- app_assoc. reflexivity.
  - change ((l :: l' :: r) ++ l2) with (l :: (l' :: r) ++ l2). change ((l' :: r) ++ l2) with (l' :: r ++ l2) at 1.
    rewrite ltext_cons2. change (l' :: r ++ l2) with ((l' :: r) ++ l2). rewrite IH by discriminate.
    rewrite ltext_cons2. rewrite <- !app_assoc. reflexivity.
Qed.

(* no newline inside a line *)
Lemma no_nl_app a b : no_nl a -> no_nl b -> no_nl (a ++ b).
Proof. unfold no_nl. intros Ha Hb. rewrite forallb_app, Ha, Hb. reflexivity. Qed.
Lemma no_nl_chain ms : no_nl (chain ms).
Proof. induction ms as [|s ms IH]; [reflexivity|]. cbn [chain]. apply no_nl_app; [destruct s; reflexivity|exact IH]. Qed.
Lemma no_nl_body body : body_okb body = true -> no_nl body.
Proof. intros H. apply text_no_nl. apply body_ok_text. exact H. Qed.

(* the markers of a separator line *)
Definition sep_ms (tau : option (list bool)) : list bool := match tau with None => [] | Some t => t ++ [false] end.
Lemma sep_ms_bytes tau : lbytes (LSep tau) = chain (sep_ms tau).
Proof. destruct tau as [t|]; [|reflexivity]. cbn [lbytes sep_ms]. rewrite chain_app. cbn [chain mk]. rewrite app_nil_r. reflexivity. Qed.
Lemma sep_ms_length tau : length (sep_ms tau) = match tau with None => O | Some t => S (length t) end.
Proof. destruct tau as [t|]; [|reflexivity]. cbn [sep_ms]. rewrite app_length. cbn [length]. lia. Qed.

(* ---------- heaps without blank-line flags ---------- *)
Lemma unblank_pnode par ls bl : unblank (pnode par ls bl) = pnode par ls false.
Proof. reflexivity. Qed.
Lemma unblank_qnode par cs bl : unblank (qnode par cs bl) = qnode par cs false.
Proof. reflexivity. Qed.
Lemma map_hset {f : bnode -> bnode} h : forall i x, map f (hset h i x) = hset (map f h) i (f x).
Proof. induction h as [|y h IH]; intros i x; [reflexivity|]. destruct i; cbn [hset map]; [reflexivity|rewrite IH; reflexivity]. Qed.
Lemma unblank_add_children h P ids : map unblank (add_children h P ids) = add_children (map unblank h) P ids.
Proof.
  unfold add_children. rewrite nth_error_map. destruct (nth_error h P) as [n|]; [|reflexivity].
  cbn [option_map]. rewrite map_hset. reflexivity.
Qed.
Lemma unblank_first_nodes bl m : forall par idx ls, map unblank (first_nodes bl par idx m ls) = first_nodes false par idx m ls.
Proof. induction m as [|m IH]; intros par idx ls; [reflexivity|]. cbn [first_nodes map]. rewrite IH. reflexivity. Qed.
Lemma first_nodes_length bl m : forall par idx ls, length (first_nodes bl par idx m ls) = S m.
Proof. induction m as [|m IH]; intros par idx ls; [reflexivity|]. cbn [first_nodes length]. rewrite IH. reflexivity. Qed.
(* the quotes of the chain, and its last node: the paragraph *)
Lemma first_nodes_split bl m : forall par idx ls, exists front pp,
  first_nodes bl par idx m ls = front ++ [pnode (Some pp) ls bl] /\ length front = m.
Proof.
  induction m as [|m IH]; intros par idx ls.
  - exists [], par. split; reflexivity.
  - destruct (IH idx (S idx) ls) as (front & pp & E & Hl).
    exists (qnode (Some par) [S idx] bl :: front), pp. cbn [first_nodes]. rewrite E. split; [reflexivity|cbn [length]; lia].
Qed.
Lemma first_nodes_bq bl m : forall X par idx ls j, length X = idx -> (j < m)%nat ->
  is_bq (X ++ first_nodes bl par idx m ls) (idx + j).
Proof.
  induction m as [|m IH]; intros X par idx ls j HX Hj; [lia|].
  cbn [first_nodes]. destruct j as [|j].
  - rewrite Nat.add_0_r. exists (qnode (Some par) [S idx] bl). split; [rewrite <- HX; apply nth_error_mid|].
    split; [reflexivity|]. exists par. reflexivity.
  - replace (X ++ qnode (Some par) [S idx] bl :: first_nodes bl idx (S idx) m ls)
      with ((X ++ [qnode (Some par) [S idx] bl]) ++ first_nodes bl idx (S idx) m ls) by (rewrite <- app_assoc; reflexivity).
    replace (idx + S j)%nat with (S idx + j)%nat by lia. apply IH; [rewrite app_length, HX; cbn [length]; lia|lia].
Qed.
Lemma trim_segs_app t acc a e : trim_segs t (acc ++ [mkseg a e]) = acc ++ [mkseg a (e - t)].
Proof.
  induction acc as [|x acc IH]; [reflexivity|]. cbn [app]. destruct (acc ++ [mkseg a e]) as [|y r] eqn:E; [destruct acc; discriminate|].
  change (trim_segs t (x :: y :: r)) with (x :: trim_segs t (y :: r)). rewrite IH. reflexivity.
Qed.

(* ---------- the relation ---------- *)
Definition aop (s : ast) : list (nat * bparser) :=
  qop (a_q s) ++ (if a_p s then [((length (a_h s) - 1)%nat, PParagraph)] else []).

(* tl: the length of the terminator of the last line of the open paragraph *)
Record Rel (src : bytes) (tl : Z) (s : ast) (m : st) (k : Z) (pre suf : bytes) : Prop := {
  R_src : src = pre ++ suf;
  R_off : a_off s = zlen pre;
  R_heap : map unblank (s_h m) = a_h s;
  R_ctx : exists junk, s_c m = octx (aop s) junk;
  R_rd : s_r m = rdA src k pre suf;
  R_bq : Forall (is_bq (s_h m)) (a_q s);
  R_par : a_p s = true -> exists h0 pp acc a e bl pre0 body0 term0,
      s_h m = h0 ++ [pnode (Some pp) (acc ++ [mkseg a e]) bl] /\ Forall (good_seg src) acc /\
      cur_line src pre0 body0 term0 suf a e /\ pre = pre0 ++ body0 ++ term0 /\ zlen term0 = tl;
  R_root : (0 < length (s_h m))%nat
}.
