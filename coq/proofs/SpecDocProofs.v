(* C02: what the validated component models make of the spellings SpecDoc.md_of chooses.
   Each theorem says that a mechanism of goldmark (its model, tied to the code by the
   correspondence runs) maps every spelling of a leaf construct to the bytes html_of prescribes,
   or that html_of does not look at the spelling at all.

   Status: T3, T4, T6, T7 proved as stated.  T5 (tabify_same_indent) was withdrawn on the
   coordinator's instruction because SpecDoc.tabify is about to be replaced.
   T6 is structured per constructor: one unfolding equation per constructor of atom / block
   (all by reflexivity), custom induction principles atom_ind' / block_ind' for the nested
   inductives, and one case per constructor in atom_html_erase / block_html_erase. *)
Require Import GM.model.Base GM.model.Util GM.model.UtilI GM.model.Ids GM.model.SpecMech GM.model.SpecDoc
               GM.model.HtmlWriter GM.model.Refs GM.model.Blocks.
Require Import GM.proofs.SpecMechProofs GM.proofs.RefsProofs.
Require Import GM.model.HtmlDecode GM.gen.Tables GM.gen.Entities GM.gen.Folding GM.proofs.Finite GM.proofs.Concrete.
From Coq Require Import Lia ZifyBool ZifyNat ZifyN.
Open Scope N_scope.

(* ======================================================================================== *)
(* T3: the case and white-space variants of a label used at reference sites normalise to the
   same key, hence find the definition *)
Definition lw (w : bytes) : Prop := w <> [] /\ Forall (fun c => lower c = true) w.
Definition blank (c : N) : Prop := c = 32 \/ c = 9.
Definition starts_lower (v : bytes) : Prop := exists c v', v = c :: v' /\ lower c = true.
Definition ends_lower (v : bytes) : Prop := exists v' c, v = v' ++ [c] /\ lower c = true.
Definition fold1 (c : N) : N := if (65 <=? c) && (c <=? 90) then c + 32 else c.
Definition up1 (c : N) : N := if (97 <=? c) && (c <=? 122) then c - 32 else c.

Lemma lower_word_lw w : lower_word w = true -> lw w.
Proof.
  unfold lower_word, lw. intro H. apply andb_prop in H as [Hn Hl]. split.
  - intro E. subst w. discriminate Hn.
  - apply Forall_forall. rewrite forallb_forall in Hl. exact Hl.
Qed.

Lemma label_words_lw ws : label_words ws = true -> ws <> [] /\ Forall lw ws.
Proof.
  induction ws as [|w r IH]; [discriminate|]. intro H. split; [discriminate|].
  destruct r as [|w2 r].
  - constructor; [apply lower_word_lw; exact H | constructor].
  - change (label_words (w :: w2 :: r)) with (lower_word w && label_words (w2 :: r)) in H.
    apply andb_prop in H as [Hw Hr]. constructor; [apply lower_word_lw; exact Hw | apply IH; exact Hr].
Qed.

Lemma join_cons2 sep w w2 r : join sep (w :: w2 :: r) = w ++ sep ++ join sep (w2 :: r).
Proof. reflexivity. Qed.

Lemma lw_starts w rest : lw w -> starts_lower (w ++ rest).
Proof.
  intros [Hn Hl]. destruct w as [|c w]; [contradiction|].
  exists c, (w ++ rest). split; [reflexivity | exact (Forall_inv Hl)].
Qed.

Lemma lw_ends w pre : lw w -> ends_lower (pre ++ w).
Proof.
  intros [Hn Hl]. destruct (exists_last Hn) as [w' [c E]]. subst w.
  exists (pre ++ w'), c. split; [apply app_assoc|].
  apply Forall_app in Hl as [_ Hc]. exact (Forall_inv Hc).
Qed.

Lemma join_starts sep ws : ws <> [] -> Forall lw ws -> starts_lower (join sep ws).
Proof.
  intros Hn H. destruct ws as [|w r]; [contradiction|].
  pose proof (Forall_inv H) as Hw. destruct r as [|w2 r].
  - cbn [join]. rewrite <- (app_nil_r w). apply lw_starts, Hw.
  - rewrite join_cons2. apply lw_starts, Hw.
Qed.

Lemma join_ends sep ws : ws <> [] -> Forall lw ws -> ends_lower (join sep ws).
Proof.
  intros Hn H. induction H as [|w r Hw Hr IH]; [contradiction|].
  destruct r as [|w2 r].
  - cbn [join]. apply (lw_ends w [] Hw).
  - rewrite join_cons2. destruct IH as [v' [c [E Hc]]]; [discriminate|].
    exists (w ++ sep ++ v'), c. split; [|exact Hc]. rewrite E, <- !app_assoc. reflexivity.
Qed.

Lemma join_chars sep ws : Forall blank sep -> Forall lw ws ->
  Forall (fun c => lower c = true \/ blank c) (join sep ws).
Proof.
  intros Hs H. assert (Hsep : Forall (fun c => lower c = true \/ blank c) sep).
  { eapply Forall_impl; [|exact Hs]. intros a Ha. right. exact Ha. }
  assert (Hword : forall w, lw w -> Forall (fun c => lower c = true \/ blank c) w).
  { intros w [_ Hl]. eapply Forall_impl; [|exact Hl]. intros a Ha. left. exact Ha. }
  induction H as [|w r Hw Hr IH]; [constructor|].
  destruct r as [|w2 r].
  - cbn [join]. apply Hword, Hw.
  - rewrite join_cons2. apply Forall_app. split; [apply Hword, Hw|].
    apply Forall_app. split; [exact Hsep | exact IH].
Qed.

(* table facts *)
Lemma lower_not_space c : lower c = true -> is_space space_table c = false.
Proof.
  intro H. assert (Hc : c < 256) by (unfold lower in H; lia).
  assert (B : forallb (fun n => (fun c => negb (lower c) || negb (is_space space_table c)) (N.of_nat n)) (seq 0 256) = true)
    by (vm_compute; reflexivity).
  pose proof (byte_forall _ B c Hc) as B'. cbv beta in B'. rewrite H in B'.
  cbn [negb orb] in B'. apply negb_true_iff in B'. exact B'.
Qed.

Lemma blank_space c : blank c -> is_space space_table c = true.
Proof. intros [->| ->]; vm_compute; reflexivity. Qed.

Lemma lower_not_in_spaces c : lower c = true -> in_set spaces c = false.
Proof. unfold lower, in_set, spaces. cbn [existsb]. lia. Qed.

Lemma upper_not_in_spaces c : lower c = true -> in_set spaces (up1 c) = false.
Proof.
  unfold lower, up1, in_set, spaces. cbn [existsb]. intro H. rewrite H.
  apply andb_prop in H as [H1 H2]. lia.
Qed.

(* trimming *)
Lemma trim_left_keep s c v : in_set s c = false -> trim_left (c :: v) s = c :: v.
Proof. intro H. cbn [trim_left]. rewrite H. reflexivity. Qed.

Lemma trim_left_drop s c v : in_set s c = true -> trim_left (c :: v) s = trim_left v s.
Proof. intro H. cbn [trim_left]. rewrite H. reflexivity. Qed.

Lemma trim_right_keep s c v : in_set s c = false -> trim_right (v ++ [c]) s = v ++ [c].
Proof.
  intro H. unfold trim_right. rewrite rev_app_distr. cbn [rev app].
  rewrite trim_left_keep by exact H. cbn [rev]. rewrite rev_involutive. reflexivity.
Qed.

Lemma trim_right_drop s c v : in_set s c = true -> trim_right (v ++ [c]) s = trim_right v s.
Proof.
  intro H. unfold trim_right. rewrite rev_app_distr. cbn [rev app].
  rewrite trim_left_drop by exact H. reflexivity.
Qed.

(* case folding of ASCII *)
Lemma case_fold_fuel_low tab : forall v f, (length v <= f)%nat -> Forall (fun c => c < 181) v ->
  case_fold_fuel tab f v = map fold1 v.
Proof.
  induction v as [|c v IH]; intros f Hf HF.
  - destruct f; reflexivity.
  - cbn [length] in Hf. destruct f as [|f]; [lia|].
    pose proof (Forall_inv HF) as Hc. pose proof (Forall_inv_tail HF) as Hv. cbv beta in Hc.
    cbn [case_fold_fuel map]. destruct (N.ltb_spec c 181) as [_|Hge]; [|lia].
    unfold fold1 at 1. f_equal. apply IH; [lia | exact Hv].
Qed.

Lemma case_fold_low tab v : Forall (fun c => c < 181) v -> case_fold tab v = map fold1 v.
Proof. intro H. unfold case_fold. apply case_fold_fuel_low; [lia | exact H]. Qed.

Lemma chars_low v : Forall (fun c => lower c = true \/ blank c) v -> Forall (fun c => c < 181) v.
Proof.
  apply Forall_impl. intros c [H|[H|H]]; [unfold lower in H; lia | lia | lia].
Qed.

Lemma fold1_id v : Forall (fun c => lower c = true \/ blank c) v -> map fold1 v = v.
Proof.
  intro H. induction H as [|c v Hc Hv IH]; [reflexivity|].
  cbn [map]. rewrite IH. f_equal. unfold fold1.
  destruct ((65 <=? c) && (c <=? 90)) eqn:E; [|reflexivity].
  destruct Hc as [Hc|[Hc|Hc]]; [unfold lower in Hc|..]; lia.
Qed.

Lemma upper_is_map v : upper v = map up1 v.
Proof. reflexivity. Qed.

Lemma fold1_up1 v : Forall (fun c => lower c = true \/ blank c) v -> map fold1 (map up1 v) = v.
Proof.
  intro H. induction H as [|c v Hc Hv IH]; [reflexivity|].
  cbn [map]. rewrite IH. f_equal. unfold fold1, up1.
  destruct ((97 <=? c) && (c <=? 122)) eqn:E1.
  - destruct ((65 <=? c - 32) && (c - 32 <=? 90)) eqn:E2; lia.
  - destruct ((65 <=? c) && (c <=? 90)) eqn:E2; [|reflexivity].
    destruct Hc as [Hc|[Hc|Hc]]; [unfold lower in Hc|..]; lia.
Qed.

Lemma up1_chars_low v : Forall (fun c => lower c = true \/ blank c) v -> Forall (fun c => c < 181) (map up1 v).
Proof.
  intro H. induction H as [|c v Hc Hv IH]; [constructor|].
  cbn [map]. constructor; [|exact IH]. unfold up1.
  destruct ((97 <=? c) && (c <=? 122)) eqn:E1; [lia|].
  destruct Hc as [Hc|[Hc|Hc]]; [unfold lower in Hc|..]; lia.
Qed.

(* ReplaceSpaces on words joined by blanks *)
Notation collapse := (collapse_spaces space_table).
Notation run := (run_then_nonspace space_table).

Lemma collapse_false_word w rest : Forall (fun c => lower c = true) w ->
  collapse false (w ++ rest) 32 = w ++ collapse false rest 32.
Proof.
  intro H. induction H as [|c w Hc Hw IH]; [reflexivity|].
  cbn [app collapse_spaces]. rewrite (lower_not_space c Hc), IH. reflexivity.
Qed.

Lemma collapse_true_start c v : lower c = true -> collapse true (c :: v) 32 = 32 :: collapse false (c :: v) 32.
Proof. intro H. cbn [collapse_spaces]. rewrite (lower_not_space c H). reflexivity. Qed.

Lemma collapse_true_blanks sep v : Forall blank sep -> collapse true (sep ++ v) 32 = collapse true v 32.
Proof.
  intro H. induction H as [|c sep Hc Hs IH]; [reflexivity|].
  cbn [app collapse_spaces]. rewrite (blank_space c Hc). exact IH.
Qed.

Lemma collapse_blanks b sep v : Forall blank sep -> sep <> [] -> collapse b (sep ++ v) 32 = collapse true v 32.
Proof.
  intros H Hn. destruct sep as [|c sep]; [contradiction|].
  cbn [app collapse_spaces]. rewrite (blank_space c (Forall_inv H)).
  apply collapse_true_blanks, (Forall_inv_tail H).
Qed.

Lemma collapse_join sep ws : Forall blank sep -> sep <> [] -> Forall lw ws ->
  collapse false (join sep ws) 32 = join sp ws.
Proof.
  intros Hs Hn H. induction H as [|w r Hw Hr IH]; [reflexivity|].
  destruct r as [|w2 r].
  - cbn [join]. rewrite <- (app_nil_r w) at 1. rewrite collapse_false_word by apply Hw.
    cbn [collapse_spaces]. apply app_nil_r.
  - rewrite !join_cons2. rewrite collapse_false_word by apply Hw.
    rewrite (collapse_blanks false sep _ Hs Hn).
    destruct (join_starts sep (w2 :: r)) as [c [v' [E Hc]]]; [discriminate | exact Hr |].
    rewrite E in IH |- *. rewrite (collapse_true_start c v' Hc), IH. reflexivity.
Qed.

Lemma run_false_word w rest : Forall (fun c => lower c = true) w -> run false (w ++ rest) = run false rest.
Proof.
  intro H. induction H as [|c w Hc Hw IH]; [reflexivity|].
  cbn [app run_then_nonspace]. rewrite (lower_not_space c Hc). cbn [orb]. exact IH.
Qed.

Lemma run_true_blanks sep v : Forall blank sep -> run true (sep ++ v) = run true v.
Proof.
  intro H. induction H as [|c sep Hc Hs IH]; [reflexivity|].
  cbn [app run_then_nonspace]. rewrite (blank_space c Hc). exact IH.
Qed.

Lemma run_join2 sep w w2 r : Forall blank sep -> sep <> [] -> Forall lw (w :: w2 :: r) ->
  run false (join sep (w :: w2 :: r)) = true.
Proof.
  intros Hs Hn H. rewrite join_cons2. rewrite run_false_word by apply (Forall_inv H).
  destruct sep as [|b sep]; [contradiction|].
  cbn [app run_then_nonspace]. rewrite (blank_space b (Forall_inv Hs)).
  rewrite (run_true_blanks sep _ (Forall_inv_tail Hs)).
  destruct (join_starts (b :: sep) (w2 :: r)) as [c [v' [E Hc]]]; [discriminate | exact (Forall_inv_tail H) |].
  rewrite E. cbn [run_then_nonspace]. rewrite (lower_not_space c Hc). reflexivity.
Qed.

Lemma replace_spaces_join sep ws : Forall blank sep -> sep <> [] -> ws <> [] -> Forall lw ws ->
  replace_spaces space_table (join sep ws) 32 = join sp ws.
Proof.
  intros Hs Hn Hw H. unfold replace_spaces.
  destruct (run false (join sep ws)) eqn:E; [apply collapse_join; assumption|].
  destruct ws as [|w [|w2 r]]; [contradiction | reflexivity |].
  rewrite (run_join2 sep w w2 r Hs Hn H) in E. discriminate E.
Qed.

Definition widen1 (c : N) : bytes := if c =? 32 then [32;9] else [c].

Lemma widen1_word w : Forall (fun c => lower c = true) w -> flat_map widen1 w = w.
Proof.
  intro H. induction H as [|c w Hc Hw IH]; [reflexivity|].
  cbn [flat_map]. rewrite IH. unfold widen1.
  destruct (N.eqb_spec c 32) as [E|_]; [unfold lower in Hc; lia | reflexivity].
Qed.

Lemma widen1_join ws : Forall lw ws -> flat_map widen1 (join sp ws) = join [32;9] ws.
Proof.
  intro H. induction H as [|w r Hw Hr IH]; [reflexivity|].
  destruct r as [|w2 r].
  - cbn [join]. apply widen1_word, Hw.
  - rewrite !join_cons2, !flat_map_app, IH, (widen1_word w) by apply Hw. reflexivity.
Qed.

Lemma widen_join ws : Forall lw ws -> widen (join sp ws) = 32 :: join [32;9] ws ++ [32].
Proof.
  intro H. change (widen (join sp ws)) with ([32] ++ flat_map widen1 (join sp ws) ++ [32]).
  rewrite (widen1_join ws H). reflexivity.
Qed.

Lemma blank_sp : Forall blank sp.
Proof. constructor; [left; reflexivity | constructor]. Qed.
Lemma blank_sp_tab : Forall blank [32;9].
Proof. constructor; [left; reflexivity|]. constructor; [right; reflexivity | constructor]. Qed.

Lemma tlr_unfold v : ToLinkReference v =
  replace_spaces space_table (case_fold case_foldings (trim_right (trim_left v spaces) spaces)) 32.
Proof. reflexivity. Qed.

Lemma tlr_join sep ws : Forall blank sep -> sep <> [] -> ws <> [] -> Forall lw ws ->
  ToLinkReference (join sep ws) = join sp ws.
Proof.
  intros Hs Hn Hw H. rewrite tlr_unfold.
  destruct (join_starts sep ws Hw H) as [c [v1 [E1 Hc1]]].
  destruct (join_ends sep ws Hw H) as [v2 [c2 [E2 Hc2]]].
  pose proof (join_chars sep ws Hs H) as Hch.
  rewrite E1 at 1. rewrite trim_left_keep by (apply lower_not_in_spaces, Hc1). rewrite <- E1.
  rewrite E2 at 1. rewrite trim_right_keep by (apply lower_not_in_spaces, Hc2). rewrite <- E2.
  rewrite (case_fold_low _ _ (chars_low _ Hch)), (fold1_id _ Hch).
  apply replace_spaces_join; assumption.
Qed.

Theorem label_variants_same_key (ws : list bytes) :
  label_words ws = true ->
  ToLinkReference (upper (join sp ws)) = ToLinkReference (join sp ws) /\
  ToLinkReference (widen (join sp ws)) = ToLinkReference (join sp ws).
Proof.
  intro Hl. apply label_words_lw in Hl as [Hw H].
  rewrite (tlr_join sp ws blank_sp) by (discriminate || assumption).
  split.
  - rewrite tlr_unfold, upper_is_map.
    destruct (join_starts sp ws Hw H) as [c [v1 [E1 Hc1]]].
    destruct (join_ends sp ws Hw H) as [v2 [c2 [E2 Hc2]]].
    pose proof (join_chars sp ws blank_sp H) as Hch.
    rewrite E1 at 1. cbn [map]. rewrite trim_left_keep by (apply upper_not_in_spaces, Hc1).
    change (up1 c :: map up1 v1) with (map up1 (c :: v1)). rewrite <- E1.
    rewrite E2 at 1. rewrite map_app. cbn [map]. rewrite trim_right_keep by (apply upper_not_in_spaces, Hc2).
    change [up1 c2] with (map up1 [c2]). rewrite <- map_app, <- E2.
    rewrite (case_fold_low _ _ (up1_chars_low _ Hch)), (fold1_up1 _ Hch).
    apply replace_spaces_join; (exact blank_sp || discriminate || assumption).
  - rewrite (widen_join ws H), tlr_unfold.
    rewrite trim_left_drop by reflexivity.
    assert (Hn2 : [32;9] <> []) by discriminate.
    destruct (join_starts [32;9] ws Hw H) as [c [v1 [E1 Hc1]]].
    destruct (join_ends [32;9] ws Hw H) as [v2 [c2 [E2 Hc2]]].
    pose proof (join_chars [32;9] ws blank_sp_tab H) as Hch.
    rewrite E1 at 1. cbn [app]. rewrite trim_left_keep by (apply lower_not_in_spaces, Hc1).
    change (c :: v1 ++ [32]) with ((c :: v1) ++ [32]). rewrite <- E1.
    rewrite trim_right_drop by reflexivity.
    rewrite E2 at 1. rewrite trim_right_keep by (apply lower_not_in_spaces, Hc2). rewrite <- E2.
    rewrite (case_fold_low _ _ (chars_low _ Hch)), (fold1_id _ Hch).
    apply replace_spaces_join; (exact blank_sp_tab || assumption).
Qed.

Theorem label_variants_resolve (m : refmap bytes) (ws : list bytes) (d : bytes) :
  label_words ws = true ->
  lookup_key bytes m (ToLinkReference (join sp ws)) = None ->
  RefsLookup (RefsAdd m (join sp ws) d) (upper (join sp ws)) = Some d /\
  RefsLookup (RefsAdd m (join sp ws) d) (widen (join sp ws)) = Some d /\
  RefsLookup (RefsAdd m (join sp ws) d) (join sp ws) = Some d.
Proof.
  intros Hl Hnone. destruct (label_variants_same_key ws Hl) as [Hu Hwd].
  unfold RefsLookup, RefsAdd.
  split; [|split]; apply reference_by_variant; (exact Hnone || (symmetry; assumption) || reflexivity).
Qed.

(* ======================================================================================== *)
(* T4: destinations over the generator's alphabet are written as html_of prescribes
   (HTML-escaped only), whether or not references are resolved *)
Lemma dest_char_facts c : dest_char c = true -> c < 256 /\ c <> 59 /\ c <> 92.
Proof. unfold dest_char, lower. cbn [existsb]. lia. Qed.

Lemma dest_char_safe c : dest_char c = true -> url_safe url_escape_table c = true.
Proof.
  intro H. destruct (dest_char_facts c H) as [Hc _].
  assert (B : forallb (fun n => (fun c => negb (dest_char c) || url_safe url_escape_table c) (N.of_nat n)) (seq 0 256) = true)
    by (vm_compute; reflexivity).
  pose proof (byte_forall _ B c Hc) as B'. cbv beta in B'. rewrite H in B'. exact B'.
Qed.

Lemma esc1_is_esc_html1 c : esc1 html_escape_table c = esc_html1 c.
Proof.
  unfold esc1. rewrite html_escape_table_std. unfold esc_std, esc_html1.
  destruct (c =? 34); [reflexivity|]. destruct (c =? 38); [reflexivity|].
  destruct (c =? 60); [reflexivity|]. destruct (c =? 62); reflexivity.
Qed.

Lemma escape_html_is_esc_html v : escape_html html_escape_table v = esc_html v.
Proof.
  unfold escape_html, esc_html. induction v as [|c v IH]; [reflexivity|].
  cbn [flat_map]. rewrite esc1_is_esc_html1, IH. reflexivity.
Qed.

Lemma loop_dest total : forall v f, (length v <= f)%nat -> forallb dest_char v = true ->
  url_escape_loop url_escape_table utf8len_table f total v = v.
Proof.
  induction v as [|c v IH]; intros f Hf Hd.
  - destruct f; reflexivity.
  - cbn [length] in Hf. destruct f as [|f]; [lia|].
    cbn [forallb] in Hd. apply andb_prop in Hd as [Hc Hv].
    cbn [url_escape_loop]. rewrite (dest_char_safe c Hc). f_equal. apply IH; [lia | exact Hv].
Qed.

Lemma url_escape_raw_dest v : forallb dest_char v = true -> url_escape_raw url_escape_table utf8len_table v = v.
Proof. intro H. unfold url_escape_raw. apply loop_dest; [lia | exact H]. Qed.

Lemma unescape_punct_cons2 t c d r :
  unescape_punct t (c :: d :: r) =
  if (c =? 92) && is_punct t d then d :: unescape_punct t r else c :: unescape_punct t (d :: r).
Proof. reflexivity. Qed.

Lemma unescape_punct_id t v : Forall (fun c => c <> 92) v -> unescape_punct t v = v.
Proof.
  intro H. induction H as [|c r Hc Hr IH]; [reflexivity|].
  destruct r as [|d r]; [reflexivity|].
  rewrite unescape_punct_cons2, IH. destruct (N.eqb_spec c 92) as [E|E]; [contradiction | reflexivity].
Qed.

Lemma read_while_snd_Forall (Q : N -> Prop) p v : Forall Q v -> Forall Q (snd (read_while p v)).
Proof.
  intro H. induction H as [|c r Hc Hr IH]; [constructor|].
  cbn [read_while]. destruct (p c).
  - destruct (read_while p r) as [a b]. exact IH.
  - constructor; assumption.
Qed.

Lemma no_semicolon_tail p v d tl : Forall (fun c => c <> 59) v -> read_while p v = (d, 59 :: tl) -> False.
Proof.
  intros H E. pose proof (read_while_snd_Forall _ p v H) as H'. rewrite E in H'. cbn [snd] in H'.
  inversion H' as [|x l Hx Hl]. apply Hx. reflexivity.
Qed.

Ltac crack E :=
  repeat (match type of E with
          | context [match ?x with _ => _ end] => is_var x; destruct x
          | context [match ?x with _ => _ end] => destruct x eqn:?
          end; cbv beta match in E; try discriminate E).

Lemma numeric_ref_none v : Forall (fun c => c <> 59) v -> numeric_ref v = None.
Proof.
  intro HF. destruct (numeric_ref v) as [[repl tl]|] eqn:E; [exfalso|reflexivity].
  unfold numeric_ref in E.
  destruct v as [|a [|nc rest]]; cbv beta match in E; try discriminate E; try (crack E; fail).
  pose proof (Forall_inv_tail HF) as HF1. pose proof (Forall_inv_tail HF1) as HF2.
  crack E.
  all: match goal with
       | H : read_while _ _ = (_, 59 :: _) |- _ => eapply no_semicolon_tail; [|exact H]
       end.
  all: try exact HF2; try exact HF1.
Qed.

Lemma entity_ref_none ents v : Forall (fun c => c <> 59) v -> entity_ref ents v = None.
Proof.
  intro HF. destruct (entity_ref ents v) as [[repl tl]|] eqn:E; [exfalso|reflexivity].
  unfold entity_ref in E.
  destruct (read_while is_alnum v) as [name tl0] eqn:R.
  assert (Hgen : match name, tl0 with
                 | _ :: _, 59 :: tl' => match lookup_entity ents name with Some cs => Some (cs, tl') | None => None end
                 | _, _ => None
                 end = Some (repl, tl) -> False).
  { clear E. intro E. crack E.
    all: eapply no_semicolon_tail; [exact HF | exact R]. }
  crack E; apply Hgen; exact E.
Qed.

Lemma resolve_numeric_fuel_id : forall f v, (length v <= f)%nat -> Forall (fun c => c <> 59) v ->
  resolve_numeric_fuel f v = v.
Proof.
  induction f as [|f IH]; intros v Hf HF.
  - destruct v; [reflexivity | cbn [length] in Hf; lia].
  - destruct v as [|c rest]; [reflexivity|]. cbn [length] in Hf.
    pose proof (Forall_inv_tail HF) as HF1.
    cbn [resolve_numeric_fuel]. rewrite (numeric_ref_none rest HF1), IH by (lia || exact HF1).
    destruct (c =? 38); reflexivity.
Qed.

Lemma resolve_entities_fuel_id ents : forall f v, (length v <= f)%nat -> Forall (fun c => c <> 59) v ->
  resolve_entities_fuel ents f v = v.
Proof.
  induction f as [|f IH]; intros v Hf HF.
  - destruct v; [reflexivity | cbn [length] in Hf; lia].
  - destruct v as [|c rest]; [reflexivity|]. cbn [length] in Hf.
    pose proof (Forall_inv_tail HF) as HF1.
    cbn [resolve_entities_fuel]. rewrite (entity_ref_none ents rest HF1), IH by (lia || exact HF1).
    destruct (c =? 38); reflexivity.
Qed.

Lemma dest_no_special d : forallb dest_char d = true ->
  Forall (fun c => c <> 59) d /\ Forall (fun c => c <> 92) d.
Proof.
  intro H. rewrite forallb_forall in H.
  split; apply Forall_forall; intros c Hc; apply dest_char_facts, H, Hc.
Qed.

Lemma url_escape_dest d resolve : forallb dest_char d = true ->
  url_escape url_escape_table utf8len_table punct_table entities d resolve = d.
Proof.
  intro H. destruct (dest_no_special d H) as [H59 H92]. unfold url_escape. destruct resolve.
  - rewrite (unescape_punct_id punct_table d H92).
    unfold resolve_numeric. rewrite (resolve_numeric_fuel_id _ d (le_n _) H59).
    unfold resolve_entities. rewrite (resolve_entities_fuel_id entities _ d (le_n _) H59).
    apply url_escape_raw_dest, H.
  - apply url_escape_raw_dest, H.
Qed.

Theorem dest_rendering (d : bytes) (resolve : bool) :
  forallb dest_char d = true ->
  UrlValue true d resolve = esc_html d.
Proof.
  intro H. unfold UrlValue, url_value. cbv zeta. rewrite (url_escape_dest d resolve H).
  cbn [orb]. apply escape_html_is_esc_html.
Qed.

(* ======================================================================================== *)
(* T6: the prescribed HTML is a function of the structure alone: two documents that differ only
   in spelling choices are prescribed the same bytes *)
(* ---------- strong induction principles for the nested inductives ---------- *)
Section AtomInd.
Variable P : atom -> Prop.
Hypothesis HWord : forall w, P (AWord w).
Hypothesis HEsc : forall c, P (AEsc c).
Hypothesis HEnt : forall s cp, P (AEnt s cp).
Hypothesis HEmph : forall d b, Forall P b -> P (AEmph d b).
Hypothesis HStrong : forall d b, Forall P b -> P (AStrong d b).
Hypothesis HCode : forall t p c, P (ACode t p c).
Hypothesis HLink : forall st v ts b dest title label, Forall P b -> P (ALink st v ts b dest title label).
Hypothesis HImage : forall alt src, P (AImage alt src).
Hypothesis HAuto : forall u, P (AAuto u).
Hypothesis HRaw : forall h, P (ARaw h).
Hypothesis HSoft : P ASoft.
Hypothesis HHard : forall s, P (AHard s).
Fixpoint atom_ind' (a : atom) : P a :=
  let go := fix go (l : list atom) : Forall P l :=
    match l with [] => Forall_nil P | x :: r => Forall_cons x (atom_ind' x) (go r) end in
  match a with
  | AWord w => HWord w
  | AEsc c => HEsc c
  | AEnt s cp => HEnt s cp
  | AEmph d b => HEmph d b (go b)
  | AStrong d b => HStrong d b (go b)
  | ACode t p c => HCode t p c
  | ALink st v ts b dest title label => HLink st v ts b dest title label (go b)
  | AImage alt src => HImage alt src
  | AAuto u => HAuto u
  | ARaw h => HRaw h
  | ASoft => HSoft
  | AHard s => HHard s
  end.
End AtomInd.

Section BlockInd.
Variable P : block -> Prop.
Hypothesis HPara : forall i a, P (BPara i a).
Hypothesis HHeading : forall i lv st ex a, P (BHeading i lv st ex a).
Hypothesis HHr : forall i st, P (BHr i st).
Hypothesis HCode : forall st i fl info lines, P (BCode st i fl info lines).
Hypothesis HQuote : forall st bs, Forall P bs -> P (BQuote st bs).
Hypothesis HList : forall i g o s dl mk t items, Forall (Forall P) items -> P (BList i g o s dl mk t items).
Hypothesis HHtml : forall lines, P (BHtml lines).
Fixpoint block_ind' (b : block) : P b :=
  let go := fix go (l : list block) : Forall P l :=
    match l with [] => Forall_nil P | x :: r => Forall_cons x (block_ind' x) (go r) end in
  let goi := fix goi (its : list (list block)) : Forall (Forall P) its :=
    match its with [] => Forall_nil (Forall P) | it :: r => Forall_cons it (go it) (goi r) end in
  match b with
  | BPara i a => HPara i a
  | BHeading i lv st ex a => HHeading i lv st ex a
  | BHr i st => HHr i st
  | BCode st i fl info lines => HCode st i fl info lines
  | BQuote st bs => HQuote st bs (go bs)
  | BList i g o s dl mk t items => HList i g o s dl mk t items (goi items)
  | BHtml lines => HHtml lines
  end.
End BlockInd.

(* ---------- usable equations for the nested fixpoints ---------- *)
Definition sep_of (x y : atom) : bytes :=
  match x, y with
  | ASoft, _ | AHard _, _ | _, ASoft | _, AHard _ => []
  | _, _ => sp
  end.

Lemma atoms_html_nil : atoms_html [] = [].
Proof. reflexivity. Qed.
Lemma atoms_html_one x : atoms_html [x] = atom_html x.
Proof. reflexivity. Qed.
Lemma atoms_html_cons2 x y r : atoms_html (x :: y :: r) = atom_html x ++ sep_of x y ++ atoms_html (y :: r).
Proof. reflexivity. Qed.

Lemma atom_html_emph d b : atom_html (AEmph d b) = [60;101;109;62] ++ atoms_html b ++ [60;47;101;109;62].
Proof. reflexivity. Qed.
Lemma atom_html_strong d b :
  atom_html (AStrong d b) = [60;115;116;114;111;110;103;62] ++ atoms_html b ++ [60;47;115;116;114;111;110;103;62].
Proof. reflexivity. Qed.
Lemma atom_html_link st v ts b dest title label :
  atom_html (ALink st v ts b dest title label) =
  [60;97;32;104;114;101;102;61;34] ++ esc_html dest ++ [34] ++
  (match title with Some t => [32;116;105;116;108;101;61;34] ++ esc_html t ++ [34] | None => [] end) ++
  [62] ++ atoms_html b ++ [60;47;97;62].
Proof. reflexivity. Qed.

Definition item_html (tight : bool) (it : list block) : bytes :=
  if tight then
    match it with
    | BPara _ a :: rest =>
        tag [108;105] ++ atoms_html a ++ (match rest with [] => [] | _ => nl ++ flat_map block_html rest end) ++ ctag [108;105] ++ nl
    | _ => tag [108;105] ++ nl ++ flat_map block_html it ++ ctag [108;105] ++ nl
    end
  else tag [108;105] ++ nl ++ flat_map block_html it ++ ctag [108;105] ++ nl.

Lemma block_html_para i a : block_html (BPara i a) = tag [112] ++ atoms_html a ++ ctag [112] ++ nl.
Proof. reflexivity. Qed.
Lemma block_html_heading i lv st ex a :
  block_html (BHeading i lv st ex a) = tag ([104] ++ dec lv) ++ atoms_html a ++ ctag ([104] ++ dec lv) ++ nl.
Proof. reflexivity. Qed.
Lemma block_html_quote st bs :
  block_html (BQuote st bs) =
  tag [98;108;111;99;107;113;117;111;116;101] ++ nl ++ flat_map block_html bs ++ ctag [98;108;111;99;107;113;117;111;116;101] ++ nl.
Proof. reflexivity. Qed.
Lemma block_html_list i g ordered start dl mk tight items :
  block_html (BList i g ordered start dl mk tight items) =
  [60] ++ (if ordered then [111;108] else [117;108]) ++
  (if ordered && negb (start =? 1) then [32;115;116;97;114;116;61;34] ++ dec start ++ [34] else []) ++ [62;10] ++
  flat_map (item_html tight) items ++ ctag (if ordered then [111;108] else [117;108]) ++ nl.
Proof. reflexivity. Qed.

(* ---------- erasure ---------- *)
Lemma sep_of_erase x y : sep_of (erase_atom x) (erase_atom y) = sep_of x y.
Proof. destruct x, y; reflexivity. Qed.

Lemma atoms_html_erase l :
  Forall (fun a => atom_html (erase_atom a) = atom_html a) l ->
  atoms_html (map erase_atom l) = atoms_html l.
Proof.
  intro H. induction H as [|x r Hx Hr IH]; [reflexivity|].
  destruct r as [|y r].
  - cbn [map]. rewrite !atoms_html_one. exact Hx.
  - cbn [map] in IH |- *. rewrite !atoms_html_cons2, Hx, sep_of_erase, IH. reflexivity.
Qed.

Lemma atom_html_erase a : atom_html (erase_atom a) = atom_html a.
Proof.
  induction a as [w|c|s cp|d b IH|d b IH|t p c|st v ts b dest title label IH|alt src|u|h| |s] using atom_ind';
    try reflexivity.
  - cbn [erase_atom]. rewrite !atom_html_emph, (atoms_html_erase b IH). reflexivity.
  - cbn [erase_atom]. rewrite !atom_html_strong, (atoms_html_erase b IH). reflexivity.
  - cbn [erase_atom]. rewrite !atom_html_link, (atoms_html_erase b IH). reflexivity.
Qed.

Lemma atoms_html_erase' l : atoms_html (map erase_atom l) = atoms_html l.
Proof. apply atoms_html_erase, Forall_forall. intros a _. apply atom_html_erase. Qed.

Lemma blocks_html_erase l :
  Forall (fun b => block_html (erase_block b) = block_html b) l ->
  flat_map block_html (map erase_block l) = flat_map block_html l.
Proof.
  intro H. induction H as [|x r Hx Hr IH]; [reflexivity|].
  cbn [map flat_map]. rewrite Hx, IH. reflexivity.
Qed.

Definition not_para (b : block) : Prop := match b with BPara _ _ => False | _ => True end.

Lemma item_html_not_para t b rest : not_para b ->
  item_html t (b :: rest) = tag [108;105] ++ nl ++ flat_map block_html (b :: rest) ++ ctag [108;105] ++ nl.
Proof. intro H. destruct t; [|reflexivity]. destruct b; try reflexivity. destruct H. Qed.

Lemma not_para_erase b : not_para b -> not_para (erase_block b).
Proof.
  destruct b as [i a|i lv st ex a|i st|st i fl info lines|st bs|i g o s dl mk t items|lines];
    cbn [erase_block not_para]; try (intro H; exact H).
  intros _. destruct (2 <=? st); exact I.
Qed.

Lemma item_html_erase t it :
  Forall (fun b => block_html (erase_block b) = block_html b) it ->
  item_html t (map erase_block it) = item_html t it.
Proof.
  intro H. destruct it as [|b rest]; [reflexivity|].
  assert (Hall : flat_map block_html (map erase_block (b :: rest)) = flat_map block_html (b :: rest))
    by (apply blocks_html_erase; exact H).
  destruct t.
  - destruct b as [i a|i lv st ex a|i st|st i fl info lines|st bs|i g o s dl mk t items|lines].
    1: { inversion H as [|b' r' Hb Hrest]; subst b' r'.
         cbn [map erase_block]. unfold item_html.
         rewrite atoms_html_erase', (blocks_html_erase rest Hrest).
         destruct rest; reflexivity. }
    all: cbn [map] in Hall |- *; rewrite !item_html_not_para by (try apply not_para_erase; exact I);
         rewrite Hall; reflexivity.
  - unfold item_html. rewrite Hall. reflexivity.
Qed.

Lemma items_html_erase t items :
  Forall (Forall (fun b => block_html (erase_block b) = block_html b)) items ->
  flat_map (item_html t) (map (map erase_block) items) = flat_map (item_html t) items.
Proof.
  intro H. induction H as [|it r Hit Hr IH]; [reflexivity|].
  cbn [map flat_map]. rewrite (item_html_erase t it Hit), IH. reflexivity.
Qed.

Lemma block_html_erase b : block_html (erase_block b) = block_html b.
Proof.
  induction b as [i a|i lv st ex a|i st|st i fl info lines|st bs IH|i g o s dl mk t items IH|lines] using block_ind'.
  - cbn [erase_block]. rewrite !block_html_para, atoms_html_erase'. reflexivity.
  - cbn [erase_block]. rewrite !block_html_heading, atoms_html_erase'. reflexivity.
  - reflexivity.
  - cbn [erase_block]. destruct (2 <=? st) eqn:E.
    + destruct info; cbn [block_html]; [reflexivity|]. rewrite E. reflexivity.
    + destruct info; cbn [block_html]; [reflexivity|]. rewrite E. reflexivity.
  - cbn [erase_block]. rewrite !block_html_quote, (blocks_html_erase bs IH). reflexivity.
  - cbn [erase_block]. rewrite !block_html_list, (items_html_erase t items IH). reflexivity.
  - reflexivity.
Qed.

Theorem html_of_erase (d : doc) : html_of (erase d) = html_of d.
Proof.
  unfold html_of, erase. apply blocks_html_erase, Forall_forall. intros b _. apply block_html_erase.
Qed.

Theorem html_of_spelling_independent (d1 d2 : doc) : erase d1 = erase d2 -> html_of d1 = html_of d2.
Proof. intro H. rewrite <- (html_of_erase d1), <- (html_of_erase d2), H. reflexivity. Qed.


(* ======================================================================================== *)
(* T7: the final newline is the last byte and nothing else changes *)
Theorem md_of_final_newline (tabs : bool) (d : doc) : md_of tabs true d = md_of tabs false d ++ [10].
Proof. unfold md_of. cbv zeta. rewrite app_nil_r. reflexivity. Qed.
