(* Small mechanism theorems for C05 (segment arithmetic stays in range) and C11 (a component that
   is not registered for a byte does not change that byte's dispatch list). *)
Require Import GM.model.Base GM.model.Util GM.model.Reader GM.model.Prio.
From Coq Require Import ZArith Lia Permutation.
Open Scope Z_scope.

(* Proof status: every statement below was proved exactly as given in the skeleton; no statement
   had to be changed (no counterexample found: all of them are true as written). *)

(* ---------------- C05: Segment operations ---------------- *)
Definition seg_range (src : bytes) (t : seg) : Prop := 0 <= s_start t <= s_stop t /\ s_stop t <= zlen src.

Section Seg.
Variable space_table : list N.

Lemma slice_ok (src : bytes) a b : 0 <= a <= b -> b <= zlen src ->
  exists v, slice src a b = Ok v /\ zlen v = b - a.
Proof.
  intros Hab Hb. unfold slice.
  destruct (Z.leb_spec 0 a) as [H0|H0]; [|lia].
  destruct (Z.leb_spec a b) as [H1|H1]; [|lia].
  destruct (Z.leb_spec b (zlen src)) as [H2|H2]; [|lia].
  cbn [andb]. eexists. split; [reflexivity|].
  unfold zlen in *. rewrite firstn_length, skipn_length. lia.
Qed.

Lemma trim_left_space_len_bounds (v : bytes) :
  0 <= trim_left_space_len space_table v <= zlen v.
Proof.
  induction v as [|c r IH]; cbn [trim_left_space_len]; unfold zlen in *; cbn [length].
  - lia.
  - destruct (Util.is_space space_table c); lia.
Qed.

Lemma trim_right_space_len_bounds (v : bytes) :
  0 <= trim_right_space_len space_table v <= zlen v.
Proof.
  unfold trim_right_space_len.
  pose proof (trim_left_space_len_bounds (rev v)) as H.
  unfold zlen in *. rewrite rev_length in H. exact H.
Qed.

Theorem seg_with_start_in_range src t v : seg_range src t -> s_start t <= v <= s_stop t ->
  seg_range src (seg_with_start t v).
Proof.
  unfold seg_range, seg_with_start, mksegp. cbn [s_start s_stop]. intros Hr Hv. lia.
Qed.

Theorem seg_with_stop_in_range src t v : seg_range src t -> s_start t <= v <= s_stop t ->
  seg_range src (seg_with_stop t v).
Proof.
  unfold seg_range, seg_with_stop, mksegp. cbn [s_start s_stop]. intros Hr Hv. lia.
Qed.

Theorem seg_between_in_range src a b : seg_range src a -> seg_range src b -> s_stop a = s_stop b ->
  s_start a <= s_start b ->
  exists c, seg_between a b = Ok c /\ seg_range src c /\ s_start c = s_start a /\ s_stop c = s_start b.
Proof.
  unfold seg_range. intros Ha Hb Hstop Hle. unfold seg_between.
  rewrite Hstop, Z.eqb_refl. eexists. split; [reflexivity|].
  unfold mksegp. cbn [s_start s_stop]. lia.
Qed.

Theorem seg_trim_left_space_in_range src t : seg_range src t ->
  exists t', seg_trim_left_space space_table src t = Ok t' /\ seg_range src t' /\
             s_stop t' = s_stop t /\ s_start t <= s_start t'.
Proof.
  unfold seg_range. intros Hr. unfold seg_trim_left_space.
  destruct (slice_ok src (s_start t) (s_stop t)) as [v [Hs Hl]]; [lia|lia|].
  rewrite Hs. cbn [bind]. eexists. split; [reflexivity|].
  pose proof (trim_left_space_len_bounds v) as Hb.
  unfold mkseg. cbn [s_start s_stop]. lia.
Qed.

Theorem seg_trim_right_space_in_range src t : seg_range src t ->
  exists t', seg_trim_right_space space_table src t = Ok t' /\ seg_range src t' /\
             s_start t' = s_start t /\ s_stop t' <= s_stop t.
Proof.
  unfold seg_range. intros Hr. unfold seg_trim_right_space.
  destruct (slice_ok src (s_start t) (s_stop t)) as [v [Hs Hl]]; [lia|lia|].
  rewrite Hs. cbn [bind].
  pose proof (trim_right_space_len_bounds v) as Hb.
  destruct (Z.eqb_spec (trim_right_space_len space_table v) (zlen v)) as [E|E].
  - eexists. split; [reflexivity|]. unfold mkseg. cbn [s_start s_stop]. lia.
  - eexists. split; [reflexivity|]. unfold mksegp. cbn [s_start s_stop]. lia.
Qed.

(* Segment.Value never panics on an in-range segment with non-negative padding, and its length is
   padding + (stop - start) (+1 when a newline is forced) *)
Theorem seg_value_total src t : seg_range src t -> 0 <= s_pad t -> exists v, seg_value src t = Ok v.
Proof.
  unfold seg_range. intros Hr Hp. unfold seg_value.
  destruct (slice_ok src (s_start t) (s_stop t)) as [v [Hs Hl]]; [lia|lia|].
  rewrite Hs. cbn [bind].
  destruct (Z.ltb_spec (s_pad t) 0) as [Hn|Hn]; [lia|].
  destruct (s_fnl t).
  - destruct (rev _) as [|c r]; [eexists; reflexivity|].
    destruct (N.eqb c 10); eexists; reflexivity.
  - eexists; reflexivity.
Qed.
End Seg.

(* ---------------- C11: untriggered components are invisible to dispatch ---------------- *)
Lemma occurrences_untriggered c p : has_trigger c p = false -> occurrences c p = [].
Proof.
  unfold has_trigger, occurrences. destruct (c_trig p) as [ts|]; [|reflexivity].
  induction ts as [|t ts IH]; cbn [existsb filter map]; intros H.
  - reflexivity.
  - apply Bool.orb_false_iff in H. destruct H as [Ht Hr]. rewrite Ht. apply IH. exact Hr.
Qed.

Lemma flat_occ_insert_noop c p s : occurrences c p = [] ->
  flat_map (occurrences c) (insert_comp p s) = flat_map (occurrences c) s.
Proof.
  intros Ho. induction s as [|y s IH]; cbn [insert_comp].
  - cbn [flat_map]. rewrite Ho. reflexivity.
  - destruct (c_prio p <=? c_prio y).
    + change (flat_map (occurrences c) (p :: y :: s))
        with (occurrences c p ++ flat_map (occurrences c) (y :: s)).
      rewrite Ho. reflexivity.
    + cbn [flat_map]. rewrite IH. reflexivity.
Qed.

Lemma filter_insert_noop (f : comp -> bool) p s : f p = false ->
  filter f (insert_comp p s) = filter f s.
Proof.
  intros Hf. induction s as [|y s IH]; cbn [insert_comp].
  - cbn [filter]. rewrite Hf. reflexivity.
  - destruct (c_prio p <=? c_prio y).
    + change (filter f (p :: y :: s)) with (if f p then p :: filter f (y :: s) else filter f (y :: s)).
      rewrite Hf. reflexivity.
    + cbn [filter]. rewrite IH. reflexivity.
Qed.

(* the winner of a first-accept loop over a concatenation *)
Lemma consult_app_winner a b :
  snd (consult (a ++ b)) = match snd (consult a) with Some w => Some w | None => snd (consult b) end.
Proof.
  induction a as [|x a IH]; cbn [app consult].
  - reflexivity.
  - destruct (c_accept x).
    + reflexivity.
    + destruct (consult (a ++ b)) as [log1 w1]. destruct (consult a) as [log2 w2].
      cbn [snd] in *. exact IH.
Qed.

Lemma consult_occurrences_declining c p : c_accept p = false ->
  snd (consult (occurrences c p)) = None.
Proof.
  intros Ha. unfold occurrences. destruct (c_trig p) as [ts|]; [|reflexivity].
  induction (filter (N.eqb c) ts) as [|t r IH]; cbn [map consult].
  - reflexivity.
  - rewrite Ha. destruct (consult (map (fun _ => p) r)) as [log w]. cbn [snd] in *. exact IH.
Qed.

Lemma flat_occ_insert_declining c p s : c_accept p = false ->
  snd (consult (flat_map (occurrences c) (insert_comp p s))) =
  snd (consult (flat_map (occurrences c) s)).
Proof.
  intros Ha. induction s as [|y s IH]; cbn [insert_comp].
  - cbn [flat_map]. rewrite consult_app_winner, consult_occurrences_declining by exact Ha.
    reflexivity.
  - destruct (c_prio p <=? c_prio y).
    + change (flat_map (occurrences c) (p :: y :: s))
        with (occurrences c p ++ flat_map (occurrences c) (y :: s)).
      rewrite consult_app_winner, consult_occurrences_declining by exact Ha. reflexivity.
    + cbn [flat_map]. rewrite !consult_app_winner, IH. reflexivity.
Qed.

(* registering one more component p changes the candidate list of byte c only if p is
   registered for c (or, for block parsers, is trigger-less) *)
Theorem untriggered_inline_noop l p c : has_trigger c p = false ->
  inline_table (p :: l) c = inline_table l c.
Proof.
  intros Ht. unfold inline_table. cbn [sort_comps fold_right].
  apply flat_occ_insert_noop, occurrences_untriggered, Ht.
Qed.

Theorem untriggered_block_noop l p c : has_trigger c p = false -> is_free p = false ->
  block_candidates (p :: l) c = block_candidates l c.
Proof.
  intros Ht Hf. unfold block_candidates, block_table, free_parsers. cbn [sort_comps fold_right].
  fold (sort_comps l).
  rewrite flat_occ_insert_noop by (apply occurrences_untriggered, Ht).
  rewrite filter_insert_noop by exact Hf. reflexivity.
Qed.

(* a component that is consulted but always declines does not change who wins *)
Theorem declining_component_invisible l p c : c_accept p = false ->
  snd (consult (inline_table (p :: l) c)) = snd (consult (inline_table l c)).
Proof.
  intros Ha. unfold inline_table. cbn [sort_comps fold_right].
  apply flat_occ_insert_declining, Ha.
Qed.

(* C12: every statement found by the typed scan of the current source is on the reviewed list,
   and the scan had no type-checking problem that could hide one *)
Require GM.gen.WriteSites GM.model.WriteSitesReviewed.
Lemma write_sites_all_reviewed :
  WriteSitesReviewed.sites_reviewed WriteSites.write_sites WriteSites.write_scan_problems = true.
Proof. vm_compute. reflexivity. Qed.
