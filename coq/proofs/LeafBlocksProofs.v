(* C02: the leaf block parsers (model/LeafBlocks.v) accept every spelling md_of uses for thematic
   breaks, ATX headings and code fences, and read the same structure from each. *)
Require Import GM.model.Base GM.model.Util GM.model.Reader GM.model.Blocks GM.model.ListItem GM.model.LeafBlocks.
Require Import GM.proofs.SpecMechProofs GM.proofs.ListItemProofs.
From Coq Require Import ZArith Lia ZifyBool ZifyNat ZifyN.
Open Scope Z_scope.

Section WithTables.
Variable space_table : list N.
Hypothesis sp32 : is_space space_table 32%N = true.
Hypothesis sp9 : is_space space_table 9%N = true.
Hypothesis sp10 : is_space space_table 10%N = true.
Notation is_space := (is_space space_table).

(* ---- auxiliary facts ---- *)
Lemma lb_iwp_blanks n c rest cur : c <> 32%N -> c <> 9%N -> forall w pos,
  indent_width_pos (repeat 32%N n ++ c :: rest) cur w pos = (w + Z.of_nat n, pos + Z.of_nat n).
Proof.
  intros H32 H9. induction n as [|n IH]; intros w pos.
  - cbn [repeat app indent_width_pos].
    destruct (N.eqb_spec c 32) as [E|_]; [contradiction|].
    destruct (N.eqb_spec c 9) as [E|_]; [contradiction|].
    f_equal; lia.
  - cbn [repeat app indent_width_pos]. change (N.eqb 32 32) with true. cbv iota.
    rewrite IH. f_equal; lia.
Qed.

Lemma lb_indent_width_blanks n c rest off : c <> 32%N -> c <> 9%N ->
  indent_width (repeat 32%N n ++ c :: rest) off = (Z.of_nat n, Z.of_nat n).
Proof.
  intros H32 H9. unfold indent_width. rewrite (lb_iwp_blanks n c rest off H32 H9). f_equal; lia.
Qed.

Lemma lb_not_space_32 c : is_space c = false -> c <> 32%N.
Proof. intros H E. subst c. rewrite sp32 in H. discriminate. Qed.
Lemma lb_not_space_9 c : is_space c = false -> c <> 9%N.
Proof. intros H E. subst c. rewrite sp9 in H. discriminate. Qed.
Lemma lb_not_space_10 c : is_space c = false -> c <> 10%N.
Proof. intros H E. subst c. rewrite sp10 in H. discriminate. Qed.

Lemma lb_zskip_blanks n (x : bytes) : zskip (Z.of_nat n) (repeat 32%N n ++ x) = x.
Proof. apply li_zskip_app. rewrite li_zlen_repeat. reflexivity. Qed.

(* ---- thematic breaks ---- *)
Lemma lb_tb_scan_ok body mark : mark <> 0%N -> is_space mark = false ->
  Forall (fun c => c = mark \/ is_space c = true) body ->
  forall cnt, tb_scan space_table body mark cnt = Some (cnt + Z.of_nat (count_occ N.eq_dec body mark)).
Proof.
  intros Hm0 Hsm Hall. induction Hall as [|c body Hc Hall IH]; intros cnt.
  - cbn [tb_scan count_occ]. f_equal. lia.
  - cbn [tb_scan]. destruct Hc as [Hc|Hc].
    + subst c. rewrite Hsm.
      destruct (N.eqb_spec mark 0) as [E|_]; [contradiction|].
      rewrite N.eqb_refl. rewrite IH. rewrite count_occ_cons_eq by reflexivity. f_equal. lia.
    + rewrite Hc. rewrite IH. rewrite count_occ_cons_neq; [reflexivity|].
      intros E. subst c. rewrite Hsm in Hc. discriminate.
Qed.

Lemma lb_tb_scan_bad body1 x body2 mark : mark <> 0%N -> x <> mark -> is_space x = false ->
  is_space mark = false -> Forall (fun c => c = mark \/ is_space c = true) body1 ->
  forall cnt, tb_scan space_table (body1 ++ x :: body2) mark cnt = None.
Proof.
  intros Hm0 Hxm Hsx Hsm Hall. induction Hall as [|c body Hc Hall IH]; intros cnt.
  - cbn [app tb_scan]. rewrite Hsx.
    destruct (N.eqb_spec mark 0) as [E|_]; [contradiction|].
    destruct (N.eqb_spec x mark) as [E|_]; [contradiction|]. reflexivity.
  - cbn [app tb_scan]. destruct Hc as [Hc|Hc].
    + subst c. rewrite Hsm.
      destruct (N.eqb_spec mark 0) as [E|_]; [contradiction|].
      rewrite N.eqb_refl. apply IH.
    + rewrite Hc. apply IH.
Qed.

(* TB1: up to three blanks of indentation, then the mark, then at least two more marks with any
   white space between and after them: a thematic break, at any line offset *)
Theorem thematic_break_spellings (ind : nat) (mark : N) (body : bytes) (off : Z) :
  (ind <= 3)%nat -> (mark = 42%N \/ mark = 45%N \/ mark = 95%N) ->
  Forall (fun c => c = mark \/ is_space c = true) body ->
  (2 <= count_occ N.eq_dec body mark)%nat -> is_space mark = false ->
  is_thematic_break space_table (repeat 32%N ind ++ mark :: body) off = true.
Proof.
  intros Hind Hmark Hall Hcnt Hsm.
  unfold is_thematic_break.
  rewrite (lb_indent_width_blanks ind mark body off (lb_not_space_32 mark Hsm) (lb_not_space_9 mark Hsm)).
  destruct (Z.ltb_spec 3 (Z.of_nat ind)) as [H3|_]; [lia|].
  rewrite lb_zskip_blanks.
  cbn [tb_scan]. rewrite Hsm. change (N.eqb 0 0) with true. cbv iota.
  assert (Hset : (N.eqb mark 42 || N.eqb mark 45 || N.eqb mark 95)%bool = true).
  { destruct Hmark as [E|[E|E]]; rewrite E; reflexivity. }
  assert (Hm0 : mark <> 0%N).
  { destruct Hmark as [E|[E|E]]; rewrite E; discriminate. }
  rewrite Hset.
  rewrite (lb_tb_scan_ok body mark Hm0 Hsm Hall 1).
  destruct (Z.ltb_spec 2 (1 + Z.of_nat (count_occ N.eq_dec body mark))) as [_|Hle]; [reflexivity|lia].
Qed.

(* TB2: any other visible byte on the line prevents it *)
Theorem thematic_break_rejects_other (ind : nat) (mark x : N) (body1 body2 : bytes) (off : Z) :
  (ind <= 3)%nat -> x <> mark -> is_space x = false -> is_space mark = false ->
  Forall (fun c => c = mark \/ is_space c = true) body1 ->
  is_thematic_break space_table (repeat 32%N ind ++ mark :: body1 ++ x :: body2) off = false.
Proof.
  intros Hind Hxm Hsx Hsm Hall.
  unfold is_thematic_break.
  rewrite (lb_indent_width_blanks ind mark (body1 ++ x :: body2) off (lb_not_space_32 mark Hsm) (lb_not_space_9 mark Hsm)).
  destruct (Z.ltb_spec 3 (Z.of_nat ind)) as [H3|_]; [reflexivity|].
  rewrite lb_zskip_blanks.
  cbn [tb_scan]. rewrite Hsm. change (N.eqb 0 0) with true. cbv iota.
  destruct ((N.eqb mark 42 || N.eqb mark 45 || N.eqb mark 95)%bool) eqn:Hset; [|reflexivity].
  assert (Hm0 : mark <> 0%N).
  { intros E. rewrite E in Hset. discriminate Hset. }
  rewrite (lb_tb_scan_bad body1 x body2 mark Hm0 Hxm Hsx Hsm Hall 1). reflexivity.
Qed.

(* ---- more auxiliaries: counting, trimming ---- *)
Lemma lb_count_byte_repeat ch k x r : x <> ch -> count_byte ch (repeat ch k ++ x :: r) = Z.of_nat k.
Proof.
  intros Hx. induction k as [|k IH].
  - cbn [repeat app count_byte]. destruct (N.eqb_spec x ch) as [E|_]; [contradiction|reflexivity].
  - cbn [repeat app count_byte]. rewrite N.eqb_refl, IH. lia.
Qed.

Lemma lb_tls_stop s c r : Forall (fun x => is_space x = true) s -> is_space c = false ->
  trim_left_space_len space_table (s ++ c :: r) = zlen s.
Proof.
  intros Hs Hc. induction Hs as [|x s Hx Hs IH].
  - cbn [app trim_left_space_len]. rewrite Hc. reflexivity.
  - cbn [app trim_left_space_len]. rewrite Hx, IH, li_zlen_cons. reflexivity.
Qed.

Lemma lb_trs_app pre c sp : is_space c = false -> Forall (fun x => is_space x = true) sp ->
  trim_right_space_len space_table (pre ++ c :: sp) = zlen sp.
Proof.
  intros Hc Hsp. unfold trim_right_space_len.
  rewrite rev_app_distr. cbn [rev]. rewrite <- app_assoc. cbn [app].
  rewrite (lb_tls_stop (rev sp) c (rev pre) (Forall_rev Hsp) Hc).
  unfold zlen. rewrite rev_length. reflexivity.
Qed.

Lemma lb_zfirst_app {A} (a b : list A) n : n = zlen a -> zfirst n (a ++ b) = a.
Proof.
  intros ->. unfold zfirst, zlen. rewrite Nat2Z.id.
  rewrite firstn_app, Nat.sub_diag, firstn_all. cbn [firstn]. apply app_nil_r.
Qed.

Lemma lb_existsb_96 info : Forall (fun c => c <> 96%N) info -> existsb (N.eqb 96) info = false.
Proof.
  intros H. induction H as [|c info Hc H IH]; [reflexivity|].
  cbn [existsb]. rewrite IH. destruct (N.eqb_spec 96 c) as [E|_]; [congruence|reflexivity].
Qed.

Lemma lb_ip_loop_blanks j c rest cur width : c <> 32%N -> c <> 9%N -> forall w i,
  indent_position_loop (repeat 32%N j ++ c :: rest) cur w i 0 width =
    (w + Z.min (Z.of_nat j) (Z.max 0 (width - w)), i + Z.min (Z.of_nat j) (Z.max 0 (width - w))).
Proof.
  intros H32 H9. induction j as [|j IH]; intros w i.
  - cbn [repeat app indent_position_loop]. change (0 <? 0) with false. cbv iota.
    destruct (N.eqb_spec c 9) as [E|_]; [contradiction|].
    destruct (N.eqb_spec c 32) as [E|_]; [contradiction|].
    cbn [andb]. f_equal; lia.
  - cbn [repeat app indent_position_loop]. change (0 <? 0) with false. cbv iota.
    change (N.eqb 32 9) with false. change (N.eqb 32 32) with true. cbn [andb].
    destruct (Z.ltb_spec w width) as [Hlt|Hge].
    + rewrite IH. f_equal; lia.
    + f_equal; lia.
Qed.

Lemma lb_fnsp_blanks j c rest : c <> 32%N -> c <> 9%N -> c <> 10%N -> forall i,
  first_non_space_position (repeat 32%N j ++ c :: rest) i = i + Z.of_nat j.
Proof.
  intros H32 H9 H10. induction j as [|j IH]; intros i.
  - cbn [repeat app first_non_space_position].
    destruct (N.eqb_spec c 32) as [E|_]; [contradiction|].
    destruct (N.eqb_spec c 9) as [E|_]; [contradiction|].
    destruct (N.eqb_spec c 10) as [E|_]; [contradiction|].
    cbn [orb]. lia.
  - cbn [repeat app first_non_space_position]. change (N.eqb 32 32) with true. cbn [orb].
    rewrite IH. lia.
Qed.

(* ---- ATX auxiliaries ---- *)
Lemma lb_nth_byte_run (A : bytes) x ch k B m i : (m < k)%nat -> i = zlen A + 1 + Z.of_nat m ->
  nth_byte (A ++ x :: repeat ch k ++ B) i = ch.
Proof.
  intros Hm Hi.
  assert (E : A ++ x :: repeat ch k ++ B = (A ++ x :: repeat ch m) ++ ch :: (repeat ch (k - S m) ++ B)).
  { rewrite <- app_assoc. cbn [app]. f_equal. f_equal.
    replace k with (m + S (k - S m))%nat at 1 by lia.
    rewrite repeat_app. cbn [repeat]. rewrite <- app_assoc. reflexivity. }
  rewrite E. apply li_nth_byte_app.
  rewrite li_zlen_app, li_zlen_cons, li_zlen_repeat. lia.
Qed.

Lemma lb_boh_run (A : bytes) x k B start : x <> 35%N -> start <= zlen A + 1 ->
  forall m fuel i, (m <= k)%nat -> (m + 1 <= fuel)%nat -> i = zlen A + Z.of_nat m ->
  back_over_hashes fuel (A ++ x :: repeat 35%N k ++ B) i start = zlen A.
Proof.
  intros Hx Hstart. induction m as [|m IH]; intros fuel i Hmk Hfuel Hi.
  - destruct fuel as [|f]; [lia|]. cbn [back_over_hashes].
    rewrite (li_nth_byte_app A x (repeat 35%N k ++ B) i) by lia.
    destruct (N.eqb_spec x 35) as [E|_]; [contradiction|]. cbn [andb]. lia.
  - destruct fuel as [|f]; [lia|]. cbn [back_over_hashes].
    rewrite (lb_nth_byte_run A x 35%N k B m i) by lia.
    change (N.eqb 35 35) with true.
    destruct (Z.leb_spec start i) as [_|Hlt]; [|lia]. cbn [andb].
    apply IH; lia.
Qed.

Lemma lb_trim_right_keep (b : bytes) x : x <> 35%N -> trim_right (b ++ [x]) [35%N] = b ++ [x].
Proof.
  intros Hx. unfold trim_right. rewrite rev_app_distr. cbn [rev app trim_left in_set existsb].
  destruct (N.eqb_spec x 35) as [E|_]; [contradiction|]. cbn [orb].
  cbn [rev]. rewrite rev_involutive. reflexivity.
Qed.

Lemma lb_atx_open_facts line pos lv start stop0 j stop :
  0 <= pos -> 1 <= lv <= 6 ->
  count_byte 35%N (zskip pos line) = lv ->
  pos + lv + 1 < zlen line ->
  trim_left_space_len space_table (zskip (pos + lv) line) = 1 ->
  start = pos + lv + 1 ->
  zlen line - trim_right_space_len space_table line = stop0 -> start < stop0 ->
  back_over_hashes (length line) line (stop0 - 1) start = j -> 0 <= j ->
  (j = stop0 - 1 \/ is_space (nth_byte line j) = true) ->
  stop = j + 1 ->
  length (trim_right (zfirst (stop - start) (zskip start line)) [35%N]) <> 0%nat ->
  atx_open space_table line pos = Ok (Some (lv, Some (start, stop))).
Proof.
  intros Hpos Hlv Hcnt Hlen Htl Hstart Hstop0 Hlt Hj Hj0 Hor Hstop Hbody.
  unfold atx_open. cbv zeta.
  destruct (Z.ltb_spec pos 0) as [Hneg|_]; [lia|].
  rewrite Hcnt. replace (pos + lv - pos) with lv by lia.
  destruct (Z.eqb_spec (pos + lv) pos) as [E|_]; [lia|].
  destruct (Z.ltb_spec 6 lv) as [E|_]; [lia|]. cbn [orb].
  destruct (Z.eqb_spec (pos + lv) (zlen line)) as [E|_]; [lia|].
  rewrite Htl. change (1 =? 0) with false. cbv iota.
  destruct (Z.leb_spec (zlen line) (pos + lv + 1)) as [E|_]; [lia|].
  rewrite <- Hstart. rewrite Hstop0.
  destruct (Z.leb_spec stop0 start) as [E|_]; [lia|].
  rewrite Hj.
  destruct (Z.ltb_spec j 0) as [E|_]; [lia|].
  assert (Hsel : (if (negb (j =? stop0 - 1) && negb (is_space (nth_byte line j)))%bool then stop0 - 1 else j) = j).
  { destruct (Z.eqb_spec j (stop0 - 1)) as [E|Hne]; [reflexivity|].
    destruct Hor as [E|Hsp]; [contradiction|]. rewrite Hsp. reflexivity. }
  rewrite Hsel. rewrite <- Hstop.
  destruct (Z.ltb_spec stop 0) as [E|_]; [lia|].
  destruct (Nat.eqb_spec (length (trim_right (zfirst (stop - start) (zskip start line)) [35%N])) 0) as [E|_];
    [contradiction|].
  reflexivity.
Qed.

(* ATX: level = number of hashes (1..6); the heading's line is the text, whatever closing run
   of hashes follows it (the blank before a closing run stays in the segment: the inline parser
   trims trailing blanks of a block's last line) *)
Definition atx_closing (cl : bytes) : Prop := cl = [] \/ exists k, (1 <= k)%nat /\ cl = 32%N :: repeat 35%N k.
(* the ATX theorem for tables in which '#' is not white space *)
Lemma atx_open_spellings_sp35 (ind lv : nat) (text cl trail : bytes) (first last : N) (mid : bytes) :
  is_space 35%N = false ->
  (ind <= 3)%nat -> (1 <= lv <= 6)%nat ->
  text = first :: mid ++ [last] \/ (text = [first] /\ last = first) ->
  is_space first = false -> is_space last = false -> first <> 35%N -> last <> 35%N ->
  atx_closing cl -> Forall (fun c => c = 32%N) trail ->
  atx_open space_table (repeat 32%N ind ++ repeat 35%N lv ++ [32%N] ++ text ++ cl ++ trail ++ [10%N]) (Z.of_nat ind) =
    Ok (Some (Z.of_nat lv, Some (Z.of_nat ind + Z.of_nat lv + 1,
                                 Z.of_nat ind + Z.of_nat lv + 1 + zlen text + match cl with [] => 0 | _ => 1 end))).
Proof.
  intros sp35 Hind Hlv Htext Hsf Hsl Hf35 Hl35 Hcl Htrail.
  assert (Ht1 : exists t1, text = first :: t1).
  { destruct Htext as [E|[E _]]; rewrite E; eexists; reflexivity. }
  assert (Ht2 : exists t2, text = t2 ++ [last]).
  { destruct Htext as [E|[E E2]].
    - exists (first :: mid). rewrite E. reflexivity.
    - exists []. rewrite E, E2. reflexivity. }
  destruct Ht1 as [t1 Et1]. destruct Ht2 as [t2 Et2].
  assert (Htsp : Forall (fun x => is_space x = true) (trail ++ [10%N])).
  { apply Forall_app. split.
    - eapply Forall_impl; [|exact Htrail]. cbv beta. intros a Ea. rewrite Ea. exact sp32.
    - constructor; [exact sp10|constructor]. }
  set (P := repeat 32%N ind ++ repeat 35%N lv ++ [32%N]).
  assert (HzP : zlen P = Z.of_nat ind + Z.of_nat lv + 1).
  { unfold P. rewrite !li_zlen_app, !li_zlen_repeat, li_zlen_cons, li_zlen_nil. lia. }
  set (line := repeat 32%N ind ++ repeat 35%N lv ++ [32%N] ++ text ++ cl ++ trail ++ [10%N]).
  assert (EP : line = P ++ text ++ cl ++ trail ++ [10%N]).
  { unfold line, P. rewrite <- !app_assoc. reflexivity. }
  assert (Hlen : zlen line = Z.of_nat ind + Z.of_nat lv + 1 + zlen text + zlen cl + zlen trail + 1).
  { rewrite EP. rewrite !li_zlen_app, HzP, li_zlen_cons, li_zlen_nil. lia. }
  pose proof (li_zlen_nonneg cl) as Hcln. pose proof (li_zlen_nonneg trail) as Htrn.
  assert (Htxt1 : 1 <= zlen text).
  { rewrite Et1, li_zlen_cons. pose proof (li_zlen_nonneg t1). lia. }
  assert (Hcnt : count_byte 35%N (zskip (Z.of_nat ind) line) = Z.of_nat lv).
  { unfold line. rewrite lb_zskip_blanks. cbn [app]. apply lb_count_byte_repeat. discriminate. }
  assert (Htl : trim_left_space_len space_table (zskip (Z.of_nat ind + Z.of_nat lv) line) = 1).
  { unfold line. rewrite app_assoc.
    rewrite (li_zskip_app (repeat 32%N ind ++ repeat 35%N lv))
      by (rewrite li_zlen_app, !li_zlen_repeat; reflexivity).
    rewrite Et1. cbn [app trim_left_space_len]. rewrite sp32, Hsf. reflexivity. }
  assert (Hskip : zskip (Z.of_nat ind + Z.of_nat lv + 1) line = text ++ cl ++ trail ++ [10%N]).
  { rewrite EP. apply li_zskip_app. lia. }
  destruct Hcl as [Ecl|[k [Hk Ecl]]].
  - (* no closing run *)
    subst cl. cbn [app] in *. rewrite li_zlen_nil in Hlen.
    assert (EL : line = (P ++ t2) ++ last :: (trail ++ [10%N])).
    { rewrite EP, Et2. rewrite <- !app_assoc. reflexivity. }
    assert (Hz2 : zlen text = zlen t2 + 1).
    { rewrite Et2, li_zlen_app, li_zlen_cons, li_zlen_nil. lia. }
    assert (Htrs : trim_right_space_len space_table line = zlen trail + 1).
    { rewrite EL. rewrite (lb_trs_app (P ++ t2) last (trail ++ [10%N]) Hsl Htsp).
      rewrite li_zlen_app, li_zlen_cons, li_zlen_nil. lia. }
    apply (lb_atx_open_facts line (Z.of_nat ind) (Z.of_nat lv) (Z.of_nat ind + Z.of_nat lv + 1)
             (Z.of_nat ind + Z.of_nat lv + 1 + zlen text)
             (Z.of_nat ind + Z.of_nat lv + 1 + zlen text - 1)); try lia; try assumption.
    + assert (Hnth : nth_byte line (Z.of_nat ind + Z.of_nat lv + 1 + zlen text - 1) = last).
      { rewrite EL. apply li_nth_byte_app. rewrite li_zlen_app. lia. }
      destruct (length line) as [|f]; [reflexivity|]. cbn [back_over_hashes].
      rewrite Hnth. destruct (N.eqb_spec last 35) as [E|_]; [contradiction|]. reflexivity.
    + rewrite Hskip.
      replace (Z.of_nat ind + Z.of_nat lv + 1 + zlen text + 0 - (Z.of_nat ind + Z.of_nat lv + 1)) with (zlen text) by lia.
      rewrite (lb_zfirst_app text (trail ++ [10%N]) (zlen text) eq_refl).
      rewrite Et2, (lb_trim_right_keep t2 last Hl35). rewrite app_length. cbn [length]. lia.
  - (* a closing run of k hashes *)
    subst cl. destruct k as [|k']; [lia|].
    rewrite li_zlen_cons, li_zlen_repeat in Hlen.
    assert (EL : line = (P ++ text ++ 32%N :: repeat 35%N k') ++ 35%N :: (trail ++ [10%N])).
    { rewrite EP. cbn [repeat]. rewrite (repeat_cons k' 35%N). rewrite <- !app_assoc. cbn [app].
      rewrite <- !app_assoc. reflexivity. }
    assert (EB : line = (P ++ text) ++ 32%N :: repeat 35%N (S k') ++ (trail ++ [10%N])).
    { rewrite EP. rewrite <- !app_assoc. reflexivity. }
    assert (Htrs : trim_right_space_len space_table line = zlen trail + 1).
    { rewrite EL. rewrite (lb_trs_app _ 35%N (trail ++ [10%N]) sp35 Htsp).
      rewrite li_zlen_app, li_zlen_cons, li_zlen_nil. lia. }
    assert (HzA : zlen (P ++ text) = Z.of_nat ind + Z.of_nat lv + 1 + zlen text).
    { rewrite li_zlen_app. lia. }
    apply (lb_atx_open_facts line (Z.of_nat ind) (Z.of_nat lv) (Z.of_nat ind + Z.of_nat lv + 1)
             (Z.of_nat ind + Z.of_nat lv + 1 + zlen text + 1 + Z.of_nat (S k'))
             (Z.of_nat ind + Z.of_nat lv + 1 + zlen text)); try lia; try assumption.
    + rewrite <- HzA. rewrite EB at 2.
      apply (lb_boh_run (P ++ text) 32%N (S k') (trail ++ [10%N])) with (m := S k').
      * discriminate.
      * lia.
      * lia.
      * assert (Hl : Z.of_nat (length line) = zlen line) by reflexivity. lia.
      * lia.
    + right. rewrite EB. rewrite (li_nth_byte_app (P ++ text) 32%N _ _ (eq_sym HzA)). exact sp32.
    + rewrite Hskip.
      replace (Z.of_nat ind + Z.of_nat lv + 1 + zlen text + 1 - (Z.of_nat ind + Z.of_nat lv + 1)) with (zlen text + 1) by lia.
      assert (Eb : text ++ (32%N :: repeat 35%N (S k')) ++ trail ++ [10%N] =
                   (text ++ [32%N]) ++ repeat 35%N (S k') ++ trail ++ [10%N]).
      { rewrite <- !app_assoc. reflexivity. }
      rewrite Eb. rewrite (lb_zfirst_app (text ++ [32%N]))
        by (rewrite li_zlen_app, li_zlen_cons, li_zlen_nil; lia).
      rewrite (lb_trim_right_keep text 32%N ltac:(discriminate)). rewrite app_length. cbn [length]. lia.
Qed.

(* needs [is_space 35 = false]: a table that classified '#' as white space would let
   TrimRightSpaceLength eat the closing run (atx_open_counterexample at the end of this file) *)
Theorem atx_open_spellings (ind lv : nat) (text cl trail : bytes) (first last : N) (mid : bytes) :
  is_space 35%N = false ->
  (ind <= 3)%nat -> (1 <= lv <= 6)%nat ->
  text = first :: mid ++ [last] \/ (text = [first] /\ last = first) ->
  is_space first = false -> is_space last = false -> first <> 35%N -> last <> 35%N ->
  atx_closing cl -> Forall (fun c => c = 32%N) trail ->
  atx_open space_table (repeat 32%N ind ++ repeat 35%N lv ++ [32%N] ++ text ++ cl ++ trail ++ [10%N]) (Z.of_nat ind) =
    Ok (Some (Z.of_nat lv, Some (Z.of_nat ind + Z.of_nat lv + 1,
                                 Z.of_nat ind + Z.of_nat lv + 1 + zlen text + match cl with [] => 0 | _ => 1 end))).
Proof. exact (atx_open_spellings_sp35 ind lv text cl trail first last mid). Qed.

(* fences: character, length and indentation are read off the opening line; the info string is
   the word after the fence *)
Theorem fence_open_spellings (ind fl : nat) (ch : N) (info : bytes) :
  (ind <= 3)%nat -> (3 <= fl)%nat -> (ch = 96%N \/ ch = 126%N) ->
  Forall (fun c => is_space c = false /\ c <> 96%N /\ c <> 126%N) info ->
  fence_open space_table (repeat 32%N ind ++ repeat ch fl ++ info ++ [10%N]) (Z.of_nat ind) =
    Ok (Some (ch, Z.of_nat ind, Z.of_nat fl,
              match info with [] => None | _ => Some (Z.of_nat ind + Z.of_nat fl, Z.of_nat ind + Z.of_nat fl + zlen info) end)).
Proof.
  intros Hind Hfl Hch Hinfo.
  assert (Hcc : (N.eqb ch 96 || N.eqb ch 126)%bool = true) by (destruct Hch as [E|E]; rewrite E; reflexivity).
  assert (Hch10 : 10%N <> ch) by (destruct Hch as [E|E]; rewrite E; discriminate).
  set (line := repeat 32%N ind ++ repeat ch fl ++ info ++ [10%N]).
  assert (Hlen : zlen line = Z.of_nat ind + Z.of_nat fl + zlen info + 1).
  { unfold line. rewrite !li_zlen_app, !li_zlen_repeat, li_zlen_cons, li_zlen_nil. lia. }
  pose proof (li_zlen_nonneg info) as Hinn.
  assert (Hat : at_ line (Z.of_nat ind) = Ok ch).
  { unfold at_. rewrite Hlen.
    destruct (Z.leb_spec 0 (Z.of_nat ind)) as [_|Hneg]; [|lia].
    destruct (Z.ltb_spec (Z.of_nat ind) (Z.of_nat ind + Z.of_nat fl + zlen info + 1)) as [_|Hge]; [|lia].
    cbn [andb]. f_equal. destruct fl as [|fl']; [lia|]. unfold line. cbn [repeat app].
    apply (li_nth_byte_app (repeat 32%N ind) ch _ (Z.of_nat ind)). rewrite li_zlen_repeat. reflexivity. }
  assert (Hcnt : count_byte ch (zskip (Z.of_nat ind) line) = Z.of_nat fl).
  { unfold line. rewrite lb_zskip_blanks.
    destruct info as [|c0 info'].
    - cbn [app]. apply lb_count_byte_repeat. exact Hch10.
    - cbn [app]. apply lb_count_byte_repeat.
      apply Forall_inv in Hinfo. destruct Hinfo as [_ [H96 H126]].
      destruct Hch as [E|E]; rewrite E; assumption. }
  unfold fence_open. cbv zeta.
  destruct (Z.ltb_spec (Z.of_nat ind) 0) as [Hneg|_]; [lia|].
  rewrite Hat. cbn [bind]. rewrite Hcc. cbn [negb].
  rewrite Hcnt, Hlen.
  destruct (Z.ltb_spec (Z.of_nat fl) 3) as [Hlt|_]; [lia|].
  destruct info as [|c0 info'].
  - rewrite li_zlen_nil.
    destruct (Z.ltb_spec (Z.of_nat ind + Z.of_nat fl) (Z.of_nat ind + Z.of_nat fl + 0 + 1 - 1)) as [Hlt|_]; [lia|].
    reflexivity.
  - set (info := c0 :: info') in *.
    assert (Hin1 : 1 <= zlen info) by (unfold info; rewrite li_zlen_cons; pose proof (li_zlen_nonneg info'); lia).
    destruct (Z.ltb_spec (Z.of_nat ind + Z.of_nat fl) (Z.of_nat ind + Z.of_nat fl + zlen info + 1 - 1)) as [_|Hge]; [|lia].
    assert (Hrest : zskip (Z.of_nat ind + Z.of_nat fl) line = info ++ [10%N]).
    { unfold line. rewrite app_assoc. apply li_zskip_app.
      rewrite li_zlen_app, !li_zlen_repeat. reflexivity. }
    rewrite Hrest.
    assert (Hleft : trim_left_space_len space_table (info ++ [10%N]) = 0).
    { unfold info. cbn [app trim_left_space_len].
      apply Forall_inv in Hinfo. destruct Hinfo as [Hs _]. rewrite Hs. reflexivity. }
    assert (Hright : trim_right_space_len space_table (info ++ [10%N]) = 1).
    { destruct (exists_last (l := info)) as [pre [cl Ecl]]; [unfold info; discriminate|].
      rewrite Ecl in Hinfo |- *. apply Forall_app in Hinfo. destruct Hinfo as [_ Hcl].
      apply Forall_inv in Hcl. destruct Hcl as [Hs _].
      rewrite <- app_assoc. cbn [app].
      rewrite (lb_trs_app pre cl [10%N] Hs); [reflexivity|].
      constructor; [exact sp10|constructor]. }
    rewrite Hleft, Hright.
    assert (Hzr : zlen (info ++ [10%N]) = zlen info + 1).
    { rewrite li_zlen_app. reflexivity. }
    rewrite Hzr.
    destruct (Z.ltb_spec 0 (zlen info + 1 - 1)) as [_|Hge]; [|lia].
    change (zskip 0 (info ++ [10%N])) with (info ++ [10%N]).
    rewrite (lb_zfirst_app info [10%N]) by lia.
    assert (Hex : existsb (N.eqb 96) info = false).
    { apply lb_existsb_96. eapply Forall_impl; [|exact Hinfo]. cbv beta. intros a [_ [Ha _]]. exact Ha. }
    rewrite Hex, andb_false_r.
    do 4 f_equal. f_equal; lia.
Qed.

(* the closing-fence theorem for a fence of at least one character *)
Lemma fence_close_recognised_pos (j k : nat) (ch : N) (trail : bytes) (off indent flen : Z) :
  (1 <= k)%nat ->
  (j <= 3)%nat -> flen <= Z.of_nat k -> (ch = 96%N \/ ch = 126%N) ->
  Forall (fun c => c = 32%N \/ c = 9%N) trail ->
  fence_continue space_table (repeat 32%N j ++ repeat ch k ++ trail ++ [10%N]) off 0 ch indent flen =
    inl (Z.of_nat j + Z.of_nat k + zlen trail).
Proof.
  intros Hk Hj Hflen Hch Htrail.
  assert (Hch32 : ch <> 32%N) by (destruct Hch as [E|E]; rewrite E; discriminate).
  assert (Hch9 : ch <> 9%N) by (destruct Hch as [E|E]; rewrite E; discriminate).
  assert (Hch10 : 10%N <> ch) by (destruct Hch as [E|E]; rewrite E; discriminate).
  set (line := repeat 32%N j ++ repeat ch k ++ trail ++ [10%N]).
  assert (Hlen : zlen line = Z.of_nat j + Z.of_nat k + zlen trail + 1).
  { unfold line. rewrite !li_zlen_app, !li_zlen_repeat, li_zlen_cons, li_zlen_nil. lia. }
  assert (Hiw : indent_width line off = (Z.of_nat j, Z.of_nat j)).
  { unfold line. destruct k as [|k']; [lia|]. cbn [repeat app].
    apply lb_indent_width_blanks; assumption. }
  assert (Hcnt : count_byte ch (zskip (Z.of_nat j) line) = Z.of_nat k).
  { unfold line. rewrite lb_zskip_blanks.
    destruct Htrail as [|c0 trail' Hc0 Htrail'].
    - cbn [app]. apply lb_count_byte_repeat. exact Hch10.
    - cbn [app]. apply lb_count_byte_repeat.
      destruct Hc0 as [E|E]; rewrite E; congruence. }
  assert (Hblank : is_blank space_table (zskip (Z.of_nat j + Z.of_nat k) line) = true).
  { unfold line. rewrite app_assoc.
    rewrite (li_zskip_app (repeat 32%N j ++ repeat ch k) (trail ++ [10%N]))
      by (rewrite li_zlen_app, !li_zlen_repeat; reflexivity).
    unfold is_blank. rewrite forallb_app. cbn [forallb]. rewrite sp10. cbn [andb]. rewrite andb_true_r.
    apply forallb_forall. intros x Hx. rewrite Forall_forall in Htrail.
    destruct (Htrail x Hx) as [E|E]; rewrite E; assumption. }
  assert (Hnl : nth_byte line (zlen line - 1) = 10%N).
  { unfold line at 1. rewrite !app_assoc. apply li_nth_byte_app.
    rewrite Hlen, !li_zlen_app, !li_zlen_repeat. lia. }
  unfold fence_continue. rewrite Hiw. cbv beta iota. rewrite Hcnt, Hblank, Hnl.
  destruct (Z.ltb_spec (Z.of_nat j) 4) as [_|Hge]; [|lia].
  destruct (Z.leb_spec flen (Z.of_nat k)) as [_|Hgt]; [|lia].
  cbn [andb]. change (N.eqb 10 10) with true. cbv iota. rewrite Hlen. f_equal. lia.
Qed.

(* a line of at least as many fence characters, indented less than four columns and followed by
   blanks only, closes the block and is consumed up to its newline *)
(* needs at least one fence character: with k = 0 and flen <= 0 the line "    " is four columns
   of indentation and no closer (fence_close_counterexample at the end of this file) *)
Theorem fence_close_recognised (j k : nat) (ch : N) (trail : bytes) (off indent flen : Z) :
  (1 <= k)%nat ->
  (j <= 3)%nat -> flen <= Z.of_nat k -> (ch = 96%N \/ ch = 126%N) ->
  Forall (fun c => c = 32%N \/ c = 9%N) trail ->
  fence_continue space_table (repeat 32%N j ++ repeat ch k ++ trail ++ [10%N]) off 0 ch indent flen =
    inl (Z.of_nat j + Z.of_nat k + zlen trail).
Proof. exact (fence_close_recognised_pos j k ch trail off indent flen). Qed.

(* any other line is content; of its leading blanks at most the opening fence's indentation is
   removed *)
Theorem fence_content_dedent (j : nat) (c ch : N) (rest : bytes) (off indent flen : Z) :
  c <> 32%N -> c <> 9%N -> c <> 10%N -> c <> ch -> 0 <= indent -> 1 <= flen ->
  fence_continue space_table (repeat 32%N j ++ c :: rest) off 0 ch indent flen =
    inr (Z.min (Z.of_nat j) indent, 0).
Proof.
  intros H32 H9 H10 Hch Hind Hflen.
  unfold fence_continue.
  rewrite (lb_indent_width_blanks j c rest off H32 H9). cbv beta iota.
  rewrite lb_zskip_blanks.
  cbn [count_byte]. destruct (N.eqb_spec c ch) as [E|_]; [contradiction|].
  destruct (Z.leb_spec flen 0) as [Hle|_]; [lia|].
  rewrite andb_false_r. cbn [andb].
  unfold indent_position_padding.
  destruct (Z.eqb_spec indent 0) as [E0|Hn0].
  - change (0 <? 0) with false. cbv iota. rewrite E0. rewrite Z.min_r by lia. reflexivity.
  - rewrite (lb_ip_loop_blanks j c rest off indent H32 H9 0 0). cbv beta iota.
    destruct (Z.leb_spec indent (0 + Z.min (Z.of_nat j) (Z.max 0 (indent - 0)))) as [Hle|Hlt].
    + destruct (Z.ltb_spec (0 + Z.min (Z.of_nat j) (Z.max 0 (indent - 0)) - 0) 0) as [Hneg|_]; [lia|].
      f_equal. f_equal; lia.
    + change (-1 <? 0) with true. cbv iota.
      rewrite (lb_fnsp_blanks j c rest H32 H9 H10 0).
      destruct (Z.ltb_spec (0 + Z.of_nat j) 0) as [Hneg|_]; [lia|].
      f_equal. f_equal; lia.
Qed.

End WithTables.

(* ---- machine-checked counterexamples to the two statements without their extra premise ---- *)
(* no fence characters at all (k = 0, flen = 0): IndentWidth runs into the trailing blanks, the
   line is four columns wide and is not a closing fence; holds for every table *)
Lemma fence_close_counterexample (space_table : list N) :
  fence_continue space_table (repeat 32%N 0 ++ repeat 96%N 0 ++ [32%N; 32%N; 32%N; 32%N] ++ [10%N]) 0 0 96%N 0 0
    = inr (0, 0).
Proof. reflexivity. Qed.

(* a table that satisfies sp32, sp9, sp10 and also classifies '#' as white space *)
Definition lb_hash_space_table : list N :=
  map (fun n => if (Nat.eqb n 9 || Nat.eqb n 10 || Nat.eqb n 32 || Nat.eqb n 35)%bool then 1%N else 0%N) (seq 0 256).
Lemma atx_open_counterexample :
  Util.is_space lb_hash_space_table 32%N = true /\ Util.is_space lb_hash_space_table 9%N = true /\
  Util.is_space lb_hash_space_table 10%N = true /\ Util.is_space lb_hash_space_table 97%N = false /\
  atx_open lb_hash_space_table
    (repeat 32%N 0 ++ repeat 35%N 1 ++ [32%N] ++ [97%N] ++ (32%N :: repeat 35%N 1) ++ [] ++ [10%N]) (Z.of_nat 0)
    = Ok (Some (1, Some (2, 3))).
Proof. vm_compute. repeat split. Qed.
