(* Helper file for FootnoteWfTotBlkCont.v: listParser.Open under the state invariant SI. *)
Require Import GM.model.Base GM.model.Util GM.model.Reader GM.model.ReaderSpec GM.model.Blocks GM.model.ListItem
               GM.model.LeafBlocks GM.model.CodeBlock GM.model.LinkDest GM.model.Regex GM.model.BlockParse.
Require Import GM.proofs.ReaderProofs GM.proofs.BlocksProofs GM.proofs.BlockRangeProofs
               GM.proofs.ParseBlocksTotalReader GM.proofs.FootnoteWfTotBlkDefs GM.proofs.FootnoteWfTotBlkSpec
               GM.proofs.FootnoteWfTotBlkSt.
From Coq Require Import ZArith Lia List Bool.
Open Scope Z_scope.

Section S.
Variable space_table : list N.
Variable src : bytes.
Variable lst : option nat.
Hypothesis tbl : TblOK space_table.
Notation SI := (SI space_table src lst).
Notation open_post := (open_post space_table src lst).

Lemma cframe_refl' c : cframe c c.
Proof. unfold cframe. auto. Qed.

Lemma last_opened_in c e : last_opened c = Some e -> In e (c_arr c).
Proof. unfold last_opened. destruct (c_len c) as [|k]; [discriminate|]. apply nth_error_In. Qed.

Lemma CInv_cset_skip h c v : CInv lst h c -> CInv lst h (cset_skip c v).
Proof. intros [C1 C2 C3 C4]. constructor; cbn [cset_skip c_len c_arr c_tmp_para c_fence]; auto. Qed.
Lemma CInv_cset_empty h c v : CInv lst h c -> CInv lst h (cset_empty c v).
Proof. intros [C1 C2 C3 C4]. constructor; cbn [cset_empty c_len c_arr c_tmp_para c_fence]; auto. Qed.

Lemma matches_list_item_typ line m typ : matches_list_item line true = (m, typ) -> typ <> 0%N ->
  parse_list_item line = (m, typ).
Proof.
  unfold matches_list_item. destruct (parse_list_item line) as [m0 t0].
  destruct (negb (N.eqb t0 0) && (negb true || (m1 m0 <? 4))); intros E Ht; injection E as <- <-; [reflexivity|congruence].
Qed.

Lemma list_open_ok_aux s parent : SI s -> sin s ->
  exists s' o, list_open space_table s parent = Ok (s', o) /\ open_post PList parent s s' o /\
    (((exists l lp ln, last_opened (s_c s) = Some (l, lp) /\ nth_error (s_h s) l = Some ln /\ bk ln = BList) \/
      c_skip_list (s_c s) = true) -> o = None).
Proof.
  intros HS Hin. unfold list_open.
  set (lastr := match last_opened (s_c s) with None => Ok None | Some (l, _) => n <- hget (s_h s) l ;; Ok (Some (l, n)) end).
  assert (Hlast : exists last, lastr = Ok last /\
            match last with
            | None => last_opened (s_c s) = None
            | Some (l, n) => exists lp, last_opened (s_c s) = Some (l, lp) /\ nth_error (s_h s) l = Some n
            end).
  { subst lastr. destruct (last_opened (s_c s)) as [[l lp]|] eqn:El.
    - apply last_opened_in in El. destruct (ci_arr _ _ _ (si_c _ _ _ _ HS) _ El) as [n [En _]]. cbn [fst] in En.
      rewrite (hget_some _ _ _ En). cbn [bind]. exists (Some (l, n)). split; [reflexivity|]. exists lp. auto.
    - exists None. auto. }
  destruct Hlast as [last [El Hl]]. rewrite El. cbn [bind]. clearbody lastr. clear El lastr.
  set (lil := match last with Some (_, n) => bkind_eqb (bk n) BList | None => false end).
  destruct (lil || c_skip_list (s_c s)) eqn:Edec.
  { exists (st_c s (cset_skip (s_c s) false)), None. split; [reflexivity|]. split; [|auto].
    unfold open_post. cbn [st_c s_h s_c s_r].
    split; [apply SI_set_c; [exact HS|apply CInv_cset_skip, HS]|].
    split; [apply r_le_refl|]. split; [unfold cframe; cbn; auto|].
    csplit; auto; try apply same_pos_refl. intros C. congruence. }
  apply orb_false_iff in Edec. destruct Edec as [Elil Eskip].
  assert (Hnol : forall l lp ln, last_opened (s_c s) = Some (l, lp) -> nth_error (s_h s) l = Some ln -> bk ln <> BList).
  { intros l lp ln E1 E2 K. subst lil. destruct last as [[l0 n0]|].
    - destruct Hl as [lp0 [E3 E4]]. rewrite E1 in E3. injection E3 as <- <-. rewrite E2 in E4. injection E4 as <-.
      rewrite K in Elil. discriminate.
    - congruence. }
  assert (Hthird : forall o : open_res,
            ((exists l lp ln, last_opened (s_c s) = Some (l, lp) /\ nth_error (s_h s) l = Some ln /\ bk ln = BList) \/
             c_skip_list (s_c s) = true) -> o = None).
  { intros o [(l & lp & ln & E1 & E2 & K)|C]; [exfalso; eapply Hnol; eauto|congruence]. }
  destruct (peek_line_s_ok space_table src lst s HS) as [s1 (E1 & S1 & C1 & _)]. rewrite E1. cbn [bind].
  unfold sin in Hin. rewrite Hin. cbn [line_of].
  pose proof C1 as (Ch & Cc & Cr).
  assert (Hdecl : exists s' o, Ok (s1, @None (nat * bool * bool)) = Ok (s', o) /\ open_post PList parent s s' o /\
            (((exists l lp ln, last_opened (s_c s) = Some (l, lp) /\ nth_error (s_h s) l = Some ln /\ bk ln = BList) \/
              c_skip_list (s_c s) = true) -> o = None)).
  { exists s1, None. split; [reflexivity|]. split; [|auto]. unfold open_post.
    split; [exact S1|]. split; [apply same_pos_le, Cr|]. rewrite Cc. split; [apply cframe_refl'|]. csplit; auto. }
  destruct (matches_list_item (sview s) true) as [m typ] eqn:Em.
  destruct (N.eqb_spec typ 0) as [Et|Et]; [exact Hdecl|].
  apply matches_list_item_typ in Em; [|exact Et].
  match goal with |- context [if ?b then Ok (s1, None) else _] => destruct b end; [exact Hdecl|]. clear Hdecl.
  destruct (parse_list_item_in_range _ _ _ Em Et) as (R1 & R2 & R3 & R4).
  rewrite at_nth by lia. cbn [bind].
  match goal with |- context [new_node s1 ?n] => set (nd := n) end.
  assert (Hnd : bk nd = BList /\ bch nd = [] /\ bpar nd = None).
  { subst nd. match goal with |- context [if ?b then _ else _] => destruct b end; cbn; auto. }
  destruct Hnd as (K1 & K2 & K3). clearbody nd.
  destruct (new_node_ok space_table src lst s1 nd S1 K2 K3) as (N1 & N2 & N3 & N4 & N5).
  { unfold node_ok. rewrite K1. exact I. }
  { rewrite K1. discriminate. }
  destruct (new_node s1 nd) as [s2 id]. cbn [fst snd] in *.
  exists (st_c s2 (cset_empty (s_c s2) false)), (Some (id, true, false)). split; [reflexivity|]. split; [|apply Hthird].
  unfold open_post. cbn [st_c s_h s_c s_r].
  split; [apply SI_set_c; [exact N1|apply CInv_cset_empty; apply N1]|].
  rewrite N5, N3, N4, Cc, Ch.
  split; [apply same_pos_le, Cr|]. split; [unfold cframe; cbn; auto|].
  exists nd. csplit; auto; try discriminate; [congruence|]. cbn [open_extra st_c s_c s_r cset_empty c_skip_list]. rewrite N5.
  csplit; auto. rewrite Em. exact Et.
Qed.
End S.
