(* The model of the heading options (model/HeadingOpts.v), block phase: with both options off the
   generalised copy of the block driver is the driver of the default parser (model/BlockParse.v),
   lifted through the state with the id table and the attribute map (both left as they are). *)
Require Import GM.model.Base GM.model.Util GM.model.Reader GM.model.Blocks GM.model.ListItem
               GM.model.LeafBlocks GM.model.CodeBlock GM.model.LinkDest GM.model.Regex
               GM.model.HtmlWriter GM.model.Html GM.model.Attr GM.model.Ids GM.model.BlockParse GM.model.HeadingOpts.
From Coq Require Import List ZArith NArith Bool Lia.
Import ListNotations.
Open Scope Z_scope.

Section Blk.
Variable hc : hcfg.
Hypothesis Hattr : h_attr hc = false.
Hypothesis Hauto : h_autoid hc = false.
Variable space_table punct_table : list N.
Variable norm : bytes -> bytes.
Variable re_t1o re_t1c re_t2 re_t3 re_t4 re_t5 re_t6 re_t7 : re.
Variable allowed_tags : list bytes.
Variable utf8len_table : list N.
Variable spaces : bytes.
Notation p_open := (p_open space_table re_t1o re_t2 re_t3 re_t4 re_t5 re_t6 re_t7 allowed_tags).
Notation p_continue := (p_continue space_table re_t1c).
Notation p_close := (p_close space_table).
Notation p_openH := (p_open_h hc space_table punct_table re_t1o re_t2 re_t3 re_t4 re_t5 re_t6 re_t7 allowed_tags).
Notation p_closeH := (p_close_h hc space_table punct_table utf8len_table spaces).
Notation TP := (transform_paragraph space_table punct_table norm).
Notation CR := (close_range space_table punct_table norm).
Notation CRH := (close_rangeH hc space_table punct_table norm utf8len_table spaces).
Notation CB := (close_blocks space_table punct_table norm).
Notation CBH := (close_blocksH hc space_table punct_table norm utf8len_table spaces).
Notation TRY := (try_parsers space_table punct_table norm re_t1o re_t2 re_t3 re_t4 re_t5 re_t6 re_t7 allowed_tags).
Notation TRYH := (try_parsersH hc space_table punct_table norm re_t1o re_t2 re_t3 re_t4 re_t5 re_t6 re_t7 allowed_tags utf8len_table spaces).
Notation OBL := (open_blocks_loop space_table punct_table norm re_t1o re_t2 re_t3 re_t4 re_t5 re_t6 re_t7 allowed_tags).
Notation OBLH := (open_blocks_loopH hc space_table punct_table norm re_t1o re_t2 re_t3 re_t4 re_t5 re_t6 re_t7 allowed_tags utf8len_table spaces).
Notation OB := (open_blocks space_table punct_table norm re_t1o re_t1c re_t2 re_t3 re_t4 re_t5 re_t6 re_t7 allowed_tags).
Notation OBH := (open_blocksH hc space_table punct_table norm re_t1o re_t1c re_t2 re_t3 re_t4 re_t5 re_t6 re_t7 allowed_tags utf8len_table spaces).
Notation EO := (each_opened space_table punct_table norm re_t1o re_t1c re_t2 re_t3 re_t4 re_t5 re_t6 re_t7 allowed_tags).
Notation EOH := (each_openedH hc space_table punct_table norm re_t1o re_t1c re_t2 re_t3 re_t4 re_t5 re_t6 re_t7 allowed_tags utf8len_table spaces).
Notation LL := (lines_loop space_table punct_table norm re_t1o re_t1c re_t2 re_t3 re_t4 re_t5 re_t6 re_t7 allowed_tags).
Notation LLH := (lines_loopH hc space_table punct_table norm re_t1o re_t1c re_t2 re_t3 re_t4 re_t5 re_t6 re_t7 allowed_tags utf8len_table spaces).
Notation PBL := (parse_blocks_loop space_table punct_table norm re_t1o re_t1c re_t2 re_t3 re_t4 re_t5 re_t6 re_t7 allowed_tags).
Notation PBLH := (parse_blocks_loopH hc space_table punct_table norm re_t1o re_t1c re_t2 re_t3 re_t4 re_t5 re_t6 re_t7 allowed_tags utf8len_table spaces).

(* the state of the H driver with the block state replaced *)
Lemma sth_s_s x a b : sth_s (sth_s x a) b = sth_s x b.
Proof. reflexivity. Qed.
Lemma sth_s_id x : sth_s x (hx_s x) = x.
Proof. destruct x; reflexivity. Qed.

Lemma atx_open_h_off x :
  atx_open_h hc space_table punct_table x = hlift x (atx_open_s space_table (hx_s x)).
Proof.
  unfold atx_open_h, atx_open_s, hlift.
  destruct (peek_line_s (hx_s x)) as [[[s line] sg]| |]; cbn [bind]; try reflexivity.
  cbn [hx_s sth_s].
  destruct (atx_open space_table (line_of line) (c_boff (s_c s))) as [a| |]; cbn [bind]; try reflexivity.
  destruct a as [[level body]|]; [|reflexivity].
  rewrite Hattr. cbn [negb hx_s sth_s].
  destruct (new_node s _) as [s1 id]. reflexivity.
Qed.

Lemma p_open_h_off p x parent : p_openH p x parent = hlift x (p_open p (hx_s x) parent).
Proof. destruct p; cbn [p_open_h p_open]; try reflexivity. apply atx_open_h_off. Qed.

Lemma p_close_h_off p x node : p_closeH p x node = hlift0 x (p_close p (hx_s x) node).
Proof.
  destruct p; cbn [p_close_h p_close]; try reflexivity.
  - unfold setext_close_h. rewrite Hattr, Hauto. unfold hlift0.
    destruct (setext_close space_table (hx_s x) node) as [s| |]; reflexivity.
  - unfold atx_close_h. rewrite Hattr, Hauto. unfold hlift0. cbn [bind]. rewrite sth_s_id. reflexivity.
Qed.

Lemma close_rangeH_off : forall cnt x blocks i,
  CRH x blocks cnt i = hlift0 x (CR (hx_s x) blocks cnt i).
Proof.
  induction cnt as [|k IH]; intros x blocks i; cbn [close_rangeH close_range].
  - unfold hlift0. cbn [bind]. rewrite sth_s_id. reflexivity.
  - destruct ((i <? 0) || (zlen blocks <=? i)); [reflexivity|].
    destruct (nth_error blocks (Z.to_nat i)) as [[node p]|]; [|reflexivity].
    destruct (is_paragraph (s_h (hx_s x)) node) as [isp| |]; cbn [bind]; try reflexivity.
    destruct (attached (s_h (hx_s x)) node) as [att| |]; cbn [bind]; try reflexivity.
    destruct (isp && att).
    + destruct (TP (hx_s x) node) as [[s1 g]| |]; cbn [bind fst snd]; try reflexivity.
      cbn [hx_s sth_s].
      destruct (attached (s_h s1) node) as [att2| |]; cbn [bind]; try reflexivity.
      destruct att2.
      * rewrite p_close_h_off. unfold hlift0 at 1. cbn [hx_s sth_s].
        destruct (p_close p s1 node) as [s2| |]; cbn [bind]; try reflexivity.
        rewrite IH. reflexivity.
      * cbn [bind]. rewrite IH. reflexivity.
    + cbn [bind].
      destruct (attached (s_h (hx_s x)) node) as [att2| |]; cbn [bind]; try reflexivity.
      destruct att2.
      * rewrite p_close_h_off. unfold hlift0 at 1.
        destruct (p_close p (hx_s x) node) as [s2| |]; cbn [bind]; try reflexivity.
        rewrite IH. reflexivity.
      * cbn [bind]. rewrite IH. reflexivity.
Qed.

Lemma close_blocksH_off x from to : CBH x from to = hlift0 x (CB (hx_s x) from to).
Proof.
  unfold close_blocksH, close_blocks. rewrite close_rangeH_off. unfold hlift0.
  destruct (CR (hx_s x) (opened (s_c (hx_s x))) (Z.to_nat (from - to + 1)) from) as [s| |]; cbn [bind]; try reflexivity.
  cbn [hx_s sth_s].
  destruct (from =? Z.of_nat (c_len (s_c s)) - 1).
  - destruct ((to <? 0) || (Z.of_nat (c_len (s_c s)) <? to)); reflexivity.
  - destruct ((to <? 0) || (from + 1 <? to) || (Z.of_nat (c_len (s_c s)) <? from + 1)); reflexivity.
Qed.

(* the result of the parser table: the core result lifted *)
Definition lift_tryH (x : sth) (t : try_res) : try_resH :=
  match t with
  | TRetry parent cont res s => TRetryH parent cont res (sth_s x s)
  | TDone res s => TDoneH res (sth_s x s)
  end.

Lemma try_parsersH_off : forall bps parent blank cont res w x,
  TRYH bps parent blank cont res w x = (t <- TRY bps parent blank cont res w (hx_s x) ;; Ok (lift_tryH x t)).
Proof.
  induction bps as [|bp rest IH]; intros parent blank cont res w x; cbn [try_parsersH try_parsers].
  - cbn [bind lift_tryH]. rewrite sth_s_id. reflexivity.
  - destruct (cont && (res =? noBlocksOpened) && negb (can_interrupt_paragraph bp)); [apply IH|].
    destruct ((3 <? w) && negb (can_accept_indented bp)); [apply IH|].
    rewrite p_open_h_off. unfold hlift.
    destruct (p_open bp (hx_s x) parent) as [[s o]| |]; cbn [bind fst snd]; try reflexivity.
    destruct o as [[[node hch] rp]|].
    2:{ rewrite IH. reflexivity. }
    cbn [hx_s sth_s].
    (* the RequireParagraph part *)
    set (RX := (if rp then _ else _) : result (sth + sth)).
    set (R := (if rp then _ else _) : result (st + st)).
    assert (HR : RX = (r <- R ;; Ok (match r with inl s => inl (sth_s x s) | inr s => inr (sth_s x s) end))).
    { subst RX R. destruct rp; [|reflexivity].
      destruct (last_opened (s_c (hx_s x))) as [[last lp]|]; [|reflexivity].
      destruct (hget (s_h s) parent) as [pn| |]; cbn [bind]; try reflexivity.
      destruct (opt_nat_eqb (Some last) (last_id (bch pn))); [|reflexivity].
      rewrite p_close_h_off. unfold hlift0. cbn [hx_s sth_s].
      destruct (p_close lp s last) as [s1| |]; cbn [bind]; try reflexivity.
      cbn [hx_s sth_s].
      destruct (Nat.eqb (c_len (s_c s1)) 0); [reflexivity|].
      destruct (TP _ last) as [[s2 gone]| |]; cbn [bind fst snd]; try reflexivity.
      destruct gone; reflexivity. }
    rewrite HR. clear HR RX. destruct R as [[s1|s1]| |]; cbn [bind]; try reflexivity.
    cbn [hx_s sth_s lift_tryH].
    destruct (hupd (s_h s1) node (fun n => set_blank n blank)) as [h| |]; cbn [bind]; try reflexivity.
    destruct (last_opened (s_c (hx_s x))) as [[last lp]|].
    + cbn [st_h s_h]. destruct (attached h last) as [att| |]; cbn [bind]; try reflexivity.
      destruct (negb att).
      * rewrite close_blocksH_off. unfold hlift0. cbn [hx_s sth_s st_h s_c].
        destruct (CB _ _ _) as [s2| |]; cbn [bind]; try reflexivity.
        cbn [hx_s sth_s]. destruct (append_child (s_h s2) parent node) as [h2| |]; cbn [bind]; try reflexivity.
        destruct hch; reflexivity.
      * cbn [bind hx_s sth_s st_h s_h]. destruct (append_child h parent node) as [h2| |]; cbn [bind]; try reflexivity.
        destruct hch; reflexivity.
    + cbn [bind hx_s sth_s st_h s_h]. destruct (append_child h parent node) as [h2| |]; cbn [bind]; try reflexivity.
      destruct hch; reflexivity.
Qed.

Lemma open_blocks_loopH_off : forall fuel parent blank cont res x,
  OBLH fuel parent blank cont res x =
  (y <- OBL fuel parent blank cont res (hx_s x) ;; Ok (fst (fst y), snd (fst y), sth_s x (snd y))).
Proof.
  induction fuel as [|f IH]; intros parent blank cont res x; cbn [open_blocks_loopH open_blocks_loop]; [reflexivity|].
  destruct (peek_line_s (hx_s x)) as [[[s line] sg]| |]; cbn [bind]; try reflexivity.
  destruct (line_offset_s s) as [[s1 off]| |]; cbn [bind]; try reflexivity.
  destruct (Blocks.indent_width (line_of line) off) as [w pos].
  cbn [hx_s sth_s].
  match goal with |- (if ?b then _ else _) = _ => destruct b end; [reflexivity|].
  rewrite try_parsersH_off. cbn [hx_s sth_s].
  destruct (TRY _ parent blank cont res w _) as [[p2 c2 r2 s2|r2 s2]| |]; cbn [bind lift_tryH]; try reflexivity.
  rewrite IH. reflexivity.
Qed.

Lemma open_blocksH_off fuel parent blank x :
  OBH fuel parent blank x = (y <- OB fuel parent blank (hx_s x) ;; Ok (fst y, sth_s x (snd y))).
Proof.
  unfold open_blocksH, open_blocks.
  match goal with |- (cont <- ?e ;; _) = _ => destruct e as [cont| |] end; cbn [bind]; try reflexivity.
  rewrite open_blocks_loopH_off.
  destruct (OBL fuel parent blank cont noBlocksOpened (hx_s x)) as [[[res c2] s2]| |]; cbn [bind fst snd]; try reflexivity.
  cbn [hx_s sth_s].
  destruct ((res =? noBlocksOpened) && c2); [|reflexivity].
  destruct (last_opened (s_c s2)) as [[l lp]|]; [|reflexivity].
  destruct (p_continue lp s2 l) as [[[s3 c3] k3]| |]; cbn [bind]; reflexivity.
Qed.

Definition lift_sumH (x : sth) (r : st + st) : sth + sth :=
  match r with inl s => inl (sth_s x s) | inr s => inr (sth_s x s) end.

Lemma each_openedH_off : forall fuel captured root i last_index stats x,
  EOH fuel captured root i last_index stats x =
  (y <- EO fuel captured root i last_index stats (hx_s x) ;; Ok (lift_sumH x (fst y), snd y)).
Proof.
  induction fuel as [|f IH]; intros captured root i last_index stats x; cbn [each_openedH each_opened]; [reflexivity|].
  destruct (last_index <? i); [cbn [bind fst snd lift_sumH]; rewrite sth_s_id; reflexivity|].
  destruct (nth_error captured (Z.to_nat i)) as [[node bp]|]; [|reflexivity].
  destruct (peek_line_s (hx_s x)) as [[[s line] sg]| |]; cbn [bind]; try reflexivity.
  cbn [hx_s sth_s].
  destruct line as [line|].
  2:{ rewrite close_blocksH_off. unfold hlift0. cbn [hx_s sth_s].
      destruct (CB s last_index 0) as [s1| |]; cbn [bind]; reflexivity. }
  destruct (is_paragraph (s_h s) node) as [isp| |]; cbn [bind]; try reflexivity.
  set (CX := (if negb isp then _ else _) : result (sth * bool * bool)).
  set (C := (if negb isp then _ else _) : result (st * bool * bool)).
  assert (HC : CX = (c <- C ;; Ok (sth_s x (fst (fst c)), snd (fst c), snd c))).
  { subst CX C. destruct (negb isp); [|reflexivity].
    destruct (p_continue bp s node) as [[[s1 c1] k1]| |]; reflexivity. }
  rewrite HC. clear HC CX. destruct C as [[[s1 cont] kids]| |]; cbn [bind fst snd]; try reflexivity.
  destruct cont.
  - destruct (kids && (i =? last_index)).
    + rewrite open_blocksH_off. cbn [hx_s sth_s].
      destruct (OB _ node _ s1) as [[r2 s2]| |]; cbn [bind fst snd lift_sumH]; reflexivity.
    + rewrite IH. reflexivity.
  - match goal with |- (this_parent <- ?e ;; _) = _ => destruct e as [tp| |] end; cbn [bind]; try reflexivity.
    match goal with |- (last_node <- ?e ;; _) = _ => destruct e as [ln| |] end; cbn [bind]; try reflexivity.
    rewrite open_blocksH_off. cbn [hx_s sth_s].
    destruct (OB _ tp _ s1) as [[r2 s2]| |]; cbn [bind fst snd]; try reflexivity.
    destruct (negb (r2 =? paragraphContinuation)); [|reflexivity].
    cbn [hx_s sth_s].
    match goal with |- (now_last <- ?e ;; _) = _ => destruct e as [nl| |] end; cbn [bind]; try reflexivity.
    rewrite close_blocksH_off. unfold hlift0. cbn [hx_s sth_s].
    destruct (CB s2 _ i) as [s3| |]; cbn [bind]; reflexivity.
Qed.

Lemma lines_loopH_off : forall fuel root stats x,
  LLH fuel root stats x = (y <- LL fuel root stats (hx_s x) ;; Ok (lift_sumH x (fst y), snd y)).
Proof.
  induction fuel as [|f IH]; intros root stats x; cbn [lines_loopH lines_loop]; [reflexivity|].
  destruct (opened (s_c (hx_s x))) as [|e0 cap] eqn:Ecap.
  - cbn [bind fst snd lift_sumH]. rewrite sth_s_id. reflexivity.
  - rewrite each_openedH_off.
    destruct (EO _ (e0 :: cap) root 0 _ stats (hx_s x)) as [[[s1|s1] st1]| |]; cbn [bind fst snd lift_sumH]; try reflexivity.
    unfold advance_line_h. cbn [hx_s sth_s]. rewrite IH. reflexivity.
Qed.

Lemma parse_blocks_loopH_off : forall fuel root stats x,
  PBLH fuel root stats x = hlift0 x (PBL fuel root stats (hx_s x)).
Proof.
  induction fuel as [|f IH]; intros root stats x; cbn [parse_blocks_loopH parse_blocks_loop]; [reflexivity|].
  destruct (r_skip_blank_lines space_table (S (length (src_of (hx_s x)))) (s_r (hx_s x))) as [[[[r a] lines] ok]| |];
    cbn [bind]; try reflexivity.
  cbn [hx_s sth_s]. destruct (negb ok); [reflexivity|].
  rewrite open_blocksH_off. cbn [hx_s sth_s].
  destruct (OB _ root _ (st_r (hx_s x) r)) as [[res s1]| |]; cbn [bind fst snd]; try reflexivity.
  destruct (negb (res =? newBlocksOpened)); [reflexivity|].
  unfold advance_line_h. cbn [hx_s sth_s]. rewrite lines_loopH_off. cbn [hx_s sth_s].
  destruct (LL _ root _ (advance_line_s s1)) as [[[s2|s2] st2]| |]; cbn [bind fst snd lift_sumH]; try reflexivity.
  rewrite IH. reflexivity.
Qed.

(* with both options off, the block phase is that of the default parser *)
Theorem parse_blocksH_off : forall src,
  parse_blocksH hc space_table punct_table norm re_t1o re_t1c re_t2 re_t3 re_t4 re_t5 re_t6 re_t7 allowed_tags
                utf8len_table spaces src =
  (s <- parse_blocks space_table punct_table norm re_t1o re_t1c re_t2 re_t3 re_t4 re_t5 re_t6 re_t7 allowed_tags src ;;
   Ok {| hx_s := s; hx_ids := []; hx_attrs := [] |}).
Proof.
  intros src. unfold parse_blocksH, parse_blocks. rewrite parse_blocks_loopH_off. reflexivity.
Qed.

End Blk.

(* the tree conversion with an empty attribute map is that of the default parser *)
Lemma to_treeH_nil src h : forall fuel i, to_treeH fuel src h [] i = to_tree fuel src h i.
Proof.
  induction fuel as [|f IH]; intros i; cbn [to_treeH to_tree]; [reflexivity|].
  destruct (hget h i) as [n| |]; cbn [bind]; try reflexivity.
  destruct (kind_of src n) as [k| |]; cbn [bind]; try reflexivity.
  assert (E : map_res (to_treeH f src h []) (bch n) = map_res (to_tree f src h) (bch n)).
  { induction (bch n) as [|c cs IHc]; cbn [map_res]; [reflexivity|]. rewrite IH, IHc. reflexivity. }
  rewrite E. reflexivity.
Qed.
