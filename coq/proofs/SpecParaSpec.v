(* Plain paragraphs, specification side: a document tree made of plain paragraphs (lower-case
   words and soft breaks, no break first, last or doubled) is printed by md_of as a source of the
   shape of SpecParaBytes (line bodies joined by newlines, paragraphs by one empty line), and the
   HTML the specification prescribes for it is the HTML of that shape. *)
Require Import GM.model.Base GM.model.Util GM.model.SpecDoc GM.proofs.SpecParaBytes.
From Coq Require Import List NArith ZArith Bool Lia.
Import ListNotations.
Open Scope N_scope.

(* verbatim copies (suffix _s) of the definitions the main theorem file uses *)
Definition is_word_s (w : bytes) : bool := negb (match w with [] => true | _ => false end) && forallb (fun c => (97 <=? c) && (c <=? 122)) w.
Fixpoint plain_atoms_s (prev_break : bool) (l : list atom) : bool :=
  match l with
  | [] => negb prev_break
  | AWord w :: r => is_word_s w && plain_atoms_s false r
  | ASoft :: r => negb prev_break && plain_atoms_s true r
  | _ => false
  end.
Definition plain_para_s (b : block) : bool :=
  match b with BPara 0 a => match a with [] => false | _ => plain_atoms_s true a end | _ => false end.
Definition plain_doc_s (d : doc) : bool := negb (match d with [] => true | _ => false end) && forallb plain_para_s d.

(* ---------- the witness: the line bodies of a list of atoms ---------- *)
(* cur: the body of the line being written *)
Fixpoint lines_of (cur : bytes) (l : list atom) : list bytes :=
  match l with
  | [] => [cur]
  | AWord w :: r => lines_of (match cur with [] => w | _ => cur ++ sp ++ w end) r
  | ASoft :: r => cur :: lines_of [] r
  | _ :: _ => [cur]
  end.
Definition blk_lines (b : block) : list bytes := match b with BPara _ a => lines_of [] a | _ => [] end.
Definition doc_paras (d : doc) : list (list bytes) := map blk_lines d.

(* the blank written before the first atom of l, given whether a break precedes *)
Definition sepf (pb : bool) (l : list atom) : bytes :=
  match l with AWord _ :: _ => if pb then [] else sp | _ => [] end.

Lemma lines_of_cons cur a : exists h t, lines_of cur a = h :: t.
Proof.
  revert cur. induction a as [|x r IH]; intros cur.
  - exists cur, []. reflexivity.
  - destruct x; cbn [lines_of]; try (exists cur, []; reflexivity).
    + apply IH.
    + exists cur, (lines_of [] r). reflexivity.
Qed.

(* ---------- generic facts about join and split_lines ---------- *)
Lemma join_cons_ne sep x h t : join sep (x :: h :: t) = x ++ sep ++ join sep (h :: t).
Proof. reflexivity. Qed.
Lemma join_app_ne sep (l1 l2 : list bytes) : l1 <> [] -> l2 <> [] ->
  join sep (l1 ++ l2) = join sep l1 ++ sep ++ join sep l2.
Proof.
  intros H1 H2. induction l1 as [|x r IH]; [contradiction|].
  destruct r as [|y r'].
  - destruct l2 as [|h t]; [contradiction|]. reflexivity.
  - change ((x :: y :: r') ++ l2) with (x :: y :: (r' ++ l2)).
    rewrite !join_cons_ne. change (y :: r' ++ l2) with ((y :: r') ++ l2).
    rewrite IH by discriminate. rewrite <- !app_assoc. reflexivity.
Qed.

Definition nonl (b : bytes) : bool := forallb (fun c => negb (c =? 10)) b.
Lemma split_lines_app b v cur : nonl b = true -> split_lines (b ++ v) cur = split_lines v (rev b ++ cur).
Proof.
  revert cur. induction b as [|c r IH]; intros cur H; [reflexivity|].
  unfold nonl in H. cbn [forallb] in H. apply andb_true_iff in H. destruct H as [Hc Hr].
  cbn [app split_lines rev]. apply negb_true_iff in Hc. rewrite Hc.
  rewrite IH by exact Hr. rewrite <- app_assoc. reflexivity.
Qed.
Lemma split_join l : forall x cur, nonl x = true -> forallb nonl l = true ->
  split_lines (join nl (x :: l)) cur = (rev cur ++ x) :: l.
Proof.
  induction l as [|y r IH]; intros x cur Hx Hl.
  - cbn [join]. rewrite <- (app_nil_r x) at 1. rewrite split_lines_app by exact Hx.
    cbn [split_lines]. rewrite rev_app_distr, rev_involutive. reflexivity.
  - cbn [forallb] in Hl. apply andb_true_iff in Hl. destruct Hl as [Hy Hr].
    rewrite join_cons_ne. rewrite split_lines_app by exact Hx.
    change (nl ++ join nl (y :: r)) with (10 :: join nl (y :: r)).
    cbn [split_lines]. change (10 =? 10) with true. cbn iota.
    rewrite rev_app_distr, rev_involutive. f_equal.
    change (y :: r) with (rev [] ++ y :: r) at 2. rewrite (IH y [] Hy Hr). reflexivity.
Qed.

(* ---------- bodies ---------- *)
Lemma textc_nonl b : forallb textc b = true -> nonl b = true.
Proof.
  intros H. unfold nonl. apply forallb_forall. intros c Hc.
  pose proof (proj1 (forallb_forall textc b) H c Hc) as Ht. apply textc_range in Ht.
  apply negb_true_iff. apply N.eqb_neq. lia.
Qed.
Lemma body_ok_nonl b : body_okb b = true -> nonl b = true.
Proof. intros H. apply textc_nonl. apply body_ok_text. exact H. Qed.

Lemma body_okb_intro b c r c' r' : forallb textc b = true -> b = c :: r -> wordc c = true ->
  rev b = c' :: r' -> wordc c' = true -> body_okb b = true.
Proof.
  intros Ht Hb Hc Hrb Hc'. unfold body_okb. rewrite Ht, Hrb, Hc'. rewrite Hb, Hc. reflexivity.
Qed.
Lemma rev_cons_ex {A} (x : A) l : exists c r, rev (x :: l) = c :: r /\ In c (x :: l).
Proof.
  destruct (rev (x :: l)) as [|c r] eqn:E.
  - apply (f_equal (@length A)) in E. rewrite rev_length in E. discriminate.
  - exists c, r. split; [reflexivity|]. apply in_rev. rewrite E. left. reflexivity.
Qed.
Lemma word_body w : is_word_s w = true -> body_okb w = true.
Proof.
  unfold is_word_s. intros H. apply andb_true_iff in H. destruct H as [Hn Hw].
  destruct w as [|c r]; [discriminate|].
  change (forallb wordc (c :: r) = true) in Hw.
  destruct (rev_cons_ex c r) as (c' & r' & E & Hin).
  apply (body_okb_intro (c :: r) c r c' r').
  - apply forallb_forall. intros x Hx. apply wordc_textc. exact (proj1 (forallb_forall _ _) Hw x Hx).
  - reflexivity.
  - cbn [forallb] in Hw. apply andb_true_iff in Hw. apply Hw.
  - exact E.
  - exact (proj1 (forallb_forall _ _) Hw c' Hin).
Qed.
Lemma body_sp_body b1 b2 : body_okb b1 = true -> body_okb b2 = true -> body_okb (b1 ++ sp ++ b2) = true.
Proof.
  intros H1 H2.
  destruct (body_ok_head b1 H1) as (c & r & E1 & Hc).
  destruct (body_ok_last b2 H2) as (r2 & c2 & E2 & Hc2).
  apply (body_okb_intro _ c (r ++ sp ++ b2) c2 (rev r2 ++ rev sp ++ rev b1)).
  - rewrite !forallb_app. rewrite (body_ok_text b1 H1), (body_ok_text b2 H2). reflexivity.
  - rewrite E1. reflexivity.
  - exact Hc.
  - rewrite !rev_app_distr. rewrite E2. rewrite rev_app_distr. cbn [rev app]. rewrite <- !app_assoc. reflexivity.
  - exact Hc2.
Qed.

(* ---------- the lines of plain atoms ---------- *)
Lemma lines_of_ok a : forall pb cur, plain_atoms_s pb a = true -> is_nil cur = pb ->
  (pb = false -> body_okb cur = true) -> forallb body_okb (lines_of cur a) = true.
Proof.
  induction a as [|x r IH]; intros pb cur Hp Hn Hb.
  - cbn [plain_atoms_s] in Hp. apply negb_true_iff in Hp. cbn [lines_of forallb]. rewrite (Hb Hp). reflexivity.
  - destruct x; cbn [plain_atoms_s] in Hp; try discriminate.
    + apply andb_true_iff in Hp. destruct Hp as [Hw Hr]. cbn [lines_of].
      apply (IH false); [exact Hr| |intros _].
      * destruct cur as [|c cur']; [|reflexivity].
        apply word_body in Hw. destruct (body_ok_head w Hw) as (c & t & -> & _). reflexivity.
      * destruct cur as [|c cur']; [apply word_body; exact Hw|].
        apply body_sp_body; [|apply word_body; exact Hw].
        apply Hb. rewrite <- Hn. reflexivity.
    + apply andb_true_iff in Hp. destruct Hp as [Hpb Hr]. apply negb_true_iff in Hpb.
      cbn [lines_of forallb]. rewrite (Hb Hpb). cbn [andb].
      apply (IH true); [exact Hr|reflexivity|discriminate].
Qed.

Lemma lines_of_join a : forall pb cur, plain_atoms_s pb a = true -> is_nil cur = pb ->
  join nl (lines_of cur a) = cur ++ sepf pb a ++ atoms_md a.
Proof.
  induction a as [|x r IH]; intros pb cur Hp Hn.
  - cbn [lines_of join sepf atoms_md]. rewrite !app_nil_r. reflexivity.
  - destruct x; cbn [plain_atoms_s] in Hp; try discriminate.
    + apply andb_true_iff in Hp. destruct Hp as [Hw Hr]. cbn [lines_of].
      rewrite (IH false); [|exact Hr|].
      2:{ destruct cur as [|c cur']; [|reflexivity].
          apply word_body in Hw. destruct (body_ok_head w Hw) as (c & t & -> & _). reflexivity. }
      assert (E : atoms_md (AWord w :: r) = w ++ sepf false r ++ atoms_md r).
      { destruct r as [|y r']; [cbn [atoms_md atom_md sepf]; rewrite !app_nil_r; reflexivity|].
        destruct y; cbn [plain_atoms_s] in Hr; try discriminate; reflexivity. }
      rewrite E. cbn [sepf].
      destruct cur as [|c cur']; cbn [is_nil] in Hn; subst pb.
      * reflexivity.
      * rewrite <- !app_assoc. reflexivity.
    + apply andb_true_iff in Hp. destruct Hp as [Hpb Hr]. apply negb_true_iff in Hpb.
      cbn [lines_of]. destruct (lines_of_cons [] r) as (h & t & E).
      pose proof (IH true [] Hr eq_refl) as J. rewrite E in *.
      rewrite join_cons_ne, J. cbn [sepf].
      assert (E2 : atoms_md (ASoft :: r) = nl ++ sepf true r ++ atoms_md r).
      { destruct r as [|y r']; [cbn [plain_atoms_s] in Hr; discriminate|].
        destruct y; cbn [plain_atoms_s] in Hr; try discriminate; reflexivity. }
      rewrite E2. reflexivity.
Qed.

Lemma atoms_html_md a : forall pb, plain_atoms_s pb a = true -> atoms_html a = atoms_md a.
Proof.
  induction a as [|x r IH]; intros pb Hp; [reflexivity|].
  destruct x; cbn [plain_atoms_s] in Hp; try discriminate;
    apply andb_true_iff in Hp; destruct Hp as [_ Hr]; pose proof (IH _ Hr) as J;
    (destruct r as [|y r']; [reflexivity|]);
    destruct y; cbn [plain_atoms_s] in Hr; try discriminate;
    cbn [atoms_html atoms_md] in *; rewrite J; reflexivity.
Qed.

Lemma atoms_defs_plain a : forall pb, plain_atoms_s pb a = true -> atoms_defs a = [].
Proof.
  induction a as [|x r IH]; intros pb Hp; [reflexivity|].
  destruct x; cbn [plain_atoms_s] in Hp; try discriminate;
    apply andb_true_iff in Hp; destruct Hp as [_ Hr];
    unfold atoms_defs; cbn [flat_map atom_defs app]; exact (IH _ Hr).
Qed.

(* ---------- one paragraph ---------- *)
Lemma plain_para_inv b : plain_para_s b = true -> exists a, b = BPara 0 a /\ plain_atoms_s true a = true.
Proof.
  destruct b as [ind a| | | | | |]; try discriminate.
  cbn [plain_para_s]. destruct ind; [|discriminate]. destruct a as [|x r]; [discriminate|].
  intros H. exists (x :: r). split; [reflexivity|exact H].
Qed.

Lemma para_lines_ok a : plain_atoms_s true a = true -> para_ok (lines_of [] a) = true.
Proof.
  intros H. unfold para_ok. destruct (lines_of_cons [] a) as (h & t & E).
  rewrite (lines_of_ok a true [] H eq_refl) by discriminate. rewrite E. reflexivity.
Qed.
Lemma para_lines_src a : plain_atoms_s true a = true -> para_src (lines_of [] a) = atoms_md a.
Proof.
  intros H. unfold para_src. rewrite (lines_of_join a true [] H eq_refl).
  destruct a as [|x r]; [reflexivity|]. destruct x; reflexivity.
Qed.
Lemma para_split a : plain_atoms_s true a = true -> split_lines (atoms_md a) [] = lines_of [] a.
Proof.
  intros H. rewrite <- (para_lines_src a H). unfold para_src.
  pose proof (lines_of_ok a true [] H eq_refl) as Hok.
  destruct (lines_of_cons [] a) as (h & t & E). rewrite E in *.
  specialize (Hok ltac:(discriminate)). cbn [forallb] in Hok. apply andb_true_iff in Hok. destruct Hok as [Hh Ht].
  rewrite split_join; [reflexivity|apply body_ok_nonl; exact Hh|].
  apply forallb_forall. intros x Hx. apply body_ok_nonl. exact (proj1 (forallb_forall _ _) Ht x Hx).
Qed.

Lemma para_block_lines a : plain_atoms_s true a = true ->
  map (line_md false) (block_lines (BPara 0 a)) = lines_of [] a.
Proof.
  intros H. cbn [block_lines]. rewrite (para_split a H). rewrite map_map.
  rewrite <- (map_id (lines_of [] a)) at 2. apply map_ext. intros l. reflexivity.
Qed.
Lemma para_block_html a : plain_atoms_s true a = true ->
  block_html (BPara 0 a) = para_html (lines_of [] a).
Proof.
  intros H. unfold para_html. rewrite (para_lines_src a H), <- (atoms_html_md a true H). reflexivity.
Qed.

(* ---------- documents ---------- *)
Lemma doc_paras_ok d : forallb plain_para_s d = true -> forallb para_ok (doc_paras d) = true.
Proof.
  induction d as [|b r IH]; intros H; [reflexivity|].
  cbn [forallb] in H. apply andb_true_iff in H. destruct H as [Hb Hr].
  destruct (plain_para_inv b Hb) as (a & -> & Ha).
  unfold doc_paras. cbn [map forallb blk_lines]. rewrite (para_lines_ok a Ha). exact (IH Hr).
Qed.
Lemma doc_defs d : forallb plain_para_s d = true -> flat_map block_defs d = [].
Proof.
  induction d as [|b r IH]; intros H; [reflexivity|].
  cbn [forallb] in H. apply andb_true_iff in H. destruct H as [Hb Hr].
  destruct (plain_para_inv b Hb) as (a & -> & Ha).
  cbn [flat_map block_defs]. rewrite (atoms_defs_plain a true Ha). exact (IH Hr).
Qed.
Lemma doc_html d : forallb plain_para_s d = true -> html_of d = pdoc_html (doc_paras d).
Proof.
  induction d as [|b r IH]; intros H; [reflexivity|].
  cbn [forallb] in H. apply andb_true_iff in H. destruct H as [Hb Hr].
  destruct (plain_para_inv b Hb) as (a & -> & Ha).
  unfold html_of, pdoc_html, doc_paras. cbn [map flat_map blk_lines].
  rewrite (para_block_html a Ha). f_equal. exact (IH Hr).
Qed.
Lemma doc_md d : d <> [] -> forallb plain_para_s d = true ->
  join nl (map (line_md false) (doc_lines d)) = pdoc_body (doc_paras d).
Proof.
  induction d as [|b r IH]; intros Hne H; [contradiction|].
  cbn [forallb] in H. apply andb_true_iff in H. destruct H as [Hb Hr].
  destruct (plain_para_inv b Hb) as (a & -> & Ha).
  destruct r as [|b2 r'].
  - cbn [doc_lines]. rewrite (para_block_lines a Ha). reflexivity.
  - specialize (IH ltac:(discriminate) Hr).
    change (doc_lines (BPara 0 a :: b2 :: r')) with (block_lines (BPara 0 a) ++ [blank] ++ doc_lines (b2 :: r')).
    rewrite !map_app. rewrite (para_block_lines a Ha).
    assert (Hn2 : map (line_md false) (doc_lines (b2 :: r')) <> []).
    { cbn [forallb] in Hr. apply andb_true_iff in Hr. destruct Hr as [Hb2 _].
      destruct (plain_para_inv b2 Hb2) as (a2 & -> & Ha2).
      destruct r' as [|b3 r''].
      - cbn [doc_lines]. rewrite (para_block_lines a2 Ha2).
        destruct (lines_of_cons [] a2) as (h & t & ->). discriminate.
      - change (doc_lines (BPara 0 a2 :: b3 :: r'')) with (block_lines (BPara 0 a2) ++ [blank] ++ doc_lines (b3 :: r'')).
        rewrite map_app, (para_block_lines a2 Ha2).
        destruct (lines_of_cons [] a2) as (h & t & ->). discriminate. }
    destruct (lines_of_cons [] a) as (h & t & E).
    rewrite join_app_ne; [|rewrite E; discriminate|discriminate].
    rewrite join_app_ne; [|discriminate|exact Hn2].
    rewrite IH. unfold pdoc_body, doc_paras. cbn [map blk_lines]. rewrite join_cons_ne.
    reflexivity.
Qed.

Theorem plain_doc_shape : forall d, plain_doc_s d = true ->
  exists d', doc_ok d' = true /\ (forall fin, md_of false fin d = pdoc_src d' fin) /\ html_of d = pdoc_html d'.
Proof.
  intros d H. unfold plain_doc_s in H. apply andb_true_iff in H. destruct H as [Hne Hd].
  assert (Hne' : d <> []) by (destruct d; [discriminate|discriminate]).
  exists (doc_paras d). split; [|split].
  - unfold doc_ok. rewrite (doc_paras_ok d Hd). destruct d; [contradiction|reflexivity].
  - intros fin. unfold md_of, pdoc_src. rewrite (doc_defs d Hd). rewrite app_nil_r.
    rewrite (doc_md d Hne' Hd). reflexivity.
  - exact (doc_html d Hd).
Qed.

Theorem plain_para_shape : forall a, plain_para_s (BPara 0 a) = true ->
  exists p, para_ok p = true /\ (forall fin, md_of false fin [BPara 0 a] = pdoc_src [p] fin) /\ html_of [BPara 0 a] = pdoc_html [p].
Proof.
  intros a H.
  destruct (plain_para_inv _ H) as (a' & Ea & Ha). injection Ea as <-.
  exists (lines_of [] a). split; [exact (para_lines_ok a Ha)|].
  split.
  - intros fin. unfold md_of, pdoc_src. rewrite (doc_defs [BPara 0 a]); [|cbn [forallb]; rewrite H; reflexivity].
    rewrite app_nil_r. rewrite (doc_md [BPara 0 a]); [reflexivity|discriminate|cbn [forallb]; rewrite H; reflexivity].
  - apply (doc_html [BPara 0 a]). cbn [forallb]. rewrite H. reflexivity.
Qed.
