(* Totality of the heading-options model, block phase: fork of the second half of ParseBlocksTotalOpen.v, ported to
   the driver of model/HeadingOpts.v over x : sth: open_blocks_loopH and open_blocksH under the state invariant
   SI (hx_s x).  The final lemma open_blocksH_ok_fix is the core lemma open_blocks_ok_fix with (NEW) the facts
   behind the new conjuncts of LastOK (HeadingOptsWfTotShape.v) for the last new block: the lines of a new ATX heading
   are olineE, the temporary paragraph of a new Setext heading was trimmed and popped; and (NEW2, as in the GFM fork)
   the open paragraph is the last child of its parent (hypothesis and conclusion LastParaLC). *)
Require Import GM.model.Base GM.model.Util GM.model.Reader GM.model.ReaderSpec GM.model.Blocks GM.model.ListItem
               GM.model.LeafBlocks GM.model.CodeBlock GM.model.LinkDest GM.model.Regex GM.model.BlockParse
               GM.model.HtmlWriter GM.model.Html GM.model.Attr GM.model.Ids GM.model.HeadingOpts.
Require Import GM.proofs.ReaderProofs GM.proofs.BlocksProofs GM.proofs.BlockRangeProofs
               GM.proofs.ParseBlocksTotalReader GM.proofs.ParseBlocksTotalDefs GM.proofs.ParseBlocksTotalSpec
               GM.proofs.ParseBlocksTotalSt GM.proofs.HeadingOptsWfTotShape
               GM.proofs.ParseBlocksTotalLeaf GM.proofs.ParseBlocksTotalLeaf2 GM.proofs.ParseBlocksTotalCont
               GM.proofs.ParseBlocksTotalTransform GM.proofs.HeadingOptsWfAttr GM.proofs.HeadingOptsWfTotOpsO
               GM.proofs.HeadingOptsWfTotOpenA.
From Coq Require Import ZArith Lia List Bool.
Import ListNotations.
Open Scope Z_scope.

Section S.
Variable hc : hcfg.
Variable space_table punct_table : list N.
Variable norm : bytes -> bytes.
Variable re_t1o re_t1c re_t2 re_t3 re_t4 re_t5 re_t6 re_t7 : re.
Variable allowed_tags : list bytes.
Variable utf8len_table : list N.
Variable spaces : bytes.
Variable src : bytes.
Hypothesis tbl : TblOK space_table.
Hypothesis attr_total : AttrTotal space_table punct_table.
Notation SI := (SI space_table src).
Notation olineE := (olineE src).
Notation OBH := (open_blocksH hc space_table punct_table norm re_t1o re_t1c re_t2 re_t3 re_t4 re_t5 re_t6 re_t7 allowed_tags utf8len_table spaces).
Notation TPH := (try_parsersH hc space_table punct_table norm re_t1o re_t2 re_t3 re_t4 re_t5 re_t6 re_t7 allowed_tags utf8len_table spaces).
Notation OBL := (open_blocks_loopH hc space_table punct_table norm re_t1o re_t2 re_t3 re_t4 re_t5 re_t6 re_t7 allowed_tags utf8len_table spaces).
Notation isb := (Reader.is_blank space_table).
Notation itb := (is_thematic_break space_table).
Notation TI := (TI space_table src).
Notation ODecl := (ODecl space_table src).
Notation OPop := (OPop space_table src).
Notation OPush := (OPush space_table src).
Notation PF := (PF space_table src).
Notation LB := (LB space_table).
Notation th := (th space_table).

(* ---------------------------------------------------------------------------------------- *)
(* the head of one round of open_blocks_loopH                                                 *)
Lemma CInv_set_off h c o i : CInv h c -> CInv h (cset_off c o i).
Proof. intros [C1 C2 C3 C4]. constructor; cbn [cset_off c_arr c_len c_tmp_para c_fence]; assumption. Qed.

Lemma round_head f parent blank cont res x : let s := hx_s x in SI s ->
  exists s3, SI s3 /\ dcl s s3 /\ c_skip_list (s_c s3) = c_skip_list (s_c s) /\
    (((~ sin s \/ exists r, sview s = 10%N :: r) /\ OBL (S f) parent blank cont res x = Ok (res, cont, sth_s x s3))
     \/
     (sin s /\ (forall r, sview s <> 10%N :: r) /\ BoffOK s3 /\
      exists w pos, indent_width (sview s) (soff s) = (w, pos) /\
        OBL (S f) parent blank cont res x =
          (t <- TPH (cands (sview s) pos) parent blank cont res w (sth_s x s3) ;;
           match t with
           | TRetryH parent' cont' res' x' => OBL f parent' blank cont' res' x'
           | TDoneH res' x' => Ok (res', cont, x')
           end))).
Proof.
  destruct x as [s ids ats]. cbn [hx_s]. sx.
  intros HS. cbn [open_blocks_loopH]. cbn [hx_s].
  destruct (peek_line_s_ok _ _ s HS) as [s1 (E1 & S1 & C1 & _)]. rewrite E1. cbn [bind]. cbv beta iota.
  destruct (line_offset_s_ok _ _ s1 S1) as [s2 (E2 & S2 & C2 & _)]. rewrite (scache_off _ _ C1) in E2.
  rewrite E2. cbn [bind]. cbv beta iota.
  pose proof (scache_trans _ _ _ C1 C2) as (CH & CC & CP).
  assert (HD : forall o i, dcl s (st_c s2 (cset_off (s_c s2) o i)) /\ SI (st_c s2 (cset_off (s_c s2) o i)) /\
                           c_skip_list (s_c (st_c s2 (cset_off (s_c s2) o i))) = c_skip_list (s_c s)).
  { intros o i. csplit.
    - unfold dcl. cbn [st_c s_h s_c s_r cset_off c_arr c_len c_fence c_tmp_para]. rewrite CH, CC. csplit; auto.
    - apply SI_set_c; [exact S2|]. apply CInv_set_off, (si_c _ _ _ S2).
    - cbn [st_c s_c cset_off c_skip_list]. rewrite CC. reflexivity. }
  destruct (r_in_range (s_r s)) eqn:Hin.
  - cbn [line_of]. destruct (indent_width (sview s) (soff s)) as [w pos] eqn:Eiw. cbv zeta.
    match goal with |- context [st_c s2 ?c] => set (c3 := c) end.
    assert (H3 : dcl s (st_c s2 c3) /\ SI (st_c s2 c3) /\ c_skip_list (s_c (st_c s2 c3)) = c_skip_list (s_c s)).
    { unfold c3. destruct (zlen (sview s) <=? w); apply HD. }
    destruct H3 as (D3 & S3 & K3).
    exists (st_c s2 c3). split; [exact S3|]. split; [exact D3|]. split; [exact K3|].
    pose proof (sview_pos space_table src s HS Hin) as Hpos.
    destruct (sview s) as [|c r] eqn:Ev; [unfold zlen in Hpos; cbn in Hpos; lia|].
    destruct (N.eqb_spec c 10) as [->|Hc].
    + left. split; [right; eauto|reflexivity].
    + right. split; [exact Hin|]. split; [intros r' C; congruence|]. split.
      * unfold BoffOK. rewrite (dcl_view _ _ D3), (dcl_pos _ _ D3). rewrite <- Ev in Eiw.
        destruct (view_indent space_table norm src s _ _ _ HS Eiw) as (V1 & V2 & V3). rewrite Ev.
        unfold c3. cbn [st_c s_c].
        destruct (Z.leb_spec (zlen (c :: r)) w) as [Hle|Hgt]; cbn [cset_off c_boff]; lia.
      * exists w, pos. split; [reflexivity|]. reflexivity.
  - cbn [line_of]. cbv zeta.
    change (indent_width [] (soff s)) with (0, 0). cbv beta iota.
    change (zlen (@nil N) <=? 0) with true. cbv iota.
    destruct (HD (-1) (-1)) as (D3 & S3 & K3).
    exists (st_c s2 (cset_off (s_c s2) (-1) (-1))). split; [exact S3|]. split; [exact D3|]. split; [exact K3|].
    left. split; [|reflexivity]. left. unfold sin. congruence.
Qed.

(* ---------------------------------------------------------------------------------------- *)
(* what a run of rounds that pushed the blocks `new` below `parent` has established             *)
Definition fence_ok (s s' : st) (new : list (nat * bparser)) : Prop :=
  (forall n, lst new = Some (n, PFenced) -> exists ch ind fl, c_fence (s_c s') = Some (ch, ind, fl, n)) /\
  ((forall n, lst new <> Some (n, PFenced)) -> c_fence (s_c s') = c_fence (s_c s)).

Definition RG (parent : nat) (x : option nat) (s s' : st) (new : list (nat * bparser)) : Prop :=
  SI s' /\ r_le (s_r s) (s_r s') /\ Chain (s_h s') parent new /\
  (forall e, In e new -> (length (s_h s) <= fst e)%nat) /\
  AF (s_h s) (s_h s') parent x /\
  (forall n1 p1, nth_error new 0%nat = Some (n1, p1) ->
     exists pn', nth_error (s_h s') parent = Some pn' /\ last_id (bch pn') = Some n1) /\
  fence_ok s s' new.

Lemma RG_nil parent x s s' : SI s' -> dcl s s' -> RG parent x s s' [].
Proof.
  intros HS D. pose proof D as (Eh & Ep & _ & _ & Ef & _). unfold RG. csplit; auto.
  - apply same_pos_le, Ep.
  - apply Chain_nil.
  - intros e [].
  - rewrite Eh. apply AF_refl.
  - intros n1 p1 H. discriminate.
  - split; [intros n H; discriminate|intros _; exact Ef].
Qed.

Lemma RG_single parent pn s bp node s1 : PF parent pn s bp node false s1 ->
  RG parent (last_para (s_c s)) s s1 [(node, bp)].
Proof.
  intros (H2 & H3 & H4 & H5 & H6 & H7 & (nn & N1 & N2 & N3 & N4) & H9 & H10 & H11 & H12 & H13 & H14 & H15 & H16 & _).
  assert (Hnl : bp <> PList) by (intros ->; destruct (H15 eq_refl) as [C _]; discriminate).
  unfold RG. csplit; auto.
  - eapply Chain_single; eassumption.
  - intros e [<-|[]]. cbn [fst]. lia.
  - intros n1 p1 E. cbn in E. injection E as <- <-. exact H9.
  - split.
    + intros n E. cbn in E. injection E as <- ->. apply H11. reflexivity.
    + intros Hn. apply H12. intros ->. apply (Hn node). reflexivity.
Qed.

Lemma lst_cons_some {A} (e : A) l x : l <> [] -> lst (e :: l) = Some x -> lst l = Some x.
Proof. intros Hl. rewrite lst_cons. destruct l; [contradiction|auto]. Qed.

Lemma RG_cons parent pn s bp node s1 s' new' : PF parent pn s bp node true s1 ->
  RG node None s1 s' new' -> (bp = PList -> exists it, nth_error new' 0%nat = Some (it, PListItem)) ->
  RG parent (last_para (s_c s)) s s' ((node, bp) :: new').
Proof.
  intros (H2 & H3 & H4 & H5 & H6 & H7 & (nn & N1 & N2 & N3 & N4) & (pn1 & P1 & P2) & H10 & H11 & H12 & H13 & H14 & H15 & H16 & _)
         (R1 & R2 & R3 & R4 & R5 & R6 & R7a & R7b) Hl.
  destruct (H4 eq_refl) as [SL Hc].
  pose proof H7 as [L7 _]. pose proof R5 as [L5 A5].
  assert (Hnf : bp <> PFenced) by (intros ->; discriminate).
  (* the pushed node at the end *)
  destruct (A5 node nn N1) as (nn' & E' & K' & A' & _ & _).
  destruct (A' ltac:(discriminate)) as [_ Pnn'].
  assert (Hpn : (parent < node)%nat).
  { rewrite <- Pnn' in N3. exact (hi_par _ _ _ (si_h _ _ _ R1) node nn' parent E' N3). }
  unfold RG. csplit; auto.
  - eapply r_le_trans; eassumption.
  - apply (Chain_cons _ parent node bp nn' new'); auto.
    + congruence.
    + intros K. destruct (Hl K) as [it Hit]. exists it. split; [exact Hit|].
      destruct (R6 it PListItem Hit) as (pn'' & E'' & L''). rewrite E' in E''. injection E'' as <-. exact L''.
  - intros e [<-|He]; [cbn [fst]; lia|]. specialize (R4 e He). lia.
  - eapply AF_trans2; [|exact H7|exact R5]. lia.
  - intros n1 p1 E. cbn in E. injection E as <- <-.
    destruct (A5 parent pn1 P1) as (pn2 & E2 & _ & _ & _ & C2). rewrite (C2 eq_refl ltac:(lia)) in E2.
    exists pn1. split; [exact E2|exact P2].
  - split.
    + intros n E. destruct new' as [|e' new'']; [cbn in E; congruence|].
      apply R7a. eapply lst_cons_some; [discriminate|exact E].
    + intros Hn. rewrite R7b; [apply H12, Hnf|]. intros n E. apply (Hn n). rewrite lst_cons.
      destruct new' as [|e' new'']; [discriminate|exact E].
Qed.

(* ---------------------------------------------------------------------------------------- *)
(* one round of open_blocks_loopH                                                             *)
Definition wof (s : st) : Z := fst (indent_width (sview s) (soff s)).

Lemma isb_nl_view s r : SI s -> sview s = 10%N :: r -> isb (sview s) = true.
Proof.
  intros HS E. destruct r as [|c r'].
  - rewrite E. cbn [Reader.is_blank]. rewrite tbl. reflexivity.
  - exfalso. apply (view_no_nl (s_r s) 0 (si_r _ _ _ HS)).
    + change (r_view (s_r s)) with (sview s). rewrite E. rewrite !zlen_cons. pose proof (zlen_nonneg r'). lia.
    + change (r_view (s_r s)) with (sview s). rewrite E. reflexivity.
Qed.

Lemma round_ok f parent pn blank cont res x : let s := hx_s x in
  SI s -> nth_error (s_h s) parent = Some pn -> lastatt s -> LastParaLC s -> (bk pn = BList -> LP space_table s parent) ->
  (exists x', OBL (S f) parent blank cont res x = Ok (res, cont, x') /\ SI (hx_s x') /\ dcl s (hx_s x') /\ bk pn <> BList /\
     (cont && (res =? noBlocksOpened) = true \/ ~ sin s \/ isb (sview s) = true \/ (3 <? wof s) = true))
  \/
  (sin s /\ exists t, OBL (S f) parent blank cont res x =
        match t with
        | TRetryH parent' cont' res' x' => OBL f parent' blank cont' res' x'
        | TDoneH res' x' => Ok (res', cont, x')
        end /\ (OPop parent pn res (wof s) s t \/ OPush parent pn cont res s t)).
Proof using All.
  intros s HS Hp Hatt Hllc HLP.
  destruct (round_head f parent blank cont res x HS) as (s3 & S3 & D3 & K3 & [[Hskip E]|(Hin & Hnl & HB & w & pos & Eiw & E)]);
    fold s in D3, K3, E.
  - left. exists (sth_s x s3). cbn [sth_s hx_s]. csplit; auto.
    + intros K. destruct (HLP K) as (Hin & Hpli & _). destruct Hskip as [Hs|[r Hr]]; [contradiction|].
      fold s in Hr. rewrite Hr in Hpli. exact (pli_first_not_nl space_table norm src tbl _ _ Hpli eq_refl).
    + destruct Hskip as [Hs|[r Hr]]; [right; left; exact Hs|right; right; left; eapply isb_nl_view; eassumption].
  - fold s in Hin, Hnl, Eiw.
    assert (Ew : wof s = w) by (unfold wof; rewrite Eiw; reflexivity).
    destruct (try_parsers_ok hc space_table punct_table norm re_t1o re_t1c re_t2 re_t3 re_t4 re_t5 re_t6 re_t7 allowed_tags
                utf8len_table spaces src tbl attr_total parent pn blank cont res w s (cands (sview s) pos) (sth_s x s3) D3) as (t & Et & O).
    { cbn [sth_s hx_s]. unfold HeadingOptsWfTotOpenA.TI. csplit; auto.
      - apply (dcl_sin _ _ D3), Hin.
      - destruct D3 as (Eh & _). rewrite Eh. exact Hp.
      - apply (dcl_lastatt _ _ D3 Hatt).
      - intros K. destruct (HLP K) as (_ & Hpli & Hth & Hll). unfold HeadingOptsWfTotOpenA.LB.
        rewrite (dcl_view _ _ D3), (dcl_off _ _ D3).
        destruct (cands_list space_table norm src tbl _ _ _ _ Hpli Eiw) as [W L]. csplit; auto.
        assert (Hll3 : lastlist s3 \/ c_skip_list (s_c s3) = true).
        { destruct Hll as [Hll|Hll]; [left; apply (dcl_lastlist _ _ D3); exact Hll|right; rewrite K3; exact Hll]. }
        destruct (cands (sview s) pos) as [|[] ?]; auto.
      - intros HinL. rewrite (dcl_view _ _ D3), (dcl_off _ _ D3).
        destruct (cands_th space_table norm src tbl _ _ _ _ Eiw HinL) as [T|T]; auto.
      - apply (dcl_LastParaLC _ _ D3 Hllc). }
    rewrite Et in E. cbn [bind] in E.
    destruct O as [O|O].
    + left. destruct O as (x' & -> & S' & D' & Knl & Hpar). exists x'. csplit; auto.
      specialize (Hpar (cands_paragraph _ _)). rewrite Ew. destruct Hpar as [H|[H|H]]; auto.
    + right. split; [exact Hin|]. exists t. rewrite Ew. split; [exact E|exact O].
Qed.

(* ---------------------------------------------------------------------------------------- *)
(* the rounds behind the first one: the last opened block is not a paragraph                  *)
Definition NPre (parent : nat) (pn : bnode) (cont : bool) (res : Z) (s : st) : Prop :=
  SI s /\ nth_error (s_h s) parent = Some pn /\ lastatt s /\ (bk pn = BList -> LP space_table s parent) /\
  last_para (s_c s) = None /\
  (res = newBlocksOpened \/ (cont = false /\ sin s /\ isb (sview s) = false /\ (3 <? wof s) = false)).

(* the new facts about the last new block (n, p) with node nn in the final heap *)
Definition LNF (h' : heap) (n : nat) (p : bparser) (nn : bnode) : Prop :=
  (p = PATX -> Forall olineE (blines nn)) /\
  (p = PParagraph -> exists q qn, bpar nn = Some q /\ nth_error h' q = Some qn /\ last_id (bch qn) = Some n).

Definition NPost (parent : nat) (pn : bnode) (res : Z) (s s' : st) (new : list (nat * bparser)) : Prop :=
  RG parent None s s' new /\ ops s' = ops s ++ new /\ c_tmp_para (s_c s') = c_tmp_para (s_c s) /\
  (forall e, In e new -> snd e <> PSetext) /\
  (bk pn = BList -> exists it, nth_error new 0%nat = Some (it, PListItem)) /\
  (res <> newBlocksOpened -> new <> []) /\
  (forall n p nn, lst new = Some (n, p) -> nth_error (s_h s') n = Some nn -> LNF (s_h s') n p nn).

Definition pot (pn : bnode) (s : st) : Z :=
  2 * (s_stop (r_pos (s_r s)) - s_start (r_pos (s_r s))) + (if bkind_eqb (bk pn) BList then 1 else 2).

Lemma NPre_LastParaLC parent pn cont res s : NPre parent pn cont res s -> LastParaLC s.
Proof. intros (_ & _ & _ & _ & H & _). apply last_para_none_LastParaLC, H. Qed.

(* the new facts about a pushed leaf *)
Lemma PF_LNF parent pn s bp node s1 nn : PF parent pn s bp node false s1 -> nth_error (s_h s1) node = Some nn ->
  LNF (s_h s1) node bp nn.
Proof.
  intros (_ & _ & _ & _ & _ & _ & (nn0 & N1 & N2 & N3 & N4) & (pn' & P1 & P2) & _ & _ & _ & _ & _ & _ & _ & Hatx & _) Enn.
  split.
  - intros K. exact (Hatx K nn Enn).
  - intros _. rewrite N1 in Enn. injection Enn as <-. exists parent, pn'. auto.
Qed.

Lemma container_LNF h' n p nn : is_container p = true -> LNF h' n p nn.
Proof. intros Hc. split; intros ->; discriminate Hc. Qed.

Lemma np_loop blank : forall fuel parent pn cont res x, NPre parent pn cont res (hx_s x) ->
  (Z.to_nat (pot pn (hx_s x)) <= fuel)%nat ->
  exists cont' x' new, OBL fuel parent blank cont res x = Ok (newBlocksOpened, cont', x') /\
                       NPost parent pn res (hx_s x) (hx_s x') new.
Proof using All.
  induction fuel as [|f IH]; intros parent pn cont res x Hpre Hfuel; pose proof (NPre_LastParaLC _ _ _ _ _ Hpre) as Hllc;
    destruct Hpre as (HS & Hp & Hatt & HLP & Hnp & Hmode); set (s := hx_s x) in *.
  { exfalso. pose proof (ri_bounds _ (si_r _ _ _ HS)) as Hb. unfold pot in Hfuel. destruct (bkind_eqb (bk pn) BList); lia. }
  destruct (round_ok f parent pn blank cont res x HS Hp Hatt Hllc HLP) as [(x' & E & S' & D & Knl & Hwhy)|(Hin & t & E & O)];
    try fold s in D; try fold s in Hwhy; try fold s in Hin; try fold s in O.
  - (* nothing more is opened *)
    destruct Hmode as [->|(Hc & Hin & Hb & Hw)].
    2:{ exfalso. subst cont. destruct Hwhy as [H|[H|[H|H]]]; [discriminate|contradiction|congruence|congruence]. }
    exists cont, x', []. split; [exact E|]. unfold NPost. csplit.
    + apply RG_nil; assumption.
    + rewrite (dcl_ops _ _ D), app_nil_r. reflexivity.
    + destruct D as (_ & _ & _ & _ & _ & Dt). exact Dt.
    + intros e [].
    + intros K. contradiction.
    + intros C. congruence.
    + intros n p nn C. discriminate.
  - rewrite E. destruct O as [O|O].
    + exfalso. destruct O as (x' & base & px & _ & _ & _ & Eo & _).
      pose proof (last_opened_app _ _ _ (ci_len _ _ (si_c _ _ _ HS)) Eo) as El.
      unfold last_para in Hnp. rewrite El in Hnp. discriminate.
    + destruct O as (bp & node & kids & x1 & -> & PFx & _). set (s1 := hx_s x1) in *.
      pose proof PFx as (S1 & Lr & Hk & Hnode & Hops & HAF & (nn & N1 & N2 & N3 & N4) & Hpl & Hlist & Hf1 & Hf2 & Hset & Htmp & HPL & Hadv & _).
      assert (Hns : bp <> PSetext).
      { intros ->. destruct (Hset eq_refl) as (_ & _ & px & El). unfold last_para in Hnp. rewrite El in Hnp. discriminate. }
      assert (Hops1 : ops s1 = ops s ++ [(node, bp)]) by (destruct Hops as [H|[H _]]; [exact H|contradiction]).
      destruct kids.
      * (* a container: the loop goes on below it *)
        destruct (Hk eq_refl) as [SL Hc].
        assert (El1 : last_opened (s_c s1) = Some (node, bp)).
        { apply (last_opened_app _ (ops s)); [apply (ci_len _ _ (si_c _ _ _ S1))|exact Hops1]. }
        destruct (IH node nn cont newBlocksOpened x1) as (cont' & x' & new' & E' & (R & Ho' & Ht' & Hns' & Hl' & _ & Hln')).
        { fold s1. unfold NPre. csplit; auto.
          - intros l lp n El En. rewrite El1 in El. injection El as <- <-. rewrite N1 in En. injection En as <-. congruence.
          - intros K. assert (Ebp : bp = PList) by (rewrite N2 in K; destruct bp; cbn in K; congruence).
            destruct (HPL Ebp) as (_ & Q1 & Q2 & Q3 & _ & _). unfold LP. csplit; auto. left. exists node, bp, nn. auto.
          - unfold last_para. rewrite El1. destruct bp; try reflexivity. discriminate Hc. }
        { fold s1. unfold pot in *. destruct SL as (_ & Q2 & Q3 & _). pose proof (ri_bounds _ (si_r _ _ _ S1)) as Hb1.
          assert (Hdec : bp = PList \/ bp <> PList) by (destruct bp; (left; reflexivity) || (right; discriminate)).
          destruct Hdec as [Ebp|Hnl].
          - destruct (bkind_eqb_spec (bk pn) BList) as [K|_].
            + exfalso. specialize (Hlist K). congruence.
            + rewrite N2, Ebp. change (bkind_eqb (kind_of_parser PList) BList) with true. lia.
          - specialize (Hadv eq_refl Hnl). destruct (bkind_eqb (bk nn) BList); destruct (bkind_eqb (bk pn) BList); lia. }
        fold s1 in R, Ho', Ht', Hln'.
        exists cont', x', ((node, bp) :: new'). split; [exact E'|]. unfold NPost. csplit.
        -- rewrite <- Hnp. eapply RG_cons; [exact PFx|exact R|]. intros ->. apply Hl'. rewrite N2. reflexivity.
        -- rewrite Ho', Hops1, <- app_assoc. reflexivity.
        -- rewrite Ht'. apply Htmp, Hns.
        -- intros e [<-|He]; [exact Hns|apply Hns', He].
        -- intros K. exists node. rewrite (Hlist K). reflexivity.
        -- discriminate.
        -- intros n p nn' El Enn. rewrite lst_cons in El. destruct new' as [|e' new''].
           ++ injection El as <- <-. apply container_LNF, Hc.
           ++ apply Hln'; assumption.
      * (* a leaf *)
        exists cont, x1, [(node, bp)]. split; [reflexivity|]. fold s1. unfold NPost. csplit.
        -- rewrite <- Hnp. eapply RG_single; exact PFx.
        -- exact Hops1.
        -- apply Htmp, Hns.
        -- intros e [<-|[]]. exact Hns.
        -- intros K. exists node. rewrite (Hlist K). reflexivity.
        -- discriminate.
        -- intros n p nn' El Enn. cbn in El. injection El as <- <-. eapply PF_LNF; eassumption.
Qed.

(* ---------------------------------------------------------------------------------------- *)
(* the paragraph continuation at the end of open_blocksH                                       *)
Lemma hsame_struct_pc h h' : hsame_struct h h' -> hsame_pc h h'.
Proof.
  intros [L H]. split; [exact L|]. intros j n Hn. destruct (H j n Hn) as [n' (A & B & C & D & _)]. exists n'. auto.
Qed.

Lemma paragraph_continue_frame s node s' c : SI s ->
  paragraph_continue space_table s node = Ok (s', c) ->
  forall j, j <> node -> nth_error (s_h s') j = nth_error (s_h s) j.
Proof.
  intros HS. unfold paragraph_continue.
  destruct (peek_line_s_ok _ _ s HS) as [s1 (E1 & S1 & C1 & _)]. rewrite E1. cbn [bind].
  destruct C1 as (Eh & _).
  destruct (isb _).
  - intros H. injection H as <- _. rewrite Eh. reflexivity.
  - destruct (hupd (s_h s1) node _) as [h| |] eqn:Eu; cbn [bind]; try discriminate.
    unfold advance_s. cbn [st_h s_r]. destruct (r_advance _ _) as [r'| |]; cbn [bind]; try discriminate.
    intros H. injection H as <- _. cbn [st_r st_h s_h]. intros j Hj.
    unfold hupd in Eu. destruct (hget (s_h s1) node) as [n0| |]; cbn [bind] in Eu; try discriminate. injection Eu as <-.
    rewrite hset_other by auto. rewrite Eh. reflexivity.
Qed.

Lemma para_continue_ob s node n : SI s -> nth_error (s_h s) node = Some n -> bk n = BParagraph ->
  Forall (fun sg => s_stop sg <= s_start (r_pos (s_r s))) (blines n) ->
  exists s' c, paragraph_continue space_table s node = Ok (s', c) /\ cont_post space_table src PParagraph node s s' c false /\
    forall j, j <> node -> nth_error (s_h s') j = nth_error (s_h s) j.
Proof using All.
  intros HS Hn Hk Hb. destruct (r_in_range (s_r s)) eqn:Hin.
  - destruct (paragraph_continue_ok space_table punct_table norm re_t1o re_t1c re_t2 re_t3 re_t4 re_t5 re_t6 re_t7 allowed_tags
                src tbl s node n HS Hin Hn Hk Hb) as (s' & c & E & CP).
    exists s', c. csplit; auto. eapply paragraph_continue_frame; eassumption.
  - pose proof (paragraph_continue_frame s node) as Fr. revert Fr. unfold paragraph_continue.
    destruct (peek_line_s_ok _ _ s HS) as [s1 (E1 & S1 & C1 & _)]. rewrite E1. cbn [bind]. rewrite Hin. cbn [line_of Reader.is_blank].
    intros Fr. exists s1, false. csplit; auto.
    + apply cont_post_scache; auto.
    + apply (Fr s1 false HS eq_refl).
Qed.

(* ---------------------------------------------------------------------------------------- *)
(* open_blocksH                                                                               *)
Lemma fence_keep s s' new : fence_ok s s' new -> c_fence (s_c s) <> None -> c_fence (s_c s') <> None.
Proof.
  intros [F1 F2] Hn. destruct (lst new) as [[n p]|] eqn:El.
  - assert (Hd : p = PFenced \/ p <> PFenced) by (destruct p; (left; reflexivity) || (right; discriminate)).
    destruct Hd as [->|Hd].
    + destruct (F1 n eq_refl) as (ch & ind & fl & E). rewrite E. discriminate.
    + rewrite F2; [exact Hn|]. intros n' C. injection C as _ C. contradiction.
  - rewrite F2; [exact Hn|]. intros n' C. discriminate.
Qed.

(* the open paragraph stays the last child of its parent when kinds, children and parents stay *)
Lemma LastParaLC_hsame s s' : hsame_pc (s_h s) (s_h s') -> last_opened (s_c s') = last_opened (s_c s) ->
  LastParaLC s -> LastParaLC s'.
Proof.
  intros [L H] El HL l n' El' En'. rewrite El in El'.
  destruct (nth_error_ex_lt (s_h s) l) as [n En]; [rewrite <- L; eapply nth_error_lt, En'|].
  destruct (HL l n El' En) as (q & qn & Q1 & Q2 & Q3).
  destruct (H l n En) as (n2 & En2 & _ & _ & P2). rewrite En' in En2. injection En2 as <-.
  destruct (H q qn Q2) as (qn' & Eqn' & _ & C2 & _). exists q, qn'. rewrite P2, C2. auto.
Qed.

Definition OBPost (parent : nat) (pn : bnode) (s : st) (res : Z) (s' : st) : Prop :=
    SI s' /\ r_le (s_r s) (s_r s') /\
    (c_fence (s_c s) <> None -> c_fence (s_c s') <> None) /\
    (c_tmp_para (s_c s) <> None -> c_tmp_para (s_c s') <> None) /\
    (forall t, c_tmp_para (s_c s') = Some t -> (t < length (s_h s))%nat) /\
    (((res = paragraphContinuation \/ res = noBlocksOpened) /\ ops s' = ops s /\
      c_fence (s_c s') = c_fence (s_c s) /\ c_tmp_para (s_c s') = c_tmp_para (s_c s) /\
      hsame_pc (s_h s) (s_h s') /\
      (forall j n n', Some j <> last_para (s_c s) -> nth_error (s_h s) j = Some n -> nth_error (s_h s') j = Some n' ->
                      blines n' = blines n) /\
      bk pn <> BList /\
      LastParaLC s')
     \/
     (res = newBlocksOpened /\ exists base' new, ops s' = base' ++ new /\ new <> [] /\
      (base' = ops s \/ exists x, ops s = base' ++ [(x, PParagraph)]) /\
      OFrame (s_h s) (s_h s') parent (last_para (s_c s)) /\
      Chain (s_h s') parent new /\ (forall e, In e new -> (length (s_h s) <= fst e)%nat) /\
      (bk pn = BList -> exists it pn', nth_error new 0%nat = Some (it, PListItem) /\
                                       nth_error (s_h s') parent = Some pn' /\ last_id (bch pn') = Some it) /\
      (forall n p nn, nth_error new (pred (length new)) = Some (n, p) -> nth_error (s_h s') n = Some nn ->
         (p = PFenced -> exists ch ind fl, c_fence (s_c s') = Some (ch, ind, fl, n)) /\
         (p <> PFenced -> c_fence (s_c s') = c_fence (s_c s)) /\
         (p = PSetext -> c_tmp_para (s_c s') <> None /\ blines nn <> [] /\
                         exists x, last_opened (s_c s) = Some (x, PParagraph)) /\
         (p <> PSetext -> c_tmp_para (s_c s') = c_tmp_para (s_c s) \/
                          exists x, last_opened (s_c s) = Some (x, PParagraph)) /\
         (p = PATX -> Forall olineE (blines nn)) /\
         (p = PSetext -> exists t tn, last_opened (s_c s) = Some (t, PParagraph) /\ c_tmp_para (s_c s') = Some t /\
                                      nth_error (s_h s') t = Some tn /\ Forall pad0 (blines tn) /\
                                      ops s = base' ++ [(t, PParagraph)]) /\
         (p = PParagraph -> exists q qn, bpar nn = Some q /\ nth_error (s_h s') q = Some qn /\ last_id (bch qn) = Some n)) /\
      (forall n, new = [(n, PParagraph)] -> base' = ops s -> last_para (s_c s) = None))).

Lemma ob_finish parent pn s s' base' new :
  SI s -> RG parent (last_para (s_c s)) s s' new -> new <> [] -> ops s' = base' ++ new ->
  (base' = ops s \/ exists x, ops s = base' ++ [(x, PParagraph)]) ->
  (bk pn = BList -> exists it, nth_error new 0%nat = Some (it, PListItem)) ->
  (forall n, lst new = Some (n, PSetext) ->
     c_tmp_para (s_c s') <> None /\ (forall nn, nth_error (s_h s') n = Some nn -> blines nn <> []) /\
     exists x, last_opened (s_c s) = Some (x, PParagraph)) ->
  ((forall n, lst new <> Some (n, PSetext)) ->
     c_tmp_para (s_c s') = c_tmp_para (s_c s) \/
     (c_tmp_para (s_c s') <> None /\ exists x, last_opened (s_c s) = Some (x, PParagraph))) ->
  (forall t, c_tmp_para (s_c s') = Some t -> (t < length (s_h s))%nat) ->
  (forall n, lst new = Some (n, PSetext) ->
     exists t tn, last_opened (s_c s) = Some (t, PParagraph) /\ c_tmp_para (s_c s') = Some t /\
                  nth_error (s_h s') t = Some tn /\ Forall pad0 (blines tn) /\ ops s = base' ++ [(t, PParagraph)]) ->
  (forall n p nn, lst new = Some (n, p) -> nth_error (s_h s') n = Some nn -> LNF (s_h s') n p nn) ->
  (forall n, new = [(n, PParagraph)] -> base' = ops s -> last_para (s_c s) = None) ->
  OBPost parent pn s newBlocksOpened s'.
Proof.
  intros HS (R1 & R2 & R3 & R4 & R5 & R6 & RF) Hne Ho Hbase Hl Hset Hnset Htl Hsetx Hln Hnint.
  assert (Hd : (exists n, lst new = Some (n, PSetext)) \/ (forall n, lst new <> Some (n, PSetext))).
  { destruct (lst new) as [[n p]|]; [|right; intros n C; discriminate].
    assert (Hd : p = PSetext \/ p <> PSetext) by (destruct p; (left; reflexivity) || (right; discriminate)).
    destruct Hd as [->|Hd]; [left; eauto|right; intros n' C; injection C as _ C; contradiction]. }
  unfold OBPost. csplit; auto.
  - apply (fence_keep _ _ _ RF).
  - intros Hn. destruct Hd as [[n Hd]|Hd].
    + apply (Hset n Hd).
    + destruct (Hnset Hd) as [E|[E _]]; [rewrite E; exact Hn|exact E].
  - right. split; [reflexivity|]. exists base', new. csplit; auto.
    + apply AF_OFrame, R5.
    + intros K. destruct (Hl K) as [it Hit]. destruct (R6 it PListItem Hit) as (pn' & E1 & E2). exists it, pn'. auto.
    + intros n p nn Hn Hnn. change (lst new = Some (n, p)) in Hn. destruct RF as [F1 F2].
      destruct (Hln n p nn Hn Hnn) as [LA LP]. csplit.
      * intros ->. apply F1, Hn.
      * intros Hp. apply F2. intros n' C. rewrite Hn in C. injection C as _ C. contradiction.
      * intros ->. destruct (Hset n Hn) as (A & B & C). csplit; auto.
      * intros Hp. destruct (Hnset ltac:(intros n' C; rewrite Hn in C; injection C as _ C; contradiction)) as [E|[_ E]]; auto.
      * exact LA.
      * intros ->. apply (Hsetx n Hn).
      * exact LP.
Qed.

(* the state behind a pushed container *)
Lemma push_kids_pre parent pn cont s bp node s1 : SI s -> PF parent pn s bp node true s1 ->
  exists nn, nth_error (s_h s1) node = Some nn /\ bk nn = kind_of_parser bp /\ bp <> PSetext /\
    ops s1 = ops s ++ [(node, bp)] /\ NPre node nn cont newBlocksOpened s1 /\ pot nn s1 + 1 <= pot pn s.
Proof.
  intros HS PFx.
  pose proof PFx as (S1 & Lr & Hk & Hnode & Hops & HAF & (nn & N1 & N2 & N3 & N4) & Hpl & Hlist & Hf1 & Hf2 & Hset & Htmp & HPL & Hadv & _).
  destruct (Hk eq_refl) as [SL Hc].
  assert (Hns : bp <> PSetext) by (intros ->; discriminate).
  assert (Hops1 : ops s1 = ops s ++ [(node, bp)]) by (destruct Hops as [H|[H _]]; [exact H|contradiction]).
  assert (El1 : last_opened (s_c s1) = Some (node, bp)).
  { apply (last_opened_app _ (ops s)); [apply (ci_len _ _ (si_c _ _ _ S1))|exact Hops1]. }
  exists nn. csplit; auto.
  - unfold NPre. csplit; auto.
    + intros l lp n El En. rewrite El1 in El. injection El as <- <-. rewrite N1 in En. injection En as <-. congruence.
    + intros K. assert (Ebp : bp = PList) by (rewrite N2 in K; destruct bp; cbn in K; congruence).
      destruct (HPL Ebp) as (_ & Q1 & Q2 & Q3 & _ & _). unfold LP. csplit; auto. left. exists node, bp, nn. auto.
    + unfold last_para. rewrite El1. destruct bp; try reflexivity. discriminate Hc.
  - unfold pot in *. destruct SL as (_ & Q2 & Q3 & _). pose proof (ri_bounds _ (si_r _ _ _ S1)) as Hb1.
    assert (Hdec : bp = PList \/ bp <> PList) by (destruct bp; (left; reflexivity) || (right; discriminate)).
    destruct Hdec as [Ebp|Hnl].
    + destruct (bkind_eqb_spec (bk pn) BList) as [K|_].
      * exfalso. specialize (Hlist K). congruence.
      * rewrite N2, Ebp. change (bkind_eqb (kind_of_parser PList) BList) with true. lia.
    + specialize (Hadv eq_refl Hnl). destruct (bkind_eqb (bk nn) BList); destruct (bkind_eqb (bk pn) BList); lia.
Qed.

Lemma open_blocks_post fuel parent pn blank x : let s := hx_s x in
  SI s -> nth_error (s_h s) parent = Some pn ->
  (bk pn = BList -> LP space_table s parent) ->
  (forall e n, In e (ops s) -> nth_error (s_h s) (fst e) = Some n -> bpar n <> None) ->
  (forall k e, nth_error (ops s) k = Some e -> (S k < length (ops s))%nat -> is_container (snd e) = true) ->
  Below (s_h s) (s_r s) ->
  LastParaLC s ->
  (Z.to_nat (2 * (s_stop (r_pos (s_r s)) - s_start (r_pos (s_r s))) + 8) <= fuel)%nat ->
  exists res x', OBH fuel parent blank x = Ok (res, x') /\ OBPost parent pn s res (hx_s x').
Proof using All.
  intros s HS Hp HLP Hattd Hcont HB Hllc Hfuel.
  pose proof (ri_bounds _ (si_r _ _ _ HS)) as Hbd.
  assert (Hatt : lastatt s).
  { intros l lp n El En. destruct (last_opened_inv _ _ (ci_len _ _ (si_c _ _ _ HS)) El) as [b Eb].
    apply (Hattd (l, lp) n); [unfold ops; rewrite Eb; apply in_or_app; right; left; reflexivity|exact En]. }
  assert (Hc0 : exists cont,
            match last_opened (s_c s) with None => Ok false | Some (l, _) => is_paragraph (s_h s) l end = Ok cont /\
            (cont = true -> exists l ln, last_opened (s_c s) = Some (l, PParagraph) /\ nth_error (s_h s) l = Some ln /\
                                         bk ln = BParagraph) /\
            (cont = false -> last_para (s_c s) = None)).
  { destruct (last_opened (s_c s)) as [[l lp]|] eqn:El.
    - destruct (is_paragraph_ok space_table src s l lp HS El) as (n & En & Kn & Ei).
      exists (bkind_eqb (bk n) BParagraph). split; [exact Ei|].
      destruct (bkind_eqb_spec (bk n) BParagraph) as [K|K].
      + split; [|discriminate]. intros _. rewrite K in Kn. symmetry in Kn. apply kind_para_parser in Kn. subst lp. eauto.
      + split; [discriminate|]. intros _. unfold last_para. rewrite El. destruct lp; try reflexivity. cbn in Kn. congruence.
    - exists false. split; [reflexivity|]. split; [discriminate|]. intros _. unfold last_para. rewrite El. reflexivity. }
  destruct Hc0 as (cont & Ec & Hct & Hcf).
  unfold open_blocksH. fold s. rewrite Ec. cbn [bind].
  destruct fuel as [|f]; [lia|].
  assert (Htl : forall t, c_tmp_para (s_c s) = Some t -> (t < length (s_h s))%nat).
  { intros t Ht. destruct (ci_tmp _ _ (si_c _ _ _ HS) t Ht) as (n & En & _). eapply nth_error_lt, En. }
  destruct (round_ok f parent pn blank cont noBlocksOpened x HS Hp Hatt Hllc HLP) as [(x1 & E & S1 & D & Knl & _)|(Hin & t & E & O)];
    try fold s in D; try fold s in Hin; try fold s in O.
  - (* no block is opened *)
    rewrite E. cbn [bind]. cbv beta iota. change (noBlocksOpened =? noBlocksOpened) with true. cbn [andb].
    set (s1 := hx_s x1) in *.
    pose proof D as (Dh & Dp & Da & Dl & Df & Dt).
    destruct cont.
    + destruct (Hct eq_refl) as (l & ln & El & En & Kl). rewrite (dcl_last _ _ D), El. cbn [p_continue].
      destruct (para_continue_ob s1 l ln S1) as (s2 & c & E2 & CP & Fr).
      { rewrite Dh. exact En. }
      { exact Kl. }
      { rewrite (dcl_pos _ _ D). exact (HB l ln En Kl). }
      rewrite E2. cbn [bind fst snd]. cbv beta iota.
      exists (if c then paragraphContinuation else noBlocksOpened), (sth_s x1 s2). split; [reflexivity|]. cbn [sth_s hx_s].
      destruct CP as (S2 & R2 & Cf2 & Ff2 & Ft2 & _ & _ & Hs & Hpc).
      assert (Hpc2 : hsame_pc (s_h s) (s_h s2)).
      { rewrite <- Dh. destruct c; [apply Hpc; reflexivity|]. destruct (Hs eq_refl eq_refl) as [Hst _].
        apply hsame_struct_pc, Hst. }
      unfold OBPost. csplit.
      * exact S2.
      * eapply r_le_trans; [apply same_pos_le, Dp|exact R2].
      * rewrite Ff2, Df. auto.
      * rewrite Ft2, Dt. auto.
      * intros t. rewrite Ft2, Dt. apply Htl.
      * left. csplit.
        -- destruct c; auto.
        -- unfold ops, opened. destruct Cf2 as (A & B & _). rewrite A, B, Da, Dl. reflexivity.
        -- rewrite Ff2. exact Df.
        -- rewrite Ft2. exact Dt.
        -- exact Hpc2.
        -- intros j n n' Hj Hn Hn'. unfold last_para in Hj. rewrite El in Hj. assert (Hjl : j <> l) by congruence.
           rewrite (Fr j Hjl), Dh, Hn in Hn'. injection Hn' as <-. reflexivity.
        -- exact Knl.
        -- apply (LastParaLC_hsame s s2 Hpc2); [|exact Hllc].
           unfold last_opened. destruct Cf2 as (A & B & _). rewrite A, B, Da, Dl. reflexivity.
    + exists noBlocksOpened, x1. split; [reflexivity|]. fold s1. unfold OBPost. csplit.
      * exact S1.
      * apply same_pos_le, Dp.
      * rewrite Df. auto.
      * rewrite Dt. auto.
      * intros t. rewrite Dt. apply Htl.
      * left. csplit; auto.
        -- apply (dcl_ops _ _ D).
        -- rewrite Dh. split; [reflexivity|]. intros j n Hn. exists n. auto.
        -- intros j n n' _ Hn Hn'. rewrite Dh, Hn in Hn'. injection Hn' as <-. reflexivity.
        -- apply (dcl_LastParaLC _ _ D Hllc).
  - rewrite E. destruct O as [O|O].
    + (* the paragraph in front of a setext bar vanished: the loop goes on without it *)
      destruct O as (x1 & base & y & -> & S1 & Sp & Eo & Eo1 & HAF & Hf & Htn & Htl1 & Hw & Hb & Knl). set (s1 := hx_s x1) in *.
      pose proof (last_opened_app _ _ _ (ci_len _ _ (si_c _ _ _ HS)) Eo) as Elx.
      assert (Elp : last_para (s_c s) = Some y) by (unfold last_para; rewrite Elx; reflexivity).
      pose proof HAF as [LA HA]. destruct (HA parent pn Hp) as (pn1 & Ep1 & Kp1 & _).
      destruct (is_paragraph_ok space_table src s y PParagraph HS Elx) as (nx & Enx & Knx & _). cbn [kind_of_parser] in Knx.
      assert (Hl1 : forall l lp, last_opened (s_c s1) = Some (l, lp) ->
                is_container lp = true /\ exists n0, nth_error (s_h s) l = Some n0 /\ bpar n0 <> None /\ l <> y).
      { intros l lp El. destruct (last_opened_inv _ _ (ci_len _ _ (si_c _ _ _ S1)) El) as [b Eb].
        fold (ops s1) in Eb. rewrite Eo1 in Eb.
        assert (Hnth : nth_error (ops s) (length b) = Some (l, lp)).
        { rewrite Eo, Eb, <- app_assoc. rewrite nth_error_app2 by lia. rewrite Nat.sub_diag. reflexivity. }
        assert (Hc : is_container lp = true).
        { apply (Hcont (length b) (l, lp) Hnth). rewrite Eo, Eb, !app_length. cbn [length]. lia. }
        split; [exact Hc|].
        pose proof (nth_error_In _ _ Hnth) as Hin'.
        destruct (ci_arr _ _ (si_c _ _ _ HS) _ (opened_in _ _ Hin')) as (n0 & En0 & Kn0). cbn [fst snd] in En0, Kn0.
        exists n0. csplit; auto.
        - apply (Hattd (l, lp) n0 Hin' En0).
        - intros ->. rewrite Enx in En0. injection En0 as <-. rewrite Knx in Kn0. destruct lp; cbn in Kn0, Hc; congruence. }
      assert (Hpos : r_pos (s_r s1) = r_pos (s_r s)) by (destruct Sp as (_ & Q & _); exact Q).
      destruct (np_loop blank f parent pn1 false noBlocksOpened x1) as (cont' & x' & new & E' & (R & Ho' & Ht' & Hns' & _ & Hne & Hln')).
      { fold s1. unfold NPre. csplit; auto.
        - intros l lp n El En. destruct (Hl1 l lp El) as (_ & n0 & En0 & Pn0 & Hlx).
          destruct (HA l n0 En0) as (n' & En' & _ & A' & _). rewrite En in En'. injection En' as <-.
          destruct (A' ltac:(congruence)) as [_ Q]. congruence.
        - intros K. rewrite Kp1 in K. contradiction.
        - unfold last_para. destruct (last_opened (s_c s1)) as [[l lp]|] eqn:El; [|reflexivity].
          destruct (Hl1 l lp eq_refl) as (Hc & _). destruct lp; try reflexivity. discriminate Hc.
        - right. csplit; auto.
          + unfold sin. rewrite (same_pos_in_range _ _ Sp). exact Hin.
          + unfold sview. rewrite (same_pos_view _ _ Sp). exact Hb.
          + unfold wof, sview, soff. rewrite (same_pos_view _ _ Sp), (same_pos_column _ _ Sp). exact Hw. }
      { fold s1. unfold pot. rewrite Hpos. destruct (bkind_eqb (bk pn1) BList); lia. }
      fold s1 in R, Ho', Ht', Hln'. set (s' := hx_s x') in *.
      cbv beta iota. rewrite E'. cbn [bind]. cbv beta iota. change (newBlocksOpened =? noBlocksOpened) with false. cbn [andb].
      exists newBlocksOpened, x'. split; [reflexivity|]. fold s'.
      destruct R as (R1 & R2 & R3 & R4 & R5 & R6 & R7a & R7b).
      assert (Hnset : forall n, lst new <> Some (n, PSetext)).
      { intros n C. apply (Hns' (n, PSetext)); [eapply nth_error_In, C|reflexivity]. }
      apply (ob_finish parent pn s s' base new).
      * exact HS.
      * rewrite Elp. unfold RG. csplit; auto.
        -- eapply r_le_trans; [apply same_pos_le, Sp|exact R2].
        -- intros e He. specialize (R4 e He). lia.
        -- apply (AF_trans _ (s_h s1) _ parent (Some y) None); [left; reflexivity|exact HAF|exact R5].
        -- split; [exact R7a|]. intros Hn. rewrite <- Hf. apply R7b, Hn.
      * apply Hne. discriminate.
      * rewrite Ho', Eo1. reflexivity.
      * right. exists y. exact Eo.
      * intros K. contradiction.
      * intros n C. exfalso. exact (Hnset n C).
      * intros _. right. split; [rewrite Ht'; exact Htn|]. exists y. exact Elx.
      * intros t. rewrite Ht'. apply Htl1.
      * intros n C. exfalso. exact (Hnset n C).
      * exact Hln'.
      * intros n _ Eb. exfalso. rewrite Eb in Eo. apply (f_equal (@length _)) in Eo. rewrite app_length in Eo. cbn [length] in Eo. lia.
    + destruct O as (bp & node & kids & x1 & -> & PFx & Hnint). set (s1 := hx_s x1) in *. destruct kids.
      * (* a container is pushed: the loop goes on below it *)
        destruct (push_kids_pre parent pn cont s bp node s1 HS PFx) as (nn & N1 & N2 & Hns & Hops1 & Hpre & Hpot).
        destruct (np_loop blank f node nn cont newBlocksOpened x1 Hpre) as (cont' & x' & new' & E' & (R & Ho' & Ht' & Hns' & Hl' & _ & Hln')).
        { fold s1. unfold pot in *. destruct (bkind_eqb (bk pn) BList); lia. }
        fold s1 in R, Ho', Ht', Hln'. set (s' := hx_s x') in *.
        cbv beta iota. rewrite E'. cbn [bind]. cbv beta iota. change (newBlocksOpened =? noBlocksOpened) with false. cbn [andb].
        exists newBlocksOpened, x'. split; [reflexivity|]. fold s'.
        pose proof PFx as (_ & _ & Hk & _ & _ & _ & _ & _ & Hlist & _ & _ & _ & Htmp & _).
        destruct (Hk eq_refl) as [_ Hc].
        assert (Hnset : forall n, lst ((node, bp) :: new') <> Some (n, PSetext)).
        { intros n C. apply nth_error_In in C. destruct C as [C|C]; [congruence|]. apply (Hns' _ C). reflexivity. }
        apply (ob_finish parent pn s s' (ops s) ((node, bp) :: new')).
        -- exact HS.
        -- eapply RG_cons; [exact PFx|exact R|]. intros ->. apply Hl'. rewrite N2. reflexivity.
        -- discriminate.
        -- rewrite Ho', Hops1, <- app_assoc. reflexivity.
        -- left. reflexivity.
        -- intros K. exists node. rewrite (Hlist K). reflexivity.
        -- intros n C. exfalso. exact (Hnset n C).
        -- intros _. left. rewrite Ht'. apply Htmp, Hns.
        -- intros t. rewrite Ht', (Htmp Hns). apply Htl.
        -- intros n C. exfalso. exact (Hnset n C).
        -- intros n p nn' El Enn. rewrite lst_cons in El. destruct new' as [|e' new''].
           ++ injection El as <- <-. apply container_LNF, Hc.
           ++ exact (Hln' n p nn' El Enn).
        -- intros n C. injection C as _ -> _. discriminate Hc.
      * (* a leaf is pushed *)
        cbv beta iota. cbn [bind]. cbv beta iota. change (newBlocksOpened =? noBlocksOpened) with false. cbn [andb].
        exists newBlocksOpened, x1. split; [reflexivity|]. fold s1.
        pose proof PFx as (S1 & Lr & Hk & Hnode & Hops & HAF & (nn & N1 & N2 & N3 & N4) & Hpl & Hlist & Hf1 & Hf2 & Hset & Htmp & HPL & Hadv & Hatx & Hpopx).
        assert (Hd : bp = PSetext \/ bp <> PSetext) by (destruct bp; (left; reflexivity) || (right; discriminate)).
        assert (Hbase : exists base', ops s1 = base' ++ [(node, bp)] /\
                          (base' = ops s \/ exists x, ops s = base' ++ [(x, PParagraph)])).
        { destruct Hops as [H|(_ & b & y & H1 & H2)]; [exists (ops s); auto|exists b; eauto]. }
        destruct Hbase as (base' & Hb1 & Hb2).
        apply (ob_finish parent pn s s1 base' [(node, bp)]).
        -- exact HS.
        -- eapply RG_single; exact PFx.
        -- discriminate.
        -- exact Hb1.
        -- exact Hb2.
        -- intros K. exists node. rewrite (Hlist K). reflexivity.
        -- intros n C. cbn in C. injection C as <- ->. destruct (Hset eq_refl) as (A & B & C). csplit; auto.
           intros nn' Hnn'. rewrite N1 in Hnn'. injection Hnn' as <-. apply N4. reflexivity.
        -- intros Hn. left. apply Htmp. intros ->. apply (Hn node). reflexivity.
        -- intros t Ht. destruct Hd as [->|Hd]; [destruct (Hset eq_refl) as (_ & B & _); apply B, Ht|].
           rewrite (Htmp Hd) in Ht. apply Htl, Ht.
        -- intros n C. cbn in C. injection C as <- ->. destruct (Hpopx eq_refl) as (b & y & yn & B1 & B2 & B3 & B4 & B5).
           rewrite B2 in Hb1. apply app_inv_tail in Hb1. subst b.
           exists y, yn. csplit; auto.
           apply (last_opened_app _ _ _ (ci_len _ _ (si_c _ _ _ HS)) B1).
        -- intros n p nn' C Enn. cbn in C. injection C as <- <-. eapply PF_LNF; eassumption.
        -- intros n C _. injection C as _ ->. specialize (Hnint eq_refl).
           change (noBlocksOpened =? noBlocksOpened) with true in Hnint. rewrite andb_true_r in Hnint. exact (Hcf Hnint).
Qed.

(* = core open_blocks_ok_fix over x : sth, with (NEW, at the end of the clause about the last new block) the lines of a
   new ATX heading are olineE; the temporary paragraph of a new Setext heading is the paragraph that was open, it was
   popped and its lines have no padding; (NEW2) hypothesis and conclusion LastParaLC, a new paragraph is the last child
   of its parent, and the paragraph parser does not interrupt a paragraph. *)
Lemma open_blocksH_ok_fix fuel parent pn blank x :
  SI (hx_s x) -> nth_error (s_h (hx_s x)) parent = Some pn ->
  (bk pn = BList -> LP space_table (hx_s x) parent) ->
  (forall e n, In e (ops (hx_s x)) -> nth_error (s_h (hx_s x)) (fst e) = Some n -> bpar n <> None) ->
  (forall k e, nth_error (ops (hx_s x)) k = Some e -> (S k < length (ops (hx_s x)))%nat -> is_container (snd e) = true) ->
  Below (s_h (hx_s x)) (s_r (hx_s x)) ->
  LastParaLC (hx_s x) ->
  (Z.to_nat (2 * (s_stop (r_pos (s_r (hx_s x))) - s_start (r_pos (s_r (hx_s x)))) + 8) <= fuel)%nat ->
  exists res x', OBH fuel parent blank x = Ok (res, x') /\ SI (hx_s x') /\ r_le (s_r (hx_s x)) (s_r (hx_s x')) /\
    (c_fence (s_c (hx_s x)) <> None -> c_fence (s_c (hx_s x')) <> None) /\
    (c_tmp_para (s_c (hx_s x)) <> None -> c_tmp_para (s_c (hx_s x')) <> None) /\
    (forall t, c_tmp_para (s_c (hx_s x')) = Some t -> (t < length (s_h (hx_s x)))%nat) /\
    (((res = paragraphContinuation \/ res = noBlocksOpened) /\ ops (hx_s x') = ops (hx_s x) /\
      c_fence (s_c (hx_s x')) = c_fence (s_c (hx_s x)) /\ c_tmp_para (s_c (hx_s x')) = c_tmp_para (s_c (hx_s x)) /\
      hsame_pc (s_h (hx_s x)) (s_h (hx_s x')) /\
      (forall j n n', Some j <> last_para (s_c (hx_s x)) -> nth_error (s_h (hx_s x)) j = Some n ->
                      nth_error (s_h (hx_s x')) j = Some n' -> blines n' = blines n) /\
      bk pn <> BList /\
      LastParaLC (hx_s x'))
     \/
     (res = newBlocksOpened /\ exists base' new, ops (hx_s x') = base' ++ new /\ new <> [] /\
      (base' = ops (hx_s x) \/ exists y, ops (hx_s x) = base' ++ [(y, PParagraph)]) /\
      OFrame (s_h (hx_s x)) (s_h (hx_s x')) parent (last_para (s_c (hx_s x))) /\
      Chain (s_h (hx_s x')) parent new /\ (forall e, In e new -> (length (s_h (hx_s x)) <= fst e)%nat) /\
      (bk pn = BList -> exists it pn', nth_error new 0%nat = Some (it, PListItem) /\
                                       nth_error (s_h (hx_s x')) parent = Some pn' /\ last_id (bch pn') = Some it) /\
      (forall n p nn, nth_error new (pred (length new)) = Some (n, p) -> nth_error (s_h (hx_s x')) n = Some nn ->
         (p = PFenced -> exists ch ind fl, c_fence (s_c (hx_s x')) = Some (ch, ind, fl, n)) /\
         (p <> PFenced -> c_fence (s_c (hx_s x')) = c_fence (s_c (hx_s x))) /\
         (p = PSetext -> c_tmp_para (s_c (hx_s x')) <> None /\ blines nn <> [] /\
                         exists y, last_opened (s_c (hx_s x)) = Some (y, PParagraph)) /\
         (p <> PSetext -> c_tmp_para (s_c (hx_s x')) = c_tmp_para (s_c (hx_s x)) \/
                          exists y, last_opened (s_c (hx_s x)) = Some (y, PParagraph)) /\
         (p = PATX -> Forall olineE (blines nn)) /\
         (p = PSetext -> exists t tn, last_opened (s_c (hx_s x)) = Some (t, PParagraph) /\
                                      c_tmp_para (s_c (hx_s x')) = Some t /\ nth_error (s_h (hx_s x')) t = Some tn /\
                                      Forall pad0 (blines tn) /\ ops (hx_s x) = base' ++ [(t, PParagraph)]) /\
         (p = PParagraph -> exists q qn, bpar nn = Some q /\ nth_error (s_h (hx_s x')) q = Some qn /\
                                         last_id (bch qn) = Some n)) /\
      (forall n, new = [(n, PParagraph)] -> base' = ops (hx_s x) -> last_para (s_c (hx_s x)) = None))).
Proof using All.
  intros HS Hp HLP Hattd Hcont HB Hllc Hfuel.
  destruct (open_blocks_post fuel parent pn blank x HS Hp HLP Hattd Hcont HB Hllc Hfuel) as (res & x' & E & P).
  exists res, x'. split; [exact E|exact P].
Qed.

End S.
