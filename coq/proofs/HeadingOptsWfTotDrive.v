(* Helper file for HeadingOptsWfTot.v (fork of ParseBlocksTotalDrive.v, through GfmWfTotBlkDrive.v, ported to the
   generalised driver of model/HeadingOpts.v and to to_treeH): the outer loops (lines_loopH, parse_blocks_loopH,
   parse_blocksH) and the conversion of the final heap to a tree.  openBlocks and closeBlocks are used through the
   interface statements open_blocksH_spec / close_blocksH_spec (HeadingOptsWfTotEachA.v) as hypotheses. *)
Require Import GM.model.Base GM.model.Util GM.model.Reader GM.model.ReaderSpec GM.model.Blocks GM.model.ListItem
               GM.model.LeafBlocks GM.model.CodeBlock GM.model.LinkDest GM.model.Regex GM.model.HtmlWriter GM.model.Html
               GM.model.BlockParse GM.model.Attr GM.model.Ids GM.model.HeadingOpts.
Require Import GM.proofs.ReaderProofs GM.proofs.BlocksProofs
               GM.proofs.ParseBlocksTotalReader GM.proofs.ParseBlocksTotalDefs GM.proofs.ParseBlocksTotalSpec
               GM.proofs.ParseBlocksTotalSt GM.proofs.HeadingOptsWfTotShape
               GM.proofs.HeadingOptsWfTotEachA GM.proofs.HeadingOptsWfTotEach.
From Coq Require Import ZArith Lia List Bool.
Import ListNotations.
Open Scope Z_scope.

Section S.
Variable hc : hcfg.
Variable space_table punct_table : list N.
Variable norm : bytes -> bytes.
Variable re_t1o re_t1c re_t2 re_t3 re_t4 re_t5 re_t6 re_t7 : re.
Variable allowed_tags : list bytes.
Variable utf8len_table : list N.
Variable spaces : bytes.
Variable src : bytes.
Hypothesis tbl : TblOK space_table.
Hypothesis OBK : open_blocksH_spec hc space_table punct_table norm re_t1o re_t1c re_t2 re_t3 re_t4 re_t5 re_t6 re_t7
                                    allowed_tags utf8len_table spaces src.
Hypothesis CBK : close_blocksH_spec hc space_table punct_table norm utf8len_table spaces src.
Notation SI := (SI space_table src).
Notation HInv := (HInv space_table src).
Notation LineInv := (LineInv space_table src).
Notation LineMid := (LineMid space_table src).
Notation LLH := (lines_loopH hc space_table punct_table norm re_t1o re_t1c re_t2 re_t3 re_t4 re_t5 re_t6 re_t7 allowed_tags utf8len_table spaces).
Notation PBLH := (parse_blocks_loopH hc space_table punct_table norm re_t1o re_t1c re_t2 re_t3 re_t4 re_t5 re_t6 re_t7 allowed_tags utf8len_table spaces).
Notation PBH := (parse_blocksH hc space_table punct_table norm re_t1o re_t1c re_t2 re_t3 re_t4 re_t5 re_t6 re_t7 allowed_tags utf8len_table spaces).
Notation EOK := (each_openedH_ok hc space_table punct_table norm re_t1o re_t1c re_t2 re_t3 re_t4 re_t5 re_t6 re_t7 allowed_tags
                                 utf8len_table spaces src tbl OBK CBK).
Notation EA lem := (lem space_table punct_table norm re_t1o re_t1c re_t2 re_t3 re_t4 re_t5 re_t6 re_t7 allowed_tags src tbl).

(* ---------- the heap as a tree ---------- *)
Lemma seg_value_rng sg : seg_rng src sg -> exists v, seg_value src sg = Ok v.
Proof.
  intros (A & B & C). unfold seg_value. rewrite slice_sub by lia. cbn [bind].
  destruct (Z.ltb_spec (s_pad sg) 0) as [D|D]; [lia|].
  destruct (s_fnl sg).
  - destruct (rev _) as [|c r]; [eexists; reflexivity|]. destruct (N.eqb c 10); eexists; reflexivity.
  - eexists; reflexivity.
Qed.

Lemma kind_of_ok n : node_ok space_table src n -> exists k, kind_of src n = Ok k.
Proof.
  intros H. unfold kind_of. unfold node_ok in H. destruct (bk n); try (eexists; reflexivity).
  destruct (b_seg n) as [sg|]; [|eexists; reflexivity].
  destruct (seg_value_rng sg H) as [v E]. rewrite E. cbn [bind]. eexists; reflexivity.
Qed.

Lemma map_res_ok {A B} (f : A -> result B) l : (forall x, In x l -> exists y, f x = Ok y) -> exists r, map_res f l = Ok r.
Proof.
  induction l as [|x l IH]; intros H; [eexists; reflexivity|]. cbn [map_res].
  destruct (H x (or_introl eq_refl)) as [y E]. rewrite E. cbn [bind].
  destruct IH as [r Er]; [intros z Hz; apply H; right; exact Hz|]. rewrite Er. cbn [bind]. eexists; reflexivity.
Qed.

Lemma to_treeH_ok h attrs : HInv h -> forall fuel i, (i < length h)%nat -> (length h - i < fuel)%nat ->
  exists t, to_treeH fuel src h attrs i = Ok t.
Proof.
  intros HH. induction fuel as [|f IH]; intros i Hi Hf; [lia|]. cbn [to_treeH].
  destruct (hget_lt h i Hi) as [n [E Hn]]. rewrite E. cbn [bind].
  destruct (kind_of_ok n (hi_ok _ _ _ HH i n Hn)) as [k Ek]. rewrite Ek. cbn [bind].
  destruct (map_res_ok (to_treeH f src h attrs) (bch n)) as [kids Ekids].
  { intros c Hc. pose proof (hi_ch _ _ _ HH i n Hn) as HF. rewrite Forall_forall in HF. specialize (HF c Hc).
    apply IH; lia. }
  rewrite Ekids. cbn [bind]. eexists; reflexivity.
Qed.

(* ---------- the start of a line ---------- *)
Lemma Below_le h r r' : Below h r -> r_le r r' -> Below h r'.
Proof.
  intros HB (_ & Hs & _) i n Hn Hk. specialize (HB i n Hn Hk).
  eapply Forall_impl; [|exact HB]. cbv beta. intros sg Hsg. lia.
Qed.

Lemma LineInv_set_r s r' : LineInv s -> RI r' -> r_le (s_r s) r' -> LineInv (st_r s r').
Proof.
  intros [L1 L2 L3 L4] HR HL. constructor; cbn [st_r s_h s_c s_r]; auto. apply SI_set_r; assumption.
Qed.

Lemma line_start s : LineInv s ->
  LineInv (advance_line_s s) /\ Below (s_h (advance_line_s s)) (s_r (advance_line_s s)) /\
  ops (advance_line_s s) = ops s /\ r_le (s_r s) (s_r (advance_line_s s)) /\
  s_start (r_pos (s_r (advance_line_s s))) = s_stop (r_pos (s_r s)).
Proof.
  intros HL. pose proof (li_si _ _ _ HL) as HS.
  destruct (ri_advance_line (s_r s) (si_r _ _ _ HS)) as (A & B & C).
  unfold advance_line_s. csplit; auto.
  - apply LineInv_set_r; assumption.
  - cbn [st_r s_h s_r]. intros i n Hn Hk. pose proof (si_lim _ _ _ HS i n Hn Hk) as HF.
    eapply Forall_impl; [|exact HF]. cbv beta. intros sg Hsg. lia.
Qed.

(* a chain below the root does not start with a list item *)
Lemma chain_root_not_item s : LineInv s -> forall it, nth_error (ops s) 0%nat <> Some (it, PListItem).
Proof.
  intros HL it E. pose proof (li_si _ _ _ HL) as HS.
  destruct (ch_par _ _ _ (li_chain _ _ _ HL) 0%nat it PListItem E) as [nn [Hn Hp]]. cbn [par_at] in Hp.
  assert (Hin : In (it, PListItem) (c_arr (s_c s))) by (apply opened_in; eapply nth_error_In, E).
  destruct (ci_arr _ _ (si_c _ _ _ HS) _ Hin) as [n' [Hn' Kn']]. cbn [fst snd kind_of_parser] in Hn', Kn'.
  rewrite Hn in Hn'. injection Hn' as <-.
  destruct (li_root _ _ _ HL) as [n0 [H0 K0]].
  pose proof (hi_item _ _ _ (si_h _ _ _ HS) it nn 0%nat n0 Hn Kn' Hp H0). congruence.
Qed.

(* ---------- lines_loopH ---------- *)
Lemma lines_loopH_ok : forall fuel stats x, LineInv (hx_s x) -> Below (s_h (hx_s x)) (s_r (hx_s x)) ->
  (Z.to_nat (zlen src - s_start (r_pos (s_r (hx_s x)))) < fuel)%nat ->
  exists r stats', LLH fuel 0%nat stats x = Ok (r, stats') /\
    match r with
    | inl x' => SI (hx_s x')
    | inr x' => LineInv (hx_s x') /\ ops (hx_s x') = [] /\ Below (s_h (hx_s x')) (s_r (hx_s x')) /\
                r_le (s_r (hx_s x)) (s_r (hx_s x'))
    end.
Proof using All.
  induction fuel as [|f IH]; intros stats x HL HB Hf; [lia|]. cbn [lines_loopH]. set (s := hx_s x) in *. fold (ops s).
  destruct (ops s) as [|e cap'] eqn:Ecap.
  - exists (inr x), stats. split; [reflexivity|]. fold s. csplit; auto. apply r_le_refl.
  - rewrite <- Ecap. set (cap := ops s).
    assert (Hne : 0 < zlen cap) by (unfold cap; rewrite Ecap, zlen_cons; pose proof (zlen_nonneg cap'); lia).
    destruct (EOK cap (S (length cap)) 0 stats x) as [r [stats' [E Hr]]].
    { unfold HeadingOptsWfTotEachA.LineMid. fold s. csplit; auto. }
    { lia. }
    { unfold zlen. lia. }
    { cbn [Z.to_nat]. apply chain_root_not_item, HL. }
    rewrite E. cbn [bind]. destruct r as [x'|x'].
    + exists (inl x'), stats'. split; [reflexivity|exact Hr].
    + destruct Hr as (s'' & L1 & L2 & Eadv & L3). fold s in L2, L3. specialize (L3 ltac:(lia)).
      unfold advance_line_h. rewrite Eadv.
      destruct (line_start s'' L1) as (M1 & M2 & M3 & M4 & M5).
      pose proof (li_si _ _ _ HL) as HS. pose proof (ri_bounds _ (si_r _ _ _ HS)) as Hb.
      apply in_range_true in L3.
      pose proof (inv_bounds_in _ (proj1 (si_r _ _ _ HS)) ltac:(lia)) as Hlt.
      destruct L2 as (Q1 & Q2 & Q3).
      pose proof (ri_bounds _ (si_r _ _ _ (li_si _ _ _ M1))) as Hb'.
      rewrite (si_src _ _ _ (li_si _ _ _ M1)) in Hb'. rewrite (si_src _ _ _ HS) in L3.
      destruct (IH stats' (sth_s x' (advance_line_s s'')) M1 M2) as [r2 [stats2 [E2 Hr2]]].
      { cbn [sth_s hx_s]. rewrite M5. lia. }
      rewrite E2. exists r2, stats2. split; [reflexivity|].
      destruct r2 as [x2|x2]; [exact Hr2|]. cbn [sth_s hx_s] in Hr2. destruct Hr2 as (N1 & N2 & N3 & N4). csplit; auto.
      eapply r_le_trans; [|exact N4]. eapply r_le_trans; [|exact M4]. unfold r_le. auto.
Qed.

(* ---------- parse_blocks_loop ---------- *)
Lemma last_opened_nth c n p : (c_len c <= length (c_arr c))%nat -> last_opened c = Some (n, p) ->
  nth_error (opened c) (pred (length (opened c))) = Some (n, p).
Proof.
  intros H E. rewrite last_opened_spec in E by exact H. rewrite (opened_length c H).
  destruct (c_len c); [discriminate|exact E].
Qed.

Lemma parse_blocks_loopH_ok : forall fuel stats x, LineInv (hx_s x) -> ops (hx_s x) = [] -> Below (s_h (hx_s x)) (s_r (hx_s x)) ->
  (Z.to_nat (zlen src - s_start (r_pos (s_r (hx_s x)))) < fuel)%nat ->
  exists x', PBLH fuel 0%nat stats x = Ok x' /\ SI (hx_s x').
Proof using All.
  induction fuel as [|f IH]; intros stats x HL Hops HB Hf; [lia|]. cbn [parse_blocks_loopH]. cbv zeta.
  set (s := hx_s x) in *.
  pose proof (li_si _ _ _ HL) as HS. pose proof (si_src _ _ _ HS) as Hsrc. unfold src_of. rewrite Hsrc.
  unfold r_skip_blank_lines.
  destruct (ri_skip_blank_lines space_table (S (length src)) (s_r s) 0 (si_r _ _ _ HS)) as (r1 & sg & nl & ok & E1 & R1 & Q1 & Q2 & Q3).
  { rewrite Hsrc. unfold zlen. pose proof (ri_bounds _ (si_r _ _ _ HS)). lia. }
  rewrite E1. cbn [bind]. cbv beta iota.
  set (s1 := st_r s r1). set (x1 := sth_s x s1).
  assert (HL1 : LineInv s1) by (apply LineInv_set_r; assumption).
  assert (Hops1 : ops s1 = []) by exact Hops.
  assert (HB1 : Below (s_h s1) (s_r s1)) by (eapply Below_le; [exact HB|exact Q1]).
  destruct ok; cbn [negb].
  2:{ exists x1. split; [reflexivity|apply HL1]. }
  specialize (Q2 eq_refl).
  pose proof (li_si _ _ _ HL1) as HS1.
  cbn [st_r s_r]. fold s1. replace (r_src r1) with src by (destruct Q1 as (A & _); congruence).
  destruct (li_root _ _ _ HL1) as [n0 [H0 K0]].
  match goal with |- context [open_blocksH _ _ _ _ _ _ _ _ _ _ _ _ _ _ _ ?fu _ ?bl x1] => set (fu1 := fu); set (blank := bl) end.
  pose proof (OBK fu1 0%nat n0 blank x1) as HO. cbv zeta in HO. change (hx_s x1) with s1 in HO.
  destruct (HO HS1 H0) as (res & x2 & E2 & S2 & R2 & Cf & Ct & Ctl & Hcase); clear HO.
  { intros K. congruence. }
  { intros e n He. rewrite Hops1 in He. contradiction. }
  { intros k e He. rewrite Hops1 in He. destruct k; discriminate. }
  { exact HB1. }
  { exact (EA eo_lastparalc s1 HL1). }
  { unfold fu1. pose proof (ri_bounds _ (si_r _ _ _ HS1)) as Hb. rewrite (si_src _ _ _ HS1) in Hb. unfold zlen in Hb.
    unfold s1 in *. cbn [st_r s_r] in *.
    replace (r_src r1) with src by (destruct Q1 as (A & _); congruence). lia. }
  rewrite E2. cbn [bind]. cbv beta iota. set (s2 := hx_s x2) in *.
  destruct Hcase as [Hc|Hc].
  { destruct Hc as (Hres & _). exists x2. split; [|exact S2]. destruct Hres as [->| ->]; reflexivity. }
  destruct Hc as (Hres & base' & new & Hops2 & Hnew & Hbase & HOF & HCh & Hfresh & _ & Hlastnew & _).
  subst res. cbn [Z.eqb negb]. change (newBlocksOpened =? newBlocksOpened) with true. cbn [negb].
  assert (Hb' : base' = []).
  { destruct Hbase as [->|[y Hy]]; [exact Hops1|]. rewrite Hops1 in Hy. destruct base'; discriminate. }
  subst base'. cbn [app] in Hops2.
  assert (HL2 : LineInv s2).
  { constructor.
    - exact S2.
    - rewrite Hops2. exact HCh.
    - intros n p nn Hlo Hn. pose proof (last_opened_nth _ n p (ci_len _ _ (si_c _ _ _ S2)) Hlo) as Hnth.
      fold (ops s2) in Hnth. rewrite Hops2 in Hnth. destruct (Hlastnew n p nn Hnth Hn) as (A & B & C & D & E5 & F & G). csplit.
      + intros ->. destruct (A eq_refl) as (ch & ind & fl & E). rewrite E. discriminate.
      + intros ->. destruct (C eq_refl) as (C1 & C2 & _). auto.
      + exact E5.
      + intros -> t0 tn Ht0 Htn. destruct (F eq_refl) as (y & yn & _ & Y2 & Y3 & Y4 & _).
        rewrite Y2 in Ht0. injection Ht0 as <-. rewrite Y3 in Htn. injection Htn as <-. exact Y4.
      + exact G.
    - destruct HOF as [_ HOF]. destruct (HOF 0%nat n0 H0) as [n0' (A & B & _)]. exists n0'. split; [exact A|congruence]. }
  destruct (line_start s2 HL2) as (M1 & M2 & M3 & M4 & M5).
  unfold advance_line_h. fold s2. set (s3 := advance_line_s s2) in *. cbn [sth_s hx_s].
  replace (r_src (s_r s3)) with src by (symmetry; apply (si_src _ _ _ (li_si _ _ _ M1))).
  match goal with |- context [lines_loopH _ _ _ _ _ _ _ _ _ _ _ _ _ _ _ _ _ ?st (sth_s x2 s3)] => set (stats3 := st) end.
  destruct (lines_loopH_ok (S (length src)) stats3 (sth_s x2 s3) M1 M2) as [r [stats' [E3 Hr]]].
  { cbn [sth_s hx_s]. pose proof (ri_bounds _ (si_r _ _ _ (li_si _ _ _ M1))) as Hb. unfold zlen. lia. }
  rewrite E3. cbn [bind]. cbv beta iota. destruct r as [x4|x4].
  - exists x4. split; [reflexivity|exact Hr].
  - cbn [sth_s hx_s] in Hr. destruct Hr as (N1 & N2 & N3 & N4). apply IH; auto.
    apply in_range_true in Q2.
    assert (Hlt : s_start (r_pos r1) < s_stop (r_pos r1)) by (apply (inv_bounds_in r1 (proj1 R1)); lia).
    destruct N4 as (_ & N4 & _). destruct R2 as (_ & _ & R2). destruct Q1 as (Q0 & Q1 & _).
    unfold s1 in *. cbn [st_r s_r] in *. rewrite Q0, Hsrc in Q2. lia.
Qed.

(* ---------- parse_blocks ---------- *)
Lemma init_LineInv : LineInv {| s_h := [mknode BDocument 0]; s_c := init_ctx; s_r := new_reader src |}.
Proof.
  constructor; cbn [s_h s_c s_r].
  - constructor; cbn [s_h s_c s_r].
    + split; [apply new_reader_inv|]. unfold new_reader. rewrite r_advance_line_eq by (rsimpl; lia). rsimpl. lia.
    + unfold new_reader. apply advance_line_src.
    + constructor.
      * discriminate.
      * intros i n Hn. destruct i as [|[|i]]; cbn in Hn; try discriminate. injection Hn as <-. constructor.
      * intros i n p Hn Hp. destruct i as [|[|i]]; cbn in Hn; try discriminate. injection Hn as <-. discriminate.
      * intros i n Hn. destruct i as [|[|i]]; cbn in Hn; try discriminate. injection Hn as <-. exact I.
      * intros i n c cn Hn K. destruct i as [|[|i]]; cbn in Hn; try discriminate. injection Hn as <-. discriminate.
      * intros c cn p pn Hn Hp. destruct c as [|[|c]]; cbn in Hn; try discriminate. injection Hn as <-. discriminate.
      * intros c cn p pn Hn K. destruct c as [|[|c]]; cbn in Hn; try discriminate. injection Hn as <-. discriminate.
    + constructor; cbn [init_ctx c_len c_arr c_tmp_para c_fence]; try lia; try contradiction; discriminate.
    + intros i n Hn K. destruct i as [|[|i]]; cbn in Hn; try discriminate. injection Hn as <-. discriminate.
  - constructor; unfold ops, opened; cbn [init_ctx c_len c_arr firstn].
    + intros k n p E. destruct k; discriminate.
    + intros k e E. destruct k; discriminate.
    + intros k L E. destruct k; discriminate.
  - intros n p nn E. discriminate.
  - exists (mknode BDocument 0). split; reflexivity.
Qed.

Lemma parse_blocksH_ok : exists x, PBH src = Ok x /\ SI (hx_s x).
Proof using All.
  unfold parse_blocksH. apply parse_blocks_loopH_ok; cbn [hx_s].
  - apply init_LineInv.
  - reflexivity.
  - intros i n Hn K. cbn [s_h] in Hn. destruct i as [|[|i]]; cbn in Hn; try discriminate. injection Hn as <-. discriminate.
  - cbn [s_r]. pose proof (ri_bounds _ (si_r _ _ _ (li_si _ _ _ init_LineInv))) as Hb. cbn [s_r] in Hb. unfold zlen. lia.
Qed.

Lemma parse_blocksH_tree_ok :
  exists x t, PBH src = Ok x /\ to_treeH (S (length (s_h (hx_s x)))) src (s_h (hx_s x)) (hx_attrs x) 0%nat = Ok t.
Proof using All.
  destruct parse_blocksH_ok as [x [E HS]]. pose proof (si_h _ _ _ HS) as HH.
  destruct (to_treeH_ok (s_h (hx_s x)) (hx_attrs x) HH (S (length (s_h (hx_s x)))) 0%nat) as [t Et].
  - pose proof (hi_ne _ _ _ HH) as Hne. destruct (s_h (hx_s x)); [congruence|cbn; lia].
  - lia.
  - exists x, t. auto.
Qed.

End S.
