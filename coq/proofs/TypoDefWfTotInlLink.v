(* Fork of proofs/ParseInlineTotalLink.v over the reader invariant RI of proofs/TypoDefWfTotInlRd.v (the first line of the
   block may have padding); the text below is that of the original, only the imports differ. *)
(* The link parser (link.go linkParser.Parse, model/InlineParse.v link_parse) over the state
   invariant SInv: '[' / '![' push a label state; ']' takes the last label state off the list and
   either gives up (the label becomes text) or builds the link / image node around the nodes
   after the label: processLinkLabel (ProcessDelimiters down to the link bottom, moving the
   following siblings under the link), removal of the label node, ast.NewImage. *)
Require Import GM.model.Base GM.model.Util GM.model.Reader GM.model.ReaderSpec GM.model.ListItem GM.model.LeafBlocks
               GM.model.CodeSpan GM.model.LinkDest GM.model.Regex GM.model.Delim GM.model.BlockParse GM.model.Html GM.model.InlineParse.
Require Import GM.proofs.BReaderProofs GM.proofs.BlockRangeProofs GM.proofs.RegexProofs.
Require Import GM.proofs.ParseInlineTotalHeap GM.proofs.ParseInlineTotalDelim GM.proofs.ParseInlineTotalEmph
               GM.proofs.ParseInlineTotalLabel GM.proofs.ParseInlineTotalCtx GM.proofs.ParseInlineTotalTree
               GM.proofs.TypoDefWfTotInlRd GM.proofs.TypoDefWfTotInlRd2 GM.proofs.TypoDefWfTotInlPar.
From Coq Require Import ZArith Lia List Arith.
Import ListNotations.
Open Scope Z_scope.

(* ---------- lists ---------- *)
Lemma from_id_suffix x : forall l, exists pre, l = pre ++ from_id x l.
Proof.
  induction l as [|y t IH]; [exists []; reflexivity|]. cbn [from_id].
  destruct (Nat.eqb x y); [exists []; reflexivity|]. destruct IH as [pre E]. exists (y :: pre). cbn [app]. rewrite <- E. reflexivity.
Qed.

Lemma pop_bottom_fields c : i_h (fst (pop_bottom c)) = i_h c /\ i_dfirst (fst (pop_bottom c)) = i_dfirst c /\
  i_dlast (fst (pop_bottom c)) = i_dlast c /\ i_labels (fst (pop_bottom c)) = i_labels c.
Proof. unfold pop_bottom. destruct (rev (i_bottoms c)); cbn; auto. Qed.

Section Lk.
Variable src : bytes.
Variable segs : list seg.
Variable first : seg.
Hypothesis Hfirst : hd_error segs = Some first.
Notation lo := (s_start first).
Notation CInv := (CInv src lo).
Notation DInv := (DInv src lo).
Notation RI := (RI src segs).
Notation KOK := (KOK src lo).
Notation KOKh := (KOKh src lo).
Notation SInv := (SInv src segs first).
Notation PPost := (PPost src segs first).
Notation Bnd := (Bnd src).

(* CInv does not look at the link bottoms *)
Lemma CInv_fields c c' dl ll : CInv c dl ll -> i_h c' = i_h c -> i_dfirst c' = i_dfirst c -> i_dlast c' = i_dlast c ->
  i_labels c' = i_labels c -> CInv c' dl ll.
Proof.
  intros [[W K A D] AP L] Eh Ef El Elab. constructor; [constructor|..]; rewrite ?Eh, ?Ef, ?El, ?Elab; assumption.
Qed.

(* a tree step that may detach label nodes that are no longer on the list *)
Lemma CInv_tree_ll c c' dl ll : CInv c dl ll ->
  HWF (i_h c') -> KOKh (i_h c') -> Acyc (i_h c') -> ctx_same c c' -> dl_same (i_h c) (i_h c') ->
  (forall y, isdk (i_h c) y \/ In y ll -> (par (i_h c') y = None <-> par (i_h c) y = None)) ->
  CInv c' dl ll.
Proof.
  intros [[W K A D] AP L] W' K' A' (F1 & F2 & F3 & F4) [DV LV] Hp. constructor.
  - constructor; try assumption. rewrite F1, F2. eapply DL_frame; [exact D|exact DV|].
    intros y k Hy. apply Hp. left. apply dv_some in Hy. exists k. exact Hy.
  - eapply allpos_frame; [|exact AP]. intros y _. apply dcoreh_dv. exact DV.
  - rewrite F3. eapply LL_frame; [exact L|exact LV|]. intros y Hy _. apply Hp. right. exact Hy.
Qed.

Lemma Bnd_frame c c' dl ll r : Bnd c dl ll r -> dl_same (i_h c) (i_h c') -> Bnd c' dl ll r.
Proof.
  intros [B1 B2] [DV LV]. split.
  - rewrite (sumlen_frame (i_h c) (i_h c')) by (intros y _; apply dcoreh_dv; exact DV). exact B1.
  - eapply lab_le_lv; [exact LV|exact B2].
Qed.

Lemma lab_le_sub h ll ll' z : (forall y, In y ll' -> In y ll) -> lab_le h ll z -> lab_le h ll' z.
Proof. intros S H y sg im p n f l Hy. apply H. apply S. exact Hy. Qed.

(* ---------- '[' and '![' : a new label state ---------- *)
Lemma open_label_spec s dl ll c r sg im :
  SInv s dl ll -> i_h c = i_h (t_c s) -> i_dfirst c = i_dfirst (t_c s) -> i_dlast c = i_dlast (t_c s) ->
  i_labels c = i_labels (t_c s) ->
  RI r -> rle (t_r s) r -> 1 <= zlen (b_rest r) ->
  seg_in src sg -> lo <= s_stop sg -> s_stop sg <= s_start (b_pos r) + 1 ->
  exists s' st,
    (let '(c1, st) := new_inode c (ILabel sg im None None None None) in
     c1 <- push_label c1 st ;; r1 <- b_advance r 1 ;; Ok ({| t_c := c1; t_r := r1 |}, Some st)) = Ok (s', Some st) /\
    PPost s s' (Some st).
Proof.
  intros [C R B] Eh Ef El Elab HR Hle Hrest Hsg Hlo Hstop.
  assert (Cc : CInv c dl ll) by (eapply CInv_fields; eassumption).
  destruct (push_label_append src lo c dl ll sg im Cc) as (c2 & h5 & E2 & E5 & C5 & _ & Core & Len & Kn & Kold).
  { cbn. split; [exact Hsg|exact Hlo]. }
  rewrite new_inode_eq. rewrite E2. cbn [bind].
  destruct (ri_advance_rle src segs r 1 HR) as (r1 & E1 & HR1 & Hle1 & Hrest1 & Hpos1); [lia|].
  rewrite E1. cbn [bind]. eexists _, _. split; [reflexivity|].
  exists dl, (ll ++ [length (i_h c)]), h5. cbn [t_c t_r ist_c]. split; [exact E5|]. split; [|destruct Hle; lia].
  constructor; cbn [t_c t_r ist_c].
  - exact C5.
  - exact HR1.
  - destruct B as [B1 B2]. destruct Hle as [Hle_a Hle_b]. split; cbn [i_h cx_h].
    + rewrite (sumlen_frame (i_h c) h5) by (intros y _; apply Core). rewrite Eh. lia.
    + intros y sg0 im0 p0 n0 f0 l0 Hy Hk. apply in_app_iff in Hy. destruct Hy as [Hy|[Hy|[]]].
      * assert (Hylt : (y < length (i_h c))%nat).
        { apply islk_lt. eapply lseg_in_lk; [exact (ll_seg _ _ _ (ci_ll _ _ _ _ _ Cc))|exact Hy]. }
        destruct (Kold y sg0 im0 p0 n0 f0 l0) as (p1 & n1 & f1 & l1 & X); [lia|exact Hk|].
        rewrite Eh in X. specialize (B2 _ _ _ _ _ _ _ Hy X). lia.
      * subst y. destruct Kn as (p' & n' & f' & l' & X). rewrite X in Hk. inversion Hk; subst. lia.
Qed.

(* ---------- the label-failure exit: the label node becomes text ---------- *)
Lemma label_fail_spec s0 s dl ll last sg im p n f l P :
  CInv (t_c s) dl ll -> RI (t_r s) -> Bnd (t_c s) dl ll (t_r s0) -> ~ In last ll ->
  kd (i_h (t_c s)) last = Some (ILabel sg im p n f l) -> par (i_h (t_c s)) last = Some P ->
  exists s', label_fail s last = Ok (s', None) /\ PPost s0 s' None.
Proof.
  intros C R B Hnl Hk Hp. pose proof (ci_d _ _ _ _ _ C) as [W K A D].
  unfold label_fail. rewrite (lget_spec _ _ _ _ _ _ _ _ Hk). cbn [bind].
  pose proof (par_lt _ _ _ Hp) as Hlt. destruct (nth_error_ex_lt _ _ Hlt) as [n0 Hn0].
  rewrite (iget_ok _ _ _ Hn0). cbn [bind].
  assert (Ep : ipar n0 = Some P) by (unfold par in Hp; rewrite Hn0 in Hp; exact Hp). rewrite Ep.
  pose proof (K last _ Hk) as Kl. cbn in Kl.
  destruct (merge_or_replace_spec src lo (t_c s) P last sg W K A Hp (proj1 Kl))
    as (c' & m & E & W' & K' & A' & CS & DS & L' & Pd & Pn & _).
  rewrite E. cbn [bind].
  assert (C' : CInv c' dl ll).
  { eapply CInv_tree_ll; [exact C|exact W'|exact K'|exact A'|exact CS|exact DS|].
    intros y Hy. rewrite Pn; [tauto| |].
    - destruct Hy as [Hy|Hy]; [apply isdk_lt; exact Hy|].
      apply islk_lt. eapply lseg_in_lk; [exact (ll_seg _ _ _ (ci_ll _ _ _ _ _ C))|exact Hy].
    - intros X. subst y. destruct Hy as [Hy|Hy]; [|contradiction].
      eapply isdk_not_islk; [exact Hy|eapply islk_intro; exact Hk]. }
  destruct (pop_bottom c') as [c'' b] eqn:Epb.
  pose proof (pop_bottom_fields c') as (F1 & F2 & F3 & F4). rewrite Epb in F1, F2, F3, F4. cbn [fst] in F1, F2, F3, F4.
  eexists. split; [reflexivity|]. exists dl, ll. cbn [t_c t_r ist_c].
  split; [eapply CInv_fields; eassumption|]. split; [exact R|].
  eapply Bnd_frame; [exact B|]. rewrite F1. exact DS.
Qed.

(* ---------- containsLink over the label and its following siblings ---------- *)
Lemma contains_link_siblings h last P : HWF h -> Acyc h -> par h last = Some P ->
  exists b, contains_link (S (length h)) h (from_id last (chl h P)) = Ok b.
Proof.
  intros W [rk R] Hp.
  set (S0 := filter (fun y => Nat.ltb (rk P) (rk y)) (seq 0 (length h))).
  assert (HS : forall y, In y S0 <-> (y < length h)%nat /\ (rk P < rk y)%nat).
  { intros y. unfold S0. rewrite filter_In, in_seq, Nat.ltb_lt. lia. }
  destruct (from_id_suffix last (chl h P)) as [pre Epre].
  assert (Hsub : forall x, In x (from_id last (chl h P)) -> In x (chl h P)).
  { intros x Hx. rewrite Epre. apply in_app_iff. right. exact Hx. }
  apply (contains_link_total rk h W R (S (length h)) S0).
  - unfold S0. pose proof (filter_len_le (fun y => Nat.ltb (rk P) (rk y)) (seq 0 (length h))) as X.
    rewrite seq_length in X. lia.
  - intros y Hy. apply HS in Hy. tauto.
  - intros y Hy c Hc. apply HS in Hy. apply HS. split; [eapply hwf_child_lt; eassumption|].
    apply (w_pc h W) in Hc. specialize (R _ _ Hc). lia.
  - pose proof (w_nd h W P) as Hnd. rewrite Epre in Hnd. eapply nodup_app_r. exact Hnd.
  - intros x Hx. apply Hsub in Hx. apply HS. split; [eapply hwf_child_lt; eassumption|].
    apply (w_pc h W) in Hx. exact (R _ _ Hx).
  - intros x y Hx Hy Hc. apply Hsub in Hx. apply (w_pc h W) in Hx. apply (w_pc h W) in Hc.
    rewrite Hx in Hc. inversion Hc; subst y. apply HS in Hy. lia.
Qed.

Variable space_table punct_table : list N.
Variable norm : bytes -> bytes.
Variable refs : list (bytes * (bytes * option bytes)).

(* ---------- parseReferenceLink ---------- *)
Lemma parse_reference_link_spec s last lsg im p n f l :
  RI (t_r s) -> b_in_range (t_r s) = true ->
  kd (i_h (t_c s)) last = Some (ILabel lsg im p n f l) -> lo <= s_stop lsg -> s_stop lsg <= s_start (b_pos (t_r s)) ->
  exists r' res hv, parse_reference_link space_table punct_table norm refs s last = Ok (r', res, hv) /\
    RI r' /\ rle (t_r s) r'.
Proof.
  intros R Hin Hk Hlo Hstop. unfold parse_reference_link. cbv zeta.
  pose proof (ri_rest_pos src segs (t_r s) R Hin) as Hrest.
  destruct (ri_advance_rle src segs (t_r s) 1 R) as (r1 & E1 & HR1 & Hle1 & _ & _); [lia|].
  rewrite E1. cbn [bind].
  destruct (ri_find_closure src segs punct_table r1 91%N 93%N HR1) as (r2 & res & E2 & HR2 & Hle2 & Hres).
  rewrite E2. cbn [bind].
  assert (Hle : rle (t_r s) r2) by (eapply rle_trans; eassumption).
  destruct res as [sgs|]; [|eexists _, _, _; split; [reflexivity|auto]].
  pose proof (ri_first_le src segs (t_r s) first R Hfirst Hin) as Hf.
  destruct (ri_bvalues src segs r2 first HR2 Hfirst sgs) as [v Ev].
  { eapply Forall_impl; [|exact Hres]. intros a Ha. eapply segp_mono; [|exact Ha]. destruct Hle1. lia. }
  rewrite Ev. cbn [bind]. rewrite (lget_spec _ _ _ _ _ _ _ _ Hk). cbn [bind].
  assert (Hv : exists v', (if Reader.is_blank space_table v then b_value r2 (mkseg (s_stop lsg) (s_start (b_pos (t_r s)) - 1)) else Ok v) = Ok v').
  { destruct (Reader.is_blank space_table v); [|eexists; reflexivity].
    apply (ri_b_value src segs r2 _ first HR2 Hfirst); cbn [mkseg s_start s_stop]; lia. }
  destruct Hv as [v' Ev']. rewrite Ev'. cbn [bind].
  destruct (999 <? zlen v'); [eexists _, _, _; split; [reflexivity|auto]|].
  destruct (lookup_ref norm refs v') as [[d t]|]; eexists _, _, _; (split; [reflexivity|auto]).
Qed.

(* ---------- ast.NewImage: the children of the link move to the image ---------- *)
Definition img_mv (img : nat) :=
  fix mv (l : list nat) (h : iheap) : result iheap :=
    match l with [] => Ok h | x :: t => h <- i_append h img x ;; mv t h end.

Lemma img_mv_spec rk img : forall l h, HWF h -> Ranked rk h -> (img < length h)%nat ->
  (forall x, In x l -> (x < length h)%nat /\ x <> 0%nat /\ (rk img < rk x)%nat) ->
  exists h', img_mv img l h = Ok h' /\ HWF h' /\ same_kinds h h' /\ Ranked rk h' /\
    (forall y, par h' y = par h y \/ (In y l /\ par h' y = Some img)).
Proof.
  induction l as [|x t IH]; intros h W R Himg Hl.
  - exists h. split; [reflexivity|]. split; [exact W|]. split; [apply same_kinds_refl|]. split; [exact R|]. auto.
  - cbn [img_mv]. destruct (Hl x (or_introl eq_refl)) as (Hx & Hx0 & Hrk).
    destruct (i_append_spec h img x W Himg Hx) as (h1 & E1 & W1 & SK1 & Px1 & Pn1 & _); [intros X; subst x; lia|exact Hx0|].
    rewrite E1. cbn [bind]. fold (img_mv img).
    assert (R1 : Ranked rk h1) by (eapply ranked_set_par; eassumption).
    destruct SK1 as [L1 K1].
    destruct (IH h1 W1 R1) as (h' & E' & W' & SK' & R' & P'); [lia| |].
    { intros y Hy. rewrite L1. apply Hl. right. exact Hy. }
    exists h'. split; [exact E'|]. split; [exact W'|]. split; [eapply same_kinds_trans; [split; eassumption|exact SK']|].
    split; [exact R'|]. intros y. destruct (P' y) as [X|[X1 X2]].
    + destruct (Nat.eq_dec y x) as [Eyx|Eyx].
      * subst y. right. split; [left; reflexivity|]. rewrite X. exact Px1.
      * left. rewrite X. apply Pn1. exact Eyx.
    + right. split; [right; exact X1|exact X2].
Qed.

(* ---------- processLinkLabel ---------- *)
Lemma chl_ge_nil h y : (length h <= y)%nat -> chl h y = [].
Proof.
  intros H. destruct (chl h y) as [|a t] eqn:E; [reflexivity|].
  assert (X : In a (chl h y)) by (rewrite E; left; reflexivity). apply chl_lt in X. lia.
Qed.

Lemma CInv_snoc c dl ll k : CInv c dl ll -> KOK k -> is_dk k = false -> is_lk k = false ->
  CInv (cx_h c (i_h c ++ [fresh k])) dl ll.
Proof.
  intros C Kk Hd Hl. pose proof (ci_d _ _ _ _ _ C) as [W K A D].
  eapply CInv_tree; [exact C| | | | | |]; cbn [i_h cx_h].
  - apply hwf_snoc. exact W.
  - apply kokh_snoc; assumption.
  - destruct A as [rk Rk]. exists rk. apply ranked_snoc. exact Rk.
  - repeat split.
  - apply dl_same_snoc; assumption.
  - intros y _. rewrite par_snoc. tauto.
Qed.

Lemma process_link_label_spec s2 c1 dl l1 last lsg lim p n f l P dest title :
  t_c s2 = c1 -> RI (t_r s2) -> CInv c1 dl l1 -> Bnd c1 dl l1 (t_r s2) ->
  ~ In last l1 -> kd (i_h c1) last = Some (ILabel lsg lim p n f l) -> par (i_h c1) last = Some P ->
  exists s3 dl', process_link_label (ist_c s2 (cx_h c1 (i_h c1 ++ [fresh (ILink dest title)]))) (length (i_h c1)) last = Ok s3 /\
    t_r s3 = t_r s2 /\ CInv (t_c s3) dl' l1 /\
    (sumlen (i_h (t_c s3)) dl' <= sumlen (i_h c1) dl)%nat /\ (forall y, lv (i_h (t_c s3)) y = lv (i_h c1) y) /\
    (exists P5, par (i_h (t_c s3)) last = Some P5) /\ par (i_h (t_c s3)) (length (i_h c1)) = None /\
    ~ isdk (i_h (t_c s3)) (length (i_h c1)) /\ ~ islk (i_h (t_c s3)) (length (i_h c1)) /\ ~ isdk (i_h (t_c s3)) last /\
    (length (i_h c1) < length (i_h (t_c s3)))%nat.
Proof.
  intros Ec HR2 C1 B1 Hnl Hk Hp.
  set (h1 := i_h c1) in *. set (link := length h1). set (c2 := cx_h c1 (h1 ++ [fresh (ILink dest title)])).
  assert (C2 : CInv c2 dl l1) by (apply CInv_snoc; [exact C1|exact Logic.I|reflexivity|reflexivity]).
  pose proof (ci_d _ _ _ _ _ C1) as [W1 K1 A1 D1]. fold h1 in W1, K1, A1, D1.
  pose proof (w_len h1 W1) as Hpos1.
  pose proof (par_lt _ _ _ Hp) as Hlast1.
  unfold process_link_label. cbn [t_c ist_c].
  destruct (pop_bottom c2) as [c3 b] eqn:Epb.
  pose proof (pop_bottom_fields c2) as (F1 & F2 & F3 & F4). rewrite Epb in F1, F2, F3, F4. cbn [fst] in F1, F2, F3, F4.
  assert (C3 : CInv c3 dl l1) by (eapply CInv_fields; eassumption).
  assert (Eh3 : i_h c3 = h1 ++ [fresh (ILink dest title)]) by (rewrite F1; reflexivity).
  assert (L3 : length (i_h c3) = S (length h1)) by (rewrite Eh3, app_length; cbn; lia).
  assert (Hsum3 : sumlen (i_h c3) dl = sumlen h1 dl).
  { apply sumlen_frame. intros y _. apply dcoreh_dv. rewrite Eh3. apply (proj1 (dl_same_snoc h1 (ILink dest title) eq_refl eq_refl)). }
  destruct (process_delimiters_spec src lo (ifuel (ist_c s2 c2)) c3 dl b (ci_d _ _ _ _ _ C3) (ci_ap _ _ _ _ _ C3))
    as (c4 & dl' & E4 & D4 & AP4 & St34 & Hsum4).
  { unfold ifuel. cbn [t_c t_r ist_c]. destruct HR2 as (_ & Es & _). rewrite Es. rewrite Hsum3.
    destruct B1 as [B1 _]. fold h1 in B1. pose proof (zlen_nonneg (b_rest (t_r s2))) as X. unfold zlen in B1, X.
    replace (length (i_h c2)) with (length (i_h c3)) by (rewrite F1; reflexivity). lia. }
  rewrite E4. cbn [bind].
  assert (C4 : CInv c4 dl' l1) by (eapply CInv_dstep; eassumption).
  set (h4 := i_h c4) in *.
  pose proof (di_wf _ _ _ _ D4) as W4. pose proof (di_acyc _ _ _ _ D4) as [rk R4]. fold h4 in W4, R4.
  pose proof (ds_len _ _ St34) as L4. fold h4 in L4.
  (* the label and the link node in the new heap *)
  assert (Hk3 : kd (i_h c3) last = Some (ILabel lsg lim p n f l)) by (rewrite Eh3, kd_snoc_old by lia; exact Hk).
  assert (Hndk3 : ~ isdk (i_h c3) last).
  { intros X. eapply isdk_not_islk; [exact X|eapply islk_intro; exact Hk3]. }
  assert (Hndk4 : ~ isdk h4 last) by (intros X; apply Hndk3; apply (ds_dk _ _ St34 last); [lia|exact X]).
  assert (Hp3 : par (i_h c3) last = Some P) by (rewrite Eh3, par_snoc; exact Hp).
  destruct (par h4 last) as [P4|] eqn:Hp4.
  2:{ exfalso. apply (ds_att _ _ St34 last) in Hp4; [congruence|lia|exact Hndk3]. }
  assert (Hklink3 : kd (i_h c3) link = Some (ILink dest title)) by (rewrite Eh3; apply kd_snoc_new).
  assert (Hlinkndk3 : ~ isdk (i_h c3) link).
  { intros (k & Hk' & Hdk). rewrite Hklink3 in Hk'. inversion Hk'; subst k. discriminate. }
  assert (Hplink3 : par (i_h c3) link = None) by (rewrite Eh3, par_snoc; apply par_ge_none; unfold link; lia).
  assert (Hplink4 : par h4 link = None) by (apply (ds_att _ _ St34 link); [unfold link; lia|exact Hlinkndk3|exact Hplink3]).
  assert (Hnolink : forall x, par h4 x <> Some link).
  { intros x Hx. destruct (ds_par _ _ St34 x link Hx) as [X|[z Hz]]; [unfold link in X; lia|].
    rewrite Eh3, par_snoc in Hz. apply (hwf_par_lt _ _ _ W1) in Hz. unfold link in Hz. lia. }
  assert (Hchlink4 : chl h4 link = []).
  { destruct (chl h4 link) as [|a t] eqn:X; [reflexivity|]. exfalso. apply (Hnolink a). apply (w_pc h4 W4). rewrite X. left. reflexivity. }
  assert (Hlinkndk4 : ~ isdk h4 link).
  { intros X. apply Hlinkndk3. apply (ds_dk _ _ St34 link); [unfold link; lia|exact X]. }
  assert (Hlinknlk4 : ~ islk h4 link).
  { intros X. apply (islk_lv _ _ (ds_lv _ _ St34)) in X. destruct X as (k & Hk' & Hlk).
    rewrite Hklink3 in Hk'. inversion Hk'; subst k. discriminate. }
  assert (HP4link : P4 <> link) by (intros X; subst P4; exact (Hnolink _ Hp4)).
  (* the following siblings move under the link *)
  assert (Hin4 : In last (chl h4 P4)) by (apply (w_pc h4 W4); exact Hp4).
  destruct (in_split_nodup last _ Hin4 (w_nd h4 W4 P4)) as (k1 & k2 & EC & Hk1 & Hk2).
  assert (Hlast4 : (last < length h4)%nat) by lia.
  rewrite (i_next_spec h4 last Hlast4 W4). cbn [bind]. rewrite Hp4, EC, next_in_split by exact Hk1.
  set (rk' := rk_set (fun y => 2 * rk y)%nat link (2 * rk P4 + 1)%nat).
  assert (R4' : Ranked rk' h4).
  { apply ranked_rk_set; [exact W4|apply ranked_double; exact R4|exact Hplink4|exact Hchlink4]. }
  assert (Hrk2 : forall x, In x k2 -> (rk' link < rk' x)%nat).
  { intros x Hx. assert (Hxp : par h4 x = Some P4) by (apply (w_pc h4 W4); rewrite EC; apply in_app_iff; right; right; exact Hx).
    pose proof (R4 _ _ Hxp) as Y. unfold rk', rk_set. rewrite Nat.eqb_refl.
    destruct (Nat.eqb_spec x link) as [Exl|Exl]; [subst x; congruence|lia]. }
  assert (HC4 : chl h4 P4 = (k1 ++ [last]) ++ k2) by (rewrite EC, <- app_assoc; reflexivity).
  assert (Hfu : (length k2 + 1 <= S (length h4))%nat).
  { pose proof (chl_length_le h4 P4 W4) as X. rewrite EC, app_length in X. cbn [length] in X. lia. }
  destruct (move_children_spec rk' None link P4 k2 (S (length h4)) h4 (k1 ++ [last]) W4 HC4) as (h5 & E5 & W5 & SK5 & R5 & F5);
    try assumption; [unfold link; lia|unfold link; lia|].
  rewrite E5. cbn [bind]. eexists _, dl'. split; [reflexivity|]. cbn [t_c t_r ist_c i_h cx_h].
  destruct SK5 as [L5 K5].
  assert (Hpar5 : forall y, y = last \/ isdk h4 y \/ In y l1 -> (par h5 y = None <-> par h4 y = None)).
  { intros y _. destruct (F5 y) as [X|[X1 X2]]; [rewrite X; tauto|]. rewrite X2.
    assert (Hyp : par h4 y = Some P4) by (apply (w_pc h4 W4); rewrite EC; apply in_app_iff; right; right; exact X1).
    rewrite Hyp. split; discriminate. }
  split; [reflexivity|]. split.
  { eapply CInv_tree_ll; [exact C4| | | | | |]; cbn [i_h cx_h].
    - exact W5.
    - eapply kokh_same; [split; [exact L5|exact K5]|exact (di_kok _ _ _ _ D4)].
    - exists rk'. exact R5.
    - repeat split.
    - apply dl_same_kinds. split; assumption.
    - intros y Hy. apply Hpar5. tauto. }
  split.
  { rewrite (sumlen_frame h4 h5) by (intros y _; apply dcoreh_of_kd; apply K5). fold h4 in Hsum4. lia. }
  split.
  { intros y. rewrite (lv_of_kd h4 h5 K5 y). unfold h4. rewrite (ds_lv _ _ St34 y). rewrite Eh3.
    apply (proj2 (dl_same_snoc h1 (ILink dest title) eq_refl eq_refl)). }
  split.
  { destruct (par h5 last) as [P5|] eqn:X; [eauto|]. apply Hpar5 in X; [congruence|left; reflexivity]. }
  split.
  { destruct (F5 link) as [X|[X1 _]]; [rewrite X; exact Hplink4|].
    exfalso. assert (Y : par h4 link = Some P4) by (apply (w_pc h4 W4); rewrite EC; apply in_app_iff; right; right; exact X1). congruence. }
  split.
  { intros (k & Hk' & Hdk). apply Hlinkndk4. exists k. rewrite <- K5. auto. }
  split.
  { intros (k & Hk' & Hlk). apply Hlinknlk4. exists k. rewrite <- K5. auto. }
  split.
  { intros (k & Hk' & Hdk). apply Hndk4. exists k. rewrite <- K5. auto. }
  unfold link in *. lia.
Qed.


(* ---------- the result node is appended under the block ---------- *)
Lemma finish_some s0 c r dl' ll' nd h5 :
  CInv c dl' ll' -> (nd < length (i_h c))%nat -> nd <> 0%nat -> ~ isdk (i_h c) nd -> ~ islk (i_h c) nd -> RI r ->
  dl_same h5 (i_h c) -> Z.of_nat (sumlen h5 dl') + zlen (b_rest r) <= zlen src -> lab_le h5 ll' (s_start (b_pos r)) ->
  zlen (b_rest r) < zlen (b_rest (t_r s0)) ->
  PPost s0 {| t_c := c; t_r := r |} (Some nd).
Proof.
  intros C Hnd Hn0 Hd Hl HR DS Hsum Hlab Hlt.
  destruct (CInv_append_root src lo c dl' ll' nd C Hnd Hn0 Hd Hl) as (h' & E & C' & SK & _).
  exists dl', ll', h'. cbn [t_c t_r ist_c]. split; [exact E|]. split; [|exact Hlt].
  assert (DS' : dl_same h5 h') by (eapply dl_same_trans; [exact DS|apply dl_same_kinds; exact SK]).
  constructor; cbn [t_c t_r ist_c].
  - exact C'.
  - exact HR.
  - split; cbn [i_h cx_h].
    + rewrite (sumlen_frame h5 h') by (intros y _; apply dcoreh_dv; exact (proj1 DS')). exact Hsum.
    + eapply lab_le_lv; [exact (proj2 DS')|exact Hlab].
Qed.

(* ---------- the label node is removed; an image takes over the children of the link ---------- *)
Lemma link_tail_spec s0 s3 dl' l1 last link (lim : bool) dest title :
  CInv (t_c s3) dl' l1 -> RI (t_r s3) -> ~ In last l1 -> (exists P5, par (i_h (t_c s3)) last = Some P5) ->
  ~ isdk (i_h (t_c s3)) last -> par (i_h (t_c s3)) link = None ->
  ~ isdk (i_h (t_c s3)) link -> ~ islk (i_h (t_c s3)) link -> (link < length (i_h (t_c s3)))%nat ->
  link <> 0%nat -> link <> last ->
  Z.of_nat (sumlen (i_h (t_c s3)) dl') + zlen (b_rest (t_r s3)) <= zlen src ->
  lab_le (i_h (t_c s3)) l1 (s_start (b_pos (t_r s3))) ->
  zlen (b_rest (t_r s3)) < zlen (b_rest (t_r s0)) ->
  exists s' nd,
    (ln <- iget (i_h (t_c s3)) last ;;
     lpar <- match ipar ln with Some p => Ok p | None => Panic end ;;
     h <- i_remove (i_h (t_c s3)) lpar last ;;
     let s := ist_c s3 (cx_h (t_c s3) h) in
     if lim then
       let '(c, img) := new_inode (t_c s) (IImage dest title) in
       lk <- iget (i_h c) link ;;
       h <- img_mv img (ich lk) (i_h c) ;;
       Ok (ist_c s (cx_h c h), Some img)
     else Ok (s, Some link)) = Ok (s', Some nd) /\ PPost s0 s' (Some nd).
Proof.
  intros C5 HR Hnl [P5 Hp5] Hndk Hplink Hlndk Hlnlk Hlinklt Hlink0 Hll Hsum Hlab Hlt.
  set (h5 := i_h (t_c s3)) in *.
  pose proof (ci_d _ _ _ _ _ C5) as [W5 K5 [rk R5] D5]. fold h5 in W5, K5, R5, D5.
  pose proof (par_lt _ _ _ Hp5) as Hlastlt. destruct (nth_error_ex_lt _ _ Hlastlt) as [ln Hln].
  rewrite (iget_ok _ _ _ Hln). cbn [bind].
  assert (Ep : ipar ln = Some P5) by (unfold par in Hp5; rewrite Hln in Hp5; exact Hp5). rewrite Ep. cbn [bind].
  destruct (i_remove_spec h5 P5 last W5 Hlastlt) as (h6 & E6 & W6 & SK6 & Pc6 & Pn6 & _).
  rewrite E6. cbn [bind]. cbv zeta.
  assert (R6 : Ranked rk h6) by (eapply ranked_detach; [exact R5|exact (Pc6 Hp5)|exact Pn6]).
  assert (Hyl : forall y, isdk h5 y \/ In y l1 -> y <> last).
  { intros y [Hy|Hy] X; subst y; contradiction. }
  assert (C6 : CInv (cx_h (t_c s3) h6) dl' l1).
  { eapply CInv_tree_ll; [exact C5| | | | | |]; cbn [i_h cx_h].
    - exact W6.
    - eapply kokh_same; eassumption.
    - exists rk. exact R6.
    - repeat split.
    - apply dl_same_kinds. exact SK6.
    - intros y Hy. fold h5. rewrite Pn6 by (apply Hyl; exact Hy). tauto. }
  assert (DS6 : dl_same h5 h6) by (apply dl_same_kinds; exact SK6).
  destruct SK6 as [L6 K6].
  assert (Hlndk6 : ~ isdk h6 link /\ ~ islk h6 link).
  { split; intros (k & Hk & Hx); [apply Hlndk|apply Hlnlk]; exists k; rewrite <- K6; auto. }
  destruct lim.
  - rewrite new_inode_eq. cbn [t_c t_r ist_c i_h cx_h].
    set (h7 := h6 ++ [fresh (IImage dest title)]). set (img := length h6).
    assert (W7 : HWF h7) by (apply hwf_snoc; exact W6).
    assert (L7 : length h7 = S (length h6)) by (unfold h7; rewrite app_length; cbn; lia).
    destruct (nth_error_ex_lt h7 link) as [lk Hlk]; [lia|]. rewrite (iget_ok _ _ _ Hlk). cbn [bind].
    assert (Ech : ich lk = chl h6 link) by (unfold h7 in Hlk; rewrite <- (chl_snoc h6 (IImage dest title) link); unfold chl; rewrite Hlk; reflexivity).
    set (rk'' := rk_set rk img (rk link)).
    assert (R7 : Ranked rk'' h7).
    { apply ranked_rk_set; [exact W7|apply ranked_snoc; exact R6| |].
      - unfold h7. rewrite par_snoc. apply par_ge_none. unfold img. lia.
      - unfold h7. rewrite chl_snoc. apply chl_ge_nil. unfold img. lia. }
    destruct (img_mv_spec rk'' img (ich lk) h7 W7 R7) as (h8 & E8 & W8 & SK8 & R8 & F8); [unfold img; lia| |].
    { intros x Hx. rewrite Ech in Hx. pose proof (hwf_child_lt h6 link x W6 Hx) as Hxlt.
      apply (w_pc h6 W6) in Hx. split; [lia|]. split.
      - intros X. subst x. rewrite (w_root h6 W6) in Hx. discriminate.
      - pose proof (R6 _ _ Hx) as Y. unfold rk'', rk_set. rewrite Nat.eqb_refl.
        destruct (Nat.eqb_spec x img) as [Exi|Exi]; [unfold img in Exi; lia|exact Y]. }
    rewrite E8. cbn [bind]. eexists _, _. split; [reflexivity|]. cbn [t_c t_r ist_c].
    assert (DS8 : dl_same h6 h8).
    { eapply dl_same_trans; [apply (dl_same_snoc h6 (IImage dest title)); reflexivity|apply dl_same_kinds; exact SK8]. }
    destruct SK8 as [L8 K8].
    apply (finish_some s0 _ (t_r s3) dl' l1 img h5); cbn [i_h cx_h]; try assumption.
    + eapply CInv_tree_ll; [exact C6| | | | | |]; cbn [i_h cx_h].
      * exact W8.
      * eapply kokh_same; [split; [exact L8|exact K8]|]. apply kokh_snoc; [|exact Logic.I]. eapply kokh_same; [split; eassumption|exact K5].
      * exists rk''. exact R8.
      * repeat split.
      * exact DS8.
      * intros y _. destruct (F8 y) as [X|[X1 X2]].
        -- rewrite X. unfold h7. rewrite par_snoc. tauto.
        -- rewrite X2. rewrite Ech in X1. apply (w_pc h6 W6) in X1. rewrite X1. split; discriminate.
    + unfold img. lia.
    + unfold img. lia.
    + intros (k & Hk & Hx). rewrite K8 in Hk. unfold h7, img in Hk. rewrite kd_snoc_new in Hk. inversion Hk; subst k. discriminate.
    + intros (k & Hk & Hx). rewrite K8 in Hk. unfold h7, img in Hk. rewrite kd_snoc_new in Hk. inversion Hk; subst k. discriminate.
    + eapply dl_same_trans; eassumption.
  - eexists _, _. split; [reflexivity|]. cbn [t_c t_r ist_c].
    apply (finish_some s0 _ (t_r s3) dl' l1 link h5); cbn [i_h cx_h]; try assumption; try tauto. lia.
Qed.

Lemma Bnd_llinkonly c c' dl ll ll' r : Bnd c dl ll r -> llinkonly (i_h c) (i_h c') ->
  (forall y, In y ll' -> In y ll) -> Bnd c' dl ll' r.
Proof.
  intros [B1 B2] LO Hsub. split.
  - rewrite (sumlen_frame (i_h c) (i_h c')) by (intros y _; apply dcoreh_dv; apply llinkonly_dv; exact LO). exact B1.
  - intros y sg im p n f l Hy Hk. destruct (llinkonly_seg_inv _ _ _ _ _ _ _ _ _ LO Hk) as (p1 & n1 & f1 & l1 & X).
    exact (B2 _ _ _ _ _ _ _ (Hsub y Hy) X).
Qed.

(* ---------- linkParser.Parse ---------- *)
Lemma link_parse_spec s dl ll : SInv s dl ll -> b_in_range (t_r s) = true ->
  exists s' res, link_parse space_table punct_table norm refs s 0%nat = Ok (s', res) /\ PPost s s' res.
Proof.
  intros Iv Hin. pose proof Iv as [C R B]. unfold link_parse.
  rewrite (ri_peek_line src segs _ R). cbn [bind]. rewrite Hin.
  destruct (ri_view src segs _ R Hin) as (_ & Elen & Hrange & Hstop & tl & Er).
  pose proof (ri_first_le src segs (t_r s) first R Hfirst Hin) as Hf.
  destruct (b_view (t_r s)) as [|c0 rest] eqn:Ev.
  { change (zlen (@nil N)) with 0 in Elen. lia. }
  pose proof (zlen_nonneg rest) as Hrest0. pose proof (zlen_nonneg tl) as Htl0.
  rewrite zlen_cons in Elen.
  cbn [t_c t_r ist_r ist_c].
  destruct (N.eqb c0 33).
  { destruct rest as [|c1 rest'].
    { eexists _, None. split; [reflexivity|]. apply (PPost_none_r _ _ _ _ dl ll). exact Iv. }
    destruct (N.eqb c1 91).
    2:{ eexists _, None. split; [reflexivity|]. apply (PPost_none_r _ _ _ _ dl ll). exact Iv. }
    rewrite zlen_cons in *. pose proof (zlen_nonneg rest') as Hrest1.
    destruct (ri_advance_rle src segs (t_r s) 1 R) as (r1 & E1 & HR1 & Hle1 & Hrest1' & Hpos1); [rewrite Er, zlen_app, !zlen_cons; lia|].
    rewrite E1. cbn [bind t_c t_r].
    destruct (open_label_spec s dl ll (push_bottom (t_c s)) r1
               (mkseg (s_start (b_pos (t_r s)) + 1 - 1) (s_start (b_pos (t_r s)) + 1 + 1)) true Iv) as (s' & st & E & P);
      try reflexivity; try assumption.
    - rewrite Hrest1', Er, zlen_app, !zlen_cons. lia.
    - unfold seg_in. cbn [mkseg s_start s_stop]. lia.
    - cbn [mkseg s_start s_stop]. lia.
    - cbn [mkseg s_start s_stop]. lia.
    - exists s', (Some st). split; [exact E|exact P]. }
  destruct (N.eqb c0 91).
  { destruct (open_label_spec s dl ll (push_bottom (t_c s)) (t_r s)
               (mkseg (s_start (b_pos (t_r s))) (s_start (b_pos (t_r s)) + 1)) false Iv) as (s' & st & E & P);
      try reflexivity; try assumption.
    - apply rle_refl.
    - rewrite Er, zlen_app, !zlen_cons. lia.
    - unfold seg_in. cbn [mkseg s_start s_stop]. lia.
    - cbn [mkseg s_start s_stop]. lia.
    - exists s', (Some st). split; [exact E|exact P]. }
  (* ']' *)
  pose proof (ci_ll _ _ _ _ _ C) as L. pose proof (ci_d _ _ _ _ _ C) as [W K A D].
  destruct (i_labels (t_c s)) as [tlist|] eqn:Elab.
  2:{ eexists _, None. split; [reflexivity|]. apply (PPost_none_r _ _ _ _ dl ll). exact Iv. }
  destruct (ll_last _ _ _ L tlist eq_refl) as (sg0 & im0 & p0 & n0 & f0 & Hk0). rewrite <- Elab in L.
  destruct (list_snoc_or_nil ll) as [Ell|(l1 & last & Ell)].
  { exfalso. pose proof (ll_head _ _ _ L) as X. rewrite Elab, Ell in X. discriminate. }
  subst ll. rewrite last_error_snoc in Hk0. rewrite (lget_spec _ _ _ _ _ _ _ _ Hk0). cbn [bind].
  destruct (ri_advance_rle src segs (t_r s) 1 R) as (r1 & E1 & HR1 & Hle1 & Hrest1 & Hpos1); [rewrite Er, zlen_app, zlen_cons; lia|].
  rewrite E1. cbn [bind].
  destruct (remove_label_spec (t_c s) last l1 [] L) as (c1 & Erl & LO1 & L1 & Fd & Fl & Fb).
  rewrite app_nil_r in L1. rewrite Erl. cbn [bind].
  assert (C1 : CInv c1 dl l1) by (eapply CInv_llinkonly; eassumption).
  destruct (label_length_spec (i_h c1) tlist (ll_lc _ _ _ L1)) as [z Ez].
  { apply (llinkonly_islk _ _ tlist LO1). eapply islk_intro. exact Hk0. }
  rewrite Ez. cbn [bind].
  (* the label that is being closed *)
  assert (Hlastin : In last (l1 ++ [last])) by (apply in_app_iff; right; left; reflexivity).
  destruct (islk_inv _ _ (lseg_in_lk _ _ _ _ _ (ll_seg _ _ _ L) Hlastin)) as (lsg & lim & lp & ln & lf & lla & Hkl).
  destruct (llinkonly_seg _ _ _ _ _ _ _ _ _ LO1 Hkl) as (lp1 & ln1 & lf1 & lla1 & Hkl1).
  destruct (par (i_h (t_c s)) last) as [P|] eqn:HpP; [|exfalso; exact (ll_att _ _ _ L last Hlastin HpP)].
  assert (HpP1 : par (i_h c1) last = Some P) by (rewrite (llinkonly_par _ _ LO1); exact HpP).
  assert (Hnl : ~ In last l1).
  { pose proof (ll_nd _ _ _ L) as Hnd. apply NoDup_remove_2 in Hnd. rewrite app_nil_r in Hnd. exact Hnd. }
  pose proof (proj2 B _ _ _ _ _ _ _ Hlastin Hkl) as Hlabstop.
  pose proof (K last _ Hkl) as Klast. cbn in Klast. destruct Klast as [Hlsg Hlsglo].
  assert (Hsub : forall y, In y l1 -> In y (l1 ++ [last])) by (intros y Hy; apply in_app_iff; left; exact Hy).
  assert (B1 : Bnd c1 dl l1 (t_r s)) by (eapply Bnd_llinkonly; eassumption).
  assert (Hfail : forall s1, t_c s1 = c1 -> RI (t_r s1) ->
            exists s' res, label_fail s1 last = Ok (s', res) /\ PPost s s' res).
  { intros s1 Ec HRs1. destruct (label_fail_spec s s1 dl l1 last lsg lim lp1 ln1 lf1 lla1 P) as (s' & E & Pp);
      try (rewrite Ec); try assumption. exists s', None. auto. }
  destruct (998 <? z); [apply Hfail; [reflexivity|exact HR1]|].
  rewrite (lget_spec _ _ _ _ _ _ _ _ Hkl1). cbn [bind].
  pose proof (ci_d _ _ _ _ _ C1) as [W1 K1 A1 D1].
  pose proof (par_lt _ _ _ HpP1) as Hlastlt. destruct (nth_error_ex_lt _ _ Hlastlt) as [lnode Hlnode].
  rewrite (iget_ok _ _ _ Hlnode). cbn [bind].
  assert (Ep : ipar lnode = Some P) by (unfold par in HpP1; rewrite Hlnode in HpP1; exact HpP1). rewrite Ep. cbn [bind].
  pose proof (hwf_par_lt _ _ _ W1 HpP1) as HPlt. destruct (nth_error_ex_lt _ _ HPlt) as [pnode Hpnode].
  rewrite (iget_ok _ _ _ Hpnode). cbn [bind].
  assert (Ech : ich pnode = chl (i_h c1) P) by (unfold chl; rewrite Hpnode; reflexivity).
  assert (Hhl : exists hl, (if lim then Ok false else contains_link (S (length (i_h c1))) (i_h c1) (from_id last (ich pnode))) = Ok hl).
  { destruct lim; [eexists; reflexivity|]. rewrite Ech. apply contains_link_siblings; assumption. }
  destruct Hhl as [hl Ehl]. rewrite Ehl. cbn [bind].
  destruct hl; [apply Hfail; [reflexivity|exact HR1]|].
  rewrite (ri_peek src segs r1 HR1). cbn [bind].
  set (pk := if b_in_range r1 then hd 255%N (b_view r1) else 255%N).
  assert (Hne : segs <> []) by (intros X; rewrite X in Hfirst; discriminate).
  assert (Hr1lt : zlen (b_rest r1) < zlen (b_rest (t_r s))) by lia.
  change (ist_c (ist_r (ist_r s (t_r s)) r1) c1) with {| t_c := c1; t_r := r1 |}.
  (* the continuation after the attempt to read an inline link or a full reference *)
  match goal with |- exists s' res, bind ?X ?K = Ok (s', res) /\ _ =>
    assert (HK : forall o, match o with
                           | inl s1 => t_c s1 = c1 /\ RI (t_r s1) /\ rle r1 (t_r s1)
                           | inr (s1, _) => t_c s1 = c1 /\ RI (t_r s1) /\ rle r1 (t_r s1)
                           end -> exists s' res, K o = Ok (s', res) /\ PPost s s' res) end.
  { intros o Ho. destruct o as [s1|[s1 res0]]; cbv beta iota.
    { destruct Ho as (Ec & HRs1 & _). apply Hfail; assumption. }
    destruct Ho as (Ec & HRs1 & Hles1).
    match goal with |- exists s' res, bind ?X ?K = Ok (s', res) /\ _ =>
      assert (HK2 : forall fin, match fin with
                             | inl s2 => t_c s2 = c1 /\ RI (t_r s2) /\ rle r1 (t_r s2)
                             | inr (s2, _) => t_c s2 = c1 /\ RI (t_r s2) /\ rle r1 (t_r s2)
                             end -> exists s' res, K fin = Ok (s', res) /\ PPost s s' res) end.
    { intros fin Hfin. destruct fin as [s2|[s2 [dest title]]]; cbv beta iota.
      { destruct Hfin as (Ec2 & HRs2 & _). apply Hfail; assumption. }
      destruct Hfin as (Ec2 & HRs2 & Hles2).
      rewrite new_inode_eq. rewrite Ec2.
      assert (B2 : Bnd c1 dl l1 (t_r s2)).
      { eapply Bnd_rle; [exact B1|]. eapply rle_trans; eassumption. }
      destruct (process_link_label_spec s2 c1 dl l1 last lsg lim lp1 ln1 lf1 lla1 P dest title Ec2 HRs2 C1 B2 Hnl Hkl1 HpP1)
        as (s3 & dl' & E3 & Er3 & C3 & Hsum3 & Hlv3 & HP5 & Hplink & Hlndk & Hlnlk & Hndk & Hlinklt).
      rewrite E3. cbn [bind].
      pose proof (w_len _ W1) as Hlenpos.
      destruct (link_tail_spec s s3 dl' l1 last (length (i_h c1)) lim dest title C3) as (s' & nd & E & Pp); try assumption.
      - rewrite Er3. exact HRs2.
      - lia.
      - lia.
      - rewrite Er3. destruct B2 as [B2a _]. lia.
      - rewrite Er3. eapply lab_le_lv; [exact Hlv3|]. exact (proj2 B2).
      - rewrite Er3. destruct Hles2. lia.
      - exists s', (Some nd). split; [exact E|exact Pp]. }
    destruct res0 as [dt|].
    { cbn [bind]. apply (HK2 (inr (s1, dt))). auto. }
    destruct (ri_set_position src segs (t_r s1) r1 HRs1 HR1 Hne) as (r0 & E0 & HR0 & Hl0 & Hp0).
    rewrite E0. cbn [bind].
    assert (Hle0 : rle r1 r0).
    { destruct (ri_same_pos src segs r0 r1 HR0 HR1 Hl0 Hp0) as (_ & _ & X). split; [rewrite X; lia|rewrite Hp0; lia]. }
    destruct (ri_b_value src segs r0 (mkseg (s_stop lsg) (s_start (b_pos (t_r s)))) first HR0 Hfirst) as [v Ev0];
      [cbn [mkseg s_start s_stop]; lia|cbn [mkseg s_start s_stop]; lia|].
    rewrite Ev0. cbn [bind].
    destruct (999 <? zlen v).
    { cbn [bind]. apply (HK2 (inl (ist_r s1 r0))). cbn [t_c t_r ist_r]. auto. }
    destruct (lookup_ref norm refs v) as [dt|]; cbn [bind].
    - apply (HK2 (inr (ist_r s1 r0, dt))). cbn [t_c t_r ist_r]. auto.
    - apply (HK2 (inl (ist_r s1 r0))). cbn [t_c t_r ist_r]. auto. }
  assert (Hs1 : forall r', t_c {| t_c := c1; t_r := r' |} = c1) by reflexivity.
  destruct (N.eqb pk 40) eqn:Epk40.
  { assert (Hr1in : b_in_range r1 = true).
    { unfold pk in Epk40. destruct (b_in_range r1); [reflexivity|discriminate]. }
    destruct (ri_parse_link src segs space_table punct_table first Hfirst r1 HR1) as (r2 & res & E2 & HR2 & Hle2).
    { apply (ri_rest_pos src segs r1 HR1 Hr1in). }
    rewrite E2. cbn [bind]. apply (HK (inr (_, res))). cbn [t_c t_r ist_r]. auto. }
  destruct (N.eqb pk 91) eqn:Epk91.
  { assert (Hr1in : b_in_range r1 = true).
    { unfold pk in Epk91. destruct (b_in_range r1); [reflexivity|discriminate]. }
    destruct (parse_reference_link_spec {| t_c := c1; t_r := r1 |} last lsg lim lp1 ln1 lf1 lla1) as (r2 & res & hv & E2 & HR2 & Hle2);
      cbn [t_c t_r]; try assumption; [lia|].
    rewrite E2. cbn [bind]. destruct res as [dt|]; [|destruct hv].
    - apply (HK (inr (_, Some dt))). cbn [t_c t_r ist_r]. auto.
    - apply (HK (inl _)). cbn [t_c t_r ist_r]. auto.
    - apply (HK (inr (_, None))). cbn [t_c t_r ist_r]. auto. }
  cbn [bind]. apply (HK (inr (_, None))). cbn [t_c t_r]. split; [reflexivity|]. split; [exact HR1|apply rle_refl].
Qed.


End Lk.
