(* Helper file for TypoDefWfInl.v: copy of the parser part of proofs/ParseInlineRangeParsers.v over
   the reader invariant of TypoDefWfInlReader.v (lines without padding, or one line): every
   inline parser of model/InlineParse.v keeps the invariant "heap well formed
   (ParseInlineRangeHeap.ctx_ok) and reader inside the block (TypoDefWfInlReader.RI)".
   The proofs are those of the core file (the interface of RI is unchanged). *)
Require Import GM.model.Base GM.model.Util GM.model.Reader GM.model.ReaderSpec GM.model.Blocks GM.model.ListItem
               GM.model.LeafBlocks GM.model.CodeSpan GM.model.LinkDest GM.model.Regex GM.model.Delim GM.model.HtmlWriter
               GM.model.Html GM.model.HtmlSpec GM.model.BlockParse GM.model.InlineParse.
Require Import GM.proofs.BReaderProofs GM.proofs.BlockRangeProofs GM.proofs.RegexProofs GM.proofs.ParseInv.
Require Import GM.proofs.ParseInlineRangeHeap GM.proofs.ParseInlineRangeReader GM.proofs.TypoDefWfInlReader.
From Coq Require Import ZArith Lia List Bool.
Import ListNotations.
Open Scope Z_scope.

(* ---------- small list facts ---------- *)
Lemma count_byte_range ch l : 0 <= count_byte ch l <= zlen l.
Proof.
  induction l as [|c r IH]; cbn [count_byte]; [unfold zlen; cbn; lia|].
  rewrite zlen_cons. destruct (N.eqb c ch); lia.
Qed.

Lemma zlen_zskip {A} (n : Z) (l : list A) : zlen (zskip n l) = Z.max 0 (zlen l - Z.max 0 n).
Proof. unfold zlen, zskip. rewrite skipn_length. lia. Qed.

Lemma prefix_of_len p s : prefix_of p s = true -> zlen p <= zlen s.
Proof.
  revert s. induction p as [|a p IH]; intros s H; [unfold zlen; cbn; lia|].
  destruct s as [|b s]; cbn in H; [discriminate|]. apply andb_prop in H. destruct H as [_ H].
  apply IH in H. rewrite !zlen_cons. lia.
Qed.

Lemma seg_in_intro src s : 0 <= s_start s -> s_start s <= s_stop s -> s_stop s <= zlen src -> 0 <= s_pad s -> seg_in src s = true.
Proof. intros. apply seg_in_iff. auto. Qed.

(* ---------- code spans (reader level) ---------- *)
Lemma find_closer_range : forall fuel l i opener k, find_closer fuel l i opener = Some k -> i <= k <= i + zlen l.
Proof.
  induction fuel as [|f IH]; intros l i opener k H; cbn [find_closer] in H; [discriminate|].
  destruct l as [|c r]; [discriminate|]. cbv zeta in H. destruct (N.eqb c 96).
  - pose proof (count_byte_range 96 (c :: r)) as Hc. destruct (_ =? opener).
    + assert (Hk : k = i + count_byte 96 (c :: r)) by congruence. lia.
    + pose proof (zlen_zskip (count_byte 96 (c :: r) + 1) (c :: r)) as Hz.
      destruct (zskip (count_byte 96 (c :: r) + 1) (c :: r)) as [|z zs] eqn:Ez; [destruct f; discriminate|].
      apply IH in H. rewrite !zlen_cons in *. pose proof (zlen_nonneg zs). lia.
  - apply IH in H. rewrite zlen_cons. lia.
Qed.

Section Parsers.
Variable space_table punct_table : list N.
Variable norm : bytes -> bytes.
Variable url_table email_table : list N.
Variable re_email_domain re_open_tag re_close_tag : re.
Variable punct_rune space_rune : N -> bool.
Variable refs : list (bytes * (bytes * option bytes)).
Variable src : bytes.
Variable lines : list seg.
Hypothesis Hsp32 : is_space space_table 32 = true.
Hypothesis Hsp10 : is_space space_table 10 = true.
Hypothesis Hsrc : bytes_ok src.
Hypothesis Hrefs : refs_ok refs.

Notation RI := (RI src lines).
Definition good (s : seg) : Prop := seg_in src s = true /\ s_pad s = 0.

Lemma good_pos r : RI r -> b_in_range r = true -> good (b_pos r).
Proof.
  intros H Hin. destruct (b_inv_in_range r (ri_inv _ _ _ H) Hin) as [H1 H2]. rewrite (ri_src _ _ _ H) in H2.
  split; [|exact (ri_pad _ _ _ H)]. apply seg_in_intro; try lia. rewrite (ri_pad _ _ _ H). lia.
Qed.

Lemma code_span_lines_ok : forall fuel r opener acc segs r', RI r -> 0 <= opener -> Forall good acc ->
  code_span_lines fuel r opener acc = Ok (Some (segs, r')) -> Forall good segs /\ RI r'.
Proof.
  induction fuel as [|f IH]; intros r opener acc segs r' H Ho Ha Hc; cbn [code_span_lines] in Hc; [discriminate|].
  destruct (b_peek_line r) as [[[r1 line] sg]| |] eqn:Ep; cbn [bind] in Hc; try discriminate.
  destruct (ri_peek _ _ _ _ _ _ H Ep) as (-> & -> & Hline).
  destruct line as [l|]; [|discriminate]. destruct Hline as (Hin & Hv & Hlen & Hs0 & Hs1 & Hs2 & _).
  pose proof (good_pos r H Hin) as Hg.
  destruct (find_closer (S (length l)) l 0 opener) as [i|] eqn:Ef.
  - apply find_closer_range in Ef.
    destruct (b_advance r i) as [r2| |] eqn:Ea; cbn [bind] in Hc; try discriminate.
    inversion Hc; subst segs r'. clear Hc. split.
    + destruct (seg_is_empty _) eqn:Ee; [exact Ha|]. apply Forall_app. split; [exact Ha|]. constructor; [|constructor].
      unfold seg_is_empty, seg_with_stop, mksegp in Ee. cbn [s_start s_stop s_pad] in Ee. rewrite (ri_pad _ _ _ H) in Ee.
      split; [|exact (ri_pad _ _ _ H)]. apply seg_in_intro; cbn [seg_with_stop mksegp s_start s_stop s_pad]; try lia.
      rewrite (ri_pad _ _ _ H). lia.
    + eapply ri_advance_in; [exact H|exact Hin| |exact Ea]. lia.
  - destruct (b_advance_line r) as [r2| |] eqn:Ea; cbn [bind] in Hc; try discriminate.
    destruct (ri_advance_line _ _ _ _ H Ea) as (H2 & _).
    eapply IH; [exact H2|exact Ho| |exact Hc]. apply Forall_app. split; [exact Ha|]. constructor; [exact Hg|constructor].
Qed.

Lemma update_first_forall (P : seg -> Prop) l f : Forall P l -> (forall x tl, l = x :: tl -> P (f x)) -> Forall P (update_first l f).
Proof.
  intros H Hf. destruct l as [|x tl]; cbn; [constructor|]. inversion H; subst. constructor; [eapply Hf; reflexivity|assumption].
Qed.

Lemma update_last_forall (P : seg -> Prop) l f : Forall P l -> (forall x pre, l = pre ++ [x] -> P (f x)) -> Forall P (update_last l f).
Proof.
  intros H Hf. unfold update_last. destruct (rev l) as [|x r] eqn:E; [constructor|].
  assert (El : l = rev r ++ [x]). { rewrite <- (rev_involutive l), E. reflexivity. }
  cbn [rev]. apply Forall_app. split.
  - rewrite El in H. apply Forall_app in H. tauto.
  - constructor; [eapply Hf; exact El|constructor].
Qed.

Lemma seg_value_one s c : good s -> s_fnl s = false -> s_stop s = s_start s + 1 -> at_ src (s_start s) = Ok c -> seg_value src s = Ok [c].
Proof.
  intros [Hin Hp] Hf Hl Ha. apply seg_in_iff in Hin. unfold seg_value.
  rewrite BReaderProofs.slice_ok by lia. cbn [bind]. rewrite Hp, Hf. cbn.
  unfold at_ in Ha. destruct (_ && _); [|discriminate]. inversion Ha; subst c.
  rewrite Hl. rewrite (sub_cons src (s_start s) (s_start s + 1)) by lia. rewrite sub_empty by lia. reflexivity.
Qed.

Lemma code_span_parse_ok r res r' : RI r -> code_span_parse space_table r = Ok (res, r') ->
  RI r' /\ match res with inr sg => seg_in src sg = true | inl segs => Forall (fun s => seg_in src s = true) segs end.
Proof.
  unfold code_span_parse. intros H Hc.
  destruct (b_peek_line r) as [[[r1 line] sg]| |] eqn:Ep; cbn [bind] in Hc; try discriminate.
  destruct (ri_peek _ _ _ _ _ _ H Ep) as (-> & -> & Hline).
  set (ln := match line with Some l => l | None => [] end) in *.
  pose proof (count_byte_range 96 ln) as Hop. set (opener := count_byte 96 ln) in *.
  destruct (b_advance r opener) as [r1| |] eqn:Ea; cbn [bind] in Hc; try discriminate.
  assert (H1 : RI r1 /\ s_start (b_pos r) + opener <= zlen src /\ (b_in_range r = true -> s_start (b_pos r) + opener <= s_stop (b_pos r))).
  { destruct line as [l|].
    - destruct Hline as (Hin & Hv & Hlen & Hs0 & Hs1 & Hs2 & _). subst ln. split; [|lia].
      eapply ri_advance_in; [exact H|exact Hin| |exact Ea]. lia.
    - subst ln. change (zlen (@nil N)) with 0 in Hop. assert (opener = 0) by lia.
      split; [|split; [pose proof (ri_bounds _ _ _ H); lia|congruence]].
      destruct (ri_advance src lines r opener r1 H) as (H1 & _); [pose proof (zlen_nonneg (b_rest r)); lia|exact Ea|exact H1]. }
  destruct H1 as (H1 & Hb1 & _).
  destruct (code_span_lines (S (length (b_segs r1))) r1 opener []) as [y| |] eqn:El; cbn [bind] in Hc; try discriminate.
  destruct y as [[segs r2]|].
  2:{ destruct (b_set_position r1 (b_line r1) (b_pos r1)) as [r3| |] eqn:Es; cbn [bind] in Hc; try discriminate.
      inversion Hc; subst res r'. clear Hc. destruct (ri_set_position _ _ _ _ _ H1 H1 Es) as (H3 & _). split; [exact H3|].
      pose proof (ri_bounds _ _ _ H). apply seg_in_intro; cbn [seg_with_stop mksegp s_start s_stop s_pad]; try lia.
      rewrite (ri_pad _ _ _ H). lia. }
  destruct (code_span_lines_ok (S (length (b_segs r1))) r1 opener [] segs r2 H1) as [Hg H2]; [lia|constructor|exact El|].
  assert (Hgs : forall l, Forall good l -> Forall (fun s => seg_in src s = true) l).
  { intros l Hl. eapply Forall_impl; [|exact Hl]. intros s [Hs _]. exact Hs. }
  destruct (all_blank space_table (b_src r2) segs) as [blank| |] eqn:Eb; cbn [bind] in Hc; try discriminate.
  destruct blank; [inversion Hc; subst; split; [exact H2|apply Hgs; exact Hg]|].
  destruct segs as [|first tl]; [discriminate|].
  destruct (rev (first :: tl)) as [|last rv] eqn:Er; [discriminate|].
  match type of Hc with (_ <- ?X ;; _) = _ => destruct X as [cf| |] eqn:Ecf end; cbn [bind] in Hc; try discriminate.
  match type of Hc with (_ <- ?X ;; _) = _ => destruct X as [cl| |] eqn:Ecl end; cbn [bind] in Hc; try discriminate.
  destruct (cf && cl) eqn:Eboth; [|inversion Hc; subst; split; [exact H2|apply Hgs; exact Hg]].
  inversion Hc; subst res r'. clear Hc. split; [exact H2|]. apply Hgs.
  apply andb_prop in Eboth. destruct Eboth as [-> ->].
  rewrite (ri_src _ _ _ H2) in *.
  assert (Elast : first :: tl = rev rv ++ [last]). { rewrite <- (rev_involutive (first :: tl)), Er. reflexivity. }
  (* facts from cf and cl *)
  destruct (seg_is_empty first) eqn:Eef; [inversion Ecf|]. destruct (seg_is_empty last) eqn:Eel; [inversion Ecl|].
  destruct (at_ src (s_start first)) as [c1| |] eqn:Ea1; cbn [bind] in Ecf; try discriminate.
  destruct (at_ src (s_stop last - 1)) as [c2| |] eqn:Ea2; cbn [bind] in Ecl; try discriminate.
  inversion Ecf as [Hc1]. inversion Ecl as [Hc2].
  assert (Hgf : good first) by (inversion Hg; assumption).
  assert (Hgl : good last). { rewrite Elast in Hg. apply Forall_app in Hg. destruct Hg as [_ Hg]. inversion Hg; assumption. }
  assert (Hfl : s_start first < s_stop first).
  { unfold seg_is_empty in Eef. destruct Hgf as [_ Hp]. rewrite Hp in Eef. cbn in Eef. lia. }
  assert (Hll : s_start last < s_stop last).
  { unfold seg_is_empty in Eel. destruct Hgl as [_ Hp]. rewrite Hp in Eel. cbn in Eel. lia. }
  destruct tl as [|t2 tl'].
  - (* a single segment *)
    assert (last = first). { destruct rv as [|a rv']; cbn in Elast; [inversion Elast; reflexivity|].
      apply (f_equal (@length seg)) in Elast. rewrite app_length in Elast. cbn in Elast. rewrite app_length in Elast. cbn in Elast. lia. }
    subst last. cbn [update_first]. unfold update_last. cbn [rev app].
    constructor; [|constructor]. destruct Hgf as [Hin Hp]. apply seg_in_iff in Hin.
    destruct (Z.eq_dec (s_stop first) (s_start first + 1)) as [E1|E1].
    + exfalso. cbn [all_blank] in Eb.
      assert (Hf : s_fnl first = false \/ s_fnl first = true) by (destruct (s_fnl first); auto).
      destruct (seg_value src first) as [v| |] eqn:Ev; cbn [bind] in Eb; try discriminate.
      assert (Hb : ListItem.is_blank space_table v = true).
      { unfold seg_value in Ev. rewrite BReaderProofs.slice_ok in Ev by lia. cbn [bind] in Ev. rewrite Hp in Ev. cbn in Ev.
        rewrite E1 in Ev. rewrite (sub_cons src (s_start first) (s_start first + 1)) in Ev by lia. rewrite sub_empty in Ev by lia.
        unfold at_ in Ea1. destruct (_ && _) in Ea1; [|discriminate]. inversion Ea1 as [Hn]. rewrite Hn in Ev.
        assert (Hs1 : is_space space_table c1 = true).
        { unfold is_space_or_newline in Hc1. apply orb_prop in Hc1. destruct Hc1 as [E|E]; apply N.eqb_eq in E; subst c1; assumption. }
        destruct (s_fnl first).
        - cbn [rev app] in Ev. destruct (N.eqb c1 10) eqn:E10; inversion Ev; subst v; unfold ListItem.is_blank; cbn; rewrite Hs1; [reflexivity|].
          rewrite Hsp10. reflexivity.
        - inversion Ev; subst v. unfold ListItem.is_blank. cbn. rewrite Hs1. reflexivity. }
      rewrite Hb in Eb. cbn in Eb. discriminate.
    + split; [|cbn; exact Hp]. apply seg_in_intro; cbn [seg_with_start seg_with_stop mksegp s_start s_stop s_pad]; lia.
  - (* several segments: the first and the last are different nodes *)
    cbn [update_first]. apply update_last_forall.
    + inversion Hg as [|? ? _ Htl]; subst. constructor; [|exact Htl].
      destruct Hgf as [Hin Hp]. apply seg_in_iff in Hin. split; [|cbn; exact Hp].
      apply seg_in_intro; cbn [seg_with_start mksegp s_start s_stop s_pad]; lia.
    + intros x pre Ex.
      assert (x = last).
      { assert (E2 : first :: t2 :: tl' = (first :: removelast (t2 :: tl')) ++ [List.last (t2 :: tl') first]).
        { cbn [app]. f_equal. apply app_removelast_last. discriminate. }
        assert (E3 : seg_with_start first (s_start first + 1) :: t2 :: tl' =
                     (seg_with_start first (s_start first + 1) :: removelast (t2 :: tl')) ++ [List.last (t2 :: tl') first]).
        { cbn [app]. f_equal. apply app_removelast_last. discriminate. }
        rewrite E3 in Ex. apply app_inj_tail in Ex. rewrite E2 in Elast. apply app_inj_tail in Elast. destruct Ex, Elast. congruence. }
      subst x. destruct Hgl as [Hin Hp]. apply seg_in_iff in Hin. split; [|cbn; exact Hp].
      apply seg_in_intro; cbn [seg_with_stop mksegp s_start s_stop s_pad]; lia.
Qed.

(* ---------- the state invariant ---------- *)
Definition pok (h : iheap) (p : nat) : Prop := exists k, kd h p = Some k /\ cls k <> 2%nat.
Lemma pok_kle h h' p : kle h h' -> pok h p -> pok h' p.
Proof. intros Hk (k & E & C). destruct (Hk p k E) as (k' & E' & C'). exists k'. split; [exact E'|congruence]. Qed.
Lemma pok_edge h p x : pok h p -> edge_ok h p x.
Proof. intros (k & E & C) E'. rewrite E in E'. inversion E'; subst k. cbn in C. congruence. Qed.

Definition st_ok (s : ist) (L : list nat) : Prop := ctx_ok src [] (t_c s) L /\ RI (t_r s).
Definition res_ok (s : ist) (L : list nat) (res : option nat) : Prop :=
  forall n, res = Some n -> dlk (i_h (t_c s)) n = None \/ In n L.
(* what every inline parser guarantees *)
Definition pstep (s s' : ist) (res : option nat) : Prop :=
  exists L', st_ok s' L' /\ kle (i_h (t_c s)) (i_h (t_c s')) /\ res_ok s' L' res.

Lemma kd_dlk_none h n k : kd h n = Some k -> cls k <> 8%nat -> dlk h n = None.
Proof. intros E C. unfold dlk. rewrite E. destruct k; try reflexivity. cbn in C. congruence. Qed.

(* ---------- code spans ---------- *)
Lemma code_span_add_ok n : forall segs c c' E L,
  (fix add (l : list seg) (c : ictx) : result ictx :=
     match l with
     | [] => Ok c
     | sg :: t => let '(c, x) := new_inode c (IText sg false false true) in
                  h <- i_append (i_h c) n x ;; add t (cx_h c h)
     end) segs c = Ok c' ->
  ctx_ok src E c L -> Forall (fun s => seg_in src s = true) segs ->
  ctx_ok src E c' L /\ kle (i_h c) (i_h c').
Proof.
  induction segs as [|sg t IH]; intros c c' E L H Hc Hs.
  - inversion H; subst. split; [exact Hc|apply kle_refl].
  - inversion Hs as [|? ? Hsg Ht]; subst.
    destruct (new_inode c (IText sg false false true)) as [c1 x] eqn:En.
    destruct (i_append (i_h c1) n x) as [h| |] eqn:Ea; cbn [bind] in H; try discriminate.
    destruct (ctx_new src _ _ _ _ _ _ En Hsg Hc) as (Hc1 & Hk1 & _ & Kx & _).
    pose proof (i_append_spec _ _ _ _ Ea (h_tree _ _ (proj1 Hc1))) as Hat.
    destruct (ctx_attach src _ _ _ _ _ _ Hc1 Hat) as [Hc2 Hk2].
    { eapply text_edge. exact Kx. }
    { left. eapply kd_dlk_none; [exact Kx|cbn; lia]. }
    destruct (IH _ _ _ _ H Hc2 Ht) as [Hc3 Hk3].
    split; [exact Hc3|]. eapply kle_trans; [exact Hk1|]. eapply kle_trans; [exact Hk2|exact Hk3].
Qed.

Lemma code_span_parse_s_ok s s' res L : st_ok s L -> code_span_parse_s space_table s = Ok (s', res) -> pstep s s' res.
Proof.
  unfold code_span_parse_s. intros [Hc Hr] H.
  destruct (code_span_parse space_table (t_r s)) as [[cres r]| |] eqn:Ec; cbn [bind] in H; try discriminate.
  destruct (code_span_parse_ok _ _ _ Hr Ec) as [Hr' Hres].
  destruct cres as [segs|sg].
  - destruct (new_inode (t_c s) ICodeSpan) as [c1 n] eqn:En.
    destruct (ctx_new src _ _ _ _ _ _ En I Hc) as (Hc1 & Hk1 & _ & Kn & _).
    match type of H with (_ <- ?X ;; _) = _ => destruct X as [c2| |] eqn:Eadd end; cbn [bind] in H; try discriminate.
    inversion H; subst s' res. clear H.
    destruct (code_span_add_ok n segs c1 c2 [] L Eadd Hc1 Hres) as [Hc2 Hk2].
    exists L. split; [split; assumption|]. split; [eapply kle_trans; eassumption|].
    intros m Em. inversion Em; subst m. left. cbn [t_c].
    destruct (Hk2 n _ Kn) as (k' & Ek' & Ck'). eapply kd_dlk_none; [exact Ek'|rewrite Ck'; cbn; lia].
  - destruct (new_inode (t_c s) (mk_text sg)) as [c1 n] eqn:En.
    inversion H; subst s' res. clear H.
    destruct (ctx_new src _ _ _ _ _ _ En Hres Hc) as (Hc1 & Hk1 & _ & Kn & _).
    exists L. split; [split; assumption|]. split; [exact Hk1|].
    intros m Em. inversion Em; subst m. left. eapply kd_dlk_none; [exact Kn|cbn; lia].
Qed.

(* ---------- emphasis ---------- *)
Lemma emphasis_parse_ok s s' res L : st_ok s L -> emphasis_parse punct_rune space_rune s = Ok (s', res) -> pstep s s' res.
Proof.
  unfold emphasis_parse. intros [Hc Hr] H.
  destruct (b_preceding (t_r s)) as [before| |]; cbn [bind] in H; try discriminate.
  destruct (b_peek_line (t_r s)) as [[[r1 line] sg]| |] eqn:Ep; cbn [bind] in H; try discriminate.
  destruct (ri_peek _ _ _ _ _ _ Hr Ep) as (-> & -> & Hline).
  destruct (scan_delimiter _ _ _ _ _ _) as [d| |] eqn:Es; cbn [bind] in H; try discriminate.
  destruct d as [[[[co cc] len] chh]|].
  2:{ inversion H; subst s' res. exists L. split; [split; assumption|]. split; [apply kle_refl|]. intros n E. discriminate. }
  apply scan_delimiter_in_range in Es. destruct Es as (Hlen & _ & _).
  destruct line as [l|]; cbn [line_of] in Hlen; [|change (zlen (@nil N)) with 0 in Hlen; lia].
  destruct Hline as (Hin & Hv & Hl & Hs0 & Hs1 & Hs2 & _).
  cbn [ist_r t_c t_r] in H.
  destruct (new_inode (t_c s) _) as [c1 n] eqn:En.
  destruct (b_advance (t_r s) len) as [r2| |] eqn:Ea; cbn [bind] in H; try discriminate.
  destruct (push_delimiter c1 n) as [c2| |] eqn:Epd; cbn [bind] in H; try discriminate.
  inversion H; subst s' res. clear H.
  assert (Hko : kind_ok src (IDelim (seg_with_stop (b_pos (t_r s)) (s_start (b_pos (t_r s)) + len)) co cc len len chh None None)).
  { cbn. split; [|split; [lia|reflexivity]]. apply seg_in_intro; cbn [seg_with_stop mksegp s_start s_stop s_pad]; try lia.
    rewrite (ri_pad _ _ _ Hr). lia. }
  destruct (ctx_new src _ _ _ _ _ _ En Hko Hc) as (Hc1 & Hk1 & _ & Kn & _ & _ & HnL & _).
  destruct (push_delimiter_ok src _ _ _ _ _ len Epd Hc1) as (Hc2 & Hk2 & _).
  { unfold dlk. rewrite Kn. reflexivity. }
  { exact HnL. }
  { unfold dlen. rewrite Kn. reflexivity. }
  { lia. }
  exists (L ++ [n]). split; [split; [exact Hc2|]|].
  - cbn [t_r]. eapply ri_advance_in; [exact Hr|exact Hin| |exact Ea]. lia.
  - split; [eapply kle_trans; eassumption|]. intros m Em. inversion Em; subst m. right. rewrite in_app_iff. cbn. auto.
Qed.

(* ---------- autolinks ---------- *)
Lemma autolink_parse_ok s s' res L : st_ok s L ->
  autolink_parse url_table email_table re_email_domain s = Ok (s', res) -> pstep s s' res.
Proof.
  unfold autolink_parse. intros [Hc Hr] H.
  destruct (b_peek_line (t_r s)) as [[[r1 line] sg]| |] eqn:Ep; cbn [bind] in H; try discriminate.
  destruct (ri_peek _ _ _ _ _ _ Hr Ep) as (-> & -> & Hline).
  destruct line as [[|c0 tl]|]; try discriminate.
  destruct Hline as (Hin & Hv & Hl & Hs0 & Hs1 & Hs2 & _).
  assert (Hnone : forall s0, s0 = ist_r s (t_r s) -> st_ok s0 L /\ kle (i_h (t_c s)) (i_h (t_c s0))).
  { intros s0 ->. split; [split; assumption|apply kle_refl]. }
  match type of H with (let '(stop, email) := ?X in _) = _ => destruct X as [stop email] end.
  destruct (stop <? 0) eqn:Eneg.
  { inversion H; subst s' res. destruct (Hnone _ eq_refl) as [A B]. exists L. split; [exact A|]. split; [exact B|]. intros n E; discriminate. }
  cbn [line_of] in H. destruct (_ || _) eqn:Ecnd.
  { inversion H; subst s' res. destruct (Hnone _ eq_refl) as [A B]. exists L. split; [exact A|]. split; [exact B|]. intros n E; discriminate. }
  cbn [ist_r t_c t_r] in H.
  destruct (new_inode (t_c s) _) as [c1 n] eqn:En.
  destruct (b_advance (t_r s) (stop + 1 + 1)) as [r2| |] eqn:Ea; cbn [bind] in H; try discriminate.
  inversion H; subst s' res. clear H.
  destruct (ctx_new src _ _ _ _ _ _ En I Hc) as (Hc1 & Hk1 & _ & Kn & _).
  apply orb_false_elim in Ecnd. destruct Ecnd as [Ec1 _]. apply Z.leb_gt in Ec1. apply Z.ltb_ge in Eneg.
  exists L. split; [split; [exact Hc1|]|].
  - cbn [t_r]. eapply ri_advance_in; [exact Hr|exact Hin| |exact Ea]. lia.
  - split; [exact Hk1|]. intros m Em. inversion Em; subst m. left. eapply kd_dlk_none; [exact Kn|cbn; lia].
Qed.

(* ---------- raw HTML ---------- *)
Lemma index_of_range pat : pat <> [] -> forall s i, -1 < index_of pat s i -> 0 <= i ->
  i <= index_of pat s i /\ index_of pat s i - i + zlen pat <= zlen s.
Proof.
  intros Hp. induction s as [|c tl IH]; intros i H Hi; cbn [index_of] in *.
  - destruct pat; [congruence|lia].
  - destruct (prefix_of pat (c :: tl)) eqn:E.
    + apply prefix_of_len in E. lia.
    + destruct (IH (i + 1) H ltac:(lia)) as [H1 H2]. rewrite zlen_cons. lia.
Qed.

Notation segs_in := (Forall (fun s => seg_in src s = true)).

Lemma segs_in_forallb l : segs_in l -> forallb (seg_in src) l = true.
Proof. intros H. apply forallb_forall. apply Forall_forall. exact H. Qed.

Lemma raw_until_ok closer : closer <> [] -> forall fuel r offset acc segs r', RI r -> 0 <= offset -> segs_in acc ->
  raw_until fuel r closer offset acc = Ok (Some (segs, r')) -> segs_in segs /\ RI r'.
Proof.
  intros Hcl. induction fuel as [|f IH]; intros r offset acc segs r' H Ho Ha Hu; cbn [raw_until] in Hu; [discriminate|].
  destruct (b_peek_line r) as [[[r1 line] sg]| |] eqn:Ep; cbn [bind] in Hu; try discriminate.
  destruct (ri_peek _ _ _ _ _ _ H Ep) as (-> & -> & Hline).
  destruct line as [l|]; [|discriminate]. destruct Hline as (Hin & Hv & Hl & Hs0 & Hs1 & Hs2 & _).
  destruct (good_pos r H Hin) as [Hg _].
  destruct (Z.ltb_spec (-1) (index_of closer (zskip offset l) 0)) as [Hfound|Hnot].
  - destruct (index_of_range closer Hcl (zskip offset l) 0 Hfound ltac:(lia)) as [I1 I2].
    rewrite zlen_zskip in I2. assert (Hc1 : 1 <= zlen closer). { destruct closer; [congruence|rewrite zlen_cons; pose proof (zlen_nonneg closer); lia]. }
    set (n := offset + index_of closer (zskip offset l) 0 + zlen closer) in *.
    assert (Hn : 0 <= n <= zlen l) by lia.
    destruct (b_advance r n) as [r2| |] eqn:Ea; cbn [bind] in Hu; try discriminate.
    inversion Hu; subst segs r'. clear Hu. split.
    + apply Forall_app. split; [exact Ha|]. constructor; [|constructor].
      apply seg_in_intro; cbn [seg_with_stop mksegp s_start s_stop s_pad]; try lia. rewrite (ri_pad _ _ _ H). lia.
    + eapply ri_advance_in; [exact H|exact Hin| |exact Ea]. lia.
  - destruct (b_advance_line r) as [r2| |] eqn:Ea; cbn [bind] in Hu; try discriminate.
    destruct (ri_advance_line _ _ _ _ H Ea) as (H2 & _).
    eapply (IH r2 0); [exact H2|lia| |exact Hu]. apply Forall_app. split; [exact Ha|]. constructor; [exact Hg|constructor].
Qed.

Lemma none_step s r L : st_ok s L -> RI r -> pstep s (ist_r s r) None.
Proof.
  intros [Hc _] Hr. exists L. split; [split; assumption|]. split; [apply kle_refl|]. intros n E. discriminate.
Qed.

Lemma raw_node_ok s r segs c n L : st_ok s L -> RI r -> segs_in segs -> new_inode (t_c s) (IRawHTML segs) = (c, n) ->
  pstep s {| t_c := c; t_r := r |} (Some n).
Proof.
  intros [Hc _] Hr Hs En. destruct (ctx_new src _ _ _ _ _ _ En (segs_in_forallb _ Hs) Hc) as (Hc1 & Hk1 & _ & Kn & _).
  exists L. split; [split; assumption|]. split; [exact Hk1|].
  intros m Em. inversion Em; subst m. left. eapply kd_dlk_none; [exact Kn|cbn; lia].
Qed.

Lemma raw_collect_ok s closer offset s' res L : st_ok s L -> closer <> [] -> 0 <= offset ->
  raw_collect s closer offset = Ok (s', res) -> pstep s s' res.
Proof.
  unfold raw_collect. intros Hs Hcl Ho H. pose proof (proj2 Hs) as Hr.
  destruct (raw_until _ _ _ _ _) as [x| |] eqn:Eu; cbn [bind] in H; try discriminate.
  destruct x as [[segs r]|].
  - destruct (new_inode (t_c s) (IRawHTML segs)) as [c n] eqn:En. inversion H; subst s' res.
    destruct (raw_until_ok closer Hcl _ _ _ _ _ _ Hr Ho (Forall_nil _) Eu) as [Hsegs Hr'].
    eapply raw_node_ok; eassumption.
  - destruct (b_set_position (t_r s) (b_line (t_r s)) (b_pos (t_r s))) as [r| |] eqn:Es; cbn [bind] in H; try discriminate.
    inversion H; subst s' res. destruct (ri_set_position _ _ _ _ _ Hr Hr Es) as (Hr' & _). eapply none_step; eassumption.
Qed.

Definition at_head (r : breader) : Prop :=
  forall s, nth_error lines (Z.to_nat (b_line r)) = Some s -> s_start (b_pos r) = s_start s.

Lemma raw_regexp_lines_ok : forall fuel r sline sstart eline estart acc segs r',
  RI r -> segs_in acc -> sline <= b_line r -> (b_line r = sline -> s_start (b_pos r) = sstart) ->
  (sline < b_line r -> at_head r) -> 0 <= estart <= zlen src -> 0 <= eline ->
  (forall s, nth_error lines (Z.to_nat eline) = Some s -> s_start s <= estart <= s_stop s) ->
  (eline = sline -> sstart <= estart) ->
  raw_regexp_lines fuel r sline sstart eline estart acc = Ok (segs, r') -> segs_in segs /\ RI r'.
Proof.
  induction fuel as [|f IH]; intros r sline sstart eline estart acc segs r' H Ha Hsl Hs1 Hhead Hes Hel Hee Hse Hu;
    cbn [raw_regexp_lines] in Hu; [discriminate|].
  destruct (b_peek_line r) as [[[r1 line] sg]| |] eqn:Ep; cbn [bind] in Hu; try discriminate.
  destruct (ri_peek _ _ _ _ _ _ H Ep) as (-> & -> & Hline).
  destruct line as [l|]; [|inversion Hu; subst; split; assumption].
  destruct Hline as (Hin & Hv & Hl & Hp0 & Hp1 & Hp2 & Hlt).
  destruct (binv_in r (ri_inv _ _ _ H) Hin) as (s0 & pre & post & Hn & _ & _ & _ & Hb1 & _ & Hb3 & _).
  rewrite (ri_segs _ _ _ H) in Hn.
  assert (Hstart : (if b_line r =? sline then sstart else s_start (b_pos r)) = s_start (b_pos r)).
  { destruct (Z.eqb_spec (b_line r) sline) as [E|E]; [symmetry; apply Hs1; exact E|reflexivity]. }
  rewrite Hstart in Hu.
  destruct (Z.eqb_spec (b_line r) eline) as [Ee|Ee].
  - destruct (b_advance r (estart - s_start (b_pos r))) as [r2| |] eqn:Ea; cbn [bind] in Hu; try discriminate.
    inversion Hu; subst segs r'. clear Hu.
    rewrite Ee in Hn. specialize (Hee s0 Hn).
    assert (Hle : s_start (b_pos r) <= estart).
    { destruct (Z.eq_dec (b_line r) sline) as [E|E].
      - rewrite (Hs1 E). apply Hse. lia.
      - rewrite (Hhead ltac:(lia) s0); [lia|]. rewrite Ee. exact Hn. }
    split.
    + apply Forall_app. split; [exact Ha|]. constructor; [|constructor]. apply seg_in_intro; cbn [mkseg s_start s_stop s_pad]; lia.
    + eapply ri_advance_in; [exact H|exact Hin| |exact Ea]. lia.
  - destruct (b_advance_line r) as [r2| |] eqn:Ea; cbn [bind] in Hu; try discriminate.
    destruct (ri_advance_line _ _ _ _ H Ea) as (H2 & Hl2 & Hn2).
    eapply (IH r2 sline sstart eline estart _ segs r' H2); [| | | |exact Hes|exact Hel|exact Hee|exact Hse|exact Hu].
    + apply Forall_app. split; [exact Ha|]. constructor; [|constructor]. apply seg_in_intro; cbn [mkseg s_start s_stop s_pad]; lia.
    + lia.
    + intros E. lia.
    + intros _ s1 Hs1'. destruct (Z.ltb_spec (b_line r2) (zlen lines)) as [Hlt2|Hge2].
      * rewrite (Hn2 Hlt2) in Hs1'. inversion Hs1'. reflexivity.
      * exfalso. assert (Hx : nth_error lines (Z.to_nat (b_line r2)) <> None) by congruence.
        apply nth_error_Some in Hx. unfold zlen in Hge2. pose proof (bi_line _ (ri_inv _ _ _ H2)). lia.
Qed.

Lemma raw_regexp_ok s rx s' res L : st_ok s L -> raw_regexp s rx = Ok (s', res) -> pstep s s' res.
Proof.
  unfold raw_regexp. intros Hs H. pose proof (proj2 Hs) as Hr. set (r0 := t_r s) in *.
  destruct (rune_input (S (length (b_src r0))) r0 []) as [inp| |] eqn:Ei; cbn [bind] in H; try discriminate.
  pose proof (rune_input_len src lines _ _ _ _ Hr Ei) as Hlen. change (zlen (@nil N)) with 0 in Hlen.
  destruct (re_find rx inp) as [caps|] eqn:Ef.
  2:{ destruct (b_set_position r0 (b_line r0) (b_pos r0)) as [r| |] eqn:Es; cbn [bind] in H; try discriminate.
      inversion H; subst s' res. destruct (ri_set_position _ _ _ _ _ Hr Hr Es) as (Hr' & _). eapply none_step; eassumption. }
  destruct (re_find_sound _ _ _ Ef) as (i & j & Hcap & Hij & Hj & _).
  rewrite Hcap in H.
  destruct (b_set_position r0 (b_line r0) (b_pos r0)) as [r1| |] eqn:Es1; cbn [bind] in H; try discriminate.
  destruct (ri_set_position _ _ _ _ _ Hr Hr Es1) as (Hr1 & Hl1 & Hp1).
  destruct (ri_same_rest _ _ _ _ Hr Hr1 Hl1 Hp1) as [Hrest1 _].
  destruct (b_advance r1 (j - i)) as [r2| |] eqn:Ea; cbn [bind] in H; try discriminate.
  destruct (ri_advance src lines r1 (j - i) r2 Hr1) as (Hr2 & _ & Hpos2); [rewrite Hrest1; lia|exact Ea|].
  destruct (b_set_position r2 (b_line r0) (b_pos r0)) as [r3| |] eqn:Es3; cbn [bind] in H; try discriminate.
  destruct (ri_set_position _ _ _ _ _ Hr2 Hr Es3) as (Hr3 & Hl3 & Hp3).
  destruct (raw_regexp_lines _ _ _ _ _ _ _) as [[segs r4]| |] eqn:El; cbn [bind] in H; try discriminate.
  destruct (new_inode (t_c s) (IRawHTML segs)) as [c n] eqn:En. inversion H; subst s' res. clear H.
  destruct (raw_regexp_lines_ok (S (length (b_segs r3))) r3 (b_line r0) (s_start (b_pos r0)) (b_line r2) (s_start (b_pos r2)) [] segs r4 Hr3 (Forall_nil _))
    as [Hsegs Hr4]; [| | | | | | |exact El|].
  - lia.
  - intros _. rewrite Hp3. reflexivity.
  - intros C. lia.
  - exact (ri_bounds _ _ _ Hr2).
  - exact (bi_line _ (ri_inv _ _ _ Hr2)).
  - intros s1 Hs1. rewrite <- (ri_segs _ _ _ Hr2) in Hs1. destruct (bi_pos _ (ri_inv _ _ _ Hr2) s1 Hs1) as (Hb & _). exact Hb.
  - intros E. destruct Hpos2 as [_ Hp2]. rewrite Hl1 in Hp2. destruct (Hp2 E) as [Hp2' _]. rewrite Hp1 in Hp2'. exact Hp2'.
  - eapply raw_node_ok; eassumption.
Qed.

Lemma raw_html_parse_ok s s' res L : st_ok s L ->
  raw_html_parse re_open_tag re_close_tag s = Ok (s', res) -> pstep s s' res.
Proof.
  unfold raw_html_parse. intros Hs H. pose proof (proj2 Hs) as Hr.
  destruct (b_peek_line (t_r s)) as [[[r1 line] sg]| |] eqn:Ep; cbn [bind] in H; try discriminate.
  destruct (ri_peek _ _ _ _ _ _ Hr Ep) as (-> & -> & Hline).
  assert (Hs' : st_ok (ist_r s (t_r s)) L) by (destruct Hs; split; assumption).
  assert (Hkeep : forall x, pstep (ist_r s (t_r s)) s' x -> pstep s s' x) by (intros x P; exact P).
  assert (Hempty : forall k, 0 <= k <= zlen (line_of line) -> 1 <= k -> forall c n r,
            new_inode (t_c (ist_r s (t_r s))) (IRawHTML [seg_with_stop (b_pos (t_r s)) (s_start (b_pos (t_r s)) + k)]) = (c, n) ->
            b_advance (t_r (ist_r s (t_r s))) k = Ok r -> pstep s {| t_c := c; t_r := r |} (Some n)).
  { intros k Hk Hk1 c n r En Ea. destruct line as [l|]; cbn [line_of] in Hk; [|change (zlen (@nil N)) with 0 in Hk; lia].
    destruct Hline as (Hin & Hv & Hl & Hp0 & Hp1 & Hp2 & _). cbn [ist_r t_c t_r] in *.
    eapply raw_node_ok; [exact Hs| |constructor; [|constructor]|exact En].
    - eapply ri_advance_in; [exact Hr|exact Hin| |exact Ea]. lia.
    - apply seg_in_intro; cbn [seg_with_stop mksegp s_start s_stop s_pad]; try lia. rewrite (ri_pad _ _ _ Hr). lia. }
  destruct (_ && is_alnum_b _); [apply Hkeep; eapply raw_regexp_ok; eassumption|].
  destruct (_ && _ && is_alnum_b _); [apply Hkeep; eapply raw_regexp_ok; eassumption|].
  destruct (prefix_of open_comment (line_of line)).
  - destruct (prefix_of empty_comment1 (line_of line)) eqn:E1.
    + destruct (new_inode _ _) as [c n] eqn:En. destruct (b_advance _ 5) as [r| |] eqn:Ea; cbn [bind] in H; try discriminate.
      inversion H; subst s' res. apply prefix_of_len in E1. change (zlen empty_comment1) with 5 in E1.
      eapply (Hempty 5); [pose proof (zlen_nonneg (line_of line)); lia|lia|exact En|exact Ea].
    + destruct (prefix_of empty_comment2 (line_of line)) eqn:E2.
      * destruct (new_inode _ _) as [c n] eqn:En. destruct (b_advance _ 6) as [r| |] eqn:Ea; cbn [bind] in H; try discriminate.
        inversion H; subst s' res. apply prefix_of_len in E2. change (zlen empty_comment2) with 6 in E2.
        eapply (Hempty 6); [pose proof (zlen_nonneg (line_of line)); lia|lia|exact En|exact Ea].
      * apply Hkeep. refine (raw_collect_ok _ _ _ _ _ _ Hs' _ _ H); [unfold close_comment, close_pi, close_cdata; discriminate|lia].
  - destruct (prefix_of open_pi (line_of line)); [apply Hkeep; refine (raw_collect_ok _ _ _ _ _ _ Hs' _ _ H); [unfold close_comment, close_pi, close_cdata; discriminate|lia]|].
    destruct (_ && _ && _); [apply Hkeep; refine (raw_collect_ok _ _ _ _ _ _ Hs' _ _ H); [unfold close_comment, close_pi, close_cdata; discriminate|lia]|].
    destruct (prefix_of open_cdata (line_of line)); [apply Hkeep; refine (raw_collect_ok _ _ _ _ _ _ Hs' _ _ H); [unfold close_comment, close_pi, close_cdata; discriminate|lia]|].
    inversion H; subst s' res. eapply none_step; eassumption.
Qed.

(* ---------- links: reader side ---------- *)
Lemma parse_link_title_ri r r' t : RI r -> parse_link_title space_table punct_table r = Ok (r', t) ->
  RI r' /\ forall x, t = Some x -> bytes_ok x.
Proof.
  unfold parse_link_title. intros H Hp.
  destruct (b_skip_spaces space_table (bfuel r) r) as [[[[r1 sg] ch] ok]| |] eqn:Es; cbn [bind] in Hp; try discriminate.
  assert (H1 : RI r1) by (eapply b_skip_spaces_ri; [exact H|exact Es]).
  destruct (b_peek r1) as [opener| |] eqn:Epk; cbn [bind] in Hp; try discriminate.
  destruct (negb _) eqn:Eq.
  { inversion Hp; subst. split; [exact H1|]. intros x E; discriminate. }
  assert (Hin : b_in_range r1 = true).
  { eapply ri_peek_in; [exact H1|exact Epk|]. intros ->. cbn in Eq. discriminate. }
  destruct (b_advance r1 1) as [r2| |] eqn:Ea; cbn [bind] in Hp; try discriminate.
  destruct (ri_advance1 _ _ _ _ H1 Hin Ea) as [H2 _].
  destruct (b_find_closure _ _ _ _ _ _) as [[r3 segs]| |] eqn:Ef; cbn [bind] in Hp; try discriminate.
  assert (H3 : RI r3) by (eapply b_find_closure_ri; [exact H2|exact Ef]).
  destruct segs as [segs|].
  - destruct (bvalues r3 segs) as [v| |] eqn:Ev; cbn [bind] in Hp; try discriminate.
    inversion Hp; subst. split; [exact H3|]. intros x E. inversion E; subst x.
    eapply bvalues_bytes; [|exact Ev]. rewrite (ri_src _ _ _ H3). exact Hsrc.
  - inversion Hp; subst. split; [exact H3|]. intros x E; discriminate.
Qed.

Definition link_data_ok (res : option (bytes * option bytes)) : Prop :=
  forall d t, res = Some (d, t) -> bytes_ok d /\ (forall x, t = Some x -> bytes_ok x).

Lemma parse_link_ri r r' res : RI r -> b_in_range r = true -> parse_link space_table punct_table r = Ok (r', res) ->
  RI r' /\ link_data_ok res.
Proof.
  unfold parse_link. intros H Hin Hp.
  assert (Hnone : link_data_ok None) by (intros d t E; discriminate).
  destruct (b_advance r 1) as [r1| |] eqn:Ea; cbn [bind] in Hp; try discriminate.
  destruct (ri_advance1 _ _ _ _ H Hin Ea) as [H1 _].
  destruct (skip_spaces_r space_table r1) as [r2| |] eqn:Es; cbn [bind] in Hp; try discriminate.
  pose proof (skip_spaces_r_ri _ _ _ _ _ H1 Es) as H2.
  destruct (b_peek r2) as [pk| |] eqn:Epk; cbn [bind] in Hp; try discriminate.
  assert (Hclose : forall rr pk0 rr' (v : Z), RI rr -> b_peek rr = Ok pk0 -> N.eqb pk0 41 = true -> b_advance rr 1 = Ok rr' -> RI rr').
  { intros rr pk0 rr' v Hrr Epk0 E41 Ea0. apply N.eqb_eq in E41. subst pk0.
    assert (Hin0 : b_in_range rr = true) by (eapply ri_peek_in; [exact Hrr|exact Epk0|discriminate]).
    exact (proj1 (ri_advance1 _ _ _ _ Hrr Hin0 Ea0)). }
  destruct (N.eqb pk 41) eqn:E41.
  { destruct (b_advance r2 1) as [r3| |] eqn:Ea3; cbn [bind] in Hp; try discriminate. inversion Hp; subst.
    split; [eapply (Hclose r2 pk r' 0); eassumption|]. intros d t E. inversion E; subst. split; [reflexivity|]. intros x Ex; discriminate. }
  destruct (b_parse_link_destination space_table punct_table r2) as [[r3 dest]| |] eqn:Ed; cbn [bind] in Hp; try discriminate.
  destruct (b_parse_link_destination_ri _ _ _ _ _ _ _ H2 Hsrc Ed) as [H3 Hdest].
  destruct dest as [dest|]; [|inversion Hp; subst; split; assumption].
  specialize (Hdest dest eq_refl).
  destruct (skip_spaces_r space_table r3) as [r4| |] eqn:Es4; cbn [bind] in Hp; try discriminate.
  pose proof (skip_spaces_r_ri _ _ _ _ _ H3 Es4) as H4.
  destruct (b_peek r4) as [pk4| |] eqn:Epk4; cbn [bind] in Hp; try discriminate.
  destruct (N.eqb pk4 41) eqn:E41'.
  { destruct (b_advance r4 1) as [r5| |] eqn:Ea5; cbn [bind] in Hp; try discriminate. inversion Hp; subst.
    split; [eapply (Hclose r4 pk4 r' 0); eassumption|]. intros d t E. inversion E; subst. split; [exact Hdest|]. intros x Ex; discriminate. }
  destruct (parse_link_title space_table punct_table r4) as [[r5 title]| |] eqn:Et; cbn [bind] in Hp; try discriminate.
  destruct (parse_link_title_ri _ _ _ H4 Et) as [H5 Htitle].
  destruct title as [title|]; [|inversion Hp; subst; split; assumption].
  destruct (skip_spaces_r space_table r5) as [r6| |] eqn:Es6; cbn [bind] in Hp; try discriminate.
  pose proof (skip_spaces_r_ri _ _ _ _ _ H5 Es6) as H6.
  destruct (b_peek r6) as [pk6| |] eqn:Epk6; cbn [bind] in Hp; try discriminate.
  destruct (N.eqb pk6 41) eqn:E41''.
  - destruct (b_advance r6 1) as [r7| |] eqn:Ea7; cbn [bind] in Hp; try discriminate. inversion Hp; subst.
    split; [eapply (Hclose r6 pk6 r' 0); eassumption|]. intros d t E. inversion E; subst. split; [exact Hdest|]. intros x Ex. inversion Ex; subst. apply Htitle. reflexivity.
  - inversion Hp; subst. split; assumption.
Qed.

Lemma lookup_ref_ok v d t : lookup_ref norm refs v = Some (d, t) -> bytes_ok d /\ (forall x, t = Some x -> bytes_ok x).
Proof.
  unfold lookup_ref. destruct (find _ refs) as [[k e]|] eqn:Ef; [|discriminate]. intros E. inversion E; subst e.
  apply find_some in Ef. destruct Ef as [Hin _]. pose proof (proj1 (Forall_forall _ refs) Hrefs _ Hin) as Hr. cbn in Hr. exact Hr.
Qed.

Lemma parse_reference_link_ri s last r' res hv : RI (t_r s) -> b_in_range (t_r s) = true ->
  parse_reference_link space_table punct_table norm refs s last = Ok (r', res, hv) -> RI r' /\ link_data_ok res.
Proof.
  unfold parse_reference_link. intros H Hin Hp.
  assert (Hnone : link_data_ok None) by (intros d t E; discriminate).
  destruct (b_advance (t_r s) 1) as [r1| |] eqn:Ea; cbn [bind] in Hp; try discriminate.
  destruct (ri_advance1 _ _ _ _ H Hin Ea) as [H1 _].
  destruct (b_find_closure _ _ _ _ _ _) as [[r2 segs]| |] eqn:Ef; cbn [bind] in Hp; try discriminate.
  assert (H2 : RI r2) by (eapply b_find_closure_ri; [exact H1|exact Ef]).
  destruct segs as [segs|]; [|inversion Hp; subst; split; assumption].
  destruct (bvalues r2 segs) as [v| |]; cbn [bind] in Hp; try discriminate.
  destruct (lget (i_h (t_c s)) last) as [[[[[[lsg im] p] nx] fs] ls]| |]; cbn [bind] in Hp; try discriminate.
  match type of Hp with (_ <- ?X ;; _) = _ => destruct X as [v0| |] end; cbn [bind] in Hp; try discriminate.
  destruct (999 <? zlen v0); [inversion Hp; subst; split; assumption|].
  destruct (lookup_ref norm refs v0) as [[d t]|] eqn:El; inversion Hp; subst; split; try assumption.
  intros d0 t0 E. inversion E; subst. eapply lookup_ref_ok. exact El.
Qed.

(* ---------- links: context side ---------- *)
(* a step after which the context is well formed for some delimiter list *)
Definition cstep (c c' : ictx) : Prop :=
  forall L, ctx_ok src [] c L -> exists L', ctx_ok src [] c' L' /\ kle (i_h c) (i_h c').
Lemma cstep_refl c : cstep c c.
Proof. intros L H. exists L. split; [exact H|apply kle_refl]. Qed.
Lemma cstep_trans a b c : cstep a b -> cstep b c -> cstep a c.
Proof.
  intros A B L H. destruct (A L H) as (L1 & H1 & K1). destruct (B L1 H1) as (L2 & H2 & K2).
  exists L2. split; [exact H2|eapply kle_trans; eassumption].
Qed.
Lemma nstep_cstep c c' : nstep src c c' -> cstep c c'.
Proof. intros N L H. destruct (N [] L H) as [H1 K1]. exists L. split; assumption. Qed.

Definition ndelim (h : iheap) (n : nat) : Prop := exists k, kd h n = Some k /\ cls k <> 8%nat.
Lemma ndelim_kle h h' n : kle h h' -> ndelim h n -> ndelim h' n.
Proof. intros Hk (k & E & C). destruct (Hk n k E) as (k' & E' & C'). exists k'. split; [exact E'|congruence]. Qed.
Lemma ndelim_dlk h n : ndelim h n -> dlk h n = None.
Proof. intros (k & E & C). eapply kd_dlk_none; eassumption. Qed.

Lemma pop_bottom_nstep c : nstep src c (fst (pop_bottom c)).
Proof. unfold pop_bottom. destruct (rev (i_bottoms c)); apply nstep_fields; reflexivity. Qed.
Lemma pop_bottom_fields c c' b : pop_bottom c = (c', b) -> i_h c' = i_h c /\ i_dfirst c' = i_dfirst c /\ i_dlast c' = i_dlast c.
Proof. unfold pop_bottom. destruct (rev (i_bottoms c)); intros E; inversion E; subst; auto. Qed.

Lemma label_fail_ok s last s' res : label_fail s last = Ok (s', res) ->
  cstep (t_c s) (t_c s') /\ t_r s' = t_r s /\ res = None.
Proof.
  unfold label_fail. intros H.
  destruct (lget (i_h (t_c s)) last) as [[[[[[sg im] p] nx] fs] ls]| |] eqn:El; cbn [bind] in H; try discriminate.
  apply lget_view in El.
  destruct (iget (i_h (t_c s)) last) as [n| |]; cbn [bind] in H; try discriminate.
  destruct (ipar n) as [par|]; [|discriminate].
  destruct (merge_or_replace (t_c s) par last sg) as [c1| |] eqn:Em; cbn [bind] in H; try discriminate.
  destruct (pop_bottom c1) as [c2 b] eqn:Epb. inversion H; subst s' res. cbn [t_c t_r ist_c].
  split; [|auto]. apply nstep_cstep. eapply nstep_trans.
  - apply nstep_neutral. intros Hh. eapply merge_or_replace_ok; [exact Em|exact Hh|].
    exact (h_kind _ _ Hh last _ El).
  - pose proof (pop_bottom_nstep c1) as N. rewrite Epb in N. exact N.
Qed.

Lemma process_link_label_ok s link last s' L : ctx_ok src [] (t_c s) L -> pok (i_h (t_c s)) link ->
  process_link_label s link last = Ok s' ->
  exists L', ctx_ok src [] (t_c s') L' /\ kle (i_h (t_c s)) (i_h (t_c s')) /\ t_r s' = t_r s.
Proof.
  unfold process_link_label. intros Hc Hl H. destruct (pop_bottom (t_c s)) as [c0 b] eqn:Epb.
  destruct (pop_bottom_fields _ _ _ Epb) as (F1 & F2 & F3).
  assert (Hc0 : ctx_ok src [] c0 L).
  { destruct Hc as [Hh Hd]. split; [rewrite F1; exact Hh|]. eapply dl_fields; eassumption. }
  destruct (process_delimiters (ifuel s) c0 b) as [c1| |] eqn:Ep; cbn [bind] in H; try discriminate.
  destruct (process_delimiters_ok src _ _ _ _ _ Ep Hc0) as (L1 & Hc1 & Hk1 & _).
  destruct (i_next (i_h c1) last) as [nx| |] eqn:En; cbn [bind] in H; try discriminate.
  destruct (move_children _ _ _ _ _) as [h| |] eqn:Em; cbn [bind] in H; try discriminate.
  inversion H; subst s'. cbn [t_c t_r ist_c]. rewrite F1 in Hk1.
  destruct (move_children_ok src _ _ _ _ _ _ Em (proj1 Hc1)) as (Hh2 & K2 & Hn2 & _).
  { intros x ->. apply i_next_in in En. destruct En as (p & _ & Hin). exists p. exact Hin. }
  { destruct (pok_kle _ _ _ Hk1 Hl) as (k & E & C). rewrite E. intros E'. inversion E'; subst k. cbn in C. congruence. }
  exists L1. split; [eapply ctx_neutral; eassumption|]. split; [|reflexivity].
  eapply kle_trans; [exact Hk1|apply kle_same; exact K2].
Qed.

Lemma image_children_ok img : forall l h h' E c L, ctx_ok src E c L -> i_h c = h ->
  (fix mv (l : list nat) (h : iheap) : result iheap :=
     match l with [] => Ok h | x :: t => h <- i_append h img x ;; mv t h end) l h = Ok h' ->
  pok h img -> (forall x, In x l -> exists q, In x (ch h q)) ->
  ctx_ok src E (cx_h c h') L /\ kle h h'.
Proof.
  induction l as [|x t IH]; intros h h' E c L Hc Eh H Himg Hatt.
  - inversion H; subst h'. rewrite <- Eh. split; [|apply kle_refl].
    destruct (cx_h_id src c E L Hc) as [H1 _]. exact H1.
  - destruct (i_append h img x) as [h1| |] eqn:Ea; cbn [bind] in H; try discriminate. subst h.
    pose proof (i_append_spec _ _ _ _ Ea (h_tree _ _ (proj1 Hc))) as Hat.
    destruct (ctx_attach src _ _ _ _ _ _ Hc Hat (pok_edge _ _ _ Himg)) as [Hc1 Hk1].
    { right. right. apply Hatt. cbn. auto. }
    destruct (IH h1 h' E (cx_h c h1) L Hc1 eq_refl H) as [Hc2 Hk2].
    + eapply pok_kle; eassumption.
    + intros y Hy. destruct Hat as (_ & _ & _ & _ & _ & _ & _ & M). destruct (Hatt y (or_intror Hy)) as (q & Hq).
      destruct (Nat.eq_dec y x) as [->|Hne]; [exists img; apply M; left; auto|exists q; apply M; right; auto].
    + split; [exact Hc2|eapply kle_trans; eassumption].
Qed.

(* linkParser.Parse *)
Definition lp_goal (s s' : ist) (res : option nat) : Prop :=
  exists L', st_ok s' L' /\ kle (i_h (t_c s)) (i_h (t_c s')) /\ (forall n, res = Some n -> ndelim (i_h (t_c s')) n).
Definition mid (c : ictx) (sx : ist) : Prop := cstep c (t_c sx) /\ RI (t_r sx).

Lemma mid_fail s L sx last s' res : ctx_ok src [] (t_c s) L -> mid (t_c s) sx -> label_fail sx last = Ok (s', res) -> lp_goal s s' res.
Proof.
  intros Hc [M1 M2] H. destruct (label_fail_ok _ _ _ _ H) as (C & Er & ->).
  destruct (cstep_trans _ _ _ M1 C L Hc) as (L' & Hc' & Hk'). exists L'. split; [split; [exact Hc'|rewrite Er; exact M2]|].
  split; [exact Hk'|]. intros n E; discriminate.
Qed.

Lemma open_label_ok cc L1 start stop im c1 st c2 : ctx_ok src [] cc L1 ->
  new_inode cc (ILabel (mkseg start stop) im None None None None) = (c1, st) -> push_label c1 st = Ok c2 ->
  0 <= start <= stop -> stop <= zlen src ->
  ctx_ok src [] c2 L1 /\ kle (i_h cc) (i_h c2) /\ ndelim (i_h c2) st.
Proof.
  intros Hc En Ep Hs1 Hs2.
  assert (Hko : kind_ok src (ILabel (mkseg start stop) im None None None None)).
  { cbn. apply seg_in_intro; cbn; lia. }
  destruct (ctx_new src _ _ _ _ _ _ En Hko Hc) as (Hc1 & Hk1 & _ & Kn & _).
  destruct (push_label_nstep src _ _ _ Ep [] L1 Hc1) as [Hc2 Hk2].
  split; [exact Hc2|]. split; [eapply kle_trans; eassumption|].
  eapply ndelim_kle; [exact Hk2|]. exists (ILabel (mkseg start stop) im None None None None). split; [exact Kn|cbn; lia].
Qed.

Lemma push_bottom_ok c L : ctx_ok src [] c L -> ctx_ok src [] (push_bottom c) L.
Proof. intros H. destruct (nstep_fields src c (push_bottom c) eq_refl eq_refl eq_refl [] L H) as [H1 _]. exact H1. Qed.

Lemma link_parse_ok s parent s' res L : st_ok s L ->
  link_parse space_table punct_table norm refs s parent = Ok (s', res) -> lp_goal s s' res.
Proof.
  unfold link_parse. intros [Hc Hr] H.
  destruct (b_peek_line (t_r s)) as [[[r1 line] segment]| |] eqn:Ep; cbn [bind] in H; try discriminate.
  destruct (ri_peek _ _ _ _ _ _ Hr Ep) as (-> & -> & Hline).
  destruct line as [[|c0 rest]|]; try discriminate.
  destruct Hline as (Hin & Hv & Hl & Hp0 & Hp1 & Hp2 & _).
  rewrite zlen_cons in Hl. pose proof (zlen_nonneg rest) as Hrest0.
  pose proof (ri_rest_ge _ _ _ Hr Hin) as Hrest.
  assert (Hnone : lp_goal s (ist_r s (t_r s)) None).
  { exists L. split; [split; assumption|]. split; [apply kle_refl|]. intros n E; discriminate. }
  cbn [ist_r ist_c t_c t_r] in H.
  destruct (N.eqb c0 33).
  { destruct rest as [|c1 rest']; [inversion H; subst; exact Hnone|].
    destruct (N.eqb c1 91); [|inversion H; subst; exact Hnone].
    rewrite zlen_cons in Hl. pose proof (zlen_nonneg rest').
    destruct (b_advance (t_r s) 1) as [r2| |] eqn:Ea; cbn [bind] in H; try discriminate.
    destruct (ri_advance src lines (t_r s) 1 r2 Hr) as (Hr2 & Hrest2 & _); [lia|exact Ea|].
    cbn [t_c t_r] in H.
    destruct (new_inode _ _) as [c1' st] eqn:En.
    destruct (push_label c1' st) as [c2| |] eqn:Epl; cbn [bind] in H; try discriminate.
    destruct (b_advance r2 1) as [r3| |] eqn:Ea3; cbn [bind] in H; try discriminate.
    inversion H; subst s' res. clear H.
    destruct (open_label_ok _ L _ _ _ _ _ _ (push_bottom_ok _ _ Hc) En Epl) as (Hc2 & Hk2 & Hnd); [lia|lia|].
    destruct (ri_advance src lines r2 1 r3 Hr2) as (Hr3 & _); [rewrite Hrest2; unfold zlen in *; rewrite skipn_length; lia|exact Ea3|].
    exists L. split; [split; assumption|]. split; [exact Hk2|]. intros n E. inversion E; subst n. exact Hnd. }
  destruct (N.eqb c0 91).
  { destruct (new_inode _ _) as [c1' st] eqn:En.
    destruct (push_label c1' st) as [c2| |] eqn:Epl; cbn [bind] in H; try discriminate.
    destruct (b_advance (t_r s) 1) as [r3| |] eqn:Ea3; cbn [bind] in H; try discriminate.
    inversion H; subst s' res. clear H.
    destruct (open_label_ok _ L _ _ _ _ _ _ (push_bottom_ok _ _ Hc) En Epl) as (Hc2 & Hk2 & Hnd); [lia|lia|].
    destruct (ri_advance1 _ _ _ _ Hr Hin Ea3) as [Hr3 _].
    exists L. split; [split; assumption|]. split; [exact Hk2|]. intros n E. inversion E; subst n. exact Hnd. }
  (* ']' *)
  destruct (i_labels (t_c s)) as [tlist|]; [|inversion H; subst; exact Hnone].
  destruct (lget (i_h (t_c s)) tlist) as [[[[[[a1 a2] a3] a4] a5] tl_last]| |]; cbn [bind] in H; try discriminate.
  destruct tl_last as [last|].
  2:{ inversion H; subst s' res. destruct (pop_bottom_nstep (t_c s) [] L Hc) as [Hc' Hk']. exists L.
      split; [split; assumption|]. split; [exact Hk'|]. intros n E; discriminate. }
  destruct (b_advance (t_r s) 1) as [r| |] eqn:Ea; cbn [bind] in H; try discriminate.
  destruct (ri_advance1 _ _ _ _ Hr Hin Ea) as [Hr1 _].
  destruct (remove_label (t_c s) last) as [c| |] eqn:Erl; cbn [bind] in H; try discriminate.
  pose proof (nstep_cstep _ _ (remove_label_nstep src _ _ _ Erl)) as C1.
  destruct (label_length (i_h c) tlist) as [len| |]; cbn [bind] in H; try discriminate.
  set (s1 := ist_c (ist_r (ist_r s (t_r s)) r) c) in *.
  assert (M1 : mid (t_c s) s1) by (split; [exact C1|exact Hr1]).
  destruct (998 <? len); [eapply mid_fail; eassumption|].
  destruct (lget (i_h c) last) as [[[[[[lsg is_image] b3] b4] b5] b6]| |]; cbn [bind] in H; try discriminate.
  destruct (iget (i_h c) last) as [ln| |]; cbn [bind] in H; try discriminate.
  destruct (match ipar ln with Some p3 => Ok p3 | None => Panic end) as [lpar| |]; cbn [bind] in H; try discriminate.
  destruct (iget (i_h c) lpar) as [lparn| |]; cbn [bind] in H; try discriminate.
  match type of H with (_ <- ?X ;; _) = _ => destruct X as [has_link| |] end; cbn [bind] in H; try discriminate.
  destruct has_link; [eapply mid_fail; eassumption|].
  destruct (b_peek r) as [pk| |] eqn:Epk; cbn [bind] in H; try discriminate.
  match type of H with (_ <- ?X ;; _) = _ => destruct X as [o3| |] eqn:Eo end; cbn [bind] in H; try discriminate.
  (* the outcome of the (...) / [...] part *)
  assert (Ho : match o3 with
               | inl sx => mid (t_c s) sx
               | inr (sx, lres) => mid (t_c s) sx /\ t_c sx = c /\ link_data_ok lres
               end).
  { destruct (N.eqb pk 40) eqn:E40.
    - apply N.eqb_eq in E40. subst pk.
      assert (Hin1 : b_in_range r = true) by (eapply ri_peek_in; [exact Hr1|exact Epk|discriminate]).
      destruct (parse_link space_table punct_table r) as [[r0 lres]| |] eqn:Epl; cbn [bind] in Eo; try discriminate.
      inversion Eo; subst o3. destruct (parse_link_ri _ _ _ Hr1 Hin1 Epl) as [Hr0 Hd].
      split; [split; [exact C1|exact Hr0]|]. split; [reflexivity|exact Hd].
    - destruct (N.eqb pk 91) eqn:E91.
      + apply N.eqb_eq in E91. subst pk.
        assert (Hin1 : b_in_range r = true) by (eapply ri_peek_in; [exact Hr1|exact Epk|discriminate]).
        destruct (parse_reference_link _ _ _ _ s1 last) as [[[r0 lres] hv]| |] eqn:Epl; cbn [bind] in Eo; try discriminate.
        destruct (parse_reference_link_ri s1 last _ _ _ Hr1 Hin1 Epl) as [Hr0 Hd].
        destruct lres as [dt|]; [|destruct hv]; inversion Eo; subst o3.
        * split; [split; [exact C1|exact Hr0]|]. split; [reflexivity|exact Hd].
        * split; [exact C1|exact Hr0].
        * split; [split; [exact C1|exact Hr0]|]. split; [reflexivity|exact Hd].
      + inversion Eo; subst o3. split; [exact M1|]. split; [reflexivity|]. intros d t E; discriminate. }
  destruct o3 as [sx|[sx lres]]; [eapply mid_fail; eassumption|].
  destruct Ho as ([Cx Hrx] & Ecx & Hdx).
  match type of H with (_ <- ?X ;; _) = _ => destruct X as [fin| |] eqn:Efin end; cbn [bind] in H; try discriminate.
  assert (Hf : match fin with
               | inl sy => mid (t_c s) sy
               | inr (sy, (dest, title)) => mid (t_c s) sy /\ t_c sy = c /\ bytes_ok dest /\ (forall x, title = Some x -> bytes_ok x)
               end).
  { destruct lres as [[dest title]|].
    - inversion Efin; subst fin. destruct (Hdx dest title eq_refl) as [Hd1 Hd2]. split; [split; assumption|]. auto.
    - destruct (b_set_position (t_r sx) (b_line r) (b_pos r)) as [r0| |] eqn:Esp; cbn [bind] in Efin; try discriminate.
      destruct (ri_set_position _ _ _ _ _ Hrx Hr1 Esp) as (Hr0 & _).
      destruct (b_value r0 _) as [v| |]; cbn [bind] in Efin; try discriminate.
      destruct (999 <? zlen v); [inversion Efin; subst fin; split; [exact Cx|exact Hr0]|].
      destruct (lookup_ref norm refs v) as [[d t]|] eqn:Elk; inversion Efin; subst fin.
      + destruct (lookup_ref_ok _ _ _ Elk) as [Hd1 Hd2]. split; [split; [exact Cx|exact Hr0]|]. auto.
      + split; [exact Cx|exact Hr0]. }
  destruct fin as [sy|[sy [dest title]]]; [eapply mid_fail; eassumption|].
  destruct Hf as ([Cy Hry] & Ecy & Hdest & Htitle).
  destruct (new_inode (t_c sy) (ILink dest title)) as [c3 link] eqn:En.
  destruct (process_link_label (ist_c sy c3) link last) as [s4| |] eqn:Epl; cbn [bind] in H; try discriminate.
  destruct (iget (i_h (t_c s4)) last) as [ln0| |] eqn:Eg0; cbn [bind] in H; try discriminate.
  destruct (match ipar ln0 with Some p6 => Ok p6 | None => Panic end) as [lpar0| |]; cbn [bind] in H; try discriminate.
  destruct (i_remove (i_h (t_c s4)) lpar0 last) as [h5| |] eqn:Erm; cbn [bind] in H; try discriminate.
  (* assemble *)
  destruct (Cy L Hc) as (Ly & Hcy & Hky).
  destruct (ctx_new src _ _ _ _ _ _ En (conj Hdest Htitle) Hcy) as (Hc3 & Hk3 & _ & Klink & _).
  assert (Hpl : pok (i_h c3) link). { exists (ILink dest title). split; [exact Klink|cbn; lia]. }
  destruct (process_link_label_ok (ist_c sy c3) link last s4 Ly Hc3 Hpl Epl) as (L4 & Hc4 & Hk4 & Er4).
  cbn [ist_c t_c t_r] in Hk4, Er4.
  assert (Hc5 : ctx_ok src [] (cx_h (t_c s4) h5) L4 /\ kle (i_h (t_c s4)) h5).
  { destruct (i_remove_spec _ _ _ _ Erm (h_tree _ _ (proj1 Hc4))) as [[_ Hdet]|[_ ->]].
    - eapply ctx_detach; eassumption.
    - split; [|apply kle_refl]. destruct (cx_h_id src (t_c s4) [] L4 Hc4) as [X _]. exact X. }
  destruct Hc5 as [Hc5 Hk5].
  assert (Hk05 : kle (i_h (t_c s)) h5).
  { eapply kle_trans; [exact Hky|]. eapply kle_trans; [exact Hk3|]. eapply kle_trans; [exact Hk4|exact Hk5]. }
  assert (Hlink5 : pok h5 link). { eapply pok_kle; [|exact Hpl]. eapply kle_trans; eassumption. }
  destruct is_image.
  - destruct (new_inode (cx_h (t_c s4) h5) (IImage dest title)) as [c6 img] eqn:En6.
    destruct (iget (i_h c6) link) as [lk| |] eqn:Elk; cbn [bind] in H; try discriminate.
    match type of H with (_ <- ?X ;; _) = _ => destruct X as [h7| |] eqn:Emv end; cbn [bind] in H; try discriminate.
    inversion H; subst s' res. clear H. unfold lp_goal, st_ok. cbn [ist_c t_c t_r].
    destruct (ctx_new src _ _ _ _ _ _ En6 (conj Hdest Htitle) Hc5) as (Hc6 & Hk6 & _ & Kimg & _).
    apply iget_kd in Elk. destruct Elk as (_ & _ & Echl).
    destruct (image_children_ok img (ich lk) (i_h c6) h7 [] c6 L4 Hc6 eq_refl Emv) as [Hc7 Hk7].
    { exists (IImage dest title). split; [exact Kimg|cbn; lia]. }
    { intros x Hx. exists link. rewrite Echl. exact Hx. }
    exists L4. split; [split; [exact Hc7|rewrite Er4; exact Hry]|]. cbn [cx_h i_h].
    split; [eapply kle_trans; [exact Hk05|]; eapply kle_trans; eassumption|].
    intros n E. inversion E; subst n. eapply ndelim_kle; [exact Hk7|]. exists (IImage dest title). split; [exact Kimg|cbn; lia].
  - inversion H; subst s' res. clear H. unfold lp_goal, st_ok. cbn [ist_c t_c t_r cx_h i_h].
    exists L4. split; [split; [exact Hc5|rewrite Er4; exact Hry]|]. split; [exact Hk05|].
    intros n E. inversion E; subst n. destruct Hlink5 as (k & Ek & Ck). exists k. split; [exact Ek|].
    destruct (Hk4 link _ Klink) as (k4 & Ek4 & Ck4). destruct (Hk5 link _ Ek4) as (k5 & Ek5 & Ck5).
    cbn [i_h cx_h] in *. rewrite Ek in Ek5. inversion Ek5; subst k5. rewrite Ck5, Ck4. cbn. lia.
Qed.

(* ---------- the parser table ---------- *)
Notation IP := (ip_parse space_table punct_table norm url_table email_table re_email_domain re_open_tag re_close_tag
                  punct_rune space_rune refs).
Notation TRY := (try_inline space_table punct_table norm url_table email_table re_email_domain re_open_tag re_close_tag
                  punct_rune space_rune refs).
Notation SCAN := (scan_line space_table punct_table norm url_table email_table re_email_domain re_open_tag re_close_tag
                  punct_rune space_rune refs).
Notation LOOP := (parse_block_loop space_table punct_table norm url_table email_table re_email_domain re_open_tag re_close_tag
                  punct_rune space_rune refs).

Lemma ip_parse_ok p s parent s' res L : st_ok s L -> IP p s parent = Ok (s', res) -> pstep s s' res.
Proof.
  intros Hs H. destruct p; cbn [ip_parse] in H.
  - eapply code_span_parse_s_ok; eassumption.
  - destruct (link_parse_ok _ _ _ _ _ Hs H) as (L' & Hs' & Hk & Hn). exists L'. split; [exact Hs'|]. split; [exact Hk|].
    intros n E. left. apply ndelim_dlk. apply Hn. exact E.
  - eapply autolink_parse_ok; eassumption.
  - eapply raw_html_parse_ok; eassumption.
  - eapply emphasis_parse_ok; eassumption.
Qed.


(* ---------- used by the line scan (TypoDefWfInlLoop.v) ---------- *)
Lemma ri_in_range_intro r : RI r -> b_line r < zlen lines -> s_start (b_pos r) < s_stop (b_pos r) -> b_in_range r = true.
Proof.
  intros H Hl Hs. apply in_range_iff. rewrite (ri_segs _ _ _ H). split; [exact Hl|].
  pose proof (ri_bounds _ _ _ H) as Hb. split; [lia|].
  destruct (binv_cur r (ri_inv _ _ _ H)) as (s0 & pre & post & _ & _ & _ & _ & _ & Hc & _ & _ & Hle & _).
  { rewrite (ri_segs _ _ _ H). exact Hl. }
  lia.
Qed.

Lemma trim_right_in t t' : seg_in src t = true -> seg_trim_right_space space_table src t = Ok t' -> seg_in src t' = true.
Proof.
  intros Hin H. apply seg_in_iff in Hin. unfold seg_trim_right_space in H.
  rewrite BReaderProofs.slice_ok in H by lia. cbn [bind] in H.
  pose proof (br_trs_range space_table (sub src (s_start t) (s_stop t))) as Hb. rewrite sub_length in Hb by lia.
  destruct (_ =? _); inversion H; subst t'; apply seg_in_intro; cbn [mkseg mksegp s_start s_stop s_pad]; lia.
Qed.

End Parsers.
