(* Helper file for TypoDefWfTotBlkDl.v: definitionDescriptionParser.Close (IsTight; the first
   paragraph child of a tight description becomes a TextBlock). *)
Require Import GM.model.Base GM.model.Util GM.model.Reader GM.model.ReaderSpec GM.model.Blocks GM.model.ListItem
               GM.model.LeafBlocks GM.model.CodeBlock GM.model.LinkDest GM.model.Regex GM.model.BlockParse
               GM.model.TypoDefParseD.
Require Import GM.proofs.ReaderProofs GM.proofs.BlocksProofs GM.proofs.ParseBlocksTotalReader
               GM.proofs.ParseBlocksTotalDefs GM.proofs.ParseBlocksTotalSpec GM.proofs.ParseBlocksTotalSt
               GM.proofs.ParseBlocksTotalShape GM.proofs.ParseBlocksTotalLeaf GM.proofs.ParseBlocksTotalLeaf2
               GM.proofs.TypoDefWfTotBlkDefs GM.proofs.TypoDefWfTotBlkSpec GM.proofs.TypoDefWfTotBlkTc
               GM.proofs.TypoDefWfTotBlkDlA.
From Coq Require Import ZArith Lia List Bool.
Import ListNotations.
Open Scope Z_scope.

(* the first paragraph among nodes of the heap *)
Lemma dl_first_paragraph h : forall l, Forall (fun g => (g < length h)%nat) l ->
  exists r, first_paragraph h l = Ok r /\
    match r with
    | None => True
    | Some g => In g l /\ exists gn, nth_error h g = Some gn /\ bk gn = BParagraph
    end.
Proof.
  induction l as [|g tl IH]; intros HF; cbn [first_paragraph].
  - exists None. auto.
  - inversion HF as [|x1 l1 Hg Htl]; subst. destruct (nth_error_ex_lt h g Hg) as [gn Eg].
    rewrite (hget_some _ _ _ Eg). cbn [bind]. destruct (bkind_eqb_spec (bk gn) BParagraph) as [K|K].
    + exists (Some g). split; [reflexivity|]. split; [left; reflexivity|]. exists gn. auto.
    + destruct (IH Htl) as [r [Er Hr]]. exists r. split; [exact Er|]. destruct r as [g'|]; [|exact I].
      destruct Hr as [I1 I2]. split; [right; exact I1|exact I2].
Qed.

Section S.
Variable space_table : list N.
Variable src : bytes.
Notation SI := (SI space_table src).
Notation SD := (SD space_table src).
Notation HInv := (HInv space_table src).
Notation HStep := (HStep space_table src).
Notation close_postD := (close_postD space_table src).

(* the shape of the postcondition of a Close that leaves reader and context alone *)
Lemma dl_close_postD_h node s h' : SI (st_h s h') -> close_frame node (close_detachD PHTML node s) (s_h s) h' ->
  close_postD PHTML node s (st_h s h').
Proof.
  intros S1 F. unfold close_postD, cframe. cbn [st_h s_h s_c s_r]. csplit; auto; intros C; discriminate.
Qed.

Lemma dl_defdesc_close_ok s node n : SD s -> nth_error (s_h s) node = Some n -> is_dd n = true ->
  exists s', defdesc_close s node = Ok s' /\ close_postD PHTML node s s' /\ TC (s_h s') /\ kkeep (s_h s) (s_h s').
Proof.
  intros HD Hn Edd. pose proof HD as [HS HT]. pose proof (is_dd_kind _ Edd) as Kn.
  assert (Hnl : (node < length (s_h s))%nat) by (eapply nth_error_lt, Hn).
  unfold defdesc_close. rewrite (hget_some _ _ _ Hn). cbn [bind]. rewrite (hupd_ok _ _ _ _ Hn). cbn [bind].
  cbv zeta. set (tight := negb (bblank n)). set (n1 := set_tight n tight). set (h1 := hset (s_h s) node n1).
  assert (HD1 : SD (st_h s h1)) by (apply dl_SD_upd with (n := n); auto).
  pose proof HD1 as [S1 T1]. cbn [st_h s_h] in T1.
  assert (Hstay : exists s', Ok (st_h s h1) = Ok s' /\ close_postD PHTML node s s' /\ TC (s_h s') /\ kkeep (s_h s) (s_h s')).
  { exists (st_h s h1). split; [reflexivity|]. csplit.
    - apply dl_close_postD_h; [exact S1|]. unfold h1. apply (close_frame_hset (fun x => x) src node _ _ n n1); auto.
    - exact T1.
    - cbn [st_h s_h]. unfold h1. apply kkeep_hset with (n := n); auto. }
  destruct (negb tight); [exact Hstay|]. cbn [st_h s_h].
  pose proof (hi_ch _ _ _ (si_h _ _ _ HS) node n Hn) as Hch.
  destruct (dl_first_paragraph h1 (bch n)) as [fp [Efp Hfp]].
  { eapply Forall_impl; [|exact Hch]. cbv beta. intros c Hc. unfold h1. rewrite hset_length. lia. }
  rewrite Efp. cbn [bind]. destruct fp as [g|]; [|exact Hstay].
  destruct Hfp as (Hin & gn & Hg1 & Kg).
  rewrite Forall_forall in Hch. pose proof (Hch g Hin) as Hgr.
  assert (Hg : nth_error (s_h s) g = Some gn) by (unfold h1 in Hg1; rewrite hset_other in Hg1 by lia; exact Hg1).
  rewrite (hget_some _ _ _ Hg1). cbn [bind]. rewrite new_node_eq. cbn [st_h s_h].
  set (tn := set_lines (mknode BTextBlock 0) (blines gn)).
  assert (L1 : length h1 = length (s_h s)) by (unfold h1; apply hset_length).
  assert (HD2 : SD (st_h (st_h s h1) (h1 ++ [tn]))).
  { apply (dl_SD_new space_table src (st_h s h1) tn HD1); [reflexivity|reflexivity| |discriminate].
    unfold ParseBlocksTotalDefs.node_ok. cbn. exact I. }
  pose proof HD2 as [S2 T2]. cbn [st_h s_h] in T2.
  assert (Ht : nth_error (h1 ++ [tn]) (length h1) = Some tn) by apply nth_error_alloc_new.
  assert (Hg2 : nth_error (h1 ++ [tn]) g = Some gn) by (apply nth_error_alloc_old; exact Hg1).
  destruct (replace_child_ok space_table src (h1 ++ [tn]) node g (length h1) gn tn (si_h _ _ _ S2) Hg2 Ht)
    as [h3 (E3 & St3 & L3 & F3 & B3 & _)].
  { lia. }
  { rewrite Kg. discriminate. }
  { cbn. discriminate. }
  rewrite E3. cbn [bind]. rewrite app_length in L3. cbn [length] in L3.
  destruct (tc_par _ HT node n g Hn Hin) as [gn' [Eg' Pg]]. rewrite Hg in Eg'. injection Eg' as <-.
  (* every old node, after the three steps *)
  assert (Hold : forall j x, nth_error (s_h s) j = Some x -> exists x', nth_error h3 j = Some x' /\ bk x' = bk x /\
            b_i1 x' = b_i1 x /\ blines x' = blines x /\ (bk x = BList -> bch x' = bch x) /\ (j <> g -> bpar x' = bpar x)).
  { intros j x Hj. assert (Hjl : (j < length (s_h s))%nat) by (eapply nth_error_lt, Hj).
    destruct (nth_error_ex_lt h3 j ltac:(lia)) as [x3 E3j]. exists x3. split; [exact E3j|].
    destruct (B3 j x3 E3j) as (x2 & E2 & A1 & A2 & A3 & A4 & A5 & A6).
    rewrite nth_error_app1 in E2 by lia.
    destruct (Nat.eq_dec node j) as [<-|Hne].
    - unfold h1 in E2. rewrite hset_same in E2 by exact Hnl. injection E2 as <-. rewrite Hn in Hj. injection Hj as <-.
      unfold n1 in *. cbn [set_tight bk b_i1 blines bch bpar] in *. csplit; auto. intros J. apply A5; lia.
    - unfold h1 in E2. rewrite hset_other in E2 by exact Hne. rewrite Hj in E2. injection E2 as <-.
      csplit; auto. intros J. apply A5; lia. }
  exists (st_h (st_h (st_h s h1) (h1 ++ [tn])) h3). split; [reflexivity|]. cbn [st_h s_h]. csplit.
  - change (st_h (st_h (st_h s h1) (h1 ++ [tn])) h3) with (st_h s h3). apply dl_close_postD_h.
    + change (st_h s h3) with (st_h (st_h (st_h s h1) (h1 ++ [tn])) h3). apply SI_set_h; [exact S2|exact St3].
    + split; [lia|]. intros j x Hj. destruct (Hold j x Hj) as (x' & E' & A1 & A2 & A3 & A4 & A5).
      exists x'. csplit; auto. destruct (Nat.eq_dec j g) as [->|Hne]; [|left; apply A5; exact Hne].
      right. rewrite Hg in Hj. injection Hj as <-. split; [exact Kg|]. right. csplit; auto. exists n. auto.
  - eapply TC_replace_child; [exact T2|exact E3|exact Ht|reflexivity|lia|lia|lia].
  - split; [lia|]. intros j x Hj. destruct (Hold j x Hj) as (x' & E' & A1 & A2 & _). exists x'. auto.
Qed.

End S.
